(* JsonWktP — the protojson round trip (C20) extended to the structural well-known types:
   wrappers, Struct, ListValue, Value, Empty (json_core2). *)
From Coq Require Import List Arith NArith ZArith Lia Bool Permutation.
From Coq Require Import ZifyBool ZifyNat ZifyN.
From PB Require Import Base.PBytes Wire.WireModel Msg.MsgSchema Msg.MsgValue Msg.MsgUtf8 Msg.MsgEnc Msg.MsgDec Msg.MsgValid Msg.MsgAssocP.
From PB Require Import Json.RtSchema Json.JsonMsgModel Json.JsonMsgValid Json.JsonWktValid.
From PB Require Import Text.TextMsgModel Text.TextMsgValid Text.TextMsgScalarP Text.TextMsgP Json.JsonMsgP Json.JsonFieldMaskP.
Ltac Zify.zify_post_hook ::= Z.div_mod_to_equations.
Import ListNotations.
Open Scope N_scope.

Lemma rt_find_in fps p : NoDup (map fp_num fps) -> In p fps -> rt_find fps (fp_num p) = Some p.
Proof.
  induction fps as [|q r IH]; intros Hnd Hin; [contradiction|].
  cbn [map] in Hnd. inversion Hnd as [|? ? Hn Hnd']; subst. cbn [rt_find].
  destruct Hin as [->|Hin].
  - unfold fp_num. rewrite N.eqb_refl. reflexivity.
  - destruct (f_num (fst q) =? fp_num p) eqn:E; [|apply IH; assumption].
    apply N.eqb_eq in E. exfalso. apply Hn. unfold fp_num at 1. rewrite E. apply in_map, Hin.
Qed.

Lemma value_shape_facts nm fps : value_shape nm fps = true ->
  exists f1 n1 f2 n2 f3 n3 f4 n4 f5 n5 f6 n6,
    fps = [(f1, n1); (f2, n2); (f3, n3); (f4, n4); (f5, n5); (f6, n6)] /\
    f_num f1 = 1 /\ f_num f2 = 2 /\ f_num f3 = 3 /\ f_num f4 = 4 /\ f_num f5 = 5 /\ f_num f6 = 6 /\
    f_card f1 = COpt /\ f_card f2 = COpt /\ f_card f3 = COpt /\ f_card f4 = COpt /\ f_card f5 = COpt /\ f_card f6 = COpt /\
    f_kind f1 = KS SkEnum /\ e_null (nm_enum nm n1) = true /\ f_kind f2 = KS SkDouble /\ f_kind f3 = KS SkString /\
    f_kind f4 = KS SkBool /\ (exists ts, f_kind f5 = KMsg ts /\ wkt_of nm ts = 5) /\
    (exists tl, f_kind f6 = KMsg tl /\ wkt_of nm tl = 6).
Proof.
  unfold value_shape. intros H.
  destruct fps as [|[f1 n1] [|[f2 n2] [|[f3 n3] [|[f4 n4] [|[f5 n5] [|[f6 n6] [|? ?]]]]]]]; try discriminate.
  exists f1, n1, f2, n2, f3, n3, f4, n4, f5, n5, f6, n6. split; [reflexivity|].
  repeat (apply andb_prop in H; let H' := fresh "K" in destruct H as [H H']).
  unfold value_member in *.
  assert (Hm : forall fd num, (f_num fd =? num) && negb (f_ext fd) && match f_card fd with COpt => true | _ => false end
                 && match f_oneof fd with Some 0 => true | _ => false end = true -> f_num fd = num /\ f_card fd = COpt).
  { intros fd num Hx. apply andb_prop in Hx. destruct Hx as [Hx _]. apply andb_prop in Hx. destruct Hx as [Hx Hc].
    apply andb_prop in Hx. destruct Hx as [Hx _]. apply N.eqb_eq in Hx. split; [exact Hx|]. destruct (f_card fd); try discriminate; reflexivity. }
  destruct (f_kind f1) as [[]| |] eqn:E1; try discriminate.
  destruct (f_kind f2) as [[]| |] eqn:E2; try discriminate.
  destruct (f_kind f3) as [[]| |] eqn:E3; try discriminate.
  destruct (f_kind f4) as [[]| |] eqn:E4; try discriminate.
  destruct (f_kind f5) as [|ts|] eqn:E5; try discriminate.
  destruct (f_kind f6) as [|tl|] eqn:E6; try discriminate.
  repeat match goal with
         | Hx : (_ =? _) && _ && _ && _ = true |- _ => apply Hm in Hx; destruct Hx
         end.
  repeat match goal with Hx : (wkt_of _ _ =? _) = true |- _ => apply N.eqb_eq in Hx end.
  repeat split; try assumption; try (eexists; split; [reflexivity|assumption]).
  - apply N.eqb_eq, H.
  - destruct (f_card f1); try discriminate; reflexivity.
Qed.

(* ---------- members and the "@type" key ---------- *)
Lemma dec_members_skip cd nm recd fps : forall ms st,
  (forall kv, In kv ms -> fst kv <> s_at_type) ->
  dec_members cd nm recd fps true ms st = dec_members cd nm recd fps false ms st.
Proof.
  induction ms as [|kv ms IH]; intros st H; [reflexivity|].
  cbn [dec_members].
  assert (Hm : dec_member cd nm recd fps true st kv = dec_member cd nm recd fps false st kv).
  { unfold dec_member. rewrite (bs_eqb_neq _ _ (H kv (or_introl eq_refl))). reflexivity. }
  rewrite Hm. destruct (dec_member cd nm recd fps false st kv) as [st'|e]; [|reflexivity].
  cbn [jbind]. apply IH. intros kv' Hin. apply H. right. exact Hin.
Qed.

Lemma find_type_url_rest (ms : list (list byte * jv)) found :
  (forall kv, In kv ms -> fst kv <> s_at_type) -> find_type_url ms found = JOk found.
Proof.
  revert found. induction ms as [|[k j] ms IH]; intros found H; [reflexivity|].
  cbn [find_type_url]. rewrite (bs_eqb_neq k s_at_type (H (k, j) (or_introl eq_refl))).
  apply IH. intros kv Hin. apply H. right. exact Hin.
Qed.

Lemma jmapM_concat_keys {A} (f : A -> jres (list (list byte * jv))) (name : A -> list byte) :
  (forall a ms, f a = JOk ms -> forall kv, In kv ms -> fst kv = name a) ->
  forall l mss, jmapM f l = JOk mss -> forall kv, In kv (concat mss) -> exists a, In a l /\ fst kv = name a.
Proof.
  intros Hf. induction l as [|a l IH]; intros mss H kv Hin.
  - cbn [jmapM] in H. inversion H; subst. destruct Hin.
  - cbn [jmapM] in H. destruct (f a) as [ms|] eqn:Ea; [|discriminate]. cbn [jbind] in H.
    destruct (jmapM f l) as [mss'|] eqn:El; [|discriminate]. cbn [jbind] in H. inversion H; subst.
    cbn [concat] in Hin. apply in_app_or in Hin. destruct Hin as [Hin|Hin].
    + exists a. split; [left; reflexivity|]. eapply Hf; eassumption.
    + destruct (IH mss' eq_refl kv Hin) as (a' & Ha' & E). exists a'. split; [right; exact Ha'|exact E].
Qed.

Lemma json_members_keys cd o S nm rect tid fs ms :
  json_members cd o S nm rect tid fs = JOk ms ->
  forall kv, In kv ms -> exists p, In p (rt_fields S nm tid) /\ fst kv = json_name o (snd p).
Proof.
  unfold json_members. intros H kv Hin.
  destruct (jmapM (json_member cd o nm rect fs) (rt_field_order (rt_fields S nm tid))) as [mss|] eqn:E; [|discriminate].
  cbn [jbind] in H. inversion H; subst ms.
  destruct (jmapM_concat_keys (json_member cd o nm rect fs) (fun p => json_name o (snd p))) with (l := rt_field_order (rt_fields S nm tid)) (mss := mss) (kv := kv)
    as (p & Hp & Ek); try assumption.
  - intros a ms' Ha kv' Hin'. unfold json_member in Ha.
    destruct (msg_fget fs (f_num (fst a))).
    + destruct (o_emit_unpop o || o_emit_defaults o); [|inversion Ha; subst; destruct Hin'].
      destruct (json_default cd o nm (fst a) (snd a)); inversion Ha; subst; [|destruct Hin'].
      destruct Hin' as [<-|[]]. reflexivity.
    + destruct (json_field_value cd o nm rect (fst a) (snd a) (v :: l)); [|discriminate]. cbn [jbind] in Ha.
      inversion Ha; subst. destruct Hin' as [<-|[]]. reflexivity.
  - exists p. split; [|exact Ek]. eapply Permutation.Permutation_in; [apply rt_field_order_perm|exact Hp].
Qed.

Definition is_jobj (j : jv) : Prop := exists l, j = JObj l.
Definition is_jarr (j : jv) : Prop := exists l, j = JArr l.

Definition shape_ok (w : N) (j : jv) : Prop :=
  (is_jnull j = true -> w = 7) /\ (w = 5 -> is_jobj j) /\ (w = 6 -> is_jarr j).

Section W.
  Variable cd : jcodec.
  Hypothesis Hb64 : forall bs, b64_dec cd (b64_enc cd bs) = Some bs.
  Variable o : jopts.
  Variable S : schema.
  Variable nm : names.
  Variable lim : nat.
  Hypothesis Hschema : json_schema_ok S nm = true.
  Hypothesis Hcore2 : json_core2 S nm = true.
  Hypothesis Hts : forall s n, ts_in_range s n = true -> ts_parse cd (ts_fmt cd s n) = Some (s, n).
  Hypothesis Hdur : forall s n, dur_in_range s n = true -> dur_parse cd (dur_fmt cd s n) = Some (s, n).

  Variable recv : nat -> value -> bool.
  Variable rect : nat -> value -> jres jv.
  Variable recd : nat -> jv -> jres value.
  Hypothesis Hrec : forall tid v, recv tid v = true ->
    exists j, rect tid v = JOk j /\ shape_ok (wkt_of nm tid) j /\ recd tid j = JOk (strip_unknown v).

  Lemma Hrec' : forall tid v, recv tid v = true ->
    exists j, rect tid v = JOk j /\ (is_jnull j = true -> mn_wkt (nm_msg nm tid) = 7) /\
              recd tid j = JOk (strip_unknown v).
  Proof.
    intros tid v H. destruct (Hrec tid v H) as (j & Hj & (Hs & _) & Hd). exists j. repeat split; assumption.
  Qed.

  Lemma core2_at tid : (tid < length S)%nat ->
    let fps := rt_fields S nm tid in
    no_special_groups nm fps = true /\
    match wkt_of nm tid with
    | 0 => True
    | 1 => jany_shape fps = true
    | 2 | 3 => secs_nanos_shape fps = true
    | 4 => wrapper_shape fps = true
    | 5 => struct_shape nm fps = true
    | 6 => listvalue_shape nm fps = true
    | 7 => value_shape nm fps = true
    | 8 => fieldmask_shape fps = true
    | 9 => fps = []
    | _ => False
    end.
  Proof.
    intros Hlt fps. unfold json_core2 in Hcore2. rewrite forallb_forall in Hcore2.
    assert (H := Hcore2 tid ltac:(apply in_seq; lia)). cbn zeta in H. fold fps in H.
    apply andb_prop in H. destruct H as [Hg H]. split; [exact Hg|].
    destruct (wkt_of nm tid) as [|p]; [exact I|].
    do 4 (try destruct p as [p|p|]); try discriminate; try exact H.
    destruct fps; [reflexivity|discriminate].
  Qed.

  Lemma core2_cases tid : (tid < length S)%nat ->
    wkt_of nm tid = 0 \/ wkt_of nm tid = 1 \/ wkt_of nm tid = 2 \/ wkt_of nm tid = 3 \/ wkt_of nm tid = 4 \/ wkt_of nm tid = 5 \/ wkt_of nm tid = 6 \/ wkt_of nm tid = 7 \/ wkt_of nm tid = 8 \/ wkt_of nm tid = 9.
  Proof.
    intros Hlt. destruct (core2_at tid Hlt) as [_ H].
    destruct (wkt_of nm tid) as [|p]; [auto|].
    do 4 (try destruct p as [p|p|]); cbn in H; try contradiction; auto 10.
  Qed.

  Lemma groups_ok tid : (tid < length S)%nat ->
    forall p, In p (rt_fields S nm tid) -> forall t, f_kind (fst p) = KGrp t -> mn_wkt (nm_msg nm t) <> 7.
  Proof.
    intros Hlt p Hp t Hk. destruct (core2_at tid Hlt) as [Hg _]. unfold no_special_groups in Hg.
    rewrite forallb_forall in Hg. specialize (Hg p Hp). rewrite Hk in Hg. apply N.eqb_eq in Hg.
    unfold wkt_of in Hg. rewrite Hg. discriminate.
  Qed.

  (* ---- a message with exactly one field, number 1 ---- *)
  Lemma single_field_fs fd fn fs :
    f_num fd = 1 -> msg_sorted 0 fs ->
    (forall k vs, In (k, vs) fs -> exists p, In p [(fd, fn)] /\ fp_num p = k /\ jvalid_field nm recv (fst p) (snd p) vs = true) ->
    fs = [] \/ exists vs, fs = [(1, vs)] /\ jvalid_field nm recv fd fn vs = true.
  Proof.
    intros Hn Hs Hc. destruct fs as [|[k vs] [|[k2 vs2] r]].
    - left. reflexivity.
    - right. destruct (Hc k vs (or_introl eq_refl)) as (p & [<-|[]] & Hk & Hv). unfold fp_num in Hk. cbn [fst snd] in *.
      exists vs. split; [congruence|exact Hv].
    - exfalso.
      destruct (Hc k vs (or_introl eq_refl)) as (p & [<-|[]] & Hk & _).
      destruct (Hc k2 vs2 (or_intror (or_introl eq_refl))) as (p2 & [<-|[]] & Hk2 & _).
      unfold fp_num in *. cbn [fst] in *. cbn [msg_sorted fst] in Hs. destruct Hs as (_ & Hlt & _). lia.
  Qed.

  (* ---- list / map field values, possibly empty ---- *)
  Lemma json_field_value_rt fd fn vs :
    (f_kind fd = KS SkEnum -> enum_ok (nm_enum nm fn) = true) ->
    (forall t, f_kind fd = KGrp t -> mn_wkt (nm_msg nm t) <> 7) ->
    (vs = [] \/ jvalid_field nm recv fd fn vs = true) ->
    (exists kk u d, f_card fd = CMap kk u d /\ json_key_kind_ok kk = true) \/ f_card fd = CRep \/ f_card fd = CPacked ->
    exists j, json_field_value cd o nm rect fd fn vs = JOk j /\
      (match f_card fd with CMap _ _ _ => is_jobj j | _ => is_jarr j end) /\
      forall st, msg_fget (ds_fs st) (f_num fd) = [] ->
        dec_field cd nm recd fd fn j st =
        JOk (mkDS (store (ds_fs st) (f_num fd) (svals vs)) (ds_seen st) (ds_oneofs st)).
  Proof.
    intros He Hg Hval Hcard. unfold json_field_value.
    destruct Hcard as [(kk & u & d & Ecard & Hkk)|[Ecard|Ecard]]; rewrite Ecard.
    - (* map *)
      assert (Hall0 : forall a, In a vs -> jvalid_entry nm recv fd fn kk a = true).
      { destruct Hval as [->|Hval]; [intros a []|]. unfold jvalid_field in Hval. rewrite Ecard in Hval.
        apply andb_prop in Hval. destruct Hval as [Hval _]. apply andb_prop in Hval. destruct Hval as [Hval _].
        destruct vs; [discriminate|]. rewrite forallb_forall in Hval. exact Hval. }
      assert (Hsorted : msg_entries_sorted vs = true).
      { destruct Hval as [->|Hval]; [reflexivity|]. unfold jvalid_field in Hval. rewrite Ecard in Hval.
        apply andb_prop in Hval. destruct Hval as [Hval _]. apply andb_prop in Hval. destruct Hval as [_ Hval]. exact Hval. }
      destruct (jmapM_ok (json_entry cd o nm rect fd fn kk)
                  (fun e kv => exists k v, e = VEntry k v /\ dec_key kk (fst kv) = JOk k /\
                     dec_elem cd nm recd fd fn (snd kv) = JOk (strip_unknown v)) vs) as (es & Hes & Hall).
      { intros a Ha. eapply json_entry_rt; try eassumption. apply Hrec'. apply Hall0, Ha. }
      rewrite Hes. cbn [jbind]. eexists. split; [reflexivity|]. split; [eexists; reflexivity|].
      intros st Hfresh. unfold dec_field. rewrite Ecard, Hfresh.
      rewrite (json_entries_dec cd nm recd fd fn kk vs es Hall Hsorted []).
      + reflexivity.
      + rewrite Forall_forall. intros e He'. specialize (Hall0 e He').
        unfold jvalid_entry in Hall0. destruct e; try discriminate. cbn [key_gt_all]. constructor.
    - (* repeated *)
      assert (Hall0 : forall a, In a vs -> jvalid_elem nm recv fd fn a = true).
      { destruct Hval as [->|Hval]; [intros a []|]. unfold jvalid_field in Hval. rewrite Ecard in Hval.
        destruct vs; [discriminate|]. rewrite forallb_forall in Hval. exact Hval. }
      destruct (jmapM_ok (json_elem cd o nm rect fd fn)
                  (fun v j => dec_elem cd nm recd fd fn j = JOk (strip_unknown v)) vs) as (xs & Hxs & Hall).
      { intros a Ha. destruct (json_elem_rt cd Hb64 o nm recv rect recd Hrec' fd fn a (Hall0 a Ha) He Hg) as (j & Hj & Hd & _).
        exists j. split; assumption. }
      rewrite Hxs. cbn [jbind]. eexists. split; [reflexivity|]. split; [eexists; reflexivity|].
      intros st Hfresh. unfold dec_field. rewrite Ecard, Hfresh.
      rewrite (jmapM_dec _ strip_unknown xs vs Hall). reflexivity.
    - (* packed *)
      assert (Hall0 : forall a, In a vs -> jvalid_elem nm recv fd fn a = true).
      { destruct Hval as [->|Hval]; [intros a []|]. unfold jvalid_field in Hval. rewrite Ecard in Hval.
        destruct vs; [discriminate|]. rewrite forallb_forall in Hval. exact Hval. }
      destruct (jmapM_ok (json_elem cd o nm rect fd fn)
                  (fun v j => dec_elem cd nm recd fd fn j = JOk (strip_unknown v)) vs) as (xs & Hxs & Hall).
      { intros a Ha. destruct (json_elem_rt cd Hb64 o nm recv rect recd Hrec' fd fn a (Hall0 a Ha) He Hg) as (j & Hj & Hd & _).
        exists j. split; assumption. }
      rewrite Hxs. cbn [jbind]. eexists. split; [reflexivity|]. split; [eexists; reflexivity|].
      intros st Hfresh. unfold dec_field. rewrite Ecard, Hfresh.
      rewrite (jmapM_dec _ strip_unknown xs vs Hall). reflexivity.
  Qed.
  Lemma zero_is_zero sk : msg_scalar_is_zero (sk_zero sk) = true.
  Proof. destruct sk; reflexivity. Qed.

  Lemma svals_nonempty (vs : list value) : vs <> [] -> svals vs <> [].
  Proof. destruct vs; [congruence|discriminate]. Qed.

  (* ---- wrappers ---- *)
  Lemma wrapper_rt tid fs :
    (tid < length S)%nat -> wkt_of nm tid = 4 ->
    msg_keys_sorted 0 fs = true -> forallb (jvalid_chunk nm recv (rt_fields S nm tid)) fs = true ->
    exists j, json_wrapper cd o S nm tid fs = JOk j /\ is_jnull j = false /\
              dec_wrapper cd S nm tid j = JOk (VMsg (map sp fs) []).
  Proof.
    intros Hlt Hw Hs Hc. destruct (core2_at tid Hlt) as [_ Hshape]. rewrite Hw in Hshape.
    apply msg_keys_sorted_spec in Hs.
    pose proof (jchunks_of S nm recv tid fs Hc) as Hchunks.
    unfold wrapper_shape in Hshape. unfold json_wrapper, dec_wrapper.
    destruct (rt_fields S nm tid) as [|[fd fn] [|? ?]] eqn:Efps; try discriminate.
    apply andb_prop in Hshape. destruct Hshape as [Hshape Hk]. apply andb_prop in Hshape. destruct Hshape as [Hshape _].
    apply andb_prop in Hshape. destruct Hshape as [N1 _]. apply N.eqb_eq in N1.
    destruct (f_card fd) eqn:Ecard; try discriminate. destruct (f_kind fd) as [sk| |] eqn:Ek; try discriminate.
    assert (Hsk : sk <> SkEnum) by (intros ->; discriminate).
    cbn [rt_find fst]. rewrite N1. cbn [N.eqb Pos.eqb]. rewrite !Ek.
    destruct (single_field_fs fd fn fs N1 Hs Hchunks) as [->|(vs & -> & Hv)].
    - cbn [msg_fget].
      destruct (json_scalar_rt cd Hb64 o (nm_enum nm fn) sk (sk_zero sk) (json_zero_ok _ sk)) as (j & Hj & Hd & Hn).
      { intros E. contradiction. }
      exists j. split; [exact Hj|]. split.
      + destruct (is_jnull j) eqn:En; [|reflexivity]. destruct (Hn eq_refl) as [E _]. contradiction.
      + rewrite Hd. cbn [jbind]. rewrite zero_is_zero. reflexivity.
    - unfold jvalid_field in Hv. rewrite Ecard in Hv. destruct vs as [|[s| |] [|? ?]]; try discriminate.
      apply andb_prop in Hv. destruct Hv as [Hv Hnz]. apply negb_true_iff in Hnz.
      unfold jvalid_elem in Hv. rewrite Ek in Hv.
      cbn [msg_fget N.eqb Pos.eqb].
      destruct (json_scalar_rt cd Hb64 o (nm_enum nm fn) sk s Hv) as (j & Hj & Hd & Hn).
      { intros E. contradiction. }
      exists j. split; [exact Hj|]. split.
      + destruct (is_jnull j) eqn:En; [|reflexivity]. destruct (Hn eq_refl) as [E _]. contradiction.
      + rewrite Hd. cbn [jbind]. rewrite Hnz. reflexivity.
  Qed.

  (* ---- Timestamp and Duration ---- *)
  Lemma secs_nanos_fs tid fs :
    (tid < length S)%nat -> wkt_of nm tid = 2 \/ wkt_of nm tid = 3 ->
    msg_keys_sorted 0 fs = true -> forallb (jvalid_chunk nm recv (rt_fields S nm tid)) fs = true ->
    map sp fs = fs /\ fs = set_nz (set_nz [] 1 (get_z fs 1)) 2 (get_z fs 2).
  Proof.
    intros Hlt Hw Hs Hc. destruct (core2_at tid Hlt) as [_ Hshape].
    assert (Hsh : secs_nanos_shape (rt_fields S nm tid) = true) by (destruct Hw as [E|E]; rewrite E in Hshape; exact Hshape).
    clear Hshape. apply msg_keys_sorted_spec in Hs.
    pose proof (jchunks_of S nm recv tid fs Hc) as Hchunks.
    unfold secs_nanos_shape in Hsh.
    destruct (rt_fields S nm tid) as [|[f1 n1] [|[f2 n2] [|? ?]]]; try discriminate.
    apply andb_prop in Hsh. destruct Hsh as [Hsh Hk]. apply andb_prop in Hsh. destruct Hsh as [Hsh _].
    apply andb_prop in Hsh. destruct Hsh as [Hsh _]. apply andb_prop in Hsh. destruct Hsh as [N1 N2].
    apply N.eqb_eq in N1, N2.
    destruct (f_card f1) eqn:C1; try discriminate. destruct (f_kind f1) as [[]| |] eqn:K1; try discriminate.
    destruct (f_card f2) eqn:C2; try discriminate. destruct (f_kind f2) as [[]| |] eqn:K2; try discriminate.
    assert (Hentry : forall k vs, In (k, vs) fs -> (k = 1 \/ k = 2) /\ exists z, z <> 0%Z /\ vs = [VS (SZ z)]).
    { intros k vs Hin. destruct (Hchunks k vs Hin) as (p & Hp & Hk' & Hv). unfold fp_num in Hk'.
      destruct Hp as [<-|[<-|[]]]; cbn [fst snd] in *; unfold jvalid_field in Hv.
      - rewrite C1 in Hv. destruct vs as [|[s| |] [|? ?]]; try discriminate.
        apply andb_prop in Hv. destruct Hv as [Hv Hnz]. unfold jvalid_elem in Hv. rewrite K1 in Hv.
        unfold json_scalar_ok, rt_scalar_ok in Hv. destruct s as [z| | |]; cbn [sk_ok andb] in Hv; try discriminate.
        split; [left; lia|]. exists z. split; [|reflexivity]. intros ->. discriminate.
      - rewrite C2 in Hv. destruct vs as [|[s| |] [|? ?]]; try discriminate.
        apply andb_prop in Hv. destruct Hv as [Hv Hnz]. unfold jvalid_elem in Hv. rewrite K2 in Hv.
        unfold json_scalar_ok, rt_scalar_ok in Hv. destruct s as [z| | |]; cbn [sk_ok andb] in Hv; try discriminate.
        split; [right; lia|]. exists z. split; [|reflexivity]. intros ->. discriminate. }
    destruct fs as [|[k1 v1] [|[k2 v2] [|[k3 v3] r]]].
    - split; reflexivity.
    - destruct (Hentry _ _ (or_introl eq_refl)) as ([K|K] & z & Hz & ->); subst k1.
      + split; [reflexivity|]. unfold get_z, set_nz. cbn [msg_fget N.eqb Pos.eqb].
        destruct (z =? 0)%Z eqn:E; [apply Z.eqb_eq in E; contradiction|]. reflexivity.
      + split; [reflexivity|]. unfold get_z, set_nz. cbn [msg_fget N.eqb Pos.eqb].
        destruct (z =? 0)%Z eqn:E; [apply Z.eqb_eq in E; contradiction|]. reflexivity.
    - destruct (Hentry _ _ (or_introl eq_refl)) as (K1' & z1 & Hz1 & ->).
      destruct (Hentry _ _ (or_intror (or_introl eq_refl))) as (K2' & z2 & Hz2 & ->).
      cbn [msg_sorted fst] in Hs. destruct Hs as (_ & Hlt' & _).
      assert (k1 = 1 /\ k2 = 2) as [-> ->] by lia.
      split; [reflexivity|]. unfold get_z, set_nz. cbn [msg_fget N.eqb Pos.eqb].
      destruct (z1 =? 0)%Z eqn:E1; [apply Z.eqb_eq in E1; contradiction|].
      destruct (z2 =? 0)%Z eqn:E2; [apply Z.eqb_eq in E2; contradiction|]. reflexivity.
    - exfalso.
      destruct (Hentry _ _ (or_introl eq_refl)) as (K1' & _).
      destruct (Hentry _ _ (or_intror (or_introl eq_refl))) as (K2' & _).
      destruct (Hentry _ _ (or_intror (or_intror (or_introl eq_refl)))) as (K3' & _).
      cbn [msg_sorted fst] in Hs. destruct Hs as (_ & Hl1 & Hl2 & _). lia.
  Qed.

  (* ---- Any ---- *)
  Lemma jany_fs tid fs :
    (tid < length S)%nat -> wkt_of nm tid = 1 ->
    msg_keys_sorted 0 fs = true -> forallb (jvalid_chunk nm recv (rt_fields S nm tid)) fs = true ->
    map sp fs = fs /\
    fs = (match get_bytes fs 1 with [] => [] | u => [(1, [VS (SBy u)])] end)
         ++ (match get_bytes fs 2 with [] => [] | b => [(2, [VS (SBy b)])] end) /\
    (has_field fs 1 = false -> get_bytes fs 1 = []) /\ (has_field fs 2 = false -> get_bytes fs 2 = []) /\
    (has_field fs 1 = true -> get_bytes fs 1 <> [] /\ msg_utf8_valid (get_bytes fs 1) = true).
  Proof.
    intros Hlt Hw Hs Hc. destruct (core2_at tid Hlt) as [_ Hsh]. rewrite Hw in Hsh.
    apply msg_keys_sorted_spec in Hs.
    pose proof (jchunks_of S nm recv tid fs Hc) as Hchunks.
    unfold jany_shape in Hsh.
    destruct (rt_fields S nm tid) as [|[f1 n1] [|[f2 n2] [|? ?]]]; try discriminate.
    apply andb_prop in Hsh. destruct Hsh as [Hsh Hk]. apply andb_prop in Hsh. destruct Hsh as [Hsh _].
    apply andb_prop in Hsh. destruct Hsh as [Hsh _]. apply andb_prop in Hsh. destruct Hsh as [N1 N2].
    apply N.eqb_eq in N1, N2.
    destruct (f_card f1) eqn:C1; try discriminate. destruct (f_kind f1) as [[]| |] eqn:K1; try discriminate.
    destruct (f_card f2) eqn:C2; try discriminate. destruct (f_kind f2) as [[]| |] eqn:K2; try discriminate.
    assert (Hentry : forall k vs, In (k, vs) fs ->
              (k = 1 /\ exists b, b <> [] /\ msg_utf8_valid b = true /\ vs = [VS (SBy b)]) \/
              (k = 2 /\ exists b, b <> [] /\ vs = [VS (SBy b)])).
    { intros k vs Hin. destruct (Hchunks k vs Hin) as (p & Hp & Hk' & Hv). unfold fp_num in Hk'.
      destruct Hp as [<-|[<-|[]]]; cbn [fst snd] in *; unfold jvalid_field in Hv.
      - rewrite C1 in Hv. destruct vs as [|[s| |] [|? ?]]; try discriminate.
        apply andb_prop in Hv. destruct Hv as [Hv Hnz]. unfold jvalid_elem in Hv. rewrite K1 in Hv.
        unfold json_scalar_ok, rt_scalar_ok in Hv. destruct s as [| | |b]; cbn [sk_ok andb] in Hv; try discriminate.
        left. split; [lia|]. exists b. split; [intros ->; discriminate|]. split; [|reflexivity].
        apply andb_prop in Hv. destruct Hv as [Hv _]. apply andb_prop in Hv. destruct Hv as [Hv _]. exact Hv.
      - rewrite C2 in Hv. destruct vs as [|[s| |] [|? ?]]; try discriminate.
        apply andb_prop in Hv. destruct Hv as [Hv Hnz]. unfold jvalid_elem in Hv. rewrite K2 in Hv.
        unfold json_scalar_ok, rt_scalar_ok in Hv. destruct s as [| | |b]; cbn [sk_ok andb] in Hv; try discriminate.
        right. split; [lia|]. exists b. split; [intros ->; discriminate|reflexivity]. }
    unfold has_field, get_bytes.
    destruct fs as [|[k1 v1] [|[k2 v2] [|[k3 v3] r]]].
    - repeat split; try reflexivity; try discriminate.
    - destruct (Hentry _ _ (or_introl eq_refl)) as [(-> & b & Hb & Hu & ->)|(-> & b & Hb & ->)];
        cbn [msg_fget N.eqb Pos.eqb map sp fst snd strip_unknown]; (destruct b; [congruence|]);
        repeat split; try reflexivity; try discriminate; try assumption.
    - destruct (Hentry _ _ (or_introl eq_refl)) as [(K1' & b1 & Hb1 & Hu1 & ->)|(K1' & b1 & Hb1 & ->)];
      destruct (Hentry _ _ (or_intror (or_introl eq_refl))) as [(K2' & b2 & Hb2 & Hu2 & ->)|(K2' & b2 & Hb2 & ->)];
      cbn [msg_sorted fst] in Hs; destruct Hs as (_ & Hlt' & _); try lia. subst k1 k2.
      cbn [msg_fget N.eqb Pos.eqb map sp fst snd strip_unknown].
      destruct b1; [congruence|]. destruct b2; [congruence|].
      repeat split; try reflexivity; try discriminate; try assumption.
    - exfalso.
      assert (H1 : k1 = 1 \/ k1 = 2) by (destruct (Hentry _ _ (or_introl eq_refl)) as [(K & _)|(K & _)]; auto).
      assert (H2 : k2 = 1 \/ k2 = 2) by (destruct (Hentry _ _ (or_intror (or_introl eq_refl))) as [(K & _)|(K & _)]; auto).
      assert (H3 : k3 = 1 \/ k3 = 2) by (destruct (Hentry _ _ (or_intror (or_intror (or_introl eq_refl)))) as [(K & _)|(K & _)]; auto).
      cbn [msg_sorted fst] in Hs. destruct Hs as (_ & Hl1 & Hl2 & _). lia.
  Qed.

  Lemma any_rt tid fs :
    (tid < length S)%nat -> wkt_of nm tid = 1 ->
    msg_keys_sorted 0 fs = true -> forallb (jvalid_chunk nm recv (rt_fields S nm tid)) fs = true ->
    jvalid_any true (o_emit_unpop o) S nm lim recv fs = true ->
    exists j, json_any cd o S nm lim rect fs = JOk j /\ is_jnull j = false /\
              dec_any cd S nm recd j = JOk (VMsg (map sp fs) []).
  Proof.
    intros Hlt Hw Hs Hc Hany.
    destruct (jany_fs tid fs Hlt Hw Hs Hc) as (Hsp & Hfs & H1 & H2 & H1').
    rewrite Hsp. unfold jvalid_any in Hany. unfold json_any.
    destruct (has_field fs 1) eqn:E1; cbn [negb] in *.
    - (* a type URL *)
      destruct (H1' eq_refl) as [Hune Hutf]. set (url := get_bytes fs 1) in *. set (b2 := get_bytes fs 2) in *.
      destruct (resolve_url nm url) as [t|] eqn:Eres; [|discriminate].
      destruct (msg_decode false S lim t b2) as [em|] eqn:Edec; [|discriminate].
      apply andb_prop in Hany. destruct Hany as [Hany Henc]. apply andb_prop in Hany. destruct Hany as [Htl Hval].
      apply Nat.ltb_lt in Htl. apply bs_eqb_eq in Henc. rewrite Hutf. cbn [negb].
      assert (Hresult : any_of S url t (strip_unknown em) = VMsg fs []).
      { unfold any_of. rewrite Henc. rewrite Hfs. destruct url; [congruence|]. destruct b2; reflexivity. }
      destruct url as [|u0 url'] eqn:Eurl; [congruence|]. rewrite <- Eurl in *.
      change (mn_wkt (nm_msg nm t)) with (wkt_of nm t).
      destruct (is_special_wkt (wkt_of nm t)) eqn:Esp.
      + (* embedded special type: {"@type": url, "value": ...} *)
        destruct (Hrec t em Hval) as (j & Hj & _ & Hd). rewrite Hj. cbn [jbind].
        eexists. split; [reflexivity|]. split; [reflexivity|].
        unfold dec_any. cbn [find_type_url]. rewrite bs_eqb_refl. rewrite Eurl. cbn iota. rewrite <- Eurl.
        change (bs_eqb s_value s_at_type) with false. cbn iota. cbn [find_type_url jbind]. rewrite Eres.
        change (mn_wkt (nm_msg nm t)) with (wkt_of nm t).
        assert (Hw0 : (wkt_of nm t =? 0) = false).
        { unfold is_special_wkt in Esp. apply andb_prop in Esp. destruct Esp as [Esp _]. apply negb_true_iff in Esp. exact Esp. }
        rewrite Hw0. cbn [negb]. cbn [dec_any_value]. rewrite bs_eqb_refl.
        change (bs_eqb s_value s_at_type) with false. change (bs_eqb s_value s_value) with true. cbn iota.
        rewrite Hd. cbn [jbind dec_any_value]. rewrite Hresult. reflexivity.
      + (* embedded ordinary message (or Empty): {"@type": url, members...} *)
        unfold jvalid_body in Hval. destruct em as [|efs eunk|]; try discriminate.
        pose proof Hval as Hval0.
        apply andb_prop in Hval. destruct Hval as [Hval Hf11]. apply andb_prop in Hval. destruct Hval as [Hval Ho].
        apply andb_prop in Hval. destruct Hval as [Hes Hec].
        destruct (json_ordinary_rt cd Hb64 o S nm Hschema recv rect recd Hrec' t efs Htl) as (ms & Hm & Hd); try assumption.
        { apply (groups_ok t Htl). }
        rewrite Hm. cbn [jbind]. eexists. split; [reflexivity|]. split; [reflexivity|].
        assert (Hkeys : forall kv, In kv ms -> fst kv <> s_at_type).
        { intros kv Hin. destruct (json_members_keys _ _ _ _ _ _ _ _ Hm kv Hin) as (p & Hp & ->).
          apply (jschema_no_at_type S nm Hschema o t Htl p Hp). }
        unfold dec_any. cbn [find_type_url]. rewrite bs_eqb_refl. rewrite Eurl. cbn iota. rewrite <- Eurl.
        rewrite (find_type_url_rest ms (Some url) Hkeys). cbn [jbind]. rewrite Eres.
        change (mn_wkt (nm_msg nm t)) with (wkt_of nm t).
        change (strip_unknown (VMsg efs eunk)) with (VMsg (map sp efs) []) in Hresult.
        destruct (wkt_of nm t =? 0) eqn:Hw0; cbn [negb].
        * (* ordinary *)
          assert (Hdo : dec_ordinary cd S nm recd t true ((s_at_type, JStr url) :: ms) = JOk (VMsg (map sp efs) [])).
          { unfold dec_ordinary in *. cbn [dec_members]. unfold dec_member at 1. cbn [fst andb]. rewrite bs_eqb_refl.
            cbn [jbind]. rewrite (dec_members_skip cd nm recd _ ms _ Hkeys). exact Hd. }
          rewrite Hdo. cbn [jbind]. rewrite Hresult. reflexivity.
        * (* Empty: no members *)
          unfold is_special_wkt in Esp. rewrite Hw0 in Esp. cbn [negb andb] in Esp. apply negb_false_iff in Esp.
          apply N.eqb_eq in Esp.
          destruct (core2_at t Htl) as [_ Hsh]. rewrite Esp in Hsh.
          assert (ms = []) as ->.
          { unfold json_members in Hm. rewrite Hsh in Hm. unfold rt_field_order in Hm. cbn in Hm. inversion Hm. reflexivity. }
          assert (efs = []) as ->.
          { destruct efs as [|[k vs] r]; [reflexivity|].
            destruct (jchunks_of S nm recv t _ Hec k vs (or_introl eq_refl)) as (p & Hp & _). rewrite Hsh in Hp. destruct Hp. }
          cbn [dec_any_value]. rewrite bs_eqb_refl. cbn [dec_any_value jbind]. rewrite Esp. cbn [N.eqb Pos.eqb].
          cbn [map] in Hresult. rewrite Hresult. reflexivity.
    - (* empty Any *)
      apply negb_true_iff in Hany. rewrite Hany.
      eexists. split; [reflexivity|]. split; [reflexivity|].
      rewrite Hfs, (H1 eq_refl), (H2 Hany). reflexivity.
  Qed.

  (* ---- FieldMask ---- *)
  Lemma fieldmask_rt tid fs :
    (tid < length S)%nat -> wkt_of nm tid = 8 ->
    msg_keys_sorted 0 fs = true -> forallb (jvalid_chunk nm recv (rt_fields S nm tid)) fs = true ->
    forallb (fun x => match x with VS (SBy p) => fm_path_ok p | _ => false end) (msg_fget fs 1) = true ->
    exists j, json_fieldmask fs = JOk j /\ is_jnull j = false /\ dec_fieldmask j = JOk (VMsg (map sp fs) []).
  Proof.
    intros Hlt Hw Hs Hc Hpaths. destruct (core2_at tid Hlt) as [_ Hshape]. rewrite Hw in Hshape.
    apply msg_keys_sorted_spec in Hs.
    pose proof (jchunks_of S nm recv tid fs Hc) as Hchunks.
    unfold fieldmask_shape in Hshape.
    destruct (rt_fields S nm tid) as [|[fd fn] [|? ?]]; try discriminate.
    apply andb_prop in Hshape. destruct Hshape as [Hshape Hk]. apply andb_prop in Hshape. destruct Hshape as [N1 _].
    apply N.eqb_eq in N1.
    (* the paths as byte strings *)
    assert (Hps : exists ps, msg_fget fs 1 = map (fun p => VS (SBy p)) ps /\ Forall (fun p => fm_path_ok p = true) ps).
    { revert Hpaths. generalize (msg_fget fs 1). induction l as [|x l IH]; intros H.
      - exists []. split; [reflexivity|constructor].
      - cbn [forallb] in H. apply andb_prop in H. destruct H as [Hx Hl]. destruct (IH Hl) as (ps & -> & Hall).
        destruct x as [[| | |p]| |]; try discriminate. exists (p :: ps). split; [reflexivity|]. constructor; assumption. }
    destruct Hps as (ps & Eget & Hall).
    assert (Hfs : map sp fs = match ps with [] => [] | _ => [(1, map (fun p => VS (SBy p)) ps)] end).
    { destruct (single_field_fs fd fn fs N1 Hs Hchunks) as [->|(vs & -> & Hv)].
      - cbn [msg_fget] in Eget. destruct ps; [reflexivity|discriminate].
      - cbn [msg_fget N.eqb Pos.eqb] in Eget. subst vs.
        pose proof (jvalid_field_nonempty _ _ _ _ _ Hv) as Hne.
        assert (Hstrip : map strip_unknown (map (fun p => VS (SBy p)) ps) = map (fun p => VS (SBy p)) ps)
          by (rewrite map_map; apply map_ext; reflexivity).
        unfold sp. cbn [map fst snd]. rewrite Hstrip. destruct ps; [cbn in Hne; congruence|reflexivity]. }
    unfold json_fieldmask. rewrite Eget.
    assert (Hm : jmapM (fun v => match v with
                               | VS (SBy p) => if fm_path_ok p then JOk (fm_camel p) else JErr EFieldMask
                               | _ => JErr ESchema end) (map (fun p => VS (SBy p)) ps) = JOk (map fm_camel ps)).
    { clear Eget Hfs. induction Hall as [|p ps Hp Hall IH]; [reflexivity|].
      cbn [map jmapM]. rewrite Hp. cbn [jbind]. rewrite IH. reflexivity. }
    rewrite Hm. cbn [jbind]. eexists. split; [reflexivity|]. split; [reflexivity|].
    rewrite Hfs. unfold dec_fieldmask.
    destruct ps as [|p0 ps0]; [reflexivity|].
    set (ps := p0 :: ps0) in *.
    assert (Hcs : Forall (fun a => forall c, In c a -> b2n c <> 44) (map fm_camel ps) /\ Forall (fun a => a <> []) (map fm_camel ps)).
    { clear Hm Hfs Eget. induction Hall as [|p ps' Hp Hall IH]; [split; constructor|].
      destruct (fm_path_facts p Hp) as (Hv & _ & Hne). destruct IH as [I1 I2].
      split; constructor; try assumption. apply fm_camel_no_comma, Hv. }
    destruct Hcs as [Hnc Hne].
    pose proof (join_nonempty (map fm_camel ps) ltac:(subst ps; discriminate) Hne) as Hjne.
    destruct (join_comma (map fm_camel ps)) as [|c0 s0] eqn:Ej; [congruence|]. rewrite <- Ej.
    rewrite (split_join (map fm_camel ps) ltac:(subst ps; discriminate) Hnc).
    assert (Hd : jmapM (fun p => if existsb (fun c => b2n c =? 95) p || negb (fullname_valid (fm_snake p))
                                 then JErr EDecode else JOk (VS (SBy (fm_snake p)))) (map fm_camel ps)
                 = JOk (map (fun p => VS (SBy p)) ps)).
    { clear Hm Hfs Eget Hnc Hne Hjne Ej. induction Hall as [|p ps' Hp Hall IH]; [reflexivity|].
      destruct (fm_path_facts p Hp) as (Hv & Hsn & _).
      cbn [map jmapM]. rewrite fm_camel_no_underscore, Hsn, Hv. cbn [negb orb jbind]. rewrite IH. reflexivity. }
    rewrite Hd. reflexivity.
  Qed.

  (* ---- Struct and ListValue ---- *)
  Lemma field1_rt tid fs :
    (tid < length S)%nat -> wkt_of nm tid = 5 \/ wkt_of nm tid = 6 ->
    msg_keys_sorted 0 fs = true -> forallb (jvalid_chunk nm recv (rt_fields S nm tid)) fs = true ->
    exists j, json_field1 cd o S nm rect tid fs = JOk j /\
              (wkt_of nm tid = 5 -> is_jobj j) /\ (wkt_of nm tid = 6 -> is_jarr j) /\
              dec_field1 cd S nm recd tid j = JOk (VMsg (map sp fs) []).
  Proof.
    intros Hlt Hw Hs Hc. destruct (core2_at tid Hlt) as [_ Hshape].
    apply msg_keys_sorted_spec in Hs.
    pose proof (jchunks_of S nm recv tid fs Hc) as Hchunks.
    unfold json_field1, dec_field1.
    assert (Hf : exists fd fn, rt_fields S nm tid = [(fd, fn)] /\ f_num fd = 1 /\
               (exists t, f_kind fd = KMsg t) /\
               ((wkt_of nm tid = 5 /\ exists u d, f_card fd = CMap SkString u d) \/ (wkt_of nm tid = 6 /\ f_card fd = CRep))).
    { destruct Hw as [Hw|Hw]; rewrite Hw in Hshape.
      - unfold struct_shape in Hshape. destruct (rt_fields S nm tid) as [|[fd fn] [|? ?]]; try discriminate.
        apply andb_prop in Hshape. destruct Hshape as [Hshape Hk]. apply andb_prop in Hshape. destruct Hshape as [N1 _].
        apply N.eqb_eq in N1. destruct (f_card fd) as [| | | | |kk u d] eqn:Ecard; try discriminate.
        destruct kk; try discriminate. destruct (f_kind fd) as [|t|] eqn:Ek; try discriminate.
        exists fd, fn. split; [reflexivity|]. split; [exact N1|]. split; [exists t; exact Ek|].
        left. split; [exact Hw|]. exists u, d. exact Ecard.
      - unfold listvalue_shape in Hshape. destruct (rt_fields S nm tid) as [|[fd fn] [|? ?]]; try discriminate.
        apply andb_prop in Hshape. destruct Hshape as [Hshape Hk]. apply andb_prop in Hshape. destruct Hshape as [N1 _].
        apply N.eqb_eq in N1. destruct (f_card fd) eqn:Ecard; try discriminate.
        destruct (f_kind fd) as [|t|] eqn:Ek; try discriminate.
        exists fd, fn. split; [reflexivity|]. split; [exact N1|]. split; [exists t; exact Ek|].
        right. split; [exact Hw|exact Ecard]. }
    destruct Hf as (fd & fn & Efps & N1 & (t & Ek) & Hcard). rewrite Efps in *.
    cbn [rt_find fst]. rewrite N1. cbn [N.eqb Pos.eqb].
    assert (Hvs : exists vs, msg_fget fs 1 = vs /\ (vs = [] \/ jvalid_field nm recv fd fn vs = true) /\
                  map sp fs = store [] 1 (svals vs)).
    { destruct (single_field_fs fd fn fs N1 Hs Hchunks) as [->|(vs & -> & Hv)].
      - exists []. split; [reflexivity|]. split; [left; reflexivity|reflexivity].
      - exists vs. cbn [msg_fget N.eqb Pos.eqb]. split; [reflexivity|]. split; [right; exact Hv|].
        pose proof (jvalid_field_nonempty _ _ _ _ _ Hv) as Hne. destruct vs; [congruence|reflexivity]. }
    destruct Hvs as (vs & -> & Hval & Hsp). rewrite Hsp.
    destruct (json_field_value_rt fd fn vs) as (j & Hj & Hshp & Hd).
    { rewrite Ek. discriminate. }
    { rewrite Ek. discriminate. }
    { exact Hval. }
    { destruct Hcard as [(_ & u & d & Ecard)|(_ & Ecard)]; [left; exists SkString, u, d; split; [exact Ecard|reflexivity]|right; left; exact Ecard]. }
    exists j. split; [exact Hj|].
    split. { intros E5. destruct Hcard as [(_ & u & d & Ecard)|(E6 & _)]; [rewrite Ecard in Hshp; exact Hshp|congruence]. }
    split. { intros E6. destruct Hcard as [(E5 & _)|(_ & Ecard)]; [congruence|rewrite Ecard in Hshp; exact Hshp]. }
    rewrite (Hd (mkDS [] [] []) eq_refl). cbn [jbind ds_fs]. rewrite N1. reflexivity.
  Qed.

  (* ---- Value ---- *)
  Lemma value_rt tid v :
    (tid < length S)%nat -> wkt_of nm tid = 7 ->
    jvalid_body true (o_emit_unpop o) S nm recv tid v = true -> value_extra v = true ->
    exists j, (match v with VMsg fs _ => json_value cd o S nm rect tid fs | _ => JErr ESchema end) = JOk j /\
              dec_value cd S nm recd tid j = JOk (strip_unknown v).
  Proof.
    intros Hlt Hw Hb Hx. destruct (core2_at tid Hlt) as [_ Hshape]. rewrite Hw in Hshape.
    destruct (jschema_facts S nm Hschema o tid Hlt) as (Hnd & _ & Henum & _ & _).
    unfold value_extra in Hx. destruct v as [|fs unk|]; try discriminate.
    destruct fs as [|[num [|x [|? ?]]] [|? ?]]; try discriminate.
    unfold jvalid_body in Hb. apply andb_prop in Hb. destruct Hb as [Hb _]. apply andb_prop in Hb. destruct Hb as [Hb _].
    apply andb_prop in Hb. destruct Hb as [_ Hc].
    destruct (jchunks_of S nm recv tid _ Hc num [x] (or_introl eq_refl)) as (p & Hp & Hk & Hv).
    pose proof (rt_find_in _ p Hnd Hp) as Hfind. rewrite Hk in Hfind.
    pose proof (Henum p Hp) as He. pose proof (groups_ok tid Hlt p Hp) as Hg.
    destruct (value_shape_facts nm _ Hshape) as
      (f1 & n1 & f2 & n2 & f3 & n3 & f4 & n4 & f5 & n5 & f6 & n6 & Efps & N1 & N2 & N3 & N4 & N5 & N6 &
       C1 & C2 & C3 & C4 & C5 & C6 & K1 & Enull & K2 & K3 & K4 & (ts & K5 & W5) & (tl & K6 & W6)).
    change (strip_unknown (VMsg [(num, [x])] unk)) with (VMsg [(num, [strip_unknown x])] []).
    unfold json_value, dec_value. rewrite Hfind. destruct p as [fd fn]. cbn [fst snd] in *.
    assert (F : forall k q, In q (rt_fields S nm tid) -> fp_num q = k -> rt_find (rt_fields S nm tid) k = Some q).
    { intros k q Hq <-. apply rt_find_in; assumption. }
    assert (Helem : forall j, json_elem cd o nm rect fd fn x = JOk j ->
              (match num, x with
               | 2, VS (SN b) => if f64_is_nan b || f64_is_pinf b || f64_is_ninf b then JErr EValueNonFinite
                                 else json_elem cd o nm rect fd fn x
               | _, _ => json_elem cd o nm rect fd fn x end) = JOk j).
    { intros j Hj. destruct num as [|[[]|[]|]]; try exact Hj. destruct x as [[| | |]| |]; try exact Hj.
      apply negb_true_iff in Hx. rewrite Hx. exact Hj. }
    unfold fp_num in Hk. cbn [fst] in Hk. unfold jvalid_field in Hv.
    rewrite Efps in Hp.
    assert (In1 : In (f1, n1) (rt_fields S nm tid)) by (rewrite Efps; left; reflexivity).
    assert (In2 : In (f2, n2) (rt_fields S nm tid)) by (rewrite Efps; right; left; reflexivity).
    assert (In3 : In (f3, n3) (rt_fields S nm tid)) by (rewrite Efps; do 2 right; left; reflexivity).
    assert (In4 : In (f4, n4) (rt_fields S nm tid)) by (rewrite Efps; do 3 right; left; reflexivity).
    assert (In5 : In (f5, n5) (rt_fields S nm tid)) by (rewrite Efps; do 4 right; left; reflexivity).
    assert (In6 : In (f6, n6) (rt_fields S nm tid)) by (rewrite Efps; do 5 right; left; reflexivity).
    destruct Hp as [E|[E|[E|[E|[E|[E|[]]]]]]]; inversion E; subst fd fn; clear E.
    - (* null_value *)
      rewrite C1 in Hv.
      destruct (json_elem_rt cd Hb64 o nm recv rect recd Hrec' f1 n1 x Hv He Hg) as (j & Hj & Hd & _).
      exists j. split; [apply Helem, Hj|].
      unfold json_elem in Hj. unfold jvalid_elem in Hv. rewrite K1 in Hj, Hv. destruct x as [s| |]; try discriminate.
      unfold json_scalar_ok in Hv. apply andb_prop in Hv. destruct Hv as [Hv1 Hv2].
      destruct s as [z| | |]; try discriminate. cbn [json_scalar] in Hj. unfold json_enum in Hj. rewrite Enull in Hj.
      inversion Hj; subst j. rewrite Enull in Hv2. cbn [negb orb] in Hv2. apply Z.eqb_eq in Hv2. subst z.
      cbn [strip_unknown]. rewrite (F 1 (f1, n1) In1 N1). congruence.
    - (* number_value *)
      rewrite C2 in Hv.
      destruct (json_elem_rt cd Hb64 o nm recv rect recd Hrec' f2 n2 x Hv He Hg) as (j & Hj & Hd & _).
      exists j. split; [apply Helem, Hj|].
      unfold json_elem in Hj. unfold jvalid_elem in Hv. rewrite K2 in Hj, Hv. destruct x as [s| |]; try discriminate.
      unfold json_scalar_ok, rt_scalar_ok in Hv. destruct s as [|b| |]; cbn [sk_ok andb] in Hv; try discriminate.
      cbn [json_scalar] in Hj. rewrite <- Hk, N2 in Hx. apply negb_true_iff in Hx.
      apply orb_false_iff in Hx. destruct Hx as [Hx X3]. apply orb_false_iff in Hx. destruct Hx as [X1 X2].
      unfold json_float64 in Hj. rewrite X1, X2, X3 in Hj. inversion Hj; subst j.
      cbn [strip_unknown]. rewrite (F 2 (f2, n2) In2 N2). cbn [dec_float64 jbind]. congruence.
    - (* string_value *)
      rewrite C3 in Hv.
      destruct (json_elem_rt cd Hb64 o nm recv rect recd Hrec' f3 n3 x Hv He Hg) as (j & Hj & Hd & _).
      exists j. split; [apply Helem, Hj|].
      unfold json_elem in Hj. unfold jvalid_elem in Hv. rewrite K3 in Hj, Hv. destruct x as [s| |]; try discriminate.
      unfold json_scalar_ok, rt_scalar_ok in Hv. destruct s as [| | |b]; cbn [sk_ok andb] in Hv; try discriminate.
      cbn [json_scalar] in Hj. destruct (msg_utf8_valid b); [|discriminate]. inversion Hj; subst j.
      cbn [strip_unknown]. rewrite (F 3 (f3, n3) In3 N3). congruence.
    - (* bool_value *)
      rewrite C4 in Hv.
      destruct (json_elem_rt cd Hb64 o nm recv rect recd Hrec' f4 n4 x Hv He Hg) as (j & Hj & Hd & _).
      exists j. split; [apply Helem, Hj|].
      unfold json_elem in Hj. unfold jvalid_elem in Hv. rewrite K4 in Hj, Hv. destruct x as [s| |]; try discriminate.
      unfold json_scalar_ok, rt_scalar_ok in Hv. destruct s as [| |b|]; cbn [sk_ok andb] in Hv; try discriminate.
      cbn [json_scalar] in Hj. inversion Hj; subst j.
      cbn [strip_unknown]. rewrite (F 4 (f4, n4) In4 N4). congruence.
    - (* struct_value *)
      rewrite C5 in Hv.
      destruct (json_elem_rt cd Hb64 o nm recv rect recd Hrec' f5 n5 x Hv He Hg) as (j & Hj & Hd & _).
      exists j. split; [apply Helem, Hj|].
      unfold json_elem in Hj. unfold jvalid_elem in Hv. rewrite K5 in Hj, Hv. destruct x as [|xfs xunk|]; try discriminate.
      destruct (Hrec ts _ Hv) as (j' & Hj' & (_ & Hobj & _) & _). rewrite Hj in Hj'. inversion Hj'; subst j'.
      destruct (Hobj W5) as (l & ->).
      rewrite (F 5 (f5, n5) In5 N5). rewrite Hd. cbn [jbind]. congruence.
    - (* list_value *)
      rewrite C6 in Hv.
      destruct (json_elem_rt cd Hb64 o nm recv rect recd Hrec' f6 n6 x Hv He Hg) as (j & Hj & Hd & _).
      exists j. split; [apply Helem, Hj|].
      unfold json_elem in Hj. unfold jvalid_elem in Hv. rewrite K6 in Hj, Hv. destruct x as [|xfs xunk|]; try discriminate.
      destruct (Hrec tl _ Hv) as (j' & Hj' & (_ & _ & Harr) & _). rewrite Hj in Hj'. inversion Hj'; subst j'.
      destruct (Harr W6) as (l & ->).
      rewrite (F 6 (f6, n6) In6 N6). rewrite Hd. cbn [jbind]. congruence.
  Qed.
End W.

(* ================================================================== the theorem *)
Section WMain.
  Variable cd : jcodec.
  Hypothesis Hb64 : forall bs, b64_dec cd (b64_enc cd bs) = Some bs.
  Variable o : jopts.
  Variable S : schema.
  Variable nm : names.
  Variable lim : nat.
  Hypothesis Hschema : json_schema_ok S nm = true.
  Hypothesis Hcore2 : json_core2 S nm = true.
  Hypothesis Hts : forall s n, ts_in_range s n = true -> ts_parse cd (ts_fmt cd s n) = Some (s, n).
  Hypothesis Hdur : forall s n, dur_in_range s n = true -> dur_parse cd (dur_fmt cd s n) = Some (s, n).

  Theorem json_roundtrip_wkt : forall fuel tid v,
    json_valid2 true (o_emit_unpop o) S nm lim fuel tid v = true ->
    exists j, to_json_msg cd o S nm lim fuel tid v = JOk j /\ shape_ok (wkt_of nm tid) j /\
              of_json_msg cd S nm fuel tid j = JOk (strip_unknown v).
  Proof.
    induction fuel as [|f IH]; intros tid v H; [discriminate|].
    cbn [json_valid2] in H. apply andb_prop in H. destruct H as [H Hrange]. apply andb_prop in H. destruct H as [H Hextra].
    apply andb_prop in H. destruct H as [Hlt Hb]. apply Nat.ltb_lt in Hlt.
    cbn [to_json_msg of_json_msg].
    set (recv := json_valid2 true (o_emit_unpop o) S nm lim f) in *.
    set (rect := to_json_msg cd o S nm lim f) in *.
    set (recd := of_json_msg cd S nm f) in *.
    pose proof (Hrec' nm recv rect recd IH) as Hrec1.
    pose proof Hb as Hb0.
    unfold jvalid_body in Hb. destruct v as [|fs unk|]; try discriminate.
    apply andb_prop in Hb. destruct Hb as [Hb Hf11]. apply andb_prop in Hb. destruct Hb as [Hb Ho].
    apply andb_prop in Hb. destruct Hb as [Hs Hc].
    unfold json_msg_body, of_json_body. change (mn_wkt (nm_msg nm tid)) with (wkt_of nm tid) in *.
    destruct (core2_cases S nm Hcore2 recv rect recd IH tid Hlt) as [E|[E|[E|[E|[E|[E|[E|[E|[E|E]]]]]]]]]; rewrite E in *; cbn iota.
    - (* ordinary *)
      change (strip_unknown (VMsg fs unk)) with (VMsg (map sp fs) []).
      destruct (json_ordinary_rt cd Hb64 o S nm Hschema recv rect recd Hrec1 tid fs Hlt) as (ms & Hm & Hd); try assumption.
      { apply (groups_ok S nm Hcore2 recv rect recd IH tid Hlt). }
      rewrite Hm. cbn [jbind]. eexists. split; [reflexivity|]. split; [|exact Hd].
      split; [discriminate|]. split; discriminate.
    - (* Any *)
      change (strip_unknown (VMsg fs unk)) with (VMsg (map sp fs) []).
      destruct (any_rt cd Hb64 o S nm lim Hschema Hcore2 recv rect recd IH tid fs Hlt E Hs Hc Hrange) as (j & Hj & Hnn & Hd).
      exists j. split; [exact Hj|]. split; [|exact Hd].
      split; [rewrite Hnn; discriminate|]. split; discriminate.
    - (* Timestamp *)
      change (strip_unknown (VMsg fs unk)) with (VMsg (map sp fs) []).
      destruct (secs_nanos_fs cd S nm Hcore2 Hts Hdur recv rect recd IH tid fs Hlt (or_introl E) Hs Hc) as [Hsp Hfs].
      unfold json_timestamp, dec_timestamp. rewrite Hrange. eexists. split; [reflexivity|].
      split; [split; [discriminate|split; discriminate]|].
      rewrite (Hts _ _ Hrange). unfold ts_in_range in Hrange.
      apply andb_prop in Hrange. destruct Hrange as [Hr _]. apply andb_prop in Hr. destruct Hr as [Hr _]. rewrite Hr.
      rewrite Hsp. rewrite Hfs at 3. reflexivity.
    - (* Duration *)
      change (strip_unknown (VMsg fs unk)) with (VMsg (map sp fs) []).
      destruct (secs_nanos_fs cd S nm Hcore2 Hts Hdur recv rect recd IH tid fs Hlt (or_intror E) Hs Hc) as [Hsp Hfs].
      unfold json_duration, dec_duration. rewrite Hrange. eexists. split; [reflexivity|].
      split; [split; [discriminate|split; discriminate]|].
      assert (Hr2 : ((- max_dur_secs <=? get_z fs 1) && (get_z fs 1 <=? max_dur_secs))%Z = true).
      { unfold dur_in_range in Hrange. repeat (apply andb_prop in Hrange; destruct Hrange as [Hrange ?]).
        rewrite Hrange. assumption. }
      rewrite (Hdur _ _ Hrange), Hr2.
      rewrite Hsp. rewrite Hfs at 3. reflexivity.
    - (* wrapper *)
      change (strip_unknown (VMsg fs unk)) with (VMsg (map sp fs) []).
      destruct (wrapper_rt cd Hb64 o S nm lim Hcore2 recv rect recd IH tid fs Hlt E Hs Hc) as (j & Hj & Hnn & Hd).
      exists j. split; [exact Hj|]. split; [|exact Hd].
      split; [rewrite Hnn; discriminate|]. split; discriminate.
    - (* Struct *)
      change (strip_unknown (VMsg fs unk)) with (VMsg (map sp fs) []).
      destruct (field1_rt cd Hb64 o S nm lim Hcore2 recv rect recd IH tid fs Hlt (or_introl E) Hs Hc) as (j & Hj & H5 & _ & Hd).
      exists j. split; [exact Hj|]. split; [|exact Hd].
      destruct (H5 E) as (l & ->). split; [discriminate|]. split; [intros _; exists l; reflexivity|discriminate].
    - (* ListValue *)
      change (strip_unknown (VMsg fs unk)) with (VMsg (map sp fs) []).
      destruct (field1_rt cd Hb64 o S nm lim Hcore2 recv rect recd IH tid fs Hlt (or_intror E) Hs Hc) as (j & Hj & _ & H6 & Hd).
      exists j. split; [exact Hj|]. split; [|exact Hd].
      destruct (H6 E) as (l & ->). split; [discriminate|]. split; [discriminate|intros _; exists l; reflexivity].
    - (* Value *)
      cbn [N.eqb Pos.eqb] in Hextra.
      destruct (value_rt cd Hb64 o S nm Hschema Hcore2 recv rect recd IH tid (VMsg fs unk) Hlt E Hb0 Hextra) as (j & Hj & Hd).
      exists j. split; [exact Hj|]. split; [|exact Hd].
      split; [reflexivity|]. split; discriminate.
    - (* FieldMask *)
      change (strip_unknown (VMsg fs unk)) with (VMsg (map sp fs) []).
      destruct (fieldmask_rt S nm lim Hcore2 recv rect recd IH tid fs Hlt E Hs Hc Hrange) as (j & Hj & Hnn & Hd).
      exists j. split; [exact Hj|]. split; [|exact Hd].
      split; [rewrite Hnn; discriminate|]. split; discriminate.
    - (* Empty *)
      change (strip_unknown (VMsg fs unk)) with (VMsg (map sp fs) []).
      destruct (json_ordinary_rt cd Hb64 o S nm Hschema recv rect recd Hrec1 tid fs Hlt) as (ms & Hm & Hd); try assumption.
      { apply (groups_ok S nm Hcore2 recv rect recd IH tid Hlt). }
      rewrite Hm. cbn [jbind]. eexists. split; [reflexivity|]. split; [split; [discriminate|split; discriminate]|].
      destruct (core2_at S nm Hcore2 recv rect recd IH tid Hlt) as [_ Hshape]. rewrite E in Hshape.
      unfold json_members in Hm. unfold dec_ordinary in Hd. rewrite Hshape in *.
      unfold rt_field_order in Hm. cbn in Hm. inversion Hm; subst ms.
      cbn [dec_empty]. cbn in Hd. exact Hd.
  Qed.
End WMain.

Theorem json_roundtrip_wkt_except_F11_partial cd (o : jopts) S nm lim fuel tid v :
  codec_ok cd ->
  json_schema_ok S nm = true -> json_core2 S nm = true ->
  json_valid2 true (o_emit_unpop o) S nm lim fuel tid v = true ->
  exists j, to_json cd o S nm lim fuel tid v = JOk j /\ of_json cd S nm fuel tid j = JOk (strip_unknown v).
Proof.
  intros (Hb & Ht & Hd0) Hs Hc Hv.
  destruct (json_roundtrip_wkt cd Hb (jo_tree o) S nm lim Hs Hc Ht Hd0 fuel tid v Hv) as (j & Hj & _ & Hd).
  exists j. split; assumption.
Qed.

(* with the executable codec of Json/JsonWktLite.v the base64 hypothesis is discharged (Json/JsonB64RtP.v);
   the Timestamp / Duration string forms remain hypotheses (C23) *)
From PB Require Import Json.JsonWktLite Json.JsonB64RtP.

Theorem json_roundtrip_std_except_F11_partial (o : jopts) S nm lim fuel tid v :
  (forall s n, ts_in_range s n = true -> ts_parse_canon (ts_format s n) = Some (s, n)) ->
  (forall s n, dur_in_range s n = true -> dur_parse_s (dur_format s n) = Some (s, n)) ->
  json_schema_ok S nm = true -> json_core2 S nm = true ->
  json_valid2 true (o_emit_unpop o) S nm lim fuel tid v = true ->
  exists j, to_json std_codec o S nm lim fuel tid v = JOk j /\ of_json std_codec S nm fuel tid j = JOk (strip_unknown v).
Proof.
  intros Ht Hd. apply json_roundtrip_wkt_except_F11_partial. split; [exact std_codec_b64|]. split; assumption.
Qed.

Theorem json_marshal_total_wkt_partial cd (o : jopts) S nm lim fuel tid v :
  codec_ok cd ->
  json_schema_ok S nm = true -> json_core2 S nm = true ->
  json_valid2 true (o_emit_unpop o) S nm lim fuel tid v = true ->
  exists j, to_json cd o S nm lim fuel tid v = JOk j.
Proof.
  intros Hb Hs Hc Hv. destruct (json_roundtrip_wkt_except_F11_partial cd o S nm lim fuel tid v Hb Hs Hc Hv) as (j & Hj & _).
  exists j. exact Hj.
Qed.
