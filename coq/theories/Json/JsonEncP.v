(* Proofs about the encoder: appendString/parseString round trip. *)
From Coq Require Import List NArith ZArith Lia Bool.
From Coq Require Import ZifyBool ZifyNat ZifyN.
From PB Require Import Base.PBytes Json.JsonUtf8 Json.JsonGrammar Json.JsonNumModel Json.JsonNumP
  Json.JsonLexModel Json.JsonStrP Json.JsonEncModel.
Import ListNotations.
Open Scope N_scope.
Ltac Zify.zify_post_hook ::= Z.div_mod_to_equations.

Lemma decode_rune_ascii b X : b2n b < 128 -> decode_rune (b :: X) = (b2n b, 1%nat).
Proof. intros H. unfold decode_rune. replace (b2n b <? 128) with true by lia. reflexivity. Qed.

(* a successfully decoded rune depends only on the bytes it consumed *)
Lemma decode_rune_prefix inp r n X : decode_rune inp = (r, n) -> is_bad_rune (r, n) = false -> inp <> [] ->
  decode_rune (firstn n inp ++ X) = (r, n).
Proof.
  unfold is_bad_rune, rune_error. cbn [fst snd].
  destruct inp as [|b0 rest]; [congruence|]. intros H Hbad _. revert H.
  unfold decode_rune at 1. unfold rune_error, cont. pose proof (b2n_lt b0) as H0.
  destruct (b2n b0 <? 128) eqn:E1.
  { intros [= <- <-]. cbn [firstn app]. apply decode_rune_ascii. lia. }
  destruct (b2n b0 <? 194) eqn:E2; [intros [= <- <-]; cbn in Hbad; discriminate|].
  destruct (b2n b0 <? 224) eqn:E3.
  { destruct rest as [|b1 rest]; [intros [= <- <-]; cbn in Hbad; discriminate|].
    destruct ((128 <=? b2n b1) && (b2n b1 <? 192)) eqn:C1; [|intros [= <- <-]; cbn in Hbad; discriminate].
    intros [= <- <-]. cbn [firstn app]. unfold decode_rune, cont. rewrite E1, E2, E3, C1. reflexivity. }
  destruct (b2n b0 <? 240) eqn:E4.
  { destruct rest as [|b1 [|b2 rest]]; try (intros [= <- <-]; cbn in Hbad; discriminate).
    match goal with |- context [if ?c then _ else _] => destruct c eqn:C end;
      [|intros [= <- <-]; cbn in Hbad; discriminate].
    intros [= <- <-]. cbn [firstn app]. unfold decode_rune, cont. rewrite E1, E2, E3, E4, C. reflexivity. }
  destruct (b2n b0 <? 245) eqn:E5; [|intros [= <- <-]; cbn in Hbad; discriminate].
  destruct rest as [|b1 [|b2 [|b3 rest]]]; try (intros [= <- <-]; cbn in Hbad; discriminate).
  match goal with |- context [if ?c then _ else _] => destruct c eqn:C end;
    [|intros [= <- <-]; cbn in Hbad; discriminate].
  intros [= <- <-]. cbn [firstn app]. unfold decode_rune, cont. rewrite E1, E2, E3, E4, E5, C. reflexivity.
Qed.

Lemma hex_val_hex_digit n : n < 16 -> hex_val (hex_digit n) = Some n.
Proof.
  intros H. unfold hex_digit, hex_val, is_digit, in_range.
  destruct (n <? 10) eqn:E.
  - rewrite b2n_n2b by lia. replace ((48 <=? 48 + n) && (48 + n <=? 57)) with true by lia. f_equal. lia.
  - rewrite b2n_n2b by lia. replace ((48 <=? 87 + n) && (87 + n <=? 57)) with false by lia.
    replace ((97 <=? 87 + n) && (87 + n <=? 102)) with true by lia. f_equal. lia.
Qed.

Lemma b2n_inj a b : b2n a = b2n b -> a = b.
Proof. intros H. rewrite <- (n2b_b2n a), <- (n2b_b2n b), H. reflexivity. Qed.

Lemma is_b2n_false b c : b2n b <> b2n c -> is b c = false.
Proof. intros H. destruct (is b c) eqn:E; auto. apply is_true in E. subst. contradiction. Qed.

Ltac simpl_Hf Hf :=
  repeat match type of Hf with
         | context [if ?c then _ else _] =>
           match goal with E : c = _ |- _ => rewrite E in Hf end
         end; cbn [length app] in Hf.

(* escape then parse gives the string back *)
Theorem escape_parse fuel : forall inp t rest f2,
  escape_loop fuel inp = (t, true) -> (length t < f2)%nat ->
  parse_string_loop f2 (t ++ c_quote :: rest) = SOk inp rest.
Proof.
  induction fuel as [|f IH]; intros inp t rest f2; cbn [escape_loop]; [discriminate|].
  destruct inp as [|b r0].
  { intros [= <-] Hf. destruct f2; [lia|]. cbn [app parse_string_loop].
    rewrite (decode_rune_ascii c_quote rest) by (cbn; lia). reflexivity. }
  destruct (decode_rune (b :: r0)) as [rn n] eqn:Ed.
  destruct (is_bad_rune (rn, n)) eqn:Ebad; [discriminate|]. cbn [fst snd].
  destruct (decode_rune_wf _ _ _ Ed Ebad ltac:(discriminate)) as (Hwf & Hn & Hn1 & Hn2).
  destruct (escape_loop f (skipn n (b :: r0))) as [t' ok] eqn:Erec.
  destruct ((rn <? 32) || is b c_quote || is b c_bslash) eqn:Esp.
  - (* escaped: a single ASCII byte *)
    assert (Hone : n = 1%nat).
    { destruct (Nat.eq_dec n 1); auto. exfalso. assert (128 <= rn) by (apply Hn2; lia).
      apply orb_true_iff in Esp as [Esp|Esp]; [apply orb_true_iff in Esp as [Esp|Esp]|].
      - lia.
      - apply is_true in Esp. subst b. cbn in Ed. injection Ed as <- <-. lia.
      - apply is_true in Esp. subst b. cbn in Ed. injection Ed as <- <-. lia. }
    subst n. destruct (Hn1 eq_refl) as (b' & rest' & [= <- <-] & Hrn & Hlt). cbn [skipn] in Erec.
    intros [= <- ->] Hf. destruct f2 as [|f2]; [cbn [length] in Hf; lia|].
    cbn [app parse_string_loop].
    rewrite (decode_rune_ascii c_bslash) by (cbn; lia).
    change (is_bad_rune (b2n c_bslash, 1%nat)) with false. cbn [fst snd].
    change (b2n c_bslash <? 32) with false. change (is c_bslash c_quote) with false.
    change (is c_bslash c_bslash) with true. cbv iota.
    destruct (is b c_quote || is b c_bslash) eqn:Eqb.
    + cbn [app].
      replace (is b c_quote || is b c_bslash || is b c_slash) with true by (rewrite Eqb; reflexivity).
      rewrite (IH r0 t' rest f2 Erec) by (simpl_Hf Hf; lia). reflexivity.
    + apply orb_false_iff in Eqb as [Eq1 Eq2]. rewrite Eq1, Eq2 in Esp. rewrite !orb_false_r in Esp.
      assert (Hr : rn < 32) by lia.
      assert (Hrec : forall k, (k + length t' < f2)%nat -> parse_string_loop (f2 - 0) (t' ++ c_quote :: rest) = SOk r0 rest).
      { intros k Hk. rewrite Nat.sub_0_r. apply IH; auto. lia. }
      destruct (rn =? 8) eqn:E8.
      { cbn [app]. change (is "b"%byte c_quote || is "b"%byte c_bslash || is "b"%byte c_slash) with false.
        change (is "b"%byte "b"%byte) with true. cbv iota.
        rewrite (IH r0 t' rest f2 Erec) by (simpl_Hf Hf; lia). cbn [s_app app].
        f_equal. f_equal. apply b2n_inj. cbn. lia. }
      destruct (rn =? 12) eqn:E12.
      { cbn [app]. change (is "f"%byte c_quote || is "f"%byte c_bslash || is "f"%byte c_slash) with false.
        change (is "f"%byte "b"%byte) with false. change (is "f"%byte "f"%byte) with true. cbv iota.
        rewrite (IH r0 t' rest f2 Erec) by (simpl_Hf Hf; lia). cbn [s_app app].
        f_equal. f_equal. apply b2n_inj. cbn. lia. }
      destruct (rn =? 10) eqn:E10.
      { cbn [app]. change (is "n"%byte c_quote || is "n"%byte c_bslash || is "n"%byte c_slash) with false.
        change (is "n"%byte "b"%byte) with false. change (is "n"%byte "f"%byte) with false.
        change (is "n"%byte "n"%byte) with true. cbv iota.
        rewrite (IH r0 t' rest f2 Erec) by (simpl_Hf Hf; lia). cbn [s_app app].
        f_equal. f_equal. apply b2n_inj. cbn. lia. }
      destruct (rn =? 13) eqn:E13.
      { cbn [app]. change (is "r"%byte c_quote || is "r"%byte c_bslash || is "r"%byte c_slash) with false.
        change (is "r"%byte "b"%byte) with false. change (is "r"%byte "f"%byte) with false.
        change (is "r"%byte "n"%byte) with false. change (is "r"%byte "r"%byte) with true. cbv iota.
        rewrite (IH r0 t' rest f2 Erec) by (simpl_Hf Hf; lia). cbn [s_app app].
        f_equal. f_equal. apply b2n_inj. cbn. lia. }
      destruct (rn =? 9) eqn:E9.
      { cbn [app]. change (is "t"%byte c_quote || is "t"%byte c_bslash || is "t"%byte c_slash) with false.
        change (is "t"%byte "b"%byte) with false. change (is "t"%byte "f"%byte) with false.
        change (is "t"%byte "n"%byte) with false. change (is "t"%byte "r"%byte) with false.
        change (is "t"%byte "t"%byte) with true. cbv iota.
        rewrite (IH r0 t' rest f2 Erec) by (simpl_Hf Hf; lia). cbn [s_app app].
        f_equal. f_equal. apply b2n_inj. cbn. lia. }
      cbn [app]. change (is c_u c_quote || is c_u c_bslash || is c_u c_slash) with false.
      change (is c_u "b"%byte) with false. change (is c_u "f"%byte) with false.
      change (is c_u "n"%byte) with false. change (is c_u "r"%byte) with false.
      change (is c_u "t"%byte) with false. change (is c_u c_u) with true. cbv iota.
      unfold hex4. change (hex_val c_0) with (Some 0).
      rewrite !hex_val_hex_digit by lia.
      replace (0 * 4096 + 0 * 256 + rn / 16 * 16 + rn mod 16) with rn by lia.
      replace (is_surrogate rn) with false by (unfold is_surrogate; lia).
      rewrite (IH r0 t' rest f2 Erec) by (simpl_Hf Hf; lia). cbn [s_app].
      unfold encode_rune. replace (rn <? 128) with true by lia. cbn [app]. rewrite Hrn, n2b_b2n. reflexivity.
  - (* copied verbatim *)
    intros [= <- ->] Hf. apply orb_false_iff in Esp as [Esp Eb]. apply orb_false_iff in Esp as [E32 Eq].
    destruct f2 as [|f2]; [lia|].
    assert (Hfn : firstn n (b :: r0) = b :: firstn (n - 1) r0).
    { destruct n; [lia|]. cbn [firstn]. replace (S n - 1)%nat with n by lia. reflexivity. }
    rewrite <- app_assoc. rewrite Hfn at 1. cbn [app parse_string_loop].
    change (b :: firstn (n - 1) r0 ++ t' ++ c_quote :: rest) with ((b :: firstn (n - 1) r0) ++ t' ++ c_quote :: rest).
    rewrite <- Hfn. rewrite (decode_rune_prefix _ _ _ (t' ++ c_quote :: rest) Ed Ebad ltac:(discriminate)).
    rewrite Ebad. cbn [fst snd]. rewrite E32, Eq, Eb.
    assert (Hlen : length (firstn n (b :: r0)) = n) by (apply firstn_length_le; lia).
    rewrite <- Hlen at 1. rewrite firstn_len_app.
    rewrite <- Hlen at 2. rewrite skipn_app, Nat.sub_diag, skipn_all. cbn [skipn app].
    rewrite (IH _ t' rest f2 Erec) by (rewrite app_length in Hf; lia). cbn [s_app].
    now rewrite firstn_skipn.
Qed.

Theorem string_escape_roundtrip s out rest pos :
  append_string s = (out, true) -> parse_string_at pos (out ++ rest) = Ok (s, length out).
Proof.
  unfold append_string, escape_string. destruct (escape_loop (S (length s)) s) as [t ok] eqn:E.
  destruct ok; [|discriminate]. intros [= <-].
  cbn [app parse_string_at]. change (is c_quote c_quote) with true. cbv iota.
  rewrite <- app_assoc. cbn [app].
  rewrite (escape_parse _ s t rest (S (length (t ++ c_quote :: rest))) E) by (rewrite ?app_length; cbn [length]; lia).
  f_equal. f_equal. cbn [length]. rewrite ?app_length. cbn [length]. rewrite ?app_length. cbn [length]. lia.
Qed.
