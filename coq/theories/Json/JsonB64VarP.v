(* bytes fields: all four base64 variants (standard / URL-safe alphabet, with / without
   padding) are accepted by unmarshalBytes and decode to the original bytes. *)
From Coq Require Import List NArith ZArith Lia Bool.
From Coq Require Import ZifyBool ZifyNat ZifyN.
From PB Require Import Base.PBytes Json.JsonUtf8 Json.JsonGrammar Json.JsonNumModel Json.JsonNumP
  Json.JsonLexModel Json.JsonEncModel Json.JsonEncP Json.JsonScalarModel Json.JsonB64P.
Import ListNotations.
Open Scope N_scope.
Ltac Zify.zify_post_hook ::= Z.div_mod_to_equations.

Lemma qpad2 f url c0 c1 v0 v1 :
  b64_val url c0 = Some v0 -> b64_val url c1 = Some v1 ->
  b64_quantum (S (S (S (S (S f))))) url true 0 [] [c0; c1; c_pad; c_pad] = QOk [v0; v1] [].
Proof. intros H0 H1. cbn [b64_quantum Nat.eqb]. rewrite H0, H1. destruct url; reflexivity. Qed.
Lemma qpad1 f url c0 c1 c2 v0 v1 v2 :
  b64_val url c0 = Some v0 -> b64_val url c1 = Some v1 -> b64_val url c2 = Some v2 ->
  b64_quantum (S (S (S (S (S f))))) url true 0 [] [c0; c1; c2; c_pad] = QOk [v0; v1; v2] [].
Proof. intros H0 H1 H2. cbn [b64_quantum Nat.eqb]. rewrite H0, H1, H2. destruct url; reflexivity. Qed.
Lemma qend2 f url c0 c1 v0 v1 :
  b64_val url c0 = Some v0 -> b64_val url c1 = Some v1 ->
  b64_quantum (S (S (S f))) url false 0 [] [c0; c1] = QOk [v0; v1] [].
Proof. intros H0 H1. cbn [b64_quantum Nat.eqb]. rewrite H0, H1. reflexivity. Qed.
Lemma qend3 f url c0 c1 c2 v0 v1 v2 :
  b64_val url c0 = Some v0 -> b64_val url c1 = Some v1 -> b64_val url c2 = Some v2 ->
  b64_quantum (S (S (S (S f)))) url false 0 [] [c0; c1; c2] = QOk [v0; v1; v2] [].
Proof. intros H0 H1 H2. cbn [b64_quantum Nat.eqb]. rewrite H0, H1, H2. reflexivity. Qed.

(* induction three bytes at a time *)
Lemma list3_ind (P : list byte -> Prop) :
  P [] -> (forall a, P [a]) -> (forall a b, P [a; b]) -> (forall a b c r, P r -> P (a :: b :: c :: r)) ->
  forall s, P s.
Proof.
  intros H0 H1 H2 H3. assert (H : forall n s, (length s <= n)%nat -> P s).
  { induction n as [|n IH]; intros [|a [|b [|c r]]] Hl; cbn [length] in Hl; try lia; auto. apply H3, IH. lia. }
  intros s. apply (H (length s)). lia.
Qed.

Theorem b64_decode_variant_loop url pad s : forall fuel, (length s < fuel)%nat ->
  b64_decode_loop fuel url pad (b64_encode_variant url pad s) = Some s.
Proof.
  induction s as [|a|a b|a b c r IH] using list3_ind; intros fuel Hf; (destruct fuel as [|fuel]; [lia|]); cbn [length] in Hf.
  - destruct pad; reflexivity.
  - pose proof (b2n_lt a) as Ha.
    destruct (sextets (b2n a) 0 0 Ha ltac:(lia) ltac:(lia)) as (H0 & H1 & _ & _ & Hw & _). cbn zeta in *.
    replace (b2n a * 65536 + 0 * 256 + 0) with (b2n a * 65536) in * by lia.
    destruct pad; cbn [b64_encode_variant b64_encode b64_encode_raw b64_decode_loop length].
    + rewrite (qpad2 _ url _ _ _ _ (b64_val_char url _ H0) (b64_val_char url _ H1)).
      destruct fuel; [lia|]. cbn [b64_decode_loop length b64_quantum Nat.eqb].
      unfold b64_quantum_bytes. cbn [nth length Nat.sub firstn app]. repeat f_equal; apply n2b_of; lia.
    + rewrite (qend2 _ url _ _ _ _ (b64_val_char url _ H0) (b64_val_char url _ H1)).
      destruct fuel; [lia|]. cbn [b64_decode_loop length b64_quantum Nat.eqb].
      unfold b64_quantum_bytes. cbn [nth length Nat.sub firstn app]. repeat f_equal; apply n2b_of; lia.
  - pose proof (b2n_lt a) as Ha. pose proof (b2n_lt b) as Hb.
    destruct (sextets (b2n a) (b2n b) 0 Ha Hb ltac:(lia)) as (H0 & H1 & H2 & _ & Hw1 & Hw2 & _). cbn zeta in *.
    replace (b2n a * 65536 + b2n b * 256 + 0) with (b2n a * 65536 + b2n b * 256) in * by lia.
    destruct pad; cbn [b64_encode_variant b64_encode b64_encode_raw b64_decode_loop length].
    + rewrite (qpad1 _ url _ _ _ _ _ _ (b64_val_char url _ H0) (b64_val_char url _ H1) (b64_val_char url _ H2)).
      destruct fuel; [lia|]. cbn [b64_decode_loop length b64_quantum Nat.eqb].
      unfold b64_quantum_bytes. cbn [nth length Nat.sub firstn app]. repeat f_equal; apply n2b_of; lia.
    + rewrite (qend3 _ url _ _ _ _ _ _ (b64_val_char url _ H0) (b64_val_char url _ H1) (b64_val_char url _ H2)).
      destruct fuel; [lia|]. cbn [b64_decode_loop length b64_quantum Nat.eqb].
      unfold b64_quantum_bytes. cbn [nth length Nat.sub firstn app]. repeat f_equal; apply n2b_of; lia.
  - pose proof (b2n_lt a) as Ha. pose proof (b2n_lt b) as Hb. pose proof (b2n_lt c) as Hc.
    destruct (sextets (b2n a) (b2n b) (b2n c) Ha Hb Hc) as (H0 & H1 & H2 & H3 & Hw1 & Hw2 & Hw3). cbn zeta in *.
    specialize (IH fuel ltac:(lia)).
    destruct pad; cbn [b64_encode_variant b64_encode b64_encode_raw b64_decode_loop length] in *;
      rewrite (quantum4 _ url _ _ _ _ _ _ _ _ _ _ (b64_val_char url _ H0) (b64_val_char url _ H1)
                 (b64_val_char url _ H2) (b64_val_char url _ H3)), IH;
      unfold b64_quantum_bytes; cbn [nth length Nat.sub firstn app]; repeat f_equal; apply n2b_of; lia.
Qed.

Lemma b64_variant_length url pad s : (length s <= length (b64_encode_variant url pad s))%nat.
Proof.
  induction s as [|a|a b|a b c r IH] using list3_ind; destruct pad;
    cbn [b64_encode_variant b64_encode b64_encode_raw length] in *; lia.
Qed.

Theorem b64_decode_variant url pad s : b64_decode url pad (b64_encode_variant url pad s) = Some s.
Proof. unfold b64_decode. apply b64_decode_variant_loop. pose proof (b64_variant_length url pad s). lia. Qed.

Lemma mod4_add x : ((4 + x) mod 4 = x mod 4)%nat.
Proof. replace (4 + x)%nat with (x + 1 * 4)%nat by lia. apply Nat.mod_add. lia. Qed.

(* an unpadded text whose length is a multiple of 4 is also the padded text *)
Lemma b64_raw_mod url s :
  ((length (b64_encode_raw url s) mod 4 = 0)%nat -> b64_encode_raw url s = b64_encode url s) /\
  (length (b64_encode url s) mod 4 = 0)%nat.
Proof.
  induction s as [|a|a b|a b c r [IH1 IH2]] using list3_ind; cbn [b64_encode b64_encode_raw length].
  - auto.
  - split; [cbn; discriminate|reflexivity].
  - split; [cbn; discriminate|reflexivity].
  - change (S (S (S (S (length (b64_encode_raw url r)))))) with (4 + length (b64_encode_raw url r))%nat.
    change (S (S (S (S (length (b64_encode url r)))))) with (4 + length (b64_encode url r))%nat.
    rewrite !mod4_add. split; [|exact IH2]. intros H. rewrite IH1; auto.
Qed.

(* alphabets: a URL-safe text without '-' and '_' is the standard text *)
Definition has_url_char (t : list byte) : bool := existsb (fun b => is b c_minus || is b c_us) t.

Lemma b64_char_url_std v : v < 64 ->
  (is (b64_char true v) c_minus || is (b64_char true v) c_us) = false -> b64_char true v = b64_char false v.
Proof.
  intros H. unfold b64_char. destruct (v <? 26); auto. destruct (v <? 52); auto. destruct (v <? 62); auto.
  destruct (v =? 62); cbn; discriminate.
Qed.

Lemma b64_url_text_std pad s : has_url_char (b64_encode_variant true pad s) = false ->
  b64_encode_variant true pad s = b64_encode_variant false pad s.
Proof.
  unfold has_url_char.
  induction s as [|a|a b|a b c r IH] using list3_ind; destruct pad;
    cbn [b64_encode_variant b64_encode b64_encode_raw existsb] in *; auto; intros H;
    repeat (apply orb_false_iff in H as [? H]);
    try pose proof (b2n_lt a); try pose proof (b2n_lt b); try pose proof (b2n_lt c);
    repeat match goal with
           | Hc : (is (b64_char true ?v) c_minus || is (b64_char true ?v) c_us) = false |- _ =>
             rewrite (b64_char_url_std v) by (try lia; exact Hc); clear Hc
           end; try reflexivity; try (f_equal; f_equal; f_equal; f_equal; apply IH; assumption).
Qed.

Lemma b64_std_text_no_url pad s : has_url_char (b64_encode_variant false pad s) = false.
Proof.
  unfold has_url_char.
  induction s as [|a|a b|a b c r IH] using list3_ind; destruct pad;
    cbn [b64_encode_variant b64_encode b64_encode_raw existsb] in *; auto;
    try pose proof (b2n_lt a); try pose proof (b2n_lt b); try pose proof (b2n_lt c);
    rewrite !b64_char_std_not_url by lia; try reflexivity; cbn [orb]; assumption.
Qed.

(* unmarshalBytes accepts each of the four encodings and returns the encoded bytes *)
Theorem bytes_base64_accepts_all_variants url pad b tok :
  t_kind tok = KString -> t_str tok = b64_encode_variant url pad b -> unmarshal_bytes tok = Some b.
Proof.
  intros Hk Hs. unfold unmarshal_bytes. rewrite Hk, Hs. fold (has_url_char (b64_encode_variant url pad b)).
  (* reduce to the case where the selected alphabet is the alphabet of the text *)
  assert (Hgen : forall u, has_url_char (b64_encode_variant u pad b) = u ->
            b64_decode u (Nat.eqb (Nat.modulo (length (b64_encode_variant u pad b)) 4) 0) (b64_encode_variant u pad b) = Some b).
  { intros u _. destruct pad.
    - cbn [b64_encode_variant]. rewrite (proj2 (b64_raw_mod u b)). cbn [Nat.eqb]. apply (b64_decode_variant u true).
    - cbn [b64_encode_variant]. destruct (Nat.eqb (Nat.modulo (length (b64_encode_raw u b)) 4) 0) eqn:E.
      + apply Nat.eqb_eq in E. rewrite (proj1 (b64_raw_mod u b) E). apply (b64_decode_variant u true).
      + apply (b64_decode_variant u false). }
  destruct url.
  - destruct (has_url_char (b64_encode_variant true pad b)) eqn:E.
    + apply Hgen. exact E.
    + rewrite (b64_url_text_std pad b E). apply Hgen. apply b64_std_text_no_url.
  - rewrite b64_std_text_no_url. apply Hgen. apply b64_std_text_no_url.
Qed.
