(* Proofs about the protojson scalar layer (C22): quoted numbers, enums, floats relative to
   the strconv.ParseFloat oracle. *)
From Coq Require Import List NArith ZArith Lia Bool.
From Coq Require Import ZifyBool ZifyNat ZifyN.
From PB Require Import Base.PBytes Json.JsonUtf8 Json.JsonGrammar Json.JsonNumModel Json.JsonNumP Json.JsonIntP
  Json.JsonLexModel Json.JsonStrP Json.JsonLexP Json.JsonEncModel Json.JsonScalarModel.
Import ListNotations.
Open Scope N_scope.

(* ---------- quoted numbers ---------- *)
Lemma read_step_top_not_comma st tok st' :
  d_stack st = [] -> read_step st = Ok (tok, st') -> t_kind tok <> KComma.
Proof.
  intros Hs H E. pose proof (read_step_comma_stack _ _ _ H E) as Hne.
  unfold read_step in H. destruct (parse_next st) as [[tk st1]|] eqn:Epn; [|discriminate].
  destruct (parse_next_spec _ _ _ Epn) as (_ & _ & _ & _ & _ & _ & _ & Hk & _).
  cbv zeta in H. rewrite Hs in Hk.
  destruct (t_kind tk) eqn:Ek;
    repeat match type of H with
           | match ?x with _ => _ end = _ => destruct x eqn:?
           end; try discriminate; try congruence; injection H as <- <-; cbn [t_kind set_kind] in E; try discriminate; try congruence.
Qed.

Lemma read_top st tok st' : d_stack st = [] -> read st = Ok (tok, st') -> read_step st = Ok (tok, st').
Proof.
  intros Hs. unfold read. destruct (read_step st) as [[tok1 st1]|] eqn:E; [|discriminate].
  pose proof (read_step_top_not_comma _ _ _ Hs E) as Hne.
  destruct (t_kind tok1); try contradiction; auto.
Qed.

Theorem quoted_number_token_spec s t : quoted_number_token s = Some t -> t_kind t = KNumber ->
  exists w1 w2, ws w1 /\ ws w2 /\ s = w1 ++ t_raw t ++ w2 /\ rfc_number (t_raw t).
Proof.
  unfold quoted_number_token. destruct (trim_space_changes s); [discriminate|].
  destruct (read (d_init s)) as [[tok st]|] eqn:E1; [|discriminate].
  destruct (read st) as [[next st2]|] eqn:E2; [|discriminate].
  destruct (kind_eqb (t_kind next) KEOF) eqn:Ek; [|discriminate]. apply kind_eqb_eq in Ek.
  intros [= <-] Hnum.
  apply read_top in E1; [|reflexivity].
  (* first token: a number at top level *)
  pose proof E1 as E1'. unfold read_step in E1'.
  destruct (parse_next (d_init s)) as [[tk st1]|] eqn:Epn; [|discriminate].
  destruct (parse_next_spec _ _ _ Epn) as (w1 & w2 & Hw1 & Hw2 & Hin & Hlex & Hl1 & Hk1 & _).
  cbv zeta in E1'. cbn [d_init d_in d_last d_stack] in Hin, Hl1, Hk1.
  assert (Htk : tk = tok /\ d_in st = d_in st1 /\ d_stack st = []).
  { destruct (t_kind tk) eqn:Ektk;
      repeat match type of E1' with
             | match ?x with _ => _ end = _ => destruct x eqn:?
             end; try discriminate; injection E1' as <- <-; cbn [t_kind set_kind] in Hnum; try discriminate; try congruence.
    cbn [set_last d_in d_stack]. auto. }
  destruct Htk as (-> & Hinst & Hst). rewrite Hnum in Hlex. cbn [lexeme] in Hlex.
  (* second token: EOF *)
  apply read_top in E2; auto.
  assert (Hinv : inv (w1 ++ t_raw tok ++ w2) (d_last st) (d_stack st)).
  { destruct (read_step_inv [] (d_init s) tok st) as (c & Hc & _ & Hne); auto.
    { cbn. left. auto using ws_nil. }
    rewrite Hnum in Hne. destruct (Hne ltac:(discriminate)) as [Hi _].
    cbn [d_init d_in app] in Hc. rewrite Hin, Hinst in Hc.
    assert (c = w1 ++ t_raw tok ++ w2).
    { rewrite !app_assoc in Hc. apply app_inv_tail in Hc. rewrite <- Hc. now rewrite <- !app_assoc. }
    subst c. exact Hi. }
  destruct (read_step_inv _ st next st2 Hinv E2) as (c2 & Hc2 & Heof & _).
  destruct (Heof Ek) as (Hnil & Hwc & _). rewrite Hnil, app_nil_r in Hc2.
  exists w1, (w2 ++ c2). split; auto. split; [now apply ws_app|]. split; auto.
  rewrite Hin, <- Hinst, Hc2. reflexivity.
Qed.

(* unmarshalInt: what is accepted, for a bare or a quoted number, is the exact value *)
Theorem unmarshal_int_sound bits tok v : 1 <= bits -> lexeme (t_kind tok) (t_raw tok) ->
  unmarshal_int bits tok = Some v ->
  exists raw, rfc_number raw /\ lit_is_int raw v /\ int_in_range bits true v /\
    ((t_kind tok = KNumber /\ raw = t_raw tok) \/
     (t_kind tok = KString /\ exists w1 w2, ws w1 /\ ws w2 /\ t_str tok = w1 ++ raw ++ w2)).
Proof.
  intros Hb Hlex. unfold unmarshal_int. destruct (t_kind tok) eqn:Ek; try discriminate.
  - unfold tok_int. rewrite Ek. cbn [lexeme] in Hlex. intros H.
    destruct (token_int_sound bits _ v Hb Hlex H). exists (t_raw tok). split; [auto|]. split; [auto|]. split; [auto|]. left; auto.
  - destruct (quoted_number_token (t_str tok)) as [t|] eqn:Eq; [|discriminate].
    unfold tok_int. destruct (t_kind t) eqn:Ekt; try discriminate. intros H.
    destruct (quoted_number_token_spec _ _ Eq Ekt) as (w1 & w2 & Hw1 & Hw2 & Hs & Hn).
    destruct (token_int_sound bits _ v Hb Hn H). exists (t_raw t). split; [auto|]. split; [auto|]. split; [auto|].
    right. split; auto. exists w1, w2. auto.
Qed.

Theorem unmarshal_uint_sound bits tok v : lexeme (t_kind tok) (t_raw tok) ->
  unmarshal_uint bits tok = Some v ->
  exists raw, rfc_number raw /\ lit_is_int raw (Z.of_N v) /\ int_in_range bits false (Z.of_N v) /\
    ((t_kind tok = KNumber /\ raw = t_raw tok) \/
     (t_kind tok = KString /\ exists w1 w2, ws w1 /\ ws w2 /\ t_str tok = w1 ++ raw ++ w2)).
Proof.
  intros Hlex. unfold unmarshal_uint. destruct (t_kind tok) eqn:Ek; try discriminate.
  - unfold tok_uint. rewrite Ek. cbn [lexeme] in Hlex. intros H.
    destruct (token_uint_sound bits _ v Hlex H). exists (t_raw tok). split; [auto|]. split; [auto|]. split; [auto|]. left; auto.
  - destruct (quoted_number_token (t_str tok)) as [t|] eqn:Eq; [|discriminate].
    unfold tok_uint. destruct (t_kind t) eqn:Ekt; try discriminate. intros H.
    destruct (quoted_number_token_spec _ _ Eq Ekt) as (w1 & w2 & Hw1 & Hw2 & Hs & Hn).
    destruct (token_uint_sound bits _ v Hn H). exists (t_raw t). split; [auto|]. split; [auto|]. split; [auto|].
    right. split; auto. exists w1, w2. auto.
Qed.

(* ---------- enums: by name or by number ---------- *)
Lemma bytes_eqb_eq a b : bytes_eqb a b = true -> a = b.
Proof.
  unfold bytes_eqb. rewrite andb_true_iff. intros [Hl Hf]. apply Nat.eqb_eq in Hl.
  revert b Hl Hf. induction a as [|x a IH]; intros [|y b] Hl Hf; cbn [length] in Hl; try discriminate; auto.
  cbn [combine forallb fst snd] in Hf. apply andb_true_iff in Hf as [H1 H2]. apply is_true in H1.
  subst. f_equal. apply IH; auto.
Qed.
Lemma bytes_eqb_refl a : bytes_eqb a a = true.
Proof.
  unfold bytes_eqb. rewrite Nat.eqb_refl. cbn [andb]. induction a as [|x a IH]; [reflexivity|].
  cbn [combine forallb fst snd]. now rewrite is_refl.
Qed.

Theorem enum_by_name_spec values s v : enum_by_name values s = Some v ->
  exists pre post, values = pre ++ (s, v) :: post /\ forall n w, In (n, w) pre -> n <> s.
Proof.
  induction values as [|[n w] r IH]; cbn [enum_by_name]; [discriminate|].
  destruct (bytes_eqb n s) eqn:E.
  - intros [= <-]. apply bytes_eqb_eq in E. subst. exists [], r. split; auto.
  - intros H. destruct (IH H) as (pre & post & -> & Hpre). exists ((n, w) :: pre), post. split; auto.
    intros n' w' [[= <- <-] | Hin]; [|eauto]. intros ->. rewrite bytes_eqb_refl in E. discriminate.
Qed.

Theorem enum_name_decodes values discard tok s v :
  t_kind tok = KString -> t_str tok = s -> enum_by_name values s = Some v ->
  unmarshal_enum values discard tok = Some (Some v).
Proof. intros Hk Hs Hv. unfold unmarshal_enum. now rewrite Hk, Hs, Hv. Qed.

Theorem enum_number_decodes values discard tok v :
  t_kind tok = KNumber -> rfc_number (t_raw tok) ->
  (unmarshal_enum values discard tok = Some (Some v) <-> token_int 32 (t_raw tok) = Some v).
Proof.
  intros Hk Hn. unfold unmarshal_enum, tok_int. rewrite Hk.
  destruct (token_int 32 (t_raw tok)); split; congruence.
Qed.

Theorem enum_number_exact values discard tok v :
  t_kind tok = KNumber -> rfc_number (t_raw tok) -> unmarshal_enum values discard tok = Some (Some v) ->
  lit_is_int (t_raw tok) v /\ int_in_range 32 true v.
Proof.
  intros Hk Hn H. apply (enum_number_decodes values discard tok v Hk Hn) in H.
  apply token_int_sound; auto. lia.
Qed.

(* ---------- floats, relative to strconv.ParseFloat ---------- *)
Section FloatP.
  Variable parse_float : N -> list byte -> option N.
  (* the oracle hypothesis: what "correctly rounded" means is left to the oracle's specification *)
  Variable correctly_rounded : N -> list byte -> N -> Prop.
  Hypothesis parse_float_rounds : forall bits s b, parse_float bits s = Some b -> correctly_rounded bits s b.

  Theorem float_decode_number bits tok b : t_kind tok = KNumber ->
    unmarshal_float parse_float bits tok = Some (FNum b) -> correctly_rounded bits (t_raw tok) b.
  Proof.
    intros Hk. unfold unmarshal_float, tok_float. rewrite Hk.
    destruct (parse_float bits (t_raw tok)) eqn:E; [|discriminate]. intros [= <-]. auto.
  Qed.

  (* the literal is parsed once, at the requested width: no detour through another width *)
  Theorem float_decode_is_oracle bits tok : t_kind tok = KNumber ->
    unmarshal_float parse_float bits tok =
    match parse_float bits (t_raw tok) with Some b => Some (FNum b) | None => None end.
  Proof. intros Hk. unfold unmarshal_float, tok_float. now rewrite Hk. Qed.

  Theorem float_decode_quoted bits tok b : t_kind tok = KString ->
    unmarshal_float parse_float bits tok = Some (FNum b) ->
    exists raw w1 w2, rfc_number raw /\ ws w1 /\ ws w2 /\ t_str tok = w1 ++ raw ++ w2 /\
                      correctly_rounded bits raw b.
  Proof.
    intros Hk. unfold unmarshal_float. rewrite Hk.
    destruct (bytes_eqb (t_str tok) str_nan); [discriminate|].
    destruct (bytes_eqb (t_str tok) str_inf); [discriminate|].
    destruct (bytes_eqb (t_str tok) (c_minus :: str_inf)); [discriminate|].
    destruct (quoted_number_token (t_str tok)) as [t|] eqn:Eq; [|discriminate].
    unfold tok_float. destruct (t_kind t) eqn:Ekt; try discriminate.
    destruct (parse_float bits (t_raw t)) eqn:E; [|discriminate]. intros [= <-].
    destruct (quoted_number_token_spec _ _ Eq Ekt) as (w1 & w2 & Hw1 & Hw2 & Hs & Hn).
    exists (t_raw t), w1, w2. repeat split; auto.
  Qed.

  Theorem float_special_strings bits tok : t_kind tok = KString ->
    (t_str tok = str_nan -> unmarshal_float parse_float bits tok = Some FNaN) /\
    (t_str tok = str_inf -> unmarshal_float parse_float bits tok = Some (FInf false)) /\
    (t_str tok = c_minus :: str_inf -> unmarshal_float parse_float bits tok = Some (FInf true)).
  Proof.
    intros Hk. unfold unmarshal_float. rewrite Hk. repeat split; intros ->; reflexivity.
  Qed.
End FloatP.
