(* Proofs about Json/UniqModel.v (property C26). *)
From Coq Require Import List NArith Bool Arith Lia FinFun.
From Coq Require Import ZifyBool ZifyNat ZifyN.
Require Import PB.Json.UniqModel.
Import ListNotations.

(* ================================================================ set.Ints *)

Lemma shl64_one n : (n < 64)%N -> shl64 1 n = (2 ^ n)%N.
Proof.
  intros H. unfold shl64. replace (n <? 64)%N with true by lia.
  rewrite N.shiftl_1_l. apply N.mod_small. unfold two64.
  change 18446744073709551616%N with (2 ^ 64)%N. apply N.pow_lt_mono_r; lia.
Qed.

Lemma land_pow2 a n : N.land a (2 ^ n) = if N.testbit a n then (2 ^ n)%N else 0%N.
Proof.
  apply N.bits_inj. intros m. rewrite N.land_spec, N.pow2_bits_eqb.
  destruct (N.testbit a n) eqn:E.
  - rewrite N.pow2_bits_eqb. destruct (N.eqb_spec n m); [subst; now rewrite E|apply andb_false_r].
  - rewrite N.bits_0. destruct (N.eqb_spec n m); [subst; now rewrite E|apply andb_false_r].
Qed.

Lemma lo_has_testbit bs n : (n < 64)%N -> lo_has bs n = N.testbit bs n.
Proof.
  intros H. unfold lo_has. rewrite shl64_one by assumption. rewrite land_pow2.
  destruct (N.testbit bs n); [|reflexivity].
  apply N.ltb_lt. apply N.neq_0_lt_0. apply N.pow_nonzero. lia.
Qed.

Lemma lo_set_testbit bs n m : (n < 64)%N -> N.testbit (lo_set bs n) m = N.testbit bs m || (n =? m)%N.
Proof. intros H. unfold lo_set. rewrite shl64_one by assumption. now rewrite N.lor_spec, N.pow2_bits_eqb. Qed.

Lemma lo_clear_testbit bs n m : (n < 64)%N -> N.testbit (lo_clear bs n) m = N.testbit bs m && negb (n =? m)%N.
Proof. intros H. unfold lo_clear. rewrite shl64_one by assumption. now rewrite N.ldiff_spec, N.pow2_bits_eqb. Qed.

Lemma idx64_in n : In n idx64 <-> (n < 64)%N.
Proof.
  unfold idx64. rewrite in_map_iff. split.
  - intros (k & <- & H). apply in_seq in H. lia.
  - intros H. exists (N.to_nat n). split; [apply N2Nat.id|]. apply in_seq. lia.
Qed.
Lemma idx64_nodup : NoDup idx64.
Proof. unfold idx64. apply FinFun.Injective_map_NoDup; [intros a b; apply Nat2N.inj|apply seq_NoDup]. Qed.

(* two predicates that differ at exactly one point of a duplicate-free list *)
Lemma filter_add_one (f g : N -> bool) n l :
  NoDup l -> In n l -> f n = false -> (forall m, g m = f m || (n =? m)%N) ->
  length (filter g l) = S (length (filter f l)).
Proof.
  intros ND. induction ND as [|x l NI ND IH]; intros I Fn G; [destruct I|].
  cbn [filter]. rewrite G. destruct I as [->|I].
  - rewrite Fn, N.eqb_refl. cbn [orb length]. f_equal.
    f_equal. apply filter_ext_in. intros m Hm. rewrite G.
    destruct (N.eqb_spec n m); [subst; contradiction|apply orb_false_r].
  - destruct (N.eqb_spec n x); [subst; contradiction|]. rewrite orb_false_r.
    destruct (f x); cbn [length]; rewrite IH; auto.
Qed.

Lemma popcount_set bs n : (n < 64)%N -> N.testbit bs n = false ->
  popcount64 (lo_set bs n) = S (popcount64 bs).
Proof.
  intros H T. unfold popcount64. apply filter_add_one with (n := n).
  - apply idx64_nodup. - now apply idx64_in. - exact T. - intros m. now apply lo_set_testbit.
Qed.
Lemma popcount_ext a b : (forall m, N.testbit a m = N.testbit b m) -> popcount64 a = popcount64 b.
Proof. intros H. unfold popcount64. f_equal. apply filter_ext. exact H. Qed.
Lemma popcount_clear bs n : (n < 64)%N -> N.testbit bs n = true ->
  S (popcount64 (lo_clear bs n)) = popcount64 bs.
Proof.
  intros H T. unfold popcount64. symmetry. apply filter_add_one with (n := n).
  - apply idx64_nodup. - now apply idx64_in.
  - rewrite lo_clear_testbit by assumption. now rewrite N.eqb_refl, andb_false_r.
  - intros m. rewrite lo_clear_testbit by assumption.
    destruct (N.eqb_spec n m); [subst; rewrite T; reflexivity|]. cbn. now rewrite andb_true_r, orb_false_r.
Qed.

(* ---- the abstraction relation between an Ints value and a duplicate-free list of numbers *)
Definition small (x : N) : bool := (x <? 64)%N.
Definition big (x : N) : bool := (64 <=? x)%N.

Record inv (s : ints) (a : list N) : Prop := {
  inv_nodup : NoDup a;
  inv_lo : forall m, N.testbit (lo s) m = small m && mem m a;
  inv_cnt : popcount64 (lo s) = length (filter small a);
  inv_hi : match hi s with None => filter big a = [] | Some l => l = filter big a end
}.

Lemma mem_in n l : mem n l = true <-> In n l.
Proof.
  unfold mem. rewrite existsb_exists. split.
  - intros (x & I & E). apply N.eqb_eq in E. now subst.
  - intros I. exists n. split; [assumption|apply N.eqb_refl].
Qed.
Lemma mem_false n l : mem n l = false <-> ~ In n l.
Proof. rewrite <- mem_in. destruct (mem n l); split; intros; try congruence; tauto. Qed.
Lemma mem_filter_big n a : big n = true -> mem n (filter big a) = mem n a.
Proof.
  intros B. destruct (mem n a) eqn:E.
  - apply mem_in. apply filter_In. split; [now apply mem_in|assumption].
  - apply mem_false. intros I. apply filter_In in I. apply mem_false in E. tauto.
Qed.

Lemma inv_empty : inv ints_empty [].
Proof.
  split.
  - constructor.
  - intros m. unfold ints_empty. cbn [lo]. rewrite N.bits_0. cbn [mem existsb]. now rewrite andb_false_r.
  - reflexivity.
  - reflexivity.
Qed.

Lemma inv_has s a n : inv s a -> ints_has s n = mem n a.
Proof.
  intros I. unfold ints_has. destruct (n <? 64)%N eqn:E.
  - rewrite lo_has_testbit by lia. rewrite (inv_lo _ _ I). unfold small. now rewrite E.
  - assert (B : big n = true) by (unfold big; lia).
    pose proof (inv_hi _ _ I) as H. unfold map_has. destruct (hi s) as [l|].
    + subst l. now apply mem_filter_big.
    + rewrite <- (mem_filter_big n a B). now rewrite H.
Qed.

Lemma length_partition a : length a = length (filter small a) + length (filter big a).
Proof.
  induction a as [|x a IH]; [reflexivity|]. cbn [filter length].
  assert (B : big x = negb (small x)) by (unfold small, big; lia).
  rewrite B. destruct (small x); cbn [negb length]; lia.
Qed.

Lemma inv_len s a : inv s a -> ints_len s = length a.
Proof.
  intros I. unfold ints_len, lo_len. rewrite (inv_cnt _ _ I), (length_partition a). f_equal.
  pose proof (inv_hi _ _ I) as H. unfold map_len. destruct (hi s) as [l|]; [now subst|now rewrite H].
Qed.

Lemma inv_set s a n : inv s a -> exists s', ints_set s n = Some s' /\ inv s' (spec_set a n).
Proof.
  intros I. unfold ints_set, spec_set. destruct (n <? 64)%N eqn:E.
  - eexists. split; [reflexivity|].
    assert (T : N.testbit (lo s) n = mem n a) by (rewrite (inv_lo _ _ I); unfold small; now rewrite E).
    destruct (mem n a) eqn:M.
    + (* already present: the word is unchanged bit for bit *)
      assert (X : forall m, N.testbit (lo_set (lo s) n) m = N.testbit (lo s) m).
      { intros m. rewrite lo_set_testbit by lia. destruct (N.eqb_spec n m); [subst; rewrite T; reflexivity|apply orb_false_r]. }
      split; cbn [lo hi].
      * apply (inv_nodup _ _ I).
      * intros m. rewrite X. apply (inv_lo _ _ I).
      * rewrite (popcount_ext _ _ X). apply (inv_cnt _ _ I).
      * apply (inv_hi _ _ I).
    + split; cbn [lo hi].
      * constructor; [now apply mem_false|apply (inv_nodup _ _ I)].
      * intros m. rewrite lo_set_testbit by lia. rewrite (inv_lo _ _ I). cbn [mem existsb].
        fold (mem m a). rewrite (N.eqb_sym m n).
        destruct (N.eqb_spec n m); [subst; unfold small; rewrite E; cbn; now rewrite orb_true_r|].
        cbn. now rewrite orb_false_r.
      * rewrite popcount_set by (try lia; assumption). cbn [filter]. unfold small at 1. rewrite E. cbn [length].
        f_equal. apply (inv_cnt _ _ I).
      * cbn [filter]. replace (big n) with false by (unfold big; lia). apply (inv_hi _ _ I).
  - assert (B : big n = true) by (unfold big; lia).
    pose proof (inv_hi _ _ I) as H.
    set (l0 := match hi s with None => [] | Some l => l end).
    assert (L0 : l0 = filter big a) by (unfold l0; destruct (hi s); [assumption|now rewrite H]).
    replace (match hi s with None => Some [] | Some l => Some l end) with (Some l0) by (unfold l0; now destruct (hi s)).
    cbn [map_store]. eexists. split; [reflexivity|].
    assert (M : mem n l0 = mem n a) by (rewrite L0; now apply mem_filter_big).
    rewrite M. destruct (mem n a) eqn:MA; split; cbn [lo hi]; try apply I.
    + exact L0.
    + constructor; [now apply mem_false|apply (inv_nodup _ _ I)].
    + intros m. rewrite (inv_lo _ _ I). cbn [mem existsb]. fold (mem m a).
      destruct (N.eqb_spec m n); [subst; unfold small; rewrite E; reflexivity|reflexivity].
    + cbn [filter]. unfold small at 1. rewrite E. apply (inv_cnt _ _ I).
    + cbn [filter]. rewrite B. now rewrite L0.
Qed.
Lemma filter_filter_comm {A} (f g : A -> bool) l : filter f (filter g l) = filter g (filter f l).
Proof.
  induction l as [|x l IH]; [reflexivity|]. cbn [filter].
  destruct (g x) eqn:G, (f x) eqn:F; cbn [filter]; rewrite ?G, ?F, IH; reflexivity.
Qed.

Lemma filter_remove_absent n a : ~ In n a -> filter (fun x => negb (n =? x)%N) a = a.
Proof.
  intros H. induction a as [|x a IH]; [reflexivity|]. cbn [filter].
  destruct (N.eqb_spec n x); [subst; exfalso; apply H; now left|].
  cbn [negb]. f_equal. apply IH. intros I. apply H. now right.
Qed.

Lemma filter_remove_length n a : NoDup a -> In n a ->
  S (length (filter (fun x => negb (n =? x)%N) a)) = length a.
Proof.
  intros ND. induction ND as [|x a NI ND IH]; intros I; [destruct I|].
  cbn [filter length]. destruct I as [->|I].
  - rewrite N.eqb_refl. cbn [negb]. f_equal. f_equal. now apply filter_remove_absent.
  - destruct (N.eqb_spec n x); [subst; contradiction|]. cbn [negb length]. f_equal. now apply IH.
Qed.

Lemma inv_clear s a n : inv s a -> inv (ints_clear s n) (spec_clear a n).
Proof.
  intros I. unfold ints_clear, spec_clear.
  set (rm := fun x => negb (n =? x)%N).
  assert (MEM : forall m, mem m (filter rm a) = mem m a && negb (n =? m)%N).
  { intros m. destruct (mem m (filter rm a)) eqn:E.
    - apply mem_in in E. apply filter_In in E. destruct E as [E1 E2]. apply mem_in in E1.
      unfold rm in E2. now rewrite E1, E2.
    - apply mem_false in E. destruct (mem m a) eqn:E1; [|reflexivity]. apply mem_in in E1.
      destruct (N.eqb_spec n m); [reflexivity|]. exfalso. apply E. apply filter_In. split; [assumption|].
      unfold rm. now apply negb_true_iff, N.eqb_neq. }
  destruct (n <? 64)%N eqn:E.
  - assert (T : N.testbit (lo s) n = mem n a) by (rewrite (inv_lo _ _ I); unfold small; now rewrite E).
    split; cbn [lo hi].
    + apply NoDup_filter. apply (inv_nodup _ _ I).
    + intros m. rewrite lo_clear_testbit by lia. rewrite (inv_lo _ _ I), MEM. now rewrite andb_assoc.
    + rewrite filter_filter_comm. fold rm.
      destruct (mem n a) eqn:M.
      * pose proof (popcount_clear (lo s) n ltac:(lia) T) as P.
        assert (In n (filter small a)) by (apply filter_In; split; [now apply mem_in|unfold small; assumption]).
        pose proof (filter_remove_length n (filter small a) (NoDup_filter _ (inv_nodup _ _ I)) H) as Q.
        fold rm in Q. rewrite <- (inv_cnt _ _ I) in Q. lia.
      * unfold rm. rewrite filter_remove_absent.
        -- rewrite <- (inv_cnt _ _ I). apply popcount_ext. intros m. rewrite lo_clear_testbit by lia.
           destruct (N.eqb_spec n m); [subst; rewrite T; reflexivity|apply andb_true_r].
        -- intros J. apply filter_In in J. apply mem_false in M. tauto.
    + pose proof (inv_hi _ _ I) as H. rewrite filter_filter_comm. fold rm.
      assert (R : filter rm (filter big a) = filter big a).
      { apply filter_remove_absent. intros J. apply filter_In in J. unfold big in J. lia. }
      rewrite R. exact H.
  - split; cbn [lo hi].
    + apply NoDup_filter. apply (inv_nodup _ _ I).
    + intros m. rewrite (inv_lo _ _ I), MEM.
      destruct (small m) eqn:S; [|reflexivity]. cbn [andb].
      destruct (N.eqb_spec n m); [unfold small in S; lia|now rewrite andb_true_r].
    + rewrite filter_filter_comm. unfold rm. rewrite filter_remove_absent; [apply (inv_cnt _ _ I)|].
      intros J. apply filter_In in J. unfold small in J. lia.
    + pose proof (inv_hi _ _ I) as H. rewrite (filter_filter_comm big). fold rm.
      destruct (hi s) as [l|]; [now subst|]. now rewrite H.
Qed.

(* Has / Set / Clear / Len of the bitmap+map representation refine a finite set of numbers,
   for every op history; no history panics *)
Theorem ints_refines_set ops :
  exists s, ints_run ops ints_empty = Some s /\
    NoDup (spec_run ops []) /\
    (forall n, ints_has s n = mem n (spec_run ops [])) /\
    ints_len s = length (spec_run ops []).
Proof.
  assert (G : forall ops s a, inv s a -> exists s', ints_run ops s = Some s' /\ inv s' (spec_run ops a)).
  { induction ops0 as [|[n|n] r IH]; intros s a I; cbn [ints_run spec_run].
    - eauto.
    - destruct (inv_set s a n I) as (s' & -> & I'). now apply IH.
    - apply IH. now apply inv_clear. }
  destruct (G ops _ _ inv_empty) as (s & R & I). exists s. split; [assumption|]. split; [apply I|]. split.
  - intros n. now apply inv_has.
  - now apply inv_len.
Qed.
(* ================================================================ the decoder loops *)

Lemma ints_set_total s n : exists s', ints_set s n = Some s'.
Proof.
  unfold ints_set. destruct (n <? 64)%N; [eauto|].
  destruct (hi s); cbn [map_store]; eauto.
Qed.

Lemma has_set_same s n s' : ints_set s n = Some s' -> ints_has s' n = true.
Proof.
  unfold ints_set, ints_has. destruct (n <? 64)%N eqn:E.
  - intros [= <-]. cbn [lo]. rewrite lo_has_testbit by lia. rewrite lo_set_testbit by lia.
    now rewrite N.eqb_refl, orb_true_r.
  - destruct (hi s) as [l|]; cbn [map_store]; intros [= <-]; cbn [hi map_has].
    + destruct (mem n l) eqn:M; [assumption|]. cbn [mem existsb]. now rewrite N.eqb_refl.
    + cbn [mem existsb]. now rewrite N.eqb_refl.
Qed.

Lemma has_set_mono s n s' m : ints_set s n = Some s' -> ints_has s m = true -> ints_has s' m = true.
Proof.
  unfold ints_set, ints_has. destruct (n <? 64)%N eqn:E.
  - intros [= <-]. cbn [lo hi]. destruct (m <? 64)%N eqn:F; [|auto].
    rewrite !lo_has_testbit by lia. rewrite lo_set_testbit by lia. intros ->. reflexivity.
  - destruct (hi s) as [l|]; cbn [map_store]; intros [= <-]; cbn [lo hi map_has]; destruct (m <? 64)%N; auto.
    + destruct (mem n l); [auto|]. cbn [mem existsb]. fold (mem m l). intros ->. apply orb_true_r.
    + discriminate.
Qed.

Definition mono (s s' : ints) : Prop := forall m, ints_has s m = true -> ints_has s' m = true.
Lemma mono_refl s : mono s s. Proof. intros m H; exact H. Qed.
Lemma mono_trans a b c : mono a b -> mono b c -> mono a c. Proof. unfold mono; auto. Qed.
Lemma mono_set s n s' : ints_set s n = Some s' -> mono s s'.
Proof. intros H m. now apply has_set_mono with (n := n). Qed.

Lemma oset_accept s n k : oset s n k = Accept -> exists s', ints_set s n = Some s' /\ k s' = Accept.
Proof. unfold oset. destruct (ints_set s n) as [s'|]; [eauto|discriminate]. Qed.

Lemma kids_accept rec cs : kids rec cs = Accept -> forall c, In c cs -> rec c = Accept.
Proof.
  induction cs as [|c0 cs IH]; cbn [kids]; intros H c I; [destruct I|].
  destruct (rec c0) eqn:E; try discriminate. destruct I as [<-|I]; auto.
Qed.

(* ---------------------------------------------------------------- protojson: one step of the loop *)
Definition jstep_ok (discard : bool) (rec : list fld -> outcome) (rem' : nat) (f : fld) (seen seenO seen' seenO' : ints) : Prop :=
  match f with
  | Known num cls oneof isnull children =>
      ints_has seen num = false /\ ints_has seen' num = true /\
      (isnull = false -> (forall c, In c children -> rec c = Accept) /\
         match cls, oneof with
         | CSingular, Some idx => ints_has seenO idx = false /\ ints_has seenO' idx = true
         | _, _ => True
         end)
  | Unknown _ d => discard = true /\ d <= rem'
  | Scan d => d <= rem'
  | ByNum => True
  end.

Lemma jloop_inv discard rec rem' f fs seen seenO :
  jloop discard rec rem' (f :: fs) seen seenO = Accept ->
  exists seen' seenO', jloop discard rec rem' fs seen' seenO' = Accept /\ mono seen seen' /\ mono seenO seenO' /\
                       jstep_ok discard rec rem' f seen seenO seen' seenO'.
Proof.
  cbn [jloop]. destruct f as [num cls oneof isnull children|r d|d|].
  - destruct (ints_has seen num) eqn:H; [discriminate|]. intros A.
    apply oset_accept in A. destruct A as (seen1 & S1 & A).
    destruct isnull.
    { exists seen1, seenO. split; [exact A|]. split; [eapply mono_set; eauto|]. split; [apply mono_refl|].
      cbn [jstep_ok]. split; [exact H|]. split; [eapply has_set_same; eauto|]. intros X; discriminate X. }
    destruct cls; [destruct oneof as [idx|]|..].
    + destruct (ints_has seenO idx) eqn:HO; [discriminate|].
      apply oset_accept in A. destruct A as (seenO1 & S2 & A).
      destruct (kids rec children) eqn:K; try discriminate.
      exists seen1, seenO1. repeat split; eauto using mono_refl, mono_set, has_set_same, kids_accept.
    + destruct (kids rec children) eqn:K; try discriminate.
      exists seen1, seenO. repeat split; eauto using mono_refl, mono_set, has_set_same, kids_accept.
    + destruct (kids rec children) eqn:K; try discriminate.
      exists seen1, seenO. cbn [jstep_ok]. repeat split; eauto using mono_refl, mono_set, has_set_same, kids_accept; try (destruct oneof; exact I).
    + destruct (kids rec children) eqn:K; try discriminate.
      exists seen1, seenO. cbn [jstep_ok]. repeat split; eauto using mono_refl, mono_set, has_set_same, kids_accept; try (destruct oneof; exact I).
  - destruct discard; [|discriminate]. destruct (Nat.ltb rem' d) eqn:L; [discriminate|]. intros A.
    exists seen, seenO. repeat split; auto using mono_refl. apply Nat.ltb_ge in L. exact L.
  - destruct (Nat.ltb rem' d) eqn:L; [discriminate|]. intros A.
    exists seen, seenO. repeat split; auto using mono_refl. apply Nat.ltb_ge in L. exact L.
  - intros A. exists seen, seenO. repeat split; auto using mono_refl.
Qed.

Lemma jloop_forall discard rec rem' fs : forall seen seenO,
  jloop discard rec rem' fs seen seenO = Accept ->
  Forall (fun f => exists s so s' so', jstep_ok discard rec rem' f s so s' so') fs.
Proof.
  induction fs as [|f fs IH]; intros seen seenO A; [constructor|].
  apply jloop_inv in A. destruct A as (s' & so' & A & _ & _ & OK).
  constructor; [now exists seen, seenO, s', so'|eauto].
Qed.

(* a field whose number is already in seenNums makes the loop fail *)
Lemma jloop_seen_rejects discard rec rem' fs : forall seen seenO num cls oneof isnull children,
  In (Known num cls oneof isnull children) fs -> ints_has seen num = true ->
  jloop discard rec rem' fs seen seenO <> Accept.
Proof.
  induction fs as [|f fs IH]; intros seen seenO num cls oneof isnull children I H A; [destruct I|].
  apply jloop_inv in A. destruct A as (s' & so' & A & M & _ & OK).
  destruct I as [->|I].
  - cbn [jstep_ok] in OK. destruct OK as (F & _). congruence.
  - exact (IH _ _ _ _ _ _ _ I (M _ H) A).
Qed.

Lemma jloop_seenO_rejects discard rec rem' fs : forall seen seenO num idx children,
  In (Known num CSingular (Some idx) false children) fs -> ints_has seenO idx = true ->
  jloop discard rec rem' fs seen seenO <> Accept.
Proof.
  induction fs as [|f fs IH]; intros seen seenO num idx children I H A; [destruct I|].
  apply jloop_inv in A. destruct A as (s' & so' & A & _ & M & OK).
  destruct I as [->|I].
  - cbn [jstep_ok] in OK. destruct OK as (_ & _ & OK). destruct (OK eq_refl) as (_ & F & _). congruence.
  - exact (IH _ _ _ _ _ I (M _ H) A).
Qed.

(* a message body that names a field number twice (JSON: lists and maps included) *)
Definition names_twice_j (fs : list fld) : Prop :=
  exists pre num c1 o1 n1 ch1 rest c2 o2 n2 ch2,
    fs = pre ++ Known num c1 o1 n1 ch1 :: rest /\ In (Known num c2 o2 n2 ch2) rest.
(* two members of one oneof, both with a (non-null) value *)
Definition two_oneof_j (fs : list fld) : Prop :=
  exists pre num1 idx ch1 rest num2 ch2,
    fs = pre ++ Known num1 CSingular (Some idx) false ch1 :: rest /\ In (Known num2 CSingular (Some idx) false ch2) rest.

Lemma jloop_dup discard rec rem' : forall pre seen seenO num c1 o1 n1 ch1 rest c2 o2 n2 ch2,
  In (Known num c2 o2 n2 ch2) rest ->
  jloop discard rec rem' (pre ++ Known num c1 o1 n1 ch1 :: rest) seen seenO <> Accept.
Proof.
  induction pre as [|f pre IH]; intros seen seenO num c1 o1 n1 ch1 rest c2 o2 n2 ch2 I A; cbn [app] in A;
    apply jloop_inv in A; destruct A as (s' & so' & A & M & MO & OK).
  - cbn [jstep_ok] in OK. destruct OK as (_ & H & _).
    exact (jloop_seen_rejects _ _ _ _ _ _ _ _ _ _ _ I H A).
  - exact (IH _ _ _ _ _ _ _ _ _ _ _ _ I A).
Qed.

Lemma jloop_oneof discard rec rem' : forall pre seen seenO num1 idx ch1 rest num2 ch2,
  In (Known num2 CSingular (Some idx) false ch2) rest ->
  jloop discard rec rem' (pre ++ Known num1 CSingular (Some idx) false ch1 :: rest) seen seenO <> Accept.
Proof.
  induction pre as [|f pre IH]; intros seen seenO num1 idx ch1 rest num2 ch2 I A; cbn [app] in A;
    apply jloop_inv in A; destruct A as (s' & so' & A & M & MO & OK).
  - cbn [jstep_ok] in OK. destruct OK as (_ & _ & OK). destruct (OK eq_refl) as (_ & _ & H).
    exact (jloop_seenO_rejects _ _ _ _ _ _ _ _ _ I H A).
  - exact (IH _ _ _ _ _ _ _ _ I A).
Qed.

Theorem j_duplicate_rejected discard rem fs : names_twice_j fs -> jmsg discard rem fs <> Accept.
Proof.
  intros (pre & num & c1 & o1 & n1 & ch1 & rest & c2 & o2 & n2 & ch2 & -> & I).
  destruct rem; cbn [jmsg]; [discriminate|]. now apply jloop_dup with (c2 := c2) (o2 := o2) (n2 := n2) (ch2 := ch2).
Qed.

Theorem j_two_oneof_rejected discard rem fs : two_oneof_j fs -> jmsg discard rem fs <> Accept.
Proof.
  intros (pre & num1 & idx & ch1 & rest & num2 & ch2 & -> & I).
  destruct rem; cbn [jmsg]; [discriminate|]. now apply jloop_oneof with (num2 := num2) (ch2 := ch2).
Qed.

(* a rejected nested message rejects the enclosing one *)
Theorem j_child_rejected discard rem fs num cls oneof children c :
  In (Known num cls oneof false children) fs -> In c children ->
  jmsg discard rem c <> Accept -> jmsg discard (S rem) fs <> Accept.
Proof.
  intros I IC NC A. cbn [jmsg] in A. apply jloop_forall in A.
  rewrite Forall_forall in A. destruct (A _ I) as (s & so & s' & so' & OK).
  cbn [jstep_ok] in OK. destruct OK as (_ & _ & OK). destruct (OK eq_refl) as (K & _). exact (NC (K _ IC)).
Qed.

(* the violations of the property anywhere in the document tree *)
Inductive violates_j : list fld -> Prop :=
| VJ_dup fs : names_twice_j fs -> violates_j fs
| VJ_oneof fs : two_oneof_j fs -> violates_j fs
| VJ_child fs num cls oneof children c :
    In (Known num cls oneof false children) fs -> In c children -> violates_j c -> violates_j fs.

Theorem j_violation_rejected discard fs : violates_j fs -> forall rem, jmsg discard rem fs <> Accept.
Proof.
  induction 1 as [fs H|fs H|fs num cls oneof children c I IC V IH]; intros rem.
  - now apply j_duplicate_rejected.
  - now apply j_two_oneof_rejected.
  - destruct rem; [cbn [jmsg]; discriminate|]. eapply j_child_rejected; eauto.
Qed.

(* ---- depth *)
Inductive jdepth_le : nat -> list fld -> Prop :=
| JD k fs :
    (forall num cls oneof children c, In (Known num cls oneof false children) fs -> In c children -> jdepth_le k c) ->
    (forall r d, In (Unknown r d) fs -> d <= k) ->
    (forall d, In (Scan d) fs -> d <= k) ->
    jdepth_le (S k) fs.

Theorem j_depth_bounded discard : forall rem fs, jmsg discard rem fs = Accept -> jdepth_le rem fs.
Proof.
  induction rem as [|rem IH]; intros fs A; cbn [jmsg] in A; [discriminate|].
  apply jloop_forall in A. rewrite Forall_forall in A. constructor.
  - intros num cls oneof children c I IC. destruct (A _ I) as (s & so & s' & so' & OK).
    cbn [jstep_ok] in OK. destruct OK as (_ & _ & OK). destruct (OK eq_refl) as (K & _). apply IH. exact (K _ IC).
  - intros r d I. destruct (A _ I) as (s & so & s' & so' & OK). cbn [jstep_ok] in OK. tauto.
  - intros d I. destruct (A _ I) as (s & so & s' & so' & OK). exact OK.
Qed.

(* ---- totality of the event-level loop: no Panic outcome *)
Lemma kids_no_panic rec cs : (forall c, rec c <> Panic) -> kids rec cs <> Panic.
Proof.
  intros R. induction cs as [|c cs IH]; cbn [kids]; [discriminate|].
  destruct (rec c) eqn:E; [assumption|discriminate|]. exfalso. exact (R _ E).
Qed.

Lemma oset_no_panic s n k : (forall s', k s' <> Panic) -> oset s n k <> Panic.
Proof. intros K. unfold oset. destruct (ints_set_total s n) as (s' & ->). apply K. Qed.

Lemma jloop_no_panic discard rec rem' : (forall c, rec c <> Panic) ->
  forall fs seen seenO, jloop discard rec rem' fs seen seenO <> Panic.
Proof.
  intros R. induction fs as [|f fs IH]; intros seen seenO; cbn [jloop]; [discriminate|].
  destruct f as [num cls oneof isnull children|r d|d|].
  - destruct (ints_has seen num); [discriminate|]. apply oset_no_panic. intros seen1.
    destruct isnull; [apply IH|].
    pose proof (kids_no_panic rec children R) as K.
    destruct cls; [destruct oneof as [idx|]|..].
    + destruct (ints_has seenO idx); [discriminate|]. apply oset_no_panic. intros seenO1.
      destruct (kids rec children); [apply IH|discriminate|congruence].
    + destruct (kids rec children); [apply IH|discriminate|congruence].
    + destruct (kids rec children); [apply IH|discriminate|congruence].
    + destruct (kids rec children); [apply IH|discriminate|congruence].
  - destruct discard; [|discriminate]. destruct (Nat.ltb rem' d); [discriminate|apply IH].
  - destruct (Nat.ltb rem' d); [discriminate|apply IH].
  - apply IH.
Qed.

Theorem j_no_panic discard : forall rem fs, jmsg discard rem fs <> Panic.
Proof.
  induction rem as [|rem IH]; intros fs; cbn [jmsg]; [discriminate|].
  apply jloop_no_panic. exact IH.
Qed.

(* ---------------------------------------------------------------- prototext: one step of the loop *)
Definition tstep_ok (discard : bool) (rec rec2 : list fld -> outcome) (rem' : nat) (f : fld) (seen seenO seen' seenO' : ints) : Prop :=
  match f with
  | Known num cls oneof _ children =>
      match cls with
      | CSingular =>
          ints_has seen num = false /\ ints_has seen' num = true /\ (forall c, In c children -> rec c = Accept) /\
          match oneof with Some idx => ints_has seenO idx = false /\ ints_has seenO' idx = true | None => True end
      | CList => forall c, In c children -> rec c = Accept
      | CMap => rem' <> 0 /\ forall c, In c children -> rec2 c = Accept
      end
  | Unknown reserved d => (discard || reserved = true) /\ d <= rem'
  | Scan _ => True
  | ByNum => False
  end.

Lemma tloop_inv discard rec rec2 rem' f fs seen seenO :
  tloop discard rec rec2 rem' (f :: fs) seen seenO = Accept ->
  exists seen' seenO', tloop discard rec rec2 rem' fs seen' seenO' = Accept /\ mono seen seen' /\ mono seenO seenO' /\
                       tstep_ok discard rec rec2 rem' f seen seenO seen' seenO'.
Proof.
  cbn [tloop]. destruct f as [num cls oneof isnull children|r d|d|].
  - destruct cls.
    + destruct oneof as [idx|].
      * destruct (ints_has seenO idx) eqn:HO; [discriminate|]. intros A.
        apply oset_accept in A. destruct A as (seenO1 & S2 & A).
        destruct (ints_has seen num) eqn:H; [discriminate|].
        destruct (kids rec children) eqn:K; try discriminate.
        apply oset_accept in A. destruct A as (seen1 & S1 & A).
        exists seen1, seenO1. cbn [tstep_ok]. repeat split; eauto using mono_refl, mono_set, has_set_same, kids_accept.
      * destruct (ints_has seen num) eqn:H; [discriminate|].
        destruct (kids rec children) eqn:K; try discriminate. intros A.
        apply oset_accept in A. destruct A as (seen1 & S1 & A).
        exists seen1, seenO. cbn [tstep_ok]. repeat split; eauto using mono_refl, mono_set, has_set_same, kids_accept.
    + destruct (kids rec children) eqn:K; try discriminate. intros A.
      exists seen, seenO. cbn [tstep_ok]. repeat split; eauto using mono_refl, kids_accept.
    + destruct rem' as [|r'']; [discriminate|].
      destruct (kids rec2 children) eqn:K; try discriminate. intros A.
      exists seen, seenO. cbn [tstep_ok]. repeat split; eauto using mono_refl, kids_accept.
  - destruct (discard || r) eqn:D; [|discriminate]. destruct (Nat.ltb rem' d) eqn:L; [discriminate|]. intros A.
    exists seen, seenO. repeat split; auto using mono_refl. apply Nat.ltb_ge in L. exact L.
  - intros A. exists seen, seenO. repeat split; auto using mono_refl.
  - discriminate.
Qed.

Lemma tloop_forall discard rec rec2 rem' fs : forall seen seenO,
  tloop discard rec rec2 rem' fs seen seenO = Accept ->
  Forall (fun f => exists s so s' so', tstep_ok discard rec rec2 rem' f s so s' so') fs.
Proof.
  induction fs as [|f fs IH]; intros seen seenO A; [constructor|].
  apply tloop_inv in A. destruct A as (s' & so' & A & _ & _ & OK).
  constructor; [now exists seen, seenO, s', so'|eauto].
Qed.

Lemma tloop_seen_rejects discard rec rec2 rem' fs : forall seen seenO num oneof isnull children,
  In (Known num CSingular oneof isnull children) fs -> ints_has seen num = true ->
  tloop discard rec rec2 rem' fs seen seenO <> Accept.
Proof.
  induction fs as [|f fs IH]; intros seen seenO num oneof isnull children I H A; [destruct I|].
  apply tloop_inv in A. destruct A as (s' & so' & A & M & _ & OK).
  destruct I as [->|I].
  - cbn [tstep_ok] in OK. destruct OK as (F & _). congruence.
  - exact (IH _ _ _ _ _ _ I (M _ H) A).
Qed.

Lemma tloop_seenO_rejects discard rec rec2 rem' fs : forall seen seenO num idx isnull children,
  In (Known num CSingular (Some idx) isnull children) fs -> ints_has seenO idx = true ->
  tloop discard rec rec2 rem' fs seen seenO <> Accept.
Proof.
  induction fs as [|f fs IH]; intros seen seenO num idx isnull children I H A; [destruct I|].
  apply tloop_inv in A. destruct A as (s' & so' & A & _ & M & OK).
  destruct I as [->|I].
  - cbn [tstep_ok] in OK. destruct OK as (_ & _ & _ & F & _). congruence.
  - exact (IH _ _ _ _ _ _ I (M _ H) A).
Qed.

(* text: a non-repeated field named twice; two members of one oneof *)
Definition names_twice_t (fs : list fld) : Prop :=
  exists pre num o1 n1 ch1 rest o2 n2 ch2,
    fs = pre ++ Known num CSingular o1 n1 ch1 :: rest /\ In (Known num CSingular o2 n2 ch2) rest.
Definition two_oneof_t (fs : list fld) : Prop :=
  exists pre num1 idx n1 ch1 rest num2 n2 ch2,
    fs = pre ++ Known num1 CSingular (Some idx) n1 ch1 :: rest /\ In (Known num2 CSingular (Some idx) n2 ch2) rest.

Lemma tloop_dup discard rec rec2 rem' : forall pre seen seenO num o1 n1 ch1 rest o2 n2 ch2,
  In (Known num CSingular o2 n2 ch2) rest ->
  tloop discard rec rec2 rem' (pre ++ Known num CSingular o1 n1 ch1 :: rest) seen seenO <> Accept.
Proof.
  induction pre as [|f pre IH]; intros seen seenO num o1 n1 ch1 rest o2 n2 ch2 I A; cbn [app] in A;
    apply tloop_inv in A; destruct A as (s' & so' & A & M & MO & OK).
  - cbn [tstep_ok] in OK. destruct OK as (_ & H & _).
    exact (tloop_seen_rejects _ _ _ _ _ _ _ _ _ _ _ I H A).
  - exact (IH _ _ _ _ _ _ _ _ _ _ I A).
Qed.

Lemma tloop_oneof discard rec rec2 rem' : forall pre seen seenO num1 idx n1 ch1 rest num2 n2 ch2,
  In (Known num2 CSingular (Some idx) n2 ch2) rest ->
  tloop discard rec rec2 rem' (pre ++ Known num1 CSingular (Some idx) n1 ch1 :: rest) seen seenO <> Accept.
Proof.
  induction pre as [|f pre IH]; intros seen seenO num1 idx n1 ch1 rest num2 n2 ch2 I A; cbn [app] in A;
    apply tloop_inv in A; destruct A as (s' & so' & A & M & MO & OK).
  - cbn [tstep_ok] in OK. destruct OK as (_ & _ & _ & _ & H).
    exact (tloop_seenO_rejects _ _ _ _ _ _ _ _ _ _ _ I H A).
  - exact (IH _ _ _ _ _ _ _ _ _ _ I A).
Qed.

Theorem t_duplicate_rejected discard rem fs : names_twice_t fs -> tmsg discard rem fs <> Accept.
Proof.
  intros (pre & num & o1 & n1 & ch1 & rest & o2 & n2 & ch2 & -> & I).
  destruct rem; cbn [tmsg]; [discriminate|]. now apply tloop_dup with (o2 := o2) (n2 := n2) (ch2 := ch2).
Qed.

Theorem t_two_oneof_rejected discard rem fs : two_oneof_t fs -> tmsg discard rem fs <> Accept.
Proof.
  intros (pre & num1 & idx & n1 & ch1 & rest & num2 & n2 & ch2 & -> & I).
  destruct rem; cbn [tmsg]; [discriminate|]. now apply tloop_oneof with (num2 := num2) (n2 := n2) (ch2 := ch2).
Qed.

(* a known field addressed by number is always refused *)
Theorem t_bynum_rejected discard rem fs : In ByNum fs -> tmsg discard rem fs <> Accept.
Proof.
  intros I A. destruct rem; cbn [tmsg] in A; [discriminate|]. apply tloop_forall in A.
  rewrite Forall_forall in A. destruct (A _ I) as (s & so & s' & so' & OK). exact OK.
Qed.

Theorem t_child_rejected discard rem fs num cls oneof isnull children c :
  In (Known num cls oneof isnull children) fs -> In c children ->
  (forall r, tmsg discard r c <> Accept) -> tmsg discard (S rem) fs <> Accept.
Proof.
  intros I IC NC A. cbn [tmsg] in A. apply tloop_forall in A.
  rewrite Forall_forall in A. destruct (A _ I) as (s & so & s' & so' & OK).
  cbn [tstep_ok] in OK. destruct cls.
  - destruct OK as (_ & _ & K & _). exact (NC _ (K _ IC)).
  - exact (NC _ (OK _ IC)).
  - destruct OK as (NZ & K). destruct rem as [|r'']; [congruence|]. exact (NC _ (K _ IC)).
Qed.

Inductive violates_t : list fld -> Prop :=
| VT_dup fs : names_twice_t fs -> violates_t fs
| VT_oneof fs : two_oneof_t fs -> violates_t fs
| VT_bynum fs : In ByNum fs -> violates_t fs
| VT_child fs num cls oneof isnull children c :
    In (Known num cls oneof isnull children) fs -> In c children -> violates_t c -> violates_t fs.

Theorem t_violation_rejected discard fs : violates_t fs -> forall rem, tmsg discard rem fs <> Accept.
Proof.
  induction 1 as [fs H|fs H|fs H|fs num cls oneof isnull children c I IC V IH]; intros rem.
  - now apply t_duplicate_rejected.
  - now apply t_two_oneof_rejected.
  - now apply t_bynum_rejected.
  - destruct rem; [cbn [tmsg]; discriminate|]. eapply t_child_rejected; eauto.
Qed.

(* ---- depth: a map entry is one nesting level of its own (it is a message syntactically and
   unmarshalMap spends one RecursionLimit unit on it) *)
Inductive tdepth_le : nat -> list fld -> Prop :=
| TD k fs :
    (forall num cls oneof isnull children c, In (Known num cls oneof isnull children) fs -> cls <> CMap ->
       In c children -> tdepth_le k c) ->
    (forall num oneof isnull children, In (Known num CMap oneof isnull children) fs -> 1 <= k) ->
    (forall num oneof isnull children c, In (Known num CMap oneof isnull children) fs ->
       In c children -> tdepth_le (Nat.pred k) c) ->
    (forall r d, In (Unknown r d) fs -> d <= k) ->
    tdepth_le (S k) fs.

Theorem t_depth_bounded discard : forall rem fs, tmsg discard rem fs = Accept -> tdepth_le rem fs.
Proof.
  induction rem as [rem IH] using lt_wf_ind. intros fs A.
  destruct rem as [|rem']; cbn [tmsg] in A; [discriminate|].
  apply tloop_forall in A. rewrite Forall_forall in A. constructor.
  - intros num cls oneof isnull children c I NM IC. destruct (A _ I) as (s & so & s' & so' & OK).
    cbn [tstep_ok] in OK. destruct cls; [| |congruence].
    + destruct OK as (_ & _ & K & _). apply IH; [lia|]. exact (K _ IC).
    + apply IH; [lia|]. exact (OK _ IC).
  - intros num oneof isnull children I. destruct (A _ I) as (s & so & s' & so' & OK).
    cbn [tstep_ok] in OK. lia.
  - intros num oneof isnull children c I IC. destruct (A _ I) as (s & so & s' & so' & OK).
    cbn [tstep_ok] in OK. destruct OK as (NZ & K). destruct rem' as [|r'']; [congruence|].
    cbn [Nat.pred]. apply IH; [lia|]. exact (K _ IC).
  - intros r d I. destruct (A _ I) as (s & so & s' & so' & OK). cbn [tstep_ok] in OK. tauto.
Qed.

Lemma tloop_no_panic discard rec rec2 rem' : (forall c, rec c <> Panic) -> (forall c, rec2 c <> Panic) ->
  forall fs seen seenO, tloop discard rec rec2 rem' fs seen seenO <> Panic.
Proof.
  intros R R2. induction fs as [|f fs IH]; intros seen seenO; cbn [tloop]; [discriminate|].
  destruct f as [num cls oneof isnull children|r d|d|].
  - pose proof (kids_no_panic rec children R) as K. pose proof (kids_no_panic rec2 children R2) as K2.
    destruct cls.
    + assert (B : forall so1, (if ints_has seen num then Reject RDup
                 else match kids rec children with
                      | Accept => oset seen num (fun seen1 => tloop discard rec rec2 rem' fs seen1 so1)
                      | o => o end) <> Panic).
      { intros so1. destruct (ints_has seen num); [discriminate|].
        destruct (kids rec children); [|discriminate|congruence]. apply oset_no_panic. intros; apply IH. }
      destruct oneof as [idx|]; [|apply B].
      destruct (ints_has seenO idx); [discriminate|]. apply oset_no_panic. exact B.
    + destruct (kids rec children); [apply IH|discriminate|congruence].
    + destruct rem'; [discriminate|]. destruct (kids rec2 children); [apply IH|discriminate|congruence].
  - destruct (discard || r); [|discriminate]. destruct (Nat.ltb rem' d); [discriminate|apply IH].
  - apply IH.
  - discriminate.
Qed.

Theorem t_no_panic discard : forall rem fs, tmsg discard rem fs <> Panic.
Proof.
  induction rem as [rem IH] using lt_wf_ind. intros fs.
  destruct rem as [|rem']; cbn [tmsg]; [discriminate|].
  apply tloop_no_panic.
  - apply IH. lia.
  - destruct rem' as [|r'']; [discriminate|]. apply IH. lia.
Qed.

(* ---------------------------------------------------------------- prototext unmarshalAny *)
Definition b2n (b : bool) : nat := if b then 1 else 0.
Lemma tany_budget : forall evs t v e, tany evs t v e = Accept -> length evs + b2n t + b2n v + b2n e <= 3.
Proof.
  induction evs as [|ev evs IH]; intros t v e A.
  - destruct t, v, e; cbn; lia.
  - destruct ev as [| |child]; cbn [tany] in A.
    + destruct t; [discriminate|]. destruct e; [discriminate|]. apply IH in A. cbn [length b2n] in *. lia.
    + destruct v; [discriminate|]. destruct e; [discriminate|]. apply IH in A. cbn [length b2n] in *. lia.
    + destruct e; [discriminate|]. destruct t; [discriminate|]. destruct child; try discriminate.
      apply IH in A. cbn [length b2n] in *. lia.
Qed.

(* Full statement (refuted, finding FL3): an Any body that gives Any.value a value twice is rejected *)
Lemma tany_value_twice_refuted :
  exists evs, 2 <= value_sets evs /\ tany evs false false false = Accept.
Proof. exists [AV; AE Accept]. split; [cbn; lia|reflexivity]. Qed.

(* ... and that is the only accepted shape *)
Lemma tany_value_twice_except_FL3 evs :
  excl_FL3 evs = false -> 2 <= value_sets evs -> tany evs false false false <> Accept.
Proof.
  intros X V A. pose proof (tany_budget _ _ _ _ A) as B. cbn [b2n] in B.
  destruct evs as [|e1 [|e2 [|e3 [|e4 r]]]]; cbn [length] in B; try lia.
  - cbn in V. lia.
  - destruct e1; cbn in V; lia.
  - destruct e1 as [| |c1], e2 as [| |c2]; cbn in V; try lia; cbn in A; try discriminate.
    + destruct c2; try discriminate.
    + destruct c1; discriminate.
    + destruct c1; discriminate.
  - destruct e1 as [| |c1], e2 as [| |c2], e3 as [| |c3]; cbn in A; try discriminate;
      try (destruct c1; discriminate); try (destruct c2; discriminate); try (destruct c3; discriminate).
Qed.

(* ---------------------------------------------------------------- numeric nesting *)
Lemma list_max_map_le {A} (f : A -> nat) l n : (forall x, In x l -> f x <= n) -> list_max (map f l) <= n.
Proof.
  intros H. apply list_max_le. apply Forall_forall. intros k I. apply in_map_iff in I.
  destruct I as (x & <- & I). auto.
Qed.

Lemma jdepth_le_depth k fs : jdepth_le k fs -> depth_j fs <= k.
Proof.
  induction 1 as [k fs HK IH HU HS]. unfold depth_j. apply le_n_S. apply list_max_map_le.
  intros f I. destruct f as [num cls oneof isnull children|r d|d|]; cbn [fdepth_j].
  - destruct isnull; [lia|]. apply list_max_map_le. intros c IC.
    exact (IH _ _ _ _ _ I IC).
  - eauto.
  - eauto.
  - lia.
Qed.

Theorem j_depth_bounded_num discard rem fs : jmsg discard rem fs = Accept -> depth_j fs <= rem.
Proof. intros A. apply jdepth_le_depth. now apply j_depth_bounded with (discard := discard). Qed.

Lemma tdepth_le_depth k fs : tdepth_le k fs -> depth_t fs <= k.
Proof.
  induction 1 as [k fs HK IHK HM1 HM IHM HU]. unfold depth_t. apply le_n_S. apply list_max_map_le.
  intros f I. destruct f as [num cls oneof isnull children|r d|d|]; cbn [fdepth_t]; try lia; [|eauto].
  destruct cls.
  - apply list_max_map_le. intros c IC. apply (IHK _ _ _ _ _ _ I); [discriminate|assumption].
  - apply list_max_map_le. intros c IC. apply (IHK _ _ _ _ _ _ I); [discriminate|assumption].
  - pose proof (HM1 _ _ _ _ I) as K1. destruct k as [|k0]; [lia|]. apply le_n_S.
    apply list_max_map_le. intros c IC. exact (IHM _ _ _ _ _ I IC).
Qed.

Theorem t_depth_bounded_num discard rem fs : tmsg discard rem fs = Accept -> depth_t fs <= rem.
Proof. intros A. apply tdepth_le_depth. now apply t_depth_bounded with (discard := discard). Qed.
