(* Proofs for C22: Token.Int / Token.Uint decode a JSON number literal exactly
   (soundness unconditionally; completeness outside the F6 class). *)
From Coq Require Import List NArith ZArith Lia Bool.
From Coq Require Import ZifyBool ZifyNat ZifyN.
From PB Require Import Base.PBytes Json.JsonUtf8 Json.JsonGrammar Json.JsonNumModel Json.JsonNumP.
Import ListNotations.
Open Scope N_scope.
Ltac Zify.zify_post_hook ::= Z.div_mod_to_equations.

(* ---------- powers of ten, structurally ---------- *)
Fixpoint p10 (n : nat) : N := match n with O => 1 | S k => 10 * p10 k end.

Lemma p10_pos n : 0 < p10 n.
Proof. induction n; cbn [p10]; lia. Qed.
Lemma p10_add a b : p10 (a + b) = p10 a * p10 b.
Proof. induction a; cbn [p10 Nat.add]; lia. Qed.
Lemma p10_Z n : Z.of_N (p10 n) = (10 ^ Z.of_nat n)%Z.
Proof.
  induction n; [reflexivity|]. rewrite Nat2Z.inj_succ, Z.pow_succ_r by lia. cbn [p10]. lia.
Qed.
Lemma p10_mono a b : (a <= b)%nat -> p10 a <= p10 b.
Proof.
  intros H. replace b with (a + (b - a))%nat by lia. rewrite p10_add.
  pose proof (p10_pos a). pose proof (p10_pos (b - a)). nia.
Qed.
Lemma p10_ge10 n : (1 <= n)%nat -> 10 <= p10 n.
Proof. intros H. apply (p10_mono 1 n) in H. exact H. Qed.

(* ---------- decimal value of digit strings ---------- *)
Definition dv (b : byte) : N := b2n b - 48.
Definition digits (s : list byte) : Prop := forallb is_digit s = true.
Definition is0 (b : byte) : bool := is b c_0.

Lemma dec_val_acc s acc :
  fold_left (fun a b => a * 10 + (b2n b - 48)) s acc = acc * p10 (length s) + dec_val s.
Proof.
  unfold dec_val. revert acc. induction s as [|b s IH]; intros acc; cbn [fold_left length p10].
  - lia.
  - rewrite IH. rewrite (IH (0 * 10 + _)). lia.
Qed.

Lemma dec_val_cons b s : dec_val (b :: s) = dv b * p10 (length s) + dec_val s.
Proof. unfold dec_val at 1. cbn [fold_left]. rewrite dec_val_acc. unfold dv. lia. Qed.

Lemma dec_val_nil : dec_val [] = 0.
Proof. reflexivity. Qed.

Lemma dec_val_app a b : dec_val (a ++ b) = dec_val a * p10 (length b) + dec_val b.
Proof.
  induction a as [|x a IH]; cbn [app].
  - rewrite dec_val_nil. lia.
  - rewrite !dec_val_cons, IH, app_length, p10_add. lia.
Qed.

Lemma dv_digit b : is_digit b = true -> dv b <= 9.
Proof. unfold dv. rewrite is_digit_b2n. lia. Qed.
Lemma dv_digit19 b : is_digit19 b = true -> 1 <= dv b.
Proof. unfold dv, is_digit19, in_range. lia. Qed.
Lemma dv_0 : dv c_0 = 0.
Proof. reflexivity. Qed.
Lemma dv_nonzero b : is_digit b = true -> is0 b = false -> 1 <= dv b.
Proof.
  unfold dv, is0. rewrite is_digit_b2n. intros H H0.
  destruct (N.eq_dec (b2n b) 48) as [E|E]; [|lia].
  exfalso. apply is_false in H0. apply H0. rewrite <- (n2b_b2n b), E. reflexivity.
Qed.

Lemma digits_cons b s : digits (b :: s) <-> is_digit b = true /\ digits s.
Proof. unfold digits. cbn [forallb]. now rewrite andb_true_iff. Qed.
Lemma digits_app a b : digits (a ++ b) <-> digits a /\ digits b.
Proof. unfold digits. now rewrite forallb_app, andb_true_iff. Qed.

Lemma dec_val_lt s : digits s -> dec_val s < p10 (length s).
Proof.
  induction s as [|b s IH]; intros H.
  - cbn. lia.
  - apply digits_cons in H as [Hb Hs]. rewrite dec_val_cons. cbn [length p10].
    pose proof (dv_digit _ Hb). specialize (IH Hs). nia.
Qed.

Lemma dec_val_ge b s : is_digit19 b = true -> p10 (length s) <= dec_val (b :: s).
Proof. intros H. rewrite dec_val_cons. pose proof (dv_digit19 _ H). pose proof (p10_pos (length s)). nia. Qed.

Lemma dec_val_zeros k : dec_val (repeat c_0 k) = 0.
Proof. induction k; [reflexivity|]. cbn [repeat]. rewrite dec_val_cons, IHk, dv_0. lia. Qed.

Lemma all0_dec_val s : forallb is0 s = true -> dec_val s = 0.
Proof.
  induction s as [|b s IH]; [reflexivity|]. cbn [forallb]. rewrite andb_true_iff. intros [Hb Hs].
  unfold is0 in Hb. apply is_true in Hb. subst. rewrite dec_val_cons, dv_0, IH; auto.
Qed.

Lemma dec_val_0_all0 s : digits s -> dec_val s = 0 -> forallb is0 s = true.
Proof.
  induction s as [|b s IH]; [reflexivity|]. intros H E. apply digits_cons in H as [Hb Hs].
  rewrite dec_val_cons in E. cbn [forallb]. pose proof (p10_pos (length s)).
  destruct (is0 b) eqn:E0.
  - cbn [andb]. apply IH; auto. nia.
  - pose proof (dv_nonzero _ Hb E0). nia.
Qed.

Lemma all0_repeat s : forallb is0 s = true -> s = repeat c_0 (length s).
Proof.
  induction s as [|b s IH]; [reflexivity|]. cbn [forallb]. rewrite andb_true_iff. intros [Hb Hs].
  unfold is0 in Hb. apply is_true in Hb. subst. cbn [length repeat]. f_equal. auto.
Qed.

Lemma dec_val_snoc_mod t l : dec_val (t ++ [l]) mod 10 = dv l mod 10.
Proof. rewrite dec_val_app, dec_val_cons, dec_val_nil. cbn [length p10]. lia. Qed.

(* ---------- bytes.TrimRight(frac, "0") ---------- *)
Lemma trim_spec s : digits s ->
  exists k, s = trim_right_zeros s ++ repeat c_0 k /\
            digits (trim_right_zeros s) /\
            (trim_right_zeros s = [] \/
             exists t l, trim_right_zeros s = t ++ [l] /\ is_digit l = true /\ is0 l = false).
Proof.
  induction s as [|b s IH]; intros H.
  - exists 0%nat. cbn. repeat split; auto.
  - apply digits_cons in H as [Hb Hs]. destruct (IH Hs) as (k & Es & Hd & Hl). clear IH.
    cbn [trim_right_zeros]. destruct (trim_right_zeros s) as [|x t'] eqn:Et.
    + fold (is0 b). destruct (is0 b) eqn:E0.
      * exists (S k). unfold is0 in E0. apply is_true in E0. subst b. cbn [app repeat] in *.
        rewrite <- Es. repeat split; auto.
      * exists k. cbn [app] in *. rewrite <- Es. repeat split; auto.
        { apply digits_cons. split; auto. }
        right. exists [], b. auto.
    + exists k. cbn [app] in *. rewrite <- Es. repeat split; auto.
      { apply digits_cons. auto. }
      right. destruct Hl as [Hl | (t & l & Etl & Hl1 & Hl2)]; [discriminate|].
      exists (b :: t), l. cbn [app]. rewrite Etl. auto.
Qed.

(* ---------- the shape of a number literal: what the specification and the code extract ---------- *)
Definition exp_head (t : list byte) : Prop :=
  match t with [] => True | b :: _ => b = c_e \/ b = c_E end.

Lemma exp_head_not_digit t : exp_head t -> not_digit_head t.
Proof. destruct t as [|b t]; cbn; auto. intros [-> | ->]; reflexivity. Qed.
Lemma rfc_exp_head e : rfc_exp e -> exp_head e.
Proof. destruct 1; cbn; auto. Qed.

Lemma digits_not_sign b : is_digit b = true -> is b c_minus = false /\ is b c_plus = false /\ is b c_dot = false.
Proof.
  intros H. repeat split.
  - destruct (is b c_minus) eqn:E; auto. apply is_true in E. subst. discriminate.
  - destruct (is b c_plus) eqn:E; auto. apply is_true in E. subst. discriminate.
  - destruct (is b c_dot) eqn:E; auto. apply is_true in E. subst. discriminate.
Qed.

Lemma rfc_int_digits i : rfc_int i -> digits i /\ exists b d, i = b :: d /\ is_digit b = true.
Proof.
  destruct 1 as [|b d Hb Hd].
  - split; [reflexivity|]. exists c_0, []. auto.
  - split. { apply digits_cons. split; auto. now apply is_digit19_digit. }
    exists b, d. split; auto. now apply is_digit19_digit.
Qed.

(* integer digits as the code keeps them: a lone 0 is dropped *)
Definition intp_of (i : list byte) : list byte :=
  match i with [b] => if is b c_0 then [] else i | _ => i end.

Lemma intp_of_spec i : rfc_int i ->
  (i = [c_0] /\ intp_of i = []) \/
  (intp_of i = i /\ exists b d, i = b :: d /\ is_digit19 b = true /\ digits d).
Proof.
  destruct 1 as [|b d Hb Hd]; [left; auto|]. right. split; [|exists b, d; auto].
  unfold intp_of. destruct d; auto. destruct (is b c_0) eqn:E; auto. apply is_true in E. subst. discriminate.
Qed.

Lemma nd_sign_int i t : rfc_int i -> nd_sign (i ++ t) = (false, i ++ t).
Proof.
  intros H. destruct (rfc_int_digits _ H) as (_ & b & d & -> & Hb). cbn [app nd_sign].
  now rewrite (proj1 (digits_not_sign _ Hb)).
Qed.

Lemma pp_int_app i t : rfc_int i -> not_digit_head t -> pp_int (i ++ t) = Some (intp_of i, t).
Proof.
  intros H Ht. destruct H as [|b d Hb Hd]; [reflexivity|]. cbn [app pp_int].
  replace (is b c_0) with false.
  2:{ symmetry. destruct (is b c_0) eqn:E; auto. apply is_true in E. subst. discriminate. }
  rewrite Hb, span_digits_app; auto. do 2 f_equal. unfold intp_of. destruct d; auto.
  destruct (is b c_0) eqn:E; auto. apply is_true in E. subst. discriminate.
Qed.

Definition frac_digits (f : list byte) : list byte := tl f.

Lemma rfc_frac_digits f : rfc_frac f -> digits (frac_digits f).
Proof. destruct 1 as [|d [_ Hd]]; [reflexivity|exact Hd]. Qed.

Lemma pp_frac_app f t : rfc_frac f -> exp_head t -> pp_frac (f ++ t) = (frac_digits f, t).
Proof.
  intros Hf Ht. destruct Hf as [|d [Hne Hd]]; cbn [app frac_digits tl].
  - destruct t as [|b1 [|b2 r]]; auto. cbn [pp_frac]. cbn [exp_head] in Ht.
    replace (is b1 c_dot) with false; auto. destruct Ht as [-> | ->]; reflexivity.
  - destruct d as [|b2 d]; [contradiction|]. apply digits_cons in Hd as [Hb Hd].
    cbn [app pp_frac]. rewrite is_refl, Hb. cbn [andb].
    rewrite span_digits_app; auto. now apply exp_head_not_digit.
Qed.

Lemma nd_frac_app f t : rfc_frac f -> exp_head t -> nd_frac (f ++ t) = (frac_digits f, t).
Proof.
  intros Hf Ht. destruct Hf as [|d [Hne Hd]]; cbn [app frac_digits tl].
  - destruct t as [|b1 r]; auto. cbn [nd_frac]. cbn [exp_head] in Ht.
    replace (is b1 c_dot) with false; auto. destruct Ht as [-> | ->]; reflexivity.
  - cbn [nd_frac]. rewrite is_refl. apply span_digits_app; auto. now apply exp_head_not_digit.
Qed.

(* exponent: sign bytes and digits *)
Lemma exp_shape e : rfc_exp e ->
  exists eneg esg ed, digits ed /\
    ((e = [] /\ esg = [] /\ ed = [] /\ eneg = false) \/
     (ed <> [] /\ ((esg = [] /\ eneg = false) \/ (esg = [c_plus] /\ eneg = false) \/ (esg = [c_minus] /\ eneg = true)))) /\
    pp_exp e = Some (esg ++ ed) /\ nd_exp e = (eneg, ed).
Proof.
  destruct 1 as [|e0 sg d He0 Hsg [Hne Hd]].
  - exists false, [], []. repeat split; auto.
  - assert (HE : (is e0 c_e || is e0 c_E) = true) by (destruct He0; subst; reflexivity).
    destruct d as [|b d]; [contradiction|]. pose proof Hd as Hd'. apply digits_cons in Hd' as [Hb Hd2].
    destruct (digits_not_sign _ Hb) as (Hm & Hp & _).
    assert (Hsp : span_digits (b :: d) = (b :: d, [])).
    { rewrite <- (app_nil_r (b :: d)) at 1. apply span_digits_app; auto. exact I. }
    destruct Hsg as [-> | [-> | ->]].
    + exists false, [], (b :: d). split; auto. split; [right; split; [discriminate|auto]|].
      cbn [app pp_exp nd_exp]. rewrite HE, Hp, Hm, Hsp. cbn [orb fst]. auto.
    + exists false, [c_plus], (b :: d). split; auto. split; [right; split; [discriminate|auto]|].
      cbn [app pp_exp nd_exp]. rewrite HE, Hsp. cbn [fst]. auto.
    + exists true, [c_minus], (b :: d). split; auto. split; [right; split; [discriminate|auto]|].
      cbn [app pp_exp nd_exp]. rewrite HE, Hsp. cbn [fst]. auto.
Qed.

Theorem number_shape raw : rfc_number raw ->
  exists neg i fd eneg esg ed,
    rfc_int i /\ digits fd /\ digits ed /\
    ((esg = [] /\ ed = [] /\ eneg = false) \/
     (ed <> [] /\ ((esg = [] /\ eneg = false) \/ (esg = [c_plus] /\ eneg = false) \/ (esg = [c_minus] /\ eneg = true)))) /\
    num_decompose raw = {| nl_neg := neg; nl_int := i; nl_frac := fd; nl_eneg := eneg; nl_exp := ed |} /\
    parse_number_parts raw =
      Some {| p_neg := neg; p_intp := intp_of i; p_frac := trim_right_zeros fd; p_exp := esg ++ ed |}.
Proof.
  destruct 1 as [m i f e Hm Hi Hf He].
  destruct (exp_shape _ He) as (eneg & esg & ed & Hed & Hcase & Hpp & Hnd).
  pose proof (rfc_exp_head _ He) as Heh.
  assert (Hfe : not_digit_head (f ++ e)).
  { destruct Hf; [now apply exp_head_not_digit|reflexivity]. }
  destruct (rfc_int_digits _ Hi) as (Hid & b0 & d0 & Ei & Hb0).
  exists (match m with [] => false | _ => true end), i, (frac_digits f), eneg, esg, ed.
  split; auto. split; [now apply rfc_frac_digits|]. split; auto.
  split. { destruct Hcase as [(_ & -> & -> & ->) | H]; auto. }
  assert (Hsd : span_digits (i ++ f ++ e) = (i, f ++ e)) by (apply span_digits_app; auto).
  split.
  - unfold num_decompose.
    destruct Hm as [-> | ->]; cbn [app].
    + rewrite (nd_sign_int _ _ Hi), Hsd, (nd_frac_app _ _ Hf Heh), Hnd. reflexivity.
    + cbn [nd_sign]. rewrite is_refl, Hsd, (nd_frac_app _ _ Hf Heh), Hnd. reflexivity.
  - unfold parse_number_parts.
    destruct Hm as [-> | ->]; cbn [app].
    + subst i. cbn [app]. rewrite (proj1 (digits_not_sign _ Hb0)).
      change (b0 :: d0 ++ f ++ e) with ((b0 :: d0) ++ f ++ e).
      rewrite (pp_int_app _ _ Hi Hfe), (pp_frac_app _ _ Hf Heh), Hpp. reflexivity.
    + rewrite is_refl, (pp_int_app _ _ Hi Hfe), (pp_frac_app _ _ Hf Heh), Hpp. reflexivity.
Qed.

(* ---------- values ---------- *)
Definition PZ (n : nat) : Z := Z.of_N (p10 n).
Definition DZ (s : list byte) : Z := Z.of_N (dec_val s).
Definition sgnz (neg : bool) (x : Z) : Z := if neg then (- x)%Z else x.
Definition expZ (eneg : bool) (ed : list byte) : Z := sgnz eneg (DZ ed).

Lemma PZ_add a b : PZ (a + b) = (PZ a * PZ b)%Z.
Proof. unfold PZ. rewrite p10_add. lia. Qed.
Lemma PZ_pos n : (0 < PZ n)%Z.
Proof. unfold PZ. pose proof (p10_pos n). lia. Qed.
Lemma PZ_0 : PZ 0 = 1%Z.
Proof. reflexivity. Qed.
Lemma pow10_PZ z : (0 <= z)%Z -> (10 ^ z)%Z = PZ (Z.to_nat z).
Proof. intros H. unfold PZ. rewrite p10_Z, Z2Nat.id; auto. Qed.
Lemma DZ_nonneg s : (0 <= DZ s)%Z.
Proof. unfold DZ. lia. Qed.
Lemma DZ_app a b : DZ (a ++ b) = (DZ a * PZ (length b) + DZ b)%Z.
Proof. unfold DZ, PZ. rewrite dec_val_app. lia. Qed.
Lemma DZ_zeros k : DZ (repeat c_0 k) = 0%Z.
Proof. unfold DZ. now rewrite dec_val_zeros. Qed.
Lemma DZ_nil : DZ [] = 0%Z.
Proof. reflexivity. Qed.

Lemma digits_repeat0 k : digits (repeat c_0 k).
Proof. induction k; [reflexivity|]. cbn [repeat]. apply digits_cons. auto. Qed.

Lemma spec_values raw neg i fd eneg ed :
  num_decompose raw = {| nl_neg := neg; nl_int := i; nl_frac := fd; nl_eneg := eneg; nl_exp := ed |} ->
  num_mant raw = sgnz neg (DZ (i ++ fd)) /\
  num_exp10 raw = (expZ eneg ed - Z.of_nat (length fd))%Z.
Proof. intros H. unfold num_mant, num_exp10. rewrite H. cbn. auto. Qed.

Definition sign_case (sg : list byte) (neg : bool) : Prop :=
  (sg = [] /\ neg = false) \/ (sg = [c_plus] /\ neg = false) \/ (sg = [c_minus] /\ neg = true).

Lemma parse_int_dec_signed bits sg neg ds : digits ds -> ds <> [] -> sign_case sg neg ->
  parse_int_dec bits (sg ++ ds) =
  if neg then (if dec_val ds <=? 2 ^ (bits - 1) then Some (- DZ ds)%Z else None)
  else (if dec_val ds <? 2 ^ (bits - 1) then Some (DZ ds) else None).
Proof.
  intros Hd Hne Hc. destruct ds as [|b d]; [contradiction|]. pose proof Hd as Hd'.
  apply digits_cons in Hd' as [Hb _]. destruct (digits_not_sign _ Hb) as (Hm & Hp & _).
  unfold digits in Hd. unfold parse_int_dec, DZ.
  destruct Hc as [[-> ->] | [[-> ->] | [-> ->]]]; cbn [app].
  - rewrite Hp, Hm, Hd. reflexivity.
  - rewrite is_refl, Hd. reflexivity.
  - replace (is c_minus c_plus) with false by reflexivity. rewrite is_refl, Hd. reflexivity.
Qed.

Lemma parse_int_dec_nodigits bits sg neg : sign_case sg neg -> parse_int_dec bits sg = None.
Proof. intros [[-> ->] | [[-> ->] | [-> ->]]]; reflexivity. Qed.

(* the exponent the code works with *)
Definition code_exp (esg ed : list byte) : option Z :=
  match esg ++ ed with [] => Some 0%Z | _ => parse_int_dec 32 (esg ++ ed) end.

Definition exp_case (eneg : bool) (esg ed : list byte) : Prop :=
  (esg = [] /\ ed = [] /\ eneg = false) \/ (ed <> [] /\ sign_case esg eneg).

Lemma code_exp_spec eneg esg ed : digits ed -> exp_case eneg esg ed ->
  code_exp esg ed =
  if ((-2147483648 <=? expZ eneg ed) && (expZ eneg ed <=? 2147483647))%Z then Some (expZ eneg ed) else None.
Proof.
  intros Hd [(-> & -> & ->) | (Hne & Hc)]; [reflexivity|].
  unfold code_exp. destruct (esg ++ ed) eqn:E.
  { destruct ed; [contradiction|]. destruct esg; discriminate. }
  rewrite <- E, (parse_int_dec_signed 32 esg eneg ed Hd Hne Hc).
  unfold expZ, sgnz, DZ. change (2 ^ (32 - 1)) with 2147483648.
  destruct eneg.
  - destruct (dec_val ed <=? 2147483648) eqn:C.
    + replace ((-2147483648 <=? - Z.of_N (dec_val ed))%Z && (- Z.of_N (dec_val ed) <=? 2147483647)%Z) with true by lia. auto.
    + replace ((-2147483648 <=? - Z.of_N (dec_val ed))%Z && (- Z.of_N (dec_val ed) <=? 2147483647)%Z) with false by lia. auto.
  - destruct (dec_val ed <? 2147483648) eqn:C.
    + replace ((-2147483648 <=? Z.of_N (dec_val ed))%Z && (Z.of_N (dec_val ed) <=? 2147483647)%Z) with true by lia. auto.
    + replace ((-2147483648 <=? Z.of_N (dec_val ed))%Z && (Z.of_N (dec_val ed) <=? 2147483647)%Z) with false by lia. auto.
Qed.

Definition sign_bytes (neg : bool) : list byte := if neg then [c_minus] else [].

(* what norm_body returns, in terms of values *)
Lemma norm_body_sound neg intp fr eneg esg ed s :
  digits intp -> digits fr -> digits ed -> exp_case eneg esg ed ->
  norm_body {| p_neg := neg; p_intp := intp; p_frac := fr; p_exp := esg ++ ed |} = Some s ->
  let X := expZ eneg ed in
  exists ds, s = sign_bytes neg ++ ds /\ digits ds /\
    ((0 <= X /\ Z.of_nat (length fr) <= X /\ DZ ds = DZ (intp ++ fr) * PZ (Z.to_nat (X - Z.of_nat (length fr)))) \/
     (X < 0 /\ fr = [] /\ DZ intp = DZ ds * PZ (Z.to_nat (- X))))%Z.
Proof.
  intros Hi Hf He Hc. unfold norm_body. cbn [p_neg p_intp p_frac p_exp].
  fold (code_exp esg ed). rewrite (code_exp_spec eneg esg ed He Hc).
  set (X := expZ eneg ed). cbn zeta.
  destruct ((-2147483648 <=? X)%Z && (X <=? 2147483647)%Z); [|discriminate].
  fold (sign_bytes neg).
  destruct (0 <=? X)%Z eqn:C0.
  - destruct (X <? Z.of_nat (length fr))%Z eqn:C1; [discriminate|].
    destruct (max_digits <? Z.of_nat (length intp) + X)%Z eqn:C2; [discriminate|].
    intros [= <-]. eexists. split; [reflexivity|]. split.
    + apply digits_app. split; auto. apply digits_app. split; auto. apply digits_repeat0.
    + left. split; [lia|]. split; [lia|].
      rewrite (app_assoc intp fr), DZ_app, DZ_zeros, repeat_length. lia.
  - destruct (0 <? Z.of_nat (length fr))%Z eqn:C1; [discriminate|].
    destruct (Z.of_nat (length intp) + X <? 0)%Z eqn:C2; [discriminate|].
    destruct (forallb _ _) eqn:C3; [|discriminate].
    intros [= <-]. eexists. split; [reflexivity|]. split.
    + rewrite <- (firstn_skipn (Z.to_nat (Z.of_nat (length intp) + X)) intp) in Hi.
      apply digits_app in Hi. tauto.
    + right. split; [lia|]. split. { destruct fr; auto. cbn [length] in C1. lia. }
      rewrite <- (firstn_skipn (Z.to_nat (Z.of_nat (length intp) + X)) intp) at 1.
      assert (Hz : DZ (skipn (Z.to_nat (Z.of_nat (length intp) + X)) intp) = 0%Z)
        by (unfold DZ; rewrite (all0_dec_val _ C3); reflexivity).
      rewrite DZ_app, Hz, skipn_length. replace (length intp - Z.to_nat (Z.of_nat (length intp) + X))%nat with (Z.to_nat (- X)) by lia. lia.
Qed.

(* pure arithmetic: from the code's relation to the specification's *)
Lemma lit_arith neg (M V : Z) (k fl : nat) (X : Z) :
  ((0 <= X /\ Z.of_nat fl <= X /\ V = M * PZ (Z.to_nat (X - Z.of_nat fl))) \/
   (X < 0 /\ fl = 0%nat /\ M = V * PZ (Z.to_nat (- X))))%Z ->
  let m := sgnz neg (M * PZ k)%Z in
  let e10 := (X - Z.of_nat (fl + k))%Z in
  let v := sgnz neg V in
  if (0 <=? e10)%Z then v = (m * 10 ^ e10)%Z else m = (v * 10 ^ (- e10))%Z.
Proof.
  intros H m e10 v. subst m v. destruct (0 <=? e10)%Z eqn:C.
  - rewrite pow10_PZ by lia. destruct H as [(H0 & H1 & ->) | (H0 & -> & ->)]; [|lia].
    replace (Z.to_nat (X - Z.of_nat fl)) with (k + Z.to_nat e10)%nat by lia.
    rewrite PZ_add. destruct neg; cbn [sgnz]; ring.
  - rewrite pow10_PZ by lia. destruct H as [(H0 & H1 & ->) | (H0 & -> & ->)].
    + replace k with (Z.to_nat (X - Z.of_nat fl) + Z.to_nat (- e10))%nat at 1 by lia.
      rewrite PZ_add. destruct neg; cbn [sgnz]; ring.
    + replace (Z.to_nat (- e10)) with (Z.to_nat (- X) + k)%nat by lia.
      rewrite PZ_add. destruct neg; cbn [sgnz]; ring.
Qed.

Lemma DZ_intp_of i : rfc_int i -> DZ (intp_of i) = DZ i.
Proof. intros H. destruct (intp_of_spec i H) as [[-> ->] | [-> _]]; reflexivity. Qed.

Lemma mant_decomp i fd : rfc_int i -> digits fd ->
  exists k, fd = trim_right_zeros fd ++ repeat c_0 k /\
    DZ (i ++ fd) = (DZ (intp_of i ++ trim_right_zeros fd) * PZ k)%Z /\
    length fd = (length (trim_right_zeros fd) + k)%nat.
Proof.
  intros Hi Hd. destruct (trim_spec fd Hd) as (k & Es & _ & _). exists k.
  assert (HL : length fd = (length (trim_right_zeros fd) + k)%nat).
  { rewrite Es at 1. now rewrite app_length, repeat_length. }
  split; auto. split; auto.
  rewrite !DZ_app, (DZ_intp_of i Hi), HL, PZ_add.
  assert (Hfd : DZ fd = (DZ (trim_right_zeros fd) * PZ k)%Z).
  { rewrite Es at 1. rewrite DZ_app, DZ_zeros, repeat_length. lia. }
  rewrite Hfd. ring.
Qed.

Lemma lit_is_int_from raw neg i fd eneg ed V :
  rfc_int i -> digits fd ->
  num_decompose raw = {| nl_neg := neg; nl_int := i; nl_frac := fd; nl_eneg := eneg; nl_exp := ed |} ->
  let X := expZ eneg ed in
  let fr := trim_right_zeros fd in
  ((0 <= X /\ Z.of_nat (length fr) <= X /\ V = DZ (intp_of i ++ fr) * PZ (Z.to_nat (X - Z.of_nat (length fr)))) \/
   (X < 0 /\ length fr = 0%nat /\ DZ (intp_of i ++ fr) = V * PZ (Z.to_nat (- X))))%Z ->
  lit_is_int raw (sgnz neg V).
Proof.
  intros Hi Hd Hnd X fr H. unfold lit_is_int.
  destruct (spec_values _ _ _ _ _ _ Hnd) as [-> ->].
  destruct (mant_decomp i fd Hi Hd) as (k & _ & -> & ->). fold fr. fold X.
  exact (lit_arith neg (DZ (intp_of i ++ fr)) V k (length fr) X H).
Qed.

Theorem get_int_str_value raw s : rfc_number raw -> get_int_str raw = Some s ->
  exists neg ds, s = sign_bytes neg ++ ds /\ digits ds /\ lit_is_int raw (sgnz neg (DZ ds)).
Proof.
  intros Hn. destruct (number_shape raw Hn) as (neg & i & fd & eneg & esg & ed & Hi & Hfd & Hed & Hc & Hnd & Hpp).
  assert (Hec : exp_case eneg esg ed).
  { destruct Hc as [H | [H1 H2]]; [left; tauto | right; split; auto]. }
  unfold get_int_str. rewrite Hpp. unfold normalize_to_int_string. cbn [p_intp p_frac].
  destruct (trim_spec fd Hfd) as (k0 & _ & Hfr & _).
  assert (Hip : digits (intp_of i)).
  { destruct (intp_of_spec i Hi) as [[_ ->] | [-> _]]; [reflexivity|]. apply (rfc_int_digits i Hi). }
  assert (Hbody : norm_body {| p_neg := neg; p_intp := intp_of i; p_frac := trim_right_zeros fd; p_exp := esg ++ ed |} = Some s ->
            exists neg0 ds, s = sign_bytes neg0 ++ ds /\ digits ds /\ lit_is_int raw (sgnz neg0 (DZ ds))).
  { intros Hb. destruct (norm_body_sound _ _ _ _ _ _ _ Hip Hfr Hed Hec Hb) as (ds & -> & Hds & Hrel).
    exists neg, ds. split; auto. split; auto.
    apply (lit_is_int_from raw neg i fd eneg ed (DZ ds) Hi Hfd Hnd).
    destruct Hrel as [H | (H0 & H1 & H2)]; [left; exact H|].
    right. split; auto. rewrite H1. cbn [length]. split; auto. now rewrite app_nil_r. }
  destruct (intp_of i) as [|x xs] eqn:Ei; [destruct (trim_right_zeros fd) as [|y ys] eqn:Ef|]; auto.
  intros [= <-]. exists false, [c_0]. split; auto. split; [reflexivity|].
  replace (sgnz false (DZ [c_0])) with (sgnz neg 0%Z) by (destruct neg; reflexivity).
  apply (lit_is_int_from raw neg i fd eneg ed 0%Z Hi Hfd Hnd).
  rewrite Ei, Ef. cbn [app length]. rewrite DZ_nil.
  destruct (Z_le_gt_dec 0 (expZ eneg ed)); [left | right]; repeat split; lia.
Qed.

Lemma pow2_Z bits : 1 <= bits -> Z.of_N (2 ^ (bits - 1)) = (2 ^ (Z.of_N bits - 1))%Z.
Proof. intros H. rewrite N2Z.inj_pow, N2Z.inj_sub by lia. reflexivity. Qed.

Theorem token_int_sound bits raw v : 1 <= bits -> rfc_number raw ->
  token_int bits raw = Some v -> lit_is_int raw v /\ int_in_range bits true v.
Proof.
  intros Hb Hn. unfold token_int. destruct (get_int_str raw) as [s|] eqn:E; [|discriminate].
  destruct (get_int_str_value raw s Hn E) as (neg & ds & -> & Hds & Hlit).
  assert (Hsc : sign_case (sign_bytes neg) neg) by (destruct neg; [right; right|left]; auto).
  destruct ds as [|d0 ds'] eqn:Eds.
  { rewrite app_nil_r, (parse_int_dec_nodigits bits _ neg Hsc). discriminate. }
  rewrite <- Eds in *. assert (Hne : ds <> []) by (subst ds; discriminate).
  rewrite (parse_int_dec_signed bits _ neg ds Hds Hne Hsc).
  unfold int_in_range. rewrite <- (pow2_Z bits Hb). pose proof (DZ_nonneg ds). unfold DZ in *.
  destruct neg; cbn [sgnz] in *.
  - destruct (dec_val ds <=? 2 ^ (bits - 1)) eqn:C; [|discriminate]. intros [= <-]. split; auto. lia.
  - destruct (dec_val ds <? 2 ^ (bits - 1)) eqn:C; [|discriminate]. intros [= <-]. split; auto. lia.
Qed.

Lemma parse_uint_dec_minus bits ds : parse_uint_dec bits (c_minus :: ds) = None.
Proof. reflexivity. Qed.

Theorem token_uint_sound bits raw v : rfc_number raw ->
  token_uint bits raw = Some v -> lit_is_int raw (Z.of_N v) /\ int_in_range bits false (Z.of_N v).
Proof.
  intros Hn. unfold token_uint. destruct (get_int_str raw) as [s|] eqn:E; [|discriminate].
  destruct (get_int_str_value raw s Hn E) as (neg & ds & -> & Hds & Hlit).
  destruct neg; cbn [sign_bytes app]; [rewrite parse_uint_dec_minus; discriminate|].
  unfold parse_uint_dec. destruct ds as [|d0 ds'] eqn:Eds; [discriminate|]. rewrite <- Eds in *.
  unfold digits in Hds. rewrite Hds. destruct (dec_val ds <? 2 ^ bits) eqn:C; [|discriminate].
  intros [= <-]. cbn [sgnz] in Hlit. split; auto. unfold int_in_range.
  pose proof (N2Z.inj_pow 2 bits) as HP. change (Z.of_N 2) with 2%Z in HP. rewrite <- HP. lia.
Qed.

(* ---------- completeness outside the F6 class ---------- *)
Lemma sgnz_invol neg x : sgnz neg (sgnz neg x) = x.
Proof. destruct neg; cbn [sgnz]; lia. Qed.
Lemma sgnz_mul neg x y : (sgnz neg x * y)%Z = sgnz neg (x * y)%Z.
Proof. destruct neg; cbn [sgnz]; lia. Qed.

(* the converse of lit_arith *)
Lemma lit_w neg (M v : Z) (k fl : nat) (X : Z) :
  (let m := sgnz neg (M * PZ k)%Z in
   let e10 := (X - Z.of_nat (fl + k))%Z in
   if (0 <=? e10)%Z then v = (m * 10 ^ e10)%Z else m = (v * 10 ^ (- e10))%Z) ->
  let w := sgnz neg v in
  ((Z.of_nat fl <= X -> w = M * PZ (Z.to_nat (X - Z.of_nat fl))) /\
   (X < Z.of_nat fl -> M = w * PZ (Z.to_nat (Z.of_nat fl - X))))%Z.
Proof.
  cbn zeta. destruct (0 <=? X - Z.of_nat (fl + k))%Z eqn:C; rewrite pow10_PZ by lia; intros H.
  - split; [intros _|lia]. rewrite H, sgnz_mul, sgnz_invol.
    replace (Z.to_nat (X - Z.of_nat fl)) with (k + Z.to_nat (X - Z.of_nat (fl + k)))%nat by lia.
    rewrite PZ_add. ring.
  - apply (f_equal (sgnz neg)) in H. rewrite sgnz_invol, <- sgnz_mul in H.
    set (w := sgnz neg v) in *.
    split; intros HX.
    + replace k with (Z.to_nat (X - Z.of_nat fl) + Z.to_nat (- (X - Z.of_nat (fl + k))))%nat in H at 1 by lia.
      rewrite PZ_add, Z.mul_assoc in H.
      apply Z.mul_reg_r in H; [auto|]. pose proof (PZ_pos (Z.to_nat (- (X - Z.of_nat (fl + k))))). lia.
    + replace (Z.to_nat (- (X - Z.of_nat (fl + k)))) with (Z.to_nat (Z.of_nat fl - X) + k)%nat in H by lia.
      rewrite PZ_add, Z.mul_assoc in H.
      apply Z.mul_reg_r in H; [auto|]. pose proof (PZ_pos k). lia.
Qed.

Lemma DZ_snoc_mod t l : is_digit l = true -> (DZ (t ++ [l]) mod 10 = Z.of_N (dv l))%Z.
Proof.
  intros Hl. unfold DZ. pose proof (dec_val_snoc_mod t l) as H. pose proof (dv_digit _ Hl). lia.
Qed.

Lemma PZ_mod10 n : (1 <= n)%nat -> (PZ n mod 10 = 0)%Z.
Proof. destruct n; [lia|]. intros _. unfold PZ. cbn [p10]. lia. Qed.

Lemma PZ_mono a b : (a <= b)%nat -> (PZ a <= PZ b)%Z.
Proof. intros H. unfold PZ. pose proof (p10_mono a b H). lia. Qed.

Lemma DZ_lt s : digits s -> (DZ s < PZ (length s))%Z.
Proof. intros H. unfold DZ, PZ. pose proof (dec_val_lt s H). lia. Qed.

(* mantissa digits as kept by the code are non-zero unless both parts are empty *)
Lemma M_pos i fd : rfc_int i -> digits fd ->
  (intp_of i <> [] \/ trim_right_zeros fd <> []) -> (0 < DZ (intp_of i ++ trim_right_zeros fd))%Z.
Proof.
  intros Hi Hfd Hne. destruct (trim_spec fd Hfd) as (k & _ & Hfr & Hl).
  destruct (intp_of_spec i Hi) as [[_ E] | [E (b & d & Ei & Hb & Hd)]].
  - rewrite E in *. cbn [app]. destruct Hne as [Hne | Hne]; [contradiction|].
    destruct Hl as [Hl | (t & l & Etl & Hl1 & Hl2)]; [contradiction|].
    rewrite Etl. pose proof (DZ_snoc_mod t l Hl1). pose proof (dv_nonzero _ Hl1 Hl2).
    pose proof (DZ_nonneg (t ++ [l])). lia.
  - rewrite E, Ei. cbn [app]. unfold DZ. pose proof (dec_val_ge b (d ++ trim_right_zeros fd) Hb).
    pose proof (p10_pos (length (d ++ trim_right_zeros fd))). lia.
Qed.

Lemma f6_x eneg esg ed : digits ed -> exp_case eneg esg ed ->
  match esg ++ ed with
  | b :: r => if is b c_plus then Z.of_N (dec_val r)
              else if is b c_minus then (- Z.of_N (dec_val r))%Z
              else Z.of_N (dec_val (b :: r))
  | [] => 0%Z end = expZ eneg ed.
Proof.
  intros Hd [(-> & -> & ->) | (Hne & [[-> ->] | [[-> ->] | [-> ->]]])]; cbn [app]; try reflexivity.
  destruct ed as [|b d]; [contradiction|]. apply digits_cons in Hd as [Hb _].
  destruct (digits_not_sign _ Hb) as (Hm & Hp & _). rewrite Hp, Hm. reflexivity.
Qed.

Definition is_nil {A} (l : list A) : bool := match l with [] => true | _ => false end.

(* a non-zero last fraction digit cannot be shifted out *)
Lemma frac_not_int (intp fr : list byte) (w : Z) (n : nat) :
  digits fr -> fr <> [] ->
  (exists t l, fr = t ++ [l] /\ is_digit l = true /\ is0 l = false) ->
  (1 <= n)%nat -> DZ (intp ++ fr) = (w * PZ n)%Z -> False.
Proof.
  intros Hfr Hne (t & l & -> & Hl1 & Hl2) Hn H.
  rewrite app_assoc in H. pose proof (DZ_snoc_mod (intp ++ t) l Hl1) as Hm.
  pose proof (dv_nonzero _ Hl1 Hl2). pose proof (dv_digit _ Hl1).
  rewrite H in Hm. pose proof (PZ_mod10 n Hn).
  rewrite Z.mul_mod, H2, Z.mul_0_r in Hm by lia. cbn in Hm. lia.
Qed.

Lemma norm_body_complete neg i fd eneg esg ed v :
  rfc_int i -> digits fd -> digits ed -> exp_case eneg esg ed ->
  let intp := intp_of i in
  let fr := trim_right_zeros fd in
  let X := expZ eneg ed in
  let M := DZ (intp ++ fr) in
  let w := sgnz neg v in
  (intp <> [] \/ fr <> []) ->
  ((max_digits <? X)%Z && is_nil intp || (2147483647 <? X)%Z || (X <? -2147483648)%Z) = false ->
  (Z.of_nat (length fr) <= X -> w = M * PZ (Z.to_nat (X - Z.of_nat (length fr))))%Z ->
  (X < Z.of_nat (length fr) -> M = w * PZ (Z.to_nat (Z.of_nat (length fr) - X)))%Z ->
  (Z.abs v < PZ 20)%Z ->
  exists ds, norm_body {| p_neg := neg; p_intp := intp; p_frac := fr; p_exp := esg ++ ed |}
               = Some (sign_bytes neg ++ ds) /\
             digits ds /\ ds <> [] /\ w = DZ ds /\ (0 < DZ ds)%Z.
Proof.
  intros Hi Hfd Hed Hec intp fr X M w Hne Hf6 Hw1 Hw2 Hv.
  destruct (trim_spec fd Hfd) as (k0 & _ & Hfr & Hlast). fold fr in Hfr, Hlast.
  assert (Hip : digits intp).
  { subst intp. destruct (intp_of_spec i Hi) as [[_ ->] | [-> _]]; [reflexivity|]. apply (rfc_int_digits i Hi). }
  pose proof (M_pos i fd Hi Hfd Hne) as HM. fold intp fr M in HM.
  unfold norm_body. cbn [p_neg p_intp p_frac p_exp].
  fold (code_exp esg ed). rewrite (code_exp_spec eneg esg ed Hed Hec). fold X. cbn zeta.
  replace ((-2147483648 <=? X)%Z && (X <=? 2147483647)%Z) with true by lia.
  fold (sign_bytes neg). unfold max_digits in *.
  destruct (0 <=? X)%Z eqn:C0.
  - destruct (X <? Z.of_nat (length fr))%Z eqn:C1.
    { exfalso. assert (Hfne : fr <> []) by (destruct fr; [cbn [length] in C1; lia|discriminate]).
      destruct Hlast as [Hl|Hl]; [contradiction|].
      apply (frac_not_int intp fr w (Z.to_nat (Z.of_nat (length fr) - X)) Hfr Hfne Hl); [lia|].
      apply Hw2. lia. }
    assert (Hw : w = (M * PZ (Z.to_nat (X - Z.of_nat (length fr))))%Z) by (apply Hw1; lia).
    destruct (20 <? Z.of_nat (length intp) + X)%Z eqn:C2.
    { exfalso. destruct (intp_of_spec i Hi) as [[_ E] | [E (b & d & Ei & Hb & Hd)]]; fold intp in E.
      - rewrite E in *. cbn [is_nil length] in *. lia.
      - assert (HMge : (PZ (length d + length fr) <= M)%Z).
        { subst M. rewrite E, Ei. cbn [app]. unfold DZ, PZ.
          pose proof (dec_val_ge b (d ++ fr) Hb) as Hge. rewrite app_length in Hge. lia. }
        assert (Hlen : length intp = S (length d)) by (rewrite E, Ei; reflexivity).
        pose proof (PZ_add (length d + length fr) (Z.to_nat (X - Z.of_nat (length fr)))) as Hadd.
        pose proof (PZ_mono 20 (length d + length fr + Z.to_nat (X - Z.of_nat (length fr)))) as Hmono.
        pose proof (PZ_pos (Z.to_nat (X - Z.of_nat (length fr)))).
        assert (Hwabs : Z.abs w = Z.abs v) by (subst w; destruct neg; cbn [sgnz]; lia).
        assert (PZ 20 <= w)%Z by nia. lia. }
    intros. eexists. split; [reflexivity|]. split; [|split; [|split]].
    + apply digits_app. split; auto. apply digits_app. split; auto. apply digits_repeat0.
    + destruct Hne as [H|H]; [destruct intp|destruct intp; [destruct fr|]]; try contradiction; discriminate.
    + rewrite (app_assoc intp fr), DZ_app, DZ_zeros, repeat_length. fold M. lia.
    + rewrite (app_assoc intp fr), DZ_app, DZ_zeros, repeat_length. fold M.
      pose proof (PZ_pos (Z.to_nat (X - Z.of_nat (length fr)))). nia.
  - destruct (0 <? Z.of_nat (length fr))%Z eqn:C1.
    { exfalso. assert (Hfne : fr <> []) by (destruct fr; [cbn [length] in C1; lia|discriminate]).
      destruct Hlast as [Hl|Hl]; [contradiction|].
      apply (frac_not_int intp fr w (Z.to_nat (Z.of_nat (length fr) - X)) Hfr Hfne Hl); [lia|].
      apply Hw2. lia. }
    assert (Hf0 : fr = []) by (destruct fr; [auto|cbn [length] in C1; lia]).
    assert (HMi : M = DZ intp) by (subst M; rewrite Hf0, app_nil_r; reflexivity).
    assert (Hw : DZ intp = (w * PZ (Z.to_nat (- X)))%Z).
    { rewrite <- HMi, Hw2 by (rewrite Hf0; cbn [length]; lia). rewrite Hf0. cbn [length]. repeat f_equal; try lia. }
    pose proof (PZ_pos (Z.to_nat (- X))) as HP.
    destruct (Z.of_nat (length intp) + X <? 0)%Z eqn:C2.
    { exfalso. pose proof (DZ_lt intp Hip). pose proof (PZ_mono (length intp) (Z.to_nat (- X))).
      assert (1 <= w)%Z by nia. nia. }
    set (idx := Z.to_nat (Z.of_nat (length intp) + X)).
    pose proof (firstn_skipn idx intp) as Hsplit.
    assert (Hda : digits (firstn idx intp) /\ digits (skipn idx intp)).
    { apply digits_app. now rewrite Hsplit. }
    assert (Hlz : length (skipn idx intp) = Z.to_nat (- X)) by (rewrite skipn_length; subst idx; lia).
    assert (Hval : DZ intp = (DZ (firstn idx intp) * PZ (Z.to_nat (- X)) + DZ (skipn idx intp))%Z).
    { rewrite <- Hsplit at 1. rewrite DZ_app, Hlz. reflexivity. }
    pose proof (DZ_lt _ (proj2 Hda)) as Hzlt. rewrite Hlz in Hzlt.
    pose proof (DZ_nonneg (skipn idx intp)) as Hz0.
    assert (Hd : (DZ (skipn idx intp) = (w - DZ (firstn idx intp)) * PZ (Z.to_nat (- X)))%Z)
      by (rewrite Z.mul_sub_distr_r; lia).
    assert (Hd0 : (w - DZ (firstn idx intp) = 0)%Z).
    { destruct (Z_lt_le_dec (w - DZ (firstn idx intp)) 1) as [H1|H1]; [|nia].
      destruct (Z_lt_le_dec (w - DZ (firstn idx intp)) 0) as [H2|H2]; [nia|lia]. }
    assert (Hz : DZ (skipn idx intp) = 0%Z) by (rewrite Hd, Hd0; lia).
    assert (Hall : forallb is0 (skipn idx intp) = true).
    { apply dec_val_0_all0; [tauto|]. unfold DZ in Hz. lia. }
    unfold is0 in Hall. rewrite Hall.
    assert (Hwa : w = DZ (firstn idx intp)) by lia.
    eexists. split; [reflexivity|]. split; [tauto|]. rewrite <- Hwa.
    assert (0 < w)%Z by nia.
    split; [|split; auto]. intros E. rewrite E in Hwa. cbn in Hwa. lia.
Qed.

Theorem get_int_str_complete raw v : rfc_number raw -> f6_class raw = false ->
  lit_is_int raw v -> (Z.abs v < PZ 20)%Z ->
  exists neg ds, get_int_str raw = Some (sign_bytes neg ++ ds) /\ digits ds /\ ds <> [] /\
                 v = sgnz neg (DZ ds) /\ (neg = true -> (0 < DZ ds)%Z).
Proof.
  intros Hn Hf6 Hlit Hv.
  destruct (number_shape raw Hn) as (neg & i & fd & eneg & esg & ed & Hi & Hfd & Hed & Hc & Hnd & Hpp).
  assert (Hec : exp_case eneg esg ed).
  { destruct Hc as [H | [H1 H2]]; [left; tauto | right; split; auto]. }
  unfold f6_class in Hf6. rewrite Hpp in Hf6. cbn [p_intp p_frac p_exp] in Hf6.
  rewrite (f6_x eneg esg ed Hed Hec) in Hf6.
  unfold lit_is_int in Hlit. destruct (spec_values _ _ _ _ _ _ Hnd) as [Em Ee]. rewrite Em, Ee in Hlit.
  destruct (mant_decomp i fd Hi Hfd) as (k & _ & EM & EL). rewrite EM, EL in Hlit.
  apply lit_w in Hlit. cbn zeta in Hlit. destruct Hlit as [Hw1 Hw2].
  unfold get_int_str. rewrite Hpp. unfold normalize_to_int_string. cbn [p_intp p_frac].
  assert (Hbody : (intp_of i <> [] \/ trim_right_zeros fd <> []) ->
    ((max_digits <? expZ eneg ed)%Z && is_nil (intp_of i) || (2147483647 <? expZ eneg ed)%Z || (expZ eneg ed <? -2147483648)%Z) = false ->
    exists neg0 ds,
      norm_body {| p_neg := neg; p_intp := intp_of i; p_frac := trim_right_zeros fd; p_exp := esg ++ ed |}
        = Some (sign_bytes neg0 ++ ds) /\ digits ds /\ ds <> [] /\ v = sgnz neg0 (DZ ds) /\ (neg0 = true -> (0 < DZ ds)%Z)).
  { intros Hne Hf.
    destruct (norm_body_complete neg i fd eneg esg ed v Hi Hfd Hed Hec Hne Hf Hw1 Hw2 Hv) as (ds & E & Hds & Hdn & Hw & Hp).
    exists neg, ds. repeat split; auto. rewrite <- Hw. now rewrite sgnz_invol. }
  destruct (intp_of i) as [|x xs] eqn:Ei; [destruct (trim_right_zeros fd) as [|y ys] eqn:Ef|].
  - exists false, [c_0]. split; auto. split; [reflexivity|]. split; [discriminate|]. split; [|discriminate].
    cbn [app length] in Hw1, Hw2. rewrite DZ_nil in Hw1, Hw2. cbn [sgnz].
    change (DZ [c_0]) with 0%Z.
    destruct (Z_le_gt_dec 0 (expZ eneg ed)) as [H|H].
    + specialize (Hw1 H). destruct neg; cbn [sgnz] in Hw1; lia.
    + assert (H' : (expZ eneg ed < 0)%Z) by lia. specialize (Hw2 H').
      match type of Hw2 with _ = (_ * PZ ?n)%Z => pose proof (PZ_pos n) end.
      destruct neg; cbn [sgnz] in Hw2; nia.
  - apply Hbody; [right; discriminate|]. exact Hf6.
  - apply Hbody; [left; discriminate|]. exact Hf6.
Qed.

Lemma PZ_20 : PZ 20 = 100000000000000000000%Z.
Proof. reflexivity. Qed.

Lemma pow2_le_63 bits : 1 <= bits <= 64 -> (2 ^ (Z.of_N bits - 1) <= 9223372036854775808)%Z.
Proof. intros H. change 9223372036854775808%Z with (2 ^ 63)%Z. apply Z.pow_le_mono_r; lia. Qed.

Theorem token_int_complete bits raw v : 1 <= bits <= 64 -> rfc_number raw -> f6_class raw = false ->
  lit_is_int raw v -> int_in_range bits true v -> token_int bits raw = Some v.
Proof.
  intros Hb Hn Hf6 Hlit Hr. unfold int_in_range in Hr. pose proof (pow2_le_63 bits Hb) as H63.
  assert (Hv : (Z.abs v < PZ 20)%Z) by (rewrite PZ_20; lia).
  destruct (get_int_str_complete raw v Hn Hf6 Hlit Hv) as (neg & ds & E & Hds & Hne & -> & Hpos).
  unfold token_int. rewrite E.
  assert (Hsc : sign_case (sign_bytes neg) neg) by (destruct neg; [right; right|left]; auto).
  rewrite (parse_int_dec_signed bits _ neg ds Hds Hne Hsc).
  rewrite <- (pow2_Z bits) in Hr by lia. unfold DZ in *.
  destruct neg; cbn [sgnz] in *.
  - replace (dec_val ds <=? 2 ^ (bits - 1)) with true by lia. reflexivity.
  - replace (dec_val ds <? 2 ^ (bits - 1)) with true by lia. reflexivity.
Qed.

Theorem token_uint_complete bits raw v : bits <= 64 -> rfc_number raw -> f6_class raw = false ->
  lit_is_int raw v -> int_in_range bits false v -> token_uint bits raw = Some (Z.to_N v).
Proof.
  intros Hb Hn Hf6 Hlit Hr. unfold int_in_range in Hr.
  assert (H64 : (2 ^ Z.of_N bits <= 18446744073709551616)%Z).
  { change 18446744073709551616%Z with (2 ^ 64)%Z. apply Z.pow_le_mono_r; lia. }
  assert (Hv : (Z.abs v < PZ 20)%Z) by (rewrite PZ_20; lia).
  destruct (get_int_str_complete raw v Hn Hf6 Hlit Hv) as (neg & ds & E & Hds & Hne & -> & Hpos).
  unfold token_uint. rewrite E.
  destruct neg; cbn [sgnz] in *. { specialize (Hpos eq_refl). lia. }
  cbn [sign_bytes app]. unfold parse_uint_dec. destruct ds as [|d0 ds'] eqn:Eds; [contradiction|].
  rewrite <- Eds in *. unfold digits in Hds. rewrite Hds.
  pose proof (N2Z.inj_pow 2 bits) as HP. change (Z.of_N 2) with 2%Z in HP. unfold DZ in *.
  replace (dec_val ds <? 2 ^ bits) with true by lia. f_equal. lia.
Qed.

(* inside the F6 class every literal is rejected *)
Lemma norm_body_f6 neg intp fr eneg esg ed :
  digits ed -> exp_case eneg esg ed ->
  ((max_digits <? expZ eneg ed)%Z && is_nil intp || (2147483647 <? expZ eneg ed)%Z || (expZ eneg ed <? -2147483648)%Z) = true ->
  norm_body {| p_neg := neg; p_intp := intp; p_frac := fr; p_exp := esg ++ ed |} = None.
Proof.
  intros Hed Hec Hf. unfold norm_body. cbn [p_neg p_intp p_frac p_exp].
  fold (code_exp esg ed). rewrite (code_exp_spec eneg esg ed Hed Hec). set (X := expZ eneg ed) in *.
  destruct ((-2147483648 <=? X)%Z && (X <=? 2147483647)%Z) eqn:C; auto. cbn zeta.
  assert (HX : (max_digits < X)%Z /\ intp = []).
  { unfold max_digits in *. destruct intp; cbn [is_nil] in Hf; split; auto; lia. }
  destruct HX as [HX ->]. unfold max_digits in *. cbn [length].
  replace (0 <=? X)%Z with true by lia.
  destruct (X <? Z.of_nat (length fr))%Z; auto.
  replace (20 <? Z.of_nat 0 + X)%Z with true by lia. reflexivity.
Qed.

Theorem f6_rejected raw : rfc_number raw -> f6_class raw = true -> get_int_str raw = None.
Proof.
  intros Hn Hf6.
  destruct (number_shape raw Hn) as (neg & i & fd & eneg & esg & ed & Hi & Hfd & Hed & Hc & Hnd & Hpp).
  assert (Hec : exp_case eneg esg ed).
  { destruct Hc as [H | [H1 H2]]; [left; tauto | right; split; auto]. }
  unfold f6_class in Hf6. rewrite Hpp in Hf6. cbn [p_intp p_frac p_exp] in Hf6.
  rewrite (f6_x eneg esg ed Hed Hec) in Hf6.
  unfold get_int_str. rewrite Hpp. unfold normalize_to_int_string. cbn [p_intp p_frac].
  destruct (intp_of i) as [|x xs] eqn:Ei; [destruct (trim_right_zeros fd) as [|y ys] eqn:Ef|];
    try discriminate; apply (norm_body_f6 _ _ _ eneg); auto.
Qed.

(* ---------- C22 int_decode_exact ---------- *)
Definition decode_int (bits : N) (signed : bool) (raw : list byte) : option Z :=
  if signed then token_int bits raw
  else match token_uint bits raw with Some n => Some (Z.of_N n) | None => None end.

Theorem int_decode_sound bits signed raw v : 1 <= bits -> rfc_number raw ->
  decode_int bits signed raw = Some v -> lit_is_int raw v /\ int_in_range bits signed v.
Proof.
  intros Hb Hn. unfold decode_int. destruct signed.
  - now apply token_int_sound.
  - destruct (token_uint bits raw) as [n|] eqn:E; [|discriminate]. intros [= <-].
    now apply token_uint_sound.
Qed.

Theorem int_decode_exact_except_F6 bits signed raw v : 1 <= bits <= 64 -> rfc_number raw ->
  f6_class raw = false ->
  (decode_int bits signed raw = Some v <-> lit_is_int raw v /\ int_in_range bits signed v).
Proof.
  intros Hb Hn Hf6. split; [apply int_decode_sound; auto; lia|]. intros [Hlit Hr].
  unfold decode_int. destruct signed.
  - now apply token_int_complete.
  - rewrite (token_uint_complete bits raw v); auto; [|lia]. f_equal. unfold int_in_range in Hr. lia.
Qed.

Theorem int_decode_in_F6_rejected bits signed raw : rfc_number raw -> f6_class raw = true ->
  decode_int bits signed raw = None.
Proof.
  intros Hn Hf. unfold decode_int, token_int, token_uint. rewrite (f6_rejected raw Hn Hf). now destruct signed.
Qed.

(* the witness of F6: 0.01e21 = 10^19 into uint64 *)
Definition f6_witness : list byte := ["0"; "."; "0"; "1"; "e"; "2"; "1"]%byte.
Definition f6_witness32 : list byte :=
  ["0"; "."; "0"; "0"; "0"; "0"; "0"; "0"; "0"; "0"; "0"; "0"; "0"; "0"; "0"; "0"; "0"; "0"; "0"; "0"; "0"; "0"; "1"; "e"; "2"; "1"]%byte.

Theorem int_decode_exact_refuted :
  exists bits signed raw v, rfc_number raw /\ lit_is_int raw v /\ int_in_range bits signed v /\
                            decode_int bits signed raw = None.
Proof.
  exists 64, false, f6_witness, 10000000000000000000%Z. split; [|split; [|split]].
  - apply is_rfc_number_iff. vm_compute. reflexivity.
  - vm_compute. reflexivity.
  - vm_compute. split; [discriminate|reflexivity].
  - vm_compute. reflexivity.
Qed.

Example int_decode_exact_refuted_int32 :
  rfc_number f6_witness32 /\ lit_is_int f6_witness32 1 /\ int_in_range 32 true 1 /\ decode_int 32 true f6_witness32 = None
  /\ f6_class f6_witness32 = true /\ f6_class f6_witness = true.
Proof.
  split; [apply is_rfc_number_iff; vm_compute; reflexivity|].
  split; [vm_compute; reflexivity|]. split; [vm_compute; split; [discriminate|reflexivity]|].
  split; vm_compute; auto.
Qed.
