(* JsonMsgModel — tree-level model of protojson Marshal / Unmarshal (C20).  Definitions only.

   Mirrors encoding/protojson/encode.go (marshalMessage, unpopulatedFieldRanger, marshalSingular,
   marshalList, marshalMap), decode.go (unmarshalMessage, unmarshalSingular, unmarshalScalar,
   unmarshalList, unmarshalMap, unmarshalMapKey) and well_known_types.go, at the level of an
   abstract JSON value: the byte-level layer (tokenizer, string escaping, number text, indentation)
   belongs to C21/C22.  Multiline and Indent therefore do not occur in [to_json] at all: they only
   select the rendering of the same tree (Props/C20.v states this as [C20_rendering_options_irrelevant]).

   jv         JNull | JBool | JNum | JStr bytes | JArr | JObj (ordered association list)
   jnum       NInt z   an integer literal (what WriteInt / WriteUint emit)
              NF32 b / NF64 b  the shortest rendering of the finite float with bit pattern b at that
                       size (strconv-relative: the text itself is the business of C21/C22)
              NLit i f64 f32   an arbitrary number literal annotated with what it denotes: its exact
                       integer value when it is a plain integer literal, and the bit patterns that
                       strconv.ParseFloat gives at 64 and at 32 bits (decoder inputs of the harness)
   jcodec     the string forms that other properties own: base64 (C22), Timestamp and Duration
              strings (C23).  Executable instances: Json/JsonWktLite.v.
   to_json cd o S nm lim fuel tid v     result of Marshal for message value v of type tid
   of_json cd S nm fuel tid j           result of Unmarshal
   [lim] is the recursion limit of the binary decoder used for Any values, [fuel] bounds the message
   nesting (an explicit EFuel outcome; the theorems show it is not reached when to_json succeeded). *)
From Coq Require Import List NArith ZArith Bool.
From PB Require Import Base.PBytes Wire.WireModel Msg.MsgSchema Msg.MsgValue Msg.MsgUtf8 Msg.MsgEnc Msg.MsgDec.
From PB Require Import Text.TextStrModel Text.TextFmtModel Json.RtSchema.
Import ListNotations.
Open Scope N_scope.

Inductive jnum := NInt (z : Z) | NF32 (b : N) | NF64 (b : N) | NLit (i : option Z) (f64 f32 : N).

Inductive jv :=
| JNull | JBool (b : bool) | JNum (n : jnum) | JStr (s : list byte)
| JArr (l : list jv) | JObj (l : list (list byte * jv)).

Inductive jerr :=
| EUtf8 | ETimestamp | EDuration | EFieldMask | EValueEmpty | EValueNonFinite
| EAnyNoType | EAnyUnresolvable | EAnyMalformed     (* the enumerated unrepresentable contents *)
| ESchema        (* the value does not fit the schema table (excluded by validity) *)
| EFuel          (* nesting deeper than the fuel *)
| EDecode        (* Unmarshal rejects the input *)
| EUnmodelled.   (* decoder input outside the modelled domain (number forms owned by C22) *)

Inductive jres (A : Type) := JOk (a : A) | JErr (e : jerr).
Arguments JOk {A}. Arguments JErr {A}.

Definition jbind {A B} (r : jres A) (f : A -> jres B) : jres B :=
  match r with JOk a => f a | JErr e => JErr e end.
Notation "x <- r ;; k" := (jbind r (fun x => k)) (at level 61, r at next level, right associativity).

Fixpoint jmapM {A B} (f : A -> jres B) (l : list A) : jres (list B) :=
  match l with
  | [] => JOk []
  | a :: r => b <- f a ;; bs <- jmapM f r ;; JOk (b :: bs)
  end.

Record jopts := mkJO {
  o_multiline : bool; o_indent : bool;                 (* rendering only *)
  o_proto_names : bool; o_enum_numbers : bool; o_emit_unpop : bool; o_emit_defaults : bool
}.

Record jcodec := mkJC {
  b64_enc : list byte -> list byte;
  b64_dec : list byte -> option (list byte);
  ts_fmt : Z -> Z -> list byte;
  ts_parse : list byte -> option (Z * Z);
  dur_fmt : Z -> Z -> list byte;
  dur_parse : list byte -> option (Z * Z)
}.

(* ---------- literal strings ---------- *)
Definition s_NaN : list byte := [x4e; x61; x4e].
Definition s_Inf : list byte := [x49; x6e; x66; x69; x6e; x69; x74; x79].
Definition s_NInf : list byte := x2d :: s_Inf.
Definition s_true : list byte := [x74; x72; x75; x65].
Definition s_false : list byte := [x66; x61; x6c; x73; x65].
Definition s_at_type : list byte := [x40; x74; x79; x70; x65].
Definition s_value : list byte := [x76; x61; x6c; x75; x65].

(* ---------- scalars: marshalSingular ---------- *)
Definition json_float32 (b : N) : jv :=
  if f32_is_nan b then JStr s_NaN else if f32_is_pinf b then JStr s_Inf
  else if f32_is_ninf b then JStr s_NInf else JNum (NF32 b).
Definition json_float64 (b : N) : jv :=
  if f64_is_nan b then JStr s_NaN else if f64_is_pinf b then JStr s_Inf
  else if f64_is_ninf b then JStr s_NInf else JNum (NF64 b).

Definition json_enum (o : jopts) (ed : edesc) (z : Z) : jv :=
  if e_null ed then JNull
  else match enum_by_number (e_vals ed) z with
       | Some name => if o_enum_numbers o then JNum (NInt z) else JStr name
       | None => JNum (NInt z)
       end.

Definition json_scalar (cd : jcodec) (o : jopts) (ed : edesc) (sk : skind) (s : scalar) : jres jv :=
  match sk, s with
  | SkBool, SB b => JOk (JBool b)
  | SkString, SBy bs => if msg_utf8_valid bs then JOk (JStr bs) else JErr EUtf8
  | SkInt32, SZ z | SkSint32, SZ z | SkSfixed32, SZ z => JOk (JNum (NInt z))
  | SkUint32, SN n | SkFixed32, SN n => JOk (JNum (NInt (Z.of_N n)))
  | SkInt64, SZ z | SkSint64, SZ z | SkSfixed64, SZ z => JOk (JStr (fmt_int z))
  | SkUint64, SN n | SkFixed64, SN n => JOk (JStr (fmt_dec n))
  | SkFloat, SN b => JOk (json_float32 b)
  | SkDouble, SN b => JOk (json_float64 b)
  | SkBytes, SBy bs => JOk (JStr (b64_enc cd bs))
  | SkEnum, SZ z => JOk (json_enum o ed z)
  | _, _ => JErr ESchema
  end.

(* MapKey.String() *)
Definition json_key (kk : skind) (k : scalar) : jres (list byte) :=
  match kk, k with
  | SkBool, SB b => JOk (if b then s_true else s_false)
  | SkString, SBy bs => if msg_utf8_valid bs then JOk bs else JErr EUtf8
  | SkInt32, SZ z | SkSint32, SZ z | SkSfixed32, SZ z
  | SkInt64, SZ z | SkSint64, SZ z | SkSfixed64, SZ z => JOk (fmt_int z)
  | SkUint32, SN n | SkFixed32, SN n | SkUint64, SN n | SkFixed64, SN n => JOk (fmt_dec n)
  | _, _ => JErr ESchema
  end.

(* ---------- FieldMask paths ---------- *)
Definition is_lower (c : byte) : bool := (97 <=? b2n c) && (b2n c <=? 122).
Definition is_upper (c : byte) : bool := (65 <=? b2n c) && (b2n c <=? 90).
Definition is_letter (c : byte) : bool := is_lower c || is_upper c || (b2n c =? 95).
Definition is_letter_digit (c : byte) : bool := is_letter c || ((48 <=? b2n c) && (b2n c <=? 57)).

(* protoreflect.FullName.IsValid; [start]: an identifier must begin here *)
Fixpoint fullname_valid_aux (start : bool) (s : list byte) : bool :=
  match s with
  | [] => negb start
  | c :: r =>
    if start then is_letter c && fullname_valid_aux false r
    else if b2n c =? 46 then fullname_valid_aux true r
    else is_letter_digit c && fullname_valid_aux false r
  end.
Definition fullname_valid (s : list byte) : bool := fullname_valid_aux true s.

(* strs.JSONCamelCase *)
Fixpoint fm_camel_aux (was_us : bool) (s : list byte) : list byte :=
  match s with
  | [] => []
  | c :: r =>
    if b2n c =? 95 then fm_camel_aux true r
    else (if was_us && is_lower c then n2b (b2n c - 32) else c) :: fm_camel_aux false r
  end.
Definition fm_camel (s : list byte) : list byte := fm_camel_aux false s.

(* strs.JSONSnakeCase *)
Fixpoint fm_snake (s : list byte) : list byte :=
  match s with
  | [] => []
  | c :: r => if is_upper c then x5f :: n2b (b2n c + 32) :: fm_snake r else c :: fm_snake r
  end.

Definition fm_path_ok (p : list byte) : bool := fullname_valid p && bs_eqb (fm_snake (fm_camel p)) p.

Fixpoint join_comma (l : list (list byte)) : list byte :=
  match l with
  | [] => []
  | [p] => p
  | p :: r => p ++ x2c :: join_comma r
  end.

(* strings.Split(s, ",") *)
Fixpoint split_comma_aux (s cur : list byte) : list (list byte) :=
  match s with
  | [] => [rev cur]
  | c :: r => if b2n c =? 44 then rev cur :: split_comma_aux r [] else split_comma_aux r (c :: cur)
  end.
Definition split_comma (s : list byte) : list (list byte) := split_comma_aux s [].

(* ---------- ranges of the well-known types (well_known_types.go constants) ---------- *)
Definition max_dur_secs : Z := 315576000000.
Definition max_nanos : Z := 999999999.
Definition max_ts_secs : Z := 253402300799.
Definition min_ts_secs : Z := (-62135596800).

Definition ts_in_range (secs nanos : Z) : bool :=
  ((min_ts_secs <=? secs) && (secs <=? max_ts_secs) && (0 <=? nanos) && (nanos <=? max_nanos))%Z.
Definition dur_in_range (secs nanos : Z) : bool :=
  ((- max_dur_secs <=? secs) && (secs <=? max_dur_secs) && (- max_nanos <=? nanos) && (nanos <=? max_nanos)
   && negb ((0 <? secs) && (nanos <? 0)) && negb ((secs <? 0) && (0 <? nanos)))%Z.

Definition is_special_wkt (w : N) : bool := negb (w =? 0) && negb (w =? 9).

(* ---------- accessors on canonical values ---------- *)
Definition get_z (fs : fields) (num : N) : Z :=
  match msg_fget fs num with [VS (SZ z)] => z | _ => 0%Z end.
Definition get_bytes (fs : fields) (num : N) : list byte :=
  match msg_fget fs num with [VS (SBy b)] => b | _ => [] end.
Definition has_field (fs : fields) (num : N) : bool :=
  match msg_fget fs num with [] => false | _ => true end.

(* ================================================================== encoder *)
Section Enc.
  Variable cd : jcodec.
  Variable o : jopts.
  Variable S : schema.
  Variable nm : names.
  Variable lim : nat.
  Variable rec : nat -> value -> jres jv.      (* messages one level down *)

  Definition json_elem (fd : fdesc) (fn : fname) (v : value) : jres jv :=
    match f_kind fd, v with
    | KS sk, VS s => json_scalar cd o (nm_enum nm fn) sk s
    | KMsg tid, VMsg _ _ | KGrp tid, VMsg _ _ => rec tid v
    | _, _ => JErr ESchema
    end.

  Definition json_entry (fd : fdesc) (fn : fname) (kk : skind) (e : value) : jres (list byte * jv) :=
    match e with
    | VEntry k v => key <- json_key kk k ;; x <- json_elem fd fn v ;; JOk (key, x)
    | _ => JErr ESchema
    end.

  Definition json_field_value (fd : fdesc) (fn : fname) (vs : list value) : jres jv :=
    match f_card fd with
    | CMap kk _ _ => es <- jmapM (json_entry fd fn kk) vs ;; JOk (JObj es)
    | CRep | CPacked => xs <- jmapM (json_elem fd fn) vs ;; JOk (JArr xs)
    | _ => match vs with [v] => json_elem fd fn v | _ => JErr ESchema end
    end.

  (* unpopulatedFieldRanger: what an unpopulated field contributes *)
  Definition json_default (fd : fdesc) (fn : fname) : option jv :=
    if f_ext fd || fn_inoneof fn then None
    else if rt_has_presence fd then (if o_emit_unpop o then Some JNull else None)
    else match f_card fd with
         | CMap _ _ _ => Some (JObj [])
         | CRep | CPacked => Some (JArr [])
         | _ => match f_kind fd with
                | KS sk => match json_scalar cd o (nm_enum nm fn) sk (sk_zero sk) with
                           | JOk j => Some j | JErr _ => None end
                | _ => None
                end
         end.

  Definition json_name (fn : fname) : list byte := if o_proto_names o then fn_text fn else fn_json fn.

  Definition json_member (fs : fields) (p : fpair) : jres (list (list byte * jv)) :=
    match msg_fget fs (f_num (fst p)) with
    | [] =>
      if o_emit_unpop o || o_emit_defaults o then
        match json_default (fst p) (snd p) with
        | Some j => JOk [(json_name (snd p), j)]
        | None => JOk []
        end
      else JOk []
    | vs => j <- json_field_value (fst p) (snd p) vs ;; JOk [(json_name (snd p), j)]
    end.

  Definition json_members (tid : nat) (fs : fields) : jres (list (list byte * jv)) :=
    ms <- jmapM (json_member fs) (rt_field_order (rt_fields S nm tid)) ;; JOk (concat ms).

  (* ---- well-known types ---- *)
  Definition json_wrapper (tid : nat) (fs : fields) : jres jv :=
    match rt_find (rt_fields S nm tid) 1 with
    | Some (fd, fn) =>
      match f_kind fd with
      | KS sk =>
        let s := match msg_fget fs 1 with [VS s] => s | _ => sk_zero sk end in
        json_scalar cd o (nm_enum nm fn) sk s
      | _ => JErr ESchema
      end
    | None => JErr ESchema
    end.

  Definition json_timestamp (fs : fields) : jres jv :=
    let secs := get_z fs 1 in let nanos := get_z fs 2 in
    if ts_in_range secs nanos then JOk (JStr (ts_fmt cd secs nanos)) else JErr ETimestamp.

  Definition json_duration (fs : fields) : jres jv :=
    let secs := get_z fs 1 in let nanos := get_z fs 2 in
    if dur_in_range secs nanos then JOk (JStr (dur_fmt cd secs nanos)) else JErr EDuration.

  Definition json_fieldmask (fs : fields) : jres jv :=
    ps <- jmapM (fun v => match v with
                          | VS (SBy p) => if fm_path_ok p then JOk (fm_camel p) else JErr EFieldMask
                          | _ => JErr ESchema end) (msg_fget fs 1) ;;
    JOk (JStr (join_comma ps)).

  (* Struct.fields / ListValue.values: the field with number 1, rendered as a map / list even when empty *)
  Definition json_field1 (tid : nat) (fs : fields) : jres jv :=
    match rt_find (rt_fields S nm tid) 1 with
    | Some (fd, fn) => json_field_value fd fn (msg_fget fs 1)
    | None => JErr ESchema
    end.

  Definition json_value (tid : nat) (fs : fields) : jres jv :=
    match fs with
    | [] => JErr EValueEmpty
    | [(num, [v])] =>
      match rt_find (rt_fields S nm tid) num with
      | Some (fd, fn) =>
        match num, v with
        | 2, VS (SN b) =>
          if f64_is_nan b || f64_is_pinf b || f64_is_ninf b then JErr EValueNonFinite
          else json_elem fd fn v
        | _, _ => json_elem fd fn v
        end
      | None => JErr ESchema
      end
    | _ => JErr ESchema
    end.

  Definition json_any (fs : fields) : jres jv :=
    let url := get_bytes fs 1 in
    if negb (has_field fs 1) then
      (if has_field fs 2 then JErr EAnyNoType else JOk (JObj []))
    else
      match resolve_url nm url with
      | None => JErr EAnyUnresolvable
      | Some t =>
        match msg_decode false S lim t (get_bytes fs 2) with
        | MsgDec.DErr _ => JErr EAnyMalformed
        | MsgDec.DOk em =>
          if negb (msg_utf8_valid url) then JErr EUtf8
          else if is_special_wkt (mn_wkt (nm_msg nm t)) then
            j <- rec t em ;; JOk (JObj [(s_at_type, JStr url); (s_value, j)])
          else
            match em with
            | VMsg efs _ => ms <- json_members t efs ;; JOk (JObj ((s_at_type, JStr url) :: ms))
            | _ => JErr ESchema
            end
        end
      end.

  Definition json_msg_body (tid : nat) (v : value) : jres jv :=
    match v with
    | VMsg fs _ =>
      match mn_wkt (nm_msg nm tid) with
      | 1 => json_any fs
      | 2 => json_timestamp fs
      | 3 => json_duration fs
      | 4 => json_wrapper tid fs
      | 5 | 6 => json_field1 tid fs
      | 7 => json_value tid fs
      | 8 => json_fieldmask fs
      | _ => ms <- json_members tid fs ;; JOk (JObj ms)
      end
    | _ => JErr ESchema
    end.
End Enc.

Fixpoint to_json_msg (cd : jcodec) (o : jopts) (S : schema) (nm : names) (lim : nat) (fuel : nat)
         (tid : nat) (v : value) : jres jv :=
  match fuel with
  | O => JErr EFuel
  | Datatypes.S f => json_msg_body cd o S nm lim (to_json_msg cd o S nm lim f) tid v
  end.

(* Multiline and Indent select the rendering of the tree only: the tree is computed from the other four *)
Definition jo_tree (o : jopts) : jopts :=
  mkJO false false (o_proto_names o) (o_enum_numbers o) (o_emit_unpop o) (o_emit_defaults o).

Definition to_json (cd : jcodec) (o : jopts) := to_json_msg cd (jo_tree o).

(* ================================================================== decoder *)

(* ---- scalars: unmarshalScalar ---- *)
Definition in_i32 (z : Z) : bool := ((-2147483648 <=? z) && (z <? 2147483648))%Z.
Definition in_i64 (z : Z) : bool := ((-9223372036854775808 <=? z) && (z <? 9223372036854775808))%Z.
Definition in_u32 (z : Z) : bool := ((0 <=? z) && (z <? 4294967296))%Z.
Definition in_u64 (z : Z) : bool := ((0 <=? z) && (z <? 18446744073709551616))%Z.

(* the exact integer a JSON value denotes for an integer kind: number literal, or the canonical
   decimal text inside a string; other number forms (fractions, exponents, non-canonical digits)
   belong to C22 and are outside this model *)
Definition json_int_of (j : jv) : jres Z :=
  match j with
  | JNum (NInt z) => JOk z
  | JNum (NLit (Some z) _ _) => JOk z
  | JNum _ => JErr EUnmodelled
  | JStr s =>
    match parse_int10 128 s with
    | Some z => if bs_eqb (fmt_int z) s then JOk z else JErr EUnmodelled
    | None => JErr EUnmodelled
    end
  | _ => JErr EDecode
  end.

Definition dec_int (ok : Z -> bool) (j : jv) : jres Z :=
  z <- json_int_of j ;; if ok z then JOk z else JErr EDecode.

Definition dec_float32 (j : jv) : jres N :=
  match j with
  | JNum (NF32 b) => JOk b
  | JNum (NLit _ _ f32) => JOk f32
  | JNum _ => JErr EUnmodelled
  | JStr s =>
    if bs_eqb s s_NaN then JOk f32_nan else if bs_eqb s s_Inf then JOk f32_pinf
    else if bs_eqb s s_NInf then JOk f32_ninf else JErr EUnmodelled
  | _ => JErr EDecode
  end.
Definition dec_float64 (j : jv) : jres N :=
  match j with
  | JNum (NF64 b) => JOk b
  | JNum (NLit _ f64 _) => JOk f64
  | JNum _ => JErr EUnmodelled
  | JStr s =>
    if bs_eqb s s_NaN then JOk f64_nan else if bs_eqb s s_Inf then JOk f64_pinf
    else if bs_eqb s s_NInf then JOk f64_ninf else JErr EUnmodelled
  | _ => JErr EDecode
  end.

Definition dec_enum (ed : edesc) (j : jv) : jres Z :=
  match j with
  | JStr s => match enum_by_name (e_vals ed) s with Some z => JOk z | None => JErr EDecode end
  | JNum _ => dec_int in_i32 j
  | JNull => if e_null ed then JOk 0%Z else JErr EDecode
  | _ => JErr EDecode
  end.

Definition dec_scalar (cd : jcodec) (ed : edesc) (sk : skind) (j : jv) : jres scalar :=
  match sk with
  | SkBool => match j with JBool b => JOk (SB b) | _ => JErr EDecode end
  | SkInt32 | SkSint32 | SkSfixed32 => z <- dec_int in_i32 j ;; JOk (SZ z)
  | SkInt64 | SkSint64 | SkSfixed64 => z <- dec_int in_i64 j ;; JOk (SZ z)
  | SkUint32 | SkFixed32 => z <- dec_int in_u32 j ;; JOk (SN (Z.to_N z))
  | SkUint64 | SkFixed64 => z <- dec_int in_u64 j ;; JOk (SN (Z.to_N z))
  | SkFloat => b <- dec_float32 j ;; JOk (SN b)
  | SkDouble => b <- dec_float64 j ;; JOk (SN b)
  | SkString => match j with JStr s => JOk (SBy s) | _ => JErr EDecode end
  | SkBytes =>
    match j with
    | JStr s => match b64_dec cd s with Some b => JOk (SBy b) | None => JErr EDecode end
    | _ => JErr EDecode
    end
  | SkEnum => z <- dec_enum ed j ;; JOk (SZ z)
  end.

(* unmarshalMapKey *)
Definition dec_key (kk : skind) (name : list byte) : jres scalar :=
  match kk with
  | SkString => JOk (SBy name)
  | SkBool => if bs_eqb name s_true then JOk (SB true) else if bs_eqb name s_false then JOk (SB false) else JErr EDecode
  | SkInt32 | SkSint32 | SkSfixed32 =>
    match parse_int10 32 name with Some z => JOk (SZ z) | None => JErr EDecode end
  | SkInt64 | SkSint64 | SkSfixed64 =>
    match parse_int10 64 name with Some z => JOk (SZ z) | None => JErr EDecode end
  | SkUint32 | SkFixed32 =>
    match parse_uint10 32 name with Some n => JOk (SN n) | None => JErr EDecode end
  | SkUint64 | SkFixed64 =>
    match parse_uint10 64 name with Some n => JOk (SN n) | None => JErr EDecode end
  | _ => JErr ESchema
  end.

Definition has_key (es : list value) (k : scalar) : bool :=
  existsb (fun e => match e with
                    | VEntry k0 _ => match msg_scmp k k0 with Eq => true | _ => false end
                    | _ => false end) es.

(* name lookup of unmarshalMessage: "[full.name]" among the extensions of the message; otherwise
   Fields().ByJSONName, then Fields().ByTextName, over the declared fields *)
Definition is_bracketed (name : list byte) : bool :=
  match name with
  | c :: _ => (b2n c =? 91) && (b2n (last name x00) =? 93)
  | [] => false
  end.
Fixpoint find_by (sel : fname -> list byte) (ext : bool) (fps : list fpair) (name : list byte) : option fpair :=
  match fps with
  | [] => None
  | p :: r =>
    if Bool.eqb (f_ext (fst p)) ext && bs_eqb (sel (snd p)) name then Some p else find_by sel ext r name
  end.
Definition lookup_name (fps : list fpair) (name : list byte) : option fpair :=
  if is_bracketed name then find_by fn_text true fps name
  else match find_by fn_json false fps name with
       | Some p => Some p
       | None => find_by fn_text false fps name
       end.

Definition is_jnull (j : jv) : bool := match j with JNull => true | _ => false end.

Record dstate := mkDS { ds_fs : fields; ds_seen : list N; ds_oneofs : list N }.

Section Dec.
  Variable cd : jcodec.
  Variable S : schema.
  Variable nm : names.
  Variable rec : nat -> jv -> jres value.

  Definition dec_elem (fd : fdesc) (fn : fname) (j : jv) : jres value :=
    match f_kind fd with
    | KS sk => s <- dec_scalar cd (nm_enum nm fn) sk j ;; JOk (VS s)
    | KMsg tid | KGrp tid => rec tid j
    end.

  (* isKnownValue(fd) || isNullValue(fd): a JSON null is a value for these fields *)
  Definition null_is_value (fd : fdesc) (fn : fname) : bool :=
    match f_card fd with
    | CMap _ _ _ => false
    | _ => match f_kind fd with
           | KMsg tid => mn_wkt (nm_msg nm tid) =? 7
           | KS SkEnum => e_null (nm_enum nm fn)
           | _ => false
           end
    end.

  Fixpoint dec_entries (fd : fdesc) (fn : fname) (kk : skind) (l : list (list byte * jv)) (acc : list value)
    : jres (list value) :=
    match l with
    | [] => JOk acc
    | (name, j) :: r =>
      k <- dec_key kk name ;;
      if has_key acc k then JErr EDecode
      else v <- dec_elem fd fn j ;; dec_entries fd fn kk r (msg_map_put acc k v)
    end.

  Definition store (fs : fields) (num : N) (vs : list value) : fields :=
    match vs with [] => fs | _ => msg_fset fs num vs end.

  Definition dec_field (fd : fdesc) (fn : fname) (j : jv) (st : dstate) : jres dstate :=
    match f_card fd with
    | CRep | CPacked =>
      match j with
      | JArr l => xs <- jmapM (dec_elem fd fn) l ;;
                  JOk (mkDS (store (ds_fs st) (f_num fd) (msg_fget (ds_fs st) (f_num fd) ++ xs)) (ds_seen st) (ds_oneofs st))
      | _ => JErr EDecode
      end
    | CMap kk _ _ =>
      match j with
      | JObj l => es <- dec_entries fd fn kk l (msg_fget (ds_fs st) (f_num fd)) ;;
                  JOk (mkDS (store (ds_fs st) (f_num fd) es) (ds_seen st) (ds_oneofs st))
      | _ => JErr EDecode
      end
    | c =>
      match (match f_oneof fd with
             | Some i => if existsb (N.eqb i) (ds_oneofs st) then None else Some (i :: ds_oneofs st)
             | None => Some (ds_oneofs st) end) with
      | None => JErr EDecode
      | Some ones =>
        v <- dec_elem fd fn j ;;
        let drop := match c, v with CImp, VS s => msg_scalar_is_zero s | _, _ => false end in
        JOk (mkDS (if drop then ds_fs st else msg_fset (ds_fs st) (f_num fd) [v]) (ds_seen st) ones)
      end
    end.

  Definition dec_member (fps : list fpair) (skip_type : bool) (st : dstate) (kv : list byte * jv) : jres dstate :=
    if skip_type && bs_eqb (fst kv) s_at_type then JOk st
    else match lookup_name fps (fst kv) with
         | None => JErr EDecode
         | Some (fd, fn) =>
           if existsb (N.eqb (f_num fd)) (ds_seen st) then JErr EDecode
           else
             let st1 := mkDS (ds_fs st) (f_num fd :: ds_seen st) (ds_oneofs st) in
             if is_jnull (snd kv) && negb (null_is_value fd fn) then JOk st1
             else dec_field fd fn (snd kv) st1
         end.

  Fixpoint dec_members (fps : list fpair) (skip_type : bool) (l : list (list byte * jv)) (st : dstate) : jres dstate :=
    match l with
    | [] => JOk st
    | kv :: r => st' <- dec_member fps skip_type st kv ;; dec_members fps skip_type r st'
    end.

  Definition dec_ordinary (tid : nat) (skip_type : bool) (l : list (list byte * jv)) : jres value :=
    st <- dec_members (rt_fields S nm tid) skip_type l (mkDS [] [] []) ;; JOk (VMsg (ds_fs st) []).

  (* ---- well-known types ---- *)
  Definition set_nz (fs : fields) (num : N) (z : Z) : fields :=
    if (z =? 0)%Z then fs else msg_fset fs num [VS (SZ z)].

  Definition dec_wrapper (tid : nat) (j : jv) : jres value :=
    match rt_find (rt_fields S nm tid) 1 with
    | Some (fd, fn) =>
      match f_kind fd with
      | KS sk => s <- dec_scalar cd (nm_enum nm fn) sk j ;;
                 JOk (VMsg (if msg_scalar_is_zero s then [] else [(1, [VS s])]) [])
      | _ => JErr ESchema
      end
    | None => JErr ESchema
    end.

  Definition dec_timestamp (j : jv) : jres value :=
    match j with
    | JStr s =>
      match ts_parse cd s with
      | Some (secs, nanos) =>
        if ((min_ts_secs <=? secs) && (secs <=? max_ts_secs))%Z
        then JOk (VMsg (set_nz (set_nz [] 1 secs) 2 nanos) []) else JErr EDecode
      | None => JErr EDecode
      end
    | _ => JErr EDecode
    end.

  Definition dec_duration (j : jv) : jres value :=
    match j with
    | JStr s =>
      match dur_parse cd s with
      | Some (secs, nanos) =>
        if ((- max_dur_secs <=? secs) && (secs <=? max_dur_secs))%Z
        then JOk (VMsg (set_nz (set_nz [] 1 secs) 2 nanos) []) else JErr EDecode
      | None => JErr EDecode
      end
    | _ => JErr EDecode
    end.

  (* unmarshalFieldMask without the strings.TrimSpace step (surrounding white space: outside the model) *)
  Definition dec_fieldmask (j : jv) : jres value :=
    match j with
    | JStr [] => JOk (VMsg [] [])
    | JStr s =>
      ps <- jmapM (fun p => if existsb (fun c => b2n c =? 95) p || negb (fullname_valid (fm_snake p))
                            then JErr EDecode else JOk (VS (SBy (fm_snake p)))) (split_comma s) ;;
      JOk (VMsg [(1, ps)] [])
    | _ => JErr EDecode
    end.

  Definition dec_field1 (tid : nat) (j : jv) : jres value :=
    match rt_find (rt_fields S nm tid) 1 with
    | Some (fd, fn) => st <- dec_field fd fn j (mkDS [] [] []) ;; JOk (VMsg (ds_fs st) [])
    | None => JErr ESchema
    end.

  Definition dec_value (tid : nat) (j : jv) : jres value :=
    let num : N := match j with
                   | JNull => 1 | JNum _ => 2 | JStr _ => 3 | JBool _ => 4 | JObj _ => 5 | JArr _ => 6 end in
    match rt_find (rt_fields S nm tid) num with
    | Some (fd, fn) =>
      match j with
      | JNull => JOk (VMsg [(1, [VS (SZ 0)])] [])
      | JNum _ => b <- dec_float64 j ;; JOk (VMsg [(2, [VS (SN b)])] [])
      | JStr s => JOk (VMsg [(3, [VS (SBy s)])] [])
      | JBool b => JOk (VMsg [(4, [VS (SB b)])] [])
      | _ => v <- dec_elem fd fn j ;; JOk (VMsg [(num, [v])] [])
      end
    | None => JErr ESchema
    end.

  Definition dec_empty (j : jv) : jres value :=
    match j with JObj [] => JOk (VMsg [] []) | _ => JErr EDecode end.

  (* findTypeURL: the value of the single "@type" member *)
  Fixpoint find_type_url (l : list (list byte * jv)) (found : option (list byte)) : jres (option (list byte)) :=
    match l with
    | [] => JOk found
    | (k, j) :: r =>
      if bs_eqb k s_at_type then
        match found, j with
        | Some _, _ => JErr EDecode
        | None, JStr [] => JErr EDecode
        | None, JStr u => find_type_url r (Some u)
        | None, _ => JErr EDecode
        end
      else find_type_url r found
    end.

  (* unmarshalAnyValue: the "value" member decoded by the special mapping of the embedded type *)
  Fixpoint dec_any_value (t : nat) (l : list (list byte * jv)) (found : option value) : jres (option value) :=
    match l with
    | [] => JOk found
    | (k, j) :: r =>
      if bs_eqb k s_at_type then dec_any_value t r found
      else if bs_eqb k s_value then
        match found with
        | Some _ => JErr EDecode
        | None => v <- rec t j ;; dec_any_value t r (Some v)
        end
      else JErr EDecode
    end.

  Definition any_of (url : list byte) (t : nat) (em : value) : value :=
    let b := msg_encode S t em in
    VMsg ((1, [VS (SBy url)]) :: match b with [] => [] | _ => [(2, [VS (SBy b)])] end) [].

  Definition dec_any (j : jv) : jres value :=
    match j with
    | JObj l =>
      tu <- find_type_url l None ;;
      match tu with
      | None => match l with [] => JOk (VMsg [] []) | _ => JErr EDecode end
      | Some url =>
        match resolve_url nm url with
        | None => JErr EDecode
        | Some t =>
          let w := mn_wkt (nm_msg nm t) in
          if negb (w =? 0) then
            ov <- dec_any_value t l None ;;
            match ov with
            | Some em => JOk (any_of url t em)
            | None => if w =? 9 then JOk (any_of url t (VMsg [] [])) else JErr EDecode
            end
          else em <- dec_ordinary t true l ;; JOk (any_of url t em)
        end
      end
    | _ => JErr EDecode
    end.

  Definition of_json_body (tid : nat) (j : jv) : jres value :=
    match mn_wkt (nm_msg nm tid) with
    | 1 => dec_any j
    | 2 => dec_timestamp j
    | 3 => dec_duration j
    | 4 => dec_wrapper tid j
    | 5 | 6 => dec_field1 tid j
    | 7 => dec_value tid j
    | 8 => dec_fieldmask j
    | 9 => dec_empty j
    | _ => match j with JObj l => dec_ordinary tid false l | _ => JErr EDecode end
    end.
End Dec.

Fixpoint of_json_msg (cd : jcodec) (S : schema) (nm : names) (fuel : nat) (tid : nat) (j : jv) : jres value :=
  match fuel with
  | O => JErr EFuel
  | Datatypes.S f => of_json_body cd S nm (of_json_msg cd S nm f) tid j
  end.

Definition of_json := of_json_msg.

(* ================================================================== comparison with an observed tree *)
(* [jv_match model impl]: the tree parsed from the implementation's output is the model tree:
   same structure, keys and strings; number literals by what they denote (integers exactly, floats
   by the bit pattern strconv.ParseFloat assigns at the field's size). *)
Definition jnum_match (m i : jnum) : bool :=
  match m, i with
  | NInt z, NLit (Some z') _ _ => (z =? z')%Z
  | NF32 b, NLit _ _ f32 => b =? f32
  | NF64 b, NLit _ f64 _ => b =? f64
  | _, _ => false
  end.

Fixpoint jv_match (m i : jv) {struct m} : bool :=
  match m, i with
  | JNull, JNull => true
  | JBool a, JBool b => Bool.eqb a b
  | JNum a, JNum b => jnum_match a b
  | JStr a, JStr b => bs_eqb a b
  | JArr a, JArr b =>
    (fix go (a b : list jv) : bool :=
       match a, b with
       | [], [] => true
       | x :: a', y :: b' => jv_match x y && go a' b'
       | _, _ => false
       end) a b
  | JObj a, JObj b =>
    (fix go (a b : list (list byte * jv)) : bool :=
       match a, b with
       | [], [] => true
       | (k, x) :: a', (k', y) :: b' => bs_eqb k k' && jv_match x y && go a' b'
       | _, _ => false
       end) a b
  | _, _ => false
  end.
