(* JsonMsgValid — decidable side conditions of the protojson round-trip theorem (C20).  Definitions only.

   json_schema_ok S nm     the name tables fit the schema (rt_schema_ok) and every name under which a
                           field is written -- JSON name, or text name with UseProtoNames -- is found
                           again by the decoder's lookup (JSON names first, then text names): JSON names
                           pairwise distinct, text names pairwise distinct, no field's JSON name is
                           another field's text name, extension names bracketed, other names not;
                           a field with a real oneof is marked as member of a oneof; no field is
                           called "@type".
   json_core S nm          restriction of the proved theorem: no message type of the table has a special
                           JSON mapping (codes 1..8); google.protobuf.Empty (9) must have no fields.
   json_valid strict eu S nm fuel tid v   (eu = EmitUnpopulated)
                           "JSON-representable content" for the canonical value v of message type tid:
     - typed canonical value (sorted declared fields, no empty list, singular fields one value,
       implicit-presence scalars non-zero, at most one member per oneof, map entries strictly sorted),
       scalars in range, every string valid UTF-8 (map keys included), NaNs in normal form;
     - google.protobuf.NullValue fields hold 0 (other numbers are written as null and read back as 0);
     - nesting below [fuel];
     - only when [strict]: under EmitUnpopulated no explicit-presence field outside every oneof whose
       type is google.protobuf.Value or google.protobuf.NullValue is unset (the exclusion of finding F11). *)
From Coq Require Import List NArith ZArith Bool.
From PB Require Import Base.PBytes Wire.WireModel Msg.MsgSchema Msg.MsgValue Msg.MsgUtf8 Msg.MsgEnc Msg.MsgDec Msg.MsgValid.
From PB Require Import Json.RtSchema Json.JsonMsgModel Text.TextMsgModel Text.TextMsgValid.
Import ListNotations.
Open Scope N_scope.

Definition json_name_shape_ok (p : fpair) : bool :=
  if f_ext (fst p) then is_bracketed (fn_text (snd p)) && bs_eqb (fn_json (snd p)) (fn_text (snd p))
  else negb (is_bracketed (fn_json (snd p))) && negb (is_bracketed (fn_text (snd p))).

Definition json_msg_ok (S : schema) (nm : names) (tid : nat) : bool :=
  let fps := rt_fields S nm tid in
  bs_nodup (map (fun p => fn_json (snd p)) fps)
  && bs_nodup (map (fun p => fn_text (snd p)) fps)
  && forallb json_name_shape_ok fps
  && forallb (fun p => forallb (fun q => (fp_num p =? fp_num q) || negb (bs_eqb (fn_json (snd p)) (fn_text (snd q)))) fps) fps
  && forallb (fun p => match f_oneof (fst p) with Some _ => fn_inoneof (snd p) | None => true end) fps
  && forallb (fun p => negb (bs_eqb (fn_json (snd p)) s_at_type) && negb (bs_eqb (fn_text (snd p)) s_at_type)) fps.

Definition json_schema_ok (S : schema) (nm : names) : bool :=
  rt_schema_ok S nm && forallb (json_msg_ok S nm) (seq 0 (length S)).

Definition json_core (S : schema) (nm : names) : bool :=
  forallb (fun tid =>
    let w := mn_wkt (nm_msg nm tid) in
    (w =? 0) || ((w =? 9) && match rt_fields S nm tid with [] => true | _ => false end)) (seq 0 (length S)).

(* the fields hit by finding F11 *)
Definition f11_shaped (nm : names) (p : fpair) : bool :=
  negb (f_ext (fst p)) && negb (fn_inoneof (snd p)) && rt_has_presence (fst p) && null_is_value nm (fst p) (snd p).

Definition json_scalar_ok (ed : edesc) (sk : skind) (s : scalar) : bool :=
  rt_scalar_ok true sk s
  && match sk, s with
     | SkEnum, SZ z => negb (e_null ed) || (z =? 0)%Z
     | _, _ => true
     end.

(* kinds a map key can have *)
Definition json_key_kind_ok (kk : skind) : bool :=
  match kk with SkDouble | SkFloat | SkBytes | SkEnum => false | _ => true end.

Section Valid.
  Variable strict : bool.
  Variable eu : bool.               (* MarshalOptions.EmitUnpopulated *)
  Variable S : schema.
  Variable nm : names.
  Variable recv : nat -> value -> bool.

  Definition jvalid_elem (fd : fdesc) (fn : fname) (v : value) : bool :=
    match f_kind fd, v with
    | KS sk, VS s => json_scalar_ok (nm_enum nm fn) sk s
    | KMsg tid, VMsg _ _ | KGrp tid, VMsg _ _ => recv tid v
    | _, _ => false
    end.

  Definition jvalid_entry (fd : fdesc) (fn : fname) (kk : skind) (e : value) : bool :=
    match e with
    | VEntry k v => rt_scalar_ok true kk k && jvalid_elem fd fn v
    | _ => false
    end.

  Definition jvalid_field (fd : fdesc) (fn : fname) (vs : list value) : bool :=
    match f_card fd with
    | COpt | CReq => match vs with [v] => jvalid_elem fd fn v | _ => false end
    | CImp =>
      match vs with
      | [VS s] => jvalid_elem fd fn (VS s) && negb (msg_scalar_is_zero s)
      | _ => false
      end
    | CRep | CPacked => match vs with [] => false | _ => forallb (jvalid_elem fd fn) vs end
    | CMap kk _ _ =>
      match vs with [] => false | _ => forallb (jvalid_entry fd fn kk) vs end && msg_entries_sorted vs
      && json_key_kind_ok kk
    end.

  Definition jvalid_chunk (fps : list fpair) (p : N * list value) : bool :=
    match rt_find fps (fst p) with
    | Some q => jvalid_field (fst q) (snd q) (snd p)
    | None => false
    end.

  Definition jvalid_body (tid : nat) (v : value) : bool :=
    match v with
    | VMsg fs _ =>
      let fps := rt_fields S nm tid in
      msg_keys_sorted 0 fs
      && forallb (jvalid_chunk fps) fs
      && rt_oneofs_ok fps fs
      && (negb (strict && eu)
          || forallb (fun p => negb (f11_shaped nm p) || has_num fs (fp_num p)) fps)
    | _ => false
    end.
End Valid.

Fixpoint json_valid (strict : bool) (eu : bool) (S : schema) (nm : names) (fuel : nat) (tid : nat) (v : value) : bool :=
  match fuel with
  | O => false
  | Datatypes.S f =>
    Nat.ltb tid (length S) && jvalid_body strict eu S nm (json_valid strict eu S nm f) tid v
  end.
