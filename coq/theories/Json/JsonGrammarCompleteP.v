(* The executable recogniser [is_json] accepts every member of the inductive grammar. *)
From Coq Require Import List NArith ZArith Lia Bool.
From Coq Require Import ZifyBool ZifyNat ZifyN.
From PB Require Import Base.PBytes Json.JsonUtf8 Json.JsonGrammar Json.JsonNumModel Json.JsonNumP
  Json.JsonLexModel Json.JsonStrP Json.JsonLexP Json.JsonEncModel Json.JsonEncP Json.JsonStrict Json.JsonLexCompleteP
  Json.JsonGrammarP.
Import ListNotations.
Open Scope N_scope.

(* ---------- strings ---------- *)
Lemma rfc3629_len c : rfc3629_char c = true ->
  exists b c', c = b :: c' /\ utf8_len b = length c /\
               ((length c = 1)%nat \/ (128 <= b2n b)).
Proof.
  destruct c as [|b0 [|b1 [|b2 [|b3 [|b4 c]]]]]; cbn [rfc3629_char length]; try discriminate;
    unfold utf8_tail, in_range, utf8_len; intros H; eexists _, _; (split; [reflexivity|]).
  - replace (b2n b0 <? 128) with true by lia. auto.
  - replace (b2n b0 <? 128) with false by lia. replace (b2n b0 <? 224) with true by lia. split; auto. right. lia.
  - replace (b2n b0 <? 128) with false by lia. replace (b2n b0 <? 224) with false by lia.
    replace (b2n b0 <? 240) with true by lia. split; auto. right. lia.
  - replace (b2n b0 <? 128) with false by lia. replace (b2n b0 <? 224) with false by lia.
    replace (b2n b0 <? 240) with false by lia. split; auto. right. lia.
Qed.

Lemma strip_chars_complete body : jchars body ->
  forall r fuel, (length body < fuel)%nat -> strip_chars fuel (body ++ c_quote :: r) = Some r.
Proof.
  induction 1 as [|c rest0 Hc Hu Hs IH|e rest0 He Hs IH|h1 h2 h3 h4 rest0 H1 H2 H3 H4 Hs IH];
    intros r fuel Hf; (destruct fuel as [|f]; [lia|]).
  - cbn [app strip_chars]. eval_is. reflexivity.
  - destruct (rfc3629_len c Hc) as (b & c' & -> & Hlen & Hb).
    rewrite <- app_assoc. cbn [app strip_chars].
    assert (Hq : is b c_quote = false /\ is b c_bslash = false).
    { destruct Hb as [Hb | Hb].
      - destruct c'; [|cbn [length] in Hb; lia]. cbn [unescaped] in Hu.
        apply andb_true_iff in Hu as [Hu Hu3]. apply andb_true_iff in Hu as [_ Hu2].
        apply negb_true_iff in Hu2, Hu3. auto.
      - split; apply is_b2n_false; cbn; lia. }
    destruct Hq as [-> ->].
    change (b :: c' ++ rest0 ++ c_quote :: r) with ((b :: c') ++ rest0 ++ c_quote :: r).
    rewrite Hlen, take_app, Hc, Hu. cbn [andb].
    apply IH. rewrite app_length in Hf. cbn [length] in *. lia.
  - cbn [app strip_chars]. eval_is. rewrite He. apply IH. cbn [length] in Hf. lia.
  - cbn [app strip_chars]. eval_is. change (is_simple_esc c_u) with false. cbv iota.
    rewrite H1, H2, H3, H4. cbn [andb]. apply IH. cbn [length] in Hf. lia.
Qed.

Lemma strip_string_complete k r : rfc_string k -> strip_string (k ++ r) = Some r.
Proof.
  intros (body & -> & Hb). cbn [app strip_string]. eval_is.
  rewrite <- app_assoc. cbn [app]. apply strip_chars_complete; auto; try (rewrite app_length; cbn [length]; lia).
Qed.

(* ---------- fuel monotonicity ---------- *)
Lemma strip_mono f :
  (forall s r, strip_value f s = Some r -> forall f', (f <= f')%nat -> strip_value f' s = Some r) /\
  (forall s r, strip_elems f s = Some r -> forall f', (f <= f')%nat -> strip_elems f' s = Some r) /\
  (forall s r, strip_members f s = Some r -> forall f', (f <= f')%nat -> strip_members f' s = Some r).
Proof.
  induction f as [|f (IHv & IHe & IHm)]; [repeat split; intros; discriminate|].
  split; [|split]; intros s r H f' Hf; (destruct f' as [|f']; [lia|]); assert (Hle : (f <= f')%nat) by lia.
  - cbn [strip_value] in *. destruct s as [|b s1]; [discriminate|].
    destruct (is b c_lbrack).
    { destruct (skip_ws s1) as [|b1 r1]; [discriminate|]. destruct (is b1 c_rbrack); auto; try (eapply IHe; eauto). }
    destruct (is b c_lbrace).
    { destruct (skip_ws s1) as [|b1 r1]; [discriminate|]. destruct (is b1 c_rbrace); auto; try (eapply IHm; eauto). }
    exact H.
  - cbn [strip_elems] in *. destruct (strip_value f s) as [r0|] eqn:Ev; [|discriminate].
    rewrite (IHv _ _ Ev f' Hle). destruct (skip_ws r0) as [|b r1]; [discriminate|].
    destruct (is b c_comma); [eapply IHe; eauto|exact H].
  - cbn [strip_members] in *. destruct (strip_string s) as [r0|]; [|discriminate].
    destruct (skip_ws r0) as [|b r1]; [discriminate|]. destruct (is b c_colon); [|discriminate].
    destruct (strip_value f (skip_ws r1)) as [r2|] eqn:Ev; [|discriminate].
    rewrite (IHv _ _ Ev f' Hle). destruct (skip_ws r2) as [|b2 r3]; [discriminate|].
    destruct (is b2 c_comma); [eapply IHm; eauto|exact H].
Qed.

(* ---------- the grammar is accepted ---------- *)
Scheme jvalue_mind := Minimality for jvalue Sort Prop
  with jelems_mind := Minimality for jelems Sort Prop
  with jmembers_mind := Minimality for jmembers Sort Prop.
Combined Scheme json_mutind from jvalue_mind, jelems_mind, jmembers_mind.

Definition econt (k : nat) (rest : list byte) : option (list byte) :=
  match rest with
  | b :: r1 => if is b c_comma then strip_elems k (skip_ws r1) else if is b c_rbrack then Some r1 else None
  | [] => None
  end.
Definition mcont (k : nat) (rest : list byte) : option (list byte) :=
  match rest with
  | b :: r1 => if is b c_comma then strip_members k (skip_ws r1) else if is b c_rbrace then Some r1 else None
  | [] => None
  end.

Definition head_ok (v : list byte) : Prop :=
  match v with b :: _ => is_ws b = false /\ is b c_rbrack = false /\ is b c_rbrace = false | [] => False end.
Lemma head_ok_nonws v : head_ok v -> head_nonws v.
Proof. destruct v; cbn; tauto. Qed.
Definition starts_ok (p : list byte) : Prop := exists w v t, ws w /\ head_ok v /\ p = w ++ v ++ t.
Lemma starts_ok_skip p rest : starts_ok p -> exists b t, skip_ws (p ++ rest) = b :: t /\ is b c_rbrack = false /\ is b c_rbrace = false.
Proof.
  intros (w & v & t & Hw & Hv & ->). rewrite <- !app_assoc, skip_ws_app by auto.
  destruct v as [|b v']; [contradiction|]. destruct Hv as (H1 & H2 & H3). cbn [app]. rewrite skip_ws_head by auto. eauto.
Qed.

Definition CV (v : list byte) : Prop :=
  head_ok v /\ forall r fuel, (2 * length v <= fuel)%nat -> delim_or_end r = true -> strip_value fuel (v ++ r) = Some r.
Definition CE (p : list byte) : Prop :=
  starts_ok p /\ forall k rest, head_nonws rest -> delim_or_end rest = true ->
    exists k', (k <= k')%nat /\ strip_elems (2 * length p + 1 + k) (skip_ws (p ++ rest)) = econt k' rest.
Definition CM (p : list byte) : Prop :=
  starts_ok p /\ forall k rest, head_nonws rest -> delim_or_end rest = true ->
    exists k', (k <= k')%nat /\ strip_members (2 * length p + 1 + k) (skip_ws (p ++ rest)) = mcont k' rest.

Lemma CV_literal lit : (lit = lit_null \/ lit = lit_true \/ lit = lit_false) -> CV lit.
Proof.
  intros H. split; [destruct H as [->|[->| ->]]; repeat split|].
  intros r fuel Hf _. destruct fuel as [|f]; [destruct H as [->|[->| ->]]; unfold lit_null, lit_true, lit_false in Hf; cbn [length] in Hf; lia|].
  pose proof (strip_prefix_app lit r) as Hp.
  destruct H as [->|[->| ->]]; unfold lit_null, lit_true, lit_false in *; cbn [app strip_value] in *; eval_is; cbv iota; exact Hp.
Qed.

Lemma numhead_more b : is_digit b = true \/ b = c_minus ->
  is b c_lbrack = false /\ is b c_lbrace = false /\ is b c_quote = false /\ is b c_rbrack = false /\ is b c_rbrace = false.
Proof.
  intros [H | ->]; [|repeat split; reflexivity]. apply is_digit_b2n in H.
  rewrite !is_b2n_false by (cbn; lia). repeat split.
Qed.

Lemma ws_head_delim w rest : ws w -> delim_or_end rest = true -> delim_or_end (w ++ rest) = true.
Proof. apply delim_ws_app. Qed.

Theorem grammar_accepted : (forall v, jvalue v -> CV v) /\ (forall p, jelems p -> CE p) /\ (forall p, jmembers p -> CM p).
Proof.
  apply json_mutind.
  - apply CV_literal; auto.
  - apply CV_literal; auto.
  - apply CV_literal; auto.
  - (* number *)
    intros s Hn. destruct (rfc_number_head s Hn) as (b & r0 & Es & Hb).
    destruct (numhead_facts b Hb) as (Hws & Hn1 & Hn2 & Hn3 & _).
    destruct (numhead_more b Hb) as (H1 & H2 & H3 & H4 & H5).
    split; [rewrite Es; repeat split; auto|].
    intros r fuel Hf Hd. destruct fuel as [|f]; [rewrite Es in Hf; cbn [length] in Hf; lia|].
    pose proof (strip_number_complete s r Hn Hd) as Hp. rewrite Es in *. cbn [app strip_value] in *.
    rewrite H1, H2, H3, Hn1, Hn2, Hn3. exact Hp.
  - (* string *)
    intros s Hs. pose proof (strip_string_complete s) as Hp. destruct Hs as (body & Es & Hb).
    assert (Hrfc : rfc_string s) by (exists body; auto).
    split; [rewrite Es; repeat split|].
    intros r fuel Hf _. destruct fuel as [|f]; [rewrite Es in Hf; cbn [length] in Hf; lia|].
    specialize (Hp r Hrfc). rewrite Es in *. cbn [app strip_value] in *. eval_is. cbv iota. exact Hp.
  - (* [] *)
    intros w Hw. split; [repeat split|]. intros r fuel Hf _.
    destruct fuel as [|f]; [cbn [length] in Hf; lia|]. cbn [app strip_value]. eval_is. cbv iota.
    rewrite <- app_assoc, skip_ws_app by auto. cbn [app]. rewrite skip_ws_head by reflexivity. eval_is. reflexivity.
  - (* [ elems ] *)
    intros p _ [Hst IH]. split; [repeat split|]. intros r fuel Hf _.
    destruct fuel as [|f]; [cbn [length] in Hf; lia|]. cbn [app strip_value]. eval_is. cbv iota.
    rewrite <- app_assoc. cbn [app].
    destruct (starts_ok_skip p (c_rbrack :: r) Hst) as (b & t & Hsk & Hb1 & _). rewrite Hsk, Hb1, <- Hsk.
    cbn [length] in Hf. rewrite app_length in Hf. cbn [length] in Hf.
    destruct (IH (f - (2 * length p + 1))%nat (c_rbrack :: r) eq_refl eq_refl) as (k' & _ & Hk).
    replace (2 * length p + 1 + (f - (2 * length p + 1)))%nat with f in Hk by lia.
    rewrite Hk. cbn [econt]. eval_is. reflexivity.
  - (* {} *)
    intros w Hw. split; [repeat split|]. intros r fuel Hf _.
    destruct fuel as [|f]; [cbn [length] in Hf; lia|]. cbn [app strip_value]. eval_is. cbv iota.
    rewrite <- app_assoc, skip_ws_app by auto. cbn [app]. rewrite skip_ws_head by reflexivity. eval_is. reflexivity.
  - (* { members } *)
    intros p _ [Hst IH]. split; [repeat split|]. intros r fuel Hf _.
    destruct fuel as [|f]; [cbn [length] in Hf; lia|]. cbn [app strip_value]. eval_is. cbv iota.
    rewrite <- app_assoc. cbn [app].
    destruct (starts_ok_skip p (c_rbrace :: r) Hst) as (b & t & Hsk & _ & Hb1). rewrite Hsk, Hb1, <- Hsk.
    cbn [length] in Hf. rewrite app_length in Hf. cbn [length] in Hf.
    destruct (IH (f - (2 * length p + 1))%nat (c_rbrace :: r) eq_refl eq_refl) as (k' & _ & Hk).
    replace (2 * length p + 1 + (f - (2 * length p + 1)))%nat with f in Hk by lia.
    rewrite Hk. cbn [mcont]. eval_is. reflexivity.
  - (* first element *)
    intros w1 v w2 Hw1 _ [Hh IH] Hw2. split; [exists w1, v, w2; auto|].
    intros k rest Hr Hd. rewrite <- !app_assoc, (skip_ws_value w1 v _ Hw1 (head_ok_nonws _ Hh)).
    rewrite !app_length. replace (2 * (length w1 + (length v + length w2)) + 1 + k)%nat
      with (S (2 * (length w1 + (length v + length w2)) + k)) by lia.
    exists (2 * (length w1 + (length v + length w2)) + k)%nat. split; [lia|].
    cbn [strip_elems]. rewrite (IH (w2 ++ rest)) by (try lia; now apply delim_ws_app).
    rewrite skip_ws_app by auto. rewrite (skip_ws_nonws rest Hr). reflexivity.
  - (* further element *)
    intros p w1 v w2 _ [Hst IHp] Hw1 _ [Hh IHv] Hw2.
    split. { destruct Hst as (w & v0 & t & Hw & Hv0 & ->). exists w, v0, (t ++ c_comma :: w1 ++ v ++ w2). repeat split; auto. now rewrite <- !app_assoc. }
    intros k rest Hr Hd.
    destruct (IHp (2 * (1 + length w1 + length v + length w2) + k)%nat (c_comma :: w1 ++ v ++ w2 ++ rest) eq_refl eq_refl)
      as (k1 & Hk1 & Hrun).
    exists (k1 - 1)%nat. split; [lia|].
    replace (2 * length (p ++ c_comma :: w1 ++ v ++ w2) + 1 + k)%nat
      with (2 * length p + 1 + (2 * (1 + length w1 + length v + length w2) + k))%nat
      by (rewrite !app_length; cbn [length]; rewrite !app_length; lia).
    replace ((p ++ c_comma :: w1 ++ v ++ w2) ++ rest) with (p ++ c_comma :: w1 ++ v ++ w2 ++ rest)
      by (repeat (rewrite <- ?app_assoc; cbn [app]); reflexivity).
    rewrite Hrun. cbn [econt]. eval_is. cbv iota.
    rewrite (skip_ws_value w1 v _ Hw1 (head_ok_nonws _ Hh)).
    destruct k1 as [|k1]; [lia|]. cbn [strip_elems]. replace (S k1 - 1)%nat with k1 by lia.
    rewrite (IHv (w2 ++ rest)) by (try lia; now apply delim_ws_app).
    rewrite skip_ws_app by auto. rewrite (skip_ws_nonws rest Hr). reflexivity.
  - (* first member *)
    intros w1 k w2 w3 v w4 Hw1 Hk Hw2 Hw3 _ [Hh IH] Hw4.
    assert (Hkh : head_ok k) by (destruct Hk as (body & -> & _); repeat split).
    split; [exists w1, k, (w2 ++ c_colon :: w3 ++ v ++ w4); auto|].
    intros k0 rest Hr Hd.
    replace ((w1 ++ k ++ w2 ++ c_colon :: w3 ++ v ++ w4) ++ rest) with (w1 ++ k ++ w2 ++ c_colon :: w3 ++ v ++ w4 ++ rest)
      by (repeat (rewrite <- ?app_assoc; cbn [app]); reflexivity).
    rewrite (skip_ws_value w1 k _ Hw1 (head_ok_nonws _ Hkh)).
    set (n := length (w1 ++ k ++ w2 ++ c_colon :: w3 ++ v ++ w4)).
    assert (Hn : (length v <= n)%nat) by (subst n; rewrite !app_length; cbn [length]; rewrite !app_length; lia).
    replace (2 * n + 1 + k0)%nat with (S (2 * n + k0)) by lia. exists (2 * n + k0)%nat. split; [lia|].
    cbn [strip_members]. rewrite (strip_string_complete k _ Hk).
    rewrite skip_ws_app by auto. rewrite skip_ws_head by reflexivity. eval_is. cbv iota.
    rewrite (skip_ws_value w3 v _ Hw3 (head_ok_nonws _ Hh)).
    rewrite (IH (w4 ++ rest)) by (try lia; now apply delim_ws_app).
    rewrite skip_ws_app by auto. rewrite (skip_ws_nonws rest Hr). reflexivity.
  - (* further member *)
    intros p w1 k w2 w3 v w4 _ [Hst IHp] Hw1 Hk Hw2 Hw3 _ [Hh IHv] Hw4.
    assert (Hkh : head_ok k) by (destruct Hk as (body & -> & _); repeat split).
    split. { destruct Hst as (w & v0 & t & Hw & Hv0 & ->). exists w, v0, (t ++ c_comma :: w1 ++ k ++ w2 ++ c_colon :: w3 ++ v ++ w4).
             repeat split; auto. now rewrite <- !app_assoc. }
    intros k0 rest Hr Hd.
    set (m := (c_comma :: w1 ++ k ++ w2 ++ c_colon :: w3 ++ v ++ w4)).
    assert (Hm : (length v + 1 <= length m)%nat) by (subst m; cbn [length]; rewrite !app_length; cbn [length]; rewrite !app_length; lia).
    destruct (IHp (2 * length m + k0)%nat (m ++ rest) eq_refl eq_refl) as (k1 & Hk1 & Hrun).
    exists (k1 - 1)%nat. split; [lia|].
    replace (2 * length (p ++ m) + 1 + k0)%nat with (2 * length p + 1 + (2 * length m + k0))%nat by (rewrite app_length; lia).
    rewrite <- app_assoc, Hrun. subst m. cbn [app mcont]. eval_is. cbv iota.
    replace ((w1 ++ k ++ w2 ++ c_colon :: w3 ++ v ++ w4) ++ rest) with (w1 ++ k ++ w2 ++ c_colon :: w3 ++ v ++ w4 ++ rest)
      by (repeat (rewrite <- ?app_assoc; cbn [app]); reflexivity).
    rewrite (skip_ws_value w1 k _ Hw1 (head_ok_nonws _ Hkh)).
    destruct k1 as [|k1]; [lia|]. cbn [strip_members]. replace (S k1 - 1)%nat with k1 by lia.
    rewrite (strip_string_complete k _ Hk).
    rewrite skip_ws_app by auto. rewrite skip_ws_head by reflexivity. eval_is. cbv iota.
    rewrite (skip_ws_value w3 v _ Hw3 (head_ok_nonws _ Hh)).
    rewrite (IHv (w4 ++ rest)) by (try lia; now apply delim_ws_app).
    rewrite skip_ws_app by auto. rewrite (skip_ws_nonws rest Hr). reflexivity.
Qed.

Theorem is_json_complete s : json_text s -> is_json s = true.
Proof.
  intros (w1 & v & w2 & -> & Hw1 & Hv & Hw2). destruct (proj1 grammar_accepted v Hv) as [Hh HV].
  unfold is_json. rewrite (skip_ws_value w1 v _ Hw1 (head_ok_nonws _ Hh)).
  assert (Hd : delim_or_end w2 = true) by (rewrite <- (app_nil_r w2); now apply delim_ws_app).
  rewrite HV; [|rewrite !app_length; lia|exact Hd].
  rewrite <- (app_nil_r w2), skip_ws_app by auto. reflexivity.
Qed.

Theorem is_json_iff s : is_json s = true <-> json_text s.
Proof. split; [apply is_json_sound|apply is_json_complete]. Qed.
