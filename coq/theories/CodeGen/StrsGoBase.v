(* Hand-written total models of the two library functions that
   internal/strs/strings.go (TrimEnumPrefix) calls and srcmodel_strs translates
   as external calls.  Definitions only.  Imported by the generated Gen/StrsGo.v.

   [unicode_ToLower] is exact for 0 <= r < 256, the only arguments strings.go
   passes (rune(s[0]) of a byte): ASCII 'A'..'Z' and the Latin-1 capitals
   U+00C0..U+00D6, U+00D8..U+00DE map to r+32, everything else (including
   U+00B5, U+00DF, U+00FF) to itself.  The correspondence run compares it with
   unicode.ToLower on all 256 values (op go_lower).
   [strings_TrimLeft] trims bytes; that is Go's strings.TrimLeft whenever the
   cutset consists of ASCII bytes (strings.go passes "_"). *)
From Coq Require Import List ZArith Bool.
Import ListNotations.
Open Scope Z_scope.

Definition unicode_ToLower (r : Z) : Z :=
  if ((65 <=? r) && (r <=? 90)) || ((192 <=? r) && (r <=? 214)) || ((216 <=? r) && (r <=? 222))
  then r + 32 else r.

Fixpoint strings_TrimLeft (s cut : list Z) : list Z :=
  match s with
  | c :: r => if existsb (Z.eqb c) cut then strings_TrimLeft r cut else s
  | [] => []
  end.
