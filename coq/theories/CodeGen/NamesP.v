(* Proofs about CodeGen/NamesModel.v *)
From Coq Require Import List NArith ZArith Bool Lia.
From Coq Require Import ZifyBool ZifyNat ZifyN.
From PB Require Import Base.PBytes CodeGen.NamesModel.
Import ListNotations.
Open Scope N_scope.
Ltac Zify.zify_post_hook ::= Z.div_mod_to_equations.

Lemma b2n_inj a b : b2n a = b2n b -> a = b.
Proof. intros H. rewrite <- (n2b_b2n a), <- (n2b_b2n b). now rewrite H. Qed.

Lemma bytes_eqb_eq a : forall b, bytes_eqb a b = true <-> a = b.
Proof.
  induction a as [|x a IH]; intros [|y b]; cbn [bytes_eqb]; try (split; [discriminate|discriminate]); [tauto|].
  rewrite andb_true_iff, IH, N.eqb_eq. split.
  - intros [H ->]. now rewrite (b2n_inj _ _ H).
  - intros [= -> ->]. auto.
Qed.
Lemma bytes_eqb_refl a : bytes_eqb a a = true.
Proof. now apply bytes_eqb_eq. Qed.
Lemma bytes_eqb_neq a b : bytes_eqb a b = false <-> a <> b.
Proof.
  destruct (bytes_eqb a b) eqn:E.
  - apply bytes_eqb_eq in E. split; [discriminate|congruence].
  - split; [|reflexivity]. intros _ H. apply bytes_eqb_eq in H. congruence.
Qed.

(* ---------- byte classes ---------- *)
Ltac cls := unfold is_letter_digit_b, is_letter_b, is_lower, is_upper, is_digit, is_us, is_dot,
              to_upper, to_lower, ch_us, ch_X in *.

Lemma b2n_to_upper c : is_lower c = true -> b2n (to_upper c) = b2n c - 32.
Proof. cls. intros H. pose proof (b2n_lt c). rewrite b2n_n2b; lia. Qed.
Lemma b2n_to_lower c : is_upper c = true -> b2n (to_lower c) = b2n c + 32.
Proof. cls. intros H. pose proof (b2n_lt c). rewrite b2n_n2b; lia. Qed.

Lemma to_upper_is_upper c : is_lower c = true -> is_upper (to_upper c) = true.
Proof. intros H. pose proof (b2n_to_upper c H) as E. cls. lia. Qed.
Lemma to_lower_is_lower c : is_upper c = true -> is_lower (to_lower c) = true.
Proof. intros H. pose proof (b2n_to_lower c H) as E. cls. lia. Qed.
Lemma to_lower_to_upper c : is_lower c = true -> to_lower (to_upper c) = c.
Proof.
  intros H. apply b2n_inj. rewrite b2n_to_lower by now apply to_upper_is_upper.
  rewrite b2n_to_upper by assumption. cls. lia.
Qed.

Lemma b2n_ch_us : b2n ch_us = 95. Proof. reflexivity. Qed.
Lemma b2n_ch_X : b2n ch_X = 88. Proof. reflexivity. Qed.

Lemma is_us_eq c : is_us c = true -> c = ch_us.
Proof. intros H. apply b2n_inj. rewrite b2n_ch_us. unfold is_us in H. lia. Qed.

(* ---------- GoCamelCase ---------- *)
Lemma camel_aux_ident : forall s start inword,
  forallb is_letter_digit_b s = true ->
  forallb is_letter_digit_b (camel_aux start inword s) = true.
Proof.
  induction s as [|c r IH]; intros start inword H; [reflexivity|].
  cbn [forallb] in H. apply andb_true_iff in H as [Hc Hr].
  cbn [camel_aux].
  assert (Hup : is_lower c = true -> is_letter_digit_b (to_upper c) = true).
  { intros L. pose proof (to_upper_is_upper c L). cls. lia. }
  assert (HX : is_letter_digit_b ch_X = true) by reflexivity.
  assert (HU : is_letter_digit_b ch_us = true) by reflexivity.
  repeat match goal with
  | |- context [if ?b then _ else _] => destruct b eqn:?
  end; cbn [forallb]; rewrite ?IH by assumption; rewrite ?Hc, ?HX, ?HU, ?Hup by assumption; reflexivity.
Qed.

Theorem camel_exported_identifier s :
  proto_ident s = true ->
  exists c r, go_camel_case s = c :: r /\ is_upper c = true /\
              forallb is_letter_digit_b (c :: r) = true.
Proof.
  destruct s as [|c r]; [discriminate|]. cbn [proto_ident]. intros H.
  apply andb_true_iff in H as [Hc Hr].
  assert (Hall : forallb is_letter_digit_b (go_camel_case (c :: r)) = true).
  { apply camel_aux_ident. cbn [forallb]. rewrite Hr, andb_true_r.
    unfold is_letter_digit_b. now rewrite Hc. }
  unfold go_camel_case in *. cbn [camel_aux andb] in *.
  assert (Hd : is_dot c = false) by (cls; lia).
  rewrite Hd in *. cbn [andb] in *.
  destruct (is_us c) eqn:Eu; cbn [andb] in *.
  - exists ch_X, (camel_aux false false r). repeat split; assumption.
  - assert (Hg : is_digit c = false) by (cls; lia). rewrite Hg in *.
    destruct (is_lower c) eqn:El.
    + exists (to_upper c), (camel_aux false true r). repeat split; [|assumption].
      now apply to_upper_is_upper.
    + exists c, (camel_aux false true r). repeat split; [|assumption]. cls. lia.
Qed.

(* ---------- JSONCamelCase / JSONSnakeCase ---------- *)
Lemma json_camel_no_us : forall s w, forallb (fun c => negb (is_us c)) (json_camel_aux w s) = true.
Proof.
  induction s as [|c r IH]; intros w; [reflexivity|]. cbn [json_camel_aux].
  destruct (is_us c) eqn:Eu; [apply IH|]. cbn [forallb]. rewrite IH, andb_true_r.
  destruct (w && is_lower c) eqn:E; [|now rewrite Eu].
  apply andb_true_iff in E as [_ L]. pose proof (b2n_to_upper c L). cls. lia.
Qed.

Lemma snake_ok_of_no_us : forall t,
  forallb (fun c => negb (is_us c)) t = true -> snake_ok (json_snake_case t) = true.
Proof.
  induction t as [|c r IH]; intros H; [reflexivity|].
  cbn [forallb] in H. apply andb_true_iff in H as [Hc Hr]. specialize (IH Hr).
  cbn [json_snake_case]. destruct (is_upper c) eqn:U.
  - pose proof (to_lower_is_lower c U) as L. cbn [snake_ok next_is_lower]. rewrite IH, L.
    assert (is_upper (to_lower c) = false) by (cls; lia).
    assert (is_us (to_lower c) = false) by (cls; lia).
    assert (is_upper ch_us = false) by reflexivity. assert (is_us ch_us = true) by reflexivity.
    repeat match goal with H : _ = _ |- _ => rewrite H end. reflexivity.
  - cbn [snake_ok]. rewrite IH, U. apply negb_true_iff in Hc. rewrite Hc. reflexivity.
Qed.

Lemma snake_camel_forward : forall n s, (length s <= n)%nat -> snake_ok s = true ->
  json_snake_case (json_camel_aux false s) = s.
Proof.
  induction n as [|n IH]; intros s Hl H.
  - destruct s; [reflexivity|cbn in Hl; lia].
  - destruct s as [|c r]; [reflexivity|]. cbn [length] in Hl.
    cbn [snake_ok] in H. apply andb_true_iff in H as [H Hr]. apply andb_true_iff in H as [Hu Hn].
    apply negb_true_iff in Hu. cbn [json_camel_aux]. destruct (is_us c) eqn:Eu.
    + destruct r as [|d r']; [discriminate|]. cbn [next_is_lower] in Hn.
      assert (Ed : is_us d = false) by (cls; lia).
      cbn [json_camel_aux]. rewrite Ed, Hn. cbn [andb json_snake_case].
      rewrite (to_upper_is_upper d Hn), (to_lower_to_upper d Hn).
      cbn [snake_ok] in Hr. apply andb_true_iff in Hr as [_ Hr'].
      cbn [length] in Hl. rewrite IH by (assumption || lia).
      now rewrite (is_us_eq c Eu).
    + cbn [andb json_snake_case]. rewrite Hu, IH by (assumption || lia). reflexivity.
Qed.

Theorem snake_camel_inverse s :
  json_snake_case (json_camel_case s) = s <-> snake_ok s = true.
Proof.
  split.
  - intros H. rewrite <- H. apply snake_ok_of_no_us, json_camel_no_us.
  - apply (snake_camel_forward (length s)). lia.
Qed.

(* what marshalFieldMask accepts *)
Theorem fieldmask_accepts_iff s :
  fst (fieldmask_path s) = 0 <-> fullname_valid s = true /\ snake_ok s = true.
Proof.
  unfold fieldmask_path. destruct (fullname_valid s); cbn [negb].
  - destruct (bytes_eqb s (json_snake_case (json_camel_case s))) eqn:E; cbn [fst].
    + apply bytes_eqb_eq in E. symmetry in E. apply snake_camel_inverse in E. tauto.
    + apply bytes_eqb_neq in E. split; [discriminate|]. intros [_ H].
      apply snake_camel_inverse in H. congruence.
  - cbn [fst]. split; [discriminate|]. intros [H _]. discriminate.
Qed.

Theorem fieldmask_accepted_roundtrip s out :
  fieldmask_path s = (0, out) -> out = json_camel_case s /\ json_snake_case out = s.
Proof.
  unfold fieldmask_path. destruct (fullname_valid s); cbn [negb]; [|discriminate].
  destruct (bytes_eqb s (json_snake_case (json_camel_case s))) eqn:E; [|discriminate].
  intros [= <-]. apply bytes_eqb_eq in E. auto.
Qed.

(* ---------- GoSanitized ---------- *)
Lemma keyword_not_us_first m : is_keyword (95 :: m) = false.
Proof. reflexivity. Qed.

Section SanitizedP.
  Variable u_letter u_digit : N -> bool.
  (* the one fact about unicode.IsLetter that the result depends on:
     U+FFFD (what DecodeRuneInString returns for "") is not a letter *)
  Hypothesis rune_error_not_letter : u_letter rune_error = false.

  Lemma sanitize_rune_part r : ident_part u_letter u_digit (sanitize_rune u_letter u_digit r) = true.
  Proof.
    unfold sanitize_rune, ident_part. destruct (u_letter r || u_digit r) eqn:E.
    - apply orb_true_iff in E as [-> | ->]; [reflexivity|]. now rewrite orb_true_r.
    - now rewrite N.eqb_refl, orb_true_r.
  Qed.

  Theorem sanitized_valid_nonkeyword rs :
    go_identifier u_letter u_digit (go_sanitized_runes u_letter u_digit rs) = true.
  Proof.
    unfold go_sanitized_runes.
    set (m := map (sanitize_rune u_letter u_digit) rs).
    assert (Hall : forallb (ident_part u_letter u_digit) m = true).
    { apply forallb_forall. intros x Hx. apply in_map_iff in Hx as [r [<- _]]. apply sanitize_rune_part. }
    destruct (is_keyword m || negb (u_letter match m with r :: _ => r | [] => rune_error end)) eqn:E.
    - cbn [go_identifier]. rewrite Hall, keyword_not_us_first. unfold ident_start.
      now rewrite N.eqb_refl, orb_true_r.
    - apply orb_false_iff in E as [Ek El]. apply negb_false_iff in El.
      destruct m as [|r t]; [congruence|]. cbn [go_identifier]. cbn [forallb] in Hall.
      apply andb_true_iff in Hall as [_ Ht]. rewrite Ht, Ek. unfold ident_start. now rewrite El.
  Qed.
End SanitizedP.

(* ---------- UTF-8: decode after encode ---------- *)
Definition valid_rune (r : N) : Prop := r < 55296 \/ (57344 <= r /\ r < 1114112).

Lemma b2n_n2b' n : n < 256 -> b2n (n2b n) = n.
Proof. apply b2n_n2b. Qed.

Lemma decode_encode_rune r rest :
  valid_rune r -> decode_rune (encode_rune r ++ rest) = (r, length (encode_rune r)).
Proof.
  intros V. unfold encode_rune.
  destruct (r <? 128) eqn:E1.
  { cbn [app length decode_rune]. rewrite b2n_n2b by lia. now rewrite E1. }
  destruct (r <? 2048) eqn:E2.
  { cbn [app length decode_rune].
    rewrite !b2n_n2b by lia.
    replace (192 + r / 64 <? 128) with false by lia.
    replace (192 + r / 64 <? 194) with false by lia.
    replace (192 + r / 64 <? 224) with true by lia.
    unfold cont. replace ((128 <=? 128 + r mod 64) && (128 + r mod 64 <? 192)) with true by lia.
    f_equal. lia. }
  destruct (r <? 65536) eqn:E3.
  { cbn [app length decode_rune].
    rewrite !b2n_n2b by lia.
    replace (224 + r / 4096 <? 128) with false by lia.
    replace (224 + r / 4096 <? 194) with false by lia.
    replace (224 + r / 4096 <? 224) with false by lia.
    replace (224 + r / 4096 <? 240) with true by lia.
    unfold cont.
    assert (H1 : ((if 224 + r / 4096 =? 224 then 160 else 128) <=? 128 + (r / 64) mod 64) = true).
    { destruct (224 + r / 4096 =? 224) eqn:Q; lia. }
    assert (H2 : (128 + (r / 64) mod 64 <? (if 224 + r / 4096 =? 237 then 160 else 192)) = true).
    { destruct (224 + r / 4096 =? 237) eqn:Q; [|lia]. destruct V as [V|V]; lia. }
    rewrite H1, H2.
    replace ((128 <=? 128 + r mod 64) && (128 + r mod 64 <? 192)) with true by lia.
    cbn [andb]. f_equal. lia. }
  cbn [app length decode_rune].
  assert (R : r < 1114112) by (destruct V; lia).
  rewrite !b2n_n2b by lia.
  replace (240 + r / 262144 <? 128) with false by lia.
  replace (240 + r / 262144 <? 194) with false by lia.
  replace (240 + r / 262144 <? 224) with false by lia.
  replace (240 + r / 262144 <? 240) with false by lia.
  replace (240 + r / 262144 <? 245) with true by lia.
  unfold cont.
  assert (H1 : ((if 240 + r / 262144 =? 240 then 144 else 128) <=? 128 + (r / 4096) mod 64) = true).
  { destruct (240 + r / 262144 =? 240) eqn:Q; lia. }
  assert (H2 : (128 + (r / 4096) mod 64 <? (if 240 + r / 262144 =? 244 then 144 else 192)) = true).
  { destruct (240 + r / 262144 =? 244) eqn:Q; lia. }
  rewrite H1, H2.
  replace ((128 <=? 128 + (r / 64) mod 64) && (128 + (r / 64) mod 64 <? 192)) with true by lia.
  replace ((128 <=? 128 + r mod 64) && (128 + r mod 64 <? 192)) with true by lia.
  cbn [andb]. f_equal. lia.
Qed.

Lemma encode_rune_len r : (1 <= length (encode_rune r) <= 4)%nat.
Proof.
  unfold encode_rune. destruct (r <? 128); [cbn; lia|]. destruct (r <? 2048); [cbn; lia|].
  destruct (r <? 65536); cbn; lia.
Qed.

Lemma decode_rune_valid bs : valid_rune (fst (decode_rune bs)).
Proof.
  assert (VE : valid_rune rune_error) by (unfold valid_rune, rune_error; lia).
  unfold decode_rune. destruct bs as [|b0 r]; [exact VE|].
  pose proof (b2n_lt b0).
  destruct (b2n b0 <? 128) eqn:E1; [cbn [fst]; unfold valid_rune; lia|].
  destruct (b2n b0 <? 194) eqn:E2; [exact VE|].
  destruct (b2n b0 <? 224) eqn:E3.
  { destruct r as [|b1 r]; [exact VE|]. pose proof (b2n_lt b1). unfold cont.
    destruct ((128 <=? b2n b1) && (b2n b1 <? 192)) eqn:C; [|exact VE].
    cbn [fst]. unfold valid_rune. lia. }
  destruct (b2n b0 <? 240) eqn:E4.
  { destruct r as [|b1 [|b2 r]]; try exact VE. pose proof (b2n_lt b1). pose proof (b2n_lt b2). unfold cont.
    match goal with |- context [if ?c then _ else _] => destruct c eqn:C end; [|exact VE].
    cbn [fst]. unfold valid_rune.
    destruct (b2n b0 =? 224) eqn:Q1; destruct (b2n b0 =? 237) eqn:Q2; lia. }
  destruct (b2n b0 <? 245) eqn:E5; [|exact VE].
  destruct r as [|b1 [|b2 [|b3 r]]]; try exact VE.
  pose proof (b2n_lt b1). pose proof (b2n_lt b2). pose proof (b2n_lt b3). unfold cont.
  match goal with |- context [if ?c then _ else _] => destruct c eqn:C end; [|exact VE].
  cbn [fst]. unfold valid_rune.
  destruct (b2n b0 =? 240) eqn:Q1; destruct (b2n b0 =? 244) eqn:Q2; lia.
Qed.

Lemma decode_runes_fuel_valid : forall fuel bs, Forall valid_rune (decode_runes_fuel fuel bs).
Proof.
  induction fuel as [|f IH]; intros bs; cbn [decode_runes_fuel]; [constructor|].
  destruct bs as [|b t]; [constructor|].
  pose proof (decode_rune_valid (b :: t)) as V.
  destruct (decode_rune (b :: t)) as [r n]. constructor; [exact V|apply IH].
Qed.

Lemma decode_runes_fuel_encode : forall rs fuel,
  Forall valid_rune rs -> (length (encode_runes rs) <= fuel)%nat ->
  decode_runes_fuel fuel (encode_runes rs) = rs.
Proof.
  induction rs as [|r t IH]; intros fuel V L.
  - destruct fuel; reflexivity.
  - inversion V as [|? ? Vr Vt]; subst.
    unfold encode_runes in *. cbn [flat_map] in *. rewrite app_length in L.
    pose proof (encode_rune_len r) as Lr.
    destruct fuel as [|f]; [lia|]. cbn [decode_runes_fuel].
    destruct (encode_rune r ++ flat_map encode_rune t) as [|b0 bt] eqn:EB.
    { apply (f_equal (@length _)) in EB. rewrite app_length in EB. cbn in EB. lia. }
    rewrite <- EB. rewrite (decode_encode_rune r _ Vr).
    replace (Nat.max 1 (length (encode_rune r))) with (length (encode_rune r)) by lia.
    rewrite skipn_app, skipn_all, Nat.sub_diag. cbn [app skipn].
    f_equal. apply IH; [exact Vt|lia].
Qed.

Lemma decode_encode_runes rs : Forall valid_rune rs -> decode_runes (encode_runes rs) = rs.
Proof. intros V. apply decode_runes_fuel_encode; [exact V|apply Nat.le_refl]. Qed.

Section SanitizedBytesP.
  Variable u_letter u_digit : N -> bool.
  Hypothesis rune_error_not_letter : u_letter rune_error = false.

  (* the statement on strings: ranging over the result of GoSanitized yields a
     Go identifier, for every byte string (valid UTF-8 or not) *)
  Theorem sanitized_valid_nonkeyword_bytes s :
    go_identifier u_letter u_digit (decode_runes (go_sanitized u_letter u_digit s)) = true.
  Proof.
    unfold go_sanitized. rewrite decode_encode_runes.
    - now apply sanitized_valid_nonkeyword.
    - unfold go_sanitized_runes.
      assert (V95 : valid_rune 95) by (unfold valid_rune; lia).
      assert (VM : Forall valid_rune (map (sanitize_rune u_letter u_digit) (decode_runes s))).
      { apply Forall_forall. intros x Hx. apply in_map_iff in Hx as [r [<- Hr]].
        unfold sanitize_rune. destruct (u_letter r || u_digit r); [|exact V95].
        pose proof (decode_runes_fuel_valid (length s) s) as F. rewrite Forall_forall in F. now apply F. }
      match goal with |- context [if ?c then _ else _] => destruct c end; [constructor; assumption|exact VM].
  Qed.
End SanitizedBytesP.
