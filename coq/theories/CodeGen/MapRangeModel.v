(* Semantics of the loop shapes that X-MAPRANGE (srcmodel maprange) assigns to
   `for k := range m` statements, as functions of the iteration order: [order]
   is the list of the map's keys in the order this particular execution visits
   them (a permutation of the key set).  Definitions only. *)
From Coq Require Import List Bool String.
From PB Require Import Gen.MapRangeSites.
Import ListNotations.

Section Sort.
  Context {A K : Type} (key : A -> K) (ltb : K -> K -> bool).
  Fixpoint insert_by (x : A) (l : list A) : list A :=
    match l with
    | [] => [x]
    | y :: t => if ltb (key x) (key y) then x :: y :: t else y :: insert_by x t
    end.
  (* what sort.Slice / sort.Strings compute when the keys are distinct *)
  Definition sort_by (l : list A) : list A := fold_right insert_by [] l.
End Sort.

(* CollectThenSort:  for k := range m { if guard(k) { s = append(s, f(k)) } }; sort(s) *)
Definition collect_then_sort {K A KS} (guard : K -> bool) (f : K -> A) (key : A -> KS)
    (ltb : KS -> KS -> bool) (order : list K) : list A :=
  sort_by key ltb (map f (filter guard order)).

(* InsertIntoMapOrSet, set form:  for k := range m { if guard(k) { set[f(k)] = true } } *)
Definition insert_into_set {K X} (guard : K -> bool) (f : K -> X) (order : list K) : list X :=
  fold_left (fun s k => if guard k then f k :: s else s) order [].
Definition set_mem {X} (eqb : X -> X -> bool) (s : list X) (x : X) : bool := existsb (eqb x) s.

(* InsertIntoMapOrSet, map form (indexed by the range key):
   for k := range m { if guard(k) { out[k] = g(k) } } *)
Definition insert_into_map {K V} (guard : K -> bool) (g : K -> V) (order : list K) : list (K * V) :=
  fold_left (fun m k => if guard k then (k, g k) :: m else m) order [].
Fixpoint map_lookup {K V} (eqb : K -> K -> bool) (m : list (K * V)) (k : K) : option V :=
  match m with
  | [] => None
  | (k', v) :: t => if eqb k k' then Some v else map_lookup eqb t k
  end.

(* OrderInsensitiveFold:  for k := range m { acc = op(acc, f(k)) }   (sum, max, any, all) *)
Definition order_fold {K B} (op : B -> B -> B) (f : K -> B) (init : B) (order : list K) : B :=
  fold_left (fun acc k => op acc (f k)) order init.

(* ReturnError:  for k := range m { if bad(k) { return ..., fmt.Errorf(..k..) } } :
   the first bad key in iteration order, if any *)
Definition return_error {K} (bad : K -> bool) (order : list K) : option K := find bad order.
Definition is_some {A} (o : option A) : bool := match o with Some _ => true | None => false end.

(* ---------- the site table ---------- *)
Definition safe_shape (s : shape) : bool :=
  match s with
  | CollectThenSort | InsertIntoMapOrSet | OrderInsensitiveFold | ReturnError => true
  | Other => false
  end.

(* Sites of shape Other that are accepted, with the reason.
   Options.New, `for filename, importPath := range importPaths`: groups file names by
   Go import path (packageFiles[importPath] = append(...)); the groups' internal
   order depends on the iteration order, and their only reader is the next loop
   (ReturnError: "Go package ... has inconsistent names"), so only the *text* of an
   error returned by Options.New depends on it.  That error goes to stderr, never
   into the CodeGeneratorResponse. *)
Definition allowed_other (s : site) : bool :=
  (s_file s =? "compiler/protogen/protogen.go")%string &&
  (s_func s =? "Options.New")%string && (s_expr s =? "importPaths")%string.

Definition site_ok (s : site) : bool :=
  negb (s_ptrkey s) && (safe_shape (s_shape s) || allowed_other s).

(* the only syntactic nondeterminism sources tolerated: map types keyed by
   pointers that are declared but (by [site_ok]) never ranged over *)
Definition nondet_ok (n : nondet) : bool := (n_kind n =? "pointer_keyed_map")%string.

(* ---------- serialisation calls ----------
   A Marshal call in the generator is accepted when it is a proto.MarshalOptions
   literal with Deterministic: true, or when it is one of these, by name:
   - protogen.run, proto.Marshal(resp): CodeGeneratorResponse and everything below it
     has no map field;
   - Options.New, proto.Marshal(f.Proto): the bytes are unmarshalled again at once (with
     the extension resolver) and never leave the function;
   - GeneratedFile.metaFile, prototext.Marshal(info): GeneratedCodeInfo has no map field. *)
Definition allowed_marshal (m : marshal_site) : bool :=
  (m_file m =? "compiler/protogen/protogen.go")%string &&
  (((m_func m =? "run")%string && (m_callee m =? "proto.Marshal")%string) ||
   ((m_func m =? "Options.New")%string && (m_callee m =? "proto.Marshal")%string) ||
   ((m_func m =? "GeneratedFile.metaFile")%string && (m_callee m =? "prototext.Marshal")%string)).
Definition marshal_ok (m : marshal_site) : bool := m_deterministic m || allowed_marshal m.
