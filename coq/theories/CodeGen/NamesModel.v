(* Model of internal/strs/strings.go (GoCamelCase, GoSanitized, JSONCamelCase,
   JSONSnakeCase), of protoreflect.FullName.IsValid and of the FieldMask path
   check of encoding/protojson (marshalFieldMask).  Definitions only.

   Go strings are byte strings: [list byte].  Runes are [N].  GoSanitized is
   the only function that looks at runes; unicode.IsLetter / unicode.IsDigit
   are parameters (an oracle).  For execution against the implementation the
   oracle is a finite table supplied with the test case for the non-ASCII
   runes of the input and the usual classification below 128. *)
From Coq Require Import List NArith Bool.
From PB Require Import Base.PBytes.
Import ListNotations.
Open Scope N_scope.

(* ---------- ASCII classes on bytes (strs.isASCIILower/Upper/Digit) ---------- *)
Definition is_lower (c : byte) : bool := (97 <=? b2n c) && (b2n c <=? 122).
Definition is_upper (c : byte) : bool := (65 <=? b2n c) && (b2n c <=? 90).
Definition is_digit (c : byte) : bool := (48 <=? b2n c) && (b2n c <=? 57).
Definition is_us (c : byte) : bool := b2n c =? 95.
Definition is_dot (c : byte) : bool := b2n c =? 46.
(* c -= 'a' - 'A'  (only applied to lower-case letters) *)
Definition to_upper (c : byte) : byte := n2b (b2n c - 32).
(* c += 'a' - 'A'  (only applied to upper-case letters) *)
Definition to_lower (c : byte) : byte := n2b (b2n c + 32).
Definition ch_us : byte := "_"%byte.
Definition ch_X : byte := "X"%byte.

Definition next_is_lower (r : list byte) : bool :=
  match r with d :: _ => is_lower d | [] => false end.

(* ---------- GoCamelCase ----------
   The Go loop keeps an index i, looks behind (s[i-1] == '.') and ahead
   (s[i+1]) and, in its default arm, consumes the run of lower-case letters that
   follows.  Here: [start] = (i == 0 || s[i-1] == '.'); [inword] = the previous
   byte was emitted by the default arm or by its inner loop, so a lower-case
   letter is copied unchanged (that is exactly the inner loop). *)
Fixpoint camel_aux (start inword : bool) (s : list byte) : list byte :=
  match s with
  | [] => []
  | c :: r =>
    if inword && is_lower c then c :: camel_aux false true r
    else if is_dot c && next_is_lower r then camel_aux true false r
    else if is_dot c then ch_us :: camel_aux true false r
    else if is_us c && start then ch_X :: camel_aux false false r
    else if is_us c && next_is_lower r then camel_aux false false r
    else if is_digit c then c :: camel_aux false false r
    else (if is_lower c then to_upper c else c) :: camel_aux false true r
  end.
Definition go_camel_case (s : list byte) : list byte := camel_aux true false s.

(* ---------- JSONCamelCase / JSONSnakeCase ---------- *)
Fixpoint json_camel_aux (was_us : bool) (s : list byte) : list byte :=
  match s with
  | [] => []
  | c :: r =>
    if is_us c then json_camel_aux true r
    else (if was_us && is_lower c then to_upper c else c) :: json_camel_aux false r
  end.
Definition json_camel_case (s : list byte) : list byte := json_camel_aux false s.

Fixpoint json_snake_case (s : list byte) : list byte :=
  match s with
  | [] => []
  | c :: r => if is_upper c then ch_us :: to_lower c :: json_snake_case r else c :: json_snake_case r
  end.

(* ---------- protobuf identifiers, protoreflect.FullName.IsValid ---------- *)
Definition is_letter_b (c : byte) : bool := is_us c || is_lower c || is_upper c.
Definition is_letter_digit_b (c : byte) : bool := is_letter_b c || is_digit c.
(* protoreflect.Name.IsValid: [A-Za-z_][A-Za-z0-9_]* *)
Definition proto_ident (s : list byte) : bool :=
  match s with
  | [] => false
  | c :: r => is_letter_b c && forallb is_letter_digit_b r
  end.
(* [at_start]: an identifier must begin here *)
Fixpoint fullname_aux (at_start : bool) (s : list byte) : bool :=
  match s with
  | [] => negb at_start
  | c :: r =>
    if at_start then is_letter_b c && fullname_aux false r
    else if is_dot c then fullname_aux true r
    else is_letter_digit_b c && fullname_aux false r
  end.
Definition fullname_valid (s : list byte) : bool := fullname_aux true s.

Fixpoint bytes_eqb (a b : list byte) : bool :=
  match a, b with
  | [], [] => true
  | x :: a', y :: b' => (b2n x =? b2n y) && bytes_eqb a' b'
  | _, _ => false
  end.

(* marshalFieldMask, per path: 0 = accepted (output is the camel-cased path),
   1 = "invalid path", 2 = "irreversible value" *)
Definition fieldmask_path (s : list byte) : N * list byte :=
  if negb (fullname_valid s) then (1, [])
  else let cc := json_camel_case s in
       if bytes_eqb s (json_snake_case cc) then (0, cc) else (2, []).

(* the closed form of "conversion to camelCase is reversible" *)
Fixpoint snake_ok (s : list byte) : bool :=
  match s with
  | [] => true
  | c :: r => negb (is_upper c) && (if is_us c then next_is_lower r else true) && snake_ok r
  end.

(* ---------- UTF-8 (utf8.DecodeRune, utf8.AppendRune) ---------- *)
Definition rune_error : N := 65533.
Definition cont (x : N) : bool := (128 <=? x) && (x <? 192).

Definition decode_rune (bs : list byte) : N * nat :=
  match bs with
  | [] => (rune_error, 0%nat)
  | b0 :: r =>
    let x0 := b2n b0 in
    if x0 <? 128 then (x0, 1%nat)
    else if x0 <? 194 then (rune_error, 1%nat)
    else if x0 <? 224 then
      match r with
      | b1 :: _ => let x1 := b2n b1 in
                   if cont x1 then ((x0 - 192) * 64 + (x1 - 128), 2%nat) else (rune_error, 1%nat)
      | _ => (rune_error, 1%nat)
      end
    else if x0 <? 240 then
      match r with
      | b1 :: b2 :: _ =>
        let x1 := b2n b1 in let x2 := b2n b2 in
        let lo := if x0 =? 224 then 160 else 128 in
        let hi := if x0 =? 237 then 160 else 192 in
        if (lo <=? x1) && (x1 <? hi) && cont x2
        then ((x0 - 224) * 4096 + (x1 - 128) * 64 + (x2 - 128), 3%nat) else (rune_error, 1%nat)
      | _ => (rune_error, 1%nat)
      end
    else if x0 <? 245 then
      match r with
      | b1 :: b2 :: b3 :: _ =>
        let x1 := b2n b1 in let x2 := b2n b2 in let x3 := b2n b3 in
        let lo := if x0 =? 240 then 144 else 128 in
        let hi := if x0 =? 244 then 144 else 192 in
        if (lo <=? x1) && (x1 <? hi) && cont x2 && cont x3
        then ((x0 - 240) * 262144 + (x1 - 128) * 4096 + (x2 - 128) * 64 + (x3 - 128), 4%nat)
        else (rune_error, 1%nat)
      | _ => (rune_error, 1%nat)
      end
    else (rune_error, 1%nat)
  end.

(* for i, c := range s : every invalid byte yields RuneError *)
Fixpoint decode_runes_fuel (fuel : nat) (bs : list byte) : list N :=
  match fuel with
  | O => []
  | S f =>
    match bs with
    | [] => []
    | _ => let '(r, n) := decode_rune bs in r :: decode_runes_fuel f (skipn (Nat.max 1 n) bs)
    end
  end.
Definition decode_runes (bs : list byte) : list N := decode_runes_fuel (length bs) bs.

Definition encode_rune (r : N) : list byte :=
  if r <? 128 then [n2b r]
  else if r <? 2048 then [n2b (192 + r / 64); n2b (128 + r mod 64)]
  else if r <? 65536 then [n2b (224 + r / 4096); n2b (128 + (r / 64) mod 64); n2b (128 + r mod 64)]
  else [n2b (240 + r / 262144); n2b (128 + (r / 4096) mod 64); n2b (128 + (r / 64) mod 64); n2b (128 + r mod 64)].
Definition encode_runes (rs : list N) : list byte := flat_map encode_rune rs.

(* ---------- GoSanitized ---------- *)
Definition str (s : list byte) : list N := map b2n s.
(* go/token keywords (token.Lookup(s).IsKeyword()) *)
Definition go_keywords : list (list N) := map str
  [ [ "b"; "r"; "e"; "a"; "k" ]; [ "c"; "a"; "s"; "e" ]; [ "c"; "h"; "a"; "n" ];
    [ "c"; "o"; "n"; "s"; "t" ]; [ "c"; "o"; "n"; "t"; "i"; "n"; "u"; "e" ];
    [ "d"; "e"; "f"; "a"; "u"; "l"; "t" ]; [ "d"; "e"; "f"; "e"; "r" ]; [ "e"; "l"; "s"; "e" ];
    [ "f"; "a"; "l"; "l"; "t"; "h"; "r"; "o"; "u"; "g"; "h" ]; [ "f"; "o"; "r" ];
    [ "f"; "u"; "n"; "c" ]; [ "g"; "o" ]; [ "g"; "o"; "t"; "o" ]; [ "i"; "f" ];
    [ "i"; "m"; "p"; "o"; "r"; "t" ]; [ "i"; "n"; "t"; "e"; "r"; "f"; "a"; "c"; "e" ];
    [ "m"; "a"; "p" ]; [ "p"; "a"; "c"; "k"; "a"; "g"; "e" ]; [ "r"; "a"; "n"; "g"; "e" ];
    [ "r"; "e"; "t"; "u"; "r"; "n" ]; [ "s"; "e"; "l"; "e"; "c"; "t" ];
    [ "s"; "t"; "r"; "u"; "c"; "t" ]; [ "s"; "w"; "i"; "t"; "c"; "h" ]; [ "t"; "y"; "p"; "e" ];
    [ "v"; "a"; "r" ] ]%byte.

Fixpoint runes_eqb (a b : list N) : bool :=
  match a, b with
  | [], [] => true
  | x :: a', y :: b' => (x =? y) && runes_eqb a' b'
  | _, _ => false
  end.
Definition is_keyword (rs : list N) : bool := existsb (runes_eqb rs) go_keywords.

Section Sanitized.
  Variable u_letter u_digit : N -> bool.     (* unicode.IsLetter, unicode.IsDigit *)

  Definition sanitize_rune (r : N) : N := if u_letter r || u_digit r then r else 95.

  (* [rs] is the rune sequence of the input string (invalid bytes are
     RuneError); the result is the rune sequence of the output string.
     utf8.DecodeRuneInString of the mapped string is its first rune, or
     RuneError when it is empty. *)
  Definition go_sanitized_runes (rs : list N) : list N :=
    let m := map sanitize_rune rs in
    let first := match m with r :: _ => r | [] => rune_error end in
    if is_keyword m || negb (u_letter first) then 95 :: m else m.

  Definition go_sanitized (s : list byte) : list byte :=
    encode_runes (go_sanitized_runes (decode_runes s)).

  (* go/token.IsIdentifier on the rune sequence, relative to the oracle *)
  Definition ident_start (r : N) : bool := u_letter r || (r =? 95).
  Definition ident_part (r : N) : bool := u_letter r || (r =? 95) || u_digit r.
  Definition go_identifier (rs : list N) : bool :=
    match rs with
    | [] => false
    | r :: t => ident_start r && forallb ident_part t && negb (is_keyword rs)
    end.
End Sanitized.

(* the oracle used when the model is executed: usual ASCII classes below 128,
   a table (rune, class) with class 1 = letter, 2 = digit, else neither above *)
Definition ascii_letter (r : N) : bool := ((65 <=? r) && (r <=? 90)) || ((97 <=? r) && (r <=? 122)).
Definition ascii_digit (r : N) : bool := (48 <=? r) && (r <=? 57).
Definition tbl_class (tbl : list (N * N)) (r : N) : N :=
  match find (fun p => fst p =? r) tbl with Some p => snd p | None => 0 end.
Definition tbl_letter (tbl : list (N * N)) (r : N) : bool :=
  if r <? 128 then ascii_letter r else tbl_class tbl r =? 1.
Definition tbl_digit (tbl : list (N * N)) (r : N) : bool :=
  if r <? 128 then ascii_digit r else tbl_class tbl r =? 2.
Definition go_sanitized_tbl (tbl : list (N * N)) (s : list byte) : list byte :=
  go_sanitized (tbl_letter tbl) (tbl_digit tbl) s.
