(* Hand model of strs.TrimEnumPrefix (internal/strs/strings.go).  Definitions only.
   Strings are byte strings; unicode.ToLower(rune(byte)) is the Latin-1 lower-casing. *)
From Coq Require Import List NArith Bool.
From PB Require Import Base.PBytes CodeGen.NamesModel.
Import ListNotations.
Open Scope N_scope.

(* unicode.ToLower(rune(c)) for a byte c *)
Definition lower_latin1 (c : byte) : N :=
  let x := b2n c in
  if ((65 <=? x) && (x <=? 90)) || ((192 <=? x) && (x <=? 214)) || ((216 <=? x) && (x <=? 222))
  then x + 32 else x.

(* the loop: skip '_' in s; otherwise the lower-cased byte of s must be the next
   prefix byte.  None = "no prefix match"; Some r = prefix exhausted (or s and
   prefix exhausted together), r is what is left of s *)
Fixpoint trim_aux (s prefix : list byte) : option (list byte) :=
  match s with
  | [] => match prefix with [] => Some [] | _ => None end
  | c :: r =>
    match prefix with
    | [] => Some s
    | p :: q => if is_us c then trim_aux r prefix
                else if lower_latin1 c =? b2n p then trim_aux r q else None
    end
  end.
(* strings.TrimLeft(s, "_") *)
Fixpoint trim_us (s : list byte) : list byte :=
  match s with
  | c :: r => if is_us c then trim_us r else s
  | [] => []
  end.
Definition trim_enum_prefix (s prefix : list byte) : list byte :=
  match trim_aux s prefix with
  | None => s
  | Some r => match trim_us r with [] => s | r' => r' end
  end.
