(* Proofs about generated file naming (GenFileModel.v). *)
From Coq Require Import List NArith Bool Arith Lia.
Require Import PB.Base.PBytes PB.CodeGen.GenFileModel.
Import ListNotations.
Open Scope nat_scope.

Lemma gf_eqb_eq a b : gf_eqb a b = true <-> a = b.
Proof.
  unfold gf_eqb. rewrite N.eqb_eq. split; [|now intros ->].
  intros H. rewrite <- (n2b_b2n a), <- (n2b_b2n b). now rewrite H.
Qed.

Lemma gf_bytes_eqb_eq : forall a b, gf_bytes_eqb a b = true <-> a = b.
Proof.
  induction a as [|x a IH]; destruct b as [|y b]; cbn [gf_bytes_eqb]; try (split; [discriminate|congruence]).
  - split; reflexivity.
  - rewrite andb_true_iff, gf_eqb_eq, IH. split; [intros [-> ->]; reflexivity|intros H; inversion H; auto].
Qed.

(* characters that are neither '.' nor '/' *)
Definition plain (c : byte) : Prop := gf_eqb c gf_dot = false /\ gf_eqb c gf_slash = false.

Lemma ext_scan_plain : forall w rs acc, Forall plain w -> ext_scan (rev w ++ rs) acc = ext_scan rs (w ++ acc).
Proof.
  induction w as [|c w IH] using rev_ind; intros rs acc Hw; [reflexivity|].
  apply Forall_app in Hw. destruct Hw as [Hw Hc]. inversion Hc as [|? ? [Hd Hs] _]; subst.
  rewrite rev_app_distr. cbn [rev app]. cbn [ext_scan]. rewrite Hd, Hs.
  rewrite IH by assumption. now rewrite <- app_assoc.
Qed.

(* path.Ext (p ++ "." ++ w) = "." ++ w when w has no dot and no slash *)
Lemma path_ext_app p w : Forall plain w -> path_ext (p ++ gf_dot :: w) = gf_dot :: w.
Proof.
  intros Hw. unfold path_ext. rewrite rev_app_distr. cbn [rev]. rewrite <- app_assoc. cbn [app].
  rewrite ext_scan_plain by assumption. cbn [ext_scan].
  assert (gf_eqb gf_dot gf_dot = true) as -> by now apply gf_eqb_eq. now rewrite app_nil_r.
Qed.

Lemma proto_plain : Forall plain (tl ext_proto).
Proof. repeat constructor; vm_compute; reflexivity. Qed.

Lemma ext_proto_split : ext_proto = gf_dot :: tl ext_proto.
Proof. reflexivity. Qed.

Lemma path_ext_proto p : path_ext (p ++ ext_proto) = ext_proto.
Proof. rewrite ext_proto_split. apply path_ext_app, proto_plain. Qed.

Lemma strip_proto_ext_app p : strip_proto_ext (p ++ ext_proto) = p.
Proof.
  unfold strip_proto_ext. rewrite !path_ext_proto.
  assert (gf_bytes_eqb ext_proto ext_proto = true) as -> by now apply gf_bytes_eqb_eq.
  cbn [orb]. rewrite app_length. replace (length p + length ext_proto - length ext_proto) with (length p) by lia.
  rewrite firstn_app. replace (length p - length p) with 0 by lia. rewrite firstn_all. cbn [firstn]. apply app_nil_r.
Qed.

(* paths=source_relative: distinct .proto files get distinct outputs (same variant) *)
Theorem generated_filename_injective :
  forall ip p1 p2 v,
    gen_filename false ip (p1 ++ ext_proto) v = gen_filename false ip (p2 ++ ext_proto) v ->
    p1 ++ ext_proto = p2 ++ ext_proto.
Proof.
  intros ip p1 p2 v H. unfold gen_filename, gen_prefix in H. rewrite !strip_proto_ext_app in H.
  apply app_inv_tail in H. now subst.
Qed.

(* the two files of the hybrid API never coincide *)
Theorem generated_filename_variants_distinct :
  forall m ip n, gen_filename m ip n false <> gen_filename m ip n true.
Proof.
  intros m ip n H. unfold gen_filename in H. apply (f_equal (@length byte)) in H.
  rewrite !app_length in H. cbn in H. lia.
Qed.

(* every generated file name ends in ".pb.go" *)
Theorem generated_filename_suffix :
  forall m ip n v, exists q, gen_filename m ip n v = q ++ suffix_pb_go.
Proof.
  intros m ip n v. unfold gen_filename. eexists. rewrite app_assoc. reflexivity.
Qed.

(* source_relative output of a .proto file is the source path with the suffix replaced *)
Theorem generated_filename_source_relative :
  forall ip p, gen_filename false ip (p ++ ext_proto) false = p ++ suffix_pb_go.
Proof. intros. unfold gen_filename, gen_prefix. now rewrite strip_proto_ext_app. Qed.

(* module= trimming inverts prefixing *)
Lemma strip_prefix_app p s : strip_prefix p (p ++ s) = Some s.
Proof.
  induction p as [|x p IH]; [reflexivity|]. cbn [app strip_prefix].
  assert (gf_eqb x x = true) as -> by now apply gf_eqb_eq. exact IH.
Qed.

Theorem response_name_module :
  forall m rest, m <> [] -> response_name m (m ++ gf_slash :: rest) = Some rest.
Proof.
  intros m rest Hm. unfold response_name. destruct m as [|x m]; [congruence|].
  replace ((x :: m) ++ gf_slash :: rest) with (((x :: m) ++ [gf_slash]) ++ rest) by now rewrite <- app_assoc.
  apply strip_prefix_app.
Qed.
