(* go_eq_spec for internal/strs/strings.go as translated by srcmodel_strs
   (Gen/StrsGo.v): isASCIILower/Upper/Digit, JSONCamelCase, JSONSnakeCase and
   GoCamelCase (nested loop that advances i) equal the hand model of
   CodeGen/NamesModel.v on every string shorter than 2^63 bytes (every Go
   string), and in particular return neither Panic (an index out of range) nor
   Fuel.  Each loop is first identified, by conversion ([reflexivity]), with a
   closed form below, so a change to the loops in strings.go breaks these
   proofs. *)
From Coq Require Import List Arith NArith ZArith Lia Bool.
From Coq Require Import ZifyBool ZifyNat ZifyN.
From PB Require Import Base.PBytes Base.GoInt CodeGen.NamesModel CodeGen.NamesP.
From PB Require Import Gen.StrsGo.
Ltac Zify.zify_post_hook ::= Z.div_mod_to_equations.
Import ListNotations.
Open Scope Z_scope.

(* a Go byte / string as the translation sees it *)
Definition zc (c : byte) : Z := Z.of_N (b2n c).
Definition zb (s : list byte) : list Z := map zc s.
(* len(s) fits an int *)
Definition go_len_ok (s : list byte) : Prop := Z.of_nat (length s) < 9223372036854775808.

Lemma zc_range c : 0 <= zc c < 256.
Proof. unfold zc. pose proof (b2n_lt c). lia. Qed.
Lemma zb_app a b : zb (a ++ b) = zb a ++ zb b.
Proof. apply map_app. Qed.
Lemma zb_length s : length (zb s) = length s.
Proof. apply map_length. Qed.
Lemma len_zb s : len (zb s) = Z.of_nat (length s).
Proof. unfold len. now rewrite zb_length. Qed.
Lemma len_snoc {A} (p : list A) c : len (p ++ [c]) = len p + 1.
Proof. unfold len. rewrite app_length. cbn [length]. lia. Qed.
Lemma zb_inj a : forall b, zb a = zb b -> a = b.
Proof.
  induction a as [|x a IH]; intros [|y b] H; try discriminate; [reflexivity|].
  cbn in H. injection H as H1 H2. f_equal; [|now apply IH].
  apply b2n_inj. unfold zc in H1. lia.
Qed.

Lemma index_zb p c r : index (zb (p ++ c :: r)) (len p) = Val (zc c).
Proof.
  unfold index. rewrite len_zb. unfold len. rewrite app_length. cbn [length].
  replace ((Z.of_nat (length p) <? 0) || (Z.of_nat (length p + S (length r)) <=? Z.of_nat (length p))) with false by lia.
  rewrite Nat2Z.id. unfold zb. rewrite map_app. rewrite app_nth2; rewrite map_length; [|lia].
  rewrite Nat.sub_diag. reflexivity.
Qed.

Lemma step_i s p c r : s = p ++ c :: r -> go_len_ok s -> wrap_i64 (len p + 1) = len (p ++ [c]).
Proof.
  intros -> H. unfold go_len_ok in H. rewrite len_snoc. unfold len in *. rewrite app_length in H. cbn [length] in H.
  unfold wrap_i64. lia.
Qed.
Lemma split_snoc {A} (p : list A) c r : p ++ c :: r = (p ++ [c]) ++ r.
Proof. now rewrite <- app_assoc. Qed.

(* ---------- the byte classes ---------- *)
Lemma lower_zc c : go_isASCIILower (zc c) = is_lower c.
Proof. unfold go_isASCIILower, is_lower, zc. apply eq_iff_eq_true. rewrite !andb_true_iff, !Z.leb_le, !N.leb_le. lia. Qed.
Lemma upper_zc c : go_isASCIIUpper (zc c) = is_upper c.
Proof. unfold go_isASCIIUpper, is_upper, zc. apply eq_iff_eq_true. rewrite !andb_true_iff, !Z.leb_le, !N.leb_le. lia. Qed.
Lemma digit_zc c : go_isASCIIDigit (zc c) = is_digit c.
Proof. unfold go_isASCIIDigit, is_digit, zc. apply eq_iff_eq_true. rewrite !andb_true_iff, !Z.leb_le, !N.leb_le. lia. Qed.
Lemma us_zc c : (zc c =? 95) = is_us c.
Proof. unfold is_us, zc. apply eq_iff_eq_true. rewrite Z.eqb_eq, N.eqb_eq. lia. Qed.
Lemma dot_zc c : (zc c =? 46) = is_dot c.
Proof. unfold is_dot, zc. apply eq_iff_eq_true. rewrite Z.eqb_eq, N.eqb_eq. lia. Qed.
(* c -= 'a' - 'A' at uint8 *)
Lemma to_upper_zc c : is_lower c = true -> wrap_u8 (zc c - 32) = zc (to_upper c).
Proof.
  intros H. unfold zc. rewrite (b2n_to_upper c H). unfold is_lower in H. pose proof (b2n_lt c).
  unfold wrap_u8. lia.
Qed.
(* c += 'a' - 'A' at uint8 *)
Lemma to_lower_zc c : is_upper c = true -> wrap_u8 (zc c + 32) = zc (to_lower c).
Proof.
  intros H. unfold zc. rewrite (b2n_to_lower c H). unfold is_upper in H. pose proof (b2n_lt c).
  unfold wrap_u8. lia.
Qed.

(* the classes on arbitrary int values that are bytes: the translated
   predicates are the model predicates *)
Theorem go_isASCIILower_eq c : go_isASCIILower (zc c) = is_lower c.
Proof. exact (lower_zc c). Qed.
Theorem go_isASCIIUpper_eq c : go_isASCIIUpper (zc c) = is_upper c.
Proof. exact (upper_zc c). Qed.
Theorem go_isASCIIDigit_eq c : go_isASCIIDigit (zc c) = is_digit c.
Proof. exact (digit_zc c). Qed.

(* ------------------------------------------------------------------ *)
(* JSONSnakeCase                                                       *)
Definition js_loop (v_s : list Z) :=
  fix loop1 (lfuel : nat) (v_b : list Z) (v_i : Z) {struct lfuel} : outcome (list Z) :=
    match lfuel with
    | O => Fuel
    | S lfuel' =>
      if v_i <? len v_s then
        bind (index v_s v_i) (fun v_c =>
        if go_isASCIIUpper v_c then loop1 lfuel' ((v_b ++ [95]) ++ [wrap_u8 (v_c + 32)]) (wrap_i64 (v_i + 1))
        else loop1 lfuel' (v_b ++ [v_c]) (wrap_i64 (v_i + 1)))
      else Val v_b
    end.

Lemma go_JSONSnakeCase_shape s :
  go_JSONSnakeCase s = js_loop s (S (length (@nil Z) + length s)) [] 0.
Proof. reflexivity. Qed.

Lemma js_loop_S s fuel b i :
  js_loop s (S fuel) b i =
  if i <? len s then
    bind (index s i) (fun v_c =>
    if go_isASCIIUpper v_c then js_loop s fuel ((b ++ [95]) ++ [wrap_u8 (v_c + 32)]) (wrap_i64 (i + 1))
    else js_loop s fuel (b ++ [v_c]) (wrap_i64 (i + 1)))
  else Val b.
Proof. reflexivity. Qed.

Lemma js_loop_ok s : go_len_ok s -> forall r p b fuel,
  s = p ++ r -> (length r < fuel)%nat ->
  js_loop (zb s) fuel b (len p) = Val (b ++ zb (json_snake_case r)).
Proof.
  intros Hs. induction r as [|c r IH]; intros p b fuel E Hf; (destruct fuel as [|fuel]; [cbn [length] in Hf; lia|]);
    rewrite js_loop_S, len_zb.
  - replace (len p <? Z.of_nat (length s)) with false by (subst s; unfold len; rewrite app_length; cbn [length]; lia).
    cbn [json_snake_case zb map]. now rewrite app_nil_r.
  - replace (len p <? Z.of_nat (length s)) with true by (subst s; unfold len; rewrite app_length; cbn [length]; lia).
    rewrite E at 1. rewrite index_zb. cbn [bind]. rewrite upper_zc, (step_i s p c r E Hs).
    cbn [length] in Hf. cbn [json_snake_case].
    destruct (is_upper c) eqn:U.
    + rewrite (to_lower_zc c U). rewrite (IH (p ++ [c])); [|now rewrite <- split_snoc|lia].
      cbn [zb map]. rewrite <- !app_assoc. reflexivity.
    + rewrite (IH (p ++ [c])); [|now rewrite <- split_snoc|lia].
      cbn [zb map]. rewrite <- !app_assoc. reflexivity.
Qed.

Theorem go_JSONSnakeCase_eq s : go_len_ok s ->
  go_JSONSnakeCase (zb s) = Val (zb (json_snake_case s)).
Proof.
  intros Hs. rewrite go_JSONSnakeCase_shape.
  change 0 with (len (@nil byte)). rewrite (js_loop_ok s Hs s [] []); [reflexivity|reflexivity|].
  rewrite zb_length. cbn [length]. lia.
Qed.

(* ------------------------------------------------------------------ *)
(* JSONCamelCase                                                       *)
Definition jc_loop (v_s : list Z) :=
  fix loop1 (lfuel : nat) (v_b : list Z) (v_wasUnderscore : bool) (v_i : Z) {struct lfuel} : outcome (list Z) :=
    match lfuel with
    | O => Fuel
    | S lfuel' =>
      if v_i <? len v_s then
        bind (index v_s v_i) (fun v_c =>
        if negb (v_c =? 95) then
          if v_wasUnderscore && go_isASCIILower v_c then
            loop1 lfuel' (v_b ++ [wrap_u8 (v_c - 32)]) (wrap_u8 (v_c - 32) =? 95) (wrap_i64 (v_i + 1))
          else loop1 lfuel' (v_b ++ [v_c]) (v_c =? 95) (wrap_i64 (v_i + 1))
        else loop1 lfuel' v_b (v_c =? 95) (wrap_i64 (v_i + 1)))
      else Val v_b
    end.

Lemma go_JSONCamelCase_shape s :
  go_JSONCamelCase s = jc_loop s (S (length (@nil Z) + length s)) [] false 0.
Proof. reflexivity. Qed.

Lemma jc_loop_S s fuel b w i :
  jc_loop s (S fuel) b w i =
  if i <? len s then
    bind (index s i) (fun v_c =>
    if negb (v_c =? 95) then
      if w && go_isASCIILower v_c then
        jc_loop s fuel (b ++ [wrap_u8 (v_c - 32)]) (wrap_u8 (v_c - 32) =? 95) (wrap_i64 (i + 1))
      else jc_loop s fuel (b ++ [v_c]) (v_c =? 95) (wrap_i64 (i + 1))
    else jc_loop s fuel b (v_c =? 95) (wrap_i64 (i + 1)))
  else Val b.
Proof. reflexivity. Qed.

Lemma upper_not_us c : is_lower c = true -> is_us (to_upper c) = false.
Proof. intros H. pose proof (b2n_to_upper c H) as E. cls. lia. Qed.

Lemma jc_loop_ok s : go_len_ok s -> forall r p b w fuel,
  s = p ++ r -> (length r < fuel)%nat ->
  jc_loop (zb s) fuel b w (len p) = Val (b ++ zb (json_camel_aux w r)).
Proof.
  intros Hs. induction r as [|c r IH]; intros p b w fuel E Hf; (destruct fuel as [|fuel]; [cbn [length] in Hf; lia|]);
    rewrite jc_loop_S, len_zb.
  - replace (len p <? Z.of_nat (length s)) with false by (subst s; unfold len; rewrite app_length; cbn [length]; lia).
    cbn [json_camel_aux zb map]. now rewrite app_nil_r.
  - replace (len p <? Z.of_nat (length s)) with true by (subst s; unfold len; rewrite app_length; cbn [length]; lia).
    rewrite E at 1. rewrite index_zb. cbn [bind]. rewrite us_zc, lower_zc, (step_i s p c r E Hs).
    cbn [length] in Hf. cbn [json_camel_aux].
    destruct (is_us c) eqn:U; cbn [negb].
    + rewrite (IH (p ++ [c])); [reflexivity|now rewrite <- split_snoc|lia].
    + destruct (w && is_lower c) eqn:L.
      * apply andb_true_iff in L as [_ L]. rewrite (to_upper_zc c L), us_zc, (upper_not_us c L).
        rewrite (IH (p ++ [c])); [|now rewrite <- split_snoc|lia].
        cbn [zb map]. rewrite <- !app_assoc. reflexivity.
      * rewrite (IH (p ++ [c])); [|now rewrite <- split_snoc|lia].
        cbn [zb map]. rewrite <- !app_assoc. reflexivity.
Qed.

Theorem go_JSONCamelCase_eq s : go_len_ok s ->
  go_JSONCamelCase (zb s) = Val (zb (json_camel_case s)).
Proof.
  intros Hs. rewrite go_JSONCamelCase_shape.
  change 0 with (len (@nil byte)). unfold json_camel_case.
  rewrite (jc_loop_ok s Hs s [] [] false); [reflexivity|reflexivity|].
  rewrite zb_length. cbn [length]. lia.
Qed.
