(* go_eq_spec for internal/strs/strings.go as translated by srcmodel_strs
   (Gen/StrsGo.v): isASCIILower/Upper/Digit, JSONCamelCase, JSONSnakeCase and
   GoCamelCase (nested loop that advances i) equal the hand model of
   CodeGen/NamesModel.v on every string shorter than 2^63 bytes (every Go
   string), TrimEnumPrefix (loop with continue, unicode.ToLower, strings.TrimLeft)
   equals the hand model of CodeGen/StrsTrimModel.v on all strings, and in particular return neither Panic (an index out of range) nor
   Fuel.  Each loop is first identified, by conversion ([reflexivity]), with a
   closed form below, so a change to the loops in strings.go breaks these
   proofs. *)
From Coq Require Import List Arith NArith ZArith Lia Bool.
From Coq Require Import ZifyBool ZifyNat ZifyN.
From PB Require Import Base.PBytes Base.GoInt CodeGen.NamesModel CodeGen.NamesP CodeGen.StrsGoBase CodeGen.StrsTrimModel.
From PB Require Import Gen.StrsGo.
Ltac Zify.zify_post_hook ::= Z.div_mod_to_equations.
Import ListNotations.
Open Scope Z_scope.

(* a Go byte / string as the translation sees it *)
Definition zc (c : byte) : Z := Z.of_N (b2n c).
Definition zb (s : list byte) : list Z := map zc s.
(* len(s) fits an int *)
Definition go_len_ok (s : list byte) : Prop := Z.of_nat (length s) < 9223372036854775808.

Lemma zc_range c : 0 <= zc c < 256.
Proof. unfold zc. pose proof (b2n_lt c). lia. Qed.
Lemma zb_app a b : zb (a ++ b) = zb a ++ zb b.
Proof. apply map_app. Qed.
Lemma zb_length s : length (zb s) = length s.
Proof. apply map_length. Qed.
Lemma len_zb s : len (zb s) = Z.of_nat (length s).
Proof. unfold len. now rewrite zb_length. Qed.
Lemma len_snoc {A} (p : list A) c : len (p ++ [c]) = len p + 1.
Proof. unfold len. rewrite app_length. cbn [length]. lia. Qed.
Lemma zb_inj a : forall b, zb a = zb b -> a = b.
Proof.
  induction a as [|x a IH]; intros [|y b] H; try discriminate; [reflexivity|].
  cbn in H. injection H as H1 H2. f_equal; [|now apply IH].
  apply b2n_inj. unfold zc in H1. lia.
Qed.

Lemma index_zb p c r : index (zb (p ++ c :: r)) (len p) = Val (zc c).
Proof.
  unfold index. rewrite len_zb. unfold len. rewrite app_length. cbn [length].
  replace ((Z.of_nat (length p) <? 0) || (Z.of_nat (length p + S (length r)) <=? Z.of_nat (length p))) with false by lia.
  rewrite Nat2Z.id. unfold zb. rewrite map_app. rewrite app_nth2; rewrite map_length; [|lia].
  rewrite Nat.sub_diag. reflexivity.
Qed.

Lemma step_i s p c r : s = p ++ c :: r -> go_len_ok s -> wrap_i64 (len p + 1) = len (p ++ [c]).
Proof.
  intros -> H. unfold go_len_ok in H. rewrite len_snoc. unfold len in *. rewrite app_length in H. cbn [length] in H.
  unfold wrap_i64. lia.
Qed.
Lemma split_snoc {A} (p : list A) c r : p ++ c :: r = (p ++ [c]) ++ r.
Proof. now rewrite <- app_assoc. Qed.

(* ---------- the byte classes ---------- *)
Lemma lower_zc c : go_isASCIILower (zc c) = is_lower c.
Proof. unfold go_isASCIILower, is_lower, zc. apply eq_iff_eq_true. rewrite !andb_true_iff, !Z.leb_le, !N.leb_le. lia. Qed.
Lemma upper_zc c : go_isASCIIUpper (zc c) = is_upper c.
Proof. unfold go_isASCIIUpper, is_upper, zc. apply eq_iff_eq_true. rewrite !andb_true_iff, !Z.leb_le, !N.leb_le. lia. Qed.
Lemma digit_zc c : go_isASCIIDigit (zc c) = is_digit c.
Proof. unfold go_isASCIIDigit, is_digit, zc. apply eq_iff_eq_true. rewrite !andb_true_iff, !Z.leb_le, !N.leb_le. lia. Qed.
Lemma us_zc c : (zc c =? 95) = is_us c.
Proof. unfold is_us, zc. apply eq_iff_eq_true. rewrite Z.eqb_eq, N.eqb_eq. lia. Qed.
Lemma dot_zc c : (zc c =? 46) = is_dot c.
Proof. unfold is_dot, zc. apply eq_iff_eq_true. rewrite Z.eqb_eq, N.eqb_eq. lia. Qed.
(* c -= 'a' - 'A' at uint8 *)
Lemma to_upper_zc c : is_lower c = true -> wrap_u8 (zc c - 32) = zc (to_upper c).
Proof.
  intros H. unfold zc. rewrite (b2n_to_upper c H). unfold is_lower in H. pose proof (b2n_lt c).
  unfold wrap_u8. lia.
Qed.
(* c += 'a' - 'A' at uint8 *)
Lemma to_lower_zc c : is_upper c = true -> wrap_u8 (zc c + 32) = zc (to_lower c).
Proof.
  intros H. unfold zc. rewrite (b2n_to_lower c H). unfold is_upper in H. pose proof (b2n_lt c).
  unfold wrap_u8. lia.
Qed.

(* the classes on arbitrary int values that are bytes: the translated
   predicates are the model predicates *)
Theorem go_isASCIILower_eq c : go_isASCIILower (zc c) = is_lower c.
Proof. exact (lower_zc c). Qed.
Theorem go_isASCIIUpper_eq c : go_isASCIIUpper (zc c) = is_upper c.
Proof. exact (upper_zc c). Qed.
Theorem go_isASCIIDigit_eq c : go_isASCIIDigit (zc c) = is_digit c.
Proof. exact (digit_zc c). Qed.

(* ------------------------------------------------------------------ *)
(* JSONSnakeCase                                                       *)
Definition js_loop (v_s : list Z) :=
  fix loop1 (lfuel : nat) (v_b : list Z) (v_i : Z) {struct lfuel} : outcome (list Z) :=
    match lfuel with
    | O => Fuel
    | S lfuel' =>
      if v_i <? len v_s then
        bind (index v_s v_i) (fun v_c =>
        if go_isASCIIUpper v_c then loop1 lfuel' ((v_b ++ [95]) ++ [wrap_u8 (v_c + 32)]) (wrap_i64 (v_i + 1))
        else loop1 lfuel' (v_b ++ [v_c]) (wrap_i64 (v_i + 1)))
      else Val v_b
    end.

Lemma go_JSONSnakeCase_shape s :
  go_JSONSnakeCase s = js_loop s (S (length (@nil Z) + length s)) [] 0.
Proof. reflexivity. Qed.

Lemma js_loop_S s fuel b i :
  js_loop s (S fuel) b i =
  if i <? len s then
    bind (index s i) (fun v_c =>
    if go_isASCIIUpper v_c then js_loop s fuel ((b ++ [95]) ++ [wrap_u8 (v_c + 32)]) (wrap_i64 (i + 1))
    else js_loop s fuel (b ++ [v_c]) (wrap_i64 (i + 1)))
  else Val b.
Proof. reflexivity. Qed.

Lemma js_loop_ok s : go_len_ok s -> forall r p b fuel,
  s = p ++ r -> (length r < fuel)%nat ->
  js_loop (zb s) fuel b (len p) = Val (b ++ zb (json_snake_case r)).
Proof.
  intros Hs. induction r as [|c r IH]; intros p b fuel E Hf; (destruct fuel as [|fuel]; [cbn [length] in Hf; lia|]);
    rewrite js_loop_S, len_zb.
  - replace (len p <? Z.of_nat (length s)) with false by (subst s; unfold len; rewrite app_length; cbn [length]; lia).
    cbn [json_snake_case zb map]. now rewrite app_nil_r.
  - replace (len p <? Z.of_nat (length s)) with true by (subst s; unfold len; rewrite app_length; cbn [length]; lia).
    rewrite E at 1. rewrite index_zb. cbn [bind]. rewrite upper_zc, (step_i s p c r E Hs).
    cbn [length] in Hf. cbn [json_snake_case].
    destruct (is_upper c) eqn:U.
    + rewrite (to_lower_zc c U). rewrite (IH (p ++ [c])); [|now rewrite <- split_snoc|lia].
      cbn [zb map]. rewrite <- !app_assoc. reflexivity.
    + rewrite (IH (p ++ [c])); [|now rewrite <- split_snoc|lia].
      cbn [zb map]. rewrite <- !app_assoc. reflexivity.
Qed.

Theorem go_JSONSnakeCase_eq s : go_len_ok s ->
  go_JSONSnakeCase (zb s) = Val (zb (json_snake_case s)).
Proof.
  intros Hs. rewrite go_JSONSnakeCase_shape.
  change 0 with (len (@nil byte)). rewrite (js_loop_ok s Hs s [] []); [reflexivity|reflexivity|].
  rewrite zb_length. cbn [length]. lia.
Qed.

(* ------------------------------------------------------------------ *)
(* JSONCamelCase                                                       *)
Definition jc_loop (v_s : list Z) :=
  fix loop1 (lfuel : nat) (v_b : list Z) (v_wasUnderscore : bool) (v_i : Z) {struct lfuel} : outcome (list Z) :=
    match lfuel with
    | O => Fuel
    | S lfuel' =>
      if v_i <? len v_s then
        bind (index v_s v_i) (fun v_c =>
        if negb (v_c =? 95) then
          if v_wasUnderscore && go_isASCIILower v_c then
            loop1 lfuel' (v_b ++ [wrap_u8 (v_c - 32)]) (wrap_u8 (v_c - 32) =? 95) (wrap_i64 (v_i + 1))
          else loop1 lfuel' (v_b ++ [v_c]) (v_c =? 95) (wrap_i64 (v_i + 1))
        else loop1 lfuel' v_b (v_c =? 95) (wrap_i64 (v_i + 1)))
      else Val v_b
    end.

Lemma go_JSONCamelCase_shape s :
  go_JSONCamelCase s = jc_loop s (S (length (@nil Z) + length s)) [] false 0.
Proof. reflexivity. Qed.

Lemma jc_loop_S s fuel b w i :
  jc_loop s (S fuel) b w i =
  if i <? len s then
    bind (index s i) (fun v_c =>
    if negb (v_c =? 95) then
      if w && go_isASCIILower v_c then
        jc_loop s fuel (b ++ [wrap_u8 (v_c - 32)]) (wrap_u8 (v_c - 32) =? 95) (wrap_i64 (i + 1))
      else jc_loop s fuel (b ++ [v_c]) (v_c =? 95) (wrap_i64 (i + 1))
    else jc_loop s fuel b (v_c =? 95) (wrap_i64 (i + 1)))
  else Val b.
Proof. reflexivity. Qed.

Lemma upper_not_us c : is_lower c = true -> is_us (to_upper c) = false.
Proof. intros H. pose proof (b2n_to_upper c H) as E. cls. lia. Qed.

Lemma jc_loop_ok s : go_len_ok s -> forall r p b w fuel,
  s = p ++ r -> (length r < fuel)%nat ->
  jc_loop (zb s) fuel b w (len p) = Val (b ++ zb (json_camel_aux w r)).
Proof.
  intros Hs. induction r as [|c r IH]; intros p b w fuel E Hf; (destruct fuel as [|fuel]; [cbn [length] in Hf; lia|]);
    rewrite jc_loop_S, len_zb.
  - replace (len p <? Z.of_nat (length s)) with false by (subst s; unfold len; rewrite app_length; cbn [length]; lia).
    cbn [json_camel_aux zb map]. now rewrite app_nil_r.
  - replace (len p <? Z.of_nat (length s)) with true by (subst s; unfold len; rewrite app_length; cbn [length]; lia).
    rewrite E at 1. rewrite index_zb. cbn [bind]. rewrite us_zc, lower_zc, (step_i s p c r E Hs).
    cbn [length] in Hf. cbn [json_camel_aux].
    destruct (is_us c) eqn:U; cbn [negb].
    + rewrite (IH (p ++ [c])); [reflexivity|now rewrite <- split_snoc|lia].
    + destruct (w && is_lower c) eqn:L.
      * apply andb_true_iff in L as [_ L]. rewrite (to_upper_zc c L), us_zc, (upper_not_us c L).
        rewrite (IH (p ++ [c])); [|now rewrite <- split_snoc|lia].
        cbn [zb map]. rewrite <- !app_assoc. reflexivity.
      * rewrite (IH (p ++ [c])); [|now rewrite <- split_snoc|lia].
        cbn [zb map]. rewrite <- !app_assoc. reflexivity.
Qed.

Theorem go_JSONCamelCase_eq s : go_len_ok s ->
  go_JSONCamelCase (zb s) = Val (zb (json_camel_case s)).
Proof.
  intros Hs. rewrite go_JSONCamelCase_shape.
  change 0 with (len (@nil byte)). unfold json_camel_case.
  rewrite (jc_loop_ok s Hs s [] [] false); [reflexivity|reflexivity|].
  rewrite zb_length. cbn [length]. lia.
Qed.

(* ------------------------------------------------------------------ *)
(* GoCamelCase                                                         *)
(* i+1 < len(s) && isASCIILower(s[i+1]), guarded by g *)
Definition peekl (v_s : list Z) (g : bool) (v_i : Z) : outcome bool :=
  if g && (wrap_i64 (v_i + 1) <? len v_s)
  then bind (index v_s (wrap_i64 (v_i + 1))) (fun t => Val (go_isASCIILower t))
  else Val false.
(* c == '_' && (i == 0 || s[i-1] == '.') *)
Definition startl (v_s : list Z) (v_c v_i : Z) : outcome bool :=
  if v_c =? 95
  then bind (if v_i =? 0 then Val true
             else bind (index v_s (wrap_i64 (v_i - 1))) (fun t4 => Val (t4 =? 46))) (fun t5 => Val t5)
  else Val false.

(* the inner loop of the default arm; [k] is the rest of the outer loop *)
Definition gc_inner (v_s : list Z) (k : list Z -> Z -> outcome (list Z)) :=
  fix loop2 (lfuel2 : nat) (v_b : list Z) (v_i : Z) {struct lfuel2} : outcome (list Z) :=
    match lfuel2 with
    | O => Fuel
    | S lfuel2' =>
      bind (peekl v_s true v_i) (fun t10 =>
      if t10 then
        bind (index v_s (wrap_i64 (v_i + 1))) (fun t11 =>
        loop2 lfuel2' (v_b ++ [t11]) (wrap_i64 (v_i + 1)))
      else k v_b (wrap_i64 (v_i + 1)))
    end.

Definition gc_outer (v_s : list Z) :=
  fix loop1 (lfuel : nat) (v_b : list Z) (v_i : Z) {struct lfuel} : outcome (list Z) :=
    match lfuel with
    | O => Fuel
    | S lfuel' =>
      if v_i <? len v_s then
        bind (index v_s v_i) (fun v_c =>
        bind (peekl v_s (v_c =? 46) v_i) (fun t3 =>
        if t3 then loop1 lfuel' v_b (wrap_i64 (v_i + 1))
        else if v_c =? 46 then loop1 lfuel' (v_b ++ [95]) (wrap_i64 (v_i + 1))
        else
          bind (startl v_s v_c v_i) (fun t6 =>
          if t6 then loop1 lfuel' (v_b ++ [88]) (wrap_i64 (v_i + 1))
          else
            bind (peekl v_s (v_c =? 95) v_i) (fun t8 =>
            if t8 then loop1 lfuel' v_b (wrap_i64 (v_i + 1))
            else if go_isASCIIDigit v_c then loop1 lfuel' (v_b ++ [v_c]) (wrap_i64 (v_i + 1))
            else if go_isASCIILower v_c then
              gc_inner v_s (loop1 lfuel')
                (S (length (v_b ++ [wrap_u8 (v_c - 32)]) + length v_s)) (v_b ++ [wrap_u8 (v_c - 32)]) v_i
            else
              gc_inner v_s (loop1 lfuel') (S (length (v_b ++ [v_c]) + length v_s)) (v_b ++ [v_c]) v_i))))
      else Val v_b
    end.

Lemma go_GoCamelCase_shape s :
  go_GoCamelCase s = gc_outer s (S (length (@nil Z) + length s)) [] 0.
Proof. reflexivity. Qed.

Lemma gc_inner_S s k fuel b i :
  gc_inner s k (S fuel) b i =
  bind (peekl s true i) (fun t10 =>
  if t10 then bind (index s (wrap_i64 (i + 1))) (fun t11 => gc_inner s k fuel (b ++ [t11]) (wrap_i64 (i + 1)))
  else k b (wrap_i64 (i + 1))).
Proof. reflexivity. Qed.

Lemma gc_outer_S s fuel b i :
  gc_outer s (S fuel) b i =
  if i <? len s then
    bind (index s i) (fun v_c =>
    bind (peekl s (v_c =? 46) i) (fun t3 =>
    if t3 then gc_outer s fuel b (wrap_i64 (i + 1))
    else if v_c =? 46 then gc_outer s fuel (b ++ [95]) (wrap_i64 (i + 1))
    else
      bind (startl s v_c i) (fun t6 =>
      if t6 then gc_outer s fuel (b ++ [88]) (wrap_i64 (i + 1))
      else
        bind (peekl s (v_c =? 95) i) (fun t8 =>
        if t8 then gc_outer s fuel b (wrap_i64 (i + 1))
        else if go_isASCIIDigit v_c then gc_outer s fuel (b ++ [v_c]) (wrap_i64 (i + 1))
        else if go_isASCIILower v_c then
          gc_inner s (gc_outer s fuel)
            (S (length (b ++ [wrap_u8 (v_c - 32)]) + length s)) (b ++ [wrap_u8 (v_c - 32)]) i
        else
          gc_inner s (gc_outer s fuel) (S (length (b ++ [v_c]) + length s)) (b ++ [v_c]) i))))
  else Val b.
Proof. reflexivity. Qed.

(* (i == 0 || s[i-1] == '.') for i = len p *)
Definition start_of (p : list byte) : bool :=
  match rev p with [] => true | c :: _ => is_dot c end.
Lemma start_of_snoc p c : start_of (p ++ [c]) = is_dot c.
Proof. unfold start_of. now rewrite rev_unit. Qed.

Lemma peekl_ok s p c r g : s = p ++ c :: r -> go_len_ok s ->
  peekl (zb s) g (len p) = Val (g && next_is_lower r).
Proof.
  intros E Hs. unfold peekl. rewrite (step_i s p c r E Hs), len_zb.
  destruct r as [|d r].
  - replace (len (p ++ [c]) <? Z.of_nat (length s)) with false
      by (subst s; unfold len; rewrite !app_length; cbn [length]; lia).
    cbn [next_is_lower]. rewrite !andb_false_r. reflexivity.
  - replace (len (p ++ [c]) <? Z.of_nat (length s)) with true
      by (subst s; unfold len; rewrite !app_length; cbn [length]; lia).
    rewrite andb_true_r. destruct g; [|reflexivity].
    rewrite E, split_snoc, index_zb. cbn [bind next_is_lower]. now rewrite lower_zc.
Qed.

Lemma startl_ok s p c r : s = p ++ c :: r -> go_len_ok s ->
  startl (zb s) (zc c) (len p) = Val (is_us c && start_of p).
Proof.
  intros E Hs. unfold startl. rewrite us_zc. destruct (is_us c); [|reflexivity]. cbn [andb].
  destruct (rev p) as [|d q] eqn:R.
  - apply (f_equal (@rev byte)) in R. rewrite rev_involutive in R. cbn in R. subst p.
    reflexivity.
  - apply (f_equal (@rev byte)) in R. rewrite rev_involutive in R. cbn [rev] in R.
    unfold start_of. rewrite R, rev_unit.
    replace (len (rev q ++ [d]) =? 0) with false by (rewrite len_snoc; unfold len; lia).
    replace (wrap_i64 (len (rev q ++ [d]) - 1)) with (len (rev q)).
    2:{ rewrite len_snoc. unfold go_len_ok in Hs. subst s p. rewrite !app_length in Hs. unfold len, wrap_i64. lia. }
    rewrite E, R, <- app_assoc. cbn [app]. rewrite index_zb. cbn [bind]. now rewrite dot_zc.
Qed.

Lemma camel_aux_inword st r : next_is_lower r = false -> camel_aux st true r = camel_aux st false r.
Proof.
  destruct r as [|c r]; [reflexivity|]. cbn [next_is_lower camel_aux]. intros ->. reflexivity.
Qed.

Lemma gc_inner_ok s k : go_len_ok s -> forall r p c b fuel,
  s = p ++ c :: r -> (length r < fuel)%nat -> is_dot c = false ->
  (forall r' p' b', s = p' ++ r' -> (length r' <= length r)%nat -> start_of p' = false ->
                    k b' (len p') = Val (b' ++ zb (camel_aux false false r'))) ->
  gc_inner (zb s) k fuel b (len p) = Val (b ++ zb (camel_aux false true r)).
Proof.
  intros Hs. induction r as [|d r IH]; intros p c b fuel E Hf Hc K;
    (destruct fuel as [|fuel]; [cbn [length] in Hf; lia|]);
    rewrite gc_inner_S, (peekl_ok s p c _ true E Hs); cbn [bind andb next_is_lower];
    rewrite (step_i s p c _ E Hs).
  - rewrite (K [] (p ++ [c]) b); [reflexivity|now rewrite <- split_snoc|lia|].
    now rewrite start_of_snoc.
  - destruct (is_lower d) eqn:L.
    + rewrite E at 1. rewrite split_snoc, index_zb. cbn [bind].
      assert (Hd : is_dot d = false) by (clear - L; cls; lia).
      rewrite (IH (p ++ [c]) d); [| now rewrite <- split_snoc | cbn [length] in Hf; lia | exact Hd |].
      * cbn [camel_aux andb]. rewrite L. cbn [zb map]. rewrite <- app_assoc. reflexivity.
      * intros r' p' b' E' Hl Hst. apply K; [exact E'|cbn [length]; lia|exact Hst].
    + rewrite (K (d :: r) (p ++ [c]) b); [|now rewrite <- split_snoc|lia|now rewrite start_of_snoc].
      rewrite camel_aux_inword; [reflexivity|]. cbn [next_is_lower]. exact L.
Qed.

Lemma gc_outer_ok s : go_len_ok s -> forall fuel r p b,
  s = p ++ r -> (length r < fuel)%nat ->
  gc_outer (zb s) fuel b (len p) = Val (b ++ zb (camel_aux (start_of p) false r)).
Proof.
  intros Hs. induction fuel as [|fuel IH]; intros r p b E Hf; [lia|].
  rewrite gc_outer_S, len_zb. destruct r as [|c r].
  - replace (len p <? Z.of_nat (length s)) with false by (subst s; unfold len; rewrite app_length; cbn [length]; lia).
    cbn [camel_aux zb map]. now rewrite app_nil_r.
  - replace (len p <? Z.of_nat (length s)) with true by (subst s; unfold len; rewrite app_length; cbn [length]; lia).
    cbn [length] in Hf.
    assert (NX : forall b', gc_outer (zb s) fuel b' (len (p ++ [c])) =
                            Val (b' ++ zb (camel_aux (is_dot c) false r))).
    { intros b'. rewrite (IH r (p ++ [c]) b'); [now rewrite start_of_snoc|now rewrite <- split_snoc|lia]. }
    rewrite E at 1. rewrite index_zb. cbn [bind].
    rewrite (peekl_ok s p c r _ E Hs). cbn [bind].
    rewrite dot_zc, us_zc, digit_zc, lower_zc, (step_i s p c r E Hs).
    cbn [camel_aux andb].
    destruct (is_dot c) eqn:D; cbn [andb].
    + destruct (next_is_lower r) eqn:NL.
      * rewrite NX. reflexivity.
      * rewrite NX. cbn [zb map]. rewrite <- app_assoc. reflexivity.
    + rewrite (startl_ok s p c r E Hs). cbn [bind].
      destruct (is_us c) eqn:U; cbn [andb].
      * destruct (start_of p) eqn:ST.
        -- rewrite NX. cbn [zb map]. rewrite <- app_assoc. reflexivity.
        -- rewrite (peekl_ok s p c r _ E Hs). cbn [bind andb].
           destruct (next_is_lower r) eqn:NL; [rewrite NX; reflexivity|].
           assert (DG : is_digit c = false) by (clear - U; cls; lia).
           assert (LW : is_lower c = false) by (clear - U; cls; lia).
           rewrite DG, LW.
           rewrite (gc_inner_ok s _ Hs r p c); [| exact E | rewrite app_length, zb_length; subst s; rewrite app_length; cbn [length]; lia | exact D |].
           ++ rewrite <- app_assoc. reflexivity.
           ++ intros r' p' b' E' Hl Hst. rewrite (IH r' p' b' E'); [now rewrite Hst|lia].
      * rewrite (peekl_ok s p c r _ E Hs). cbn [bind andb].
        destruct (is_digit c) eqn:DG.
        -- rewrite NX. cbn [zb map]. rewrite <- app_assoc. reflexivity.
        -- destruct (is_lower c) eqn:LW.
           ++ rewrite (to_upper_zc c LW).
              rewrite (gc_inner_ok s _ Hs r p c); [| exact E | rewrite app_length, zb_length; subst s; rewrite app_length; cbn [length]; lia | exact D |].
              ** rewrite <- app_assoc. reflexivity.
              ** intros r' p' b' E' Hl Hst. rewrite (IH r' p' b' E'); [now rewrite Hst|lia].
           ++ rewrite (gc_inner_ok s _ Hs r p c); [| exact E | rewrite app_length, zb_length; subst s; rewrite app_length; cbn [length]; lia | exact D |].
              ** rewrite <- app_assoc. reflexivity.
              ** intros r' p' b' E' Hl Hst. rewrite (IH r' p' b' E'); [now rewrite Hst|lia].
Qed.

Theorem go_GoCamelCase_eq s : go_len_ok s ->
  go_GoCamelCase (zb s) = Val (zb (go_camel_case s)).
Proof.
  intros Hs. rewrite go_GoCamelCase_shape.
  change 0 with (len (@nil byte)). unfold go_camel_case.
  rewrite (gc_outer_ok s Hs _ s [] []); [reflexivity|reflexivity|].
  rewrite zb_length. cbn [length]. lia.
Qed.

(* ------------------------------------------------------------------ *)
(* property-level statements about the translated source               *)
Lemma json_camel_aux_length : forall s w, (length (json_camel_aux w s) <= length s)%nat.
Proof.
  induction s as [|c r IH]; intros w; [reflexivity|]. cbn [json_camel_aux length].
  destruct (is_us c); [specialize (IH true)|specialize (IH false)]; cbn [length]; lia.
Qed.

(* the translated GoCamelCase maps every protobuf identifier to an exported Go
   identifier: non-empty, first byte an upper-case ASCII letter (as decided by
   the translated isASCIIUpper), all bytes in [A-Za-z0-9_] *)
Theorem go_GoCamelCase_exported_identifier s : go_len_ok s -> proto_ident s = true ->
  exists c r, go_GoCamelCase (zb s) = Val (zb (c :: r)) /\ go_isASCIIUpper (zc c) = true /\
              forallb is_letter_digit_b (c :: r) = true.
Proof.
  intros Hs H. destruct (camel_exported_identifier s H) as (c & r & E & U & F).
  exists c, r. rewrite (go_GoCamelCase_eq s Hs), E, upper_zc. auto.
Qed.

(* JSONSnakeCase(JSONCamelCase(s)) == s in the translated source, exactly when
   s has no upper-case letter and every '_' is followed by a lower-case letter *)
Theorem go_snake_camel_inverse s : go_len_ok s ->
  (bind (go_JSONCamelCase (zb s)) go_JSONSnakeCase = Val (zb s) <-> snake_ok s = true).
Proof.
  intros Hs. rewrite (go_JSONCamelCase_eq s Hs). cbn [bind].
  rewrite go_JSONSnakeCase_eq.
  2:{ unfold go_len_ok in *. unfold json_camel_case. pose proof (json_camel_aux_length s false). lia. }
  rewrite <- snake_camel_inverse. split.
  - intros [= H]. now apply zb_inj.
  - intros ->. reflexivity.
Qed.

(* none of the translated functions can panic (index out of range) or run out
   of the fuel the translation gave its loops *)
Theorem go_strs_total s : go_len_ok s ->
  (exists o, go_GoCamelCase (zb s) = Val o) /\ (exists o, go_JSONCamelCase (zb s) = Val o) /\
  (exists o, go_JSONSnakeCase (zb s) = Val o).
Proof.
  intros Hs. rewrite (go_GoCamelCase_eq s Hs), (go_JSONCamelCase_eq s Hs), (go_JSONSnakeCase_eq s Hs). repeat split; eexists; reflexivity.
Qed.

Theorem go_isASCII_eq c :
  go_isASCIILower (zc c) = is_lower c /\ go_isASCIIUpper (zc c) = is_upper c /\ go_isASCIIDigit (zc c) = is_digit c.
Proof. auto using lower_zc, upper_zc, digit_zc. Qed.

(* ------------------------------------------------------------------ *)
(* TrimEnumPrefix                                                      *)
Definition te_loop (v_s0 : list Z) :=
  fix loop1 (lfuel : nat) (v_s : list Z) (v_prefix : list Z) {struct lfuel} : outcome (list Z) :=
    match lfuel with
    | O => Fuel
    | S lfuel' =>
      if (0 <? len v_s) && (0 <? len v_prefix) then
        bind (index v_s 0) (fun t1 =>
        if t1 =? 95 then bind (slice_lo v_s 1) (fun t2 => loop1 lfuel' t2 v_prefix)
        else
          bind (index v_s 0) (fun t3 =>
          bind (index v_prefix 0) (fun t4 =>
          if negb (unicode_ToLower (wrap_i32 t3) =? wrap_i32 t4) then Val v_s0
          else bind (slice_lo v_s 1) (fun t5 => bind (slice_lo v_prefix 1) (fun t6 => loop1 lfuel' t5 t6)))))
      else if 0 <? len v_prefix then Val v_s0
      else if len (strings_TrimLeft v_s [95]) =? 0 then Val v_s0
      else Val (strings_TrimLeft v_s [95])
    end.

Lemma go_TrimEnumPrefix_shape s prefix :
  go_TrimEnumPrefix s prefix = te_loop s (S (length s + length prefix)) s prefix.
Proof. reflexivity. Qed.

Lemma te_loop_S s0 fuel s prefix :
  te_loop s0 (S fuel) s prefix =
  if (0 <? len s) && (0 <? len prefix) then
    bind (index s 0) (fun t1 =>
    if t1 =? 95 then bind (slice_lo s 1) (fun t2 => te_loop s0 fuel t2 prefix)
    else
      bind (index s 0) (fun t3 =>
      bind (index prefix 0) (fun t4 =>
      if negb (unicode_ToLower (wrap_i32 t3) =? wrap_i32 t4) then Val s0
      else bind (slice_lo s 1) (fun t5 => bind (slice_lo prefix 1) (fun t6 => te_loop s0 fuel t5 t6)))))
  else if 0 <? len prefix then Val s0
  else if len (strings_TrimLeft s [95]) =? 0 then Val s0
  else Val (strings_TrimLeft s [95]).
Proof. reflexivity. Qed.


(* unicode.ToLower(rune(c)) == rune(p) *)
Lemma tolower_zc c p :
  (unicode_ToLower (wrap_i32 (zc c)) =? wrap_i32 (zc p)) = (lower_latin1 c =? b2n p)%N.
Proof.
  pose proof (zc_range c). pose proof (zc_range p).
  replace (wrap_i32 (zc c)) with (zc c) by (unfold wrap_i32; lia).
  replace (wrap_i32 (zc p)) with (zc p) by (unfold wrap_i32; lia).
  unfold unicode_ToLower, lower_latin1, zc in *. cbv zeta.
  replace ((65 <=? Z.of_N (b2n c)) && (Z.of_N (b2n c) <=? 90) || (192 <=? Z.of_N (b2n c)) && (Z.of_N (b2n c) <=? 214)
           || (216 <=? Z.of_N (b2n c)) && (Z.of_N (b2n c) <=? 222))
    with ((65 <=? b2n c) && (b2n c <=? 90) || (192 <=? b2n c) && (b2n c <=? 214) || (216 <=? b2n c) && (b2n c <=? 222))%N
    by lia.
  destruct ((65 <=? b2n c) && (b2n c <=? 90) || (192 <=? b2n c) && (b2n c <=? 214) || (216 <=? b2n c) && (b2n c <=? 222))%N;
    apply eq_iff_eq_true; rewrite Z.eqb_eq, N.eqb_eq; lia.
Qed.

Lemma trimleft_zb s : strings_TrimLeft (zb s) [95] = zb (trim_us s).
Proof.
  induction s as [|c r IH]; [reflexivity|]. cbn [zb map strings_TrimLeft trim_us existsb].
  rewrite orb_false_r, us_zc. destruct (is_us c); [exact IH|reflexivity].
Qed.

Lemma index0_zb c r : index (zb (c :: r)) 0 = Val (zc c).
Proof. reflexivity. Qed.
Lemma slice1_zb c r : slice_lo (zb (c :: r)) 1 = Val (zb r).
Proof.
  unfold slice_lo. rewrite len_zb. cbn [length].
  replace ((1 <? 0) || (Z.of_nat (S (length r)) <? 1)) with false by lia. reflexivity.
Qed.

Definition trim_result (s0 : list byte) (o : option (list byte)) : list byte :=
  match o with
  | None => s0
  | Some r => match trim_us r with [] => s0 | r' => r' end
  end.

Lemma te_tail s0 r :
  (if len (strings_TrimLeft (zb r) [95]) =? 0 then Val (zb s0) else Val (strings_TrimLeft (zb r) [95])) =
  Val (zb (trim_result s0 (Some r))).
Proof.
  rewrite trimleft_zb, len_zb. cbn [trim_result]. destruct (trim_us r) as [|x t]; [reflexivity|].
  cbn [length]. replace (Z.of_nat (S (length t)) =? 0) with false by lia. reflexivity.
Qed.

Lemma te_loop_ok s0 : forall s prefix fuel, (length s + length prefix < fuel)%nat ->
  te_loop (zb s0) fuel (zb s) (zb prefix) = Val (zb (trim_result s0 (trim_aux s prefix))).
Proof.
  induction s as [|c r IH]; intros prefix fuel Hf; (destruct fuel as [|fuel]; [lia|]); rewrite te_loop_S, !len_zb.
  - cbn [length andb Z.of_nat Z.ltb Z.compare]. destruct prefix as [|p q].
    + cbn [length Z.of_nat Z.ltb Z.compare trim_aux]. apply (te_tail s0 []).
    + cbn [length]. replace (0 <? Z.of_nat (S (length q))) with true by lia. reflexivity.
  - cbn [length] in *. replace (0 <? Z.of_nat (S (length r))) with true by lia. cbn [andb].
    destruct prefix as [|p q].
    + cbn [length Z.of_nat Z.ltb Z.compare trim_aux]. apply (te_tail s0 (c :: r)).
    + cbn [length] in *. replace (0 <? Z.of_nat (S (length q))) with true by lia.
      rewrite !index0_zb. cbn [bind]. rewrite us_zc. cbn [trim_aux].
      destruct (is_us c).
      * rewrite slice1_zb. cbn [bind]. apply (IH (p :: q)). cbn [length]. lia.
      * rewrite tolower_zc.
        destruct (lower_latin1 c =? b2n p)%N; cbn [negb]; [|reflexivity].
        rewrite !slice1_zb. cbn [bind]. apply IH. lia.
Qed.

Theorem go_TrimEnumPrefix_eq s prefix :
  go_TrimEnumPrefix (zb s) (zb prefix) = Val (zb (trim_enum_prefix s prefix)).
Proof.
  rewrite go_TrimEnumPrefix_shape, (te_loop_ok s s prefix); [reflexivity|]. rewrite !zb_length. lia.
Qed.

(* TrimEnumPrefix never returns the empty string for a non-empty name, and what
   it returns is a suffix of the name *)
Lemma trim_us_suffix s : exists p, s = p ++ trim_us s.
Proof.
  induction s as [|c r [p IH]]; [now exists []|]. cbn [trim_us].
  destruct (is_us c); [|now exists []]. exists (c :: p). cbn [app]. now rewrite <- IH.
Qed.
Lemma trim_aux_suffix : forall s prefix r, trim_aux s prefix = Some r -> exists p, s = p ++ r.
Proof.
  induction s as [|c t IH]; intros prefix r H.
  - destruct prefix; [|discriminate]. injection H as <-. now exists [].
  - cbn [trim_aux] in H. destruct prefix as [|p q]; [injection H as <-; now exists []|].
    destruct (is_us c).
    + destruct (IH _ _ H) as [x ->]. now exists (c :: x).
    + destruct (lower_latin1 c =? b2n p)%N; [|discriminate]. destruct (IH _ _ H) as [x ->]. now exists (c :: x).
Qed.
Theorem trim_enum_prefix_suffix_nonempty s prefix :
  (exists p, s = p ++ trim_enum_prefix s prefix) /\ (s <> [] -> trim_enum_prefix s prefix <> []).
Proof.
  unfold trim_enum_prefix. destruct (trim_aux s prefix) as [r|] eqn:E.
  - destruct (trim_us r) as [|x t] eqn:T.
    + split; [now exists []|auto].
    + split; [|discriminate]. destruct (trim_aux_suffix _ _ _ E) as [p1 ->].
      destruct (trim_us_suffix r) as [p2 E2]. rewrite T in E2. exists (p1 ++ p2). rewrite <- app_assoc. now rewrite <- E2.
  - split; [now exists []|auto].
Qed.
Theorem go_TrimEnumPrefix_suffix_nonempty s prefix :
  exists p o, go_TrimEnumPrefix (zb s) (zb prefix) = Val (zb o) /\ s = p ++ o /\ (s <> [] -> o <> []).
Proof.
  destruct (trim_enum_prefix_suffix_nonempty s prefix) as [[p E] N].
  exists p, (trim_enum_prefix s prefix). rewrite go_TrimEnumPrefix_eq. auto.
Qed.
