(* Model of the naming of generated files: compiler/protogen newFile (GeneratedFilenamePrefix),
   cmd/protoc-gen-go/internal_gengo generateOneFile (prefix ++ variant ++ ".pb.go") and
   Plugin.Response (module= prefix trimming).  Strings are byte lists.
   Restriction (stated where it matters): in paths=import mode path.Join(importPath, base) is
   modelled as importPath ++ "/" ++ base, which is what path.Join returns when importPath is
   already clean and base is not "." or ".."; the harness only uses such inputs.
   Definitions only; proofs are in GenFileP.v. *)
From Coq Require Import List NArith Bool Arith.
Require Import PB.Base.PBytes.
Import ListNotations.
Open Scope nat_scope.

Definition gf_slash : byte := n2b 47%N.
Definition gf_dot : byte := n2b 46%N.
Definition gf_eqb (a b : byte) : bool := N.eqb (b2n a) (b2n b).

Fixpoint gf_bytes_eqb (a b : list byte) : bool :=
  match a, b with
  | [], [] => true
  | x :: a', y :: b' => gf_eqb x y && gf_bytes_eqb a' b'
  | _, _ => false
  end.

Definition gf_str (l : list nat) : list byte := map (fun n => n2b (N.of_nat n)) l.
Definition ext_proto : list byte := gf_str [46; 112; 114; 111; 116; 111].                           (* ".proto" *)
Definition ext_protodevel : list byte := gf_str [46; 112; 114; 111; 116; 111; 100; 101; 118; 101; 108]. (* ".protodevel" *)
Definition suffix_pb_go : list byte := gf_str [46; 112; 98; 46; 103; 111].                           (* ".pb.go" *)
Definition variant_opaque : list byte := gf_str [95; 112; 114; 111; 116; 111; 111; 112; 97; 113; 117; 101]. (* "_protoopaque" *)

(* path.Ext: the suffix beginning at the final dot in the final slash-separated element *)
Fixpoint ext_scan (rs acc : list byte) : list byte :=   (* rs: the path reversed *)
  match rs with
  | [] => []
  | c :: r => if gf_eqb c gf_dot then c :: acc
              else if gf_eqb c gf_slash then []
              else ext_scan r (c :: acc)
  end.
Definition path_ext (s : list byte) : list byte := ext_scan (rev s) [].

(* newFile: strip ".proto" / ".protodevel" *)
Definition strip_proto_ext (s : list byte) : list byte :=
  let e := path_ext s in
  if gf_bytes_eqb e ext_proto || gf_bytes_eqb e ext_protodevel
  then firstn (length s - length e) s else s.

(* path.Base *)
Fixpoint drop_slashes (rs : list byte) : list byte :=
  match rs with
  | c :: r => if gf_eqb c gf_slash then drop_slashes r else rs
  | [] => []
  end.
Fixpoint take_to_slash (rs : list byte) : list byte :=
  match rs with
  | c :: r => if gf_eqb c gf_slash then [] else c :: take_to_slash r
  | [] => []
  end.
Definition path_base (s : list byte) : list byte :=
  match s with
  | [] => [gf_dot]
  | _ => match drop_slashes (rev s) with
         | [] => [gf_slash]
         | r => rev (take_to_slash r)
         end
  end.

(* GeneratedFilenamePrefix; import_mode = (paths=import), the default *)
Definition gen_prefix (import_mode : bool) (import_path name : list byte) : list byte :=
  let p := strip_proto_ext name in
  if import_mode then import_path ++ gf_slash :: path_base p else p.

(* name of a generated file; opaque_variant = the second file of the hybrid API *)
Definition gen_filename (import_mode : bool) (import_path name : list byte) (opaque_variant : bool) : list byte :=
  gen_prefix import_mode import_path name ++ (if opaque_variant then variant_opaque else []) ++ suffix_pb_go.

(* strings.HasPrefix / TrimPrefix in Response for the module= parameter; None = the error
   "generated file does not match prefix" *)
Fixpoint strip_prefix (p s : list byte) : option (list byte) :=
  match p, s with
  | [], _ => Some s
  | x :: p', y :: s' => if gf_eqb x y then strip_prefix p' s' else None
  | _ :: _, [] => None
  end.
Definition response_name (module : list byte) (filename : list byte) : option (list byte) :=
  match module with
  | [] => Some filename
  | _ => strip_prefix (module ++ [gf_slash]) filename
  end.
