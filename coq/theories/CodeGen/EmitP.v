(* Proofs about CodeGen/EmitModel.v: the import block is strictly sorted by import
   path and does not depend on the order in which Content ranges over its maps. *)
From Coq Require Import List NArith Bool Lia Permutation Sorted.
From Coq Require Import ZifyBool ZifyNat ZifyN.
From PB Require Import Base.PBytes CodeGen.NamesModel CodeGen.NamesP CodeGen.UniqueModel CodeGen.UniqueP
  CodeGen.MapRangeModel CodeGen.MapRangeP CodeGen.EmitModel.
Import ListNotations.
Open Scope N_scope.

(* ---------- Go's string order is a strict total order ---------- *)
Lemma bytes_ltb_irrefl a : bytes_ltb a a = false.
Proof.
  induction a as [|x a IH]; cbn [bytes_ltb]; [reflexivity|].
  rewrite N.ltb_irrefl. exact IH.
Qed.

Lemma bytes_ltb_trans : forall a b c, bytes_ltb a b = true -> bytes_ltb b c = true -> bytes_ltb a c = true.
Proof.
  induction a as [|x a IH]; intros [|y b] [|z c]; cbn [bytes_ltb]; try discriminate; try reflexivity.
  destruct (b2n x <? b2n y) eqn:E1.
  - intros _. destruct (b2n y <? b2n z) eqn:E2.
    + intros _. replace (b2n x <? b2n z) with true by lia. reflexivity.
    + destruct (b2n z <? b2n y) eqn:E3; [discriminate|]. intros _.
      replace (b2n x <? b2n z) with true by lia. reflexivity.
  - destruct (b2n y <? b2n x) eqn:E2; [discriminate|]. intros H1.
    destruct (b2n y <? b2n z) eqn:E3.
    + intros _. replace (b2n x <? b2n z) with true by lia. reflexivity.
    + destruct (b2n z <? b2n y) eqn:E4; [discriminate|]. intros H2.
      replace (b2n x <? b2n z) with false by lia. replace (b2n z <? b2n x) with false by lia.
      now apply (IH b c).
Qed.

Lemma bytes_ltb_total : forall a b, bytes_ltb a b = false -> bytes_ltb b a = false -> a = b.
Proof.
  induction a as [|x a IH]; intros [|y b]; cbn [bytes_ltb]; try discriminate; [reflexivity|].
  destruct (b2n x <? b2n y) eqn:E1; [discriminate|].
  destruct (b2n y <? b2n x) eqn:E2; [discriminate|].
  intros H1 H2. f_equal; [apply b2n_inj; lia|now apply IH].
Qed.

(* ---------- the state reached by any sequence of calls ---------- *)
Lemma assoc_name_none l p : assoc_name l p = None <-> ~ In p (map fst l).
Proof.
  induction l as [|[q n] t IH]; cbn [assoc_name map fst In]; [tauto|].
  destruct (bytes_eqb p q) eqn:E.
  - apply bytes_eqb_eq in E. subst. split; [discriminate|]. intros H. exfalso. apply H. now left.
  - apply bytes_eqb_neq in E. rewrite IH. split.
    + intros H [H1|H1]; [congruence|contradiction].
    + intros H H1. apply H. now right.
Qed.

Definition wf (g : gfile) : Prop := NoDup (map fst (g_pkgs g)) /\ NoDup (g_manual g).

Lemma apply_op_wf g o : wf g -> wf (apply_op g o).
Proof.
  intros [H1 H2]. destruct o as [p|p]; cbn [apply_op].
  - unfold qualified. destruct (bytes_eqb p (g_own g)); [now split|].
    destruct (assoc_name (g_pkgs g) p) eqn:E; [now split|].
    split; cbn [g_pkgs g_manual map fst]; [|exact H2]. constructor; [|exact H1]. now apply assoc_name_none.
  - unfold manual_import. destruct (mem_name p (g_manual g)) eqn:E; [now split|].
    split; cbn [g_pkgs g_manual]; [exact H1|]. constructor; [|exact H2].
    intros H. apply mem_name_in in H. congruence.
Qed.

Lemma run_ops_wf own ops : wf (run_ops own ops).
Proof.
  unfold run_ops.
  assert (G : forall g, wf g -> wf (fold_left apply_op ops g)).
  { induction ops as [|o t IH]; intros g H; cbn [fold_left]; [exact H|]. apply IH. now apply apply_op_wf. }
  apply G. split; constructor.
Qed.

(* ---------- the import block ---------- *)
Definition collected (g : gfile) (pk man : list path) : list (name * path) :=
  map (fun p => (name_of g p, p)) pk ++ map (fun p => ([ch_us], p)) (filter (fun p => negb (has_pkg g p)) man).

Lemma collected_paths g pk man :
  map snd (collected g pk man) = pk ++ filter (fun p => negb (has_pkg g p)) man.
Proof.
  unfold collected. rewrite map_app, !map_map. cbn [snd]. now rewrite !map_id.
Qed.

Lemma filter_perm {A} (f : A -> bool) l1 l2 : Permutation l1 l2 -> Permutation (filter f l1) (filter f l2).
Proof.
  induction 1; cbn [filter].
  - apply perm_nil.
  - destruct (f x); [now apply perm_skip|assumption].
  - destruct (f x), (f y); try apply Permutation_refl. apply perm_swap.
  - eapply Permutation_trans; eassumption.
Qed.

Lemma nodup_app {A} (l1 l2 : list A) :
  NoDup l1 -> NoDup l2 -> (forall x, In x l1 -> ~ In x l2) -> NoDup (l1 ++ l2).
Proof.
  induction l1 as [|a t IH]; intros N1 N2 D; cbn [app]; [exact N2|].
  inversion N1; subst. constructor.
  - rewrite in_app_iff. intros [H|H]; [contradiction|]. apply (D a); [now left|exact H].
  - apply IH; [assumption|assumption|]. intros x Hx. apply D. now right.
Qed.

Lemma collected_nodup g pk man :
  wf g -> Permutation pk (map fst (g_pkgs g)) -> Permutation man (g_manual g) ->
  NoDup (map snd (collected g pk man)).
Proof.
  intros [W1 W2] P1 P2. rewrite collected_paths.
  assert (N1 : NoDup pk) by (apply (Permutation_NoDup (Permutation_sym P1)); exact W1).
  assert (N2 : NoDup man) by (apply (Permutation_NoDup (Permutation_sym P2)); exact W2).
  apply nodup_app; [exact N1|now apply NoDup_filter|].
  intros p Hp Hf. apply filter_In in Hf as [_ Hf]. apply negb_true_iff in Hf.
  unfold has_pkg in Hf. destruct (assoc_name (g_pkgs g) p) eqn:E; [discriminate|].
  apply assoc_name_none in E. apply E. now apply (Permutation_in _ P1).
Qed.

Theorem import_entries_order_invariant own ops :
  let g := run_ops own ops in
  forall pk man, Permutation pk (map fst (g_pkgs g)) -> Permutation man (g_manual g) ->
  import_entries g pk man = import_block g.
Proof.
  cbn zeta. intros pk man P1 P2. unfold import_block, import_entries.
  apply (sort_by_order_invariant snd bytes_ltb bytes_ltb_irrefl bytes_ltb_trans bytes_ltb_total).
  - apply Permutation_app; [now apply Permutation_map|]. apply Permutation_map. now apply filter_perm.
  - apply (collected_nodup _ pk man); [apply run_ops_wf|exact P1|exact P2].
Qed.

Theorem import_block_strictly_sorted own ops :
  StronglySorted (fun a b => bytes_ltb (snd a) (snd b) = true) (import_block (run_ops own ops)).
Proof.
  unfold import_block, import_entries.
  apply (sorted_strict snd bytes_ltb bytes_ltb_total).
  - apply (sort_by_sorted snd bytes_ltb bytes_ltb_irrefl bytes_ltb_trans bytes_ltb_total).
  - set (g := run_ops own ops).
    apply (Permutation_NoDup (l := map snd (collected g (map fst (g_pkgs g)) (g_manual g)))).
    + apply Permutation_map, Permutation_sym, sort_by_perm.
    + apply collected_nodup; [apply run_ops_wf|apply Permutation_refl|apply Permutation_refl].
Qed.

Theorem import_block_paths own ops p :
  let g := run_ops own ops in
  In p (map snd (import_block g)) <-> In p (map fst (g_pkgs g)) \/ In p (g_manual g).
Proof.
  cbn zeta. set (g := run_ops own ops). unfold import_block, import_entries.
  assert (P : Permutation (map snd (sort_by snd bytes_ltb (collected g (map fst (g_pkgs g)) (g_manual g))))
                          (map snd (collected g (map fst (g_pkgs g)) (g_manual g))))
    by apply Permutation_map, sort_by_perm.
  fold (collected g (map fst (g_pkgs g)) (g_manual g)).
  split.
  - intros H. apply (Permutation_in _ P) in H. rewrite collected_paths, in_app_iff in H.
    destruct H as [H|H]; [now left|]. apply filter_In in H. tauto.
  - intros H. apply (Permutation_in _ (Permutation_sym P)). rewrite collected_paths, in_app_iff.
    destruct H as [H|H]; [now left|].
    destruct (has_pkg g p) eqn:E.
    + left. unfold has_pkg in E. destruct (assoc_name (g_pkgs g) p) eqn:E2; [|discriminate].
      destruct (in_dec (list_eq_dec Byte.byte_eq_dec) p (map fst (g_pkgs g))) as [I|I]; [exact I|].
      apply assoc_name_none in I. congruence.
    + right. apply filter_In. split; [exact H|]. now rewrite E.
Qed.
