(* Model of the import handling of protogen.GeneratedFile (compiler/protogen/
   protogen.go: NewGeneratedFile, QualifiedGoIdent, Import, and the import block
   that Content builds).  Definitions only.

   packageNames / manualImports are Go maps; the model keeps them as association
   lists and makes the order in which Content ranges over them an explicit
   parameter of [import_entries]. *)
From Coq Require Import List NArith Bool.
From PB Require Import Base.PBytes CodeGen.NamesModel CodeGen.UniqueModel CodeGen.MapRangeModel.
Import ListNotations.
Open Scope N_scope.

Definition path := list byte.

(* ---------- path.Base ---------- *)
Definition is_slash (c : byte) : bool := b2n c =? 47.
Fixpoint drop_slashes (s : list byte) : list byte :=
  match s with
  | c :: t => if is_slash c then drop_slashes t else s
  | [] => []
  end.
Fixpoint take_segment (s : list byte) : list byte :=
  match s with
  | c :: t => if is_slash c then [] else c :: take_segment t
  | [] => []
  end.
Definition path_base (p : path) : list byte :=
  match p with
  | [] => [ "." ]%byte
  | _ => match drop_slashes (rev p) with
         | [] => [ "/" ]%byte
         | r => rev (take_segment r)
         end
  end.

(* cleanPackageName = strs.GoSanitized (ASCII import paths: empty oracle table) *)
Definition clean_package_name (n : list byte) : name := go_sanitized_tbl [] n.

(* strconv.Itoa for non-negative numbers *)
Fixpoint itoa_fuel (fuel : nat) (n : N) (acc : list byte) : list byte :=
  match fuel with
  | O => acc
  | S f => let d := n2b (48 + n mod 10) in
           if n <? 10 then d :: acc else itoa_fuel f (n / 10) (d :: acc)
  end.
Definition itoa (n : N) : list byte := itoa_fuel 40 n [].

(* types.Universe.Names() (go1.23): every predeclared identifier is a used package name *)
Definition predeclared : list name :=
  [ [ "a"; "n"; "y" ]%byte;
    [ "a"; "p"; "p"; "e"; "n"; "d" ]%byte;
    [ "b"; "o"; "o"; "l" ]%byte;
    [ "b"; "y"; "t"; "e" ]%byte;
    [ "c"; "a"; "p" ]%byte;
    [ "c"; "l"; "e"; "a"; "r" ]%byte;
    [ "c"; "l"; "o"; "s"; "e" ]%byte;
    [ "c"; "o"; "m"; "p"; "a"; "r"; "a"; "b"; "l"; "e" ]%byte;
    [ "c"; "o"; "m"; "p"; "l"; "e"; "x" ]%byte;
    [ "c"; "o"; "m"; "p"; "l"; "e"; "x"; "1"; "2"; "8" ]%byte;
    [ "c"; "o"; "m"; "p"; "l"; "e"; "x"; "6"; "4" ]%byte;
    [ "c"; "o"; "p"; "y" ]%byte;
    [ "d"; "e"; "l"; "e"; "t"; "e" ]%byte;
    [ "e"; "r"; "r"; "o"; "r" ]%byte;
    [ "f"; "a"; "l"; "s"; "e" ]%byte;
    [ "f"; "l"; "o"; "a"; "t"; "3"; "2" ]%byte;
    [ "f"; "l"; "o"; "a"; "t"; "6"; "4" ]%byte;
    [ "i"; "m"; "a"; "g" ]%byte;
    [ "i"; "n"; "t" ]%byte;
    [ "i"; "n"; "t"; "1"; "6" ]%byte;
    [ "i"; "n"; "t"; "3"; "2" ]%byte;
    [ "i"; "n"; "t"; "6"; "4" ]%byte;
    [ "i"; "n"; "t"; "8" ]%byte;
    [ "i"; "o"; "t"; "a" ]%byte;
    [ "l"; "e"; "n" ]%byte;
    [ "m"; "a"; "k"; "e" ]%byte;
    [ "m"; "a"; "x" ]%byte;
    [ "m"; "i"; "n" ]%byte;
    [ "n"; "e"; "w" ]%byte;
    [ "n"; "i"; "l" ]%byte;
    [ "p"; "a"; "n"; "i"; "c" ]%byte;
    [ "p"; "r"; "i"; "n"; "t" ]%byte;
    [ "p"; "r"; "i"; "n"; "t"; "l"; "n" ]%byte;
    [ "r"; "e"; "a"; "l" ]%byte;
    [ "r"; "e"; "c"; "o"; "v"; "e"; "r" ]%byte;
    [ "r"; "u"; "n"; "e" ]%byte;
    [ "s"; "t"; "r"; "i"; "n"; "g" ]%byte;
    [ "t"; "r"; "u"; "e" ]%byte;
    [ "u"; "i"; "n"; "t" ]%byte;
    [ "u"; "i"; "n"; "t"; "1"; "6" ]%byte;
    [ "u"; "i"; "n"; "t"; "3"; "2" ]%byte;
    [ "u"; "i"; "n"; "t"; "6"; "4" ]%byte;
    [ "u"; "i"; "n"; "t"; "8" ]%byte;
    [ "u"; "i"; "n"; "t"; "p"; "t"; "r" ]%byte ].

Record gfile := mkgfile {
  g_own : path;                     (* goImportPath of the generated file *)
  g_pkgs : list (path * name);      (* packageNames, newest first *)
  g_used : list name;               (* usedPackageNames (keys with value true) *)
  g_manual : list path              (* manualImports *)
}.
Definition new_gfile (own : path) : gfile := mkgfile own [] predeclared [].

Fixpoint assoc_name (l : list (path * name)) (p : path) : option name :=
  match l with
  | [] => None
  | (q, n) :: t => if bytes_eqb p q then Some n else assoc_name t p
  end.

(* for i, orig := 1, packageName; usedPackageNames[packageName]; i++ { packageName = orig + strconv.Itoa(i) } *)
Fixpoint pkg_uniq_loop (fuel : nat) (i : N) (orig cur : name) (used : list name) : name :=
  match fuel with
  | O => cur
  | S f => if mem_name cur used then pkg_uniq_loop f (i + 1) orig (orig ++ itoa i) used else cur
  end.

(* QualifiedGoIdent(GoIdent{GoImportPath: p}) : state change only *)
Definition qualified (g : gfile) (p : path) : gfile :=
  if bytes_eqb p (g_own g) then g
  else match assoc_name (g_pkgs g) p with
       | Some _ => g
       | None =>
         let orig := clean_package_name (path_base p) in
         let n := pkg_uniq_loop (S (length (g_used g))) 1 orig orig (g_used g) in
         mkgfile (g_own g) ((p, n) :: g_pkgs g) (n :: g_used g) (g_manual g)
       end.
(* Import(p) *)
Definition manual_import (g : gfile) (p : path) : gfile :=
  if mem_name p (g_manual g) then g else mkgfile (g_own g) (g_pkgs g) (g_used g) (p :: g_manual g).

Inductive gop := OpQualified (p : path) | OpImport (p : path).
Definition apply_op (g : gfile) (o : gop) : gfile :=
  match o with OpQualified p => qualified g p | OpImport p => manual_import g p end.
Definition run_ops (own : path) (ops : list gop) : gfile := fold_left apply_op ops (new_gfile own).

(* ---------- the import block ---------- *)
(* Go's < on strings: bytewise lexicographic *)
Fixpoint bytes_ltb (a b : list byte) : bool :=
  match a, b with
  | _, [] => false
  | [], _ :: _ => true
  | x :: a', y :: b' => if b2n x <? b2n y then true else if b2n y <? b2n x then false else bytes_ltb a' b'
  end.

Definition name_of (g : gfile) (p : path) : name :=
  match assoc_name (g_pkgs g) p with Some n => n | None => [] end.
Definition has_pkg (g : gfile) (p : path) : bool :=
  match assoc_name (g_pkgs g) p with Some _ => true | None => false end.

(* the two `range` loops of Content, in iteration orders [pk_order] (over the keys
   of packageNames) and [man_order] (over the keys of manualImports), and sort.Slice
   by import path *)
Definition import_entries (g : gfile) (pk_order man_order : list path) : list (name * path) :=
  sort_by snd bytes_ltb
    (map (fun p => (name_of g p, p)) pk_order ++
     map (fun p => ([ch_us], p)) (filter (fun p => negb (has_pkg g p)) man_order)).

(* one particular execution *)
Definition import_block (g : gfile) : list (name * path) :=
  import_entries g (map fst (g_pkgs g)) (g_manual g).

(* one printed line per entry:  name "path"   (strconv.Quote of a printable ASCII
   path without quotes or backslashes) *)
Definition import_line (e : name * path) : list byte :=
  fst e ++ [ " "; """" ]%byte ++ snd e ++ [ """" ]%byte.
Definition import_lines (own : path) (ops : list gop) : list (list byte) :=
  map import_line (import_block (run_ops own ops)).
