(* Model of the field-name conflict resolution of compiler/protogen
   (protogen.go: newMessage, the closure makeNameUnique and its usedNames map).
   Definitions only.

   usedNames is a Go map[string]bool; a missing key reads as false.  It is
   modelled as an association list, newest binding first. *)
From Coq Require Import List NArith Bool.
From PB Require Import Base.PBytes CodeGen.NamesModel.
Import ListNotations.
Open Scope N_scope.

Definition name := list byte.
Definition used_map := list (name * bool).

Fixpoint lookup (m : used_map) (k : name) : bool :=
  match m with
  | [] => false
  | (k', v) :: t => if bytes_eqb k k' then v else lookup t k
  end.
Definition set_used (m : used_map) (k : name) (v : bool) : used_map := (k, v) :: m.

Definition str_get : name := [ "G"; "e"; "t" ]%byte.
Definition getter (n : name) : name := str_get ++ n.

(* the seed of usedNames *)
Definition reserved : list name :=
  [ [ "R"; "e"; "s"; "e"; "t" ];
    [ "S"; "t"; "r"; "i"; "n"; "g" ];
    [ "P"; "r"; "o"; "t"; "o"; "M"; "e"; "s"; "s"; "a"; "g"; "e" ];
    [ "M"; "a"; "r"; "s"; "h"; "a"; "l" ];
    [ "U"; "n"; "m"; "a"; "r"; "s"; "h"; "a"; "l" ];
    [ "E"; "x"; "t"; "e"; "n"; "s"; "i"; "o"; "n"; "R"; "a"; "n"; "g"; "e"; "A"; "r"; "r"; "a"; "y" ];
    [ "E"; "x"; "t"; "e"; "n"; "s"; "i"; "o"; "n"; "M"; "a"; "p" ];
    [ "D"; "e"; "s"; "c"; "r"; "i"; "p"; "t"; "o"; "r" ] ]%byte.
Definition init_used : used_map := map (fun k => (k, true)) reserved.

Fixpoint max_key_len (m : used_map) : nat :=
  match m with
  | [] => O
  | (k, _) :: t => Nat.max (length k) (max_key_len t)
  end.

(* for usedNames[name] || (hasGetter && usedNames["Get"+name]) { name += "_" }
   The loop ends at the latest when the name is longer than every key; that
   many iterations are granted. *)
Fixpoint mnu_loop (fuel : nat) (m : used_map) (n : name) (has_getter : bool) : name :=
  match fuel with
  | O => n
  | S f => if lookup m n || (has_getter && lookup m (getter n))
           then mnu_loop f m (n ++ [ch_us]) has_getter else n
  end.

Definition make_name_unique (m : used_map) (n : name) (has_getter : bool) : name * used_map :=
  let n' := mnu_loop (S (max_key_len m)) m n has_getter in
  (n', set_used (set_used m n' true) (getter n') has_getter).

(* One call of makeNameUnique = one event (requested name, hasGetter).  The
   history lists the results, newest first. *)
Definition event := (name * bool)%type.
Definition hist := list (name * bool).

Fixpoint run_hist (evs : list event) (m : used_map) (h : hist) : hist :=
  match evs with
  | [] => h
  | (n, hg) :: t => let '(n', m') := make_name_unique m n hg in run_hist t m' ((n', hg) :: h)
  end.
(* results in call order *)
Definition run_outs (evs : list event) : list name := rev (map fst (run_hist evs init_used [])).

(* ---------- a message: fields in declaration order, each optionally a member of
   the oneof with the given index; oneof names by index ---------- *)
Record fieldspec := mkfield { f_name : name; f_oneof : option N }.

Definition mem_n (i : N) (l : list N) : bool := existsb (N.eqb i) l.

(* for each field: makeNameUnique(GoCamelCase(field), true); and when it is the
   first field of its oneof: makeNameUnique(GoCamelCase(oneof), false) *)
Fixpoint events_of (fs : list fieldspec) (onames : list name) (seen : list N) : list event :=
  match fs with
  | [] => []
  | f :: t =>
    (go_camel_case (f_name f), true) ::
    match f_oneof f with
    | Some i => if mem_n i seen then events_of t onames seen
                else (go_camel_case (nth (N.to_nat i) onames []), false) :: events_of t onames (i :: seen)
    | None => events_of t onames seen
    end
  end.

(* hand the results back to the fields and oneofs *)
Fixpoint distribute (fs : list fieldspec) (seen : list N) (outs : list name)
  : list name * list (N * name) :=
  match fs, outs with
  | f :: t, o :: outs' =>
    match f_oneof f with
    | Some i =>
      if mem_n i seen then let '(a, b) := distribute t seen outs' in (o :: a, b)
      else match outs' with
           | oo :: outs'' => let '(a, b) := distribute t (i :: seen) outs'' in (o :: a, (i, oo) :: b)
           | [] => ([o], [])
           end
    | None => let '(a, b) := distribute t seen outs' in (o :: a, b)
    end
  | _, _ => ([], [])
  end.

Definition oneof_go_name (named : list (N * name)) (i : N) (oname : name) : name :=
  match find (fun p => fst p =? i) named with
  | Some p => snd p
  | None => go_camel_case oname       (* a oneof without fields keeps its camel-cased name *)
  end.

Fixpoint index_from {A} (i : N) (l : list A) : list (N * A) :=
  match l with [] => [] | x :: t => (i, x) :: index_from (i + 1) t end.

(* Field.GoName of every field, Oneof.GoName of every oneof *)
Definition message_names (fs : list fieldspec) (onames : list name) : list name * list name :=
  let '(fnames, named) := distribute fs [] (run_outs (events_of fs onames [])) in
  (fnames, map (fun p => oneof_go_name named (fst p) (snd p)) (index_from 0 onames)).

(* ---------- oneof wrapper types ----------
   field.GoIdent of a oneof member is <Message>_<GoName>; "_" is appended while it
   equals the Go identifier of a nested message or enum (each can match at most
   once because the name only grows) *)
Fixpoint mem_name (x : name) (l : list name) : bool :=
  match l with [] => false | y :: t => bytes_eqb x y || mem_name x t end.
Fixpoint wrapper_loop (fuel : nat) (taken : list name) (n : name) : name :=
  match fuel with
  | O => n
  | S f => if mem_name n taken then wrapper_loop f taken (n ++ [ch_us]) else n
  end.
Fixpoint max_name_len (l : list name) : nat :=
  match l with [] => O | x :: t => Nat.max (length x) (max_name_len t) end.
Definition wrapper_name (msg : name) (taken : list name) (goname : name) : name :=
  wrapper_loop (S (max_name_len taken)) taken (msg ++ [ch_us] ++ goname).

(* the methods internal_gengo emits for every message in the open API
   (genMessageBaseMethods); Descriptor only for non-opaque messages *)
Definition base_methods : list name :=
  [ [ "R"; "e"; "s"; "e"; "t" ];
    [ "S"; "t"; "r"; "i"; "n"; "g" ];
    [ "P"; "r"; "o"; "t"; "o"; "M"; "e"; "s"; "s"; "a"; "g"; "e" ];
    [ "P"; "r"; "o"; "t"; "o"; "R"; "e"; "f"; "l"; "e"; "c"; "t" ];
    [ "D"; "e"; "s"; "c"; "r"; "i"; "p"; "t"; "o"; "r" ] ]%byte.

(* ---------- the identifiers a message's names give rise to ---------- *)
(* every result and its Get-prefixed form (for a field: the getter; for a oneof:
   the getter GetX() of the oneof, which the generator emits as well), on top of
   the reserved method names *)
Fixpoint full_names (h : hist) : list name :=
  match h with
  | [] => reserved
  | (n, _) :: t => n :: getter n :: full_names t
  end.
(* the keys that makeNameUnique treats as taken *)
Fixpoint true_keys (h : hist) : list name :=
  match h with
  | [] => reserved
  | (n, hg) :: t => n :: (if hg then [getter n] else []) ++ true_keys t
  end.

Definition message_hist (fs : list fieldspec) (onames : list name) : hist :=
  run_hist (events_of fs onames []) init_used [].

Fixpoint nodupb (l : list name) : bool :=
  match l with [] => true | x :: t => negb (mem_name x t) && nodupb t end.

(* the side condition: no oneof's getter name is also a field or oneof name *)
Definition oneof_getter_free (h : hist) : bool :=
  forallb (fun e => snd e || negb (mem_name (getter (fst e)) (map fst h))) h.
