(* Proofs about CodeGen/UniqueModel.v: what makeNameUnique guarantees, for every
   sequence of calls, and exactly when the resulting identifiers are distinct. *)
From Coq Require Import List NArith Bool Lia Arith.
From PB Require Import Base.PBytes CodeGen.NamesModel CodeGen.NamesP CodeGen.UniqueModel.
Import ListNotations.

(* ---------- the map ---------- *)
Lemma lookup_set m k v k' :
  lookup (set_used m k v) k' = if bytes_eqb k' k then v else lookup m k'.
Proof. reflexivity. Qed.

Lemma lookup_true_len m k : lookup m k = true -> (length k <= max_key_len m)%nat.
Proof.
  induction m as [|[k' v] t IH]; cbn [lookup max_key_len]; [discriminate|].
  destruct (bytes_eqb k k') eqn:E.
  - apply bytes_eqb_eq in E. subst. lia.
  - intros H. specialize (IH H). lia.
Qed.

Lemma lookup_init l k : lookup (map (fun k => (k, true)) l) k = true <-> In k l.
Proof.
  induction l as [|x l IH]; cbn [map lookup In]; [split; [discriminate|tauto]|].
  destruct (bytes_eqb k x) eqn:E.
  - apply bytes_eqb_eq in E. subst. tauto.
  - apply bytes_eqb_neq in E. rewrite IH. split; [tauto|]. intros [H|H]; [congruence|assumption].
Qed.

(* ---------- names ---------- *)
Lemma getter_inj a b : getter a = getter b -> a = b.
Proof. unfold getter. apply app_inv_head. Qed.
Lemma getter_neq n : getter n <> n.
Proof. intros H. apply (f_equal (@length _)) in H. unfold getter in H. rewrite app_length in H. cbn in H. lia. Qed.
Lemma getter_len n : length (getter n) = (3 + length n)%nat.
Proof. reflexivity. Qed.
Lemma reserved_no_get k n : In k reserved -> k <> getter n.
Proof.
  unfold reserved, getter, str_get. cbn [In app].
  intros H. repeat (destruct H as [<-|H]; [discriminate|]). destruct H.
Qed.

(* ---------- the loop ---------- *)
Lemma mnu_loop_spec : forall fuel m n hg,
  (max_key_len m < length n + fuel)%nat ->
  lookup m (mnu_loop fuel m n hg) = false /\
  (hg = true -> lookup m (getter (mnu_loop fuel m n hg)) = false) /\
  exists k, mnu_loop fuel m n hg = n ++ repeat ch_us k.
Proof.
  induction fuel as [|f IH]; intros m n hg Hlen; cbn [mnu_loop].
  - assert (L : forall x, (length n <= length x)%nat -> lookup m x = false).
    { intros x Hx. destruct (lookup m x) eqn:E; [|reflexivity]. apply lookup_true_len in E. lia. }
    split; [apply L; lia|]. split.
    + intros _. apply L. rewrite getter_len. lia.
    + exists O. cbn. now rewrite app_nil_r.
  - destruct (lookup m n || (hg && lookup m (getter n))) eqn:E.
    + destruct (IH m (n ++ [ch_us]) hg) as [A [B [k C]]].
      { rewrite app_length. cbn [length]. lia. }
      split; [exact A|]. split; [exact B|]. exists (S k). rewrite C, <- app_assoc. reflexivity.
    + apply orb_false_iff in E as [E1 E2]. split; [exact E1|]. split.
      * intros ->. exact E2.
      * exists O. cbn. now rewrite app_nil_r.
Qed.

Lemma make_name_unique_spec m n hg :
  let n' := fst (make_name_unique m n hg) in
  lookup m n' = false /\ (hg = true -> lookup m (getter n') = false) /\
  (exists k, n' = n ++ repeat ch_us k) /\
  snd (make_name_unique m n hg) = set_used (set_used m n' true) (getter n') hg.
Proof.
  unfold make_name_unique. cbn [fst snd].
  destruct (mnu_loop_spec (S (max_key_len m)) m n hg) as [A [B C]]; [lia|].
  repeat split; assumption.
Qed.

(* ---------- histories ---------- *)
Definition Inv (m : used_map) (h : hist) : Prop := forall k, lookup m k = true <-> In k (true_keys h).
(* no oneof's getter name is also a result *)
Definition getter_free (h : hist) : Prop := forall n, In (n, false) h -> ~ In (getter n) (map fst h).

Lemma in_full_names h x :
  In x (full_names h) <-> In x reserved \/ exists n hg, In (n, hg) h /\ (x = n \/ x = getter n).
Proof.
  induction h as [|[n hg] t IH]; cbn [full_names In].
  - split; [tauto|]. intros [H|[n [hg [[] _]]]]. exact H.
  - rewrite IH. split.
    + intros [E|[E|[H|[n0 [hg0 [H1 H2]]]]]].
      * right. exists n, hg. split; [now left|]. left. now symmetry.
      * right. exists n, hg. split; [now left|]. right. now symmetry.
      * tauto.
      * right. exists n0, hg0. tauto.
    + intros [H|[n0 [hg0 [[E|H1] H2]]]].
      * tauto.
      * inversion E; subst. destruct H2 as [->| ->]; tauto.
      * right. right. right. exists n0, hg0. tauto.
Qed.

Lemma in_true_keys h x :
  In x (true_keys h) <->
  In x reserved \/ exists n hg, In (n, hg) h /\ (x = n \/ (hg = true /\ x = getter n)).
Proof.
  induction h as [|[n hg] t IH]; cbn [true_keys In].
  - split; [tauto|]. intros [H|[n [hg [[] _]]]]. exact H.
  - rewrite in_app_iff, IH. split.
    + intros [E|[H|[H|[n0 [hg0 [H1 H2]]]]]].
      * right. exists n, hg. split; [now left|]. left. now symmetry.
      * destruct hg; [|destruct H]. destruct H as [E|[]]. right. exists n, true.
        split; [now left|]. right. split; [reflexivity|now symmetry].
      * tauto.
      * right. exists n0, hg0. tauto.
    + intros [H|[n0 [hg0 [[E|H1] H2]]]].
      * tauto.
      * inversion E; subst. destruct H2 as [->|[-> ->]]; [tauto|]. right. left. now left.
      * right. right. right. exists n0, hg0. tauto.
Qed.

Lemma true_keys_incl_full h : incl (true_keys h) (full_names h).
Proof.
  intros x H. apply in_true_keys in H. apply in_full_names.
  destruct H as [H|[n [hg [H1 H2]]]]; [tauto|]. right. exists n, hg. tauto.
Qed.

Lemma run_hist_incl : forall evs m h, incl h (run_hist evs m h).
Proof.
  induction evs as [|[n hg] t IH]; intros m h; cbn [run_hist]; [apply incl_refl|].
  destruct (make_name_unique m n hg) as [n' m'].
  intros x Hx. apply IH. now right.
Qed.

Lemma run_hist_nodup : forall evs m h,
  Inv m h -> NoDup (full_names h) -> getter_free (run_hist evs m h) ->
  NoDup (full_names (run_hist evs m h)).
Proof.
  induction evs as [|[nm hg] t IH]; intros m h HI HN HF; cbn [run_hist] in *; [exact HN|].
  pose proof (make_name_unique_spec m nm hg) as S.
  destruct (make_name_unique m nm hg) as [n' m'] eqn:EM. cbn [fst snd] in S.
  destruct S as [L1 [L2 [_ Em]]].
  assert (Hsub : incl ((n', hg) :: h) (run_hist t m' ((n', hg) :: h))) by apply run_hist_incl.
  (* the side condition, restricted to what exists now *)
  assert (Fa : forall n, In (n, false) ((n', hg) :: h) -> ~ In (getter n) (map fst ((n', hg) :: h))).
  { intros n Hn Hg. apply (HF n); [now apply Hsub|].
    apply in_map_iff in Hg as [[a b] [E Hab]]. apply in_map_iff. exists (a, b). split; [exact E|now apply Hsub]. }
  assert (Nk : forall x, In x (true_keys h) -> lookup m x = true) by (intros x; apply HI).
  assert (N1 : ~ In n' (full_names h)).
  { intros H. apply in_full_names in H. destruct H as [H|[n [hg0 [H1 [->| ->]]]]].
    - assert (lookup m n' = true) by (apply Nk, in_true_keys; tauto). congruence.
    - assert (lookup m n = true) by (apply Nk, in_true_keys; right; exists n, hg0; tauto). congruence.
    - destruct hg0.
      + assert (lookup m (getter n) = true) by (apply Nk, in_true_keys; right; exists n, true; tauto). congruence.
      + apply (Fa n); [now right|]. cbn [map fst In]. now left. }
  assert (N2 : ~ In (getter n') (full_names h)).
  { intros H. apply in_full_names in H. destruct H as [H|[n [hg0 [H1 [E|E]]]]].
    - now apply (reserved_no_get _ n') in H.
    - destruct hg.
      + assert (lookup m n = true) by (apply Nk, in_true_keys; right; exists n, hg0; tauto).
        rewrite <- E, L2 in H; [discriminate|reflexivity].
      + apply (Fa n'); [now left|]. cbn [map fst In]. right. apply in_map_iff. exists (n, hg0). split; [now rewrite E|exact H1].
    - apply getter_inj in E. subst n.
      assert (lookup m n' = true) by (apply Nk, in_true_keys; right; exists n', hg0; tauto). congruence. }
  apply IH.
  - (* Inv *)
    subst m'. intros k. rewrite !lookup_set. cbn [true_keys In]. rewrite in_app_iff.
    destruct (bytes_eqb k (getter n')) eqn:E1.
    + apply bytes_eqb_eq in E1. subst k. destruct hg.
      * split; [intros _; right; left; now left|reflexivity].
      * split; [discriminate|]. intros [H|[[]|H]].
        -- symmetry in H. now apply getter_neq in H.
        -- exfalso. apply N2. now apply true_keys_incl_full.
    + apply bytes_eqb_neq in E1. destruct (bytes_eqb k n') eqn:E2.
      * apply bytes_eqb_eq in E2. subst k. split; [intros _; now left|reflexivity].
      * apply bytes_eqb_neq in E2. rewrite (HI k). split; [tauto|].
        intros [H|[H|H]]; [congruence| |exact H].
        destruct hg; [|destruct H]. destruct H as [H|[]]. congruence.
  - (* NoDup *)
    cbn [full_names]. constructor.
    + intros [H|H]; [now apply getter_neq in H|exact (N1 H)].
    + constructor; assumption.
  - exact HF.
Qed.

Lemma nodup_getter_free h : NoDup (full_names h) -> getter_free h.
Proof.
  intros HN.
  assert (G : forall n hg n' hg', In (n, hg) h -> In (n', hg') h -> getter n <> n').
  { induction h as [|[a ha] t IH]; [intros ? ? ? ? []|].
    cbn [full_names] in HN. inversion HN as [|? ? Ha HN']; subst. inversion HN' as [|? ? Hga HN'']; subst.
    intros n hg n' hg' [[= <- <-]|H1] [[= <- <-]|H2].
    - apply getter_neq.
    - intros E. apply Hga. apply in_full_names. right. exists n', hg'. split; [exact H2|]. left. now rewrite E.
    - intros E. apply Ha. right. apply in_full_names. right. exists n, hg. split; [exact H1|]. right. now rewrite E.
    - now apply (IH HN'' n hg n' hg'). }
  intros n Hn Hg. apply in_map_iff in Hg as [[a b] [E Hab]]. cbn [fst] in E. subst a.
  now apply (G n false (getter n) b).
Qed.

Lemma mem_name_in x l : mem_name x l = true <-> In x l.
Proof.
  induction l as [|y t IH]; cbn [mem_name In]; [split; [discriminate|tauto]|].
  rewrite orb_true_iff, IH, bytes_eqb_eq. split; intros [H|H]; auto.
Qed.
Lemma nodupb_nodup l : nodupb l = true <-> NoDup l.
Proof.
  induction l as [|x t IH]; cbn [nodupb]; [split; [constructor|reflexivity]|].
  rewrite andb_true_iff, negb_true_iff, IH. split.
  - intros [H1 H2]. constructor; [|exact H2]. intros H. apply mem_name_in in H. congruence.
  - intros H. inversion H; subst. split; [|assumption].
    destruct (mem_name x t) eqn:E; [|reflexivity]. apply mem_name_in in E. contradiction.
Qed.
Lemma oneof_getter_free_iff h : oneof_getter_free h = true <-> getter_free h.
Proof.
  unfold oneof_getter_free, getter_free. rewrite forallb_forall. split.
  - intros H n Hn Hg. specialize (H _ Hn). cbn [fst snd orb] in H.
    apply negb_true_iff in H. apply mem_name_in in Hg. congruence.
  - intros H [n hg] Hn. cbn [fst snd]. destruct hg; [reflexivity|]. cbn [orb].
    apply negb_true_iff. destruct (mem_name (getter n) (map fst h)) eqn:E; [|reflexivity].
    apply mem_name_in in E. now apply H in Hn.
Qed.

Lemma inv_init : Inv init_used [].
Proof. intros k. unfold init_used. cbn [true_keys]. apply lookup_init. Qed.
Lemma nodup_reserved : NoDup reserved.
Proof. apply nodupb_nodup. reflexivity. Qed.

(* The identifiers (results, their Get-forms, the reserved method names) are
   pairwise distinct exactly when no oneof's getter name is also a result. *)
Theorem names_distinct_iff evs :
  let h := run_hist evs init_used [] in
  NoDup (full_names h) <-> getter_free h.
Proof.
  cbn zeta. split; [apply nodup_getter_free|].
  apply run_hist_nodup; [apply inv_init|apply nodup_reserved].
Qed.

Lemma run_hist_flags : forall evs m h x,
  (forall e, In e evs -> snd e = true) -> In x (run_hist evs m h) -> In x h \/ snd x = true.
Proof.
  induction evs as [|[n hg] t IH]; intros m h x He Hx; cbn [run_hist] in Hx; [now left|].
  destruct (make_name_unique m n hg) as [n' m'].
  destruct (IH _ _ _ (fun e H => He e (or_intror H)) Hx) as [[<-|H]|H].
  - right. cbn [snd]. apply (He (n, hg)). now left.
  - now left.
  - now right.
Qed.

(* every call with hasGetter = true (a message without oneofs): always distinct *)
Theorem names_distinct_fields evs :
  (forall e, In e evs -> snd e = true) ->
  NoDup (full_names (run_hist evs init_used [])).
Proof.
  intros He. apply names_distinct_iff. intros n Hn _.
  destruct (run_hist_flags _ _ _ _ He Hn) as [[]|H]. discriminate.
Qed.

(* ---------- messages ---------- *)
Lemma events_of_no_oneof : forall fs onames seen,
  (forall f, In f fs -> f_oneof f = None) ->
  forall e, In e (events_of fs onames seen) -> snd e = true.
Proof.
  induction fs as [|f t IH]; intros onames seen H e He; cbn [events_of] in He; [destruct He|].
  rewrite (H f (or_introl eq_refl)) in He. destruct He as [<-|He]; [reflexivity|].
  apply (IH onames seen); [|exact He]. intros f' Hf'. apply H. now right.
Qed.

Theorem message_names_distinct_iff fs onames :
  nodupb (full_names (message_hist fs onames)) = oneof_getter_free (message_hist fs onames).
Proof.
  unfold message_hist.
  pose proof (names_distinct_iff (events_of fs onames [])) as H. cbn zeta in H.
  rewrite <- oneof_getter_free_iff, <- nodupb_nodup in H.
  destruct (nodupb _), (oneof_getter_free _); try reflexivity; destruct H as [H1 H2];
    [discriminate (H1 eq_refl)|discriminate (H2 eq_refl)].
Qed.

Theorem message_names_distinct_no_oneof fs onames :
  (forall f, In f fs -> f_oneof f = None) ->
  NoDup (full_names (message_hist fs onames)).
Proof.
  intros H. apply names_distinct_fields. now apply events_of_no_oneof.
Qed.

(* every result is the requested name followed by underscores *)
Lemma run_hist_len : forall evs m h, length (run_hist evs m h) = (length evs + length h)%nat.
Proof.
  induction evs as [|[n hg] t IH]; intros m h; cbn [run_hist length]; [reflexivity|].
  destruct (make_name_unique m n hg) as [n' m']. rewrite IH. cbn [length]. lia.
Qed.

(* ---------- oneof wrapper types ---------- *)
Lemma mem_name_len x l : mem_name x l = true -> (length x <= max_name_len l)%nat.
Proof.
  induction l as [|y t IH]; cbn [mem_name max_name_len]; [discriminate|].
  destruct (bytes_eqb x y) eqn:E; cbn [orb].
  - apply bytes_eqb_eq in E. subst. lia.
  - intros H. specialize (IH H). lia.
Qed.
Lemma wrapper_loop_spec : forall fuel taken n,
  (max_name_len taken < length n + fuel)%nat -> mem_name (wrapper_loop fuel taken n) taken = false.
Proof.
  induction fuel as [|f IH]; intros taken n H; cbn [wrapper_loop].
  - destruct (mem_name n taken) eqn:E; [|reflexivity]. apply mem_name_len in E. lia.
  - destruct (mem_name n taken) eqn:E; [|exact E]. apply IH. rewrite app_length. cbn [length]. lia.
Qed.
Theorem wrapper_not_taken msg taken g : ~ In (wrapper_name msg taken g) taken.
Proof.
  intros H. apply mem_name_in in H. unfold wrapper_name in H.
  rewrite wrapper_loop_spec in H; [discriminate|lia].
Qed.
