(* Proofs about CodeGen/MapRangeModel.v: every safe loop shape yields the same
   result for every iteration order (permutation of the key list). *)
From Coq Require Import List Bool Permutation Sorted.
From PB Require Import CodeGen.MapRangeModel.
Import ListNotations.

Section SortP.
  Context {A K : Type} (key : A -> K) (ltb : K -> K -> bool).
  (* a strict total order on keys *)
  Hypothesis ltb_irrefl : forall a, ltb a a = false.
  Hypothesis ltb_trans : forall a b c, ltb a b = true -> ltb b c = true -> ltb a c = true.
  Hypothesis ltb_total : forall a b, ltb a b = false -> ltb b a = false -> a = b.

  Definition le (a b : A) : Prop := ltb (key b) (key a) = false.

  Lemma ltb_asym a b : ltb a b = true -> ltb b a = false.
  Proof.
    intros H. destruct (ltb b a) eqn:E; [|reflexivity].
    pose proof (ltb_trans _ _ _ H E) as C. rewrite ltb_irrefl in C. discriminate.
  Qed.

  Lemma le_trans a b c : le a b -> le b c -> le a c.
  Proof.
    unfold le. intros H1 H2. destruct (ltb (key c) (key a)) eqn:E; [|reflexivity].
    destruct (ltb (key b) (key c)) eqn:E2.
    - pose proof (ltb_trans _ _ _ E2 E). congruence.
    - pose proof (ltb_total _ _ E2 H2) as Q. rewrite Q in H1. congruence.
  Qed.

  Lemma insert_by_perm x l : Permutation (insert_by key ltb x l) (x :: l).
  Proof.
    induction l as [|y t IH]; cbn [insert_by]; [apply Permutation_refl|].
    destruct (ltb (key x) (key y)); [apply Permutation_refl|].
    apply Permutation_trans with (y :: x :: t); [now apply perm_skip|apply perm_swap].
  Qed.

  Lemma sort_by_perm l : Permutation (sort_by key ltb l) l.
  Proof.
    induction l as [|x t IH]; cbn [sort_by fold_right]; [apply perm_nil|].
    eapply Permutation_trans; [apply insert_by_perm|]. now apply perm_skip.
  Qed.

  Lemma insert_by_sorted x l :
    StronglySorted le l -> StronglySorted le (insert_by key ltb x l).
  Proof.
    induction l as [|y t IH]; intros H; cbn [insert_by].
    - constructor; constructor.
    - inversion H as [|? ? Ht Hy]; subst.
      destruct (ltb (key x) (key y)) eqn:E.
      + constructor; [exact H|]. constructor.
        * unfold le. now apply ltb_asym.
        * eapply Forall_impl; [|exact Hy]. intros z Hz. apply le_trans with y; [|exact Hz].
          unfold le. now apply ltb_asym.
      + constructor; [now apply IH|].
        apply (Permutation_Forall (Permutation_sym (insert_by_perm x t))).
        constructor; [exact E|exact Hy].
  Qed.

  Lemma sort_by_sorted l : StronglySorted le (sort_by key ltb l).
  Proof.
    induction l as [|x t IH]; cbn [sort_by fold_right]; [constructor|]. now apply insert_by_sorted.
  Qed.

  Lemma nodup_map_inj (l : list A) a b :
    NoDup (map key l) -> In a l -> In b l -> key a = key b -> a = b.
  Proof.
    induction l as [|x t IH]; [intros _ []|]. cbn [map]. intros H Ha Hb E.
    inversion H as [|? ? Hx Ht]; subst.
    destruct Ha as [<-|Ha], Hb as [<-|Hb]; [reflexivity| | |now apply IH].
    - exfalso. apply Hx. rewrite E. now apply in_map.
    - exfalso. apply Hx. rewrite <- E. now apply in_map.
  Qed.

  (* a list with distinct keys has exactly one sorted arrangement *)
  Lemma sorted_perm_unique : forall l1 l2,
    StronglySorted le l1 -> StronglySorted le l2 -> Permutation l1 l2 ->
    NoDup (map key l1) -> l1 = l2.
  Proof.
    induction l1 as [|a t1 IH]; intros l2 S1 S2 P N.
    - apply Permutation_nil in P. now subst.
    - destruct l2 as [|b t2]; [apply Permutation_sym, Permutation_nil in P; discriminate|].
      inversion S1 as [|? ? St1 Ha]; subst. inversion S2 as [|? ? St2 Hb]; subst.
      assert (Ia : In a (b :: t2)) by (apply (Permutation_in _ P); now left).
      assert (Ib : In b (a :: t1)) by (apply (Permutation_in _ (Permutation_sym P)); now left).
      assert (Lab : le a b).
      { destruct Ib as [<-|Ib]; [apply ltb_irrefl|]. rewrite Forall_forall in Ha. now apply Ha. }
      assert (Lba : le b a).
      { destruct Ia as [<-|Ia]; [apply ltb_irrefl|]. rewrite Forall_forall in Hb. now apply Hb. }
      assert (E : a = b).
      { apply (nodup_map_inj (a :: t1)); [exact N|now left|exact Ib|]. symmetry. now apply ltb_total. }
      subst b. f_equal. apply IH; [assumption|assumption|now apply Permutation_cons_inv in P|].
      cbn [map] in N. now inversion N.
  Qed.

  Theorem sort_by_order_invariant l1 l2 :
    Permutation l1 l2 -> NoDup (map key l1) -> sort_by key ltb l1 = sort_by key ltb l2.
  Proof.
    intros P N. apply sorted_perm_unique; try apply sort_by_sorted.
    - eapply Permutation_trans; [apply sort_by_perm|].
      eapply Permutation_trans; [exact P|apply Permutation_sym, sort_by_perm].
    - apply (Permutation_NoDup (l := map key l1)); [|exact N].
      apply Permutation_map, Permutation_sym, sort_by_perm.
  Qed.

  (* the sorted result is strictly increasing when the keys are distinct *)
  Lemma sorted_strict l :
    StronglySorted le l -> NoDup (map key l) ->
    StronglySorted (fun a b => ltb (key a) (key b) = true) l.
  Proof.
    induction l as [|a t IH]; intros S N; [constructor|].
    inversion S as [|? ? St Ha]; subst. cbn [map] in N. inversion N as [|? ? Na Nt]; subst.
    constructor; [now apply IH|]. rewrite Forall_forall in *. intros b Hb.
    destruct (ltb (key a) (key b)) eqn:E; [reflexivity|]. exfalso. apply Na.
    rewrite (ltb_total _ _ E (Ha b Hb)). now apply in_map.
  Qed.
End SortP.

(* ---------- CollectThenSort ---------- *)
Theorem collect_then_sort_invariant {K A KS} (guard : K -> bool) (f : K -> A) (key : A -> KS)
    (ltb : KS -> KS -> bool) :
  (forall a, ltb a a = false) ->
  (forall a b c, ltb a b = true -> ltb b c = true -> ltb a c = true) ->
  (forall a b, ltb a b = false -> ltb b a = false -> a = b) ->
  forall o1 o2, Permutation o1 o2 -> NoDup (map key (map f (filter guard o1))) ->
  collect_then_sort guard f key ltb o1 = collect_then_sort guard f key ltb o2.
Proof.
  intros I T Tot o1 o2 P N. unfold collect_then_sort.
  apply sort_by_order_invariant; try assumption.
  apply Permutation_map.
  clear N. induction P; cbn [filter].
  - apply perm_nil.
  - destruct (guard x); [now apply perm_skip|assumption].
  - destruct (guard x), (guard y); try apply Permutation_refl. apply perm_swap.
  - eapply Permutation_trans; eassumption.
Qed.

(* ---------- InsertIntoMapOrSet ---------- *)
Lemma fold_left_cons_in {K X} (guard : K -> bool) (f : K -> X) order : forall acc x,
  In x (fold_left (fun s k => if guard k then f k :: s else s) order acc) <->
  In x acc \/ exists k, In k order /\ guard k = true /\ f k = x.
Proof.
  induction order as [|k t IH]; intros acc x; cbn [fold_left].
  - split; [tauto|]. intros [H|[k [[] _]]]. exact H.
  - rewrite IH. split.
    + intros [H|[k' [H1 H2]]].
      * destruct (guard k) eqn:G; [|tauto]. destruct H as [<-|H]; [|tauto].
        right. exists k. split; [now left|]. tauto.
      * right. exists k'. split; [now right|exact H2].
    + intros [H|[k' [[<-|H1] [G E]]]].
      * left. destruct (guard k); [now right|exact H].
      * left. rewrite G. now left.
      * right. exists k'. tauto.
Qed.

Theorem insert_into_set_invariant {K X} (eqb : X -> X -> bool) (guard : K -> bool) (f : K -> X) :
  (forall a b, eqb a b = true <-> a = b) ->
  forall o1 o2, Permutation o1 o2 ->
  forall x, set_mem eqb (insert_into_set guard f o1) x = set_mem eqb (insert_into_set guard f o2) x.
Proof.
  intros Heq o1 o2 P x. unfold set_mem, insert_into_set.
  apply eq_true_iff_eq. rewrite !existsb_exists.
  assert (M : forall o y, In y (fold_left (fun s k => if guard k then f k :: s else s) o []) <->
                         exists k, In k o /\ guard k = true /\ f k = y).
  { intros o y. rewrite fold_left_cons_in. split; [intros [[]|H]; exact H|now right]. }
  split; intros [y [Hy E]]; exists y; (split; [|exact E]); apply M; apply M in Hy;
    destruct Hy as [k [Hk R]]; exists k; (split; [|exact R]).
  - now apply (Permutation_in _ P).
  - now apply (Permutation_in _ (Permutation_sym P)).
Qed.

Lemma insert_into_map_lookup {K V} (eqb : K -> K -> bool) (guard : K -> bool) (g : K -> V) :
  (forall a b, eqb a b = true <-> a = b) ->
  forall order acc k,
  map_lookup eqb (fold_left (fun m k => if guard k then (k, g k) :: m else m) order acc) k =
  if existsb (fun k' => eqb k k' && guard k') order then Some (g k) else map_lookup eqb acc k.
Proof.
  intros Heq. induction order as [|k0 t IH]; intros acc k; cbn [fold_left existsb]; [reflexivity|].
  rewrite IH. destruct (existsb (fun k' => eqb k k' && guard k') t); [now rewrite orb_true_r|].
  rewrite orb_false_r. destruct (guard k0) eqn:G; [|now rewrite andb_false_r].
  rewrite andb_true_r. cbn [map_lookup]. destruct (eqb k k0) eqn:E; [|reflexivity].
  apply Heq in E. now subst.
Qed.

Theorem insert_into_map_invariant {K V} (eqb : K -> K -> bool) (guard : K -> bool) (g : K -> V) :
  (forall a b, eqb a b = true <-> a = b) ->
  forall o1 o2, Permutation o1 o2 ->
  forall k, map_lookup eqb (insert_into_map guard g o1) k = map_lookup eqb (insert_into_map guard g o2) k.
Proof.
  intros Heq o1 o2 P k. unfold insert_into_map. rewrite !(insert_into_map_lookup eqb guard g Heq).
  replace (existsb (fun k' => eqb k k' && guard k') o2) with (existsb (fun k' => eqb k k' && guard k') o1); [reflexivity|].
  apply eq_true_iff_eq. rewrite !existsb_exists. split; intros [y [Hy E]]; exists y; (split; [|exact E]).
  - now apply (Permutation_in _ P).
  - now apply (Permutation_in _ (Permutation_sym P)).
Qed.

(* ---------- OrderInsensitiveFold ---------- *)
Theorem order_fold_invariant {K B} (op : B -> B -> B) (f : K -> B) :
  (forall a b c, op (op a b) c = op (op a c) b) ->
  forall o1 o2, Permutation o1 o2 -> forall init, order_fold op f init o1 = order_fold op f init o2.
Proof.
  intros Hc o1 o2 P. unfold order_fold. induction P; intros init; cbn [fold_left].
  - reflexivity.
  - apply IHP.
  - now rewrite Hc.
  - now rewrite IHP1.
Qed.

(* ---------- ReturnError ---------- *)
Theorem return_error_invariant {K} (bad : K -> bool) :
  forall o1 o2, Permutation o1 o2 ->
  is_some (return_error bad o1) = is_some (return_error bad o2).
Proof.
  intros o1 o2 P. unfold return_error.
  assert (F : forall o, is_some (find bad o) = existsb bad o).
  { induction o as [|k t IH]; cbn [find existsb]; [reflexivity|]. destruct (bad k); [reflexivity|exact IH]. }
  rewrite !F. apply eq_true_iff_eq. rewrite !existsb_exists.
  split; intros [y [Hy E]]; exists y; (split; [|exact E]).
  - now apply (Permutation_in _ P).
  - now apply (Permutation_in _ (Permutation_sym P)).
Qed.

(* ---------- all shapes together ---------- *)
Definition strict_total {K} (ltb : K -> K -> bool) : Prop :=
  (forall a, ltb a a = false) /\
  (forall a b c, ltb a b = true -> ltb b c = true -> ltb a c = true) /\
  (forall a b, ltb a b = false -> ltb b a = false -> a = b).

Theorem safe_shapes_order_invariant :
  (* CollectThenSort: distinct sort keys under a strict total order *)
  (forall K A KS (guard : K -> bool) (f : K -> A) (key : A -> KS) (ltb : KS -> KS -> bool),
     strict_total ltb -> forall o1 o2, Permutation o1 o2 ->
     NoDup (map key (map f (filter guard o1))) ->
     collect_then_sort guard f key ltb o1 = collect_then_sort guard f key ltb o2) /\
  (* InsertIntoMapOrSet, set form: same members *)
  (forall K X (eqb : X -> X -> bool) (guard : K -> bool) (f : K -> X),
     (forall a b, eqb a b = true <-> a = b) -> forall o1 o2, Permutation o1 o2 ->
     forall x, set_mem eqb (insert_into_set guard f o1) x = set_mem eqb (insert_into_set guard f o2) x) /\
  (* InsertIntoMapOrSet, map indexed by the range key: same bindings *)
  (forall K V (eqb : K -> K -> bool) (guard : K -> bool) (g : K -> V),
     (forall a b, eqb a b = true <-> a = b) -> forall o1 o2, Permutation o1 o2 ->
     forall k, map_lookup eqb (insert_into_map guard g o1) k = map_lookup eqb (insert_into_map guard g o2) k) /\
  (* OrderInsensitiveFold: a right-commutative operation (sum, max, or, and) *)
  (forall K B (op : B -> B -> B) (f : K -> B),
     (forall a b c, op (op a b) c = op (op a c) b) -> forall o1 o2, Permutation o1 o2 ->
     forall init, order_fold op f init o1 = order_fold op f init o2) /\
  (* ReturnError: whether an error is returned (not which key it names) *)
  (forall K (bad : K -> bool) o1 o2, Permutation o1 o2 ->
     is_some (return_error bad o1) = is_some (return_error bad o2)).
Proof.
  repeat split.
  - intros K A KS guard f key ltb [I [T Tot]]. now apply collect_then_sort_invariant.
  - intros. now apply insert_into_set_invariant.
  - intros. now apply insert_into_map_invariant.
  - intros. now apply order_fold_invariant.
  - intros. now apply return_error_invariant.
Qed.

(* ---------- the site table (regenerated from the source on every run) ---------- *)
From PB Require Import Gen.MapRangeSites.
Theorem all_sites_safe : forall s, In s sites -> site_ok s = true.
Proof. apply forallb_forall. vm_compute. reflexivity. Qed.
Theorem all_nondet_ok : forall n, In n nondet_sources -> nondet_ok n = true.
Proof. apply forallb_forall. vm_compute. reflexivity. Qed.
Theorem all_marshal_sites_ok : forall m, In m marshal_sites -> marshal_ok m = true.
Proof. apply forallb_forall. vm_compute. reflexivity. Qed.
