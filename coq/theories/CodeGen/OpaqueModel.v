(* Model of compiler/protogen/protogen_opaque.go (opaqueNewMessageHook,
   resolveCamelCaseConflicts) and of the accessor names of protogen_apilevel.go
   for the hybrid and opaque API.  Definitions only. *)
From Coq Require Import List NArith Bool.
From PB Require Import Base.PBytes CodeGen.NamesModel CodeGen.UniqueModel CodeGen.EmitModel.
Import ListNotations.
Open Scope N_scope.

Record ofield := mkofield {
  of_name : name;          (* protobuf field name *)
  of_num : N;              (* field number *)
  of_oneof : option N;     (* index of the containing oneof (real or synthetic) *)
  of_presence : bool       (* Desc.HasPresence() *)
}.

Definition str_build : name := [ "B"; "u"; "i"; "l"; "d" ]%byte.
Definition str_set : name := [ "S"; "e"; "t" ]%byte.
Definition str_has : name := [ "H"; "a"; "s" ]%byte.
Definition str_clear : name := [ "C"; "l"; "e"; "a"; "r" ]%byte.
Definition str_which : name := [ "W"; "h"; "i"; "c"; "h" ]%byte.

Fixpoint update {A} (l : list A) (i : nat) (f : A -> A) : list A :=
  match l, i with
  | [], _ => []
  | x :: t, O => f x :: t
  | x :: t, S j => x :: update t j f
  end.

Fixpoint assoc_idx (tbl : list (name * nat)) (k : name) : option nat :=
  match tbl with
  | [] => None
  | (k', i) :: t => if bytes_eqb k k' then Some i else assoc_idx t k
  end.

(* resolveCamelCaseConflict(f): suffix "_<number>" on the field's camelCase and on
   its oneof's camelCase *)
Definition resolve_one (fs : list ofield) (st : list name * list name) (i : nat) : list name * list name :=
  let '(cams, ocams) := st in
  match nth_error fs i with
  | None => st
  | Some f =>
    let suffix := ch_us :: itoa (of_num f) in
    (update cams i (fun c => c ++ suffix),
     match of_oneof f with
     | Some k => update ocams (N.to_nat k) (fun c => c ++ suffix)
     | None => ocams
     end)
  end.

(* resolveCamelCaseConflicts: camel2field maps a camelCase (as it was when the field
   was entered) to the first field that had it *)
Fixpoint resolve_loop (fs : list ofield) (idxs : list nat) (tbl : list (name * nat))
    (st : list name * list name) : list name * list name :=
  match idxs with
  | [] => st
  | i :: rest =>
    let ci := nth i (fst st) [] in
    match assoc_idx tbl ci with
    | Some j => resolve_loop fs rest tbl (resolve_one fs (resolve_one fs st j) i)
    | None => resolve_loop fs rest ((ci, i) :: tbl) st
    end
  end.

Record opaque_names := mkopaque {
  o_camel : list name;        (* Field.camelCase = BuilderFieldName() *)
  o_conflict : list bool;     (* Field.hasConflictHybrid *)
  o_ocamel : list name;       (* Oneof.camelCase *)
  o_oconflict : list bool     (* Oneof.hasConflictHybrid *)
}.

Definition opaque_hook (fs : list ofield) (onames : list name) : opaque_names :=
  (* "Build" is the one globally reserved name *)
  let cams0 := map (fun f => let c := go_camel_case (of_name f) in
                             if bytes_eqb c str_build then c ++ [ch_us] else c) fs in
  let ocams0 := map go_camel_case onames in
  let '(cams, ocams) := resolve_loop fs (seq 0 (length fs)) [] (cams0, ocams0) in
  (* the set of names in use: every field's, and the oneof's of every member *)
  let used := flat_map (fun p : ofield * name =>
                          match of_oneof (fst p) with
                          | Some k => [nth (N.to_nat k) ocams []; snd p]
                          | None => [snd p]
                          end) (combine fs cams) in
  let fconf := map (fun p : ofield * name =>
                      let ms := [str_set; str_get] ++ (if of_presence (fst p) then [str_has; str_clear] else []) in
                      existsb (fun m => mem_name (m ++ snd p) used) ms) (combine fs cams) in
  let member k := existsb (fun f => match of_oneof f with Some k' => k' =? k | None => false end) fs in
  let oconf := map (fun p : N * name =>
                      member (fst p) &&
                      existsb (fun m => mem_name (m ++ snd p) used) [str_has; str_clear; str_which])
                   (index_from 0 ocams) in
  mkopaque cams fconf ocams oconf.

(* accessor methods of the opaque API (Field.MethodName / Oneof.MethodName at
   API_OPAQUE): prefix + camelCase; [real k] = oneof k is not synthetic *)
Definition opaque_methods (fs : list ofield) (onames : list name) (real : list bool) : list name :=
  let o := opaque_hook fs onames in
  flat_map (fun p : ofield * name =>
              [str_get ++ snd p; str_set ++ snd p] ++
              (if of_presence (fst p) then [str_has ++ snd p; str_clear ++ snd p] else []))
           (combine fs (o_camel o)) ++
  flat_map (fun p : bool * name =>
              if fst p then [str_has ++ snd p; str_clear ++ snd p; str_which ++ snd p] else [])
           (combine real (o_ocamel o)).
