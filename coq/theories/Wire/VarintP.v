(* Proofs about the varint codec of Wire/Model.v *)
From Coq Require Import List Arith NArith ZArith Lia Bool.
From Coq Require Import ZifyBool ZifyNat ZifyN.
From PB Require Import Base.PBytes Wire.WireModel.
Ltac Zify.zify_post_hook ::= Z.div_mod_to_equations.
Import ListNotations.
Open Scope N_scope.

Lemma dec_enc_aux : forall k v shift acc rest,
  (0 < k)%nat ->
  v < 2^(7 * (N.of_nat k - 1) + 1) ->
  dec_varint_aux k shift acc (enc_varint_fuel k v ++ rest) = Ok (acc + v * 2^shift, rest).
Proof.
  induction k as [|k IH]; intros v shift acc rest Hk Hv; [lia|].
  cbn [enc_varint_fuel dec_varint_aux].
  destruct k as [|k'].
  - replace (7 * (N.of_nat 1 - 1) + 1) with 1 in Hv by lia. change (2^1) with 2 in Hv.
    replace (v <? 128) with true by lia. cbn [app].
    rewrite b2n_n2b by lia. replace (v <? 2) with true by lia. reflexivity.
  - destruct (v <? 128) eqn:Hlt.
    + cbn [app]. rewrite b2n_n2b by lia. rewrite Hlt. reflexivity.
    + cbn [app]. rewrite b2n_n2b by (pose proof (N.mod_lt v 128); lia).
      replace (v mod 128 + 128 <? 128) with false by lia.
      rewrite IH.
      * f_equal. f_equal.
        replace (v mod 128 + 128 - 128) with (v mod 128) by lia.
        rewrite N.pow_add_r. change (2^7) with 128.
        pose proof (N.div_mod v 128). nia.
      * lia.
      * replace (7 * (N.of_nat (S (S k')) - 1) + 1) with (7 * (N.of_nat (S k') - 1) + 1 + 7) in Hv by lia.
        rewrite N.pow_add_r in Hv. change (2^7) with 128 in Hv.
        apply N.div_lt_upper_bound; lia.
Qed.

Theorem varint_roundtrip v rest : v < 2^64 -> dec_varint (enc_varint v ++ rest) = Ok (v, rest).
Proof.
  intros Hv. unfold dec_varint, enc_varint.
  rewrite dec_enc_aux; [| lia | exact Hv].
  f_equal. f_equal. change (2^0) with 1. lia.
Qed.
