(* Proofs about the varint codec of Wire/WireModel.v *)
From Coq Require Import List Arith NArith ZArith Lia Bool.
From Coq Require Import ZifyBool ZifyNat ZifyN.
From PB Require Import Base.PBytes Wire.WireModel Wire.WireGrammar.
Ltac Zify.zify_post_hook ::= Z.div_mod_to_equations.
Import ListNotations.
Open Scope N_scope.

(* ------------------------------------------------------------------ *)
(* round trip                                                          *)
Lemma dec_enc_aux : forall k v shift acc rest,
  (0 < k)%nat ->
  v < 2^(7 * (N.of_nat k - 1) + 1) ->
  dec_varint_aux k shift acc (enc_varint_fuel k v ++ rest) = Ok (acc + v * 2^shift, rest).
Proof.
  induction k as [|k IH]; intros v shift acc rest Hk Hv; [lia|].
  cbn [enc_varint_fuel dec_varint_aux].
  destruct k as [|k'].
  - replace (7 * (N.of_nat 1 - 1) + 1) with 1 in Hv by lia. change (2^1) with 2 in Hv.
    replace (v <? 128) with true by lia. cbn [app].
    rewrite b2n_n2b by lia. replace (v <? 2) with true by lia. reflexivity.
  - destruct (v <? 128) eqn:Hlt.
    + cbn [app]. rewrite b2n_n2b by lia. rewrite Hlt. reflexivity.
    + cbn [app]. rewrite b2n_n2b by (pose proof (N.mod_lt v 128); lia).
      replace (v mod 128 + 128 <? 128) with false by lia.
      rewrite IH.
      * f_equal. f_equal.
        replace (v mod 128 + 128 - 128) with (v mod 128) by lia.
        rewrite N.pow_add_r. change (2^7) with 128.
        pose proof (N.div_mod v 128). nia.
      * lia.
      * replace (7 * (N.of_nat (S (S k')) - 1) + 1) with (7 * (N.of_nat (S k') - 1) + 1 + 7) in Hv by lia.
        rewrite N.pow_add_r in Hv. change (2^7) with 128 in Hv.
        apply N.div_lt_upper_bound; lia.
Qed.

Theorem varint_roundtrip v rest : v < 2^64 -> dec_varint (enc_varint v ++ rest) = Ok (v, rest).
Proof.
  intros Hv. unfold dec_varint, enc_varint.
  rewrite dec_enc_aux; [| lia | exact Hv].
  f_equal. f_equal. change (2^0) with 1. lia.
Qed.

(* ------------------------------------------------------------------ *)
(* the decoder accepts exactly the varint grammar                      *)
Lemma varint_shape_nonempty k p : varint_shape k p -> p <> [].
Proof. destruct k, p; cbn; intros H; try contradiction; discriminate. Qed.

Lemma varint_shape_len k p : varint_shape k p -> (1 <= length p <= k)%nat.
Proof.
  revert p. induction k as [|k IH]; intros p H; [destruct p; contradiction|].
  destruct p as [|b r]; [contradiction|]. cbn [varint_shape] in H.
  destruct k as [|k'].
  - destruct H as [-> _]. cbn. lia.
  - destruct H as [[_ ->]|[_ H]]; [cbn; lia|]. apply IH in H. cbn [length]. lia.
Qed.

Lemma varint_shape_mono k p : varint_shape k p -> varint_shape (S k) p.
Proof.
  revert p. induction k as [|k IH]; intros p H; [destruct p; contradiction|].
  destruct p as [|b r]; [contradiction|].
  cbn [varint_shape] in H. destruct k as [|k'].
  - destruct H as [-> Hb]. cbn [varint_shape]. left. split; [lia|reflexivity].
  - change (varint_shape (S (S (S k'))) (b :: r))
      with ((b2n b < 128 /\ r = []) \/ (128 <= b2n b /\ varint_shape (S (S k')) r)).
    destruct H as [H|[Hb H]]; [left; exact H|right]. split; [exact Hb|]. apply IH. exact H.
Qed.

Lemma varint_val_lt p : varint_val p < 128 ^ N.of_nat (length p).
Proof.
  induction p as [|b r IH]; [cbn; lia|].
  cbn [varint_val length]. rewrite Nnat.Nat2N.inj_succ, N.pow_succ_r'.
  pose proof (N.mod_lt (b2n b) 128). lia.
Qed.

Lemma dec_aux_sound : forall k shift acc bs v r,
  dec_varint_aux k shift acc bs = Ok (v, r) ->
  exists p, bs = p ++ r /\ varint_shape k p /\ v = acc + varint_val p * 2^shift.
Proof.
  induction k as [|k IH]; intros shift acc bs v r H; [discriminate|].
  cbn [dec_varint_aux] in H. destruct bs as [|b t]; [discriminate|].
  pose proof (b2n_lt b) as Hb.
  destruct k as [|k'].
  - destruct (b2n b <? 2) eqn:E; [|discriminate]. inversion H; subst.
    exists [b]. split; [reflexivity|]. split.
    + cbn. split; [reflexivity|lia].
    + cbn [varint_val]. rewrite N.mod_small by lia. f_equal. lia.
  - destruct (b2n b <? 128) eqn:E.
    + inversion H; subst. exists [b]. split; [reflexivity|]. split.
      * cbn [varint_shape]. left. split; [lia|reflexivity].
      * cbn [varint_val]. rewrite N.mod_small by lia. f_equal. lia.
    + apply IH in H. destruct H as (p & -> & Hs & ->).
      exists (b :: p). split; [reflexivity|]. split.
      * cbn [varint_shape]. right. split; [lia|exact Hs].
      * cbn [varint_val]. rewrite N.pow_add_r. change (2^7) with 128.
        replace (b2n b mod 128) with (b2n b - 128) by lia.
        remember (b2n b - 128) as y. remember (2^shift) as s. lia.
Qed.

Lemma dec_aux_complete : forall k p shift acc r,
  varint_shape k p ->
  dec_varint_aux k shift acc (p ++ r) = Ok (acc + varint_val p * 2^shift, r).
Proof.
  induction k as [|k IH]; intros p shift acc r H; [destruct p; contradiction|].
  destruct p as [|b t]; [contradiction|].
  pose proof (b2n_lt b) as Hb.
  cbn [varint_shape] in H. cbn [app dec_varint_aux varint_val].
  destruct k as [|k'].
  - destruct H as [-> H2]. replace (b2n b <? 2) with true by lia.
    cbn [app varint_val]. rewrite N.mod_small by lia. f_equal. f_equal. lia.
  - destruct H as [[H1 ->]|[H1 H2]].
    + replace (b2n b <? 128) with true by lia. cbn [app varint_val].
      rewrite N.mod_small by lia. f_equal. f_equal. lia.
    + replace (b2n b <? 128) with false by lia.
      rewrite IH by exact H2. f_equal. f_equal.
      rewrite N.pow_add_r. change (2^7) with 128.
      replace (b2n b mod 128) with (b2n b - 128) by lia.
      remember (b2n b - 128) as y. remember (2^shift) as s. lia.
Qed.

Theorem dec_varint_sound bs v r :
  dec_varint bs = Ok (v, r) -> exists p, bs = p ++ r /\ varint_bytes p /\ varint_val p = v.
Proof.
  unfold dec_varint. intros H. apply dec_aux_sound in H. destruct H as (p & -> & Hs & ->).
  exists p. split; [reflexivity|]. split; [exact Hs|]. change (2^0) with 1. lia.
Qed.

Theorem dec_varint_complete p r :
  varint_bytes p -> dec_varint (p ++ r) = Ok (varint_val p, r).
Proof.
  intros H. unfold dec_varint. rewrite dec_aux_complete by exact H.
  f_equal. f_equal. change (2^0) with 1. lia.
Qed.

Theorem dec_varint_iff bs v r :
  dec_varint bs = Ok (v, r) <-> exists p, bs = p ++ r /\ varint_bytes p /\ varint_val p = v.
Proof.
  split; [apply dec_varint_sound|]. intros (p & -> & H & <-). now apply dec_varint_complete.
Qed.

(* decoded values fit in 64 bits *)
Lemma varint_shape_val_bound : forall k p,
  varint_shape k p -> varint_val p < 2^(7 * (N.of_nat k - 1) + 1).
Proof.
  induction k as [|k IH]; intros p H; [destruct p; contradiction|].
  destruct p as [|b t]; [contradiction|]. pose proof (b2n_lt b) as Hb.
  cbn [varint_shape] in H. cbn [varint_val].
  destruct k as [|k'].
  - destruct H as [-> H]. cbn [varint_val]. rewrite N.mod_small by lia.
    replace (7 * (N.of_nat 1 - 1) + 1) with 1 by lia. change (2^1) with 2. lia.
  - replace (7 * (N.of_nat (S (S k')) - 1) + 1) with (7 * (N.of_nat (S k') - 1) + 1 + 7) by lia.
    rewrite N.pow_add_r. change (2^7) with 128.
    assert (0 < 2 ^ (7 * (N.of_nat (S k') - 1) + 1)) by (apply N.neq_0_lt_0, N.pow_nonzero; discriminate).
    destruct H as [[H1 ->]|[H1 H2]].
    + cbn [varint_val]. rewrite N.mod_small by lia. lia.
    + apply IH in H2. pose proof (N.mod_lt (b2n b) 128). lia.
Qed.

Lemma varint_bytes_val_bound p : varint_bytes p -> varint_val p < 2^64.
Proof. intros H. apply varint_shape_val_bound in H. exact H. Qed.

Lemma dec_varint_bound bs v r : dec_varint bs = Ok (v, r) -> v < 2^64.
Proof. intros H. apply dec_varint_sound in H. destruct H as (p & _ & H & <-). now apply varint_bytes_val_bound. Qed.

(* the declarative reading of [varint_bytes] *)
Lemma varint_shape_decl : forall k p,
  varint_shape k p <->
  exists init last, p = init ++ [last] /\ Forall (fun b => 128 <= b2n b) init /\
                    (length init < k)%nat /\
                    b2n last < (if Nat.eqb (S (length init)) k then 2 else 128).
Proof.
  induction k as [|k IH]; intros p.
  - split; [destruct p; contradiction|]. intros (i & l & _ & _ & H & _). lia.
  - destruct p as [|b t].
    + split; [contradiction|]. intros (i & l & H & _). destruct i; discriminate.
    + cbn [varint_shape]. destruct k as [|k'].
      * split.
        -- intros [-> H]. exists [], b. cbn. repeat split; auto; lia.
        -- intros (i & l & H & _ & Hlen & Hl). destruct i; [|cbn in Hlen; lia].
           cbn in H. inversion H; subst. cbn in Hl. split; [reflexivity|exact Hl].
      * split.
        -- intros [[H1 ->]|[H1 H2]].
           ++ exists [], b. cbn. repeat split; auto; lia.
           ++ apply IH in H2. destruct H2 as (i & l & -> & HF & Hlen & Hl).
              exists (b :: i), l. cbn [app length]. repeat split; auto; try lia.
        -- intros (i & l & H & HF & Hlen & Hl). destruct i as [|b' i'].
           ++ cbn in H. inversion H; subst. left. cbn in Hl. split; [exact Hl|reflexivity].
           ++ cbn in H. inversion H; subst. right. inversion HF; subst. split; [assumption|].
              apply IH. exists i', l. cbn [length] in *. repeat split; auto; try lia.
Qed.

Theorem varint_bytes_decl p :
  varint_bytes p <->
  exists init last, p = init ++ [last] /\ Forall (fun b => 128 <= b2n b) init /\
                    (length init <= 9)%nat /\
                    b2n last < (if Nat.eqb (length init) 9 then 2 else 128).
Proof.
  unfold varint_bytes. rewrite varint_shape_decl. split; intros (i & l & H1 & H2 & H3 & H4); exists i, l;
    repeat split; auto; try lia.
Qed.

(* ------------------------------------------------------------------ *)
(* shape, value and length of the encoder's output                     *)
Lemma enc_fuel_shape : forall k v,
  (0 < k)%nat -> v < 2^(7 * (N.of_nat k - 1) + 1) ->
  varint_shape k (enc_varint_fuel k v) /\ varint_val (enc_varint_fuel k v) = v.
Proof.
  induction k as [|k IH]; intros v Hk Hv; [lia|].
  cbn [enc_varint_fuel]. destruct k as [|k'].
  - replace (7 * (N.of_nat 1 - 1) + 1) with 1 in Hv by lia. change (2^1) with 2 in Hv.
    replace (v <? 128) with true by lia. cbn [varint_shape varint_val].
    rewrite b2n_n2b by lia. rewrite N.mod_small by lia. split; [split; [reflexivity|lia]|lia].
  - destruct (v <? 128) eqn:Hlt.
    + cbn [varint_shape varint_val]. rewrite b2n_n2b by lia. rewrite N.mod_small by lia.
      split; [left; split; [lia|reflexivity]|lia].
    + assert (Hq : v / 128 < 2 ^ (7 * (N.of_nat (S k') - 1) + 1)).
      { replace (7 * (N.of_nat (S (S k')) - 1) + 1) with (7 * (N.of_nat (S k') - 1) + 1 + 7) in Hv by lia.
        rewrite N.pow_add_r in Hv. change (2^7) with 128 in Hv.
        apply N.div_lt_upper_bound; lia. }
      destruct (IH (v / 128) ltac:(lia) Hq) as [Hs Hval].
      pose proof (N.mod_lt v 128 ltac:(lia)).
      cbn [varint_shape varint_val]. rewrite b2n_n2b by lia. rewrite Hval.
      split; [right; split; [lia|exact Hs]|].
      replace ((v mod 128 + 128) mod 128) with (v mod 128) by lia.
      pose proof (N.div_mod v 128). lia.
Qed.

Lemma enc_varint_shape v : v < 2^64 -> varint_bytes (enc_varint v) /\ varint_val (enc_varint v) = v.
Proof. intros H. apply enc_fuel_shape; [lia|exact H]. Qed.

(* canonical digit strings: non-empty, top digit non-zero *)
Definition canonical (p : list byte) : Prop := exists i l, p = i ++ [l] /\ b2n l mod 128 <> 0.

Lemma canonical_lower p : canonical p -> 128 ^ (N.of_nat (length p) - 1) <= varint_val p.
Proof.
  intros (i & l & -> & Hl). induction i as [|b i IH].
  - cbn. lia.
  - cbn [app varint_val length]. rewrite app_length in *. cbn [length] in *.
    replace (N.of_nat (S (length i + 1)) - 1) with (N.succ (N.of_nat (length i + 1) - 1)) by lia.
    rewrite N.pow_succ_r'. lia.
Qed.

Lemma enc_fuel_canonical : forall k v,
  (0 < k)%nat -> 0 < v -> v < 2^(7 * (N.of_nat k - 1) + 1) -> canonical (enc_varint_fuel k v).
Proof.
  induction k as [|k IH]; intros v Hk Hv Hcap; [lia|].
  cbn [enc_varint_fuel]. destruct (v <? 128) eqn:Hlt.
  - exists [], (n2b v). split; [reflexivity|]. rewrite b2n_n2b by lia. rewrite N.mod_small by lia. lia.
  - destruct k as [|k'].
    + replace (7 * (N.of_nat 1 - 1) + 1) with 1 in Hcap by lia. change (2^1) with 2 in Hcap. lia.
    + assert (Hq : v / 128 < 2 ^ (7 * (N.of_nat (S k') - 1) + 1)).
      { replace (7 * (N.of_nat (S (S k')) - 1) + 1) with (7 * (N.of_nat (S k') - 1) + 1 + 7) in Hcap by lia.
        rewrite N.pow_add_r in Hcap. change (2^7) with 128 in Hcap.
        apply N.div_lt_upper_bound; lia. }
      destruct (IH (v / 128) ltac:(lia) ltac:(lia) Hq) as (i & l & E & Hl).
      exists (n2b (v mod 128 + 128) :: i), l. rewrite E. split; [reflexivity|exact Hl].
Qed.

(* the closed form of SizeVarint counts base-128 digits *)
Lemma size_varint_digits v k :
  0 < v -> (1 <= k <= 10) -> 128^(k-1) <= v < 128^k -> size_varint v = k.
Proof.
  intros Hv Hk [Hlo Hhi]. unfold size_varint.
  rewrite N.size_log2 by lia.
  assert (H7 : forall n, 128^n = 2^(7*n)) by (intros n; rewrite N.pow_mul_r; reflexivity).
  rewrite H7 in Hlo, Hhi.
  apply N.log2_le_pow2 in Hlo; [|exact Hv].
  apply N.log2_lt_pow2 in Hhi; [|exact Hv].
  lia.
Qed.

Lemma size_varint_upper v k : (1 <= k <= 10) -> v < 128^k -> size_varint v <= k.
Proof.
  intros Hk Hhi. unfold size_varint. destruct (N.eq_dec v 0) as [->|Hv].
  - cbn. lia.
  - rewrite N.size_log2 by lia.
    assert (H7 : 128^k = 2^(7*k)) by (rewrite N.pow_mul_r; reflexivity).
    rewrite H7 in Hhi. apply N.log2_lt_pow2 in Hhi; lia.
Qed.

Lemma canonical_size p : canonical p -> (length p <= 10)%nat -> size_varint (varint_val p) = N.of_nat (length p).
Proof.
  intros Hc Hlen. pose proof (canonical_lower p Hc) as Hlo. pose proof (varint_val_lt p) as Hhi.
  assert (1 <= length p)%nat by (destruct Hc as (i & l & -> & _); rewrite app_length; cbn; lia).
  assert (0 < 128 ^ (N.of_nat (length p) - 1)) by (apply N.neq_0_lt_0, N.pow_nonzero; discriminate).
  apply size_varint_digits; lia.
Qed.

Theorem enc_varint_length v : v < 2^64 -> N.of_nat (length (enc_varint v)) = size_varint v.
Proof.
  intros Hv. destruct (N.eq_dec v 0) as [->|Hnz]; [reflexivity|].
  destruct (enc_varint_shape v Hv) as [Hs Hval].
  pose proof (varint_shape_len _ _ Hs).
  rewrite <- Hval at 2. symmetry. apply canonical_size; [|lia].
  apply enc_fuel_canonical; [lia|lia|exact Hv].
Qed.

Lemma size_varint_range v : v < 2^64 -> 1 <= size_varint v <= 10.
Proof.
  intros Hv. rewrite <- enc_varint_length by exact Hv.
  destruct (enc_varint_shape v Hv) as [Hs _]. apply varint_shape_len in Hs. lia.
Qed.

(* minimality: every byte string that decodes to v is at least as long as enc_varint v *)
Theorem varint_minimal bs v r :
  dec_varint bs = Ok (v, r) -> (length (enc_varint v) <= length bs - length r)%nat.
Proof.
  intros H. pose proof (dec_varint_bound _ _ _ H) as Hb.
  apply dec_varint_sound in H. destruct H as (p & -> & Hs & <-).
  rewrite app_length. replace (length p + length r - length r)%nat with (length p) by lia.
  pose proof (varint_shape_len _ _ Hs).
  pose proof (enc_varint_length (varint_val p) Hb).
  pose proof (size_varint_upper (varint_val p) (N.of_nat (length p)) ltac:(lia) (varint_val_lt p)). lia.
Qed.

(* length = max 1 (ceil (bitlen / 7)) *)
Theorem enc_varint_length_bits v :
  v < 2^64 -> N.of_nat (length (enc_varint v)) = N.max 1 ((N.size v + 6) / 7).
Proof.
  intros Hv. rewrite enc_varint_length by exact Hv. unfold size_varint.
  assert (N.size v <= 64).
  { destruct (N.eq_dec v 0) as [->|Hnz]; [cbn; lia|]. rewrite N.size_log2 by lia.
    apply N.log2_lt_pow2 in Hv; lia. }
  lia.
Qed.

(* decoding consumes at least one byte and never more than the input *)
Lemma dec_varint_suffix bs v r : dec_varint bs = Ok (v, r) -> exists p, bs = p ++ r /\ (1 <= length p <= 10)%nat.
Proof.
  intros H. apply dec_varint_sound in H. destruct H as (p & -> & Hs & _).
  exists p. split; [reflexivity|]. now apply varint_shape_len.
Qed.

Lemma dec_aux_not_fuel : forall k s a bs, dec_varint_aux k s a bs <> Err OutOfFuel.
Proof.
  induction k as [|k IH]; intros s a bs; cbn [dec_varint_aux]; [discriminate|].
  destruct bs as [|b t]; [discriminate|]. destruct k as [|k'].
  - destruct (b2n b <? 2); discriminate.
  - destruct (b2n b <? 128); [discriminate|]. apply IH.
Qed.
Lemma dec_varint_not_fuel bs : dec_varint bs <> Err OutOfFuel.
Proof. apply dec_aux_not_fuel. Qed.

(* the result on an extended input: anything but Truncated is already decided *)
Lemma dec_aux_ext : forall k shift acc bs ext,
  match dec_varint_aux k shift acc bs with
  | Ok (v, r) => dec_varint_aux k shift acc (bs ++ ext) = Ok (v, r ++ ext)
  | Err Truncated => True
  | Err e => dec_varint_aux k shift acc (bs ++ ext) = Err e
  end.
Proof.
  induction k as [|k IH]; intros shift acc bs ext; cbn [dec_varint_aux]; [reflexivity|].
  destruct bs as [|b t]; [exact I|]. cbn [app]. destruct k as [|k'].
  - destruct (b2n b <? 2); reflexivity.
  - destruct (b2n b <? 128); [reflexivity|]. apply IH.
Qed.

Lemma dec_varint_ext bs ext :
  match dec_varint bs with
  | Ok (v, r) => dec_varint (bs ++ ext) = Ok (v, r ++ ext)
  | Err Truncated => True
  | Err e => dec_varint (bs ++ ext) = Err e
  end.
Proof. apply dec_aux_ext. Qed.

(* a proper prefix of a varint is reported as Truncated *)
Lemma dec_aux_prefix : forall k p shift acc q1 q2,
  varint_shape k p -> p = q1 ++ q2 -> q2 <> [] -> dec_varint_aux k shift acc q1 = Err Truncated.
Proof.
  induction k as [|k IH]; intros p shift acc q1 q2 Hs E Hq2; [destruct p; contradiction|].
  destruct p as [|b t]; [contradiction|]. cbn [dec_varint_aux].
  destruct q1 as [|b1 q1']; [reflexivity|]. cbn [app] in E. inversion E; subst b1 t. clear E.
  pose proof (b2n_lt b). cbn [varint_shape] in Hs. destruct k as [|k'].
  - destruct Hs as [Hn _]. destruct q1'; destruct q2; try discriminate; congruence.
  - destruct Hs as [[_ Hn]|[Hb Hs]].
    + destruct q1'; destruct q2; try discriminate; congruence.
    + replace (b2n b <? 128) with false by lia. eapply IH; eauto.
Qed.
