(* Support for go_eq_spec (Wire/WireGoP.v): representation of byte strings and
   results, bit-twiddling lemmas over Z.
   go_eq_spec: the Go functions of encoding/protowire/wire.go, as translated to
   Gallina by srcmodel on every run (Gen/WireGo.v), equal the specification
   functions of Wire/WireModel.v on their domains.  If wire.go changes, WireGo.v
   changes, and these proofs either still go through or break. *)
From Coq Require Import List Arith NArith ZArith Lia Bool.
From Coq Require Import ZifyBool ZifyNat ZifyN.
From PB Require Import Base.PBytes Base.GoInt Wire.WireModel Wire.WireGrammar Wire.VarintP Wire.ScanP Wire.PrimP.
From PB Require Import Gen.WireGo.
Ltac Zify.zify_post_hook ::= Z.div_mod_to_equations.
Import ListNotations.
Open Scope Z_scope.

(* byte strings as the translated code sees them *)
Definition zbytes (b : list byte) : list Z := map (fun x => Z.of_N (b2n x)) b.
(* a (value, n) result pair of a Consume* function: n is the number of bytes
   consumed or the negative error code *)
Definition zres_vn (R : result (N * list byte)) (bs : list byte) : Z * Z :=
  match R with
  | Ok (v, r) => (Z.of_N v, Z.of_nat (length bs - length r))
  | Err e => (0, werr_code e)
  end.

Lemma zbytes_app a b : zbytes (a ++ b) = zbytes a ++ zbytes b.
Proof. apply map_app. Qed.
Lemma zbytes_length b : length (zbytes b) = length b.
Proof. apply map_length. Qed.
Lemma len_zbytes b : len (zbytes b) = Z.of_nat (length b).
Proof. unfold len. now rewrite zbytes_length. Qed.
Lemma len_cons {A} (x : A) l : len (x :: l) = len l + 1.
Proof. unfold len. cbn [length]. lia. Qed.
Lemma len_nonneg {A} (l : list A) : 0 <= len l.
Proof. unfold len. lia. Qed.
Lemma zb_byte x : (x < 256)%N -> Z.of_N (b2n (n2b x)) = Z.of_N x.
Proof. intros H. now rewrite b2n_n2b. Qed.

(* ------------------------------------------------------------------ *)
(* bit-twiddling lemmas over Z                                          *)
Lemma lor_disjoint a b : Z.land a b = 0 -> Z.lor a b = a + b.
Proof. intros H. rewrite <- (Z.lxor_lor _ _ H). symmetry. apply Z.add_nocarry_lxor. exact H. Qed.

Lemma z_cont_byte v k :
  0 <= v -> 0 <= k -> wrap_u8 (Z.lor (Z.land (Z.shiftr v k) 127) 128) = (v / 2^k) mod 128 + 128.
Proof.
  intros Hv Hk. unfold wrap_u8. rewrite Z.shiftr_div_pow2 by exact Hk.
  assert (Hl : Z.land (Z.land (v / 2^k) 127) 128 = 0).
  { rewrite <- Z.land_assoc. change (Z.land 127 128) with 0. apply Z.land_0_r. }
  rewrite (lor_disjoint _ _ Hl). change 127 with (Z.ones 7). rewrite Z.land_ones by lia.
  change (2^7) with 128. pose proof (Z.mod_pos_bound (v / 2^k) 128 ltac:(lia)).
  apply Z.mod_small. lia.
Qed.

Lemma z_last_byte v k : 0 <= k -> 0 <= v < 2^(k + 7) -> wrap_u8 (Z.shiftr v k) = v / 2^k.
Proof.
  intros Hk Hv. unfold wrap_u8. rewrite Z.shiftr_div_pow2 by exact Hk. apply Z.mod_small.
  rewrite Z.pow_add_r in Hv by lia. change (2^7) with 128 in Hv.
  assert (0 < 2^k) by (apply Z.pow_pos_nonneg; lia).
  split; [apply Z.div_pos; lia|]. apply Z.div_lt_upper_bound; lia.
Qed.

Lemma div_lt_test z k : 0 <= z -> 0 <= k -> (z / 2^k <? 128) = (z <? 2^(k + 7)).
Proof.
  intros Hz Hk. rewrite Z.pow_add_r by lia. change (2^7) with 128.
  assert (0 < 2^k) by (apply Z.pow_pos_nonneg; lia).
  destruct (z <? 2^k * 128) eqn:E.
  - apply Z.ltb_lt. apply Z.div_lt_upper_bound; lia.
  - apply Z.ltb_ge. apply Z.div_le_lower_bound; lia.
Qed.

Lemma land_ones_shiftl a b k : 0 <= k -> 0 <= a < 2^k -> Z.land a (Z.shiftl b k) = 0.
Proof.
  intros Hk Ha. rewrite <- (Z.mod_small a (2^k)) by exact Ha. rewrite <- Z.land_ones by exact Hk.
  rewrite <- Z.land_assoc. rewrite (Z.land_comm (Z.ones k)). rewrite Z.land_ones by exact Hk.
  rewrite Z.shiftl_mul_pow2 by exact Hk. rewrite Z.mod_mul by (apply Z.pow_nonzero; lia). apply Z.land_0_r.
Qed.

Lemma lor_shiftl_add a b k : 0 <= k -> 0 <= a < 2^k -> Z.lor a (Z.shiftl b k) = a + b * 2^k.
Proof.
  intros Hk Ha. rewrite lor_disjoint by (apply land_ones_shiftl; assumption).
  now rewrite Z.shiftl_mul_pow2 by exact Hk.
Qed.

(* x xor (2^n - 1) = 2^n - 1 - x on [0, 2^n) *)
Lemma lxor_ones_sub x n : 0 < n -> 0 <= x < 2^n -> Z.lxor x (2^n - 1) = 2^n - 1 - x.
Proof.
  intros Hn Hx.
  replace (2^n - 1 - x) with ((Z.lnot x) mod 2^n).
  2:{ symmetry. apply Z.mod_unique with (q := -1); [left; lia|]. unfold Z.lnot. lia. }
  rewrite <- Z.land_ones by lia. replace (2^n - 1) with (Z.ones n) by (rewrite Z.ones_equiv; lia).
  apply Z.bits_inj'. intros m Hm. rewrite Z.lxor_spec, Z.land_spec, Z.lnot_spec by lia.
  destruct (Z.lt_ge_cases m n).
  - rewrite Z.ones_spec_low by lia. destruct (Z.testbit x m); reflexivity.
  - rewrite Z.ones_spec_high by lia. rewrite andb_false_r, xorb_false_r.
    destruct (Z.eq_dec x 0) as [->|Hnz]; [apply Z.bits_0|].
    apply Z.bits_above_log2; [lia|]. assert (Z.log2 x < n) by (apply Z.log2_lt_pow2; lia). lia.
Qed.


(* wraps are the identity on the range of their type *)
Lemma wrap_u8_small x : 0 <= x < 256 -> wrap_u8 x = x.
Proof. intros H. unfold wrap_u8. now apply Z.mod_small. Qed.
Lemma wrap_u32_small x : 0 <= x < 4294967296 -> wrap_u32 x = x.
Proof. intros H. unfold wrap_u32. now apply Z.mod_small. Qed.
Lemma wrap_u64_small x : 0 <= x < 18446744073709551616 -> wrap_u64 x = x.
Proof. intros H. unfold wrap_u64. now apply Z.mod_small. Qed.
Lemma wrap_i8_small x : -128 <= x < 128 -> wrap_i8 x = x.
Proof. intros H. unfold wrap_i8. rewrite Z.mod_small; lia. Qed.
Lemma wrap_i32_small x : -2147483648 <= x < 2147483648 -> wrap_i32 x = x.
Proof. intros H. unfold wrap_i32. rewrite Z.mod_small; lia. Qed.
Lemma wrap_i64_small x : -9223372036854775808 <= x < 9223372036854775808 -> wrap_i64 x = x.
Proof. intros H. unfold wrap_i64. rewrite Z.mod_small; lia. Qed.
