(* go_eq_spec for the functions of wire.go that contain loops / recursion
   (consumeFieldValueD, ConsumeFieldValue, ConsumeField, ConsumeGroup), as
   translated by srcmodel: a `for` loop is a fuel-indexed local fixpoint, the
   recursion of consumeFieldValueD is structural on a fuel derived from depth.
   Each translated function equals the hand model of Wire/WireModel.v on all
   inputs; in particular it returns neither Panic nor Fuel.  The two loops are
   first identified (by conversion, [reflexivity]) with the closed forms
   [cfv_loop] / [strip_loop] below, so a change to the loops in wire.go breaks
   these proofs. *)
From Coq Require Import List Arith NArith ZArith Lia Bool.
From Coq Require Import ZifyBool ZifyNat ZifyN.
From PB Require Import Base.PBytes Base.GoInt Wire.WireModel Wire.WireGrammar Wire.VarintP Wire.ScanP Wire.PrimP.
From PB Require Import Gen.WireGo.
From PB Require Import Wire.WireGoP.
Ltac Zify.zify_post_hook ::= Z.div_mod_to_equations.
Import ListNotations.
Open Scope Z_scope.

(* the length result of a scanner call *)
Definition zres_n {A : Type} (R : result (A * list byte)) (bs : list byte) : Z :=
  match R with
  | Ok (_, r) => Z.of_nat (length bs - length r)
  | Err e => werr_code e
  end.

Lemma slice_lo_zbytes p r : slice_lo (zbytes (p ++ r)) (Z.of_nat (length p)) = Val (zbytes r).
Proof.
  unfold slice_lo. rewrite len_zbytes, app_length.
  replace ((Z.of_nat (length p) <? 0) || (Z.of_nat (length p + length r) <? Z.of_nat (length p))) with false by lia.
  rewrite Nat2Z.id, zbytes_skipn, skipn_app, Nat.sub_diag, skipn_all. reflexivity.
Qed.

Lemma slice_lo_consumed cur p r :
  cur = p ++ r -> slice_lo (zbytes cur) (Z.of_nat (length cur - length r)) = Val (zbytes r).
Proof.
  intros ->. replace (length (p ++ r) - length r)%nat with (length p) by (rewrite app_length; lia).
  apply slice_lo_zbytes.
Qed.

(* ------------------------------------------------------------------ *)
(* the group loop of consumeFieldValueD                                *)
Definition cfv_loop (rec : Z -> Z -> list Z -> Z -> outcome Z) (v_num v_n0 v_depth : Z) :=
  fix loop1 (lfuel : nat) (v_b : list Z) {struct lfuel} : outcome Z :=
    match lfuel with
    | O => Fuel
    | S lfuel' =>
      bind (go_ConsumeTag v_b) (fun '(v_num2, v_typ2, v_n1) =>
      if v_n1 <? 0 then Val v_n1
      else
        bind (slice_lo v_b v_n1) (fun t1 =>
        if v_typ2 =? 4 then
          (if negb (v_num =? v_num2) then Val (-5) else Val (wrap_i64 (v_n0 - len t1)))
        else
          bind (rec v_num2 v_typ2 t1 (wrap_i64 (v_depth - 1))) (fun t2 =>
          if t2 <? 0 then Val t2
          else bind (slice_lo t1 t2) (fun t3 => loop1 lfuel' t3))))
    end.

Lemma rec_group_shape r num b depth :
  go_consumeFieldValueD_rec (S r) num 3 b depth =
  if depth <? 0 then Val (-6)
  else cfv_loop (go_consumeFieldValueD_rec r) num (len b) depth (S (length b)) b.
Proof. reflexivity. Qed.

Lemma cfv_loop_S rec num n0 depth lfuel b :
  cfv_loop rec num n0 depth (S lfuel) b =
  bind (go_ConsumeTag b) (fun '(v_num2, v_typ2, v_n1) =>
  if v_n1 <? 0 then Val v_n1
  else
    bind (slice_lo b v_n1) (fun t1 =>
    if v_typ2 =? 4 then
      (if negb (num =? v_num2) then Val (-5) else Val (wrap_i64 (n0 - len t1)))
    else
      bind (rec v_num2 v_typ2 t1 (wrap_i64 (depth - 1))) (fun t2 =>
      if t2 <? 0 then Val t2
      else bind (slice_lo t1 t2) (fun t3 => cfv_loop rec num n0 depth lfuel t3)))).
Proof. reflexivity. Qed.

Section Loop.
  Variable d : nat.
  Variable num : N.
  Variable bs : list byte.
  Hypothesis Hd : Z.of_nat d < 2^62.
  Hypothesis Hbs : Z.of_nat (length bs) < 2^63.
  Hypothesis IH : forall n t b, Z.of_nat (length b) < 2^63 ->
    go_consumeFieldValueD_rec (S d) (Z.of_N n) (Z.of_N t) (zbytes b) (Z.of_nat d - 1)
    = Val (zres_n (parse_val d n t b) b).

  Lemma cfv_loop_spec : forall lfuel g cur acc pre,
    length g = lfuel -> (length cur < lfuel)%nat -> bs = pre ++ cur ->
    cfv_loop (go_consumeFieldValueD_rec (S d)) (Z.of_N num) (len (zbytes bs)) (Z.of_nat (S d) - 1) lfuel (zbytes cur)
    = Val (match group_loop (parse_val d) num g cur acc with
           | Ok (_, r) => Z.of_nat (length bs - length r)
           | Err e => werr_code e
           end).
  Proof.
    change (2^62) with 4611686018427387904 in Hd. change (2^63) with 9223372036854775808 in *.
    induction lfuel as [|lfuel IHl]; intros g cur acc pre Hg Hcur Hpre; [lia|].
    destruct g as [|x g]; [discriminate|]. cbn [length] in Hg.
    rewrite cfv_loop_S. cbn [group_loop]. rewrite go_ConsumeTag_spec. cbn [bind].
    destruct (dec_tag cur) as [[[n2 t2] r0]|e] eqn:E; cbn [zres_tag].
    2:{ pose proof (werr_code_neg e). replace (werr_code e <? 0) with true by lia. reflexivity. }
    pose proof (dec_tag_len _ _ _ _ E) as Hl0.
    apply dec_tag_sound in E. destruct E as (p & Ecur & _).
    replace (Z.of_nat (length cur - length r0) <? 0) with false by lia.
    rewrite (slice_lo_consumed cur p r0 Ecur). cbn [bind].
    assert (Hlen_r0 : (length r0 <= length bs)%nat) by (subst bs cur; rewrite !app_length; lia).
    destruct (t2 =? 4)%N eqn:E4.
    - replace (Z.of_N t2 =? 4) with true by lia.
      destruct (n2 =? num)%N eqn:En.
      + replace (Z.of_N num =? Z.of_N n2) with true by lia. cbn [negb].
        rewrite !len_zbytes. rewrite wrap_i64_small by lia. f_equal. lia.
      + replace (Z.of_N num =? Z.of_N n2) with false by lia. reflexivity.
    - replace (Z.of_N t2 =? 4) with false by lia.
      replace (wrap_i64 (Z.of_nat (S d) - 1 - 1)) with (Z.of_nat d - 1) by (rewrite wrap_i64_small; lia).
      rewrite IH by lia. cbn [bind].
      destruct (parse_val d n2 t2 r0) as [[v r']|e] eqn:Ep; cbn [zres_n].
      + pose proof (parse_val_len _ _ _ _ _ _ Ep) as Hl1.
        apply parse_val_suffix in Ep. destruct Ep as (p' & Er0).
        replace (Z.of_nat (length r0 - length r') <? 0) with false by lia.
        rewrite (slice_lo_consumed r0 p' r' Er0). cbn [bind].
        apply IHl with (pre := pre ++ p ++ p'); [lia|lia|].
        subst bs cur r0. now rewrite <- !app_assoc.
      + pose proof (werr_code_neg e). replace (werr_code e <? 0) with true by lia. reflexivity.
  Qed.
End Loop.

(* ------------------------------------------------------------------ *)
(* consumeFieldValueD: the recursion                                   *)
Theorem go_consumeFieldValueD_rec_spec : forall dep num typ bs,
  Z.of_nat dep < 2^62 -> Z.of_nat (length bs) < 2^63 ->
  go_consumeFieldValueD_rec (S dep) (Z.of_N num) (Z.of_N typ) (zbytes bs) (Z.of_nat dep - 1)
  = Val (zres_n (parse_val dep num typ bs) bs).
Proof.
  induction dep as [|d IHd]; intros num typ bs Hdep Hlen; rewrite parse_val_eq;
    destruct_typ typ; cbv iota;
    lazymatch goal with
    | |- _ = Val (zres_n (Err _) _) => reflexivity
    | _ => idtac
    end.
  all: try (lazymatch goal with
    | |- context [dec_varint ?l] =>
        change (go_consumeFieldValueD_rec _ _ (Z.of_N 0) ?b _) with (bind (go_ConsumeVarint b) (fun '(_, n) => Val n));
        rewrite go_ConsumeVarint_spec; destruct (dec_varint l) as [[? ?]|?]; reflexivity
    | |- context [take 4 ?l] =>
        change (go_consumeFieldValueD_rec _ _ (Z.of_N 5) ?b _) with (bind (go_ConsumeFixed32 b) (fun '(_, n) => Val n));
        rewrite go_ConsumeFixed32_spec; unfold dec_fixed32, dec_fixed; destruct (take 4 l) as [[? ?]|]; reflexivity
    | |- context [take 8 ?l] =>
        change (go_consumeFieldValueD_rec _ _ (Z.of_N 1) ?b _) with (bind (go_ConsumeFixed64 b) (fun '(_, n) => Val n));
        rewrite go_ConsumeFixed64_spec; unfold dec_fixed64, dec_fixed; destruct (take 8 l) as [[? ?]|]; reflexivity
    | |- context [dec_bytes ?l] =>
        change (go_consumeFieldValueD_rec _ _ (Z.of_N 2) ?b _) with (bind (go_ConsumeBytes b) (fun '(_, n) => Val n));
        rewrite go_ConsumeBytes_spec by assumption; destruct (dec_bytes l) as [[? ?]|?]; reflexivity
    end).
  (* dep = S d, group *)
  change (Z.of_N 3) with 3. rewrite rec_group_shape.
  replace (Z.of_nat (S d) - 1 <? 0) with false by lia.
  rewrite zbytes_length.
  change (2^62) with 4611686018427387904 in Hdep.
  apply (cfv_loop_spec d num bs ltac:(change (2^62) with 4611686018427387904; lia) Hlen
           (fun n t b Hb => IHd n t b ltac:(change (2^62) with 4611686018427387904; lia) Hb)
           (S (length bs)) (x00 :: bs) bs [] []); [reflexivity|lia|reflexivity].
Qed.

Theorem go_consumeFieldValueD_spec num typ bs depth :
  -1 <= depth < 2^62 - 1 -> Z.of_nat (length bs) < 2^63 ->
  go_consumeFieldValueD (Z.of_N num) (Z.of_N typ) (zbytes bs) depth
  = Val (zres_n (parse_val (Z.to_nat (depth + 1)) num typ bs) bs).
Proof.
  intros Hd Hlen. unfold go_consumeFieldValueD.
  replace depth with (Z.of_nat (Z.to_nat (depth + 1)) - 1) at 2 by lia.
  apply go_consumeFieldValueD_rec_spec; [|exact Hlen]. lia.
Qed.

(* the scanner's length results as Go sees them *)
Definition zres_len (R : result N) : Z :=
  match R with Ok n => Z.of_N n | Err e => werr_code e end.

Lemma default_dep_Z : Z.to_nat (10000 + 1) = default_dep.
Proof. unfold default_dep. change (10000 + 1) with (Z.of_N 10001). rewrite <- Z_N_nat, N2Z.id. reflexivity. Qed.

Theorem go_ConsumeFieldValue_spec num typ bs :
  Z.of_nat (length bs) < 2^63 ->
  go_ConsumeFieldValue (Z.of_N num) (Z.of_N typ) (zbytes bs) = Val (zres_len (consume_field_value num typ bs)).
Proof.
  intros Hlen. unfold go_ConsumeFieldValue. cbv zeta.
  rewrite go_consumeFieldValueD_spec by (change (2^62) with 4611686018427387904; lia).
  cbn [bind]. rewrite default_dep_Z. unfold consume_field_value.
  destruct (parse_val default_dep num typ bs) as [[v r]|e]; cbn [zres_n zres_len]; f_equal. lia.
Qed.

Definition zres_field (R : result (N * N * N)) : Z * Z * Z :=
  match R with
  | Ok (num, typ, n) => (Z.of_N num, Z.of_N typ, Z.of_N n)
  | Err e => (0, 0, werr_code e)
  end.

Theorem go_ConsumeField_spec bs :
  Z.of_nat (length bs) < 2^63 -> go_ConsumeField (zbytes bs) = Val (zres_field (consume_field bs)).
Proof.
  change (2^63) with 9223372036854775808. intros Hlen. unfold go_ConsumeField, consume_field.
  rewrite go_ConsumeTag_spec. cbn [bind].
  destruct (dec_tag bs) as [[[num typ] r]|e] eqn:E; cbn [zres_tag].
  2:{ pose proof (werr_code_neg e). replace (werr_code e <? 0) with true by lia. reflexivity. }
  pose proof (dec_tag_len _ _ _ _ E) as Hl.
  apply dec_tag_sound in E. destruct E as (p & Ebs & _).
  replace (Z.of_nat (length bs - length r) <? 0) with false by lia.
  rewrite (slice_lo_consumed bs p r Ebs). cbn [bind].
  rewrite go_ConsumeFieldValue_spec by (change (2^63) with 9223372036854775808; lia).
  cbn [bind]. unfold consume_field_value.
  destruct (parse_val default_dep num typ r) as [[v r']|e] eqn:Ep; cbn [zres_len zres_field].
  - apply parse_val_len in Ep. replace (Z.of_N (N.of_nat (length r - length r')) <? 0) with false by lia.
    rewrite wrap_i64_small by lia. f_equal. f_equal. lia.
  - pose proof (werr_code_neg e). replace (werr_code e <? 0) with true by lia. reflexivity.
Qed.

(* ------------------------------------------------------------------ *)
(* ConsumeGroup: the loop that strips a padded end tag                 *)
Definition strip_loop (v_num v_n : Z) :=
  fix loop1 (lfuel : nat) (v_b : list Z) {struct lfuel} : outcome (list Z * Z) :=
    match lfuel with
    | O => Fuel
    | S lfuel' =>
      bind (if 0 <? len v_b
            then bind (index v_b (wrap_i64 (len v_b - 1))) (fun t3 => Val (Z.land t3 127 =? 0))
            else Val false) (fun t4 =>
      if t4 then bind (slice_hi v_b (wrap_i64 (len v_b - 1))) (fun t5 => loop1 lfuel' t5)
      else bind (slice_hi v_b (wrap_i64 (len v_b - go_SizeTag v_num))) (fun t6 => Val (t6, v_n)))
    end.

Lemma ConsumeGroup_shape num b :
  go_ConsumeGroup num b =
  bind (go_ConsumeFieldValue num 3 b) (fun n =>
  if n <? 0 then Val ([], n)
  else bind (slice_hi b n) (fun t => strip_loop num n (S (length t)) t)).
Proof. reflexivity. Qed.

Lemma strip_loop_S num n lfuel b :
  strip_loop num n (S lfuel) b =
  bind (if 0 <? len b
        then bind (index b (wrap_i64 (len b - 1))) (fun t3 => Val (Z.land t3 127 =? 0))
        else Val false) (fun t4 =>
  if t4 then bind (slice_hi b (wrap_i64 (len b - 1))) (fun t5 => strip_loop num n lfuel t5)
  else bind (slice_hi b (wrap_i64 (len b - go_SizeTag num))) (fun t6 => Val (t6, n))).
Proof. reflexivity. Qed.

Lemma index_last b x : Z.of_nat (length b) < 2^63 ->
  index (zbytes (b ++ [x])) (wrap_i64 (len (zbytes (b ++ [x])) - 1)) = Val (Z.of_N (b2n x)).
Proof.
  change (2^63) with 9223372036854775808. intros H. rewrite len_zbytes, app_length. cbn [length].
  rewrite wrap_i64_small by lia. rewrite index_nth by (rewrite len_zbytes, app_length; cbn [length]; lia).
  replace (Z.to_nat (Z.of_nat (length b + 1) - 1)) with (length b) by lia.
  rewrite zbytes_app, app_nth2 by (rewrite zbytes_length; lia). rewrite zbytes_length, Nat.sub_diag. reflexivity.
Qed.

Lemma slice_hi_zbytes b k : 0 <= k <= Z.of_nat (length b) -> slice_hi (zbytes b) k = Val (zbytes (firstn (Z.to_nat k) b)).
Proof.
  intros H. unfold slice_hi. rewrite len_zbytes. replace ((k <? 0) || (Z.of_nat (length b) <? k)) with false by lia.
  now rewrite zbytes_firstn.
Qed.

Lemma slice_hi_neg b k : k < 0 -> slice_hi b k = Panic.
Proof. intros H. unfold slice_hi. replace (k <? 0) with true by lia. reflexivity. Qed.

(* what remains to be done after the loop, on the stripped slice *)
Definition strip_rest (num : N) (n : Z) (b1 : list byte) : outcome (list Z * Z) :=
  bind (slice_hi (zbytes b1) (wrap_i64 (len (zbytes b1) - go_SizeTag (Z.of_N num)))) (fun t6 => Val (t6, n)).

Lemma strip_loop_spec num n : forall lfuel b,
  Z.of_nat (length b) < 2^63 -> (length b < lfuel)%nat ->
  strip_loop (Z.of_N num) n lfuel (zbytes b) = strip_rest num n (rev (strip_zero7 (rev b))).
Proof.
  change (2^63) with 9223372036854775808.
  induction lfuel as [|lfuel IH]; intros b Hb Hl; [lia|].
  rewrite strip_loop_S. destruct b as [|x0 b0] using rev_ind.
  - cbn [zbytes map rev strip_zero7]. change (len (@nil Z)) with 0. cbn [bind]. reflexivity.
  - clear IHb0. rewrite app_length in *. cbn [length] in *.
    replace (0 <? len (zbytes (b0 ++ [x0]))) with true by (rewrite len_zbytes, app_length; cbn [length]; lia).
    rewrite index_last by (change (2^63) with 9223372036854775808; lia). cbn [bind].
    rewrite rev_app_distr. cbn [rev app strip_zero7].
    change 127 with (Z.ones 7). rewrite Z.land_ones by lia. change (2^7) with 128.
    replace (Z.of_N (b2n x0) mod 128 =? 0) with (b2n x0 mod 128 =? 0)%N by (rewrite <- (N2Z.inj_mod _ 128); lia).
    destruct (b2n x0 mod 128 =? 0)%N.
    + rewrite len_zbytes, app_length. cbn [length]. rewrite wrap_i64_small by lia.
      rewrite slice_hi_zbytes by (rewrite app_length; cbn [length]; lia).
      replace (Z.to_nat (Z.of_nat (length b0 + 1) - 1)) with (length b0) by lia.
      rewrite firstn_app, Nat.sub_diag, firstn_all, firstn_O, app_nil_r. cbn [bind].
      apply IH; lia.
    + cbn [rev]. rewrite rev_involutive. reflexivity.
Qed.

Definition zres_group (R : result (option (list byte) * N)) : outcome (list Z * Z) :=
  match R with
  | Ok (Some v, n) => Val (zbytes v, Z.of_N n)
  | Ok (None, _) => Panic
  | Err e => Val ([], werr_code e)
  end.

Theorem go_ConsumeGroup_eq num bs :
  (num <= 2147483647)%N -> Z.of_nat (length bs) < 2^63 ->
  go_ConsumeGroup (Z.of_N num) (zbytes bs) = zres_group (consume_group num bs).
Proof.
  intros Hnum Hlen. rewrite ConsumeGroup_shape. change 3 with (Z.of_N 3).
  rewrite go_ConsumeFieldValue_spec by exact Hlen. cbn [bind].
  unfold consume_field_value, consume_group.
  change (2^63) with 9223372036854775808 in Hlen.
  destruct (parse_val default_dep num 3 bs) as [[v r]|e] eqn:Ep; cbn [zres_len].
  2:{ pose proof (werr_code_neg e). replace (werr_code e <? 0) with true by lia. reflexivity. }
  pose proof (parse_val_len _ _ _ _ _ _ Ep) as Hl.
  replace (Z.of_N (N.of_nat (length bs - length r)) <? 0) with false by lia.
  rewrite slice_hi_zbytes by lia. cbn [bind].
  replace (Z.to_nat (Z.of_N (N.of_nat (length bs - length r)))) with (length bs - length r)%nat by lia.
  set (b := firstn (length bs - length r) bs).
  assert (Hb : (length b <= length bs)%nat) by (subst b; rewrite firstn_length; lia).
  rewrite zbytes_length.
  rewrite strip_loop_spec by (change (2^63) with 9223372036854775808; lia).
  unfold strip_rest. set (b1 := rev (strip_zero7 (rev b))).
  assert (Hb1 : (length b1 <= length b)%nat).
  { subst b1. rewrite rev_length. rewrite <- (rev_length b). generalize (rev b). intros l.
    induction l as [|y l IHl]; [cbn; lia|]. cbn [strip_zero7]. destruct (b2n y mod 128 =? 0)%N; cbn [length]; lia. }
  rewrite go_SizeTag_spec by exact Hnum. rewrite len_zbytes.
  assert (Hk : (size_tag num <= 10)%N).
  { assert (Hv : (encode_tag num 0 < 2^64)%N)
      by (unfold encode_tag; change (0 mod 8)%N with 0%N; change (2^64)%N with 18446744073709551616%N; lia).
    pose proof (size_varint_range _ Hv). unfold size_tag. lia. }
  rewrite wrap_i64_small by lia.
  destruct (Nat.ltb (length b1) (N.to_nat (size_tag num))) eqn:Elt.
  - apply Nat.ltb_lt in Elt. rewrite slice_hi_neg by lia. reflexivity.
  - apply Nat.ltb_ge in Elt. rewrite slice_hi_zbytes by lia. cbn [bind zres_group].
    replace (Z.to_nat (Z.of_nat (length b1) - Z.of_N (size_tag num))) with (length b1 - N.to_nat (size_tag num))%nat by lia.
    reflexivity.
Qed.

(* ConsumeGroup never panics and never runs out of fuel *)
Theorem go_ConsumeGroup_spec num bs :
  (num <= 2147483647)%N -> Z.of_nat (length bs) < 2^63 ->
  exists res, go_ConsumeGroup (Z.of_N num) (zbytes bs) = Val res /\
    res = match consume_group num bs with
          | Ok (Some v, n) => (zbytes v, Z.of_N n)
          | Ok (None, _) => ([], 0)
          | Err e => ([], werr_code e)
          end.
Proof.
  intros Hnum Hlen. rewrite go_ConsumeGroup_eq by assumption.
  pose proof (consume_group_no_panic num bs) as Hnp.
  destruct (consume_group num bs) as [[[v|] n]|e]; cbn [zres_group]; eauto.
  exfalso. apply (Hnp n). reflexivity.
Qed.

(* the group round trip through the translated code: ConsumeGroup(AppendGroup(body) ++ rest) *)
Theorem go_group_roundtrip num body rest :
  num_ok num -> wf_fields (N.to_nat 10000) body ->
  Z.of_nat (length (append_group num body ++ rest)) < 2^63 ->
  go_ConsumeGroup (Z.of_N num) (go_AppendGroup [] (Z.of_N num) (zbytes body) ++ zbytes rest)
  = Val (zbytes body, Z.of_N (size_group num (N.of_nat (length body)))).
Proof.
  intros Hnum Hbody Hlen. pose proof Hnum as [Hlo Hhi].
  change (@nil Z) with (zbytes []). rewrite go_AppendGroup_spec by lia. cbn [app].
  rewrite <- zbytes_app. rewrite go_ConsumeGroup_eq by (try lia; exact Hlen).
  destruct (group_roundtrip num body rest Hnum Hbody) as [E _]. rewrite E. reflexivity.
Qed.

Theorem go_Scanner_spec :
  (forall num typ bs depth, -1 <= depth < 2^62 - 1 -> Z.of_nat (length bs) < 2^63 ->
     go_consumeFieldValueD (Z.of_N num) (Z.of_N typ) (zbytes bs) depth
     = Val (zres_n (parse_val (Z.to_nat (depth + 1)) num typ bs) bs)) /\
  (forall num typ bs, Z.of_nat (length bs) < 2^63 ->
     go_ConsumeFieldValue (Z.of_N num) (Z.of_N typ) (zbytes bs) = Val (zres_len (consume_field_value num typ bs))) /\
  (forall bs, Z.of_nat (length bs) < 2^63 ->
     go_ConsumeField (zbytes bs) = Val (zres_field (consume_field bs))) /\
  (forall num bs, (num <= 2147483647)%N -> Z.of_nat (length bs) < 2^63 ->
     go_ConsumeGroup (Z.of_N num) (zbytes bs) = zres_group (consume_group num bs) /\
     exists res, go_ConsumeGroup (Z.of_N num) (zbytes bs) = Val res).
Proof.
  split; [exact go_consumeFieldValueD_spec|]. split; [exact go_ConsumeFieldValue_spec|].
  split; [exact go_ConsumeField_spec|]. intros num bs Hn Hl. split; [apply go_ConsumeGroup_eq; assumption|].
  destruct (go_ConsumeGroup_spec num bs Hn Hl) as (res & E & _). eauto.
Qed.
