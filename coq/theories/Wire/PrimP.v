(* Proofs about the remaining wire primitives of Wire/WireModel.v: fixed32/64,
   zig-zag, bool, tags, length-prefixed bytes, groups, and the wire-tree
   render/parse round trip. *)
From Coq Require Import List Arith NArith ZArith Lia Bool.
From Coq Require Import ZifyBool ZifyNat ZifyN.
From PB Require Import Base.PBytes Wire.WireModel Wire.WireGrammar Wire.VarintP Wire.ScanP.
Ltac Zify.zify_post_hook ::= Z.div_mod_to_equations.
Import ListNotations.
Open Scope N_scope.

(* ---------- fixed32 / fixed64 ---------- *)
Lemma enc_le_length k v : length (enc_le k v) = k.
Proof. revert v. induction k as [|k IH]; intros v; cbn [enc_le length]; [reflexivity|]. now rewrite IH. Qed.

Lemma dec_enc_le : forall k v, v < 256 ^ N.of_nat k -> dec_le (enc_le k v) = v.
Proof.
  induction k as [|k IH]; intros v Hv.
  - cbn in *. lia.
  - cbn [enc_le dec_le]. rewrite Nnat.Nat2N.inj_succ, N.pow_succ_r' in Hv.
    rewrite b2n_n2b by (pose proof (N.mod_lt v 256); lia).
    rewrite IH by (apply N.div_lt_upper_bound; lia).
    pose proof (N.div_mod v 256). lia.
Qed.

Lemma enc_dec_le : forall b, enc_le (length b) (dec_le b) = b.
Proof.
  induction b as [|x b IH]; [reflexivity|]. cbn [length enc_le dec_le].
  pose proof (b2n_lt x).
  replace ((b2n x + 256 * dec_le b) mod 256) with (b2n x) by lia.
  replace ((b2n x + 256 * dec_le b) / 256) with (dec_le b) by lia.
  now rewrite n2b_b2n, IH.
Qed.

Lemma dec_le_lt b : dec_le b < 256 ^ N.of_nat (length b).
Proof.
  induction b as [|x b IH]; [cbn; lia|]. cbn [dec_le length].
  rewrite Nnat.Nat2N.inj_succ, N.pow_succ_r'. pose proof (b2n_lt x). lia.
Qed.

Lemma fixed_roundtrip k v rest :
  v < 256 ^ N.of_nat k -> dec_fixed k (enc_le k v ++ rest) = Ok (v, rest) /\ length (enc_le k v) = k.
Proof.
  intros Hv. split; [|apply enc_le_length]. unfold dec_fixed.
  rewrite <- (enc_le_length k v) at 1. rewrite take_app. now rewrite dec_enc_le.
Qed.

Theorem fixed32_roundtrip v rest :
  v < 2^32 -> dec_fixed32 (enc_fixed32 v ++ rest) = Ok (v, rest) /\ length (enc_fixed32 v) = 4%nat.
Proof. intros Hv. apply (fixed_roundtrip 4 v rest). exact Hv. Qed.

Theorem fixed64_roundtrip v rest :
  v < 2^64 -> dec_fixed64 (enc_fixed64 v ++ rest) = Ok (v, rest) /\ length (enc_fixed64 v) = 8%nat.
Proof. intros Hv. apply (fixed_roundtrip 8 v rest). exact Hv. Qed.

(* and the other direction: every 4 / 8 bytes are the encoding of the decoded value *)
Theorem fixed_decode_encode k bs v r :
  dec_fixed k bs = Ok (v, r) -> bs = enc_le k v ++ r /\ v < 256 ^ N.of_nat k.
Proof.
  unfold dec_fixed. destruct (take k bs) as [[a b]|] eqn:E; [|discriminate].
  intros H; inversion H; subst. apply take_some in E. destruct E as [-> <-].
  split; [now rewrite enc_dec_le|apply dec_le_lt].
Qed.

(* ---------- zig-zag ---------- *)
Theorem zz_dec_enc x : zz_dec (zz_enc x) = x.
Proof.
  unfold zz_enc, zz_dec. destruct (x <? 0)%Z eqn:E.
  - replace (N.even (Z.to_N (-2 * x - 1))) with false.
    + lia.
    + symmetry. apply Bool.not_true_iff_false. intros H. apply N.even_spec in H. destruct H as [m Hm]. lia.
  - replace (N.even (Z.to_N (2 * x))) with true.
    + lia.
    + symmetry. apply N.even_spec. exists (Z.to_N x). lia.
Qed.

Theorem zz_enc_dec n : zz_enc (zz_dec n) = n.
Proof.
  unfold zz_enc, zz_dec. destruct (N.even n) eqn:E.
  - apply N.even_spec in E. destruct E as [m ->]. replace (Z.of_N (2 * m / 2) <? 0)%Z with false by lia. lia.
  - assert (Ho : N.odd n = true) by (rewrite <- N.negb_even, E; reflexivity).
    apply N.odd_spec in Ho. destruct Ho as [m ->].
    replace (- Z.of_N ((2 * m + 1) / 2) - 1 <? 0)%Z with true by lia. lia.
Qed.

Theorem zz_enc_range x : (- 2^63 <= x < 2^63)%Z -> zz_enc x < 2^64.
Proof. intros H. unfold zz_enc. change (2^63)%Z with 9223372036854775808%Z in H. change (2^64) with 18446744073709551616. destruct (x <? 0)%Z eqn:E; lia. Qed.

Theorem zz_dec_range n : n < 2^64 -> (- 2^63 <= zz_dec n < 2^63)%Z.
Proof. intros H. unfold zz_dec. change (2^63)%Z with 9223372036854775808%Z. change (2^64) with 18446744073709551616 in H. destruct (N.even n); lia. Qed.

Theorem zz_enc_injective x y : zz_enc x = zz_enc y -> x = y.
Proof. intros H. rewrite <- (zz_dec_enc x), <- (zz_dec_enc y). now rewrite H. Qed.

Theorem zz_dec_injective m n : zz_dec m = zz_dec n -> m = n.
Proof. intros H. rewrite <- (zz_enc_dec m), <- (zz_enc_dec n). now rewrite H. Qed.

(* ---------- bool ---------- *)
Theorem bool_roundtrip b : dec_bool (enc_bool b) = b.
Proof. destruct b; reflexivity. Qed.

Theorem bool_enc_dec n : n < 2 -> enc_bool (dec_bool n) = n.
Proof. intros H. unfold enc_bool, dec_bool. destruct (n =? 0) eqn:E; cbn; lia. Qed.

Theorem dec_bool_spec n : dec_bool n = true <-> n <> 0.
Proof. unfold dec_bool. destruct (n =? 0) eqn:E; cbn; split; intros; try lia; congruence. Qed.

(* ---------- tags ---------- *)
Theorem tag_decode_encode num typ :
  num <= 2147483647 -> typ < 8 -> decode_tag (encode_tag num typ) = Some (num, typ).
Proof.
  intros Hn Ht. unfold decode_tag, encode_tag. rewrite (N.mod_small typ 8) by lia.
  replace ((num * 8 + typ) / 8) with num by lia. replace ((num * 8 + typ) mod 8) with typ by lia.
  replace (2147483647 <? num) with false by lia. reflexivity.
Qed.

Theorem tag_encode_injective n1 t1 n2 t2 :
  t1 < 8 -> t2 < 8 -> encode_tag n1 t1 = encode_tag n2 t2 -> n1 = n2 /\ t1 = t2.
Proof. unfold encode_tag. intros H1 H2. rewrite !N.mod_small by lia. lia. Qed.

Theorem tag_encode_decode x num typ : decode_tag x = Some (num, typ) -> encode_tag num typ = x /\ typ < 8 /\ num <= 2147483647.
Proof.
  unfold decode_tag, encode_tag. destruct (2147483647 <? x / 8) eqn:E; [discriminate|].
  intros H; inversion H; subst. rewrite N.mod_mod by lia. lia.
Qed.

Lemma enc_tag_is_tag num typ : num_ok num -> typ < 8 -> is_tag (enc_tag num typ) num typ.
Proof.
  intros [Hlo Hhi] Ht. unfold enc_tag, encode_tag. rewrite (N.mod_small typ 8) by lia.
  assert (Hv : num * 8 + typ < 2^64) by (change (2^64) with 18446744073709551616; lia).
  destruct (enc_varint_shape _ Hv) as [Hs Hval]. unfold is_tag, num_ok. auto.
Qed.

Theorem tag_roundtrip num typ rest :
  num_ok num -> typ < 8 ->
  dec_tag (enc_tag num typ ++ rest) = Ok (num, typ, rest) /\
  N.of_nat (length (enc_tag num typ)) = size_tag num.
Proof.
  intros Hn Ht. split; [apply dec_tag_complete, enc_tag_is_tag; assumption|].
  destruct Hn as [Hlo Hhi]. unfold enc_tag, encode_tag. rewrite (N.mod_small typ 8) by lia.
  rewrite enc_varint_length by (change (2^64) with 18446744073709551616; lia).
  apply size_tag_eq; lia.
Qed.

(* ---------- bytes / string ---------- *)
Theorem bytes_roundtrip v rest :
  N.of_nat (length v) < 2^64 ->
  dec_bytes (enc_bytes v ++ rest) = Ok (v, rest) /\
  N.of_nat (length (enc_bytes v)) = size_bytes (N.of_nat (length v)).
Proof.
  intros Hv. destruct (enc_varint_shape _ Hv) as [Hs Hval]. unfold enc_bytes. split.
  - rewrite <- app_assoc. apply dec_bytes_complete; assumption.
  - rewrite app_length, Nnat.Nat2N.inj_add, enc_varint_length by exact Hv. reflexivity.
Qed.

(* ---------- groups ---------- *)
Theorem group_roundtrip num body rest :
  num_ok num -> wf_fields (N.to_nat 10000) body ->
  consume_group num (append_group num body ++ rest)
    = Ok (Some body, size_group num (N.of_nat (length body))) /\
  N.of_nat (length (append_group num body)) = size_group num (N.of_nat (length body)).
Proof.
  intros Hn Hb. pose proof (enc_tag_is_tag num 4 Hn ltac:(lia)) as Het.
  destruct (tag_roundtrip num 4 [] Hn ltac:(lia)) as [_ Hlen].
  unfold append_group, size_group. split.
  - rewrite <- app_assoc. rewrite (consume_group_complete _ _ _ rest Hb Het).
    f_equal. f_equal. rewrite Nnat.Nat2N.inj_add, Hlen. reflexivity.
  - rewrite app_length, Nnat.Nat2N.inj_add, Hlen. reflexivity.
Qed.

(* ---------- wire trees: parse (render v) = v ---------- *)
Section Ind.
  Variable P : wval -> Prop.
  Hypothesis H1 : forall v, P (WVarint v).
  Hypothesis H2 : forall b, P (WFixed32 b).
  Hypothesis H3 : forall b, P (WFixed64 b).
  Hypothesis H4 : forall b, P (WLen b).
  Hypothesis H5 : forall fs, Forall (fun p => P (snd p)) fs -> P (WGroup fs).
  Fixpoint wval_ind' (v : wval) : P v :=
    match v with
    | WVarint x => H1 x | WFixed32 b => H2 b | WFixed64 b => H3 b | WLen b => H4 b
    | WGroup fs => H5 fs ((fix go (l : list (N * wval)) : Forall (fun p => P (snd p)) l :=
                             match l with
                             | [] => Forall_nil _
                             | p :: r => Forall_cons p (wval_ind' (snd p)) (go r)
                             end) fs)
    end.
End Ind.

Lemma render_group_eq num fs : render_val num (WGroup fs) = render_fields fs ++ enc_tag num 4.
Proof. reflexivity. Qed.

Lemma wtype_lt8 v : wtype_of v < 8. Proof. destruct v; cbn; lia. Qed.
Lemma wtype_ne4 v : (wtype_of v =? 4) = false. Proof. destruct v; reflexivity. Qed.

Lemma dec_tag_enc num typ rest :
  num_ok num -> typ < 8 -> dec_tag (enc_tag num typ ++ rest) = Ok (num, typ, rest).
Proof. intros Hn Ht. apply dec_tag_complete, enc_tag_is_tag; assumption. Qed.

Lemma enc_tag_nonempty num typ : num_ok num -> typ < 8 -> (1 <= length (enc_tag num typ))%nat.
Proof. intros Hn Ht. pose proof (is_tag_len _ _ _ (enc_tag_is_tag num typ Hn Ht)). lia. Qed.

Theorem parse_render : forall v num rest dep,
  wf_val v -> num_ok num -> (wdepth v <= dep)%nat ->
  parse_val dep num (wtype_of v) (render_val num v ++ rest) = Ok (v, rest).
Proof.
  induction v using wval_ind'; intros num rest dep Hwf Hnum Hdep.
  - rewrite parse_val_eq. cbn [wtype_of render_val]. cbv iota. cbn in Hwf. now rewrite varint_roundtrip.
  - rewrite parse_val_eq. cbn [wtype_of render_val]. cbv iota. cbn in Hwf. rewrite <- Hwf. now rewrite take_app.
  - rewrite parse_val_eq. cbn [wtype_of render_val]. cbv iota. cbn in Hwf. rewrite <- Hwf. now rewrite take_app.
  - rewrite parse_val_eq. cbn [wtype_of render_val]. cbv iota. cbn in Hwf.
    destruct (bytes_roundtrip b rest Hwf) as [Hb _]. unfold enc_bytes in Hb. now rewrite Hb.
  - destruct dep as [|f]; [cbn in Hdep; lia|].
    rewrite parse_val_eq. cbn [wtype_of]. cbv iota. rewrite render_group_eq.
    assert (Hloop : forall (l : list (N * wval)) acc g,
      Forall (fun p => forall num rest dep, wf_val (snd p) -> num_ok num -> (wdepth (snd p) <= dep)%nat ->
                 parse_val dep num (wtype_of (snd p)) (render_val num (snd p) ++ rest) = Ok (snd p, rest)) l ->
      (fix all (l : list (N * wval)) : Prop :=
         match l with [] => True | p :: r => num_ok (fst p) /\ wf_val (snd p) /\ all r end) l ->
      (length l < length g)%nat ->
      ((fix mx (l : list (N * wval)) : nat :=
          match l with [] => O | p :: r => Nat.max (wdepth (snd p)) (mx r) end) l <= f)%nat ->
      group_loop (parse_val f) num g ((render_fields l ++ enc_tag num 4) ++ rest) acc
      = Ok (WGroup (rev acc ++ l), rest)).
    { induction l as [|[n x] r IHr]; intros acc g HF Hall Hg Hmx.
      - destruct g; [cbn in Hg; lia|]. cbn [group_loop render_fields flat_map app].
        rewrite dec_tag_enc by (auto; lia). cbn. rewrite N.eqb_refl. now rewrite app_nil_r.
      - destruct g; [cbn in Hg; lia|]. cbn [group_loop].
        cbn [render_fields flat_map]. unfold render_field at 1. cbn [fst snd].
        rewrite <- !app_assoc.
        destruct Hall as (Hn & Hx & Hr).
        rewrite dec_tag_enc by (auto using wtype_lt8).
        rewrite wtype_ne4.
        inversion HF as [|? ? Hp HF']; subst. cbn [snd] in Hp.
        rewrite Hp; [| exact Hx | exact Hn | cbn in Hmx; lia ].
        change (flat_map render_field r) with (render_fields r).
        rewrite (app_assoc (render_fields r)).
        rewrite IHr; [| exact HF' | exact Hr | cbn in Hg; lia | cbn in Hmx; lia].
        cbn [rev]. rewrite <- app_assoc. reflexivity. }
    cbn [wdepth] in Hdep.
    rewrite Hloop; [reflexivity | exact H | exact Hwf | | lia].
    (* fuel: one list cell per input byte plus one; every field renders to at least one byte *)
    cbn [length]. rewrite !app_length.
    assert (Hlen : forall l : list (N * wval),
      (fix all (l : list (N * wval)) : Prop :=
         match l with [] => True | p :: r => num_ok (fst p) /\ wf_val (snd p) /\ all r end) l ->
      (length l <= length (render_fields l))%nat).
    { induction l as [|[n x] r IHr]; intros Hall; [cbn; lia|].
      destruct Hall as (Hn & _ & Hr). cbn [render_fields flat_map length]. unfold render_field at 1. cbn [fst snd].
      rewrite !app_length. change (flat_map render_field r) with (render_fields r).
      pose proof (enc_tag_nonempty n (wtype_of x) Hn (wtype_lt8 x)). specialize (IHr Hr). lia. }
    specialize (Hlen fs Hwf). lia.
Qed.
