(* go_eq_spec for ConsumeVarint: the hand-unrolled ten-level decoder of wire.go,
   as translated by srcmodel (Gen/WireGo.v), equals [dec_varint] of
   Wire/WireModel.v on every byte string: same value, same byte count, same
   error code, and no Panic (every index is guarded by the preceding length
   test).  The proof walks the ten levels with one tactic ([cv_level]); the
   accumulated value is kept abstract ([a < 2^shift]) so each level is a
   constant-size arithmetic step. *)
From Coq Require Import List Arith NArith ZArith Lia Bool.
From Coq Require Import ZifyBool ZifyNat ZifyN.
From PB Require Import Base.PBytes Base.GoInt Wire.WireModel Wire.WireGrammar Wire.VarintP Wire.ScanP Wire.PrimP.
From PB Require Import Gen.WireGo.
From PB Require Import Wire.WireGoBaseP.
Ltac Zify.zify_post_hook ::= Z.div_mod_to_equations.
Import ListNotations.
Open Scope Z_scope.

(* ------------------------------------------------------------------ *)
(* ConsumeVarint                                                       *)
(* the decoder with the consumed-byte counter made explicit, recursing over
   the shift amounts *)
Fixpoint dec_cnt (shifts : list N) (acc : N) (i : Z) (bs : list byte) {struct bs} : Z * Z :=
  match shifts with
  | [] => (0, -3)
  | s :: ss =>
    match bs with
    | [] => (0, -1)
    | b :: r =>
      match ss with
      | [] => if (b2n b <? 2)%N then (Z.of_N (acc + b2n b * 2^s), i + 1) else (0, -3)
      | _ :: _ => if (b2n b <? 128)%N then (Z.of_N (acc + b2n b * 2^s), i + 1)
                  else dec_cnt ss (acc + (b2n b - 128) * 2^s)%N (i + 1) r
      end
    end
  end.
Fixpoint nshifts (k : nat) (s : N) : list N :=
  match k with O => [] | S k' => s :: nshifts k' (s + 7)%N end.

Lemma dec_cnt_aux : forall k s acc pre r,
  zres_vn (dec_varint_aux k s acc r) (pre ++ r) = dec_cnt (nshifts k s) acc (len pre) r.
Proof.
  induction k as [|k IH]; intros s acc pre r; [destruct r; reflexivity|].
  destruct r as [|b r]; [reflexivity|]. cbn [dec_varint_aux nshifts dec_cnt].
  assert (Hlen : Z.of_nat (length (pre ++ b :: r) - length r) = len pre + 1)
    by (unfold len; rewrite app_length; cbn [length]; lia).
  destruct k as [|k'].
  - cbn [nshifts]. destruct (b2n b <? 2)%N; [|reflexivity]. cbn [zres_vn]. now rewrite Hlen.
  - cbn [nshifts]. fold (nshifts k' (s + 7 + 7)%N). destruct (b2n b <? 128)%N.
    + cbn [zres_vn]. now rewrite Hlen.
    + replace (pre ++ b :: r) with ((pre ++ [b]) ++ r) by (now rewrite <- app_assoc).
      rewrite (IH (s + 7)%N). cbn [nshifts]. f_equal. unfold len. rewrite app_length. cbn [length]. lia.
Qed.

Lemma dec_varint_cnt bs :
  zres_vn (dec_varint bs) bs = dec_cnt [0; 7; 14; 21; 28; 35; 42; 49; 56; 63]%N 0 0 bs.
Proof. exact (dec_cnt_aux 10 0 0 [] bs). Qed.

(* one level of the unrolled Go code *)
Lemma pow2_N_Z k : Z.of_N (2 ^ k) = 2 ^ Z.of_N k.
Proof. now rewrite N2Z.inj_pow. Qed.

Lemma cv_ret a x k kz :
  kz = Z.of_N k -> (a < 2^k)%N -> (x < 256)%N -> (k <= 56)%N ->
  wrap_u64 (Z.of_N a + wrap_u64 (Z.shiftl (Z.of_N x) kz)) = Z.of_N (a + x * 2^k).
Proof.
  intros -> Ha Hx Hk. rewrite Z.shiftl_mul_pow2 by lia. rewrite <- pow2_N_Z.
  assert (HP : (2^k <= 2^56)%N) by (apply N.pow_le_mono_r; lia).
  change (2^56)%N with 72057594037927936%N in HP.
  remember (2^k)%N as P. assert (x * P <= 255 * P)%N by (apply N.mul_le_mono_r; lia).
  rewrite <- N2Z.inj_mul. remember (x * P)%N as m.
  rewrite (wrap_u64_small (Z.of_N m)) by lia. rewrite wrap_u64_small by lia. lia.
Qed.

Lemma cv_ret_last a x :
  (a < 2^63)%N -> (x < 2)%N ->
  wrap_u64 (Z.of_N a + wrap_u64 (Z.shiftl (Z.of_N x) 63)) = Z.of_N (a + x * 2^63).
Proof.
  intros Ha Hx. rewrite Z.shiftl_mul_pow2 by lia. change (2^63) with 9223372036854775808.
  change (2^63)%N with 9223372036854775808%N in *.
  rewrite (wrap_u64_small (Z.of_N x * 9223372036854775808)) by lia. rewrite wrap_u64_small by lia. lia.
Qed.

Lemma cv_cont a x k C :
  C = Z.of_N (128 * 2^k) -> (a < 2^k)%N -> (128 <= x < 256)%N -> (k <= 56)%N ->
  wrap_u64 (Z.of_N (a + x * 2^k) - C) = Z.of_N (a + (x - 128) * 2^k).
Proof.
  intros -> Ha Hx Hk.
  assert (HP : (2^k <= 2^56)%N) by (apply N.pow_le_mono_r; lia).
  change (2^56)%N with 72057594037927936%N in HP.
  remember (2^k)%N as P.
  assert (E : (a + x * P = a + (x - 128) * P + 128 * P)%N).
  { replace x with ((x - 128) + 128)%N at 1 by lia. rewrite N.mul_add_distr_r. lia. }
  assert ((x - 128) * P <= 127 * P)%N by (apply N.mul_le_mono_r; lia).
  rewrite E. remember ((x - 128) * P)%N as m. rewrite wrap_u64_small by lia. lia.
Qed.

Lemma cv_bound a x k : (a < 2^k)%N -> (x < 256)%N -> (a + (x - 128) * 2^k < 2^(k + 7))%N.
Proof.
  intros Ha Hx. rewrite N.pow_add_r. change (2^7)%N with 128%N. remember (2^k)%N as P.
  assert ((x - 128) * P <= 127 * P)%N by (apply N.mul_le_mono_r; lia).
  remember ((x - 128) * P)%N as m. lia.
Qed.

Lemma zbytes_cons b r : zbytes (b :: r) = Z.of_N (b2n b) :: zbytes r.
Proof. reflexivity. Qed.

Lemma index_nth l i : 0 <= i < len l -> index l i = Val (nth (Z.to_nat i) l 0).
Proof. intros H. unfold index. replace ((i <? 0) || (len l <=? i)) with false by lia. reflexivity. Qed.

Ltac len_false i :=
  match goal with
  | |- context [len ?L <=? i] =>
      replace (len L <=? i) with false
        by (rewrite !len_cons; match goal with |- context [len ?t] => pose proof (len_nonneg t) end; lia)
  end.
Ltac index_at i :=
  match goal with
  | |- context [index ?L i] =>
      rewrite (index_nth L i)
        by (rewrite !len_cons; match goal with |- context [len ?t] => pose proof (len_nonneg t) end; lia);
      let n := eval compute in (Z.to_nat i) in change (Z.to_nat i) with n; cbn [nth bind]
  end.

(* levels 1..8: shift s (as N) / sz (as Z), C = 128 * 2^s, index i *)
Ltac cv_level i s sz C :=
  lazymatch goal with
  | Ha : (?a < 2 ^ s)%N |- context [dec_cnt _ ?a _ ?r] =>
    let b := fresh "b" in let r' := fresh "r" in let Hb := fresh "Hb" in let E := fresh "E" in
    let Ha' := fresh "Ha" in let a' := fresh "a" in let Heqa := fresh "Heqa" in
    destruct r as [|b r']; [reflexivity|];
    rewrite zbytes_cons; len_false i; index_at i; cbn [dec_cnt];
    pose proof (b2n_lt b) as Hb;
    rewrite (wrap_u64_small (Z.of_N (b2n b))) by lia;
    rewrite (cv_ret a (b2n b) s sz eq_refl Ha Hb ltac:(lia));
    destruct (b2n b <? 128)%N eqn:E;
    [ replace (Z.of_N (b2n b) <? 128) with true by lia; reflexivity |];
    replace (Z.of_N (b2n b) <? 128) with false by lia;
    rewrite (cv_cont a (b2n b) s C eq_refl Ha ltac:(lia) ltac:(lia));
    pose proof (cv_bound a (b2n b) s Ha Hb) as Ha';
    (let s' := eval compute in (s + 7)%N in change (s + 7)%N with s' in Ha');
    remember (a + (b2n b - 128) * 2 ^ s)%N as a' eqn:Heqa; clear Heqa Ha E Hb
  end.

Theorem go_ConsumeVarint_spec bs : go_ConsumeVarint (zbytes bs) = Val (zres_vn (dec_varint bs) bs).
Proof.
  rewrite dec_varint_cnt. unfold go_ConsumeVarint. cbv zeta.
  (* level 0 *)
  destruct bs as [|b0 r]; [reflexivity|].
  rewrite zbytes_cons. len_false 0. index_at 0. cbn [dec_cnt].
  pose proof (b2n_lt b0) as Hb0. rewrite (wrap_u64_small (Z.of_N (b2n b0))) by lia.
  change (2^0)%N with 1%N. rewrite !N.mul_1_r, !N.add_0_l.
  destruct (b2n b0 <? 128)%N eqn:E0.
  { replace (Z.of_N (b2n b0) <? 128) with true by lia. reflexivity. }
  replace (Z.of_N (b2n b0) <? 128) with false by lia.
  rewrite (wrap_u64_small (Z.of_N (b2n b0) - 128)) by lia.
  replace (Z.of_N (b2n b0) - 128) with (Z.of_N (b2n b0 - 128)) by lia.
  assert (Ha : (b2n b0 - 128 < 2^7)%N) by (change (2^7)%N with 128%N; lia).
  remember (b2n b0 - 128)%N as a0 eqn:Heqa. clear Heqa E0 Hb0.
  cv_level 1%Z 7%N 7%Z 16384%Z.
  cv_level 2%Z 14%N 14%Z 2097152%Z.
  cv_level 3%Z 21%N 21%Z 268435456%Z.
  cv_level 4%Z 28%N 28%Z 34359738368%Z.
  cv_level 5%Z 35%N 35%Z 4398046511104%Z.
  cv_level 6%Z 42%N 42%Z 562949953421312%Z.
  cv_level 7%Z 49%N 49%Z 72057594037927936%Z.
  cv_level 8%Z 56%N 56%Z 9223372036854775808%Z.
  (* level 9: the tenth byte may only be 0 or 1 *)
  match goal with
  | Ha : (?a < 2 ^ 63)%N |- context [dec_cnt _ ?a _ ?r] =>
    let b := fresh "b" in let r' := fresh "r" in
    destruct r as [|b r']; [reflexivity|];
    rewrite zbytes_cons; len_false 9; index_at 9; cbn [dec_cnt];
    pose proof (b2n_lt b) as Hb;
    rewrite (wrap_u64_small (Z.of_N (b2n b))) by lia;
    destruct (b2n b <? 2)%N eqn:E;
    [ replace (Z.of_N (b2n b) <? 2) with true by lia;
      rewrite (cv_ret_last a (b2n b) Ha ltac:(lia)); reflexivity
    | replace (Z.of_N (b2n b) <? 2) with false by lia; reflexivity ]
  end.
Qed.
