(* go_eq_spec for AppendVarint: the ten-way switch of wire.go, as translated by
   srcmodel (Gen/WireGo.v), emits exactly [enc_varint v] for every v < 2^64. *)
From Coq Require Import List Arith NArith ZArith Lia Bool.
From Coq Require Import ZifyBool ZifyNat ZifyN.
From PB Require Import Base.PBytes Base.GoInt Wire.WireModel Wire.WireGrammar Wire.VarintP Wire.ScanP Wire.PrimP.
From PB Require Import Gen.WireGo.
From PB Require Import Wire.WireGoBaseP.
Ltac Zify.zify_post_hook ::= Z.div_mod_to_equations.
Import ListNotations.
Open Scope Z_scope.

(* ------------------------------------------------------------------ *)
(* AppendVarint                                                        *)
(* the unrolled switch, as a recursion over the shift amounts *)
Fixpoint zenc_l (shifts : list Z) (z : Z) : list Z :=
  match shifts with
  | [] => []
  | k :: ks => if z / 2^k <? 128 then [z / 2^k] else ((z / 2^k) mod 128 + 128) :: zenc_l ks z
  end.
Fixpoint shifts7 (n : nat) (k : Z) : list Z :=
  match n with O => [] | S n' => k :: shifts7 n' (k + 7) end.

Lemma zenc_l_spec : forall n k v,
  0 <= k -> zenc_l (shifts7 n k) (Z.of_N v) = zbytes (enc_varint_fuel n (v / 2 ^ Z.to_N k)%N).
Proof.
  induction n as [|n IH]; intros k v Hk; [reflexivity|].
  cbn [shifts7 zenc_l enc_varint_fuel].
  assert (Hd : Z.of_N v / 2^k = Z.of_N (v / 2 ^ Z.to_N k)%N).
  { rewrite N2Z.inj_div, N2Z.inj_pow, Z2N.id by lia. reflexivity. }
  rewrite Hd. set (w := (v / 2 ^ Z.to_N k)%N).
  destruct (w <? 128)%N eqn:E.
  - replace (Z.of_N w <? 128) with true by lia. cbn [zbytes map]. now rewrite zb_byte by lia.
  - replace (Z.of_N w <? 128) with false by lia. cbn [zbytes map].
    rewrite zb_byte by (pose proof (N.mod_lt w 128); lia).
    f_equal; [lia|]. rewrite IH by lia. f_equal. f_equal. subst w.
    rewrite N.div_div by (try apply N.pow_nonzero; discriminate).
    f_equal. rewrite Z2N.inj_add by lia. rewrite N.pow_add_r. reflexivity.
Qed.

Lemma enc_varint_zenc v :
  zbytes (enc_varint v) = zenc_l [0; 7; 14; 21; 28; 35; 42; 49; 56; 63] (Z.of_N v).
Proof.
  change [0; 7; 14; 21; 28; 35; 42; 49; 56; 63] with (shifts7 10 0).
  rewrite zenc_l_spec by lia. change (2 ^ Z.to_N 0)%N with 1%N. now rewrite N.div_1_r.
Qed.

Theorem go_AppendVarint_spec b v :
  (v < 2^64)%N -> go_AppendVarint (zbytes b) (Z.of_N v) = zbytes (b ++ enc_varint v).
Proof.
  intros Hv. rewrite zbytes_app, enc_varint_zenc.
  set (z := Z.of_N v). assert (Hz : 0 <= z < 18446744073709551616) by (subst z; change (2^64)%N with 18446744073709551616%N in Hv; lia).
  pose proof (div_lt_test z 0 ltac:(lia) ltac:(lia)) as T0. change (2^(0+7)) with 128 in T0.
  pose proof (div_lt_test z 7 ltac:(lia) ltac:(lia)) as T1. change (2^(7+7)) with 16384 in T1.
  pose proof (div_lt_test z 14 ltac:(lia) ltac:(lia)) as T2. change (2^(14+7)) with 2097152 in T2.
  pose proof (div_lt_test z 21 ltac:(lia) ltac:(lia)) as T3. change (2^(21+7)) with 268435456 in T3.
  pose proof (div_lt_test z 28 ltac:(lia) ltac:(lia)) as T4. change (2^(28+7)) with 34359738368 in T4.
  pose proof (div_lt_test z 35 ltac:(lia) ltac:(lia)) as T5. change (2^(35+7)) with 4398046511104 in T5.
  pose proof (div_lt_test z 42 ltac:(lia) ltac:(lia)) as T6. change (2^(42+7)) with 562949953421312 in T6.
  pose proof (div_lt_test z 49 ltac:(lia) ltac:(lia)) as T7. change (2^(49+7)) with 72057594037927936 in T7.
  pose proof (div_lt_test z 56 ltac:(lia) ltac:(lia)) as T8. change (2^(56+7)) with 9223372036854775808 in T8.
  unfold go_AppendVarint. cbv zeta. cbn [zenc_l].
  rewrite T0, T1, T2, T3, T4, T5, T6, T7, T8.
  rewrite !z_cont_byte by lia.
  destruct (z <? 128) eqn:H0.
  { f_equal. f_equal. unfold wrap_u8. change (2^0) with 1. rewrite Z.div_1_r. apply Z.mod_small. lia. }
  destruct (z <? 16384) eqn:H1.
  { rewrite (z_last_byte z 7) by (change (2^(7+7)) with 16384; lia). reflexivity. }
  destruct (z <? 2097152) eqn:H2.
  { rewrite (z_last_byte z 14) by (change (2^(14+7)) with 2097152; lia). reflexivity. }
  destruct (z <? 268435456) eqn:H3.
  { rewrite (z_last_byte z 21) by (change (2^(21+7)) with 268435456; lia). reflexivity. }
  destruct (z <? 34359738368) eqn:H4.
  { rewrite (z_last_byte z 28) by (change (2^(28+7)) with 34359738368; lia). reflexivity. }
  destruct (z <? 4398046511104) eqn:H5.
  { rewrite (z_last_byte z 35) by (change (2^(35+7)) with 4398046511104; lia). reflexivity. }
  destruct (z <? 562949953421312) eqn:H6.
  { rewrite (z_last_byte z 42) by (change (2^(42+7)) with 562949953421312; lia). reflexivity. }
  destruct (z <? 72057594037927936) eqn:H7.
  { rewrite (z_last_byte z 49) by (change (2^(49+7)) with 72057594037927936; lia). reflexivity. }
  destruct (z <? 9223372036854775808) eqn:H8.
  { rewrite (z_last_byte z 56) by (change (2^(56+7)) with 9223372036854775808; lia). reflexivity. }
  (* ten bytes: the last one is the literal 1 *)
  assert (H63 : z / 2^63 = 1) by (change (2^63) with 9223372036854775808; lia).
  rewrite H63. reflexivity.
Qed.

