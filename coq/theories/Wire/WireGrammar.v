(* The protobuf wire grammar, stated on byte strings independently of the
   scanner of WireModel.v.  Definitions only.

   A varint is 1..10 bytes; every byte except the last has the continuation
   bit (>= 128), the last has not, and a 10th byte may only be 0 or 1.
   Non-minimal ("padded") varints are part of the grammar: the Go scanner
   accepts them.  A tag is a varint whose value is num*8+typ with
   1 <= num <= 2^31-1 (the code deliberately accepts numbers above 2^29-1 for
   MessageSet and only rejects 0 and int32 overflow).  A value of wire type
   0/1/2/5 is a varint / 8 bytes / a varint length followed by exactly that
   many bytes / 4 bytes.  A group value (type 3) is a sequence of fields none
   of which is an end-group tag, followed by an end-group tag (type 4) with
   the group's own number; groups nest at most [dep] deep.  Types 4 (as a
   field), 6 and 7 are not values. *)
From Coq Require Import List NArith Bool.
From PB Require Import Base.PBytes Wire.WireModel.
Import ListNotations.
Open Scope N_scope.

(* at most k bytes, the k-th byte restricted to {0,1} *)
Fixpoint varint_shape (k : nat) (p : list byte) : Prop :=
  match k, p with
  | S k', b :: r =>
      match k' with
      | O => r = [] /\ b2n b < 2
      | S _ => (b2n b < 128 /\ r = []) \/ (128 <= b2n b /\ varint_shape k' r)
      end
  | _, _ => False
  end.
Definition varint_bytes (p : list byte) : Prop := varint_shape 10 p.

(* little-endian base-128 value of the low 7 bits of each byte *)
Fixpoint varint_val (p : list byte) : N :=
  match p with
  | [] => 0
  | b :: r => b2n b mod 128 + 128 * varint_val r
  end.

Definition num_ok (num : N) : Prop := 1 <= num /\ num <= 2147483647.

Definition is_tag (p : list byte) (num typ : N) : Prop :=
  varint_bytes p /\ varint_val p = num * 8 + typ /\ typ < 8 /\ num_ok num.

(* a sequence of fields whose values satisfy P, none of them an end-group tag *)
Inductive wf_seq (P : N -> N -> list byte -> Prop) : list byte -> Prop :=
| wf_seq_nil : wf_seq P []
| wf_seq_cons tag num typ val rest :
    is_tag tag num typ -> typ <> 4 -> P num typ val -> wf_seq P rest ->
    wf_seq P (tag ++ val ++ rest).

(* [val] is exactly one value of wire type [typ] for field [num]; [dep] is
   the number of group levels still allowed (Go: depth + 1) *)
Fixpoint wf_value (dep : nat) (num typ : N) (val : list byte) : Prop :=
  match typ with
  | 0 => varint_bytes val
  | 1 => length val = 8%nat
  | 5 => length val = 4%nat
  | 2 => exists p payload, val = p ++ payload /\ varint_bytes p /\
                           varint_val p = N.of_nat (length payload)
  | 3 => match dep with
         | O => False
         | S d => exists body etag, val = body ++ etag /\
                                    wf_seq (wf_value d) body /\ is_tag etag num 4
         end
  | _ => False
  end.

(* [bs] starts with one well-formed field (num, typ) occupying n bytes *)
Definition wf_field (dep : nat) (bs : list byte) (num typ n : N) : Prop :=
  exists tag val rest, bs = tag ++ val ++ rest /\ is_tag tag num typ /\
                       wf_value dep num typ val /\ n = N.of_nat (length tag + length val).

(* a sequence of well-formed fields (a message body / group body) *)
Definition wf_fields (dep : nat) (bs : list byte) : Prop := wf_seq (wf_value dep) bs.

(* ---------- well-formed wire trees (for render/parse round trips) ---------- *)
Fixpoint wf_val (v : wval) : Prop :=
  match v with
  | WVarint x => x < 2^64
  | WFixed32 b => length b = 4%nat
  | WFixed64 b => length b = 8%nat
  | WLen b => N.of_nat (length b) < 2^64
  | WGroup fs => (fix all (l : list (N * wval)) : Prop :=
                    match l with [] => True | p :: r => num_ok (fst p) /\ wf_val (snd p) /\ all r end) fs
  end.

(* group nesting depth of a tree *)
Fixpoint wdepth (v : wval) : nat :=
  match v with
  | WGroup fs => S ((fix mx (l : list (N * wval)) : nat :=
                       match l with [] => O | p :: r => Nat.max (wdepth (snd p)) (mx r) end) fs)
  | _ => O
  end.
