(* go_eq_spec: the Go functions of encoding/protowire/wire.go, as translated to
   Gallina by srcmodel on every run (Gen/WireGo.v), equal the specification
   functions of Wire/WireModel.v on their domains.  If wire.go changes, WireGo.v
   changes, and these proofs either still go through or break.
   (AppendVarint: Wire/WireGoAppendP.v, ConsumeVarint: Wire/WireGoConsumeP.v.) *)
From Coq Require Import List Arith NArith ZArith Lia Bool.
From Coq Require Import ZifyBool ZifyNat ZifyN.
From PB Require Import Base.PBytes Base.GoInt Wire.WireModel Wire.WireGrammar Wire.VarintP Wire.ScanP Wire.PrimP.
From PB Require Import Gen.WireGo.
From PB Require Export Wire.WireGoBaseP Wire.WireGoAppendP Wire.WireGoConsumeP.
Ltac Zify.zify_post_hook ::= Z.div_mod_to_equations.
Import ListNotations.
Import String.StringSyntax.
Local Open Scope string_scope.
Open Scope Z_scope.

(* ------------------------------------------------------------------ *)
(* SizeVarint                                                          *)
Lemma z_log2_of_N v : Z.log2 (Z.of_N v) = Z.of_N (N.log2 v).
Proof. destruct v as [|[p|p|]]; reflexivity. Qed.

Theorem go_SizeVarint_spec v : (v < 2^64)%N -> go_SizeVarint (Z.of_N v) = Z.of_N (size_varint v).
Proof.
  intros Hv. change (2^64)%N with 18446744073709551616%N in Hv.
  unfold go_SizeVarint. cbv zeta.
  set (w := Z.lor (Z.of_N v) 1).
  assert (Hw1 : 1 <= w).
  { subst w. pose proof (Z.lor_nonneg (Z.of_N v) 1) as Hn.
    destruct (Z.eq_dec (Z.lor (Z.of_N v) 1) 0) as [E|E]; [apply Z.lor_eq_0_iff in E; lia|].
    assert (0 <= Z.lor (Z.of_N v) 1) by (apply Hn; lia). lia. }
  assert (Hlog : Z.log2 w = Z.of_N (N.log2 v)).
  { subst w. rewrite Z.log2_lor by lia. change (Z.log2 1) with 0.
    rewrite z_log2_of_N. lia. }
  assert (Hl63 : (N.log2 v <= 63)%N).
  { destruct (N.eq_dec v 0) as [->|Hnz]; [cbn; lia|].
    assert (N.log2 v < 64)%N by (apply N.log2_lt_pow2; [lia|change (2^64)%N with 18446744073709551616%N; lia]). lia. }
  unfold bits_LeadingZeros64. replace (w =? 0) with false by lia. rewrite Hlog.
  set (L := Z.of_N (N.log2 v)). assert (HL : 0 <= L <= 63) by (subst L; lia).
  rewrite (wrap_u32_small (63 - L)) by lia.
  pose proof (lxor_ones_sub (63 - L) 6 ltac:(lia)) as HX. change (2^6) with 64 in HX.
  change (64 - 1) with 63 in HX. rewrite HX by lia. clear HX.
  replace (63 - (63 - L)) with L by lia.
  rewrite (wrap_u32_small L) by lia. rewrite (wrap_u32_small (L * 9)) by lia.
  rewrite (wrap_u32_small (L * 9 + 73)) by lia. rewrite Z.quot_div_nonneg by lia.
  assert (Hq : 0 <= (L * 9 + 73) / 64 < 64) by lia.
  rewrite wrap_u32_small by lia. rewrite wrap_i64_small by lia.
  unfold size_varint. destruct (N.eq_dec v 0) as [->|Hnz].
  - subst L. cbn. reflexivity.
  - rewrite N.size_log2 by exact Hnz. rewrite N2Z.inj_div, N2Z.inj_add, N2Z.inj_mul, N2Z.inj_succ. fold L.
    change (Z.of_N 9) with 9. change (Z.of_N 64) with 64.
    replace (9 * Z.succ L + 64) with (L * 9 + 73) by lia. reflexivity.
Qed.

(* ------------------------------------------------------------------ *)
(* constants                                                           *)
Theorem go_constants :
  c_VarintType = 0 /\ c_Fixed64Type = 1 /\ c_BytesType = 2 /\ c_StartGroupType = 3 /\
  c_EndGroupType = 4 /\ c_Fixed32Type = 5 /\
  c_errCodeTruncated = werr_code Truncated /\ c_errCodeFieldNumber = werr_code FieldNumber /\
  c_errCodeOverflow = werr_code Overflow /\ c_errCodeReserved = werr_code Reserved /\
  c_errCodeEndGroup = werr_code EndGroup /\ c_errCodeRecursionDepth = werr_code RecursionDepth /\
  c_MinValidNumber = 1 /\ c_MaxValidNumber = 2^29 - 1 /\
  Z.to_nat (c_DefaultRecursionLimit + 1) = default_dep.
Proof. repeat split; reflexivity. Qed.

(* ------------------------------------------------------------------ *)
(* fixed32 / fixed64                                                   *)
Fixpoint shifts8 (n : nat) (k : Z) : list Z :=
  match n with O => [] | S n' => k :: shifts8 n' (k + 8) end.

Lemma enc_le_shifts : forall n k v,
  0 <= k ->
  zbytes (enc_le n (v / 2 ^ Z.to_N k)%N) = map (fun s => wrap_u8 (Z.shiftr (Z.of_N v) s)) (shifts8 n k).
Proof.
  induction n as [|n IH]; intros k v Hk; [reflexivity|].
  cbn [enc_le shifts8 map]. rewrite zbytes_cons. f_equal.
  - rewrite zb_byte by (apply N.mod_lt; discriminate).
    unfold wrap_u8. rewrite Z.shiftr_div_pow2 by exact Hk.
    rewrite N2Z.inj_mod, N2Z.inj_div, N2Z.inj_pow, Z2N.id by lia. reflexivity.
  - rewrite <- IH by lia. f_equal. f_equal.
    rewrite N.div_div by (try apply N.pow_nonzero; discriminate).
    f_equal. rewrite Z2N.inj_add by lia. rewrite N.pow_add_r. reflexivity.
Qed.

Theorem go_AppendFixed32_spec b v :
  go_AppendFixed32 (zbytes b) (Z.of_N v) = zbytes (b ++ enc_fixed32 v).
Proof.
  rewrite zbytes_app. unfold enc_fixed32. rewrite <- (N.div_1_r v) at 2.
  change 1%N with (2 ^ Z.to_N 0)%N. rewrite enc_le_shifts by lia. reflexivity.
Qed.

Theorem go_AppendFixed64_spec b v :
  go_AppendFixed64 (zbytes b) (Z.of_N v) = zbytes (b ++ enc_fixed64 v).
Proof.
  rewrite zbytes_app. unfold enc_fixed64. rewrite <- (N.div_1_r v) at 2.
  change 1%N with (2 ^ Z.to_N 0)%N. rewrite enc_le_shifts by lia. reflexivity.
Qed.

(* one more byte or-ed in above the k bits accumulated so far *)
Lemma lor_byte a y k :
  0 <= k -> 0 <= a < 2^k -> 0 <= y < 256 ->
  Z.lor a (Z.shiftl y k) = a + y * 2^k /\ 0 <= a + y * 2^k < 2^(k + 8).
Proof.
  intros Hk Ha Hy. split; [apply lor_shiftl_add; assumption|].
  rewrite Z.pow_add_r by lia. change (2^8) with 256. remember (2^k) as P. nia.
Qed.

Lemma shiftl_byte_small y k : 0 <= k -> 0 <= y < 256 -> 0 <= Z.shiftl y k < 2^(k + 8).
Proof.
  intros Hk Hy. rewrite Z.shiftl_mul_pow2 by exact Hk. rewrite Z.pow_add_r by lia.
  change (2^8) with 256. assert (0 < 2^k) by (apply Z.pow_pos_nonneg; lia). nia.
Qed.

Ltac byte_facts :=
  repeat match goal with
         | b : byte |- _ =>
           lazymatch goal with
           | _ : (b2n b < 256)%N |- _ => fail
           | _ => pose proof (b2n_lt b)
           end
         end.

Theorem go_ConsumeFixed32_spec bs : go_ConsumeFixed32 (zbytes bs) = Val (zres_vn (dec_fixed32 bs) bs).
Proof.
  unfold go_ConsumeFixed32. cbv zeta.
  destruct bs as [|b0 [|b1 [|b2 [|b3 r]]]]; try reflexivity.
  rewrite !zbytes_cons.
  replace (len (Z.of_N (b2n b0) :: Z.of_N (b2n b1) :: Z.of_N (b2n b2) :: Z.of_N (b2n b3) :: zbytes r) <? 4)
    with false by (rewrite !len_cons; pose proof (len_nonneg (zbytes r)); lia).
  index_at 0. index_at 1. index_at 2. index_at 3.
  byte_facts.
  set (y0 := Z.of_N (b2n b0)). set (y1 := Z.of_N (b2n b1)). set (y2 := Z.of_N (b2n b2)). set (y3 := Z.of_N (b2n b3)).
  assert (Hy : 0 <= y0 < 256 /\ 0 <= y1 < 256 /\ 0 <= y2 < 256 /\ 0 <= y3 < 256) by (subst y0 y1 y2 y3; lia).
  destruct Hy as (Hy0 & Hy1 & Hy2 & Hy3).
  rewrite !(wrap_u32_small y0), !(wrap_u32_small y1), !(wrap_u32_small y2), !(wrap_u32_small y3) by lia.
  rewrite Z.shiftl_0_r. rewrite (wrap_u32_small y0) by lia.
  pose proof (shiftl_byte_small y1 8 ltac:(lia) Hy1) as S1. change (2^(8+8)) with 65536 in S1.
  pose proof (shiftl_byte_small y2 16 ltac:(lia) Hy2) as S2. change (2^(16+8)) with 16777216 in S2.
  pose proof (shiftl_byte_small y3 24 ltac:(lia) Hy3) as S3. change (2^(24+8)) with 4294967296 in S3.
  rewrite (wrap_u32_small (Z.shiftl y1 8)), (wrap_u32_small (Z.shiftl y2 16)), (wrap_u32_small (Z.shiftl y3 24)) by lia.
  destruct (lor_byte y0 y1 8 ltac:(lia) ltac:(change (2^8) with 256; lia) Hy1) as [E1 B1]. rewrite E1.
  destruct (lor_byte _ y2 16 ltac:(lia) B1 Hy2) as [E2 B2]. rewrite E2.
  destruct (lor_byte _ y3 24 ltac:(lia) B2 Hy3) as [E3 B3]. rewrite E3.
  unfold dec_fixed32, dec_fixed. cbn [take length Nat.leb firstn skipn zres_vn dec_le].
  f_equal. f_equal.
  - change (2^8) with 256. change (2^16) with 65536. change (2^24) with 16777216. subst y0 y1 y2 y3. lia.
  - cbn [length]. lia.
Qed.

Theorem go_ConsumeFixed64_spec bs : go_ConsumeFixed64 (zbytes bs) = Val (zres_vn (dec_fixed64 bs) bs).
Proof.
  unfold go_ConsumeFixed64. cbv zeta.
  destruct bs as [|b0 [|b1 [|b2 [|b3 [|b4 [|b5 [|b6 [|b7 r]]]]]]]]; try reflexivity.
  rewrite !zbytes_cons.
  match goal with |- context [len ?L <? 8] =>
    replace (len L <? 8) with false by (rewrite !len_cons; pose proof (len_nonneg (zbytes r)); lia) end.
  index_at 0. index_at 1. index_at 2. index_at 3. index_at 4. index_at 5. index_at 6. index_at 7.
  byte_facts.
  set (y0 := Z.of_N (b2n b0)). set (y1 := Z.of_N (b2n b1)). set (y2 := Z.of_N (b2n b2)). set (y3 := Z.of_N (b2n b3)).
  set (y4 := Z.of_N (b2n b4)). set (y5 := Z.of_N (b2n b5)). set (y6 := Z.of_N (b2n b6)). set (y7 := Z.of_N (b2n b7)).
  assert (Hy0 : 0 <= y0 < 256) by (subst y0; lia). assert (Hy1 : 0 <= y1 < 256) by (subst y1; lia).
  assert (Hy2 : 0 <= y2 < 256) by (subst y2; lia). assert (Hy3 : 0 <= y3 < 256) by (subst y3; lia).
  assert (Hy4 : 0 <= y4 < 256) by (subst y4; lia). assert (Hy5 : 0 <= y5 < 256) by (subst y5; lia).
  assert (Hy6 : 0 <= y6 < 256) by (subst y6; lia). assert (Hy7 : 0 <= y7 < 256) by (subst y7; lia).
  rewrite !(wrap_u64_small y0), !(wrap_u64_small y1), !(wrap_u64_small y2), !(wrap_u64_small y3),
          !(wrap_u64_small y4), !(wrap_u64_small y5), !(wrap_u64_small y6), !(wrap_u64_small y7) by lia.
  rewrite Z.shiftl_0_r. rewrite (wrap_u64_small y0) by lia.
  pose proof (shiftl_byte_small y1 8 ltac:(lia) Hy1) as S1. change (2^(8+8)) with 65536 in S1.
  pose proof (shiftl_byte_small y2 16 ltac:(lia) Hy2) as S2. change (2^(16+8)) with 16777216 in S2.
  pose proof (shiftl_byte_small y3 24 ltac:(lia) Hy3) as S3. change (2^(24+8)) with 4294967296 in S3.
  pose proof (shiftl_byte_small y4 32 ltac:(lia) Hy4) as S4. change (2^(32+8)) with 1099511627776 in S4.
  pose proof (shiftl_byte_small y5 40 ltac:(lia) Hy5) as S5. change (2^(40+8)) with 281474976710656 in S5.
  pose proof (shiftl_byte_small y6 48 ltac:(lia) Hy6) as S6. change (2^(48+8)) with 72057594037927936 in S6.
  pose proof (shiftl_byte_small y7 56 ltac:(lia) Hy7) as S7. change (2^(56+8)) with 18446744073709551616 in S7.
  rewrite (wrap_u64_small (Z.shiftl y1 8)), (wrap_u64_small (Z.shiftl y2 16)), (wrap_u64_small (Z.shiftl y3 24)),
          (wrap_u64_small (Z.shiftl y4 32)), (wrap_u64_small (Z.shiftl y5 40)), (wrap_u64_small (Z.shiftl y6 48)),
          (wrap_u64_small (Z.shiftl y7 56)) by lia.
  destruct (lor_byte y0 y1 8 ltac:(lia) ltac:(change (2^8) with 256; lia) Hy1) as [E1 B1]. rewrite E1.
  destruct (lor_byte _ y2 16 ltac:(lia) B1 Hy2) as [E2 B2]. rewrite E2.
  destruct (lor_byte _ y3 24 ltac:(lia) B2 Hy3) as [E3 B3]. rewrite E3.
  destruct (lor_byte _ y4 32 ltac:(lia) B3 Hy4) as [E4 B4]. rewrite E4.
  destruct (lor_byte _ y5 40 ltac:(lia) B4 Hy5) as [E5 B5]. rewrite E5.
  destruct (lor_byte _ y6 48 ltac:(lia) B5 Hy6) as [E6 B6]. rewrite E6.
  destruct (lor_byte _ y7 56 ltac:(lia) B6 Hy7) as [E7 B7]. rewrite E7.
  unfold dec_fixed64, dec_fixed. cbn [take length Nat.leb firstn skipn zres_vn dec_le].
  f_equal. f_equal.
  - change (2^8) with 256. change (2^16) with 65536. change (2^24) with 16777216. change (2^32) with 4294967296.
    change (2^40) with 1099511627776. change (2^48) with 281474976710656. change (2^56) with 72057594037927936.
    subst y0 y1 y2 y3 y4 y5 y6 y7. lia.
  - cbn [length]. lia.
Qed.

Theorem go_Fixed_spec :
  (forall b v, (v < 2^32)%N -> go_AppendFixed32 (zbytes b) (Z.of_N v) = zbytes (b ++ enc_fixed32 v)) /\
  (forall b v, (v < 2^64)%N -> go_AppendFixed64 (zbytes b) (Z.of_N v) = zbytes (b ++ enc_fixed64 v)) /\
  (forall bs, go_ConsumeFixed32 (zbytes bs) = Val (zres_vn (dec_fixed32 bs) bs)) /\
  (forall bs, go_ConsumeFixed64 (zbytes bs) = Val (zres_vn (dec_fixed64 bs) bs)) /\
  go_SizeFixed32 = 4 /\ go_SizeFixed64 = 8.
Proof.
  split; [intros; apply go_AppendFixed32_spec|]. split; [intros; apply go_AppendFixed64_spec|].
  split; [exact go_ConsumeFixed32_spec|]. split; [exact go_ConsumeFixed64_spec|]. split; reflexivity.
Qed.

(* ------------------------------------------------------------------ *)
(* zig-zag, bool                                                       *)
Theorem go_EncodeZigZag_spec x :
  - 2^63 <= x < 2^63 -> go_EncodeZigZag x = Z.of_N (zz_enc x).
Proof.
  change (2^63) with 9223372036854775808. intros Hx.
  unfold go_EncodeZigZag, zz_enc. rewrite Z.shiftl_mul_pow2, Z.shiftr_div_pow2 by lia.
  change (2^1) with 2. change (2^63) with 9223372036854775808.
  destruct (x <? 0) eqn:E.
  - replace (x / 9223372036854775808) with (-1) by lia.
    change (wrap_u64 (-1)) with (2^64 - 1).
    assert (Hu : wrap_u64 (wrap_i64 (x * 2)) = x * 2 + 18446744073709551616) by (unfold wrap_u64, wrap_i64; lia).
    rewrite Hu. rewrite lxor_ones_sub by (change (2^64) with 18446744073709551616; lia).
    change (2^64) with 18446744073709551616. rewrite wrap_u64_small by lia. lia.
  - replace (x / 9223372036854775808) with 0 by lia. change (wrap_u64 0) with 0. rewrite Z.lxor_0_r.
    assert (Hu : wrap_u64 (wrap_i64 (x * 2)) = x * 2) by (unfold wrap_u64, wrap_i64; lia).
    rewrite Hu. rewrite wrap_u64_small by lia. lia.
Qed.

Theorem go_DecodeZigZag_spec n : (n < 2^64)%N -> go_DecodeZigZag (Z.of_N n) = zz_dec n.
Proof.
  change (2^64)%N with 18446744073709551616%N. intros Hn.
  unfold go_DecodeZigZag, zz_dec. set (x := Z.of_N n).
  rewrite Z.shiftr_div_pow2 by lia. change (2^1) with 2.
  rewrite (wrap_i64_small (x / 2)) by (subst x; lia).
  rewrite Z.shiftl_mul_pow2 by lia. rewrite Z.shiftr_div_pow2 by lia. change (2^63) with 9223372036854775808.
  replace (Z.of_N (n / 2)) with (x / 2) by (subst x; rewrite N2Z.inj_div; reflexivity).
  destruct (N.even n) eqn:E.
  - apply N.even_spec in E. destruct E as [m Hm].
    assert (Hs : wrap_i64 (wrap_i64 x * 9223372036854775808) = 0) by (unfold wrap_i64; subst x; lia).
    rewrite Hs. change (0 / 9223372036854775808) with 0. rewrite Z.lxor_0_r.
    apply wrap_i64_small. subst x. lia.
  - assert (Ho : N.odd n = true) by (rewrite <- N.negb_even, E; reflexivity).
    apply N.odd_spec in Ho. destruct Ho as [m Hm].
    assert (Hs : wrap_i64 (wrap_i64 x * 9223372036854775808) = - 9223372036854775808) by (unfold wrap_i64; subst x; lia).
    rewrite Hs. change (- 9223372036854775808 / 9223372036854775808) with (-1).
    rewrite Z.lxor_m1_r. unfold Z.lnot. rewrite wrap_i64_small by (subst x; lia). lia.
Qed.

Theorem go_ZigZag_spec :
  (forall x, (- 2^63 <= x < 2^63)%Z -> go_EncodeZigZag x = Z.of_N (zz_enc x)) /\
  (forall n, (n < 2^64)%N -> go_DecodeZigZag (Z.of_N n) = zz_dec n).
Proof. split; [exact go_EncodeZigZag_spec|exact go_DecodeZigZag_spec]. Qed.

Theorem go_Bool_spec :
  (forall b, go_EncodeBool b = Z.of_N (enc_bool b)) /\
  (forall n, go_DecodeBool (Z.of_N n) = dec_bool n).
Proof.
  split; [intros []; reflexivity|]. intros n. unfold go_DecodeBool, dec_bool. f_equal. lia.
Qed.

(* ------------------------------------------------------------------ *)
(* tags                                                                *)
Theorem go_EncodeTag_spec num typ :
  (num <= 2147483647)%N -> (typ < 8)%N ->
  go_EncodeTag (Z.of_N num) (Z.of_N typ) = Z.of_N (encode_tag num typ).
Proof.
  intros Hn Ht. unfold go_EncodeTag, encode_tag. rewrite (N.mod_small typ 8) by lia.
  change 7 with (Z.ones 3). rewrite Z.land_ones by lia. change (2^3) with 8.
  rewrite (Z.mod_small (Z.of_N typ) 8) by lia.
  rewrite (wrap_u64_small (Z.of_N num)), (wrap_u64_small (Z.of_N typ)) by lia.
  rewrite Z.shiftl_mul_pow2 by lia. change (2^3) with 8. rewrite wrap_u64_small by lia.
  rewrite Z.lor_comm. replace (Z.of_N num * 8) with (Z.shiftl (Z.of_N num) 3) by (rewrite Z.shiftl_mul_pow2 by lia; reflexivity).
  rewrite lor_shiftl_add by (change (2^3) with 8; lia). change (2^3) with 8. lia.
Qed.

Theorem go_DecodeTag_spec x :
  (x < 2^64)%N ->
  go_DecodeTag (Z.of_N x) = match decode_tag x with
                            | Some (num, typ) => (Z.of_N num, Z.of_N typ)
                            | None => (-1, 0)
                            end.
Proof.
  change (2^64)%N with 18446744073709551616%N. intros Hx. unfold go_DecodeTag, decode_tag.
  rewrite Z.shiftr_div_pow2 by lia. change (2^3) with 8.
  change 7 with (Z.ones 3). rewrite Z.land_ones by lia. change (2^3) with 8.
  destruct (2147483647 <? x / 8)%N eqn:E.
  - replace (2147483647 <? Z.of_N x / 8) with true by lia. reflexivity.
  - replace (2147483647 <? Z.of_N x / 8) with false by lia.
    rewrite wrap_i32_small, wrap_i8_small by lia. f_equal; lia.
Qed.

Theorem go_AppendTag_spec b num typ :
  (num <= 2147483647)%N -> (typ < 8)%N ->
  go_AppendTag (zbytes b) (Z.of_N num) (Z.of_N typ) = zbytes (b ++ enc_tag num typ).
Proof.
  intros Hn Ht. unfold go_AppendTag, enc_tag. rewrite go_EncodeTag_spec by assumption.
  apply go_AppendVarint_spec. unfold encode_tag. rewrite (N.mod_small typ 8) by lia.
  change (2^64)%N with 18446744073709551616%N. lia.
Qed.

Theorem go_SizeTag_spec num : (num <= 2147483647)%N -> go_SizeTag (Z.of_N num) = Z.of_N (size_tag num).
Proof.
  intros Hn. unfold go_SizeTag, size_tag. change (go_EncodeTag (Z.of_N num) 0) with (go_EncodeTag (Z.of_N num) (Z.of_N 0)).
  rewrite (go_EncodeTag_spec num 0) by lia.
  apply go_SizeVarint_spec. unfold encode_tag. change (0 mod 8)%N with 0%N.
  change (2^64)%N with 18446744073709551616%N. lia.
Qed.

Definition zres_tag (R : result (N * N * list byte)) (bs : list byte) : Z * Z * Z :=
  match R with
  | Ok (num, typ, r) => (Z.of_N num, Z.of_N typ, Z.of_nat (length bs - length r))
  | Err e => (0, 0, werr_code e)
  end.

Lemma werr_code_neg e : werr_code e < 0.
Proof. destruct e; cbn; lia. Qed.

Theorem go_ConsumeTag_spec bs : go_ConsumeTag (zbytes bs) = Val (zres_tag (dec_tag bs) bs).
Proof.
  unfold go_ConsumeTag. rewrite go_ConsumeVarint_spec. cbn [bind]. unfold dec_tag.
  destruct (dec_varint bs) as [[x r]|e] eqn:E; cbn [zres_vn].
  - replace (Z.of_nat (length bs - length r) <? 0) with false by lia.
    rewrite go_DecodeTag_spec by (eapply dec_varint_bound; eauto).
    destruct (decode_tag x) as [[num typ]|].
    + destruct (num <? 1)%N eqn:En.
      * replace (Z.of_N num <? 1) with true by lia. reflexivity.
      * replace (Z.of_N num <? 1) with false by lia. reflexivity.
    + reflexivity.
  - pose proof (werr_code_neg e). replace (werr_code e <? 0) with true by lia. reflexivity.
Qed.

Theorem go_Tag_spec :
  (forall num typ, (num <= 2147483647)%N -> (typ < 8)%N ->
     go_EncodeTag (Z.of_N num) (Z.of_N typ) = Z.of_N (encode_tag num typ)) /\
  (forall x, (x < 2^64)%N ->
     go_DecodeTag (Z.of_N x) = match decode_tag x with
                               | Some (num, typ) => (Z.of_N num, Z.of_N typ)
                               | None => (-1, 0)%Z
                               end) /\
  (forall b num typ, (num <= 2147483647)%N -> (typ < 8)%N ->
     go_AppendTag (zbytes b) (Z.of_N num) (Z.of_N typ) = zbytes (b ++ enc_tag num typ)) /\
  (forall num, (num <= 2147483647)%N -> go_SizeTag (Z.of_N num) = Z.of_N (size_tag num)).
Proof.
  split; [exact go_EncodeTag_spec|]. split; [exact go_DecodeTag_spec|].
  split; [exact go_AppendTag_spec|exact go_SizeTag_spec].
Qed.

(* ------------------------------------------------------------------ *)
(* bytes, strings, groups                                              *)
Theorem go_AppendBytes_spec b v :
  (N.of_nat (length v) < 2^64)%N -> go_AppendBytes (zbytes b) (zbytes v) = zbytes (b ++ enc_bytes v).
Proof.
  intros Hv. unfold go_AppendBytes, enc_bytes. rewrite len_zbytes.
  change (2^64)%N with 18446744073709551616%N in Hv.
  rewrite wrap_u64_small by lia. replace (Z.of_nat (length v)) with (Z.of_N (N.of_nat (length v))) by lia.
  rewrite go_AppendVarint_spec by (change (2^64)%N with 18446744073709551616%N; lia).
  rewrite app_assoc, (zbytes_app (b ++ _) v). reflexivity.
Qed.

Theorem go_AppendString_spec b v : go_AppendString b v = go_AppendBytes b v.
Proof. reflexivity. Qed.

Theorem go_SizeBytes_spec n : (n < 2^62)%N -> go_SizeBytes (Z.of_N n) = Z.of_N (size_bytes n).
Proof.
  change (2^62)%N with 4611686018427387904%N. intros Hn. unfold go_SizeBytes, size_bytes.
  rewrite wrap_u64_small by lia.
  assert (Hv : (n < 2^64)%N) by (change (2^64)%N with 18446744073709551616%N; lia).
  rewrite go_SizeVarint_spec by exact Hv. pose proof (size_varint_range n Hv).
  rewrite wrap_i64_small by lia. lia.
Qed.

Theorem go_AppendGroup_spec b num v :
  (num <= 2147483647)%N ->
  go_AppendGroup (zbytes b) (Z.of_N num) (zbytes v) = zbytes (b ++ append_group num v).
Proof.
  intros Hn. unfold go_AppendGroup, append_group. rewrite <- zbytes_app.
  change 4 with (Z.of_N 4). change (go_AppendVarint (zbytes (b ++ v)) (go_EncodeTag (Z.of_N num) (Z.of_N 4)))
    with (go_AppendTag (zbytes (b ++ v)) (Z.of_N num) (Z.of_N 4)).
  rewrite go_AppendTag_spec by lia. now rewrite app_assoc.
Qed.

Theorem go_SizeGroup_spec num n :
  (num <= 2147483647)%N -> (n < 2^62)%N -> go_SizeGroup (Z.of_N num) (Z.of_N n) = Z.of_N (size_group num n).
Proof.
  change (2^62)%N with 4611686018427387904%N. intros Hnum Hn. unfold go_SizeGroup, size_group.
  rewrite go_SizeTag_spec by exact Hnum.
  assert (Hv : (encode_tag num 0 < 2^64)%N)
    by (unfold encode_tag; change (0 mod 8)%N with 0%N; change (2^64)%N with 18446744073709551616%N; lia).
  pose proof (size_varint_range _ Hv). unfold size_tag.
  rewrite wrap_i64_small by lia. lia.
Qed.

Definition zres_bytes (R : result (list byte * list byte)) (bs : list byte) : list Z * Z :=
  match R with
  | Ok (v, r) => (zbytes v, Z.of_nat (length bs - length r))
  | Err e => ([], werr_code e)
  end.

Lemma zbytes_firstn n b : firstn n (zbytes b) = zbytes (firstn n b).
Proof. apply firstn_map. Qed.
Lemma zbytes_skipn n b : skipn n (zbytes b) = zbytes (skipn n b).
Proof. apply skipn_map. Qed.

(* Go slices are shorter than 2^63 bytes *)
Theorem go_ConsumeBytes_spec bs :
  Z.of_nat (length bs) < 2^63 -> go_ConsumeBytes (zbytes bs) = Val (zres_bytes (dec_bytes bs) bs).
Proof.
  change (2^63) with 9223372036854775808. intros Hlen.
  unfold go_ConsumeBytes. cbv zeta. rewrite go_ConsumeVarint_spec. cbn [bind]. unfold dec_bytes.
  destruct (dec_varint bs) as [[m r]|e] eqn:E; cbn [zres_vn].
  - pose proof (dec_varint_bound _ _ _ E) as Hm. change (2^64)%N with 18446744073709551616%N in Hm.
    apply dec_varint_suffix in E. destruct E as (p & -> & Hp).
    rewrite app_length in Hlen.
    replace (length (p ++ r) - length r)%nat with (length p) by (rewrite app_length; lia).
    replace (Z.of_nat (length p) <? 0) with false by lia.
    assert (Hlo : slice_lo (zbytes (p ++ r)) (Z.of_nat (length p)) = Val (zbytes r)).
    { unfold slice_lo. rewrite len_zbytes, app_length.
      replace ((Z.of_nat (length p) <? 0) || (Z.of_nat (length p + length r) <? Z.of_nat (length p))) with false by lia.
      rewrite Nat2Z.id, zbytes_skipn, skipn_app, Nat.sub_diag, skipn_all. reflexivity. }
    rewrite Hlo. cbn [bind]. rewrite len_zbytes. rewrite wrap_u64_small by lia.
    destruct (N.of_nat (length r) <? m)%N eqn:Et.
    + replace (Z.of_nat (length r) <? Z.of_N m) with true by lia. reflexivity.
    + replace (Z.of_nat (length r) <? Z.of_N m) with false by lia.
      unfold slice_hi. rewrite len_zbytes.
      replace ((Z.of_N m <? 0) || (Z.of_nat (length r) <? Z.of_N m)) with false by lia.
      cbn [bind]. rewrite <- Z_N_nat, N2Z.id. unfold take.
      replace (Nat.leb (N.to_nat m) (length r)) with true by (symmetry; apply Nat.leb_le; lia).
      cbn [zres_bytes]. rewrite zbytes_firstn. f_equal. f_equal.
      rewrite (wrap_i64_small (Z.of_N m)) by lia. rewrite wrap_i64_small by lia.
      rewrite app_length, skipn_length. lia.
  - pose proof (werr_code_neg e). replace (werr_code e <? 0) with true by lia. reflexivity.
Qed.

Theorem go_ConsumeString_spec bs :
  Z.of_nat (length bs) < 2^63 -> go_ConsumeString (zbytes bs) = Val (zres_bytes (dec_bytes bs) bs).
Proof.
  intros Hlen. unfold go_ConsumeString. cbv zeta. rewrite go_ConsumeBytes_spec by exact Hlen. cbn [bind].
  destruct (zres_bytes (dec_bytes bs) bs). reflexivity.
Qed.

Theorem go_Bytes_spec :
  (forall b v, (N.of_nat (length v) < 2^64)%N ->
     go_AppendBytes (zbytes b) (zbytes v) = zbytes (b ++ enc_bytes v) /\
     go_AppendString (zbytes b) (zbytes v) = zbytes (b ++ enc_bytes v)) /\
  (forall n, (n < 2^62)%N -> go_SizeBytes (Z.of_N n) = Z.of_N (size_bytes n)) /\
  (forall bs, Z.of_nat (length bs) < 2^63 ->
     go_ConsumeBytes (zbytes bs) = Val (zres_bytes (dec_bytes bs) bs) /\
     go_ConsumeString (zbytes bs) = Val (zres_bytes (dec_bytes bs) bs)) /\
  (forall b num v, (num <= 2147483647)%N ->
     go_AppendGroup (zbytes b) (Z.of_N num) (zbytes v) = zbytes (b ++ append_group num v)) /\
  (forall num n, (num <= 2147483647)%N -> (n < 2^62)%N ->
     go_SizeGroup (Z.of_N num) (Z.of_N n) = Z.of_N (size_group num n)).
Proof.
  split; [intros b v Hv; split; [|rewrite go_AppendString_spec]; apply go_AppendBytes_spec; exact Hv|].
  split; [exact go_SizeBytes_spec|].
  split; [intros bs H; split; [apply go_ConsumeBytes_spec|apply go_ConsumeString_spec]; exact H|].
  split; [exact go_AppendGroup_spec|exact go_SizeGroup_spec].
Qed.

(* ------------------------------------------------------------------ *)
(* ParseError: the code -> error value table                           *)
Definition perr_go (p : perr) : go_error :=
  match p with
  | PNil => GoNil
  | PUnexpectedEOF => GoErr "io.ErrUnexpectedEOF"
  | PFieldNumber => GoErr "errFieldNumber"
  | POverflow => GoErr "errOverflow"
  | PReserved => GoErr "errReserved"
  | PEndGroup => GoErr "errEndGroup"
  | PParse => GoErr "errParse"
  end.

Theorem go_ParseError_spec n : go_ParseError n = perr_go (parse_error n).
Proof.
  unfold go_ParseError, parse_error.
  destruct (0 <=? n); [reflexivity|].
  destruct (n =? -1); [reflexivity|]. destruct (n =? -2); [reflexivity|].
  destruct (n =? -3); [reflexivity|]. destruct (n =? -4); [reflexivity|].
  destruct (n =? -5); reflexivity.
Qed.

(* the mapping of the scanner's error codes: nil exactly for n >= 0; the five
   documented codes go to five distinct errors; RecursionDepth (and any other
   negative code) to the generic errParse *)
Theorem parse_error_mapping :
  (forall n, parse_error n = PNil <-> 0 <= n) /\
  parse_error (werr_code Truncated) = PUnexpectedEOF /\
  parse_error (werr_code FieldNumber) = PFieldNumber /\
  parse_error (werr_code Overflow) = POverflow /\
  parse_error (werr_code Reserved) = PReserved /\
  parse_error (werr_code EndGroup) = PEndGroup /\
  parse_error (werr_code RecursionDepth) = PParse /\
  (forall e, parse_error (werr_code e) <> PNil).
Proof.
  split.
  { intros n. unfold parse_error. destruct (0 <=? n) eqn:E; [split; [lia|reflexivity]|].
    split; [|lia]. destruct (n =? -1); [discriminate|]. destruct (n =? -2); [discriminate|].
    destruct (n =? -3); [discriminate|]. destruct (n =? -4); [discriminate|].
    destruct (n =? -5); discriminate. }
  repeat split; try reflexivity. intros e; destruct e; discriminate.
Qed.
