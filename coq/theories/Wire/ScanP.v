(* Proofs about the field scanner of Wire/WireModel.v (ConsumeTag, ConsumeBytes,
   consumeFieldValueD, ConsumeField, ConsumeGroup) against the grammar of
   Wire/WireGrammar.v. *)
From Coq Require Import List Arith NArith ZArith Lia Bool.
From Coq Require Import ZifyBool ZifyNat ZifyN.
From PB Require Import Base.PBytes Wire.WireModel Wire.WireGrammar Wire.VarintP.
Ltac Zify.zify_post_hook ::= Z.div_mod_to_equations.
Import ListNotations.
Open Scope N_scope.

(* ------------------------------------------------------------------ *)
(* case analysis on the wire type                                      *)
Ltac destruct_typ typ := destruct typ as [|[[[?|?|]|[?|?|]|]|[[?|?|]|[?|?|]|]|]].

Lemma parse_val_eq dep num typ bs :
  parse_val dep num typ bs =
  match typ with
  | 0 => match dec_varint bs with Ok (v, r) => Ok (WVarint v, r) | Err e => Err e end
  | 5 => match take 4 bs with Some (b, r) => Ok (WFixed32 b, r) | None => Err Truncated end
  | 1 => match take 8 bs with Some (b, r) => Ok (WFixed64 b, r) | None => Err Truncated end
  | 2 => match dec_bytes bs with Ok (b, r) => Ok (WLen b, r) | Err e => Err e end
  | 3 => match dep with
         | O => Err RecursionDepth
         | S d => group_loop (parse_val d) num (x00 :: bs) bs []
         end
  | 4 => Err EndGroup
  | _ => Err Reserved
  end.
Proof. destruct dep; reflexivity. Qed.

Lemma wf_value_eq dep num typ val :
  wf_value dep num typ val =
  match typ with
  | 0 => varint_bytes val
  | 1 => length val = 8%nat
  | 5 => length val = 4%nat
  | 2 => exists p payload, val = p ++ payload /\ varint_bytes p /\
                           varint_val p = N.of_nat (length payload)
  | 3 => match dep with
         | O => False
         | S d => exists body etag, val = body ++ etag /\
                                    wf_seq (wf_value d) body /\ is_tag etag num 4
         end
  | _ => False
  end.
Proof. destruct dep; reflexivity. Qed.

(* ------------------------------------------------------------------ *)
(* tags                                                                *)
Lemma dec_tag_sound bs num typ r :
  dec_tag bs = Ok (num, typ, r) -> exists p, bs = p ++ r /\ is_tag p num typ.
Proof.
  unfold dec_tag. destruct (dec_varint bs) as [[x r0]|e] eqn:E; [|discriminate].
  unfold decode_tag. destruct (2147483647 <? x / 8) eqn:E1; [discriminate|].
  destruct (x / 8 <? 1) eqn:E2; [discriminate|]. intros H; inversion H; subst.
  apply dec_varint_sound in E. destruct E as (p & -> & Hs & Hv). exists p. split; [reflexivity|].
  unfold is_tag, num_ok. repeat split; auto; lia.
Qed.

Lemma dec_tag_complete p num typ r : is_tag p num typ -> dec_tag (p ++ r) = Ok (num, typ, r).
Proof.
  intros (Hs & Hv & Ht & Hlo & Hhi). unfold dec_tag. rewrite dec_varint_complete by exact Hs. rewrite Hv.
  unfold decode_tag. replace ((num * 8 + typ) / 8) with num by lia.
  replace ((num * 8 + typ) mod 8) with typ by lia.
  replace (2147483647 <? num) with false by lia. replace (num <? 1) with false by lia. reflexivity.
Qed.

Theorem dec_tag_iff bs num typ r :
  dec_tag bs = Ok (num, typ, r) <-> exists p, bs = p ++ r /\ is_tag p num typ.
Proof. split; [apply dec_tag_sound|]. intros (p & -> & H). now apply dec_tag_complete. Qed.

Lemma is_tag_len p num typ : is_tag p num typ -> (1 <= length p <= 10)%nat.
Proof. intros (Hs & _). now apply varint_shape_len. Qed.

Lemma dec_tag_not_fuel bs : dec_tag bs <> Err OutOfFuel.
Proof.
  unfold dec_tag. pose proof (dec_varint_not_fuel bs). destruct (dec_varint bs) as [[x r]|e]; [|congruence].
  destruct (decode_tag x) as [[n t]|]; [|discriminate]. destruct (n <? 1); discriminate.
Qed.

(* error classification of ConsumeTag *)
Lemma dec_tag_err bs e : dec_tag bs = Err e -> e = Truncated \/ e = Overflow \/ e = FieldNumber.
Proof.
  unfold dec_tag. destruct (dec_varint bs) as [[x r]|e'] eqn:E.
  - destruct (decode_tag x) as [[n t]|]; [destruct (n <? 1)|]; intros H; inversion H; auto.
  - intros H; inversion H; subst. unfold dec_varint in E.
    assert (G : forall k s a bs, dec_varint_aux k s a bs = Err e -> e = Truncated \/ e = Overflow).
    { clear. induction k as [|k IH]; intros s a bs; cbn [dec_varint_aux]; [intros H; inversion H; auto|].
      destruct bs as [|b t]; [intros H; inversion H; auto|]. destruct k as [|k'].
      - destruct (b2n b <? 2); intros H; inversion H; auto.
      - destruct (b2n b <? 128); [discriminate|]. apply IH. }
    apply G in E. tauto.
Qed.

(* ------------------------------------------------------------------ *)
(* length-prefixed payloads                                            *)
Lemma dec_bytes_sound bs v r :
  dec_bytes bs = Ok (v, r) ->
  exists p, bs = p ++ v ++ r /\ varint_bytes p /\ varint_val p = N.of_nat (length v).
Proof.
  unfold dec_bytes. destruct (dec_varint bs) as [[n r0]|e] eqn:E; [|discriminate].
  destruct (N.of_nat (length r0) <? n) eqn:E1; [discriminate|].
  destruct (take (N.to_nat n) r0) as [[a b]|] eqn:E2; [|discriminate].
  intros H; inversion H; subst. apply take_some in E2. destruct E2 as [-> Hl].
  apply dec_varint_sound in E. destruct E as (p & -> & Hs & Hv). exists p. repeat split; auto. lia.
Qed.

Lemma dec_bytes_complete p v r :
  varint_bytes p -> varint_val p = N.of_nat (length v) -> dec_bytes (p ++ v ++ r) = Ok (v, r).
Proof.
  intros Hs Hv. unfold dec_bytes. rewrite dec_varint_complete by exact Hs. rewrite Hv.
  rewrite app_length. replace (N.of_nat (length v + length r) <? N.of_nat (length v)) with false by lia.
  rewrite Nnat.Nat2N.id, take_app. reflexivity.
Qed.

Lemma take_ext n bs a r ext : take n bs = Some (a, r) -> take n (bs ++ ext) = Some (a, r ++ ext).
Proof.
  intros H. apply take_some in H. destruct H as [-> <-]. rewrite <- app_assoc. apply take_app.
Qed.

Lemma take_none n bs : take n bs = None -> (length bs < n)%nat.
Proof. unfold take. destruct (Nat.leb n (length bs)) eqn:E; [discriminate|]. intros _. apply Nat.leb_gt. exact E. Qed.

Lemma take_short n bs : (length bs < n)%nat -> take n bs = None.
Proof. intros H. unfold take. replace (Nat.leb n (length bs)) with false; [reflexivity|]. symmetry. apply Nat.leb_gt. exact H. Qed.

(* ------------------------------------------------------------------ *)
(* the group loop, for an arbitrary value scanner [pv]                 *)
Section Loop.
  Variable pv : pv_t.
  Variable P : N -> N -> list byte -> Prop.
  Variable num : N.

  Hypothesis pv_sound : forall n t bs v r, pv n t bs = Ok (v, r) -> exists val, bs = val ++ r /\ P n t val.

  Lemma group_loop_sound : forall g bs acc v r,
    group_loop pv num g bs acc = Ok (v, r) ->
    exists body etag, bs = body ++ etag ++ r /\ wf_seq P body /\ is_tag etag num 4.
  Proof.
    induction g as [|x g IH]; intros bs acc v r H; [discriminate|].
    cbn [group_loop] in H. destruct (dec_tag bs) as [[[n2 t2] r0]|e] eqn:E; [|discriminate].
    apply dec_tag_sound in E. destruct E as (tag & -> & Htag).
    destruct (t2 =? 4) eqn:E4.
    - apply N.eqb_eq in E4. subst t2. destruct (n2 =? num) eqn:En; [|discriminate].
      apply N.eqb_eq in En. subst n2. inversion H; subst.
      exists [], tag. split; [reflexivity|]. split; [constructor|exact Htag].
    - destruct (pv n2 t2 r0) as [[v' r']|e] eqn:Ep; [|discriminate].
      apply pv_sound in Ep. destruct Ep as (val & -> & HP).
      apply IH in H. destruct H as (body & etag & -> & Hseq & Het).
      exists (tag ++ val ++ body), etag. split; [now rewrite <- !app_assoc|]. split; [|exact Het].
      apply N.eqb_neq in E4. apply wf_seq_cons with (num := n2) (typ := t2); auto.
  Qed.

End Loop.

Section LoopComplete.
  Variable pv : pv_t.
  Variable P : N -> N -> list byte -> Prop.
  Variable num : N.
  Hypothesis pv_complete : forall n t val, P n t val -> forall rest, exists v, pv n t (val ++ rest) = Ok (v, rest).

  Lemma group_loop_complete : forall body, wf_seq P body ->
    forall etag rest g acc, is_tag etag num 4 ->
    (length (body ++ etag ++ rest) < length g)%nat ->
    exists v, group_loop pv num g (body ++ etag ++ rest) acc = Ok (v, rest).
  Proof.
    induction 1 as [|tag n t val rest0 Htag Hne HP Hseq IH]; intros etag rest g acc Het Hlen.
    - destruct g as [|x g]; [cbn in Hlen; lia|]. cbn [group_loop app].
      rewrite (dec_tag_complete _ _ _ _ Het). cbn. rewrite N.eqb_refl. eauto.
    - destruct g as [|x g]; [cbn in Hlen; lia|]. cbn [group_loop].
      rewrite <- !app_assoc. rewrite (dec_tag_complete _ _ _ _ Htag).
      replace (t =? 4) with false by (symmetry; apply N.eqb_neq; exact Hne).
      destruct (pv_complete _ _ _ HP (rest0 ++ etag ++ rest)) as [v Hv]. rewrite Hv.
      apply IH; [exact Het|]. apply is_tag_len in Htag.
      rewrite <- !app_assoc in Hlen. rewrite !app_length in *. cbn [length] in Hlen. lia.
  Qed.
End LoopComplete.

Lemma dec_tag_len bs n t r : dec_tag bs = Ok (n, t, r) -> (length r < length bs)%nat.
Proof.
  intros H. apply dec_tag_sound in H. destruct H as (p & -> & Hp). apply is_tag_len in Hp.
  rewrite app_length. lia.
Qed.

Section LoopFuel.
  Variable pv : pv_t.
  Variable num : N.
  Hypothesis pv_len : forall n t bs v r, pv n t bs = Ok (v, r) -> (length r <= length bs)%nat.

  Hypothesis pv_not_fuel : forall n t bs, pv n t bs <> Err OutOfFuel.

  Lemma group_loop_not_fuel : forall g bs acc,
    (length bs < length g)%nat -> group_loop pv num g bs acc <> Err OutOfFuel.
  Proof.
    induction g as [|x g IH]; intros bs acc Hlen; [cbn in Hlen; lia|].
    cbn [group_loop]. pose proof (dec_tag_not_fuel bs) as Hnf.
    destruct (dec_tag bs) as [[[n2 t2] r0]|e] eqn:E; [|congruence].
    apply dec_tag_len in E. destruct (t2 =? 4).
    - destruct (n2 =? num); discriminate.
    - pose proof (pv_not_fuel n2 t2 r0) as Hp. destruct (pv n2 t2 r0) as [[v' r']|e] eqn:Ep; [|congruence].
      apply pv_len in Ep. apply IH. cbn [length] in Hlen. lia.
  Qed.

  Lemma group_loop_len : forall g bs acc v r,
    group_loop pv num g bs acc = Ok (v, r) -> (length r < length bs)%nat.
  Proof.
    induction g as [|x g IH]; intros bs acc v r H; [discriminate|].
    cbn [group_loop] in H. destruct (dec_tag bs) as [[[n2 t2] r0]|e] eqn:E; [|discriminate].
    apply dec_tag_len in E. destruct (t2 =? 4).
    - destruct (n2 =? num); [|discriminate]. inversion H; subst. exact E.
    - destruct (pv n2 t2 r0) as [[v' r']|e] eqn:Ep; [|discriminate].
      apply pv_len in Ep. apply IH in H. lia.
  Qed.
End LoopFuel.

(* ------------------------------------------------------------------ *)
(* soundness: whatever the scanner accepts is in the grammar           *)
Lemma parse_val_scalar_sound dep num typ bs v r :
  typ <> 3 -> parse_val dep num typ bs = Ok (v, r) ->
  exists val, bs = val ++ r /\ wf_value dep num typ val.
Proof.
  intros Ht H. rewrite parse_val_eq in H.
  destruct_typ typ; cbv iota in H; try discriminate; try (exfalso; apply Ht; reflexivity).
  - (* 0 *) destruct (dec_varint bs) as [[x r0]|e] eqn:E; [|discriminate]. inversion H; subst.
    apply dec_varint_sound in E. destruct E as (p & -> & Hs & _). exists p. split; [reflexivity|].
    rewrite wf_value_eq. exact Hs.
  - (* 5 *) destruct (take 4 bs) as [[a b]|] eqn:E; [|discriminate]. inversion H; subst.
    apply take_some in E. destruct E as [-> Hl]. exists a. split; [reflexivity|].
    rewrite wf_value_eq. exact Hl.
  - (* 2 *) destruct (dec_bytes bs) as [[a b]|e] eqn:E; [|discriminate]. inversion H; subst.
    apply dec_bytes_sound in E. destruct E as (p & -> & Hs & Hv). exists (p ++ a).
    split; [now rewrite <- app_assoc|]. rewrite wf_value_eq. exists p, a. auto.
  - (* 1 *) destruct (take 8 bs) as [[a b]|] eqn:E; [|discriminate]. inversion H; subst.
    apply take_some in E. destruct E as [-> Hl]. exists a. split; [reflexivity|].
    rewrite wf_value_eq. exact Hl.
Qed.

Theorem parse_val_sound : forall dep num typ bs v r,
  parse_val dep num typ bs = Ok (v, r) -> exists val, bs = val ++ r /\ wf_value dep num typ val.
Proof.
  induction dep as [|d IH]; intros num typ bs v r H;
    (destruct (N.eq_dec typ 3) as [->|Hn]; [|eapply parse_val_scalar_sound; eauto]).
  - discriminate.
  - rewrite parse_val_eq in H. cbv iota in H.
    apply (group_loop_sound _ (wf_value d) num IH) in H.
    destruct H as (body & etag & -> & Hseq & Het). exists (body ++ etag).
    split; [now rewrite <- app_assoc|]. rewrite wf_value_eq. exists body, etag. auto.
Qed.

(* completeness: every value of the grammar is accepted, and exactly it is consumed *)
Lemma parse_val_scalar_complete dep num typ val rest :
  typ <> 3 -> wf_value dep num typ val -> exists v, parse_val dep num typ (val ++ rest) = Ok (v, rest).
Proof.
  intros Ht H. rewrite wf_value_eq in H. rewrite parse_val_eq.
  destruct_typ typ; cbv iota in H |- *; try contradiction; try (exfalso; apply Ht; reflexivity).
  - rewrite dec_varint_complete by exact H. eauto.
  - rewrite <- H. rewrite take_app. eauto.
  - destruct H as (p & a & -> & Hs & Hv). rewrite <- app_assoc. rewrite dec_bytes_complete by assumption. eauto.
  - rewrite <- H. rewrite take_app. eauto.
Qed.

Theorem parse_val_complete : forall dep num typ val rest,
  wf_value dep num typ val -> exists v, parse_val dep num typ (val ++ rest) = Ok (v, rest).
Proof.
  induction dep as [|d IH]; intros num typ val rest H;
    (destruct (N.eq_dec typ 3) as [->|Hn]; [|eapply parse_val_scalar_complete; eauto]).
  - contradiction.
  - rewrite wf_value_eq in H. cbv iota in H. destruct H as (body & etag & -> & Hseq & Het).
    rewrite parse_val_eq. cbv iota. rewrite <- app_assoc.
    apply (group_loop_complete (parse_val d) (wf_value d) num
             (fun n t v0 Hv0 rest0 => IH n t v0 rest0 Hv0)); auto; cbn [length]; lia.
Qed.

(* ------------------------------------------------------------------ *)
(* never overreads, never runs out of fuel                             *)
Lemma parse_val_len dep num typ bs v r : parse_val dep num typ bs = Ok (v, r) -> (length r <= length bs)%nat.
Proof. intros H. apply parse_val_sound in H. destruct H as (val & -> & _). rewrite app_length. lia. Qed.

Theorem parse_val_suffix dep num typ bs v r : parse_val dep num typ bs = Ok (v, r) -> exists p, bs = p ++ r.
Proof. intros H. apply parse_val_sound in H. destruct H as (val & -> & _). eauto. Qed.

Lemma dec_bytes_not_fuel bs : dec_bytes bs <> Err OutOfFuel.
Proof.
  unfold dec_bytes. pose proof (dec_varint_not_fuel bs). destruct (dec_varint bs) as [[n r]|e]; [|congruence].
  destruct (N.of_nat (length r) <? n); [discriminate|]. destruct (take (N.to_nat n) r) as [[a b]|]; discriminate.
Qed.

Theorem parse_val_not_fuel : forall dep num typ bs, parse_val dep num typ bs <> Err OutOfFuel.
Proof.
  induction dep as [|d IH]; intros num typ bs; rewrite parse_val_eq;
    pose proof (dec_varint_not_fuel bs); pose proof (dec_bytes_not_fuel bs);
    destruct_typ typ; cbv iota; try discriminate;
    try (destruct (dec_varint bs) as [[? ?]|?]; congruence);
    try (destruct (dec_bytes bs) as [[? ?]|?]; congruence);
    try (destruct (take _ bs) as [[? ?]|]; discriminate).
  apply group_loop_not_fuel; [apply parse_val_len|exact IH|cbn [length]; lia].
Qed.

Theorem group_loop_total dep num bs acc :
  group_loop (parse_val dep) num (x00 :: bs) bs acc <> Err OutOfFuel.
Proof. apply group_loop_not_fuel; [apply parse_val_len|apply parse_val_not_fuel|cbn [length]; lia]. Qed.

(* ------------------------------------------------------------------ *)
(* ConsumeFieldValue / ConsumeField: accept exactly the grammar        *)
Theorem consume_field_value_iff num typ bs n :
  consume_field_value num typ bs = Ok n <->
  exists val rest, bs = val ++ rest /\ wf_value default_dep num typ val /\ n = N.of_nat (length val).
Proof.
  unfold consume_field_value. split.
  - destruct (parse_val default_dep num typ bs) as [[v r]|e] eqn:E; [|discriminate].
    intros H; inversion H; subst. apply parse_val_sound in E. destruct E as (val & -> & Hv).
    exists val, r. repeat split; auto. rewrite app_length. f_equal. lia.
  - intros (val & rest & -> & Hv & ->). destruct (parse_val_complete _ _ _ _ rest Hv) as [v E].
    rewrite E. f_equal. rewrite app_length. lia.
Qed.

Theorem consume_field_iff bs num typ n :
  consume_field bs = Ok (num, typ, n) <-> wf_field default_dep bs num typ n.
Proof.
  unfold consume_field, wf_field. split.
  - destruct (dec_tag bs) as [[[n2 t2] r]|e] eqn:E; [|discriminate].
    destruct (parse_val default_dep n2 t2 r) as [[v r']|e] eqn:Ep; [|discriminate].
    intros H; inversion H; subst. apply dec_tag_sound in E. destruct E as (tag & -> & Htag).
    apply parse_val_sound in Ep. destruct Ep as (val & -> & Hval).
    exists tag, val, r'. split; [reflexivity|]. split; [exact Htag|]. split; [exact Hval|].
    rewrite !app_length. f_equal. lia.
  - intros (tag & val & rest & -> & Htag & Hval & ->). rewrite (dec_tag_complete _ _ _ _ Htag).
    destruct (parse_val_complete _ _ _ _ rest Hval) as [v Hv]. rewrite Hv. f_equal. f_equal.
    rewrite !app_length. lia.
Qed.

Theorem consume_field_no_overread bs num typ n :
  consume_field bs = Ok (num, typ, n) ->
  n <= N.of_nat (length bs) /\ exists used rest, bs = used ++ rest /\ n = N.of_nat (length used).
Proof.
  intros H. apply consume_field_iff in H. destruct H as (tag & val & rest & -> & _ & _ & ->).
  split; [rewrite !app_length; lia|]. exists (tag ++ val), rest. rewrite <- app_assoc, app_length. auto.
Qed.

Theorem consume_field_value_no_overread num typ bs n :
  consume_field_value num typ bs = Ok n -> n <= N.of_nat (length bs).
Proof.
  intros H. apply consume_field_value_iff in H. destruct H as (val & rest & -> & _ & ->).
  rewrite app_length. lia.
Qed.

Theorem consume_field_total bs : consume_field bs <> Err OutOfFuel.
Proof.
  unfold consume_field. pose proof (dec_tag_not_fuel bs). destruct (dec_tag bs) as [[[n t] r]|e]; [|congruence].
  pose proof (parse_val_not_fuel default_dep n t r). destruct (parse_val default_dep n t r) as [[v r']|e]; congruence.
Qed.

Theorem consume_field_value_total num typ bs : consume_field_value num typ bs <> Err OutOfFuel.
Proof.
  unfold consume_field_value. pose proof (parse_val_not_fuel default_dep num typ bs).
  destruct (parse_val default_dep num typ bs) as [[v r']|e]; congruence.
Qed.

(* every error is one of the six Go error codes *)
Theorem consume_field_err_code bs e : consume_field bs = Err e -> (-6 <= werr_code e <= -1)%Z.
Proof. intros H. pose proof (consume_field_total bs). destruct e; cbn; try lia. congruence. Qed.

(* ------------------------------------------------------------------ *)
(* ConsumeGroup: stripping the (possibly padded) end tag never underflows *)
Lemma varint_val_app a b : varint_val (a ++ b) = varint_val a + 128 ^ N.of_nat (length a) * varint_val b.
Proof.
  induction a as [|x a IH]; [cbn [app varint_val length]; change (128 ^ N.of_nat 0) with 1; lia|].
  cbn [app varint_val length]. rewrite IH, Nnat.Nat2N.inj_succ, N.pow_succ_r'. lia.
Qed.

Lemma canonical_split p :
  varint_val p <> 0 ->
  exists c z, p = c ++ z /\ canonical c /\ Forall (fun b => b2n b mod 128 = 0) z /\ varint_val c = varint_val p.
Proof.
  induction p as [|x p IH] using rev_ind; [cbn; congruence|].
  intros H. destruct (N.eq_dec (b2n x mod 128) 0) as [Hz|Hnz].
  - rewrite varint_val_app in H |- *. cbn [varint_val] in H |- *. rewrite Hz in H |- *.
    replace (varint_val p + 128 ^ N.of_nat (length p) * (0 + 128 * 0)) with (varint_val p) in H |- * by lia.
    destruct (IH H) as (c & z & -> & Hc & Hzs & Hv). exists c, (z ++ [x]).
    split; [now rewrite app_assoc|]. split; [exact Hc|]. split; [|exact Hv].
    apply Forall_app. split; [exact Hzs|]. constructor; [exact Hz|constructor].
  - exists (p ++ [x]), []. split; [now rewrite app_nil_r|]. split; [exists p, x; auto|]. split; [constructor|reflexivity].
Qed.

Lemma strip_zero7_zeros z rest :
  Forall (fun b => b2n b mod 128 = 0) z -> strip_zero7 (rev z ++ rest) = strip_zero7 rest.
Proof.
  revert rest. induction z as [|b z IH]; intros rest H; [reflexivity|].
  inversion H; subst. cbn [rev]. rewrite <- app_assoc. cbn [app]. rewrite IH by assumption.
  cbn [strip_zero7]. replace (b2n b mod 128 =? 0) with true by lia. reflexivity.
Qed.

Lemma strip_zero7_canonical c rest : canonical c -> strip_zero7 (rev c ++ rest) = rev c ++ rest.
Proof.
  intros (i & l & -> & Hl). rewrite rev_app_distr. cbn [rev app strip_zero7].
  replace (b2n l mod 128 =? 0) with false by lia. reflexivity.
Qed.

Lemma size_shift3 num t : 1 <= num -> t < 8 -> N.size (num * 8 + t) = N.size num + 3.
Proof.
  intros Hn Ht. rewrite !N.size_log2 by lia.
  destruct (N.log2_spec num ltac:(lia)) as [Hlo Hhi].
  assert (N.log2 (num * 8 + t) = N.log2 num + 3); [|lia].
  apply N.log2_unique; [lia|].
  rewrite N.pow_succ_r' in Hhi.
  replace (N.succ (N.log2 num + 3)) with (N.log2 num + 4) by lia.
  rewrite !N.pow_add_r. change (2^3) with 8. change (2^4) with 16.
  remember (2 ^ N.log2 num) as P. lia.
Qed.

Lemma size_tag_eq num t : 1 <= num -> t < 8 -> size_varint (num * 8 + t) = size_tag num.
Proof.
  intros Hn Ht. unfold size_tag, encode_tag, size_varint.
  rewrite (size_shift3 num t Hn Ht). rewrite (size_shift3 num (0 mod 8) Hn) by (cbn; lia). reflexivity.
Qed.

Lemma default_dep_S : default_dep = S (N.to_nat 10000).
Proof. unfold default_dep. change 10001 with (N.succ 10000). apply Nnat.N2Nat.inj_succ. Qed.

Lemma consume_group_parts num body etag r v :
  parse_val default_dep num 3 (body ++ etag ++ r) = Ok (v, r) -> is_tag etag num 4 ->
  consume_group num (body ++ etag ++ r) = Ok (Some body, N.of_nat (length body + length etag)).
Proof.
  intros Hp Het. unfold consume_group. rewrite Hp.
  assert (Hn : (length (body ++ etag ++ r) - length r = length (body ++ etag))%nat)
    by (rewrite !app_length; lia).
  rewrite Hn. rewrite app_assoc. rewrite firstn_app, Nat.sub_diag, firstn_all, firstn_O, app_nil_r.
  destruct Het as (Hs & Hv & Ht & Hlo & Hhi).
  destruct (canonical_split etag ltac:(lia)) as (c & z & -> & Hc & Hz & Hcv).
  pose proof (varint_shape_len _ _ Hs) as Hlen. rewrite app_length in Hlen.
  assert (Hk : N.of_nat (length c) = size_tag num).
  { rewrite <- (canonical_size c Hc) by lia. rewrite Hcv, Hv. apply size_tag_eq; lia. }
  rewrite !rev_app_distr, <- !app_assoc. rewrite strip_zero7_zeros by exact Hz.
  rewrite strip_zero7_canonical by exact Hc.
  rewrite rev_app_distr, !rev_involutive.
  rewrite app_length. replace (Nat.ltb (length body + length c) (N.to_nat (size_tag num))) with false
    by (symmetry; apply Nat.ltb_ge; lia).
  replace (length body + length c - N.to_nat (size_tag num))%nat with (length body) by lia.
  rewrite firstn_app, Nat.sub_diag, firstn_all, firstn_O, app_nil_r.
  f_equal. f_equal. rewrite !app_length. lia.
Qed.

Theorem consume_group_ok num bs v r :
  parse_val default_dep num 3 bs = Ok (v, r) ->
  exists body etag, bs = body ++ etag ++ r /\ wf_fields (N.to_nat 10000) body /\ is_tag etag num 4 /\
                    consume_group num bs = Ok (Some body, N.of_nat (length body + length etag)).
Proof.
  intros H. pose proof H as Hs. apply parse_val_sound in Hs. destruct Hs as (val & -> & Hv).
  rewrite default_dep_S, wf_value_eq in Hv. cbv iota in Hv. destruct Hv as (body & etag & -> & Hseq & Het).
  exists body, etag. rewrite <- app_assoc in *. split; [reflexivity|]. split; [exact Hseq|]. split; [exact Het|].
  eapply consume_group_parts; eauto.
Qed.

(* the modelled slice panic b[:len(b)-SizeTag(num)] is unreachable *)
Theorem consume_group_no_panic num bs n : consume_group num bs <> Ok (None, n).
Proof.
  destruct (parse_val default_dep num 3 bs) as [[v r]|e] eqn:E.
  - destruct (consume_group_ok _ _ _ _ E) as (body & etag & _ & _ & _ & H). rewrite H. discriminate.
  - unfold consume_group. rewrite E. discriminate.
Qed.

Theorem consume_group_iff num bs body n :
  consume_group num bs = Ok (Some body, n) ->
  exists etag rest, bs = body ++ etag ++ rest /\ wf_fields (N.to_nat 10000) body /\ is_tag etag num 4 /\
                    n = N.of_nat (length body + length etag).
Proof.
  intros H. destruct (parse_val default_dep num 3 bs) as [[v r]|e] eqn:E.
  - destruct (consume_group_ok _ _ _ _ E) as (body' & etag & -> & Hseq & Het & H'). rewrite H' in H.
    inversion H; subst. exists etag, r. auto.
  - unfold consume_group in H. rewrite E in H. discriminate.
Qed.

Theorem consume_group_complete num body etag rest :
  wf_fields (N.to_nat 10000) body -> is_tag etag num 4 ->
  consume_group num (body ++ etag ++ rest) = Ok (Some body, N.of_nat (length body + length etag)).
Proof.
  intros Hseq Het.
  assert (Hv : wf_value default_dep num 3 (body ++ etag)).
  { rewrite default_dep_S, wf_value_eq. cbv iota. exists body, etag. auto. }
  destruct (parse_val_complete _ _ _ _ rest Hv) as [v E]. rewrite <- app_assoc in E.
  eapply consume_group_parts; eauto.
Qed.

Theorem consume_group_total num bs : consume_group num bs <> Err OutOfFuel.
Proof.
  unfold consume_group. pose proof (parse_val_not_fuel default_dep num 3 bs).
  destruct (parse_val default_dep num 3 bs) as [[v r]|e]; [|congruence].
  destruct (Nat.ltb _ _); discriminate.
Qed.

(* ------------------------------------------------------------------ *)
(* the grammar is monotone in the depth allowance                      *)
Lemma wf_seq_impl (P Q : N -> N -> list byte -> Prop) bs :
  (forall n t v, P n t v -> Q n t v) -> wf_seq P bs -> wf_seq Q bs.
Proof.
  intros HPQ H. induction H as [|tag n t val rest Htag Hne HP Hseq IH]; [constructor|].
  apply wf_seq_cons with (num := n) (typ := t); auto.
Qed.

Lemma wf_value_mono : forall d d' num typ val,
  (d <= d')%nat -> wf_value d num typ val -> wf_value d' num typ val.
Proof.
  induction d as [|d IH]; intros d' num typ val Hle H; rewrite wf_value_eq in H; rewrite wf_value_eq;
    destruct_typ typ; cbv iota in H |- *; try exact H; try contradiction.
  destruct d' as [|d']; [lia|]. destruct H as (body & etag & -> & Hseq & Het).
  exists body, etag. split; [reflexivity|]. split; [|exact Het].
  eapply wf_seq_impl; [|exact Hseq]. intros n t v Hv. apply (IH d'); [lia|exact Hv].
Qed.

Lemma wf_fields_mono d d' bs : (d <= d')%nat -> wf_fields d bs -> wf_fields d' bs.
Proof.
  intros Hle H. unfold wf_fields in *. eapply wf_seq_impl; [|exact H].
  intros n t v Hv. eapply wf_value_mono; eauto.
Qed.

(* a group body accepted at any smaller depth is accepted by ConsumeGroup *)
Corollary consume_group_complete_le d num body etag rest :
  (d <= N.to_nat 10000)%nat -> wf_fields d body -> is_tag etag num 4 ->
  consume_group num (body ++ etag ++ rest) = Ok (Some body, N.of_nat (length body + length etag)).
Proof. intros Hle H Het. apply consume_group_complete; [eapply wf_fields_mono; eauto|exact Het]. Qed.

(* ------------------------------------------------------------------ *)
(* The verdict is decided by the bytes read: appending bytes to the input
   changes nothing unless the verdict was Truncated.                    *)
Definition ext_rel {A : Type} (R R' : result (A * list byte)) (ext : list byte) : Prop :=
  match R with
  | Ok (v, r) => R' = Ok (v, r ++ ext)
  | Err Truncated => True
  | Err e => R' = Err e
  end.

Lemma dec_varint_ext_rel bs ext : ext_rel (dec_varint bs) (dec_varint (bs ++ ext)) ext.
Proof. exact (dec_varint_ext bs ext). Qed.

Lemma dec_tag_ext bs ext : ext_rel (dec_tag bs) (dec_tag (bs ++ ext)) ext.
Proof.
  unfold dec_tag. pose proof (dec_varint_ext bs ext) as H.
  destruct (dec_varint bs) as [[x r]|e].
  - rewrite H. destruct (decode_tag x) as [[n t]|]; [destruct (n <? 1)|]; cbn; reflexivity.
  - destruct e; cbn in *; trivial; rewrite H; reflexivity.
Qed.

Lemma dec_bytes_ext bs ext : ext_rel (dec_bytes bs) (dec_bytes (bs ++ ext)) ext.
Proof.
  unfold dec_bytes. pose proof (dec_varint_ext bs ext) as H.
  destruct (dec_varint bs) as [[n r]|e].
  - rewrite H. destruct (N.of_nat (length r) <? n) eqn:E; [exact I|].
    destruct (take (N.to_nat n) r) as [[a b]|] eqn:Et.
    + rewrite app_length. replace (N.of_nat (length r + length ext) <? n) with false by lia.
      rewrite (take_ext _ _ _ _ ext Et). reflexivity.
    + apply take_none in Et. lia.
  - destruct e; cbn in *; trivial; rewrite H; reflexivity.
Qed.

Section LoopExt.
  Variable pv : pv_t.
  Variable num : N.
  Variable ext : list byte.
  Hypothesis pv_ext : forall n t bs, ext_rel (pv n t bs) (pv n t (bs ++ ext)) ext.
  Hypothesis pv_len : forall n t bs v r, pv n t bs = Ok (v, r) -> (length r <= length bs)%nat.

  Lemma group_loop_ext : forall g bs acc g',
    (length bs < length g)%nat -> (length (bs ++ ext) < length g')%nat ->
    ext_rel (group_loop pv num g bs acc) (group_loop pv num g' (bs ++ ext) acc) ext.
  Proof.
    induction g as [|x g IH]; intros bs acc g' Hg Hg'; [cbn in Hg; lia|].
    destruct g' as [|x' g']; [cbn in Hg'; lia|]. cbn [group_loop].
    pose proof (dec_tag_ext bs ext) as Ht.
    destruct (dec_tag bs) as [[[n2 t2] r0]|e] eqn:E.
    - cbn in Ht. rewrite Ht. apply dec_tag_len in E. destruct (t2 =? 4).
      + destruct (n2 =? num); cbn; reflexivity.
      + pose proof (pv_ext n2 t2 r0) as Hp. destruct (pv n2 t2 r0) as [[v' r']|e] eqn:Ep.
        * cbn in Hp. rewrite Hp. apply pv_len in Ep. apply IH.
          -- cbn [length] in Hg. lia.
          -- cbn [length] in Hg'. rewrite app_length in *. lia.
        * destruct e; cbn in *; trivial; rewrite Hp; reflexivity.
    - destruct e; cbn in *; trivial; rewrite Ht; reflexivity.
  Qed.
End LoopExt.

Theorem parse_val_ext : forall dep num typ bs ext,
  ext_rel (parse_val dep num typ bs) (parse_val dep num typ (bs ++ ext)) ext.
Proof.
  induction dep as [|d IH]; intros num typ bs ext; rewrite !parse_val_eq;
    pose proof (dec_varint_ext bs ext) as Hv; pose proof (dec_bytes_ext bs ext) as Hb;
    destruct_typ typ; cbv iota; try (cbn; reflexivity);
    try (destruct (dec_varint bs) as [[? ?]|e]; [cbn in Hv |- *; rewrite Hv; reflexivity
                                                  |destruct e; cbn in *; trivial; rewrite Hv; reflexivity]);
    try (destruct (dec_bytes bs) as [[? ?]|e]; [cbn in Hb |- *; rewrite Hb; reflexivity
                                                 |destruct e; cbn in *; trivial; rewrite Hb; reflexivity]);
    try (match goal with |- context [take ?k bs] =>
           destruct (take k bs) as [[? ?]|] eqn:Et; [rewrite (take_ext _ _ _ _ ext Et); cbn; reflexivity|exact I] end).
  apply group_loop_ext; [intros; apply IH|apply parse_val_len|cbn [length]; lia|cbn [length]; lia].
Qed.

Theorem consume_field_ext bs ext :
  match consume_field bs with
  | Ok res => consume_field (bs ++ ext) = Ok res
  | Err Truncated => True
  | Err e => consume_field (bs ++ ext) = Err e
  end.
Proof.
  unfold consume_field. pose proof (dec_tag_ext bs ext) as Ht.
  destruct (dec_tag bs) as [[[n t] r]|e] eqn:E.
  - cbn in Ht. rewrite Ht. pose proof (parse_val_ext default_dep n t r ext) as Hp.
    pose proof (dec_tag_len _ _ _ _ E) as Hl.
    destruct (parse_val default_dep n t r) as [[v r']|e'] eqn:Ep.
    + unfold ext_rel in Hp. rewrite Hp. apply parse_val_len in Ep. f_equal. f_equal. rewrite !app_length. lia.
    + unfold ext_rel in Hp. destruct e'; trivial; rewrite Hp; reflexivity.
  - destruct e; cbn in *; trivial; rewrite Ht; reflexivity.
Qed.

(* every proper prefix of a well-formed field is reported as Truncated:
   nothing else can go wrong before the end of a well-formed field *)
Theorem consume_field_prefix_truncated q ext num typ n :
  wf_field default_dep (q ++ ext) num typ n -> N.of_nat (length q) < n ->
  consume_field q = Err Truncated.
Proof.
  intros Hwf Hlt. apply consume_field_iff in Hwf. pose proof (consume_field_ext q ext) as He.
  destruct (consume_field q) as [[[n' t'] m]|e] eqn:E.
  - rewrite Hwf in He. inversion He; subst. apply consume_field_no_overread in E. lia.
  - destruct e; trivial; rewrite Hwf in He; discriminate.
Qed.
