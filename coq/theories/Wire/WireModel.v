(* Model of encoding/protowire (wire.go).  Definitions only: no proofs, so the
   model extracts and runs even when a proof elsewhere is broken.

   Conventions: uint64 values are [N] (callers guarantee < 2^64 where the Go
   type does), int64 values are [Z], byte strings are [list byte], Go's negative
   error lengths are the [werr] enumeration, and "ran out of fuel" is a separate
   outcome that the theorems show unreachable. *)
From Coq Require Import List NArith ZArith Bool.
From PB Require Import Base.PBytes.
Import ListNotations.
Open Scope N_scope.

(* errCodeTruncated = -1, FieldNumber = -2, Overflow = -3, Reserved = -4,
   EndGroup = -5, RecursionDepth = -6 (proved equal to the constants of Gen/WireGo.v in Wire/WireGoP.v) *)
Inductive werr := Truncated | FieldNumber | Overflow | Reserved | EndGroup | RecursionDepth | OutOfFuel.
Inductive result (A : Type) := Ok (a : A) | Err (e : werr).
Arguments Ok {A}. Arguments Err {A}.

Definition werr_code (e : werr) : Z :=
  match e with
  | Truncated => -1 | FieldNumber => -2 | Overflow => -3 | Reserved => -4
  | EndGroup => -5 | RecursionDepth => -6 | OutOfFuel => -99
  end%Z.

(* ParseError: error code -> class of the returned error value
   (nil, io.ErrUnexpectedEOF, errFieldNumber, errOverflow, errReserved,
   errEndGroup, errParse) *)
Inductive perr := PNil | PUnexpectedEOF | PFieldNumber | POverflow | PReserved | PEndGroup | PParse.
Definition parse_error (n : Z) : perr :=
  if (0 <=? n)%Z then PNil
  else if (n =? -1)%Z then PUnexpectedEOF
  else if (n =? -2)%Z then PFieldNumber
  else if (n =? -3)%Z then POverflow
  else if (n =? -4)%Z then PReserved
  else if (n =? -5)%Z then PEndGroup
  else PParse.
Definition perr_class (p : perr) : N :=
  match p with
  | PNil => 0 | PUnexpectedEOF => 1 | PFieldNumber => 2 | POverflow => 3
  | PReserved => 4 | PEndGroup => 5 | PParse => 6
  end.

(* ---------- varint ---------- *)
Fixpoint enc_varint_fuel (fuel : nat) (v : N) : list byte :=
  match fuel with
  | O => []
  | S f => if v <? 128 then [n2b v] else n2b (v mod 128 + 128) :: enc_varint_fuel f (v / 128)
  end.
Definition enc_varint (v : N) := enc_varint_fuel 10 v.

(* k = number of bytes still allowed, including this one; the 10th byte may
   only be 0 or 1 *)
Fixpoint dec_varint_aux (k : nat) (shift acc : N) (bs : list byte) : result (N * list byte) :=
  match k with
  | O => Err Overflow
  | S k' =>
    match bs with
    | [] => Err Truncated
    | b :: r =>
      let x := b2n b in
      match k' with
      | O => if x <? 2 then Ok (acc + x * 2^shift, r) else Err Overflow
      | S _ => if x <? 128 then Ok (acc + x * 2^shift, r)
               else dec_varint_aux k' (shift + 7) (acc + (x - 128) * 2^shift) r
      end
    end
  end.
Definition dec_varint (bs : list byte) := dec_varint_aux 10 0 0 bs.

Definition size_varint (v : N) : N := (9 * N.size v + 64) / 64.

(* ---------- fixed32/64 ---------- *)
Fixpoint enc_le (k : nat) (v : N) : list byte :=
  match k with
  | O => []
  | S k' => n2b (v mod 256) :: enc_le k' (v / 256)
  end.
Fixpoint dec_le (bs : list byte) : N :=
  match bs with
  | [] => 0
  | b :: r => b2n b + 256 * dec_le r
  end.
Definition enc_fixed32 (v : N) := enc_le 4 v.
Definition enc_fixed64 (v : N) := enc_le 8 v.
Definition dec_fixed (k : nat) (bs : list byte) : result (N * list byte) :=
  match take k bs with
  | Some (b, r) => Ok (dec_le b, r)
  | None => Err Truncated
  end.
Definition dec_fixed32 := dec_fixed 4.
Definition dec_fixed64 := dec_fixed 8.

(* ---------- zig-zag, bool ---------- *)
Definition zz_enc (x : Z) : N :=
  if (x <? 0)%Z then Z.to_N (-2 * x - 1) else Z.to_N (2 * x).
Definition zz_dec (n : N) : Z :=
  if N.even n then Z.of_N (n / 2) else (- Z.of_N (n / 2) - 1)%Z.
Definition enc_bool (b : bool) : N := if b then 1 else 0.
Definition dec_bool (n : N) : bool := negb (n =? 0).

(* ---------- tags ---------- *)
(* EncodeTag(num, typ) = uint64(num)<<3 | uint64(typ&7); num is an int32 >= 0 here *)
Definition encode_tag (num typ : N) : N := num * 8 + typ mod 8.
(* DecodeTag: number -1 when x>>3 exceeds MaxInt32 *)
Definition decode_tag (x : N) : option (N * N) :=
  if 2147483647 <? x / 8 then None else Some (x / 8, x mod 8).
Definition enc_tag (num typ : N) := enc_varint (encode_tag num typ).
(* ConsumeTag *)
Definition dec_tag (bs : list byte) : result (N * N * list byte) :=
  match dec_varint bs with
  | Err e => Err e
  | Ok (x, r) =>
      match decode_tag x with
      | None => Err FieldNumber
      | Some (num, typ) => if num <? 1 then Err FieldNumber else Ok (num, typ, r)
      end
  end.
Definition size_tag (num : N) : N := size_varint (encode_tag num 0).

(* ---------- length-prefixed bytes / string ---------- *)
Definition enc_bytes (v : list byte) : list byte := enc_varint (N.of_nat (length v)) ++ v.
Definition dec_bytes (bs : list byte) : result (list byte * list byte) :=
  match dec_varint bs with
  | Err e => Err e
  | Ok (n, r) =>
      if N.of_nat (length r) <? n then Err Truncated
      else match take (N.to_nat n) r with
           | Some (v, r') => Ok (v, r')
           | None => Err Truncated
           end
  end.
Definition size_bytes (n : N) : N := size_varint n + n.
Definition size_group (num n : N) : N := n + size_tag num.

(* ---------- wire trees (shared with the message codecs) ---------- *)
Inductive wval :=
| WVarint (v : N)
| WFixed32 (b : list byte)   (* exactly 4 bytes *)
| WFixed64 (b : list byte)   (* exactly 8 bytes *)
| WLen (b : list byte)
| WGroup (fs : list (N * wval)).
Definition wfield := (N * wval)%type.

Definition wtype_of (v : wval) : N :=
  match v with WVarint _ => 0 | WFixed64 _ => 1 | WLen _ => 2 | WGroup _ => 3 | WFixed32 _ => 5 end.

Fixpoint render_val (num : N) (v : wval) : list byte :=
  match v with
  | WVarint x => enc_varint x
  | WFixed32 b => b
  | WFixed64 b => b
  | WLen b => enc_varint (N.of_nat (length b)) ++ b
  | WGroup fs =>
      flat_map (fun p => enc_tag (fst p) (wtype_of (snd p)) ++ render_val (fst p) (snd p)) fs
      ++ enc_tag num 4
  end.
Definition render_field (f : wfield) := enc_tag (fst f) (wtype_of (snd f)) ++ render_val (fst f) (snd f).
Definition render_fields (fs : list wfield) : list byte := flat_map render_field fs.

(* ---------- the scanner: consumeFieldValueD ----------
   [dep] is Go's depth + 1 (0 means depth < 0).  The group loop has its own
   fuel [g], a list used only for its length (so that the caller can pass the
   input itself at no cost): every iteration consumes at least the tag byte, so
   [1 + length bs] iterations always suffice (proved). *)
Definition pv_t := N -> N -> list byte -> result (wval * list byte).

Fixpoint group_loop (pv : pv_t) (num : N) (g : list byte) (bs : list byte) (acc : list wfield)
  : result (wval * list byte) :=
  match g with
  | [] => Err OutOfFuel
  | _ :: g' =>
    match dec_tag bs with
    | Err e => Err e
    | Ok (n2, t2, r) =>
      if t2 =? 4 then (if n2 =? num then Ok (WGroup (rev acc), r) else Err EndGroup)
      else match pv n2 t2 r with
           | Err e => Err e
           | Ok (v, r') => group_loop pv num g' r' ((n2, v) :: acc)
           end
    end
  end.

Fixpoint parse_val (dep : nat) (num typ : N) (bs : list byte) {struct dep} : result (wval * list byte) :=
  match typ with
  | 0 => match dec_varint bs with Ok (v, r) => Ok (WVarint v, r) | Err e => Err e end
  | 5 => match take 4 bs with Some (b, r) => Ok (WFixed32 b, r) | None => Err Truncated end
  | 1 => match take 8 bs with Some (b, r) => Ok (WFixed64 b, r) | None => Err Truncated end
  | 2 => match dec_bytes bs with Ok (b, r) => Ok (WLen b, r) | Err e => Err e end
  | 3 => match dep with
         | O => Err RecursionDepth
         | S d => group_loop (parse_val d) num (x00 :: bs) bs []
         end
  | 4 => Err EndGroup
  | _ => Err Reserved
  end.

(* DefaultRecursionLimit = 10000 (proved equal to Gen/WireGo.v's constant in
   Wire/WireGoP.v): depth 10000 means dep = 10001 *)
Definition default_dep : nat := N.to_nat 10001.

(* ConsumeFieldValue: length consumed, or error *)
Definition consume_field_value (num typ : N) (bs : list byte) : result N :=
  match parse_val default_dep num typ bs with
  | Ok (_, r) => Ok (N.of_nat (length bs - length r))
  | Err e => Err e
  end.

(* ConsumeField *)
Definition consume_field (bs : list byte) : result (N * N * N) :=
  match dec_tag bs with
  | Err e => Err e
  | Ok (num, typ, r) =>
    match parse_val default_dep num typ r with
    | Ok (_, r') => Ok (num, typ, N.of_nat (length bs - length r'))
    | Err e => Err e
    end
  end.

(* ConsumeGroup: the value without its end marker.  The Go code strips trailing
   bytes whose low 7 bits are zero (a denormalised end tag) and then SizeTag(num)
   bytes; [None] models a slice-bounds panic. *)
Fixpoint strip_zero7 (rev_bs : list byte) : list byte :=
  match rev_bs with
  | b :: r => if (b2n b) mod 128 =? 0 then strip_zero7 r else rev_bs
  | [] => []
  end.
Definition consume_group (num : N) (bs : list byte) : result (option (list byte) * N) :=
  match parse_val default_dep num 3 bs with
  | Err e => Err e
  | Ok (_, r) =>
      let n := (length bs - length r)%nat in
      let b := firstn n bs in
      let b1 := rev (strip_zero7 (rev b)) in
      let k := N.to_nat (size_tag num) in
      if Nat.ltb (length b1) k then Ok (None, N.of_nat n)
      else Ok (Some (firstn (length b1 - k) b1), N.of_nat n)
  end.
Definition append_group (num : N) (v : list byte) : list byte := v ++ enc_tag num 4.

(* top-level field sequence until end of input (the tag loop of unmarshal);
   callers pass [g := x00 :: bs] *)
Fixpoint parse_fields (g : list byte) (dep : nat) (bs : list byte) (acc : list wfield) : result (list wfield) :=
  match g with
  | [] => Err OutOfFuel
  | _ :: g' =>
    match bs with
    | [] => Ok (rev acc)
    | _ =>
      match dec_tag bs with
      | Err e => Err e
      | Ok (n, t, r) =>
        match parse_val dep n t r with
        | Err e => Err e
        | Ok (v, r') => parse_fields g' dep r' ((n, v) :: acc)
        end
      end
    end
  end.
