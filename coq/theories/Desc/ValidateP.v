(* Proofs about the descriptor-validation model (C35), part 1: structure.
   What an accepted file guarantees for every message and enum of the tree. *)
From Coq Require Import List NArith ZArith Bool Lia.
From PB Require Import Desc.ValidateModel.
Import ListNotations.
Open Scope Z_scope.

(* ---------- the error monad *)
Lemma bind_ok : forall A B (r : res A) (f : A -> res B) b,
  bind r f = Ok b -> exists a, r = Ok a /\ f a = Ok b.
Proof. intros A B [a|e] f b H; cbn in H; [eauto|discriminate]. Qed.

Lemma check_ok : forall b e, check b e = Ok tt -> b = false.
Proof. intros [] e H; [discriminate|reflexivity]. Qed.

Lemma bind_check_ok : forall A b e (k : res A) a,
  bind (check b e) (fun _ => k) = Ok a -> b = false /\ k = Ok a.
Proof. intros A [] e k a H; cbn in H; [discriminate|auto]. Qed.

Lemma for_each_ok : forall A (f : A -> res unit) l,
  for_each f l = Ok tt -> forall x, In x l -> f x = Ok tt.
Proof.
  intros A f l; induction l as [|y r IH]; intros H x Hin; [destruct Hin|].
  cbn in H. apply bind_ok in H. destruct H as [[] [Hy Hr]].
  destruct Hin as [<-|Hin]; [exact Hy|apply IH; assumption].
Qed.

Lemma for_each_intro : forall A (f : A -> res unit) l,
  (forall x, In x l -> f x = Ok tt) -> for_each f l = Ok tt.
Proof.
  intros A f l; induction l as [|y r IH]; intros H; [reflexivity|].
  cbn. rewrite (H y) by (left; reflexivity). cbn. apply IH. intros x Hx; apply H; right; exact Hx.
Qed.

(* peel "do _ <- check b e; k = Ok tt" *)
Ltac peel H :=
  repeat match type of H with
  | bind (check ?b ?e) _ = Ok _ =>
      let Hb := fresh "Hc" in apply bind_check_ok in H; destruct H as [Hb H]
  | bind _ _ = Ok _ =>
      let x := fresh "x" in let Hx := fresh "Hb" in
      apply bind_ok in H; destruct H as [x [Hx H]]; try (destruct x)
  end.

(* ---------- induction over the message tree *)
Section MsgInd.
  Variable P : msg -> Prop.
  Hypothesis HP : forall name fields oneofs enums nested exts xr rr rn me ms,
    Forall P nested -> P (Msg name fields oneofs enums nested exts xr rr rn me ms).
  Fixpoint msg_ind' (m : msg) : P m :=
    match m with
    | Msg name fields oneofs enums nested exts xr rr rn me ms =>
      HP name fields oneofs enums nested exts xr rr rn me ms
         ((fix go (l : list msg) : Forall P l :=
             match l with [] => Forall_nil P | x :: r => Forall_cons x (msg_ind' x) (go r) end) nested)
    end.
End MsgInd.

(* every message of the tree *)
Fixpoint msgs_of (m : msg) : list msg :=
  m :: (fix go (l : list msg) : list msg := match l with [] => [] | x :: r => msgs_of x ++ go r end) (m_nested m).
Definition file_msgs (f : file) : list msg := flat_map msgs_of (fl_msgs f).
Definition file_enums (f : file) : list enum := fl_enums f ++ flat_map m_enums (file_msgs f).

Lemma msgs_of_unfold : forall m, msgs_of m = m :: flat_map msgs_of (m_nested m).
Proof.
  intros [name fields oneofs enums nested exts xr rr rn me ms]. reflexivity.
Qed.

(* the nested-list loop of validate_msg is for_each *)
Lemma validate_nested_loop : forall legacy allow syntax t full nested,
  (fix go (l : list msg) : res unit :=
     match l with [] => Ok tt | x :: r => bind (validate_msg legacy allow syntax t full x) (fun _ => go r) end) nested
  = for_each (validate_msg legacy allow syntax t full) nested.
Proof. intros; induction nested as [|x r IH]; [reflexivity|]. cbn [for_each]. rewrite <- IH. reflexivity. Qed.

Lemma validate_msg_unfold : forall legacy allow syntax t scope m,
  validate_msg legacy allow syntax t scope m =
  let full := join scope (m_name m) in
  bind (msg_local legacy allow syntax t full m) (fun _ =>
  bind (for_each (validate_enum syntax) (m_enums m)) (fun _ =>
  bind (for_each (validate_msg legacy allow syntax t full) (m_nested m)) (fun _ =>
  for_each (validate_ext legacy allow syntax t full) (m_exts m)))).
Proof.
  intros legacy allow syntax t scope [name fields oneofs enums nested exts xr rr rn me ms].
  cbn [validate_msg m_name m_enums m_nested m_exts]. rewrite validate_nested_loop. reflexivity.
Qed.

Lemma validate_msgs_for_each : forall legacy allow syntax t scope ms,
  validate_msgs legacy allow syntax t scope ms = for_each (validate_msg legacy allow syntax t scope) ms.
Proof. intros; induction ms as [|m r IH]; [reflexivity|]. cbn. rewrite IH. reflexivity. Qed.

(* what acceptance gives for every message below m *)
Definition msg_ok (legacy allow : bool) (syntax : N) (t : table) (m : msg) : Prop :=
  (exists full, msg_local legacy allow syntax t full m = Ok tt) /\
  (forall e, In e (m_enums m) -> validate_enum syntax e = Ok tt).

Lemma validate_msg_all : forall legacy allow syntax t m scope,
  validate_msg legacy allow syntax t scope m = Ok tt ->
  forall m', In m' (msgs_of m) -> msg_ok legacy allow syntax t m'.
Proof.
  intros legacy allow syntax t m. induction m using msg_ind'.
  intros scope Hv m' Hin.
  rewrite validate_msg_unfold in Hv. cbv zeta in Hv.
  apply bind_ok in Hv. destruct Hv as [[] [Hloc Hv]].
  apply bind_ok in Hv. destruct Hv as [[] [Hen Hv]].
  apply bind_ok in Hv. destruct Hv as [[] [Hnest _]].
  rewrite msgs_of_unfold in Hin. destruct Hin as [<-|Hin].
  - split; [eexists; exact Hloc|]. intros e He. exact (for_each_ok _ _ _ Hen e He).
  - cbn [m_nested] in *. apply in_flat_map in Hin. destruct Hin as [x [Hx Hm']].
    rewrite Forall_forall in H. eapply (H x Hx); [|exact Hm'].
    exact (for_each_ok _ _ _ Hnest x Hx).
Qed.

Definition file_table (f : file) : table := match init_file f with Ok t => t | Err _ => [] end.

Theorem accept_structure : forall legacy allow f,
  validate legacy allow f = Accept ->
  (forall m, In m (file_msgs f) -> msg_ok legacy allow (fl_syntax f) (file_table f) m) /\
  (forall e, In e (file_enums f) -> validate_enum (fl_syntax f) e = Ok tt).
Proof.
  intros legacy allow f H. unfold validate in H.
  destruct (new_file legacy allow f) as [[]|e] eqn:Hn; [|discriminate]. clear H.
  unfold new_file in Hn.
  apply bind_check_ok in Hn. destruct Hn as [_ Hn].
  apply bind_ok in Hn. destruct Hn as [t [Ht Hn]].
  apply bind_ok in Hn. destruct Hn as [[] [_ Hn]].
  apply bind_ok in Hn. destruct Hn as [[] [_ Hn]].
  apply bind_ok in Hn. destruct Hn as [[] [Hen Hn]].
  apply bind_ok in Hn. destruct Hn as [[] [Hms _]].
  unfold file_table. rewrite Ht.
  rewrite validate_msgs_for_each in Hms.
  assert (Hall : forall m, In m (file_msgs f) -> msg_ok legacy allow (fl_syntax f) t m).
  { intros m Hm. unfold file_msgs in Hm. apply in_flat_map in Hm. destruct Hm as [x [Hx Hm]].
    eapply validate_msg_all; [|exact Hm]. exact (for_each_ok _ _ _ Hms x Hx). }
  split; [exact Hall|].
  intros e He. unfold file_enums in He. apply in_app_or in He. destruct He as [He|He].
  - exact (for_each_ok _ _ _ Hen e He).
  - apply in_flat_map in He. destruct He as [m [Hm He]]. exact (proj2 (Hall m Hm) e He).
Qed.
