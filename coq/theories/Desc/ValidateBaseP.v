(* Proofs about the descriptor-validation model (C35), part 4: a valid-by-construction base.
   Files made of flat messages with scalar fields, valid distinct numbers and file-wide distinct
   valid names are accepted (under both AllowUnresolvable settings, with or without protolegacy). *)
From Coq Require Import List NArith ZArith Bool Lia.
From PB Require Import Desc.ValidateModel Desc.ValidateP Desc.ValidateSoundP.
Import ListNotations.
Open Scope Z_scope.

(* ---------- the base *)
Definition scalar_kind (k : Z) : Prop := 1 <= k <= 18 /\ k <> 10 /\ k <> 11 /\ k <> 14.
Definition base_field (syntax : N) (f : field) : Prop :=
  name_valid (f_name f) = true /\ 1 <= f_num f <= 536870911 /\
  (f_label f = 1 \/ f_label f = 3 \/ (f_label f = 2 /\ syntax = 0%N)) /\
  scalar_kind (f_type f) /\ f_tname f = [] /\ f_oneof f = None /\ f_p3opt f = false /\ f_extendee f = None.
Definition base_msg (syntax : N) (m : msg) : Prop :=
  exists name fields, m = Msg name fields [] [] [] [] [] [] [] false false /\ name_valid name = true /\
    Forall (base_field syntax) fields /\ NoDup (map f_num fields).
Definition msg_names (m : msg) : list str := m_name m :: map f_name (m_fields m).
Definition base_file (f : file) : Prop :=
  (fl_pkg f = [] \/ fullname_valid (fl_pkg f) = true) /\ fl_enums f = [] /\ fl_exts f = [] /\
  Forall (base_msg (fl_syntax f)) (fl_msgs f) /\ NoDup (flat_map msg_names (fl_msgs f)).

(* ---------- the last component of a full name *)
Fixpoint until_dot (s : str) : str :=
  match s with [] => [] | c :: r => if N.eqb c c_dot then [] else c :: until_dot r end.
Definition last_comp (s : str) : str := rev (until_dot (rev s)).

Lemma until_dot_nodot : forall a, has_dot a = false -> until_dot a = a.
Proof.
  induction a as [|c r IH]; intros H; [reflexivity|].
  unfold has_dot in H. cbn [existsb] in H. apply orb_false_iff in H. destruct H as [H1 H2].
  cbn [until_dot]. rewrite N.eqb_sym in H1. rewrite H1. rewrite IH by exact H2. reflexivity.
Qed.
Lemma until_dot_app : forall a b, has_dot a = false -> until_dot (a ++ c_dot :: b) = a.
Proof.
  induction a as [|c r IH]; intros b H; cbn [app until_dot].
  - rewrite N.eqb_refl. reflexivity.
  - unfold has_dot in H. cbn [existsb] in H. apply orb_false_iff in H. destruct H as [H1 H2].
    rewrite N.eqb_sym in H1. rewrite H1. rewrite IH by exact H2. reflexivity.
Qed.
Lemma has_dot_rev : forall a, has_dot (rev a) = has_dot a.
Proof.
  intros a. unfold has_dot. apply eq_iff_eq_true. rewrite !existsb_exists.
  split; intros [x [Hx He]]; exists x; (split; [|exact He]).
  - apply in_rev. exact Hx.
  - apply in_rev in Hx. exact Hx.
Qed.
Lemma last_comp_join : forall scope name, has_dot name = false -> last_comp (join scope name) = name.
Proof.
  intros scope name H. unfold last_comp, join. destruct scope as [|c r].
  - rewrite until_dot_nodot by (rewrite has_dot_rev; exact H). apply rev_involutive.
  - rewrite rev_app_distr. cbn [rev]. rewrite <- app_assoc. cbn [app].
    rewrite until_dot_app by (rewrite has_dot_rev; exact H). apply rev_involutive.
Qed.

Lemma is_letter_digit_not_dot : forall c, is_letter_digit c = true -> N.eqb c_dot c = false.
Proof.
  intros c H. apply N.eqb_neq. intros <-. vm_compute in H. discriminate.
Qed.
Lemma name_valid_nodot : forall s, name_valid s = true -> has_dot s = false.
Proof.
  intros [|c r] H; [discriminate|]. cbn in H. apply andb_true_iff in H. destruct H as [Hc Hr].
  unfold has_dot. cbn [existsb]. apply orb_false_iff. split.
  - apply is_letter_digit_not_dot. unfold is_letter_digit. rewrite Hc. reflexivity.
  - destruct (existsb (N.eqb c_dot) r) eqn:E; [|reflexivity].
    apply existsb_exists in E. destruct E as [x [Hx He]]. rewrite forallb_forall in Hr.
    rewrite (is_letter_digit_not_dot x (Hr x Hx)) in He. discriminate.
Qed.

(* ---------- step 1 succeeds *)
Definition keys (t : table) : list str := map fst t.
Definition keys_in (t : table) (S : list str) : Prop := forall k, In k (keys t) -> In (last_comp k) S.

Lemma lookup_none : forall t s, ~ In s (keys t) -> lookup t s = None.
Proof.
  induction t as [|[k d] r IH]; intros s H; [reflexivity|]. cbn in *.
  destruct (str_eqb k s) eqn:E; [apply str_eqb_eq in E; subst; exfalso; apply H; left; reflexivity|].
  apply IH. intros Hin. apply H. right. exact Hin.
Qed.

Lemma mk_base_ok : forall t scope n d S,
  name_valid n = true -> keys_in t S -> ~ In n S ->
  exists t', mk_base t scope n d = Ok (t', join scope n) /\ keys_in t' (n :: S).
Proof.
  intros t scope n d S Hv Hk Hn. unfold mk_base. rewrite Hv. cbn [negb].
  pose proof (last_comp_join scope n (name_valid_nodot _ Hv)) as Hl.
  rewrite lookup_none.
  - eexists. split; [reflexivity|]. intros k [<-|Hin]; cbn [fst].
    + rewrite Hl. left. reflexivity.
    + right. apply Hk. exact Hin.
  - intros Hin. apply Hn. rewrite <- Hl. apply Hk. exact Hin.
Qed.

Lemma init_names_ok : forall names t scope S,
  Forall (fun n => name_valid n = true) names -> NoDup names -> (forall n, In n names -> ~ In n S) -> keys_in t S ->
  exists t', init_names t scope names = Ok t' /\ keys_in t' (rev names ++ S).
Proof.
  induction names as [|n r IH]; intros t scope S Hv Hnd Hdis Hk.
  - exists t. split; [reflexivity|exact Hk].
  - inversion Hv as [|? ? Hvn Hvr]; subst. inversion Hnd as [|? ? Hnr Hndr]; subst.
    destruct (mk_base_ok t scope n DOther S Hvn Hk (Hdis n (or_introl eq_refl))) as [t1 [H1 Hk1]].
    cbn [init_names]. rewrite H1. cbn [bind fst].
    destruct (IH t1 scope (n :: S) Hvr Hndr) as [t2 [H2 Hk2]]; [|exact Hk1|].
    + intros x Hx [<-|Hin]; [exact (Hnr Hx)|]. exact (Hdis x (or_intror Hx) Hin).
    + exists t2. split; [exact H2|]. cbn [rev]. rewrite <- app_assoc. exact Hk2.
Qed.

Lemma base_field_name_valid : forall syntax fields,
  Forall (base_field syntax) fields -> Forall (fun n => name_valid n = true) (map f_name fields).
Proof.
  intros syntax fields H. induction H as [|f r Hf Hr IH]; [constructor|]. cbn. constructor; [exact (proj1 Hf)|exact IH].
Qed.

Lemma init_msg_ok : forall syntax m t scope S,
  base_msg syntax m -> NoDup (msg_names m) -> (forall n, In n (msg_names m) -> ~ In n S) -> keys_in t S ->
  exists t', init_msg t scope m = Ok t' /\ keys_in t' (rev (msg_names m) ++ S).
Proof.
  intros syntax m t scope S [name [fields [-> [Hvn [Hbf _]]]]] Hnd Hdis Hk.
  unfold msg_names in *. cbn [m_name m_fields] in *.
  inversion Hnd as [|? ? Hnr Hndr]; subst.
  destruct (mk_base_ok t scope name (DMsg (Msg name fields [] [] [] [] [] [] [] false false)) S Hvn Hk
              (Hdis name (or_introl eq_refl))) as [t1 [H1 Hk1]].
  destruct (init_names_ok (map f_name fields) t1 (join scope name) (name :: S)
              (base_field_name_valid _ _ Hbf) Hndr) as [t2 [H2 Hk2]]; [|exact Hk1|].
  { intros x Hx [<-|Hin]; [exact (Hnr Hx)|]. exact (Hdis x (or_intror Hx) Hin). }
  exists t2. split.
  - cbn [init_msg]. rewrite H1. cbn [bind fst snd]. rewrite H2. reflexivity.
  - cbn [rev]. rewrite <- app_assoc. exact Hk2.
Qed.

Lemma nodup_app_inv : forall (A : Type) (l l' : list A),
  NoDup (l ++ l') -> NoDup l /\ NoDup l' /\ (forall x, In x l -> ~ In x l').
Proof.
  induction l as [|a l IH]; intros l' H; cbn in H.
  - repeat split; [constructor|exact H|intros x []].
  - inversion H as [|? ? Ha Hl]; subst. destruct (IH l' Hl) as [H1 [H2 H3]]. repeat split.
    + constructor; [|exact H1]. intros Hin. apply Ha. apply in_or_app. left. exact Hin.
    + exact H2.
    + intros x [<-|Hx] Hin; [apply Ha; apply in_or_app; right; exact Hin|exact (H3 x Hx Hin)].
Qed.

Lemma init_msgs_ok : forall syntax ms t scope S,
  Forall (base_msg syntax) ms -> NoDup (flat_map msg_names ms) ->
  (forall n, In n (flat_map msg_names ms) -> ~ In n S) -> keys_in t S ->
  exists t', init_msgs t scope ms = Ok t'.
Proof.
  induction ms as [|m r IH]; intros t scope S Hb Hnd Hdis Hk; [exists t; reflexivity|].
  inversion Hb as [|? ? Hbm Hbr]; subst. cbn [flat_map] in *.
  destruct (nodup_app_inv _ _ _ Hnd) as [Hnd1 [Hnd2 Hdisj]].
  destruct (init_msg_ok syntax m t scope S Hbm) as [t1 [H1 Hk1]].
  - exact Hnd1.
  - intros n Hn. apply Hdis. apply in_or_app. left. exact Hn.
  - exact Hk.
  - cbn [init_msgs]. rewrite H1. cbn [bind].
    apply (IH t1 scope (rev (msg_names m) ++ S) Hbr).
    + exact Hnd2.
    + intros n Hn Hin. apply in_app_or in Hin. destruct Hin as [Hin|Hin].
      * apply in_rev in Hin. exact (Hdisj n Hin Hn).
      * exact (Hdis n (in_or_app _ _ _ (or_intror Hn)) Hin).
    + exact Hk1.
Qed.

(* ---------- steps 2 and 3 on base messages *)
Lemma scalar_find_target : forall allow t scope k,
  scalar_kind k -> find_target allow t k scope [] = TOk (mkRField k None None).
Proof.
  intros allow t scope k [[H1 H2] [H3 [H4 H5]]]. unfold find_target.
  replace (k =? 14) with false by (symmetry; apply Z.eqb_neq; exact H5).
  replace (k =? 11) with false by (symmetry; apply Z.eqb_neq; exact H4).
  replace (k =? 10) with false by (symmetry; apply Z.eqb_neq; exact H3).
  replace (k =? 0) with false by (symmetry; apply Z.eqb_neq; lia).
  cbn [orb]. unfold kind_valid.
  replace (1 <=? k) with true by (symmetry; apply Z.leb_le; lia).
  replace (k <=? 18) with true by (symmetry; apply Z.leb_le; lia). reflexivity.
Qed.
Lemma scalar_resolve_field : forall allow t scope ie f,
  scalar_kind (f_type f) -> f_tname f = [] ->
  resolve_field allow t scope ie f = TOk (mkRField (f_type f) None None).
Proof.
  intros allow t scope ie f Hk Ht. unfold resolve_field. rewrite Ht, (scalar_find_target allow t scope _ Hk).
  cbn [rk rmsg]. destruct Hk as [_ [H3 _]].
  replace (f_type f =? 10) with false by (symmetry; apply Z.eqb_neq; exact H3). reflexivity.
Qed.

Lemma ffn_go_sound : forall l n s k,
  ffn_go l n s = Some k -> (s <= k)%nat /\ exists f, nth_error l (k - s) = Some f /\ f_num f = n.
Proof.
  induction l as [|g r IH]; intros n s k H; [discriminate|].
  cbn in H. destruct (f_num g =? n) eqn:E.
  - injection H as <-. split; [lia|]. rewrite Nat.sub_diag. exists g. split; [reflexivity|apply Z.eqb_eq; exact E].
  - destruct (IH n (S s) k H) as [Hle [f [Hf Hn]]]. split; [lia|]. exists f. split; [|exact Hn].
    replace (k - s)%nat with (S (k - S s)) by lia. exact Hf.
Qed.
Lemma nodup_no_dup_field_number : forall fields, NoDup (map f_num fields) -> has_dup_field_number fields = false.
Proof.
  intros fields Hnd. unfold has_dup_field_number.
  destruct (existsb _ _) eqn:E; [|reflexivity]. exfalso.
  apply existsb_exists in E. destruct E as [[j fj] [Hin Hp]].
  apply in_combine_seq in Hin. destruct Hin as [_ Hj]. rewrite Nat.sub_0_r in Hj. cbn [fst snd] in Hp.
  rewrite first_field_num_go in Hp.
  destruct (ffn_go fields (f_num fj) 0) as [k|] eqn:Hk; [|discriminate].
  apply negb_true_iff, Nat.eqb_neq in Hp. apply Hp.
  destruct (ffn_go_sound _ _ _ _ Hk) as [_ [f [Hf Hn]]]. rewrite Nat.sub_0_r in Hf.
  eapply (proj1 (NoDup_nth_error _) Hnd).
  - apply nth_error_Some. rewrite nth_error_map, Hf. discriminate.
  - rewrite !nth_error_map, Hf, Hj. cbn. congruence.
Qed.

Lemma base_field_ok : forall legacy allow syntax t name fields full f,
  base_field syntax f ->
  validate_field legacy allow syntax t (Msg name fields [] [] [] [] [] [] [] false false) full f = Ok tt.
Proof.
  intros legacy allow syntax t name fields full f [Hv [Hnum [Hlab [Hk [Htn [Hon [Hp3 Hex]]]]]]].
  unfold validate_field. cbn [m_mapentry m_resnames m_resranges m_extranges m_fields].
  rewrite (scalar_resolve_field allow t full false f Hk Htn). cbn [rf_of].
  unfold is_map, has_message, enum_local_closed, group_invalid, map_invalid, f_in_oneof.
  cbn [rk rmsg renum mtarget_mapentry]. rewrite Hon, Hp3, Hex.
  assert (Hnv : num_valid (f_num f) = true).
  { unfold num_valid, max_valid. apply andb_true_iff. split; apply Z.leb_le; lia. }
  rewrite Hnv.
  destruct Hk as [_ [H10 _]].
  replace (f_type f =? 10) with false by (symmetry; apply Z.eqb_neq; exact H10).
  change (str_mem (f_name f) []) with false.
  change (field_ranges_has [] (f_num f)) with false.
  unfold presence_default.
  destruct Hlab as [Hl|[Hl|[Hl Hs]]]; rewrite Hl; cbn.
  - destruct (is_proto3 syntax); reflexivity.
  - destruct (kind_scalar_packable (f_type f)), (packed_feature syntax f), (is_proto3 syntax); reflexivity.
  - subst syntax. reflexivity.
Qed.

Lemma base_msg_resolve : forall allow syntax t scope m, base_msg syntax m -> resolve_msg allow t scope m = Ok tt.
Proof.
  intros allow syntax t scope m [name [fields [-> [_ [Hbf _]]]]]. cbn [resolve_msg].
  rewrite for_each_intro; [reflexivity|].
  intros f Hf. rewrite Forall_forall in Hbf. destruct (Hbf f Hf) as [_ [_ [_ [Hk [Htn [Hon _]]]]]].
  rewrite Hon. cbn [bind]. rewrite (scalar_resolve_field _ _ _ _ _ Hk Htn). reflexivity.
Qed.

Lemma base_msg_validate : forall legacy allow syntax t scope m, base_msg syntax m -> validate_msg legacy allow syntax t scope m = Ok tt.
Proof.
  intros legacy allow syntax t scope m [name [fields [-> [_ [Hbf Hnd]]]]].
  rewrite validate_msg_unfold. cbv zeta. cbn [m_name m_enums m_nested m_exts for_each].
  unfold msg_local. cbn [m_resnames m_resranges m_extranges m_msgset m_fields m_oneofs length].
  rewrite (nodup_no_dup_field_number _ Hnd).
  change (has_dup []) with false. change (field_ranges_ok false []) with true.
  change (ranges_no_overlap [] []) with true.
  rewrite andb_false_r. cbn [negb check bind andb].
  rewrite for_each_intro; [reflexivity|].
  intros f Hf. rewrite Forall_forall in Hbf. apply base_field_ok. exact (Hbf f Hf).
Qed.

Theorem validate_accepts_base : forall legacy allow f, base_file f -> validate legacy allow f = Accept.
Proof.
  intros legacy allow f [Hpkg [Hen [Hex [Hms Hnd]]]].
  unfold validate, new_file.
  assert (Hp : (match fl_pkg f with [] => false | _ => negb (fullname_valid (fl_pkg f)) end) = false).
  { destruct Hpkg as [->|H]; [reflexivity|]. rewrite H. destruct (fl_pkg f); reflexivity. }
  rewrite Hp. cbn [check bind].
  unfold init_file. rewrite Hen, Hex. cbn [init_enums bind map init_names].
  destruct (init_msgs_ok (fl_syntax f) (fl_msgs f) [] (fl_pkg f) [] Hms Hnd) as [t Ht].
  { intros n _ []. } { intros k []. }
  rewrite Ht. cbn [bind resolve_exts for_each].
  assert (Hres : resolve_msgs allow t (fl_pkg f) (fl_msgs f) = Ok tt).
  { clear Ht Hnd. induction Hms as [|m r Hm Hr IH]; [reflexivity|].
    cbn [resolve_msgs]. rewrite (base_msg_resolve allow _ t (fl_pkg f) m Hm). exact IH. }
  rewrite Hres. cbn [bind].
  rewrite validate_msgs_for_each, for_each_intro; [reflexivity|].
  intros m Hm. rewrite Forall_forall in Hms. apply (base_msg_validate legacy allow (fl_syntax f)). exact (Hms m Hm).
Qed.

(* ---------- concrete witnesses used by Props/C35.v *)
(* "p", "M", "N", "a", "b", "c" *)
Definition ex_field (name : str) (num label ty : Z) : field :=
  mkField name num label ty [] None false None None None.
Definition ex_file : file :=
  mkFile 0 [112%N]
    []
    [ Msg [77%N] [ex_field [97%N] 1 1 5; ex_field [98%N] 2 3 9] [] [] [] [] [] [] [] false false;
      Msg [78%N] [ex_field [99%N] 536870911 2 1] [] [] [] [] [] [] [] false false ]
    [].

Lemma ex_file_base : base_file ex_file /\ validate false false ex_file = Accept /\ validate false true ex_file = Accept.
Proof.
  split; [|split; vm_compute; reflexivity].
  unfold base_file, ex_file. cbn [fl_pkg fl_enums fl_exts fl_msgs fl_syntax].
  assert (Hf : forall name num label ty, name_valid name = true -> 1 <= num <= 536870911 ->
            (label = 1 \/ label = 3 \/ (label = 2 /\ 0%N = 0%N)) -> scalar_kind ty ->
            base_field 0 (ex_field name num label ty)).
  { intros name num label ty Hn Hnum Hl Hk. unfold base_field, ex_field. cbn.
    exact (conj Hn (conj Hnum (conj Hl (conj Hk (conj eq_refl (conj eq_refl (conj eq_refl eq_refl))))))). }
  split; [right; reflexivity|]. split; [reflexivity|]. split; [reflexivity|]. split.
  - constructor; [|constructor; [|constructor]].
    + eexists. eexists. split; [reflexivity|]. split; [reflexivity|]. split.
      * constructor; [apply Hf; [reflexivity|lia|auto|unfold scalar_kind; lia]|].
        constructor; [apply Hf; [reflexivity|lia|auto|unfold scalar_kind; lia]|constructor].
      * cbn. constructor; [cbn; intuition lia|]. constructor; [intros []|constructor].
    + eexists. eexists. split; [reflexivity|]. split; [reflexivity|]. split.
      * constructor; [apply Hf; [reflexivity|lia|auto|unfold scalar_kind; lia]|constructor].
      * cbn. constructor; [intros []|constructor].
  - cbn. repeat (constructor; [cbn; intuition discriminate|]). constructor.
Qed.

Lemma checks_fire :
  validate false false
    (mkFile 0 [112%N] [] [Msg [77%N] [ex_field [97%N] 1 1 5; ex_field [98%N] 1 1 5] [] [] [] [] [] [] [] false false] [])
  = Reject E_m_dupnum /\
  validate false false (mkFile 1 [] [mkEnum [69%N] [mkEValue [65%N] (Some 1)] false [] []] [] []) = Reject E_e_first.
Proof. split; vm_compute; reflexivity. Qed.

Lemma invalid_packed_accepted :
  exists f, validate false false f = Accept /\
    exists m fl, In m (file_msgs f) /\ In fl (m_fields m) /\ f_packed fl = Some true /\ f_label fl = 1.
Proof.
  exists (mkFile 0 [112%N] [] [Msg [77%N] [mkField [97%N] 1 1 5 [] None false None (Some true) None] [] [] [] [] [] [] [] false false] []).
  split; [vm_compute; reflexivity|].
  eexists. eexists. split; [left; reflexivity|]. split; [left; reflexivity|]. split; reflexivity.
Qed.

Lemma reserved_implementation_number_accepted :
  exists f, validate false false f = Accept /\
    exists m fl, In m (file_msgs f) /\ In fl (m_fields m) /\ 19000 <= f_num fl <= 19999.
Proof.
  exists (mkFile 0 [112%N] [] [Msg [77%N] [ex_field [97%N] 19000 1 5] [] [] [] [] [] [] [] false false] []).
  split; [vm_compute; reflexivity|].
  eexists. eexists. split; [left; reflexivity|]. split; [left; reflexivity|]. cbn. lia.
Qed.
