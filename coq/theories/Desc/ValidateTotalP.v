(* Proofs about the descriptor-validation model (C35), part 3: totality.
   The model has one fuel-indexed loop (the scope walk of findDescriptor); its out-of-fuel
   outcome is unreachable, so [validate] always returns Accept or a genuine error class. *)
From Coq Require Import List NArith ZArith Bool Lia.
From PB Require Import Desc.ValidateModel Desc.ValidateP.
Import ListNotations.
Open Scope Z_scope.

Lemma has_dot_nonempty : forall r, has_dot r = true -> r <> [].
Proof. intros [|c r] H; [discriminate|discriminate]. Qed.

Lemma parent_of_shorter : forall s, s <> [] -> (length (parent_of s) < length s)%nat.
Proof.
  induction s as [|c r IH]; intros H; [congruence|].
  cbn [parent_of]. destruct (has_dot r) eqn:E; cbn [length]; [|lia].
  specialize (IH (has_dot_nonempty _ E)). lia.
Qed.

Lemma find_loop_fuel : forall fuel t scope ref,
  (length scope < fuel)%nat -> find_loop fuel t scope ref <> FOutOfFuel.
Proof.
  induction fuel as [|fuel IH]; intros t scope ref H; [lia|].
  cbn [find_loop]. destruct (lookup t (join scope ref)); [discriminate|].
  destruct scope as [|c r]; [discriminate|].
  apply IH. pose proof (parent_of_shorter (c :: r)) as Hp. specialize (Hp ltac:(discriminate)). lia.
Qed.

Lemma find_descriptor_fuel : forall t scope ref, find_descriptor t scope ref <> FOutOfFuel.
Proof.
  intros t scope ref. unfold find_descriptor.
  destruct (negb (partial_valid ref)); [discriminate|].
  destruct (is_full ref); apply find_loop_fuel; cbn; lia.
Qed.

Lemma find_enum_fuel : forall allow t scope ref, find_enum allow t scope ref <> TFuel.
Proof.
  intros allow t scope ref. unfold find_enum. pose proof (find_descriptor_fuel t scope ref) as H.
  destruct (find_descriptor t scope ref) as [full [e|m|]| | |]; try discriminate; try congruence.
  destruct allow; discriminate.
Qed.
Lemma find_msg_fuel : forall allow t scope ref, find_msg allow t scope ref <> TFuel.
Proof.
  intros allow t scope ref. unfold find_msg. pose proof (find_descriptor_fuel t scope ref) as H.
  destruct (find_descriptor t scope ref) as [full [e|m|]| | |]; try discriminate; try congruence.
  destruct allow; discriminate.
Qed.
Lemma find_target_fuel : forall allow t k scope ref, find_target allow t k scope ref <> TFuel.
Proof.
  intros allow t k scope ref. unfold find_target.
  destruct (k =? 14).
  { pose proof (find_enum_fuel allow t scope ref). destruct (find_enum allow t scope ref); try discriminate; congruence. }
  destruct ((k =? 11) || (k =? 10)).
  { pose proof (find_msg_fuel allow t scope ref). destruct (find_msg allow t scope ref); try discriminate; congruence. }
  destruct (k =? 0).
  { pose proof (find_descriptor_fuel t scope ref) as H.
    destruct (find_descriptor t scope ref) as [full [e|m|]| | |]; try discriminate; try congruence.
    destruct allow; discriminate. }
  destruct ref; [destruct (negb (kind_valid k)); discriminate|discriminate].
Qed.
Lemma resolve_field_fuel : forall allow t scope ie f, resolve_field allow t scope ie f <> TFuel.
Proof.
  intros allow t scope ie f. unfold resolve_field.
  pose proof (find_target_fuel allow t (f_type f) scope (f_tname f)) as H.
  destruct (find_target allow t (f_type f) scope (f_tname f)); try discriminate; try congruence.
  destruct ((rk a =? 10) && (mtarget_mapentry (rmsg a) || ie)); discriminate.
Qed.

(* ---------- "never out of fuel" through the error monad *)
Definition nf {A} (r : res A) : Prop := r <> Err E_outoffuel.

Lemma nf_ok : forall A (a : A), nf (Ok a).
Proof. intros; discriminate. Qed.
Lemma nf_err : forall A e, e <> E_outoffuel -> nf (@Err A e).
Proof. intros A e H Heq. injection Heq as ->. congruence. Qed.
Lemma nf_check : forall b e, e <> E_outoffuel -> nf (check b e).
Proof. intros [] e H; [apply nf_err; exact H|apply nf_ok]. Qed.
Lemma nf_bind : forall A B (r : res A) (f : A -> res B), nf r -> (forall a, nf (f a)) -> nf (bind r f).
Proof. intros A B [a|e] f Hr Hf; cbn; [apply Hf|]. intros Heq. apply Hr. injection Heq as ->. reflexivity. Qed.
Lemma nf_for_each : forall A (f : A -> res unit) l, (forall x, nf (f x)) -> nf (for_each f l).
Proof.
  intros A f l H. induction l as [|x r IH]; [apply nf_ok|]. cbn. apply nf_bind; [apply H|intros; exact IH].
Qed.
Lemma nf_lift : forall A (mk : sub -> verr) (r : tres A),
  r <> TFuel -> (forall s, mk s <> E_outoffuel) -> nf (lift mk r).
Proof. intros A mk [a|s|] Hr Hmk; cbn; [apply nf_ok|apply nf_err; apply Hmk|congruence]. Qed.

Ltac nfstep :=
  match goal with
  | |- nf (bind _ _) => apply nf_bind; [|intros]
  | |- nf (check _ _) => apply nf_check; discriminate
  | |- nf (Ok _) => apply nf_ok
  | |- nf (Err _) => apply nf_err; discriminate
  | |- nf (for_each _ _) => apply nf_for_each; intros
  | |- nf (lift _ _) => apply nf_lift; [|intros; discriminate]
  | |- nf (if ?b then _ else _) => destruct b
  | |- nf (match ?x with _ => _ end) => destruct x
  end.

(* step 1 *)
Lemma nf_mk_base : forall t scope name d, nf (mk_base t scope name d).
Proof. intros. unfold mk_base. repeat nfstep. Qed.
Lemma nf_init_names : forall names t scope, nf (init_names t scope names).
Proof. induction names as [|n r IH]; intros; cbn; [apply nf_ok|]. apply nf_bind; [apply nf_mk_base|intros; apply IH]. Qed.
Lemma nf_init_enum : forall t scope e, nf (init_enum t scope e).
Proof. intros. unfold init_enum. apply nf_bind; [apply nf_mk_base|intros; apply nf_init_names]. Qed.
Lemma nf_init_enums : forall es t scope, nf (init_enums t scope es).
Proof. induction es as [|e r IH]; intros; cbn; [apply nf_ok|]. apply nf_bind; [apply nf_init_enum|intros; apply IH]. Qed.
Lemma nf_init_msg : forall m t scope, nf (init_msg t scope m).
Proof.
  induction m using msg_ind'. intros t scope. cbn [init_msg].
  apply nf_bind; [apply nf_mk_base|intros p].
  apply nf_bind; [apply nf_init_names|intros t2].
  apply nf_bind; [apply nf_init_names|intros t3].
  apply nf_bind; [apply nf_init_enums|intros t4].
  apply nf_bind; [|intros; apply nf_init_names].
  generalize t4. induction H as [|x r Hx Hr IH]; intros t0; [apply nf_ok|].
  apply nf_bind; [apply Hx|intros; apply IH].
Qed.
Lemma nf_init_msgs : forall ms t scope, nf (init_msgs t scope ms).
Proof. induction ms as [|m r IH]; intros; cbn; [apply nf_ok|]. apply nf_bind; [apply nf_init_msg|intros; apply IH]. Qed.
Lemma nf_init_file : forall f, nf (init_file f).
Proof.
  intros. unfold init_file. apply nf_bind; [apply nf_init_enums|intros].
  apply nf_bind; [apply nf_init_msgs|intros; apply nf_init_names].
Qed.

(* step 2 *)
Lemma nf_resolve_exts : forall allow t scope xs, nf (resolve_exts allow t scope xs).
Proof.
  intros. unfold resolve_exts. apply nf_for_each. intros x.
  apply nf_bind; [apply nf_lift; [apply find_msg_fuel|intros; discriminate]|intros].
  apply nf_bind; [apply nf_lift; [apply find_target_fuel|intros; discriminate]|intros]. apply nf_ok.
Qed.
Lemma nf_resolve_msg : forall allow t m scope, nf (resolve_msg allow t scope m).
Proof.
  intros allow t m. induction m using msg_ind'. intros scope. cbn [resolve_msg].
  apply nf_bind.
  { apply nf_for_each. intros f. apply nf_bind.
    - destruct (f_oneof f); [apply nf_check; discriminate|apply nf_ok].
    - intros. apply nf_bind; [apply nf_lift; [apply resolve_field_fuel|intros; discriminate]|intros; apply nf_ok]. }
  intros _. apply nf_bind; [|intros; apply nf_resolve_exts].
  induction H as [|x r Hx Hr IH]; [apply nf_ok|]. apply nf_bind; [apply Hx|intros; apply IH].
Qed.
Lemma nf_resolve_msgs : forall allow t ms scope, nf (resolve_msgs allow t scope ms).
Proof. induction ms as [|m r IH]; intros; cbn; [apply nf_ok|]. apply nf_bind; [apply nf_resolve_msg|intros; apply IH]. Qed.

(* step 3 *)
Lemma nf_validate_enum : forall syntax e, nf (validate_enum syntax e).
Proof. intros. unfold validate_enum. repeat nfstep. Qed.
Lemma nf_validate_field : forall legacy allow syntax t m full f, nf (validate_field legacy allow syntax t m full f).
Proof. intros. unfold validate_field. cbv zeta. repeat nfstep. Qed.
Lemma nf_validate_oneofs : forall syntax fields n k seen, nf (validate_oneofs syntax fields n k seen).
Proof.
  intros syntax fields n; induction n as [|n IH]; intros k seen; cbn [validate_oneofs]; [apply nf_ok|].
  destruct (oneof_members fields k) as [|[i0 f0] ms]; [apply nf_err; discriminate|].
  destruct (negb _); [apply nf_err; discriminate|].
  destruct (_ && _ && _); [apply IH|].
  destruct seen; [apply nf_err; discriminate|].
  apply nf_bind; [apply nf_for_each; intros; apply nf_check; discriminate|intros; apply IH].
Qed.
Lemma nf_validate_ext : forall legacy allow syntax t scope x, nf (validate_ext legacy allow syntax t scope x).
Proof. intros. unfold validate_ext. cbv zeta. repeat nfstep. Qed.
Lemma nf_msg_local : forall legacy allow syntax t full m, nf (msg_local legacy allow syntax t full m).
Proof.
  intros. unfold msg_local.
  repeat (apply nf_bind; [apply nf_check; discriminate|intros _]).
  apply nf_bind; [apply nf_for_each; intros; apply nf_validate_field|intros; apply nf_validate_oneofs].
Qed.
Lemma nf_validate_msg : forall legacy allow syntax t m scope, nf (validate_msg legacy allow syntax t scope m).
Proof.
  intros legacy allow syntax t m. induction m using msg_ind'. intros scope.
  rewrite validate_msg_unfold. cbv zeta. cbn [m_name m_enums m_nested m_exts].
  apply nf_bind; [apply nf_msg_local|intros _].
  apply nf_bind; [apply nf_for_each; intros; apply nf_validate_enum|intros _].
  apply nf_bind; [|intros _; apply nf_for_each; intros; apply nf_validate_ext].
  induction H as [|x r Hx Hr IH]; [apply nf_ok|]. cbn [for_each]. apply nf_bind; [apply Hx|intros; apply IH].
Qed.

Lemma nf_new_file : forall legacy allow f, nf (new_file legacy allow f).
Proof.
  intros. unfold new_file.
  apply nf_bind; [apply nf_check; discriminate|intros _].
  apply nf_bind; [apply nf_init_file|intros t].
  apply nf_bind; [apply nf_resolve_msgs|intros _].
  apply nf_bind; [apply nf_resolve_exts|intros _].
  apply nf_bind; [apply nf_for_each; intros; apply nf_validate_enum|intros _].
  apply nf_bind; [rewrite validate_msgs_for_each; apply nf_for_each; intros; apply nf_validate_msg|intros _].
  apply nf_for_each; intros; apply nf_validate_ext.
Qed.

Theorem validate_total : forall legacy allow f, validate legacy allow f <> Reject E_outoffuel.
Proof.
  intros legacy allow f. unfold validate. pose proof (nf_new_file legacy allow f) as H.
  destruct (new_file legacy allow f) as [[]|e]; [discriminate|].
  intros Heq. injection Heq as ->. apply H. reflexivity.
Qed.
