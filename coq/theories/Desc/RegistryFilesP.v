(* RegistryFilesP — history-level theorems about protoregistry.Files: the invariant holds
   after every history; RegisterFile succeeds iff there is no conflict with the registered
   set; a failed registration is a no-op; counts, ranges and FindFileByPath are exact. *)
From Coq Require Import List Arith Bool Lia Permutation.
From PB Require Import Desc.RegistryModel Desc.RegistryBaseP Desc.RegistryTopP Desc.RegistryInvP.
Import ListNotations.

(* ---------------------------------------------------------------- one RegisterFile call *)
Lemma register_file_cases s rs fid f :
  finv s rs -> wf_file f = true ->
  (conflict_path rs f /\ register_file s fid f = (lazy_init s, RErrPath)) \/
  (~ conflict_path rs f /\ conflict_pkg rs f /\ register_file s fid f = (lazy_init s, RErrPkg)) \/
  (~ conflict_path rs f /\ ~ conflict_pkg rs f /\ conflict_name rs f /\
   register_file s fid f = (lazy_init s, RErrName)) \/
  (~ conflict_path rs f /\ ~ conflict_pkg rs f /\ ~ conflict_name rs f /\
   snd (register_file s fid f) = ROk /\ finv (fst (register_file s fid f)) (rs ++ [(fid, f)])).
Proof.
  intros I Hwf. unfold register_file. cbv zeta. fold (lazy_init s).
  destruct (chain_total (f_pkg f)) as [prefixes Hc].
  destruct (is_nil (path_files (fs_bypath s) (f_path f))) eqn:Ep; cbn [negb].
  2:{ left. split; [|reflexivity]. now apply (reg_path_iff s rs (f_path f) I). }
  assert (NP : ~ conflict_path rs f).
  { intros H. apply (reg_path_iff s rs (f_path f) I) in H. congruence. }
  right. rewrite Hc.
  destruct (existsb (pkg_conflict (norm_descs (fs_descs s))) prefixes) eqn:Epk.
  { left. split; [assumption|]. split; [|reflexivity]. now apply (reg_pkg_iff s rs (f_pkg f) prefixes I Hc). }
  assert (NK : ~ conflict_pkg rs f).
  { intros H. apply (reg_pkg_iff s rs (f_pkg f) prefixes I Hc) in H. congruence. }
  right.
  destruct (existsb (fun kd => is_some (dget (norm_descs (fs_descs s)) (fst kd))) (range_top_level fid f)) eqn:En.
  { left. split; [assumption|]. split; [assumption|]. split; [|reflexivity]. now apply (reg_name_iff s rs fid f I). }
  assert (NN : ~ conflict_name rs f).
  { intros H. apply (reg_name_iff s rs fid f I) in H. congruence. }
  right. apply is_nil_true in Ep.
  destruct (pkg_marker s rs f prefixes I Hc Epk) as (fl & Hfl & _).
  rewrite Hfl. cbn [fst snd]. split; [assumption|]. split; [assumption|]. split; [assumption|].
  split; [reflexivity|].
  exact (finv_success s rs fid f prefixes I Hwf Ep Hc Epk En fl Hfl).
Qed.

Lemma conflict_nil f :
  wf_file f = true -> ~ conflict_path [] f /\ ~ conflict_pkg [] f /\ ~ conflict_name [] f.
Proof.
  intros Hwf. repeat split.
  - intros (fid & f' & [] & _).
  - intros (q & _ & fid & f' & [] & _).
  - intros (n & Hn & [(fid & f' & [] & _)|[->|(fid & f' & [] & _)]]).
    apply (top_names_in O) in Hn. destruct Hn as [v Hv].
    destruct (top_in_wf O f [] v Hwf Hv) as (_ & Hk & _). now apply Hk.
Qed.

(* a failed registration returns the state unchanged *)
Lemma register_file_fail_noop s rs fid f :
  finv s rs -> wf_file f = true ->
  snd (register_file s fid f) <> ROk -> fst (register_file s fid f) = s.
Proof.
  intros I Hwf Hr.
  assert (Hd : (conflict_path rs f \/ conflict_pkg rs f \/ conflict_name rs f) -> lazy_init s = s).
  { intros Hc. apply lazy_init_id. intros E. rewrite (fi_nil _ _ I E) in Hc.
    destruct (conflict_nil f Hwf) as (H1 & H2 & H3). tauto. }
  destruct (register_file_cases s rs fid f I Hwf) as [(C & E)|[(_ & C & E)|[(_ & _ & C & E)|(_ & _ & _ & E & _)]]].
  - rewrite E. cbn [fst]. apply Hd. now left.
  - rewrite E. cbn [fst]. apply Hd. right. now left.
  - rewrite E. cbn [fst]. apply Hd. right. now right.
  - contradiction.
Qed.

(* ---------------------------------------------------------------- histories *)
Lemma fregs_fst ops : forall st,
  fst (fold_left fregs_step ops st) = fold_left (fun s op => fst (fstep s op)) ops (fst st).
Proof.
  induction ops as [|op ops IH]; intros st; cbn [fold_left]; [reflexivity|].
  rewrite IH. reflexivity.
Qed.

Lemma fregs_run_state ops : fst (fregs_run ops) = fstate_after ops.
Proof. unfold fregs_run, fstate_after. now rewrite fregs_fst. Qed.

Lemma fstep_nonreg s op : (forall fid f, op <> FReg fid f) -> fst (fstep s op) = s.
Proof. intros H. destruct op; try reflexivity. exfalso. now apply (H fid f). Qed.

Lemma finv_step s rs op :
  finv s rs -> wf_fop op = true ->
  finv (fst (fregs_step (s, rs) op)) (snd (fregs_step (s, rs) op)).
Proof.
  intros I Hwf. unfold fregs_step. cbn [fst snd].
  destruct op as [fid f| | | | | |]; try exact I.
  cbn [fstep wf_fop] in *.
  destruct (register_file s fid f) as [s' r] eqn:E. cbn [fst snd].
  destruct (register_file_cases s rs fid f I Hwf) as [(C & E')|[(_ & C & E')|[(_ & _ & C & E')|(_ & _ & _ & Er & If)]]];
    rewrite E in *; cbn [fst snd] in *.
  - inversion E'; subst. now apply finv_lazy.
  - inversion E'; subst. now apply finv_lazy.
  - inversion E'; subst. now apply finv_lazy.
  - subst r. exact If.
Qed.

Lemma finv_fold ops : forall st,
  finv (fst st) (snd st) -> forallb wf_fop ops = true ->
  finv (fst (fold_left fregs_step ops st)) (snd (fold_left fregs_step ops st)).
Proof.
  induction ops as [|op ops IH]; intros [s rs] I Hwf; cbn [fold_left]; [exact I|].
  cbn [forallb] in Hwf. apply andb_true_iff in Hwf. destruct Hwf as [H1 H2].
  apply IH; [|assumption]. now apply finv_step.
Qed.

Theorem finv_run ops :
  forallb wf_fop ops = true -> finv (fstate_after ops) (registered ops).
Proof.
  intros Hwf. rewrite <- fregs_run_state. unfold registered, fregs_run.
  apply finv_fold; [exact finv_init | assumption].
Qed.

(* the abstraction function agrees with the history-derived list of registered files *)
Theorem abs_files_registered ops :
  forallb wf_fop ops = true -> Permutation (abs_files (fstate_after ops)) (registered ops).
Proof. intros H. exact (fi_abs _ _ (finv_run ops H)). Qed.

(* ---------------------------------------------------------------- registration theorems *)
Theorem register_ok_iff_no_conflict ops fid f :
  forallb wf_fop ops = true -> wf_file f = true ->
  let r := snd (register_file (fstate_after ops) fid f) in
  let rs := registered ops in
  (r = ROk <-> ~ conflict_path rs f /\ ~ conflict_pkg rs f /\ ~ conflict_name rs f) /\
  (r = RErrPath <-> conflict_path rs f) /\
  (r = RErrPkg <-> ~ conflict_path rs f /\ conflict_pkg rs f) /\
  (r = RErrName <-> ~ conflict_path rs f /\ ~ conflict_pkg rs f /\ conflict_name rs f).
Proof.
  intros Hops Hwf. cbv zeta. pose proof (finv_run ops Hops) as I.
  destruct (register_file_cases _ _ fid f I Hwf) as [(C & E)|[(NP & C & E)|[(NP & NK & C & E)|(NP & NK & NN & E & _)]]];
    rewrite E; cbn [snd]; repeat split; intros; first [congruence | tauto].
Qed.

Theorem failed_register_noop ops fid f :
  forallb wf_fop ops = true -> wf_file f = true ->
  snd (register_file (fstate_after ops) fid f) <> ROk ->
  fst (register_file (fstate_after ops) fid f) = fstate_after ops.
Proof.
  intros Hops Hwf. apply (register_file_fail_noop _ (registered ops)); [now apply finv_run | assumption].
Qed.

(* ... hence every later observation is unchanged *)
Theorem failed_register_later_obs ops fid f ops2 :
  forallb wf_fop ops = true -> wf_file f = true ->
  snd (register_file (fstate_after ops) fid f) <> ROk ->
  frun_from (fst (register_file (fstate_after ops) fid f)) ops2 = frun_from (fstate_after ops) ops2.
Proof. intros H1 H2 H3. now rewrite failed_register_noop. Qed.

(* the model's auxiliary outcomes (fuel exhaustion, failed type assertion) are unreachable *)
Theorem register_total ops fid f :
  forallb wf_fop ops = true -> wf_file f = true ->
  snd (register_file (fstate_after ops) fid f) <> ROutOfFuel /\
  snd (register_file (fstate_after ops) fid f) <> RPanic.
Proof.
  intros Hops Hwf. pose proof (finv_run ops Hops) as I.
  destruct (register_file_cases _ _ fid f I Hwf) as [(C & E)|[(NP & C & E)|[(NP & NK & C & E)|(NP & NK & NN & E & _)]]];
    rewrite E; cbn [snd]; split; discriminate.
Qed.

(* ---------------------------------------------------------------- counts, ranges, paths *)
Lemma filter_unique {A} (g : A -> name) (l : list A) p :
  NoDup (map g l) -> length (filter (fun r => name_eqb (g r) p) l) <= 1.
Proof.
  induction l as [|a l IH]; cbn [map filter length]; [lia|].
  intros H. inversion H as [|? ? Hn Hd]; subst. specialize (IH Hd).
  destruct (name_eqb (g a) p) eqn:E; [|assumption].
  apply name_eqb_eq in E. cbn [length].
  destruct (filter (fun r => name_eqb (g r) p) l) as [|b l'] eqn:Ef; [cbn; lia|]. exfalso.
  assert (Hb : In b (filter (fun r => name_eqb (g r) p) l)) by (rewrite Ef; now left).
  apply filter_In in Hb. destruct Hb as [Hb Eb]. apply name_eqb_eq in Eb.
  apply Hn. rewrite E, <- Eb. now apply in_map.
Qed.

Lemma pkg_files_spec s rs p : finv s rs -> pkg_files s p = map fst (pkg_filter rs p).
Proof.
  intros I. unfold pkg_files.
  destruct (fs_descs s) as [|e d] eqn:Ed.
  - rewrite dget_nil. rewrite (fi_nil _ _ I Ed). reflexivity.
  - assert (En : norm_descs (fs_descs s) = e :: d) by (rewrite Ed; reflexivity).
    destruct (dget (e :: d) p) as [v|] eqn:E.
    + destruct (is_pkg v) eqn:Ep.
      * destruct v as [fl| | | | |]; try discriminate. rewrite <- En in E.
        now destruct (fi_pkg_sound _ _ I p fl E).
      * assert (Hn : pkg_filter rs p = []).
        { unfold pkg_filter. destruct (filter _ rs) as [|[fid f] l] eqn:Ef; [reflexivity|]. exfalso.
          assert (Hi : In (fid, f) (filter (fun r => name_eqb (f_pkg (snd r)) p) rs)) by (rewrite Ef; now left).
          apply filter_In in Hi. destruct Hi as [Hi He]. cbn [snd] in He. apply name_eqb_eq in He.
          assert (P : pkg_registered rs p).
          { destruct (name_eq_dec p []) as [->|Hk]; [now left|]. right. exists fid, f. split; [assumption|].
            rewrite He. now apply dot_prefix_refl. }
          destruct (fi_pkg_complete _ _ I p P) as [fl Hfl]. rewrite En, E in Hfl. inversion Hfl; subst. discriminate. }
        rewrite Hn. destruct v; try discriminate; reflexivity.
    + rewrite <- En in E. now rewrite (pkg_filter_nil _ _ _ I E).
Qed.

Theorem counts_and_ranges_exact ops :
  forallb wf_fop ops = true ->
  let s := fstate_after ops in
  let rs := registered ops in
  num_files s = length rs /\
  Permutation (range_files s) (map fst rs) /\
  (forall p, range_files_by_package s p = map fst (filter (fun r => name_eqb (f_pkg (snd r)) p) rs)) /\
  (forall p, num_files_by_package s p = length (filter (fun r => name_eqb (f_pkg (snd r)) p) rs)) /\
  NoDup (map (fun r => f_path (snd r)) rs) /\
  (forall p, find_file_by_path s p <> PMultiple) /\
  (forall p fid, find_file_by_path s p = PFound fid <-> exists f, In (fid, f) rs /\ f_path f = p) /\
  (forall p, find_file_by_path s p = PNotFound <-> ~ path_registered rs p).
Proof.
  intros Hops. cbv zeta. pose proof (finv_run ops Hops) as I.
  set (s := fstate_after ops) in *. set (rs := registered ops) in *.
  assert (L1 : forall p, length (path_filter rs p) <= 1).
  { intros p. unfold path_filter. apply (filter_unique (fun r => f_path (snd r))). exact (fi_paths _ _ I). }
  repeat split.
  - exact (fi_num _ _ I).
  - unfold range_files. apply Permutation_map. exact (fi_abs _ _ I).
  - intros p. unfold range_files_by_package. now rewrite (pkg_files_spec s rs p I).
  - intros p. unfold num_files_by_package. rewrite (pkg_files_spec s rs p I). now rewrite map_length.
  - exact (fi_paths _ _ I).
  - intros p. unfold find_file_by_path. rewrite (fi_path _ _ I). specialize (L1 p).
    destruct (path_filter rs p) as [|[a b] [|c l]]; cbn [length] in L1; try discriminate. lia.
  - unfold find_file_by_path. rewrite (fi_path _ _ I). specialize (L1 p).
    destruct (path_filter rs p) as [|[a b] [|c l]] eqn:E; cbn [length] in L1; try discriminate; try lia.
    intros H. inversion H; subst a. exists b.
    assert (Hi : In (fid, b) (path_filter rs p)) by (rewrite E; now left).
    apply filter_In in Hi. destruct Hi as [Hi He]. cbn [snd] in He. apply name_eqb_eq in He. now split.
  - intros (f & Hi & Ep). unfold find_file_by_path. rewrite (fi_path _ _ I). specialize (L1 p).
    assert (Hf : In (fid, f) (path_filter rs p)).
    { apply filter_In. split; [assumption|]. cbn [snd]. now apply name_eqb_eq. }
    destruct (path_filter rs p) as [|[a b] [|c l]]; cbn [length] in L1; try lia.
    + destruct Hf.
    + destruct Hf as [Hf|[]]. inversion Hf; subst. reflexivity.
  - unfold find_file_by_path. rewrite (fi_path _ _ I). intros H Hp.
    apply path_filter_registered in Hp. destruct (path_filter rs p) as [|[a b] [|c l]]; try discriminate. now apply Hp.
  - intros Hp. unfold find_file_by_path. rewrite (fi_path _ _ I).
    destruct (path_filter rs p) as [|[a b] l] eqn:E; [reflexivity|]. exfalso. apply Hp.
    apply path_filter_registered. rewrite E. discriminate.
Qed.
