(* RegistryTopP — facts about rangeTopLevelDescriptors, the package-marker loop and the
   spec-level filters used by the Files invariant. *)
From Coq Require Import List Arith Bool Lia Permutation.
From PB Require Import Desc.RegistryModel Desc.RegistryBaseP.
Import ListNotations.

(* ---------------------------------------------------------------- range_top_level *)
Lemma map_fst_flat_map {A B C} (g : A -> list (B * C)) (l : list A) :
  map fst (flat_map g l) = flat_map (fun x => map fst (g x)) l.
Proof. induction l as [|x l IH]; cbn; [reflexivity|]. now rewrite map_app, IH. Qed.

Lemma top_keys fid f : map fst (range_top_level fid f) = top_names f.
Proof.
  unfold top_names, range_top_level. rewrite !map_app, !map_fst_flat_map, !map_map. cbn [fst].
  f_equal. apply flat_map_ext. intros e. unfold top_enum. cbn [map fst]. now rewrite !map_map.
Qed.

(* every entry is pkg.c for a simple name c of the file scope; values are not package markers *)
Lemma top_in fid f k v :
  In (k, v) (range_top_level fid f) ->
  exists c, In c (file_scope_names f) /\ k = fn_append (f_pkg f) c /\ is_pkg v = false.
Proof.
  unfold range_top_level, file_scope_names. intros H.
  apply in_app_or in H. destruct H as [H|H].
  { apply in_flat_map in H. destruct H as (e & He & H). apply in_rev in He. destruct H as [H|H].
    - inversion H; subst. exists (enum_name e). repeat split.
      apply in_or_app; left. apply in_flat_map. exists e. split; [assumption | now left].
    - apply in_map_iff in H. destruct H as (x & E & Hx). apply in_rev in Hx. inversion E; subst.
      exists x. repeat split. apply in_or_app; left. apply in_flat_map. exists e. split; [assumption | now right]. }
  apply in_app_or in H. destruct H as [H|H].
  { apply in_map_iff in H. destruct H as (m & E & Hm). apply in_rev in Hm. inversion E; subst.
    exists (msg_name m). repeat split. apply in_or_app; right. apply in_or_app; left. now apply in_map. }
  apply in_app_or in H. destruct H as [H|H].
  { apply in_map_iff in H. destruct H as (x & E & Hx). apply in_rev in Hx. inversion E; subst.
    exists x. repeat split. apply in_or_app; right. apply in_or_app; right. apply in_or_app; left. assumption. }
  apply in_map_iff in H. destruct H as (sv & E & Hs). apply in_rev in Hs. inversion E; subst.
  exists (svc_name sv). repeat split. apply in_or_app; right. apply in_or_app; right. apply in_or_app; right.
  now apply in_map.
Qed.

Lemma wf_file_parts f :
  wf_file f = true ->
  (forall c, In c (file_scope_names f) -> c <> [] /\ ~ In dotb c) /\
  NoDup (top_names f) /\
  (forall m, In m (f_msgs f) -> wf_msg m = true) /\
  (forall s, In s (f_svcs f) -> wf_svc s = true).
Proof.
  unfold wf_file. rewrite !andb_true_iff. intros [[[H1 H2] H3] H4].
  rewrite forallb_forall in H1, H3, H4. repeat split.
  - apply (valid_ident_spec c). now apply H1.
  - apply (valid_ident_spec c). now apply H1.
  - now apply nodupb_NoDup.
  - assumption.
  - assumption.
Qed.

Lemma top_in_wf fid f k v :
  wf_file f = true -> In (k, v) (range_top_level fid f) ->
  is_pkg v = false /\ k <> [] /\ parent k = f_pkg f /\ length (f_pkg f) < length k.
Proof.
  intros Hwf H. destruct (top_in _ _ _ _ H) as (c & Hc & -> & Hv).
  destruct (wf_file_parts f Hwf) as (Hval & _). destruct (Hval c Hc) as [Hc1 Hc2].
  repeat split.
  - assumption.
  - now apply fn_append_nonnil.
  - now apply parent_fn_append.
  - now apply fn_append_length.
Qed.

Lemma top_nodup fid f : wf_file f = true -> NoDup (map fst (range_top_level fid f)).
Proof. intros H. rewrite top_keys. now destruct (wf_file_parts f H) as (_ & Hn & _). Qed.

Lemma top_names_in fid f n : In n (top_names f) <-> exists v, In (n, v) (range_top_level fid f).
Proof.
  rewrite <- (top_keys fid f). rewrite in_map_iff. split.
  - intros ([k v] & E & H). cbn in E. subst. now exists v.
  - intros (v & H). now exists (n, v).
Qed.

Lemma top_aget fid f k v :
  wf_file f = true ->
  (aget name_eqb (range_top_level fid f) k = Some v <-> In (k, v) (range_top_level fid f)).
Proof.
  intros H. split.
  - apply aget_in. apply name_eqb_eq.
  - apply in_nodup_aget; [apply name_eqb_eq | now apply top_nodup].
Qed.

(* ---------------------------------------------------------------- package markers *)
Lemma add_pkg_get m n k :
  dget (add_pkg m n) k =
  match dget m k with Some v => Some v | None => if name_eqb n k then Some (VPkg []) else None end.
Proof.
  unfold add_pkg. destruct (dget m n) as [vn|] eqn:E.
  - destruct (dget m k) eqn:Ek; [reflexivity|].
    destruct (name_eqb n k) eqn:En; [|reflexivity]. apply name_eqb_eq in En; subst. congruence.
  - rewrite dget_dput. destruct (name_eqb n k) eqn:En.
    + apply name_eqb_eq in En; subst. now rewrite E.
    + destruct (dget m k); reflexivity.
Qed.

Lemma add_pkgs_get l : forall m k,
  dget (fold_left add_pkg l m) k =
  match dget m k with Some v => Some v | None => if mem_name k l then Some (VPkg []) else None end.
Proof.
  induction l as [|a l IH]; intros m k; cbn [fold_left].
  - destruct (dget m k); reflexivity.
  - rewrite IH, add_pkg_get. destruct (dget m k); [reflexivity|].
    unfold mem_name. cbn [existsb]. rewrite (name_eqb_sym k a).
    destruct (name_eqb a k); reflexivity.
Qed.

(* ---------------------------------------------------------------- spec-level filters *)
Definition pkg_filter (rs : regs) (k : name) : regs := filter (fun r => name_eqb (f_pkg (snd r)) k) rs.
Definition path_filter (rs : regs) (p : name) : regs := filter (fun r => name_eqb (f_path (snd r)) p) rs.

Lemma path_filter_registered rs p : path_filter rs p <> [] <-> path_registered rs p.
Proof.
  unfold path_filter, path_registered. split.
  - intros H. destruct (filter _ rs) as [|[fid f] l] eqn:E; [contradiction|].
    assert (Hi : In (fid, f) (filter (fun r => name_eqb (f_path (snd r)) p) rs)) by (rewrite E; now left).
    apply filter_In in Hi. destruct Hi as [Hi He]. apply name_eqb_eq in He. now exists fid, f.
  - intros (fid & f & Hi & E) Hn.
    assert (Hf : In (fid, f) (filter (fun r => name_eqb (f_path (snd r)) p) rs)).
    { apply filter_In. split; [assumption|]. cbn. now apply name_eqb_eq. }
    rewrite Hn in Hf. destruct Hf.
Qed.

Lemma filter_snoc {A} (g : A -> bool) l x :
  filter g (l ++ [x]) = filter g l ++ (if g x then [x] else []).
Proof. rewrite filter_app. reflexivity. Qed.

Lemma norm_descs_id (d : list (name * dval)) : d <> [] -> norm_descs d = d.
Proof. destruct d; [contradiction | reflexivity]. Qed.

Lemma norm_descs_idem d : norm_descs (norm_descs d) = norm_descs d.
Proof. destruct d; reflexivity. Qed.

Lemma norm_descs_nonnil d : norm_descs d <> [].
Proof. destruct d; discriminate. Qed.

Lemma fold_dput_get l m k :
  NoDup (map fst l) ->
  dget (fold_left (fun m kd => dput m (fst kd) (snd kd)) l m) k =
  match aget name_eqb l k with Some v => Some v | None => dget m k end.
Proof. intros H. exact (fold_put_get name_eqb name_eqb_eq l m k H). Qed.

Lemma path_files_aput bp p l p' :
  path_files (aput name_eqb bp p l) p' = if name_eqb p p' then l else path_files bp p'.
Proof.
  unfold path_files. rewrite (aget_aput name_eqb name_eqb_eq). destruct (name_eqb p p'); reflexivity.
Qed.

Lemma dget_nil k : dget [] k = None.
Proof. reflexivity. Qed.
