(* Model of editions feature resolution (C38):
     reflect/protodesc/editions.go   getFeatureSetFor, mergeEditionFeatures, initFileDescFromFeatureSet
     reflect/protodesc/desc_init.go  the mergeEditionFeatures calls along file -> message* -> field/oneof/enum/extension,
                                     the explicit [packed] option, LEGACY_REQUIRED -> Required, DELIMITED -> GroupKind
     reflect/protodesc/desc_resolve.go  GroupKind -> MessageKind for map fields / map entry members
     internal/filedesc/desc.go       HasPresence, IsPacked, IsClosed, EnforceUTF8
     internal/strs/strings.go        EnforceUTF8
   The per-edition defaults come from Gen/EditionDefaults.v, which srcmodel_editions regenerates
   from internal/editiondefaults/editions_defaults.binpb on every run (Tier T).
   Definitions only: no proofs. *)
From Coq Require Import List NArith Bool.
From PB Require Import Gen.EditionDefaults.
Import ListNotations.
Open Scope N_scope.

(* ---------- filedesc.EditionFeatures (the Go representation of a resolved feature set) *)
Record efeat := mkEfeat {
  ef_strip : N;          (* StripEnumPrefix *)
  ef_presence : bool;    (* IsFieldPresence: EXPLICIT or LEGACY_REQUIRED *)
  ef_legacyreq : bool;   (* IsLegacyRequired *)
  ef_open : bool;        (* IsOpenEnum *)
  ef_packed : bool;      (* IsPacked *)
  ef_utf8 : bool;        (* IsUTF8Validated *)
  ef_delim : bool;       (* IsDelimitedEncoded *)
  ef_json : bool;        (* IsJSONCompliant *)
  ef_legacyjson : bool;  (* GenerateLegacyUnmarshalJSON *)
  ef_api : N             (* APILevel *)
}.
Definition ef_zero : efeat := mkEfeat 0 false false false false false false false false 0.

(* ---------- an explicit feature set as written in an options message (descriptorpb.FeatureSet
   plus the pb.go extension); [None] = not set.  Enum values are the descriptor.proto numbers. *)
Record ovset := mkOv {
  ov_presence : option N;   (* 1 EXPLICIT  2 IMPLICIT  3 LEGACY_REQUIRED *)
  ov_enum : option N;       (* 1 OPEN  2 CLOSED *)
  ov_repeated : option N;   (* 1 PACKED  2 EXPANDED *)
  ov_utf8 : option N;       (* 2 VERIFY  3 NONE *)
  ov_msgenc : option N;     (* 1 LENGTH_PREFIXED  2 DELIMITED *)
  ov_json : option N;       (* 1 ALLOW  2 LEGACY_BEST_EFFORT *)
  ov_golegacy : option N;   (* pb.go legacy_unmarshal_json_enum: 0 false, otherwise true *)
  ov_api : option N;        (* pb.go api_level *)
  ov_strip : option N       (* pb.go strip_enum_prefix *)
}.
Definition ov_empty : ovset := mkOv None None None None None None None None None.

(* mergeEditionFeatures: any feature set by the child overwrites what the parent has.
   One update function per "if x := child.X; x != nil { ... }" block. *)
Definition upd_presence (p : efeat) (o : option N) : efeat :=
  match o with
  | Some v => mkEfeat (ef_strip p) ((v =? 3) || (v =? 1)) (v =? 3) (ef_open p) (ef_packed p) (ef_utf8 p)
                      (ef_delim p) (ef_json p) (ef_legacyjson p) (ef_api p)
  | None => p end.
Definition upd_enum (p : efeat) (o : option N) : efeat :=
  match o with
  | Some v => mkEfeat (ef_strip p) (ef_presence p) (ef_legacyreq p) (v =? 1) (ef_packed p) (ef_utf8 p)
                      (ef_delim p) (ef_json p) (ef_legacyjson p) (ef_api p)
  | None => p end.
Definition upd_repeated (p : efeat) (o : option N) : efeat :=
  match o with
  | Some v => mkEfeat (ef_strip p) (ef_presence p) (ef_legacyreq p) (ef_open p) (v =? 1) (ef_utf8 p)
                      (ef_delim p) (ef_json p) (ef_legacyjson p) (ef_api p)
  | None => p end.
Definition upd_utf8 (p : efeat) (o : option N) : efeat :=
  match o with
  | Some v => mkEfeat (ef_strip p) (ef_presence p) (ef_legacyreq p) (ef_open p) (ef_packed p) (v =? 2)
                      (ef_delim p) (ef_json p) (ef_legacyjson p) (ef_api p)
  | None => p end.
Definition upd_msgenc (p : efeat) (o : option N) : efeat :=
  match o with
  | Some v => mkEfeat (ef_strip p) (ef_presence p) (ef_legacyreq p) (ef_open p) (ef_packed p) (ef_utf8 p)
                      (v =? 2) (ef_json p) (ef_legacyjson p) (ef_api p)
  | None => p end.
Definition upd_json (p : efeat) (o : option N) : efeat :=
  match o with
  | Some v => mkEfeat (ef_strip p) (ef_presence p) (ef_legacyreq p) (ef_open p) (ef_packed p) (ef_utf8 p)
                      (ef_delim p) (v =? 1) (ef_legacyjson p) (ef_api p)
  | None => p end.
Definition upd_golegacy (p : efeat) (o : option N) : efeat :=
  match o with
  | Some v => mkEfeat (ef_strip p) (ef_presence p) (ef_legacyreq p) (ef_open p) (ef_packed p) (ef_utf8 p)
                      (ef_delim p) (ef_json p) (negb (v =? 0)) (ef_api p)
  | None => p end.
Definition upd_strip (p : efeat) (o : option N) : efeat :=
  match o with
  | Some v => mkEfeat v (ef_presence p) (ef_legacyreq p) (ef_open p) (ef_packed p) (ef_utf8 p)
                      (ef_delim p) (ef_json p) (ef_legacyjson p) (ef_api p)
  | None => p end.
Definition upd_api (p : efeat) (o : option N) : efeat :=
  match o with
  | Some v => mkEfeat (ef_strip p) (ef_presence p) (ef_legacyreq p) (ef_open p) (ef_packed p) (ef_utf8 p)
                      (ef_delim p) (ef_json p) (ef_legacyjson p) v
  | None => p end.

Definition merge (p : efeat) (c : ovset) : efeat :=
  upd_api (upd_strip (upd_golegacy (upd_json (upd_msgenc (upd_utf8 (upd_repeated (upd_enum
    (upd_presence p (ov_presence c)) (ov_enum c)) (ov_repeated c)) (ov_utf8 c)) (ov_msgenc c))
    (ov_json c)) (ov_golegacy c)) (ov_strip c)) (ov_api c).

(* ---------- edition defaults (getFeatureSetFor) *)
(* a decoded FeatureSet: (field number, value) pairs, later pairs win (proto.Merge of
   overridable_features into a clone of fixed_features) *)
Definition ov_set (o : ovset) (num v : N) : ovset :=
  if num =? 1 then mkOv (Some v) (ov_enum o) (ov_repeated o) (ov_utf8 o) (ov_msgenc o) (ov_json o) (ov_golegacy o) (ov_api o) (ov_strip o)
  else if num =? 2 then mkOv (ov_presence o) (Some v) (ov_repeated o) (ov_utf8 o) (ov_msgenc o) (ov_json o) (ov_golegacy o) (ov_api o) (ov_strip o)
  else if num =? 3 then mkOv (ov_presence o) (ov_enum o) (Some v) (ov_utf8 o) (ov_msgenc o) (ov_json o) (ov_golegacy o) (ov_api o) (ov_strip o)
  else if num =? 4 then mkOv (ov_presence o) (ov_enum o) (ov_repeated o) (Some v) (ov_msgenc o) (ov_json o) (ov_golegacy o) (ov_api o) (ov_strip o)
  else if num =? 5 then mkOv (ov_presence o) (ov_enum o) (ov_repeated o) (ov_utf8 o) (Some v) (ov_json o) (ov_golegacy o) (ov_api o) (ov_strip o)
  else if num =? 6 then mkOv (ov_presence o) (ov_enum o) (ov_repeated o) (ov_utf8 o) (ov_msgenc o) (Some v) (ov_golegacy o) (ov_api o) (ov_strip o)
  else if num =? 100201 then mkOv (ov_presence o) (ov_enum o) (ov_repeated o) (ov_utf8 o) (ov_msgenc o) (ov_json o) (Some v) (ov_api o) (ov_strip o)
  else if num =? 100202 then mkOv (ov_presence o) (ov_enum o) (ov_repeated o) (ov_utf8 o) (ov_msgenc o) (ov_json o) (ov_golegacy o) (Some v) (ov_strip o)
  else if num =? 100203 then mkOv (ov_presence o) (ov_enum o) (ov_repeated o) (ov_utf8 o) (ov_msgenc o) (ov_json o) (ov_golegacy o) (ov_api o) (Some v)
  else o.  (* enforce_naming_style (7), default_symbol_visibility (8): not looked at by the runtime *)

Definition ov_of_pairs (ps : list (N * N)) : ovset :=
  fold_left (fun o p => ov_set o (fst p) (snd p)) ps ov_empty.

(* the row of the largest edition <= ed, starting from row 0 (the table is sorted) *)
Fixpoint pick_row (rows : list (N * (list (N * N) * list (N * N)))) (ed : N)
                  (cur : list (N * N) * list (N * N)) : list (N * N) * list (N * N) :=
  match rows with
  | [] => cur
  | (e, r) :: rest => if e <=? ed then pick_row rest ed r else cur
  end.

Inductive dres := DPanic | DExit | DOk (o : ovset).

(* toEditionProto knows exactly these edition numbers *)
Definition edition_known (ed : N) : bool :=
  (ed =? 0) || (ed =? 998) || (ed =? 999) || (ed =? 1000) || (ed =? 1001) || (ed =? 9999).

Definition defaults_for (ed : N) : dres :=
  if negb (edition_known ed) then DPanic      (* panic("unknown value for edition") *)
  else if ((ed <? edition_defaults_min) || (edition_defaults_max <? ed)) && negb (ed =? 9999) then DExit  (* os.Exit(1) *)
  else match edition_defaults with
       | [] => DPanic                            (* defaults.GetDefaults()[0] *)
       | (_, r0) :: _ =>
         let r := pick_row edition_defaults ed r0 in
         DOk (ov_of_pairs (snd r ++ fst r))      (* fixed, then overridable merged over it *)
       end.

(* ---------- resolution along the chain: file :: message* :: leaf (outermost first) *)
Definition resolve_from (base : efeat) (chain : list ovset) : efeat := fold_left merge chain base.

(* initFileDescFromFeatureSet + the chain below the file; [chain] starts with the file's own
   options.features *)
Definition resolve (ed : N) (chain : list ovset) : option efeat :=
  match defaults_for ed with
  | DOk d => Some (resolve_from (merge ef_zero d) chain)
  | _ => None
  end.

(* the explicit [packed = b] field option overrides the feature for that field *)
Definition apply_packed (e : efeat) (p : option bool) : efeat :=
  match p with
  | Some b => mkEfeat (ef_strip e) (ef_presence e) (ef_legacyreq e) (ef_open e) b (ef_utf8 e)
                      (ef_delim e) (ef_json e) (ef_legacyjson e) (ef_api e)
  | None => e
  end.

(* ---------- what the runtime reads off a field *)
Record fieldin := mkFieldIn {
  fi_label : N;            (* 1 optional  2 required  3 repeated *)
  fi_type : N;             (* FieldDescriptorProto.Type = protoreflect.Kind, 1..18 *)
  fi_packedopt : option bool;
  fi_in_oneof : bool;      (* oneof_index set *)
  fi_is_ext : bool;        (* declared in an extension list *)
  fi_mapish : bool         (* the field is a map field or a member of a map entry *)
}.
Record fieldrec := mkFieldRec {
  fr_card : N; fr_kind : N; fr_presence : bool; fr_packed : bool; fr_utf8 : bool
}.

Definition kind_is_msg (k : N) : bool := (k =? 10) || (k =? 11).
Definition kind_unpackable (k : N) : bool := (k =? 9) || (k =? 12) || (k =? 10) || (k =? 11).

(* syntax: protoreflect.Syntax  2 proto2, 3 proto3, 4 editions; legacy = flags.ProtoLegacy *)
Definition field_record (legacy : bool) (syntax : N) (parent : efeat) (own : ovset) (fi : fieldin) : fieldrec :=
  let fe := apply_packed (merge parent own) (fi_packedopt fi) in
  let card := if negb (fi_is_ext fi) && ef_legacyreq fe then 2 else fi_label fi in
  let k1 := if (fi_type fi =? 11) && ef_delim fe then 10 else fi_type fi in
  let kind := if (k1 =? 10) && fi_mapish fi && negb (fi_is_ext fi) then 11 else k1 in
  let presence :=
    if fi_is_ext fi then negb (card =? 3)
    else if card =? 3 then false
    else ef_presence fe || kind_is_msg kind || fi_in_oneof fi in
  let packed := (card =? 3) && negb (kind_unpackable kind) && ef_packed fe in
  let utf8 :=
    if (legacy || (syntax =? 4)) && negb (fi_is_ext fi)   (* only filedesc.Field has an EnforceUTF8 method *)
    then ef_utf8 fe else syntax =? 3 in
  mkFieldRec card kind presence packed utf8.

Definition enum_closed (e : efeat) : bool := negb (ef_open e).

(* ---------- generic view used to state "nearest explicit setting wins" *)
Inductive feat := FPresence | FEnum | FRepeated | FUtf8 | FMsgEnc | FJson | FGoLegacy | FApi | FStrip.
Definition all_feats := [FPresence; FEnum; FRepeated; FUtf8; FMsgEnc; FJson; FGoLegacy; FApi; FStrip].

Definition ov_get (ft : feat) (o : ovset) : option N :=
  match ft with
  | FPresence => ov_presence o | FEnum => ov_enum o | FRepeated => ov_repeated o | FUtf8 => ov_utf8 o
  | FMsgEnc => ov_msgenc o | FJson => ov_json o | FGoLegacy => ov_golegacy o | FApi => ov_api o | FStrip => ov_strip o
  end.

Inductive fview := VB (b : bool) | VBB (b1 b2 : bool) | VN (n : N).

(* the part of the Go struct that feature [ft] controls *)
Definition view (ft : feat) (e : efeat) : fview :=
  match ft with
  | FPresence => VBB (ef_presence e) (ef_legacyreq e)
  | FEnum => VB (ef_open e) | FRepeated => VB (ef_packed e) | FUtf8 => VB (ef_utf8 e)
  | FMsgEnc => VB (ef_delim e) | FJson => VB (ef_json e) | FGoLegacy => VB (ef_legacyjson e)
  | FApi => VN (ef_api e) | FStrip => VN (ef_strip e)
  end.

(* how an explicit value of feature [ft] is represented in the Go struct *)
Definition interp (ft : feat) (v : N) : fview :=
  match ft with
  | FPresence => VBB ((v =? 3) || (v =? 1)) (v =? 3)
  | FEnum => VB (v =? 1) | FRepeated => VB (v =? 1) | FUtf8 => VB (v =? 2)
  | FMsgEnc => VB (v =? 2) | FJson => VB (v =? 1) | FGoLegacy => VB (negb (v =? 0))
  | FApi => VN v | FStrip => VN v
  end.

(* ---------- the proto2 / proto3 -> editions 2023 translation (what protoc's editions
   migration writes, cf. internal/testprotos/editionsfuzztest/test{2,3}editions.proto) *)
Definition p2_file_ov : ovset :=   (* enum_type CLOSED, repeated EXPANDED, utf8 NONE, json LEGACY_BEST_EFFORT, legacy json enum *)
  mkOv None (Some 2) (Some 2) (Some 3) None (Some 2) (Some 1) None None.
Definition p3_file_ov : ovset := mkOv (Some 2) None None None None None None None None.  (* field_presence IMPLICIT *)

(* a proto2 field and its editions form *)
Definition p2_field_ov (fi : fieldin) : ovset :=
  mkOv (if fi_label fi =? 2 then Some 3 else None) None
       (match fi_packedopt fi with Some true => Some 1 | Some false => Some 2 | None => None end)
       None (if fi_type fi =? 10 then Some 2 else None) None None None None.
Definition p2_field_tr (fi : fieldin) : fieldin :=
  mkFieldIn (if fi_label fi =? 2 then 1 else fi_label fi) (if fi_type fi =? 10 then 11 else fi_type fi)
            None (fi_in_oneof fi) (fi_is_ext fi) (fi_mapish fi).

(* a proto3 field ([p3opt] = proto3_optional, then the field sits in a synthetic oneof) and its editions form *)
Definition p3_field_ov (p3opt : bool) (fi : fieldin) : ovset :=
  mkOv (if p3opt then Some 1 else None) None
       (match fi_packedopt fi with Some true => Some 1 | Some false => Some 2 | None => None end)
       None None None None None None.
Definition p3_field_tr (p3opt : bool) (fi : fieldin) : fieldin :=
  mkFieldIn (fi_label fi) (fi_type fi) None (if p3opt then false else fi_in_oneof fi) (fi_is_ext fi) (fi_mapish fi).

(* ---------- executable entry points for the correspondence check *)
Definition resolve_leaf (ed : N) (chain : list ovset) : option efeat := resolve ed chain.

Definition resolve_field (legacy : bool) (syntax ed : N) (chain : list ovset) (own : ovset) (fi : fieldin)
  : option (efeat * fieldrec) :=
  match resolve ed chain with
  | Some parent => Some (apply_packed (merge parent own) (fi_packedopt fi), field_record legacy syntax parent own fi)
  | None => None
  end.
