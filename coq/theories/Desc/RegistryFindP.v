(* RegistryFindP — FindDescriptorByName finds exactly the declarations of the registered
   files (every kind: top-level and nested messages, enums, enum values in their enclosing
   scope, extensions, fields, oneofs, services, methods). *)
From Coq Require Import List Arith Bool Lia Permutation.
From PB Require Import Desc.RegistryModel Desc.RegistryBaseP Desc.RegistryTopP Desc.RegistryMsgP
                       Desc.RegistryInvP Desc.RegistryFilesP.
Import ListNotations.

(* ---------------------------------------------------------------- top-level entries *)
Lemma top_entry_iff fid f k v :
  In (k, v) (range_top_level fid f) <->
  (exists e, In e (f_enums f) /\ k = fn_append (f_pkg f) (enum_name e) /\ v = VEnum fid k) \/
  (exists e x, In e (f_enums f) /\ In x (enum_values e) /\ k = fn_append (f_pkg f) x /\ v = VEnumVal fid k) \/
  (exists m, In m (f_msgs f) /\ k = fn_append (f_pkg f) (msg_name m) /\ v = VMsg fid k m) \/
  (exists x, In x (f_exts f) /\ k = fn_append (f_pkg f) x /\ v = VExt fid k) \/
  (exists sv, In sv (f_svcs f) /\ k = fn_append (f_pkg f) (svc_name sv) /\ v = VSvc fid k sv).
Proof.
  unfold range_top_level. rewrite !in_app_iff, in_flat_map, !in_map_iff. split.
  - intros [H|[H|[H|H]]].
    + destruct H as (e & He & H). apply in_rev in He. destruct H as [H|H].
      * inversion H; subst. left. now exists e.
      * apply in_map_iff in H. destruct H as (x & E & Hx). apply in_rev in Hx. inversion E; subst.
        right; left. now exists e, x.
    + destruct H as (m & E & Hm). apply in_rev in Hm. inversion E; subst. right; right; left. now exists m.
    + destruct H as (x & E & Hx). apply in_rev in Hx. inversion E; subst. right; right; right; left. now exists x.
    + destruct H as (sv & E & Hs). apply in_rev in Hs. inversion E; subst. right; right; right; right. now exists sv.
  - intros [H|[H|[H|[H|H]]]].
    + destruct H as (e & He & -> & ->). left. exists e. split; [now apply in_rev in He | now left].
    + destruct H as (e & x & He & Hx & -> & ->). left. exists e. split; [now apply in_rev in He|].
      right. apply in_map_iff. exists x. split; [reflexivity | now apply in_rev in Hx].
    + destruct H as (m & Hm & -> & ->). right; left. exists m. split; [reflexivity | now apply in_rev in Hm].
    + destruct H as (x & Hx & -> & ->). right; right; left. exists x. split; [reflexivity | now apply in_rev in Hx].
    + destruct H as (sv & Hs & -> & ->). right; right; right. exists sv. split; [reflexivity | now apply in_rev in Hs].
Qed.

(* ---------------------------------------------------------------- structure of descsByName *)
Lemma dget_norm d q : q <> [] -> dget (norm_descs d) q = dget d q.
Proof.
  intros Hq. destruct d as [|e d]; [|reflexivity]. cbn [norm_descs]. unfold dget. cbn [aget].
  destruct (name_eqb [] q) eqn:E; [|reflexivity]. apply name_eqb_eq in E. congruence.
Qed.

Lemma find_first_norm d nm l :
  (forall q, In q l -> q <> []) -> find_first d nm l = find_first (norm_descs d) nm l.
Proof.
  induction l as [|q l IH]; intros H; cbn [find_first]; [reflexivity|].
  rewrite dget_norm by (apply H; now left). rewrite IH by (intros; apply H; now right). reflexivity.
Qed.

(* every key has its parent registered as a package *)
Lemma parent_closed s rs k v :
  finv s rs -> dget (norm_descs (fs_descs s)) k = Some v -> k <> [] ->
  exists fl, dget (norm_descs (fs_descs s)) (parent k) = Some (VPkg fl).
Proof.
  intros I E Hk. apply (fi_pkg_complete _ _ I).
  destruct (is_pkg v) eqn:Ep.
  - destruct v as [fl| | | | |]; try discriminate.
    destruct (fi_pkg_sound _ _ I k fl E) as [_ [->|(fid & f & Hi & Hp)]]; [contradiction|].
    destruct (dot_prefix_parent _ _ Hp) as [E0|Hp']; [rewrite E0; now left|]. right. now exists fid, f.
  - destruct (fi_sound _ _ I k v E Ep) as (fid & f & Hi & Hin).
    destruct (top_in_wf fid f k v (fi_wf _ _ I fid f Hi) Hin) as (_ & _ & Hpar & _). rewrite Hpar.
    destruct (name_eq_dec (f_pkg f) []) as [E0|N]; [rewrite E0; now left|]. right. exists fid, f.
    split; [assumption | now apply dot_prefix_refl].
Qed.

(* nothing is registered below a non-package entry *)
Lemma no_ext s rs p d :
  finv s rs -> dget (norm_descs (fs_descs s)) p = Some d -> is_pkg d = false ->
  forall y, dget (norm_descs (fs_descs s)) (p ++ dotb :: y) = None.
Proof.
  intros I Ed Hd.
  assert (G : forall q : name, forall y, q = p ++ dotb :: y -> dget (norm_descs (fs_descs s)) q = None);
    [|intros y; now apply (G _ y)].
  intros q. induction q as [|q Hq IH] using parent_ind; intros y Eq.
  - destruct p; discriminate.
  - destruct (dget (norm_descs (fs_descs s)) q) as [v|] eqn:E; [|reflexivity]. exfalso.
    destruct (parent_closed s rs q v I E Hq) as [fl Hfl]. subst q.
    destruct (parent_ext p y) as [Hp|[y' Hp]]; rewrite Hp in *.
    + rewrite Ed in Hfl. inversion Hfl; subst. discriminate.
    + rewrite (IH y' eq_refl) in Hfl. discriminate.
Qed.

(* the prefix walk reaches the registered prefix p of nm = p.x *)
Lemma find_first_reach D nm p d x :
  p <> [] -> dget D p = Some d -> (forall y, dget D (p ++ dotb :: y) = None) -> nm = p ++ dotb :: x ->
  forall q : name, (q = p \/ exists y, q = p ++ dotb :: y) ->
  forall l, chain q = Some l -> find_first D nm l = resolve d nm x.
Proof.
  intros Hp Ed Hno Enm q.
  induction q as [|q Hq IH] using parent_ind; intros Hq' l Hl.
  - destruct Hq' as [E|[y E]]; [congruence | destruct p; discriminate].
  - destruct (chain_cons _ _ Hq Hl) as (l' & -> & Hl'). cbn [find_first].
    destruct Hq' as [->|[y ->]].
    + rewrite Ed. subst nm. now rewrite skipn_app_dot.
    + rewrite Hno. apply IH; [|assumption].
      destruct (parent_ext p y) as [E|[y' E]]; rewrite E; [now left | right; now exists y'].
Qed.

Lemma find_first_hit D nm l d :
  find_first D nm l = FFound d ->
  exists q v, In q l /\ dget D q = Some v /\ resolve v nm (skipn (S (length q)) nm) = FFound d.
Proof.
  induction l as [|q l IH]; cbn [find_first]; [discriminate|].
  destruct (dget D q) as [v|] eqn:E.
  - intros H. exists q, v. repeat split; [now left | assumption | assumption].
  - intros H. destruct (IH H) as (q' & v & Hi & Hg & Hr). exists q', v. repeat split; [now right | assumption | assumption].
Qed.

Lemma find_norm s nm l :
  chain nm = Some l -> find_descriptor_by_name s nm = find_first (norm_descs (fs_descs s)) nm l.
Proof.
  intros Hl. unfold find_descriptor_by_name. rewrite Hl. apply find_first_norm.
  intros q Hq. exact (chain_in_nonnil nm l q Hl Hq).
Qed.

(* ---------------------------------------------------------------- soundness *)
Lemma resolve_sound fid f k v nm sfx d :
  In (k, v) (range_top_level fid f) -> resolve v nm sfx = FFound d ->
  d_full d = nm /\ d_fid d = fid /\ In (d_kind d, d_full d) (declared_by f).
Proof.
  intros Hin Hr. apply top_entry_iff in Hin. unfold declared_by.
  destruct Hin as [(e & He & Ek & ->)|[(e & x & He & Hx & Ek & ->)|[(m & Hm & Ek & ->)|[(x & Hx & Ek & ->)|(sv & Hs & Ek & ->)]]]];
    cbn [resolve] in Hr.
  - destruct (name_eqb k nm) eqn:E; [|discriminate]. apply name_eqb_eq in E. inversion Hr; subst d.
    cbn [d_full d_fid d_kind]. repeat split; [assumption|]. apply in_or_app; left.
    apply in_flat_map. exists e. split; [assumption|]. left. now rewrite Ek.
  - destruct (name_eqb k nm) eqn:E; [|discriminate]. apply name_eqb_eq in E. inversion Hr; subst d.
    cbn [d_full d_fid d_kind]. repeat split; [assumption|]. apply in_or_app; left.
    apply in_flat_map. exists e. split; [assumption|]. right. apply in_map_iff. exists x. split; [now rewrite Ek | assumption].
  - destruct (name_eqb k nm) eqn:E.
    + apply name_eqb_eq in E. inversion Hr; subst d. cbn [d_full d_fid d_kind]. repeat split; [assumption|].
      apply in_or_app; right. apply in_or_app; left. apply in_flat_map. exists m. split; [assumption|].
      left. now rewrite Ek.
    + destruct (find_in_msg fid k m sfx) as [d'|] eqn:Ef; [|discriminate].
      destruct (name_eqb (d_full d') nm) eqn:E2; [|discriminate]. apply name_eqb_eq in E2. inversion Hr; subst d'.
      destruct (find_in_msg_sound fid m k sfx d Ef) as [Hfid Hd]. repeat split; [assumption | assumption|].
      apply in_or_app; right. apply in_or_app; left. apply in_flat_map. exists m. split; [assumption|].
      right. unfold decls_msg. rewrite <- Ek. exact Hd.
  - destruct (name_eqb k nm) eqn:E; [|discriminate]. apply name_eqb_eq in E. inversion Hr; subst d.
    cbn [d_full d_fid d_kind]. repeat split; [assumption|].
    apply in_or_app; right. apply in_or_app; right. apply in_or_app; left.
    apply in_map_iff. exists x. split; [now rewrite Ek | assumption].
  - destruct (name_eqb k nm) eqn:E.
    + apply name_eqb_eq in E. inversion Hr; subst d. cbn [d_full d_fid d_kind]. repeat split; [assumption|].
      apply in_or_app; right. apply in_or_app; right. apply in_or_app; right.
      apply in_flat_map. exists sv. split; [assumption|]. left. now rewrite Ek.
    + destruct (mem_name (fst (pop sfx)) (svc_methods sv)) eqn:Em; [|discriminate].
      destruct (name_eqb (fn_append k (fst (pop sfx))) nm) eqn:E2; [|discriminate].
      apply name_eqb_eq in E2. inversion Hr; subst d. cbn [d_full d_fid d_kind]. repeat split; [assumption|].
      apply in_or_app; right. apply in_or_app; right. apply in_or_app; right.
      apply in_flat_map. exists sv. split; [assumption|]. right. apply mem_name_in in Em.
      apply in_map_iff. exists (fst (pop sfx)). split; [now rewrite Ek | assumption].
Qed.

Lemma find_sound s rs nm d :
  finv s rs -> find_descriptor_by_name s nm = FFound d -> d_full d = nm /\ declared rs d.
Proof.
  intros I H. destruct (chain_total nm) as [l Hl]. rewrite (find_norm s nm l Hl) in H.
  destruct (find_first_hit _ _ _ _ H) as (q & v & Hq & Hg & Hr).
  destruct (is_pkg v) eqn:Ep; [destruct v; try discriminate; cbn [resolve] in Hr; discriminate|].
  destruct (fi_sound _ _ I q v Hg Ep) as (fid & f & Hi & Hin).
  destruct (resolve_sound fid f q v nm _ d Hin Hr) as (H1 & H2 & H3).
  split; [assumption|]. exists f. rewrite H2. now split.
Qed.

(* ---------------------------------------------------------------- completeness *)
Lemma find_top s rs fid f k v :
  finv s rs -> In (fid, f) rs -> In (k, v) (range_top_level fid f) ->
  find_descriptor_by_name s k = resolve v k (skipn (S (length k)) k).
Proof.
  intros I Hi Hin. destruct (chain_total k) as [l Hl]. rewrite (find_norm s k l Hl).
  destruct (top_in_wf fid f k v (fi_wf _ _ I fid f Hi) Hin) as (_ & Hk & _).
  destruct (chain_cons _ _ Hk Hl) as (l' & -> & _). cbn [find_first].
  now rewrite (fi_complete _ _ I fid f k v Hi Hin).
Qed.

Lemma find_below s rs fid f p v x :
  finv s rs -> In (fid, f) rs -> In (p, v) (range_top_level fid f) ->
  find_descriptor_by_name s (p ++ dotb :: x) = resolve v (p ++ dotb :: x) x.
Proof.
  intros I Hi Hin. destruct (chain_total (p ++ dotb :: x)) as [l Hl]. rewrite (find_norm s _ l Hl).
  destruct (top_in_wf fid f p v (fi_wf _ _ I fid f Hi) Hin) as (Hpk & Hp & _).
  pose proof (fi_complete _ _ I fid f p v Hi Hin) as Hg.
  apply (find_first_reach _ _ p v x Hp Hg (no_ext s rs p v I Hg Hpk) eq_refl (p ++ dotb :: x)); [|assumption].
  right. now exists x.
Qed.

Lemma find_complete s rs d :
  finv s rs -> declared rs d -> find_descriptor_by_name s (d_full d) = FFound d.
Proof.
  intros I (f & Hi & Hd). destruct d as [k fid n]. cbn [d_kind d_fid d_full] in *.
  pose proof (fi_wf _ _ I fid f Hi) as Hwf.
  destruct (wf_file_parts f Hwf) as (Hval & _ & Hmsgs & Hsvcs).
  unfold declared_by in Hd. rewrite !in_app_iff in Hd.
  destruct Hd as [Hd|[Hd|[Hd|Hd]]].
  - (* top-level enums and their values *)
    apply in_flat_map in Hd. destruct Hd as (e & He & Hd). destruct Hd as [Hd|Hd].
    + inversion Hd; subst k n.
      assert (Hin : In (fn_append (f_pkg f) (enum_name e), VEnum fid (fn_append (f_pkg f) (enum_name e))) (range_top_level fid f)).
      { apply top_entry_iff. left. now exists e. }
      rewrite (find_top s rs fid f _ _ I Hi Hin). cbn [resolve]. now rewrite name_eqb_refl.
    + apply in_map_iff in Hd. destruct Hd as (x & E & Hx). inversion E; subst k n.
      assert (Hin : In (fn_append (f_pkg f) x, VEnumVal fid (fn_append (f_pkg f) x)) (range_top_level fid f)).
      { apply top_entry_iff. right; left. now exists e, x. }
      rewrite (find_top s rs fid f _ _ I Hi Hin). cbn [resolve]. now rewrite name_eqb_refl.
  - (* top-level messages and everything nested in them *)
    apply in_flat_map in Hd. destruct Hd as (m & Hm & Hd).
    assert (Hin : In (fn_append (f_pkg f) (msg_name m), VMsg fid (fn_append (f_pkg f) (msg_name m)) m) (range_top_level fid f)).
    { apply top_entry_iff. right; right; left. now exists m. }
    destruct Hd as [Hd|Hd].
    + inversion Hd; subst k n.
      rewrite (find_top s rs fid f _ _ I Hi Hin). cbn [resolve]. now rewrite name_eqb_refl.
    + destruct (top_in_wf fid f _ _ Hwf Hin) as (_ & Hfull & _).
      destruct (find_in_msg_complete fid m _ k n (Hmsgs m Hm) Hfull Hd) as (x & Hx & En & Hf).
      rewrite En. rewrite (find_below s rs fid f _ _ x I Hi Hin). cbn [resolve].
      assert (E1 : name_eqb (fn_append (f_pkg f) (msg_name m)) (fn_append (f_pkg f) (msg_name m) ++ dotb :: x) = false).
      { apply name_eqb_neq. intros E. symmetry in E. now apply app_dot_neq in E. }
      rewrite E1, Hf. cbn [d_full]. rewrite <- En. now rewrite name_eqb_refl.
  - (* top-level extensions *)
    apply in_map_iff in Hd. destruct Hd as (x & E & Hx). inversion E; subst k n.
    assert (Hin : In (fn_append (f_pkg f) x, VExt fid (fn_append (f_pkg f) x)) (range_top_level fid f)).
    { apply top_entry_iff. right; right; right; left. now exists x. }
    rewrite (find_top s rs fid f _ _ I Hi Hin). cbn [resolve]. now rewrite name_eqb_refl.
  - (* services and methods *)
    apply in_flat_map in Hd. destruct Hd as (sv & Hs & Hd).
    assert (Hin : In (fn_append (f_pkg f) (svc_name sv), VSvc fid (fn_append (f_pkg f) (svc_name sv)) sv) (range_top_level fid f)).
    { apply top_entry_iff. right; right; right; right. now exists sv. }
    destruct Hd as [Hd|Hd].
    + inversion Hd; subst k n.
      rewrite (find_top s rs fid f _ _ I Hi Hin). cbn [resolve]. now rewrite name_eqb_refl.
    + apply in_map_iff in Hd. destruct Hd as (x & E & Hx). inversion E; subst k n.
      destruct (top_in_wf fid f _ _ Hwf Hin) as (_ & Hfull & _).
      pose proof (Hsvcs sv Hs) as Hws. unfold wf_svc in Hws. rewrite !andb_true_iff in Hws.
      destruct Hws as [[_ Hv] _]. rewrite forallb_forall in Hv.
      destruct (proj1 (valid_ident_spec x) (Hv x Hx)) as [Hx1 Hx2].
      rewrite (fn_append_cons _ x Hfull).
      rewrite (find_below s rs fid f _ _ x I Hi Hin). cbn [resolve].
      assert (E1 : name_eqb (fn_append (f_pkg f) (svc_name sv)) (fn_append (f_pkg f) (svc_name sv) ++ dotb :: x) = false).
      { apply name_eqb_neq. intros E'. symmetry in E'. now apply app_dot_neq in E'. }
      rewrite E1. rewrite pop_nodot by assumption. cbn [fst].
      apply mem_name_in in Hx. rewrite Hx. rewrite (fn_append_cons _ x Hfull). now rewrite name_eqb_refl.
Qed.

(* ---------------------------------------------------------------- history-level theorems *)
Theorem find_total ops nm : find_descriptor_by_name (fstate_after ops) nm <> FOutOfFuel.
Proof.
  unfold find_descriptor_by_name. destruct (chain_total nm) as [l ->].
  induction l as [|q l IH]; cbn [find_first]; [discriminate|].
  destruct (dget (fs_descs (fstate_after ops)) q) as [v|]; [|exact IH].
  destruct v; cbn [resolve]; repeat match goal with |- context [if ?b then _ else _] => destruct b end;
    try discriminate.
  destruct (find_in_msg fid full m _) as [d'|]; [destruct (name_eqb (d_full d') nm)|]; discriminate.
Qed.

Theorem find_by_name_sound_complete ops :
  forallb wf_fop ops = true ->
  let s := fstate_after ops in
  let rs := registered ops in
  (forall nm d, find_descriptor_by_name s nm = FFound d <-> (d_full d = nm /\ declared rs d)) /\
  (forall nm, find_descriptor_by_name s nm = FNotFound <-> ~ exists d, d_full d = nm /\ declared rs d).
Proof.
  intros Hops. cbv zeta. pose proof (finv_run ops Hops) as I. split.
  - intros nm d. split.
    + apply (find_sound _ _ nm d I).
    + intros [<- Hd]. now apply (find_complete _ _ d I).
  - intros nm. split.
    + intros H (d & <- & Hd). rewrite (find_complete _ _ d I Hd) in H. discriminate.
    + intros H. destruct (find_descriptor_by_name (fstate_after ops) nm) as [d| |] eqn:E.
      * exfalso. apply H. exists d. now apply (find_sound _ _ nm d I).
      * reflexivity.
      * exfalso. now apply (find_total ops nm).
Qed.

(* consequence: among the registered files every full name is declared at most once *)
Theorem declared_unique ops d d' :
  forallb wf_fop ops = true ->
  declared (registered ops) d -> declared (registered ops) d' -> d_full d = d_full d' -> d = d'.
Proof.
  intros Hops H1 H2 E. pose proof (finv_run ops Hops) as I.
  pose proof (find_complete _ _ d I H1) as F1. pose proof (find_complete _ _ d' I H2) as F2.
  rewrite E in F1. rewrite F1 in F2. now inversion F2.
Qed.
