(* Tier T for C36: the Gallina translation of internal/filedesc/desc_list.go (Gen/RangesGo.v,
   regenerated from /repo on every check by srcmodel_ranges) computes exactly the hand-written
   model Desc/DescRangesModel.v:

     go_enumRange_Start/End, go_fieldRange_Start/End  =  r_start, r_end EnumR / FieldR
     go_isValidFieldNumber                            =  valid_field_number
     go_EnumRanges_Has, go_FieldRanges_Has            =  has_loop        (never Panic, never Fuel)
     go_EnumRanges_CheckValid, go_FieldRanges_CheckValid = check_valid_loop (error site class = cverr)
     go_FieldRanges_CheckOverlap                      =  overlap_loop    (never Panic, never Fuel)

   on every slice shorter than 2^63 elements (every Go slice is) and every int32 number.
   Every loop is tied to the generated text by a shape lemma proved by reflexivity.
   lazyInit (sync.Once + sort.Slice) is not translated; its source text is pinned
   (lazyInit_pinned) and its result enters the theorems as "any permutation of List sorted
   by start" (section AnySort of DescRangesP.v). *)
From Coq Require Import List ZArith Bool Arith Lia Sorting.Sorted Sorting.Permutation SetoidList.
From Coq Require Import ZifyBool ZifyNat.
From Coq Require String.
From PB Require Import Base.GoInt Desc.GoPairs Gen.RangesGo Desc.DescRangesModel Desc.DescRangesP.
Import ListNotations.
Import String.StringSyntax.
Local Open Scope string_scope.
Open Scope Z_scope.

(* ---------- the part that is not translated: pinned source text of lazyInit ---------- *)
Lemma lazyInit_pinned :
  c_EnumRanges_lazyInit_src =
    "func (p *EnumRanges) lazyInit() *EnumRanges { p.once.Do(func() { p.sorted = append(p.sorted, p.List...) sort.Slice(p.sorted, func(i, j int) bool { return p.sorted[i][0] < p.sorted[j][0] }) }) return p }" /\
  c_FieldRanges_lazyInit_src =
    "func (p *FieldRanges) lazyInit() *FieldRanges { p.once.Do(func() { p.sorted = append(p.sorted, p.List...) sort.Slice(p.sorted, func(i, j int) bool { return p.sorted[i][0] < p.sorted[j][0] }) }) return p }".
Proof. split; reflexivity. Qed.

(* ---------- constants, accessors ---------- *)
Lemma ranges_constants_match_source : c_MinValidNumber = 1 /\ c_MaxValidNumber = 536870911.
Proof. split; reflexivity. Qed.

Lemma go_enumRange_Start_model r : go_enumRange_Start r = r_start r.
Proof. reflexivity. Qed.
Lemma go_enumRange_End_model r : go_enumRange_End r = r_end EnumR r.
Proof. reflexivity. Qed.
Lemma go_fieldRange_Start_model r : go_fieldRange_Start r = r_start r.
Proof. reflexivity. Qed.
(* r[1] - 1 in int32: wraps to MaxInt32 for r[1] = MinInt32 *)
Lemma go_fieldRange_End_model r : go_fieldRange_End r = r_end FieldR r.
Proof. reflexivity. Qed.
Lemma go_isValidFieldNumber_model n ms : go_isValidFieldNumber n ms = valid_field_number n ms.
Proof. reflexivity. Qed.

Definition go_start (k : rkind) : range -> Z :=
  match k with EnumR => go_enumRange_Start | FieldR => go_fieldRange_Start end.
Definition go_end (k : rkind) : range -> Z :=
  match k with EnumR => go_enumRange_End | FieldR => go_fieldRange_End end.
Lemma go_start_model k r : go_start k r = r_start r.
Proof. destruct k; reflexivity. Qed.
Lemma go_end_model k r : go_end k r = r_end k r.
Proof. destruct k; reflexivity. Qed.

(* ---------- small facts about the checked accesses ---------- *)
Definition max_len : Z := 9223372036854775807.

Lemma len_length {A} (l : list A) : len l = Z.of_nat (length l).
Proof. reflexivity. Qed.

Lemma wrap_i64_id x : -9223372036854775808 <= x <= 9223372036854775807 -> wrap_i64 x = x.
Proof. intros H. unfold wrap_i64. rewrite Z.mod_small; lia. Qed.

Lemma index_p_nth l i d : (i < length l)%nat -> index_p l (Z.of_nat i) = Val (nth i l d).
Proof.
  intros H. unfold index_p. rewrite len_length.
  replace ((Z.of_nat i <? 0) || (Z.of_nat (length l) <=? Z.of_nat i)) with false by lia.
  rewrite Nat2Z.id. f_equal. apply nth_indep. exact H.
Qed.

Lemma slice_hi_p_firstn l i : (i <= length l)%nat -> slice_hi_p l (Z.of_nat i) = Val (firstn i l).
Proof.
  intros H. unfold slice_hi_p. rewrite len_length.
  replace ((Z.of_nat i <? 0) || (Z.of_nat (length l) <? Z.of_nat i)) with false by lia.
  now rewrite Nat2Z.id.
Qed.

Lemma slice_lo_p_skipn l i : (i <= length l)%nat -> slice_lo_p l (Z.of_nat i) = Val (skipn i l).
Proof.
  intros H. unfold slice_lo_p. rewrite len_length.
  replace ((Z.of_nat i <? 0) || (Z.of_nat (length l) <? Z.of_nat i)) with false by lia.
  now rewrite Nat2Z.id.
Qed.

Lemma quot2_div2 n : Z.quot (Z.of_nat n) 2 = Z.of_nat (Nat.div2 n).
Proof.
  rewrite Z.quot_div_nonneg by lia. rewrite Nat.div2_div, Nat2Z.inj_div. reflexivity.
Qed.

(* ====================== Has ====================== *)

(* the loop of Has as the translator emits it, with the two accessors abstracted *)
Definition has_fix (k : rkind) (v_n : Z) :=
  fix loop1 (lfuel : nat) (v_ls : list (Z * Z)) {struct lfuel} : outcome bool :=
    match lfuel with
    | O => Fuel
    | S lfuel' =>
      if (0 <? (len v_ls)) then
        let v_i := (wrap_i64 (Z.quot (len v_ls) 2)) in
        bind (index_p v_ls v_i) (fun t1 =>
        let v_r := t1 in
        if (v_n <? (go_start k v_r)) then
          bind (slice_hi_p v_ls v_i) (fun t2 =>
          let v_ls := t2 in
          loop1 lfuel' v_ls)
        else
          if ((go_end k v_r) <? v_n) then
            bind (slice_lo_p v_ls (wrap_i64 (v_i + 1))) (fun t3 =>
            let v_ls := t3 in
            loop1 lfuel' v_ls)
          else
            Val (true))
      else
        Val (false)
    end.

(* shape lemmas: the generated text IS this loop (fails when the loop in desc_list.go changes) *)
Lemma go_EnumRanges_Has_shape s n : go_EnumRanges_Has s n = has_fix EnumR n (S (length s)) s.
Proof. reflexivity. Qed.
Lemma go_FieldRanges_Has_shape s n : go_FieldRanges_Has s n = has_fix FieldR n (S (length s)) s.
Proof. reflexivity. Qed.

Definition lift_opt (o : option bool) : outcome bool :=
  match o with Some b => Val b | None => Fuel end.

Lemma has_loop_step f k a ls n :
  has_loop (S f) k (a :: ls) n =
  match nth_error (a :: ls) (Nat.div2 (length (a :: ls))) with
  | None => None
  | Some r =>
    if n <? r_start r then has_loop f k (firstn (Nat.div2 (length (a :: ls))) (a :: ls)) n
    else if r_end k r <? n then has_loop f k (skipn (S (Nat.div2 (length (a :: ls)))) (a :: ls)) n
    else Some true
  end.
Proof. reflexivity. Qed.

Lemma has_fix_model k n : forall f ls, (length ls <= f)%nat -> len ls <= max_len ->
  has_fix k n (S f) ls = lift_opt (has_loop f k ls n).
Proof.
  unfold max_len.
  induction f as [|f IH]; intros [|a ls] Hl Hm; try reflexivity.
  - cbn in Hl. lia.
  - pose proof (div2_lt_length a ls) as Hi.
    rewrite has_loop_step. unfold range.
    set (L := a :: ls) in *.
    assert (HL : (0 < length L)%nat) by (subst L; cbn; lia).
    rewrite len_length in Hm.
    change (has_fix k n (S (S f)) L) with
      (if (0 <? (len L)) then
        let v_i := (wrap_i64 (Z.quot (len L) 2)) in
        bind (index_p L v_i) (fun t1 =>
        if (n <? (go_start k t1)) then
          bind (slice_hi_p L v_i) (fun t2 => has_fix k n (S f) t2)
        else
          if ((go_end k t1) <? n) then
            bind (slice_lo_p L (wrap_i64 (v_i + 1))) (fun t3 => has_fix k n (S f) t3)
          else Val true)
       else Val false).
    rewrite len_length. replace (0 <? Z.of_nat (length L)) with true by lia.
    cbv zeta. rewrite quot2_div2.
    set (i := Nat.div2 (length L)) in *.
    rewrite (wrap_i64_id (Z.of_nat i)) by lia.
    rewrite (wrap_i64_id (Z.of_nat i + 1)) by lia.
    replace (Z.of_nat i + 1) with (Z.of_nat (S i)) by lia.
    rewrite (index_p_nth L i (0, 0)) by lia. cbn [bind].
    rewrite go_start_model, go_end_model.
    assert (E : nth_error L i = Some (nth i L (0, 0))) by (apply nth_error_nth'; lia).
    rewrite E.
    destruct (n <? r_start (nth i L (0, 0))).
    + rewrite slice_hi_p_firstn by lia. cbn [bind]. apply IH.
      * rewrite firstn_length. lia.
      * rewrite len_length, firstn_length. lia.
    + destruct (r_end k (nth i L (0, 0)) <? n); [|reflexivity].
      rewrite slice_lo_p_skipn by lia. cbn [bind]. apply IH.
      * rewrite skipn_length. lia.
      * rewrite len_length, skipn_length. lia.
Qed.

(* Has of the translated source = the model's binary search; neither Panic nor Fuel *)
Theorem go_Has_model k s n : len s <= max_len ->
  exists b, has_loop (length s) k s n = Some b /\
            match k with EnumR => go_EnumRanges_Has s n | FieldR => go_FieldRanges_Has s n end = Val b.
Proof.
  intros Hm.
  assert (E : match k with EnumR => go_EnumRanges_Has s n | FieldR => go_FieldRanges_Has s n end
              = lift_opt (has_loop (length s) k s n)).
  { destruct k; [rewrite go_FieldRanges_Has_shape|rewrite go_EnumRanges_Has_shape];
      apply has_fix_model; auto. }
  rewrite E. pose proof (has_loop_total k n (length s) s (le_n _)) as T.
  destruct (has_loop (length s) k s n) as [b|]; [|contradiction]. exists b. auto.
Qed.

Lemma go_EnumRanges_Has_model s n : len s <= max_len ->
  exists b, has_loop (length s) EnumR s n = Some b /\ go_EnumRanges_Has s n = Val b.
Proof. exact (go_Has_model EnumR s n). Qed.
Lemma go_FieldRanges_Has_model s n : len s <= max_len ->
  exists b, has_loop (length s) FieldR s n = Some b /\ go_FieldRanges_Has s n = Val b.
Proof. exact (go_Has_model FieldR s n). Qed.

(* ====================== CheckValid ====================== *)

(* the error site classes of CheckValid / CheckOverlap as the translated source names them *)
Definition cverr_go (e : cverr) : go_err :=
  match e with
  | CVOk => ENil
  | CVBadNumber => E_err_invalid_field_number
  | CVBadRange => E_err_invalid_range
  | CVOverlap => E_err_overlapping_ranges
  end.

Lemma cverr_go_inj a b : cverr_go a = cverr_go b -> a = b.
Proof. destruct a, b; cbn; intros H; try reflexivity; discriminate H. Qed.

Definition enum_cv_fix :=
  fix loop1 (rng1 : list (Z * Z)) (rix1 : Z) (v_rp : (Z * Z)) {struct rng1} : go_err :=
    match rng1 with
    | [] =>
      ENil
    | rhd1 :: rng1' =>
      let v_i := rix1 in
      let v_r := rhd1 in
      let v_r'1 := v_r in
      if (negb ((go_enumRange_Start v_r'1) <=? (go_enumRange_End v_r'1))) then
        E_err_invalid_range
      else
        if ((negb ((go_enumRange_End v_rp) <? (go_enumRange_Start v_r'1))) && (0 <? v_i)) then
          E_err_overlapping_ranges
        else
          let v_rp := v_r'1 in
          loop1 rng1' (rix1 + 1) v_rp
    end.

Lemma go_EnumRanges_CheckValid_shape s : go_EnumRanges_CheckValid s = enum_cv_fix s 0 (0, 0).
Proof. reflexivity. Qed.

Lemma enum_cv_fix_model ms : forall s rix rp, 0 <= rix ->
  enum_cv_fix s rix rp = cverr_go (check_valid_loop EnumR ms (rix =? 0) rp s).
Proof.
  induction s as [|r s IH]; intros rix rp Hr; [reflexivity|].
  cbn [enum_cv_fix check_valid_loop number_checks negb]. cbv zeta.
  change go_enumRange_Start with r_start. change go_enumRange_End with (r_end EnumR).
  destruct (r_start r <=? r_end EnumR r); cbn [negb]; [|reflexivity].
  replace (0 <? rix) with (negb (rix =? 0)) by lia.
  destruct (negb (r_end EnumR rp <? r_start r) && negb (rix =? 0)); [reflexivity|].
  rewrite IH by lia. replace (rix + 1 =? 0) with false by lia. reflexivity.
Qed.

Definition field_cv_fix (v_isMessageSet : bool) :=
  fix loop1 (rng1 : list (Z * Z)) (rix1 : Z) (v_rp : (Z * Z)) {struct rng1} : go_err :=
    match rng1 with
    | [] =>
      ENil
    | rhd1 :: rng1' =>
      let v_i := rix1 in
      let v_r := rhd1 in
      let v_r'1 := v_r in
      if (negb (go_isValidFieldNumber (go_fieldRange_Start v_r'1) v_isMessageSet)) then
        E_err_invalid_field_number
      else
        if (negb (go_isValidFieldNumber (go_fieldRange_End v_r'1) v_isMessageSet)) then
          E_err_invalid_field_number
        else
          if (negb ((go_fieldRange_Start v_r'1) <=? (go_fieldRange_End v_r'1))) then
            E_err_invalid_range
          else
            if ((negb ((go_fieldRange_End v_rp) <? (go_fieldRange_Start v_r'1))) && (0 <? v_i)) then
              E_err_overlapping_ranges
            else
              let v_rp := v_r'1 in
              loop1 rng1' (rix1 + 1) v_rp
    end.

Lemma go_FieldRanges_CheckValid_shape s ms : go_FieldRanges_CheckValid s ms = field_cv_fix ms s 0 (0, 0).
Proof. reflexivity. Qed.

Lemma field_cv_fix_model ms : forall s rix rp, 0 <= rix ->
  field_cv_fix ms s rix rp = cverr_go (check_valid_loop FieldR ms (rix =? 0) rp s).
Proof.
  induction s as [|r s IH]; intros rix rp Hr; [reflexivity|].
  cbn [field_cv_fix check_valid_loop number_checks]. cbv zeta.
  change go_isValidFieldNumber with valid_field_number.
  change go_fieldRange_Start with r_start. change go_fieldRange_End with (r_end FieldR).
  destruct (valid_field_number (r_start r) ms); cbn [negb andb]; [|reflexivity].
  destruct (valid_field_number (r_end FieldR r) ms); cbn [negb andb]; [|reflexivity].
  destruct (r_start r <=? r_end FieldR r); cbn [negb]; [|reflexivity].
  replace (0 <? rix) with (negb (rix =? 0)) by lia.
  destruct (negb (r_end FieldR rp <? r_start r) && negb (rix =? 0)); [reflexivity|].
  rewrite IH by lia. replace (rix + 1 =? 0) with false by lia. reflexivity.
Qed.

(* CheckValid of the translated source = the model's loop, error site for error site
   (EnumRanges.CheckValid has no isMessageSet parameter: the model ignores ms for EnumR) *)
Theorem go_EnumRanges_CheckValid_model ms s :
  go_EnumRanges_CheckValid s = cverr_go (check_valid_loop EnumR ms true (0, 0) s).
Proof. rewrite go_EnumRanges_CheckValid_shape. now rewrite (enum_cv_fix_model ms) by lia. Qed.

Theorem go_FieldRanges_CheckValid_model ms s :
  go_FieldRanges_CheckValid s ms = cverr_go (check_valid_loop FieldR ms true (0, 0) s).
Proof. rewrite go_FieldRanges_CheckValid_shape. now rewrite field_cv_fix_model by lia. Qed.

Lemma go_CheckValid_nil_iff k ms s :
  match k with EnumR => go_EnumRanges_CheckValid s | FieldR => go_FieldRanges_CheckValid s ms end = ENil <->
  check_valid_loop k ms true (0, 0) s = CVOk.
Proof.
  destruct k; [rewrite go_FieldRanges_CheckValid_model|rewrite (go_EnumRanges_CheckValid_model ms)];
    (split; [intros H; now apply (cverr_go_inj _ CVOk)|intros ->; reflexivity]).
Qed.

(* ====================== CheckOverlap ====================== *)

Definition overlap_fix (v_rps v_rqs : list (Z * Z)) :=
  fix loop1 (lfuel : nat) (v_pi : Z) (v_qi : Z) {struct lfuel} : outcome go_err :=
    match lfuel with
    | O => Fuel
    | S lfuel' =>
      if ((v_pi <? (len v_rps)) && (v_qi <? (len v_rqs))) then
        bind (index_p v_rps v_pi) (fun t1 =>
        let v_rp := t1 in
        bind (index_p v_rqs v_qi) (fun t2 =>
        let v_rq := t2 in
        if (negb (((go_fieldRange_End v_rp) <? (go_fieldRange_Start v_rq)) || ((go_fieldRange_End v_rq) <? (go_fieldRange_Start v_rp)))) then
          Val E_err_overlapping_ranges
        else
          if ((go_fieldRange_Start v_rp) <? (go_fieldRange_Start v_rq)) then
            let v_pi := (wrap_i64 (v_pi + 1)) in
            loop1 lfuel' v_pi v_qi
          else
            let v_qi := (wrap_i64 (v_qi + 1)) in
            loop1 lfuel' v_pi v_qi))
      else
        Val (ENil)
    end.

Lemma go_FieldRanges_CheckOverlap_shape p q :
  go_FieldRanges_CheckOverlap p q = overlap_fix p q (S (length p + length q)) 0 0.
Proof. reflexivity. Qed.

Definition overlap_go (b : bool) : go_err := if b then E_err_overlapping_ranges else ENil.

Lemma skipn_nth_cons {A} (l : list A) i d : (i < length l)%nat -> skipn i l = nth i l d :: skipn (S i) l.
Proof.
  revert i. induction l as [|a l IH]; intros [|i] H; cbn in *; try lia; [reflexivity|].
  apply IH. lia.
Qed.

Lemma overlap_fix_model ps qs : len ps + len qs <= max_len ->
  forall f pi qi, (pi <= length ps)%nat -> (qi <= length qs)%nat ->
  ((length ps - pi) + (length qs - qi) < f)%nat ->
  overlap_fix ps qs f (Z.of_nat pi) (Z.of_nat qi) =
  Val (overlap_go (overlap_loop FieldR (skipn pi ps) (skipn qi qs))).
Proof.
  unfold max_len. rewrite !len_length. intros Hm.
  induction f as [|f IH]; intros pi qi Hp Hq Hf; [lia|].
  cbn [overlap_fix]. rewrite !len_length.
  destruct (Nat.eq_dec pi (length ps)) as [->|Np].
  { replace (Z.of_nat (length ps) <? Z.of_nat (length ps)) with false by lia. cbn [andb].
    rewrite skipn_all. destruct (skipn qi qs); reflexivity. }
  destruct (Nat.eq_dec qi (length qs)) as [->|Nq].
  { replace (Z.of_nat (length qs) <? Z.of_nat (length qs)) with false by lia. rewrite andb_false_r.
    rewrite skipn_all, overlap_loop_nil_r. reflexivity. }
  replace (Z.of_nat pi <? Z.of_nat (length ps)) with true by lia.
  replace (Z.of_nat qi <? Z.of_nat (length qs)) with true by lia. cbn [andb].
  rewrite (index_p_nth ps pi (0, 0)), (index_p_nth qs qi (0, 0)) by lia. cbn [bind]. cbv zeta.
  pose proof (skipn_nth_cons ps pi (0, 0) ltac:(lia)) as Ep.
  pose proof (skipn_nth_cons qs qi (0, 0) ltac:(lia)) as Eq.
  rewrite Ep, Eq, overlap_loop_cons.
  change go_fieldRange_Start with r_start. change go_fieldRange_End with (r_end FieldR).
  set (rp := nth pi ps (0, 0)) in *. set (rq := nth qi qs (0, 0)) in *.
  change (negb ((r_end FieldR rp <? r_start rq) || (r_end FieldR rq <? r_start rp))) with (intersects FieldR rp rq).
  destruct (intersects FieldR rp rq); [reflexivity|].
  rewrite !wrap_i64_id by lia.
  destruct (r_start rp <? r_start rq).
  - replace (Z.of_nat pi + 1) with (Z.of_nat (S pi)) by lia.
    rewrite IH by lia. rewrite Eq. reflexivity.
  - replace (Z.of_nat qi + 1) with (Z.of_nat (S qi)) by lia.
    rewrite IH by lia. rewrite Ep. reflexivity.
Qed.

(* CheckOverlap of the translated source = the model's sweep; neither Panic nor Fuel *)
Theorem go_FieldRanges_CheckOverlap_model p q : len p + len q <= max_len ->
  go_FieldRanges_CheckOverlap p q = Val (overlap_go (overlap_loop FieldR p q)).
Proof.
  intros Hm. rewrite go_FieldRanges_CheckOverlap_shape.
  apply (overlap_fix_model p q Hm (S (length p + length q)) 0%nat 0%nat); lia.
Qed.

(* ====================== property-level statements about the translated source ====================== *)

Section GoAnySort.
  (* l = p.List; s = any result lazyInit can leave in p.sorted *)
  Variable k : rkind.
  Variables l s : list range.
  Hypothesis s_perm : Permutation s l.
  Hypothesis s_sorted : StronglySorted start_le s.
  Hypothesis s_len : len s <= max_len.

  Let go_has := match k with EnumR => go_EnumRanges_Has | FieldR => go_FieldRanges_Has end.
  Let go_cv ms := match k with EnumR => go_EnumRanges_CheckValid s | FieldR => go_FieldRanges_CheckValid s ms end.

  (* total, sound for every list; complete when CheckValid returns nil *)
  Lemma go_has_iff_member ms n :
    (go_has s n = Val true \/ go_has s n = Val false) /\
    (go_has s n = Val true -> exists r, In r l /\ contains k r n) /\
    (go_cv ms = ENil -> (go_has s n = Val true <-> exists r, In r l /\ contains k r n)).
  Proof.
    subst go_has go_cv. cbv beta.
    destruct (go_Has_model k s n s_len) as (b & Hb & Hg).
    assert (Eq : forall b', match k with EnumR => go_EnumRanges_Has | FieldR => go_FieldRanges_Has end s n = Val b' <->
                            has_loop (length s) k s n = Some b').
    { intros b'. replace (match k with EnumR => go_EnumRanges_Has | FieldR => go_FieldRanges_Has end s n)
        with (Val b) by (destruct k; symmetry; exact Hg).
      rewrite Hb. split; intros H; inversion H; reflexivity. }
    split; [|split].
    - destruct b; [left|right]; apply Eq; exact Hb.
    - intros H. apply Eq in H. eapply any_has_sound; eauto.
    - intros Hcv. apply go_CheckValid_nil_iff in Hcv. rewrite Eq.
      eapply any_has_iff_member; eauto.
  Qed.

  Lemma go_check_valid_spec ms :
    go_cv ms = ENil <-> Forall (range_ok k ms) l /\ ForallOrdPairs (disjoint k) l.
  Proof.
    subst go_cv. cbv beta. rewrite go_CheckValid_nil_iff. apply any_check_valid_spec; auto.
  Qed.
End GoAnySort.

(* CheckOverlap of the translated source on any two sorted copies that pass the translated CheckValid *)
Lemma go_check_overlap_spec p q ps qs msp msq :
  Permutation ps p -> Permutation qs q -> len ps + len qs <= max_len ->
  go_FieldRanges_CheckValid ps msp = ENil -> go_FieldRanges_CheckValid qs msq = ENil ->
  (go_FieldRanges_CheckOverlap ps qs = Val ENil \/
   go_FieldRanges_CheckOverlap ps qs = Val E_err_overlapping_ranges) /\
  (go_FieldRanges_CheckOverlap ps qs = Val E_err_overlapping_ranges <->
   exists rp rq, In rp p /\ In rq q /\ intersects FieldR rp rq = true).
Proof.
  intros Pp Pq Hm Vp Vq.
  apply (go_CheckValid_nil_iff FieldR) in Vp. apply (go_CheckValid_nil_iff FieldR) in Vq.
  destruct (any_valid_strong FieldR ps msp Vp) as (Sp & Fp).
  destruct (any_valid_strong FieldR qs msq Vq) as (Sq & Fq).
  rewrite (go_FieldRanges_CheckOverlap_model ps qs Hm).
  pose proof (overlap_loop_spec FieldR ps qs Fp Fq Sp Sq) as Sp'.
  split.
  - destruct (overlap_loop FieldR ps qs); [right|left]; reflexivity.
  - split.
    + intros H. assert (E : overlap_loop FieldR ps qs = true)
        by (destruct (overlap_loop FieldR ps qs); [reflexivity|discriminate H]).
      apply Sp' in E. destruct E as (rp & rq & Hp & Hq & Hi). exists rp, rq.
      repeat split; auto; eapply Permutation_in; eauto.
    + intros (rp & rq & Hp & Hq & Hi).
      assert (E : overlap_loop FieldR ps qs = true).
      { apply Sp'. exists rp, rq. repeat split; auto; eapply Permutation_in; try eassumption; now symmetry. }
      rewrite E. reflexivity.
Qed.
