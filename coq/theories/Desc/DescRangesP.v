(* Proofs about Desc/DescRangesModel.v (FieldRanges / EnumRanges of desc_list.go). *)
From Coq Require Import List ZArith Bool Arith Lia Sorting.Sorted Sorting.Permutation SetoidList.
From Coq Require Import ZifyBool ZifyNat.
From PB Require Import Desc.DescRangesModel.
Import ListNotations.
Open Scope Z_scope.

(* ---------- vocabulary of the specifications ---------- *)
Definition contains (k : rkind) (r : range) (n : Z) : Prop := r_start r <= n <= r_end k r.
Definition rvalid (k : rkind) (r : range) : Prop := r_start r <= r_end k r.
Definition before (k : rkind) (a b : range) : Prop := r_end k a < r_start b.
Definition start_le (a b : range) : Prop := r_start a <= r_start b.
Definition disjoint (k : rkind) (a b : range) : Prop := intersects k a b = false.
Definition range_ok (k : rkind) (ms : bool) (r : range) : Prop :=
  number_checks k ms r = true /\ rvalid k r.

Lemma intersects_true_iff k a b :
  intersects k a b = true <-> exists n, contains k a n /\ contains k b n \/ (~ rvalid k a \/ ~ rvalid k b) /\ ~ (before k a b \/ before k b a).
Proof.
  unfold intersects, contains, rvalid, before. split.
  - intros H. exists (Z.max (r_start a) (r_start b)). lia.
  - intros [n H]. lia.
Qed.

Lemma intersects_valid_iff k a b : rvalid k a -> rvalid k b ->
  (intersects k a b = true <-> exists n, contains k a n /\ contains k b n).
Proof.
  unfold intersects, contains, rvalid. intros Ha Hb. split.
  - intros H. exists (Z.max (r_start a) (r_start b)). lia.
  - intros [n H]. lia.
Qed.

Lemma disjoint_sym k a b : disjoint k a b -> disjoint k b a.
Proof. unfold disjoint, intersects. lia. Qed.

Lemma before_disjoint k a b : before k a b -> disjoint k a b.
Proof. unfold before, disjoint, intersects. lia. Qed.

(* the half-open reading of a field range when r[1]-1 does not wrap *)
Lemma field_end_nowrap r : -2147483648 < snd r <= 2147483647 -> r_end FieldR r = snd r - 1.
Proof. unfold r_end, wrap32. intros H. lia. Qed.

Lemma field_contains_halfopen r n : -2147483648 < snd r <= 2147483647 ->
  (contains FieldR r n <-> fst r <= n < snd r).
Proof. intros H. unfold contains, r_start. rewrite field_end_nowrap by exact H. lia. Qed.

(* ---------- list helpers ---------- *)
Lemma nth_error_split_firstn_skipn {A} (ls : list A) i r :
  nth_error ls i = Some r -> ls = firstn i ls ++ r :: skipn (S i) ls.
Proof.
  revert i. induction ls as [|a ls IH]; intros [|i] H; cbn in *; try discriminate.
  - now inversion H.
  - f_equal. now apply IH.
Qed.

Lemma StronglySorted_app_inv {A} (R : A -> A -> Prop) l1 x l2 :
  StronglySorted R (l1 ++ x :: l2) ->
  StronglySorted R l1 /\ StronglySorted R l2 /\ Forall (fun a => R a x) l1 /\ Forall (R x) l2.
Proof.
  induction l1 as [|a l1 IH]; cbn; intros H.
  - inversion H; subst. repeat split; auto. constructor.
  - inversion H; subst. destruct (IH H2) as (S1 & S2 & F1 & F2).
    repeat split; auto.
    + constructor; auto. rewrite Forall_app in H3. tauto.
    + constructor; auto. rewrite Forall_app in H3. destruct H3 as [_ H3]. now inversion H3.
Qed.

Lemma ForallOrdPairs_perm {A} (R : A -> A -> Prop) (Rsym : forall a b, R a b -> R b a) l l' :
  Permutation l l' -> ForallOrdPairs R l -> ForallOrdPairs R l'.
Proof.
  induction 1 as [|x l l' HP IH|x y l|l l' l'' HP1 IH1 HP2 IH2]; intros HF.
  - exact HF.
  - inversion HF as [|? ? Hx Hl]; subst. constructor.
    + eapply Permutation_Forall; eauto.
    + auto.
  - inversion HF as [|? ? Hy Hl]; subst. inversion Hl as [|? ? Hx Hl']; subst.
    inversion Hy as [|? ? Hyx Hyl]; subst.
    constructor; [constructor; auto|constructor; auto].
  - auto.
Qed.

Lemma StronglySorted_FOP {A} (R : A -> A -> Prop) l : StronglySorted R l -> ForallOrdPairs R l.
Proof. induction 1; constructor; auto. Qed.

Lemma FOP_StronglySorted {A} (R : A -> A -> Prop) l : ForallOrdPairs R l -> StronglySorted R l.
Proof. induction 1; constructor; auto. Qed.

(* ---------- the modelled sort ---------- *)
Lemma insert_range_perm r s : Permutation (r :: s) (insert_range r s).
Proof.
  induction s as [|x s IH]; cbn; [reflexivity|].
  destruct (fst r <=? fst x); [reflexivity|].
  rewrite perm_swap. now constructor.
Qed.

Lemma sort_ranges_perm l : Permutation (sort_ranges l) l.
Proof.
  induction l as [|r l IH]; cbn; [constructor|].
  rewrite <- insert_range_perm. now constructor.
Qed.

Lemma insert_range_sorted r s : StronglySorted start_le s -> StronglySorted start_le (insert_range r s).
Proof.
  induction 1 as [|x s Hs IH Hx]; cbn.
  - constructor; constructor.
  - destruct (fst r <=? fst x) eqn:E.
    + constructor; [constructor; auto|].
      constructor; [unfold start_le, r_start; lia|].
      eapply Forall_impl; [|exact Hx]. unfold start_le, r_start. intros; lia.
    + constructor; auto.
      eapply Permutation_Forall; [apply insert_range_perm|].
      constructor; auto. unfold start_le, r_start; lia.
Qed.

Lemma sort_ranges_sorted l : StronglySorted start_le (sort_ranges l).
Proof.
  induction l; cbn; [constructor|]. now apply insert_range_sorted.
Qed.

Lemma sort_ranges_length l : length (sort_ranges l) = length l.
Proof. apply Permutation_length, sort_ranges_perm. Qed.

(* ---------- Has ---------- *)
Lemma div2_lt_length {A} (a : A) ls : (Nat.div2 (length (a :: ls)) < length (a :: ls))%nat.
Proof. apply Nat.lt_div2. cbn. lia. Qed.

Lemma has_loop_total k n : forall fuel ls, (length ls <= fuel)%nat -> has_loop fuel k ls n <> None.
Proof.
  induction fuel as [|f IH]; intros [|a ls] Hl; cbn [has_loop]; try discriminate.
  - cbn in Hl. lia.
  - pose proof (div2_lt_length a ls) as Hi.
    destruct (nth_error (a :: ls) (Nat.div2 (length (a :: ls)))) as [r|] eqn:E.
    2:{ apply nth_error_None in E. lia. }
    destruct (n <? r_start r).
    + apply IH. rewrite firstn_length. cbn [length] in *. lia.
    + destruct (r_end k r <? n); [|discriminate].
      apply IH. rewrite skipn_length. cbn [length] in *. lia.
Qed.

Lemma has_loop_sound k n : forall fuel ls, has_loop fuel k ls n = Some true ->
  exists r, In r ls /\ contains k r n.
Proof.
  induction fuel as [|f IH]; intros [|a ls] H; cbn [has_loop] in H; try discriminate.
  destruct (nth_error (a :: ls) (Nat.div2 (length (a :: ls)))) as [r|] eqn:E; [|discriminate].
  pose proof (nth_error_split_firstn_skipn _ _ _ E) as Hsplit.
  destruct (n <? r_start r) eqn:E1.
  - destruct (IH _ H) as (r' & Hin & Hc). exists r'. split; auto.
    rewrite Hsplit. apply in_or_app. now left.
  - destruct (r_end k r <? n) eqn:E2.
    + destruct (IH _ H) as (r' & Hin & Hc). exists r'. split; auto.
      rewrite Hsplit. apply in_or_app. right. now right.
    + exists r. split; [eapply nth_error_In; eauto|]. unfold contains. lia.
Qed.

Lemma has_loop_complete k n : forall fuel ls, (length ls <= fuel)%nat ->
  StronglySorted (before k) ls -> Forall (rvalid k) ls ->
  (exists r, In r ls /\ contains k r n) -> has_loop fuel k ls n = Some true.
Proof.
  induction fuel as [|f IH]; intros [|a ls] Hl Hs Hv (r0 & Hin & Hc); cbn [has_loop].
  - destruct Hin.
  - cbn in Hl; lia.
  - destruct Hin.
  - pose proof (div2_lt_length a ls) as Hi.
    destruct (nth_error (a :: ls) (Nat.div2 (length (a :: ls)))) as [r|] eqn:E.
    2:{ apply nth_error_None in E. lia. }
    pose proof (nth_error_split_firstn_skipn _ _ _ E) as Hsplit.
    set (i := Nat.div2 (length (a :: ls))) in *.
    rewrite Hsplit in Hs, Hv, Hin.
    destruct (StronglySorted_app_inv _ _ _ _ Hs) as (S1 & S2 & F1 & F2).
    rewrite Forall_app in Hv. destruct Hv as [V1 V2]. inversion V2 as [|? ? Vr V3]; subst.
    apply in_app_or in Hin.
    unfold contains, before, rvalid in *.
    destruct (n <? r_start r) eqn:E1.
    + apply IH; auto.
      * rewrite firstn_length. cbn [length] in *. lia.
      * exists r0. split; [|exact Hc].
        destruct Hin as [Hin|[Hin|Hin]]; auto.
        -- subst r0. lia.
        -- rewrite Forall_forall in F2. specialize (F2 _ Hin). lia.
    + destruct (r_end k r <? n) eqn:E2; [|reflexivity].
      apply IH; auto.
      * rewrite skipn_length. cbn [length] in *. lia.
      * exists r0. split; [|exact Hc].
        destruct Hin as [Hin|[Hin|Hin]]; auto.
        -- rewrite Forall_forall in F1. specialize (F1 _ Hin). rewrite Forall_forall in V1.
           specialize (V1 _ Hin). lia.
        -- subst r0. lia.
Qed.

(* ---------- CheckValid ---------- *)
Lemma check_valid_loop_ok k ms : forall s first rp,
  check_valid_loop k ms first rp s = CVOk <->
  Forall (range_ok k ms) s /\ Sorted (before k) s /\ (first = false -> HdRel (before k) rp s).
Proof.
  induction s as [|r s IH]; intros first rp; cbn [check_valid_loop].
  - split; [intros _; repeat split; constructor|reflexivity].
  - unfold range_ok, rvalid, before in *.
    destruct (number_checks k ms r) eqn:En; cbn [negb].
    2:{ split; [discriminate|]. intros (F & _). inversion F; subst. destruct H1. congruence. }
    destruct (r_start r <=? r_end k r) eqn:Ev; cbn [negb].
    2:{ split; [discriminate|]. intros (F & _). inversion F; subst. destruct H1. lia. }
    destruct (r_end k rp <? r_start r) eqn:Eo; cbn [negb andb].
    + rewrite IH. split.
      * intros (F & S & H). repeat split.
        -- constructor; auto. split; auto. lia.
        -- constructor; auto.
        -- intros _. constructor. lia.
      * intros (F & S & H). inversion F; subst. inversion S; subst. repeat split; auto.
    + destruct first; cbn [negb].
      * rewrite IH. split.
        -- intros (F & S & H). repeat split.
           ++ constructor; auto. split; auto. lia.
           ++ constructor; auto.
           ++ discriminate.
        -- intros (F & S & H). inversion F; subst. inversion S; subst. repeat split; auto.
      * split; [discriminate|]. intros (_ & _ & H). specialize (H eq_refl). inversion H; subst. lia.
Qed.

Lemma Sorted_before_strong k s : Forall (rvalid k) s -> Sorted (before k) s -> StronglySorted (before k) s.
Proof.
  induction s as [|a s IH]; intros V S; [constructor|].
  inversion V; subst. inversion S; subst. specialize (IH H2 H3).
  constructor; auto.
  destruct s as [|b s]; [constructor|].
  inversion H4; subst. inversion IH; subst. inversion H2; subst.
  constructor; auto.
  eapply Forall_impl; [|exact H7]. unfold before, rvalid in *. intros c Hc. lia.
Qed.

Section AnySort.
  (* any result of sort.Slice: a permutation of List that is sorted by start *)
  Variable k : rkind.
  Variables l s : list range.
  Hypothesis s_perm : Permutation s l.
  Hypothesis s_sorted : StronglySorted start_le s.

  Lemma any_check_valid_spec ms :
    check_valid_loop k ms true (0, 0) s = CVOk <->
    Forall (range_ok k ms) l /\ ForallOrdPairs (disjoint k) l.
  Proof.
    rewrite check_valid_loop_ok. split.
    - intros (F & S & _). split.
      + eapply Permutation_Forall; eauto.
      + eapply ForallOrdPairs_perm; [apply disjoint_sym|exact s_perm|].
        apply StronglySorted_FOP.
        assert (V : Forall (rvalid k) s) by (eapply Forall_impl; [|exact F]; unfold range_ok; tauto).
        pose proof (Sorted_before_strong k s V S) as SS.
        clear - SS. induction SS; constructor; auto.
        eapply Forall_impl; [|exact H]. intros; now apply before_disjoint.
    - intros (F & D).
      assert (F' : Forall (range_ok k ms) s) by (eapply Permutation_Forall; [symmetry; exact s_perm|exact F]).
      assert (D' : ForallOrdPairs (disjoint k) s)
        by (eapply ForallOrdPairs_perm; [apply disjoint_sym|symmetry; exact s_perm|exact D]).
      repeat split; auto; [|discriminate].
      apply StronglySorted_Sorted.
      clear - F' D' s_sorted. induction s as [|a t IH]; [constructor|].
      inversion F' as [|? ? Fa Ft]; subst. inversion D' as [|? ? Da Dt]; subst.
      inversion s_sorted as [|? ? St Sa]; subst.
      constructor; auto.
      rewrite Forall_forall in *. intros b Hb.
      specialize (Ft _ Hb). specialize (Da _ Hb). specialize (Sa _ Hb).
      unfold disjoint, intersects, before, start_le, range_ok, rvalid in *. lia.
  Qed.

  Lemma any_valid_strong ms : check_valid_loop k ms true (0, 0) s = CVOk ->
    StronglySorted (before k) s /\ Forall (rvalid k) s.
  Proof.
    rewrite check_valid_loop_ok. intros (F & S & _).
    assert (V : Forall (rvalid k) s) by (eapply Forall_impl; [|exact F]; unfold range_ok; tauto).
    split; auto. now apply Sorted_before_strong.
  Qed.

  Lemma any_has_iff_member ms n : check_valid_loop k ms true (0, 0) s = CVOk ->
    (has_loop (length s) k s n = Some true <-> exists r, In r l /\ contains k r n).
  Proof.
    intros H. destruct (any_valid_strong ms H) as (SS & V). split.
    - intros Hh. destruct (has_loop_sound _ _ _ _ Hh) as (r & Hin & Hc).
      exists r. split; auto. eapply Permutation_in; eauto.
    - intros (r & Hin & Hc). apply has_loop_complete; auto.
      exists r. split; auto. eapply Permutation_in; [symmetry|]; eauto.
  Qed.

  Lemma any_has_sound n : has_loop (length s) k s n = Some true -> exists r, In r l /\ contains k r n.
  Proof.
    intros Hh. destruct (has_loop_sound _ _ _ _ Hh) as (r & Hin & Hc).
    exists r. split; auto. eapply Permutation_in; eauto.
  Qed.
End AnySort.

(* ---------- instantiation at the modelled sort ---------- *)
Lemma ranges_has_total k l n : ranges_has k l n <> None.
Proof. unfold ranges_has. apply has_loop_total. lia. Qed.

Lemma ranges_has_sound k l n : ranges_has k l n = Some true -> exists r, In r l /\ contains k r n.
Proof. unfold ranges_has. apply any_has_sound. apply sort_ranges_perm. Qed.

Lemma check_valid_spec k ms l :
  check_valid k ms l = CVOk <-> Forall (range_ok k ms) l /\ ForallOrdPairs (disjoint k) l.
Proof. unfold check_valid. apply any_check_valid_spec; [apply sort_ranges_perm|apply sort_ranges_sorted]. Qed.

Lemma ranges_has_iff_member k ms l n : check_valid k ms l = CVOk ->
  (ranges_has k l n = Some true <-> exists r, In r l /\ contains k r n).
Proof. unfold check_valid, ranges_has. apply any_has_iff_member. apply sort_ranges_perm. Qed.

Lemma ranges_has_false_iff k ms l n : check_valid k ms l = CVOk ->
  (ranges_has k l n = Some false <-> ~ exists r, In r l /\ contains k r n).
Proof.
  intros H. pose proof (ranges_has_iff_member k ms l n H) as Hi.
  pose proof (ranges_has_total k l n) as Ht.
  destruct (ranges_has k l n) as [[|]|]; try congruence.
  - split; [discriminate|]. intros Hn. exfalso. apply Hn. now apply Hi.
  - split; auto. intros _ Hm. apply Hi in Hm. discriminate.
Qed.

(* binary search needs the non-overlap that CheckValid establishes: without it a member can be missed *)
Lemma ranges_has_incomplete_without_valid :
  exists l n, (exists r, In r l /\ contains FieldR r n) /\ ranges_has FieldR l n = Some false.
Proof.
  exists [(1, 10); (2, 3)], 5. split.
  - exists (1, 10). split; [now left|]. unfold contains. vm_compute. split; discriminate.
  - vm_compute. reflexivity.
Qed.

(* ---------- CheckOverlap ---------- *)
Lemma overlap_loop_cons k rp ps rq qs :
  overlap_loop k (rp :: ps) (rq :: qs) =
  if intersects k rp rq then true
  else if r_start rp <? r_start rq then overlap_loop k ps (rq :: qs)
  else overlap_loop k (rp :: ps) qs.
Proof. reflexivity. Qed.

Lemma overlap_loop_nil_r k ps : overlap_loop k ps [] = false.
Proof. destruct ps; reflexivity. Qed.

Lemma overlap_loop_spec k : forall ps qs,
  Forall (rvalid k) ps -> Forall (rvalid k) qs ->
  StronglySorted (before k) ps -> StronglySorted (before k) qs ->
  (overlap_loop k ps qs = true <-> exists rp rq, In rp ps /\ In rq qs /\ intersects k rp rq = true).
Proof.
  induction ps as [|rp ps IHp].
  - intros qs _ _ _ _. destruct qs; cbn; split; try discriminate; intros (a & b & [] & _).
  - induction qs as [|rq qs IHq]; intros Vp Vq Sp Sq.
    + rewrite overlap_loop_nil_r. split; [discriminate|]. intros (a & b & _ & [] & _).
    + rewrite overlap_loop_cons.
      inversion Vp as [|? ? Vrp Vps]; subst. inversion Vq as [|? ? Vrq Vqs]; subst.
      inversion Sp as [|? ? Sps Fp]; subst. inversion Sq as [|? ? Sqs Fq]; subst.
      destruct (intersects k rp rq) eqn:Ei.
      * split; auto. intros _. exists rp, rq. repeat split; auto; now left.
      * destruct (r_start rp <? r_start rq) eqn:El.
        -- rewrite (IHp (rq :: qs)); auto. split.
           ++ intros (a & b & Ha & Hb & Hi). exists a, b. repeat split; auto. now right.
           ++ intros (a & b & [Ha|Ha] & Hb & Hi).
              ** subst a. exfalso.
                 destruct Hb as [Hb|Hb]; [subst b; congruence|].
                 rewrite Forall_forall in Fq. specialize (Fq _ Hb).
                 unfold intersects, before, rvalid in *. lia.
              ** exists a, b. repeat split; auto.
        -- rewrite IHq; auto. split.
           ++ intros (a & b & Ha & Hb & Hi). exists a, b. repeat split; auto. now right.
           ++ intros (a & b & Ha & [Hb|Hb] & Hi).
              ** subst b. exfalso.
                 destruct Ha as [Ha|Ha]; [subst a; congruence|].
                 rewrite Forall_forall in Fp. specialize (Fp _ Ha).
                 unfold intersects, before, rvalid in *. lia.
              ** exists a, b. repeat split; auto.
Qed.

Lemma check_overlap_spec msp msq p q :
  check_valid FieldR msp p = CVOk -> check_valid FieldR msq q = CVOk ->
  (check_overlap p q = true <-> exists rp rq, In rp p /\ In rq q /\ intersects FieldR rp rq = true).
Proof.
  unfold check_valid, check_overlap. intros Hp Hq.
  destruct (any_valid_strong FieldR _ msp Hp) as (Sp & Vp).
  destruct (any_valid_strong FieldR _ msq Hq) as (Sq & Vq).
  rewrite overlap_loop_spec by auto. split.
  - intros (a & b & Ha & Hb & Hi). exists a, b. repeat split; auto;
      (eapply Permutation_in; [apply sort_ranges_perm|]; auto).
  - intros (a & b & Ha & Hb & Hi). exists a, b. repeat split; auto;
      (eapply Permutation_in; [symmetry; apply sort_ranges_perm|]; auto).
Qed.

(* for lists that pass CheckValid, "intersects" is exactly "share a number" *)
Lemma check_overlap_shared_number msp msq p q :
  check_valid FieldR msp p = CVOk -> check_valid FieldR msq q = CVOk ->
  (check_overlap p q = true <->
   exists rp rq n, In rp p /\ In rq q /\ contains FieldR rp n /\ contains FieldR rq n).
Proof.
  intros Hp Hq. rewrite (check_overlap_spec msp msq p q Hp Hq).
  apply check_valid_spec in Hp. apply check_valid_spec in Hq.
  destruct Hp as [Fp _]. destruct Hq as [Fq _]. rewrite Forall_forall in Fp, Fq.
  split.
  - intros (a & b & Ha & Hb & Hi).
    apply intersects_valid_iff in Hi; [|apply Fp; auto|apply Fq; auto].
    destruct Hi as (n & H1 & H2). exists a, b, n. auto.
  - intros (a & b & n & Ha & Hb & H1 & H2). exists a, b. repeat split; auto.
    apply intersects_valid_iff; [apply Fp; auto|apply Fq; auto|]. exists n. auto.
Qed.
