(* RegistryTypesP — protoregistry.Types: the concrete tables are exactly the list of
   successfully registered types; registration succeeds iff there is no extension-number
   and no name conflict (checked in that order); failed registrations are no-ops; lookups
   (incl. the wrong-type error), counters and ranges are exact.  No hypotheses on the
   histories. *)
From Coq Require Import List Arith NArith Bool Lia Permutation.
From PB Require Import Desc.RegistryModel Desc.RegistryBaseP Desc.RegistryTopP.
Import ListNotations.

(* ---------------------------------------------------------------- association lists built by map *)
Section AMap.
  Context {A K V : Type} (eqb : K -> K -> bool).
  Hypothesis eqb_eq : forall a b, eqb a b = true <-> a = b.
  Variables (kf : A -> K) (vf : A -> V).

  Lemma aget_map_some l k v :
    aget eqb (map (fun e => (kf e, vf e)) l) k = Some v -> exists e, In e l /\ kf e = k /\ vf e = v.
  Proof.
    induction l as [|a l IH]; cbn [map aget]; [discriminate|].
    destruct (eqb (kf a) k) eqn:E.
    - intros H. inversion H; subst. apply eqb_eq in E. exists a. repeat split; [now left | assumption].
    - intros H. destruct (IH H) as (e & Hi & H1 & H2). exists e. repeat split; [now right | assumption | assumption].
  Qed.

  Lemma aget_map_none l k :
    aget eqb (map (fun e => (kf e, vf e)) l) k = None -> forall e, In e l -> kf e <> k.
  Proof.
    induction l as [|a l IH]; cbn [map aget]; [intros _ e []|].
    destruct (eqb (kf a) k) eqn:E; [discriminate|].
    intros H e [->|Hi]; [|now apply IH].
    intros E'. apply eqb_eq in E'. congruence.
  Qed.

  Lemma aget_map_nodup l e :
    NoDup (map kf l) -> In e l -> aget eqb (map (fun e => (kf e, vf e)) l) (kf e) = Some (vf e).
  Proof.
    intros Hn Hi. apply (in_nodup_aget eqb eqb_eq).
    - now rewrite map_map.
    - apply in_map_iff. now exists e.
  Qed.

  Lemma aput_absent (m : list (K * V)) k v : aget eqb m k = None -> aput eqb m k v = m ++ [(k, v)].
  Proof.
    induction m as [|[k0 v0] m IH]; cbn [aget aput app]; [reflexivity|].
    destruct (eqb k0 k); [discriminate|]. intros H. now rewrite IH.
  Qed.
End AMap.

Lemma tkind_eqb_eq a b : tkind_eqb a b = true <-> a = b.
Proof. destruct a, b; cbn; split; congruence. Qed.

Lemma NoDup_snoc {A} (l : list A) x : NoDup l -> ~ In x l -> NoDup (l ++ [x]).
Proof.
  intros H Hn. apply (Permutation_NoDup (Permutation_cons_append l x)). now constructor.
Qed.

(* ---------------------------------------------------------------- invariant *)
Definition tentry (e : tent) : name * (tkind * nat) := (te_name e, (te_kind e, te_id e)).

Record tinv (s : tstate) (rs : list tent) : Prop := {
  ti_types : ts_types s = map tentry rs;
  ti_names : NoDup (map te_name rs);
  ti_exts : forall m, ext_map s m = map (fun e => (te_num e, te_id e)) (ext_filter rs m);
  ti_nums : forall m, NoDup (map te_num (ext_filter rs m));
  ti_nenum : ts_nenum s = length (kind_filter rs TEnum);
  ti_nmsg : ts_nmsg s = length (kind_filter rs TMsg);
  ti_next : ts_next s = length (kind_filter rs TExt)
}.

Lemma tinv_init : tinv ts_init [].
Proof. constructor; cbn; try reflexivity; try constructor. Qed.

Lemma ext_filter_in rs m e :
  In e (ext_filter rs m) <-> In e rs /\ te_kind e = TExt /\ te_ext e = m.
Proof.
  unfold ext_filter, is_ext_of. rewrite filter_In, andb_true_iff, tkind_eqb_eq, name_eqb_eq. tauto.
Qed.

Lemma name_taken_iff s rs n : tinv s rs -> (tget s n <> None <-> name_taken rs n).
Proof.
  intros I. unfold tget. rewrite (ti_types _ _ I). unfold tentry. split.
  - intros H. destruct (aget name_eqb _ n) as [v|] eqn:E; [|contradiction].
    destruct (aget_map_some name_eqb name_eqb_eq te_name _ rs n v E) as (e & Hi & Hn & _). now exists e.
  - intros (e & Hi & Hn) E.
    exact (aget_map_none name_eqb name_eqb_eq te_name _ rs n E e Hi Hn).
Qed.

Lemma extnum_taken_iff s rs m num :
  tinv s rs -> (aget N.eqb (ext_map s m) num <> None <-> extnum_taken rs m num).
Proof.
  intros I. rewrite (ti_exts _ _ I). split.
  - intros H. destruct (aget N.eqb _ num) as [v|] eqn:E; [|contradiction].
    destruct (aget_map_some N.eqb N.eqb_eq te_num _ _ num v E) as (e & Hi & Hn & _).
    apply ext_filter_in in Hi. destruct Hi as (Hi & Hk & He). now exists e.
  - intros (e & Hi & Hk & He & Hn) E.
    assert (Hf : In e (ext_filter rs m)) by (apply ext_filter_in; now repeat split).
    exact (aget_map_none N.eqb N.eqb_eq te_num _ _ num E e Hf Hn).
Qed.

Lemma ext_map_put s exts' m l m' :
  ts_exts s = exts' -> True ->
  (match aget name_eqb (aput name_eqb exts' m l) m' with Some x => x | None => [] end) =
  if name_eqb m m' then l else ext_map s m'.
Proof.
  intros <- _. unfold ext_map. rewrite (aget_aput name_eqb name_eqb_eq). destruct (name_eqb m m'); reflexivity.
Qed.

(* ---------------------------------------------------------------- registrations *)
(* registering a non-extension type of kind k *)
Lemma tinv_add_plain s rs k id n t :
  tinv s rs -> k <> TExt -> ~ name_taken rs n ->
  tregister s k id n = Some t ->
  forall ne nm, ne = length (kind_filter (rs ++ [TEnt k id n [] 0%N]) TEnum) ->
                nm = length (kind_filter (rs ++ [TEnt k id n [] 0%N]) TMsg) ->
  tinv (TState t (ts_exts s) ne nm (ts_next s)) (rs ++ [TEnt k id n [] 0%N]).
Proof.
  intros I Hk Hn Ht ne nm -> ->. unfold tregister in Ht.
  destruct (tget s n) eqn:Eg; [discriminate|]. inversion Ht; subst t. clear Ht.
  assert (Hx : forall m, ext_filter (rs ++ [TEnt k id n [] 0%N]) m = ext_filter rs m).
  { intros m. unfold ext_filter. rewrite filter_snoc. unfold is_ext_of at 2. cbn [te_kind].
    destruct k; try contradiction; cbn [tkind_eqb andb]; now rewrite app_nil_r. }
  constructor; cbn [ts_types ts_exts ts_nenum ts_nmsg ts_next].
  - rewrite (aput_absent name_eqb) by exact Eg. rewrite (ti_types _ _ I), map_app. reflexivity.
  - rewrite map_app. cbn [map te_name]. apply NoDup_snoc; [exact (ti_names _ _ I)|].
    intros Hi. apply Hn. apply in_map_iff in Hi. destruct Hi as (e & E & Hi). now exists e.
  - intros m. rewrite Hx. exact (ti_exts _ _ I m).
  - intros m. rewrite Hx. exact (ti_nums _ _ I m).
  - reflexivity.
  - reflexivity.
  - unfold kind_filter. rewrite filter_snoc. cbn [te_kind].
    destruct k; try contradiction; cbn [tkind_eqb]; rewrite app_nil_r; exact (ti_next _ _ I).
Qed.

Lemma register_message_cases s rs id n :
  tinv s rs ->
  (name_taken rs n /\ register_message s id n = (s, TErrName)) \/
  (~ name_taken rs n /\ snd (register_message s id n) = TOk /\
   tinv (fst (register_message s id n)) (rs ++ [TEnt TMsg id n [] 0%N])).
Proof.
  intros I. unfold register_message. destruct (tregister s TMsg id n) as [t|] eqn:Et.
  - right. assert (Hn : ~ name_taken rs n).
    { intros H. apply (name_taken_iff s rs n I) in H. unfold tregister in Et.
      destruct (tget s n); [discriminate | contradiction]. }
    split; [assumption|]. split; [reflexivity|]. cbn [fst].
    apply (tinv_add_plain s rs TMsg id n t I); try assumption; try discriminate.
    + unfold kind_filter. rewrite filter_snoc. cbn [te_kind tkind_eqb]. rewrite app_nil_r. exact (ti_nenum _ _ I).
    + unfold kind_filter. rewrite filter_snoc. cbn [te_kind tkind_eqb]. rewrite app_length. cbn [length].
      rewrite (ti_nmsg _ _ I). unfold kind_filter. lia.
  - left. split; [|reflexivity]. apply (name_taken_iff s rs n I). unfold tregister in Et.
    destruct (tget s n); [discriminate | discriminate].
Qed.

Lemma register_enum_cases s rs id n :
  tinv s rs ->
  (name_taken rs n /\ register_enum s id n = (s, TErrName)) \/
  (~ name_taken rs n /\ snd (register_enum s id n) = TOk /\
   tinv (fst (register_enum s id n)) (rs ++ [TEnt TEnum id n [] 0%N])).
Proof.
  intros I. unfold register_enum. destruct (tregister s TEnum id n) as [t|] eqn:Et.
  - right. assert (Hn : ~ name_taken rs n).
    { intros H. apply (name_taken_iff s rs n I) in H. unfold tregister in Et.
      destruct (tget s n); [discriminate | contradiction]. }
    split; [assumption|]. split; [reflexivity|]. cbn [fst].
    apply (tinv_add_plain s rs TEnum id n t I); try assumption; try discriminate.
    + unfold kind_filter. rewrite filter_snoc. cbn [te_kind tkind_eqb]. rewrite app_length. cbn [length].
      rewrite (ti_nenum _ _ I). unfold kind_filter. lia.
    + unfold kind_filter. rewrite filter_snoc. cbn [te_kind tkind_eqb]. rewrite app_nil_r. exact (ti_nmsg _ _ I).
  - left. split; [|reflexivity]. apply (name_taken_iff s rs n I). unfold tregister in Et.
    destruct (tget s n); [discriminate | discriminate].
Qed.

Lemma register_extension_cases s rs id n m num :
  tinv s rs ->
  (extnum_taken rs m num /\ register_extension s id n m num = (s, TErrExtNum)) \/
  (~ extnum_taken rs m num /\ name_taken rs n /\ register_extension s id n m num = (s, TErrName)) \/
  (~ extnum_taken rs m num /\ ~ name_taken rs n /\ snd (register_extension s id n m num) = TOk /\
   tinv (fst (register_extension s id n m num)) (rs ++ [TEnt TExt id n m num])).
Proof.
  intros I. unfold register_extension.
  destruct (aget N.eqb (ext_map s m) num) as [x|] eqn:Ex.
  { left. split; [|reflexivity]. apply (extnum_taken_iff s rs m num I). congruence. }
  right. assert (Hx : ~ extnum_taken rs m num).
  { intros H. apply (extnum_taken_iff s rs m num I) in H. contradiction. }
  unfold tregister. destruct (tget s n) as [v|] eqn:Eg.
  { left. split; [assumption|]. split; [|reflexivity]. apply (name_taken_iff s rs n I). congruence. }
  right. assert (Hn : ~ name_taken rs n).
  { intros H. apply (name_taken_iff s rs n I) in H. contradiction. }
  split; [assumption|]. split; [assumption|]. split; [reflexivity|]. cbn [fst].
  assert (Hf : forall m', ext_filter (rs ++ [TEnt TExt id n m num]) m' =
                          ext_filter rs m' ++ (if name_eqb m m' then [TEnt TExt id n m num] else [])).
  { intros m'. unfold ext_filter. rewrite filter_snoc. unfold is_ext_of at 2. cbn [te_kind te_ext tkind_eqb andb]. reflexivity. }
  constructor; cbn [ts_types ts_exts ts_nenum ts_nmsg ts_next].
  - rewrite (aput_absent name_eqb) by exact Eg. rewrite (ti_types _ _ I), map_app. reflexivity.
  - rewrite map_app. cbn [map te_name]. apply NoDup_snoc; [exact (ti_names _ _ I)|].
    intros Hi. apply Hn. apply in_map_iff in Hi. destruct Hi as (e & E & Hi). now exists e.
  - intros m'. unfold ext_map at 1. cbn [ts_exts]. rewrite (aget_aput name_eqb name_eqb_eq). rewrite Hf.
    destruct (name_eqb m m') eqn:Em.
    + apply name_eqb_eq in Em. subst m'. rewrite (aput_absent N.eqb) by exact Ex.
      rewrite (ti_exts _ _ I m), map_app. reflexivity.
    + rewrite app_nil_r. exact (ti_exts _ _ I m').
  - intros m'. rewrite Hf. destruct (name_eqb m m') eqn:Em.
    + apply name_eqb_eq in Em. subst m'. rewrite map_app. cbn [map te_num].
      apply NoDup_snoc; [exact (ti_nums _ _ I m)|].
      apply (aget_none_notin N.eqb N.eqb_eq) in Ex. rewrite (ti_exts _ _ I m), map_map in Ex. exact Ex.
    + rewrite app_nil_r. exact (ti_nums _ _ I m').
  - unfold kind_filter. rewrite filter_snoc. cbn [te_kind tkind_eqb]. rewrite app_nil_r. exact (ti_nenum _ _ I).
  - unfold kind_filter. rewrite filter_snoc. cbn [te_kind tkind_eqb]. rewrite app_nil_r. exact (ti_nmsg _ _ I).
  - unfold kind_filter. rewrite filter_snoc. cbn [te_kind tkind_eqb]. rewrite app_length. cbn [length].
    rewrite (ti_next _ _ I). unfold kind_filter. lia.
Qed.

(* ---------------------------------------------------------------- histories *)
Lemma tregs_fst ops : forall st,
  fst (fold_left tregs_step ops st) = fold_left (fun s op => fst (tstep s op)) ops (fst st).
Proof.
  induction ops as [|op ops IH]; intros st; cbn [fold_left]; [reflexivity|]. rewrite IH. reflexivity.
Qed.

Lemma tregs_run_state ops : fst (tregs_run ops) = tstate_after ops.
Proof. unfold tregs_run, tstate_after. now rewrite tregs_fst. Qed.

Lemma tinv_step s rs op :
  tinv s rs -> tinv (fst (tregs_step (s, rs) op)) (snd (tregs_step (s, rs) op)).
Proof.
  intros I. unfold tregs_step. cbn [fst snd].
  destruct op; cbn [tstep tent_of fst snd]; try exact I.
  - destruct (register_message_cases s rs id n I) as [(_ & E)|(_ & E & If)].
    + rewrite E. cbn [fst snd]. exact I.
    + destruct (register_message s id n) as [s' r]. cbn [fst snd] in *. subst r. exact If.
  - destruct (register_enum_cases s rs id n I) as [(_ & E)|(_ & E & If)].
    + rewrite E. cbn [fst snd]. exact I.
    + destruct (register_enum s id n) as [s' r]. cbn [fst snd] in *. subst r. exact If.
  - destruct (register_extension_cases s rs id n extendee num I) as [(_ & E)|[(_ & _ & E)|(_ & _ & E & If)]].
    + rewrite E. cbn [fst snd]. exact I.
    + rewrite E. cbn [fst snd]. exact I.
    + destruct (register_extension s id n extendee num) as [s' r]. cbn [fst snd] in *. subst r. exact If.
Qed.

Lemma tinv_fold ops : forall st,
  tinv (fst st) (snd st) -> tinv (fst (fold_left tregs_step ops st)) (snd (fold_left tregs_step ops st)).
Proof.
  induction ops as [|op ops IH]; intros [s rs] I; cbn [fold_left]; [exact I|].
  apply IH. now apply tinv_step.
Qed.

Theorem tinv_run ops : tinv (tstate_after ops) (tregistered ops).
Proof.
  rewrite <- tregs_run_state. unfold tregistered, tregs_run. apply tinv_fold. exact tinv_init.
Qed.

(* ---------------------------------------------------------------- theorems *)
Theorem types_register_ok_iff_no_conflict ops :
  let s := tstate_after ops in
  let rs := tregistered ops in
  (forall id n, (snd (register_message s id n) = TOk <-> ~ name_taken rs n) /\
                (snd (register_message s id n) = TErrName <-> name_taken rs n)) /\
  (forall id n, (snd (register_enum s id n) = TOk <-> ~ name_taken rs n) /\
                (snd (register_enum s id n) = TErrName <-> name_taken rs n)) /\
  (forall id n m num,
      let r := snd (register_extension s id n m num) in
      (r = TOk <-> ~ extnum_taken rs m num /\ ~ name_taken rs n) /\
      (r = TErrExtNum <-> extnum_taken rs m num) /\
      (r = TErrName <-> ~ extnum_taken rs m num /\ name_taken rs n)).
Proof.
  cbv zeta. pose proof (tinv_run ops) as I. split; [|split].
  - intros id n. destruct (register_message_cases _ _ id n I) as [(C & E)|(C & E & _)];
      rewrite E; cbn [snd]; repeat split; intros; first [congruence | tauto].
  - intros id n. destruct (register_enum_cases _ _ id n I) as [(C & E)|(C & E & _)];
      rewrite E; cbn [snd]; repeat split; intros; first [congruence | tauto].
  - intros id n m num.
    destruct (register_extension_cases _ _ id n m num I) as [(C & E)|[(C1 & C2 & E)|(C1 & C2 & E & _)]];
      rewrite E; cbn [snd]; repeat split; intros; first [congruence | tauto].
Qed.

Theorem types_failed_register_noop ops op :
  let s := tstate_after ops in
  (exists r, snd (tstep s op) = TORes r /\ r <> TOk) -> fst (tstep s op) = s.
Proof.
  cbv zeta. pose proof (tinv_run ops) as I. intros (r & Hr & Hne).
  destruct op; cbn [tstep fst snd] in *; try reflexivity.
  - destruct (register_message_cases _ _ id n I) as [(_ & E)|(_ & E & _)].
    + now rewrite E.
    + destruct (register_message _ id n) as [s' r']. cbn [fst snd] in *. inversion Hr; subst. contradiction.
  - destruct (register_enum_cases _ _ id n I) as [(_ & E)|(_ & E & _)].
    + now rewrite E.
    + destruct (register_enum _ id n) as [s' r']. cbn [fst snd] in *. inversion Hr; subst. contradiction.
  - destruct (register_extension_cases _ _ id n extendee num I) as [(_ & E)|[(_ & _ & E)|(_ & _ & E & _)]].
    + now rewrite E.
    + now rewrite E.
    + destruct (register_extension _ id n extendee num) as [s' r']. cbn [fst snd] in *. inversion Hr; subst. contradiction.
Qed.

Theorem types_find_sound_complete ops :
  let s := tstate_after ops in
  let rs := tregistered ops in
  (forall want n id, find_type s want n = TFound id <->
                     exists e, In e rs /\ te_name e = n /\ te_kind e = want /\ te_id e = id) /\
  (forall want n, find_type s want n = TWrongType <->
                  exists e, In e rs /\ te_name e = n /\ te_kind e <> want) /\
  (forall want n, find_type s want n = TNotFound <-> ~ name_taken rs n) /\
  (forall m num id, find_extension_by_number s m num = TFound id <->
                    exists e, In e rs /\ te_kind e = TExt /\ te_ext e = m /\ te_num e = num /\ te_id e = id) /\
  (forall m num, find_extension_by_number s m num = TNotFound <-> ~ extnum_taken rs m num) /\
  (forall m num, find_extension_by_number s m num <> TWrongType).
Proof.
  cbv zeta. pose proof (tinv_run ops) as I.
  set (s := tstate_after ops) in *. set (rs := tregistered ops) in *.
  assert (G : forall n, (exists e, In e rs /\ te_name e = n /\ tget s n = Some (te_kind e, te_id e)) \/
                        (tget s n = None /\ ~ name_taken rs n)).
  { intros n. destruct (tget s n) as [v|] eqn:E.
    - left. unfold tget in E. rewrite (ti_types _ _ I) in E. unfold tentry in E.
      destruct (aget_map_some name_eqb name_eqb_eq te_name _ rs n v E) as (e & Hi & Hn & Hv).
      exists e. now subst v.
    - right. split; [reflexivity|]. intros H. apply (name_taken_iff s rs n I) in H. contradiction. }
  assert (U : forall e e', In e rs -> In e' rs -> te_name e = te_name e' -> e = e').
  { intros e e' H1 H2. apply (NoDup_map_inj_in te_name rs e e' (ti_names _ _ I) H1 H2). }
  repeat split.
  - unfold find_type. destruct (G n) as [(e & Hi & Hn & Hg)|(Hg & Hn)]; rewrite Hg; [|discriminate].
    destruct (tkind_eqb (te_kind e) want) eqn:Ek; [|discriminate]. apply tkind_eqb_eq in Ek.
    intros H. inversion H; subst. now exists e.
  - intros (e & Hi & Hn & Hk & Hid). unfold find_type.
    destruct (G n) as [(e' & Hi' & Hn' & Hg)|(Hg & Hn')]; [|exfalso; apply Hn'; now exists e].
    assert (e' = e) by (apply U; congruence). subst e'. rewrite Hg.
    apply tkind_eqb_eq in Hk. rewrite Hk. now rewrite Hid.
  - unfold find_type. destruct (G n) as [(e & Hi & Hn & Hg)|(Hg & Hn)]; rewrite Hg; [|discriminate].
    destruct (tkind_eqb (te_kind e) want) eqn:Ek; [discriminate|]. intros _. exists e. repeat split; try assumption.
    intros Hk. apply tkind_eqb_eq in Hk. congruence.
  - intros (e & Hi & Hn & Hk). unfold find_type.
    destruct (G n) as [(e' & Hi' & Hn' & Hg)|(Hg & Hn')]; [|exfalso; apply Hn'; now exists e].
    assert (e' = e) by (apply U; congruence). subst e'. rewrite Hg.
    destruct (tkind_eqb (te_kind e) want) eqn:Ek; [|reflexivity]. apply tkind_eqb_eq in Ek. contradiction.
  - unfold find_type. destruct (G n) as [(e & Hi & Hn & Hg)|(Hg & Hn)]; rewrite Hg.
    + destruct (tkind_eqb (te_kind e) want); discriminate.
    + intros _. exact Hn.
  - intros Hn. unfold find_type. destruct (G n) as [(e & Hi & Hn' & Hg)|(Hg & _)].
    + exfalso. apply Hn. now exists e.
    + now rewrite Hg.
  - unfold find_extension_by_number. rewrite (ti_exts _ _ I).
    destruct (aget N.eqb _ num) as [v|] eqn:E; [|discriminate].
    destruct (aget_map_some N.eqb N.eqb_eq te_num _ _ num v E) as (e & Hi & Hn & Hv).
    apply ext_filter_in in Hi. destruct Hi as (Hi & Hk & He). intros H. inversion H; subst. now exists e.
  - intros (e & Hi & Hk & He & Hn & Hid). unfold find_extension_by_number. rewrite (ti_exts _ _ I).
    assert (Hf : In e (ext_filter rs m)) by (apply ext_filter_in; now repeat split).
    rewrite <- Hn. rewrite (aget_map_nodup N.eqb N.eqb_eq te_num _ _ e (ti_nums _ _ I m) Hf). now rewrite Hid.
  - unfold find_extension_by_number. intros H Hx. apply (extnum_taken_iff s rs m num I) in Hx.
    destruct (aget N.eqb (ext_map s m) num); [discriminate | contradiction].
  - intros Hx. unfold find_extension_by_number.
    destruct (aget N.eqb (ext_map s m) num) eqn:E; [|reflexivity]. exfalso. apply Hx.
    apply (extnum_taken_iff s rs m num I). congruence.
  - intros m num. unfold find_extension_by_number. destruct (aget N.eqb (ext_map s m) num); discriminate.
Qed.

Lemma filter_map_swap {A B} (g : A -> B) (p : B -> bool) (l : list A) :
  filter p (map g l) = map g (filter (fun x => p (g x)) l).
Proof. induction l as [|a l IH]; cbn; [reflexivity|]. destruct (p (g a)); cbn; now rewrite IH. Qed.

Theorem types_counts_exact ops :
  let s := tstate_after ops in
  let rs := tregistered ops in
  ts_nenum s = length (kind_filter rs TEnum) /\
  ts_nmsg s = length (kind_filter rs TMsg) /\
  ts_next s = length (kind_filter rs TExt) /\
  (forall k, range_types s k = map te_id (kind_filter rs k)) /\
  (forall m, length (ext_map s m) = length (ext_filter rs m)) /\
  (forall m, map snd (ext_map s m) = map te_id (ext_filter rs m)) /\
  abs_types s = map (fun e => (te_kind e, te_id e, te_name e)) rs.
Proof.
  cbv zeta. pose proof (tinv_run ops) as I. repeat split.
  - exact (ti_nenum _ _ I).
  - exact (ti_nmsg _ _ I).
  - exact (ti_next _ _ I).
  - intros k. unfold range_types, kind_filter. rewrite (ti_types _ _ I).
    rewrite (filter_map_swap tentry). rewrite map_map. reflexivity.
  - intros m. rewrite (ti_exts _ _ I). now rewrite map_length.
  - intros m. rewrite (ti_exts _ _ I). now rewrite map_map.
  - unfold abs_types. rewrite (ti_types _ _ I). now rewrite map_map.
Qed.

(* FindMessageByURL strips everything up to and including the last '/' *)
Lemma after_last_slash_none s : after_last_slash s = None <-> ~ In slashb s.
Proof.
  induction s as [|c t IH]; cbn [after_last_slash].
  - split; [intros _ [] | reflexivity].
  - destruct (after_last_slash t) as [r|] eqn:E.
    + split; [discriminate|]. intros H. exfalso.
      assert (Hn : ~ In slashb t) by (intros Hi; apply H; now right). apply IH in Hn. discriminate.
    + destruct (is_slash c) eqn:Ec.
      * apply byte_eqb_eq in Ec; subst. split; [discriminate | intros H; exfalso; apply H; now left].
      * split; [|reflexivity]. intros _ [Hc|Hi].
        -- subst. unfold is_slash in Ec. rewrite (proj2 (byte_eqb_eq slashb slashb) eq_refl) in Ec. discriminate.
        -- now apply IH.
Qed.

Theorem url_name_spec :
  (forall s, ~ In slashb s -> url_name s = s) /\
  (forall a b, ~ In slashb b -> url_name (a ++ slashb :: b) = b).
Proof.
  split.
  - intros s H. unfold url_name. apply after_last_slash_none in H. now rewrite H.
  - intros a b H. unfold url_name.
    assert (E : after_last_slash (a ++ slashb :: b) = Some b).
    { induction a as [|c a IH]; cbn [app after_last_slash].
      - apply after_last_slash_none in H. rewrite H. unfold is_slash.
        now rewrite (proj2 (byte_eqb_eq slashb slashb) eq_refl).
      - now rewrite IH. }
    now rewrite E.
Qed.
