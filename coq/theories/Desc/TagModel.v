(* Model of the legacy struct-tag codec  internal/encoding/tag/tag.go :
     Marshal(fd, enumName)  -> "varint,1,opt,name=foo,json=fooBar,proto3,enum=pkg.E,oneof,def=..."
     Unmarshal(tag, goType, evs) -> field descriptor (best effort, errors ignored)
   Definitions only.  Strings are [list byte] (Go strings are byte strings; the
   identifiers in tags are ASCII).  Default values are carried as the text
   after "def=" (their parsing / printing is internal/encoding/defval, C39).

   protoreflect.Kind numbers: Double 1, Float 2, Int64 3, Uint64 4, Int32 5,
   Fixed64 6, Fixed32 7, Bool 8, String 9, Group 10, Message 11, Bytes 12,
   Uint32 13, Enum 14, Sfixed32 15, Sfixed64 16, Sint32 17, Sint64 18.
   Cardinality: Optional 1, Required 2, Repeated 3. *)
From Coq Require Import List NArith ZArith Bool.
From PB Require Import Base.PBytes.
Import ListNotations.
Open Scope N_scope.

Definition str := list byte.

(* ---------- byte-string helpers ---------- *)
Definition beqb (a b : byte) : bool := b2n a =? b2n b.
Fixpoint str_eqb (a b : str) : bool :=
  match a, b with
  | [], [] => true
  | x :: a', y :: b' => beqb x y && str_eqb a' b'
  | _, _ => false
  end.
Fixpoint has_prefix (p s : str) : bool :=
  match p, s with
  | [], _ => true
  | x :: p', y :: s' => beqb x y && has_prefix p' s'
  | _ :: _, [] => false
  end.
Definition is_digit (b : byte) : bool := (48 <=? b2n b) && (b2n b <=? 57).
Definition is_lower (b : byte) : bool := (97 <=? b2n b) && (b2n b <=? 122).
Definition is_upper (b : byte) : bool := (65 <=? b2n b) && (b2n b <=? 90).
Definition comma : byte := x2c.
Definition underscore : byte := x5f.
Definition dot : byte := x2e.

(* strings.ToLower on ASCII *)
Definition to_lower (s : str) : str := map (fun b => if is_upper b then n2b (b2n b + 32) else b) s.

(* strs.JSONCamelCase *)
Fixpoint camel_aux (was_us : bool) (s : str) : str :=
  match s with
  | [] => []
  | c :: r =>
      if beqb c underscore then camel_aux true r
      else (if was_us && is_lower c then n2b (b2n c - 32) else c) :: camel_aux false r
  end.
Definition camel (s : str) : str := camel_aux false s.

(* protoreflect.FullName.Name: the part after the last '.' *)
Fixpoint basename_aux (s acc : str) : str :=
  match s with
  | [] => acc
  | c :: r => if beqb c dot then basename_aux r [] else basename_aux r (acc ++ [c])
  end.
Definition basename (s : str) : str := basename_aux s [].

(* strconv.Itoa for non-negative numbers; '-' prefix otherwise *)
Fixpoint lsd_digits (fuel : nat) (n : N) : str :=
  match fuel with
  | O => []
  | S f => if n <? 10 then [n2b (48 + n)] else n2b (48 + n mod 10) :: lsd_digits f (n / 10)
  end.
Definition itoa_n (n : N) : str := rev (lsd_digits 40 n).
Definition itoa (z : Z) : str :=
  match z with
  | Zneg p => x2d :: itoa_n (Npos p)
  | _ => itoa_n (Z.to_N z)
  end.

(* the value of a little-endian digit string *)
Fixpoint val_lsd (s : str) : N :=
  match s with
  | [] => 0
  | d :: r => (b2n d - 48) + 10 * val_lsd r
  end.
(* strconv.ParseUint(s, 10, 32) on a string of digits: the value, saturated at
   2^32-1 on overflow, 0 on the empty string; then FieldNumber(n) = int32 wrap *)
Definition parse_uint32 (s : str) : N :=
  let v := val_lsd (rev s) in if v <? 4294967296 then v else 4294967295.
Definition to_int32 (v : N) : Z :=
  if v <? 2147483648 then Z.of_N v else (Z.of_N v - 4294967296)%Z.

(* ---------- keywords ---------- *)
Definition s_name : str := [x6e; x61; x6d; x65; x3d].          (* "name=" *)
Definition s_json : str := [x6a; x73; x6f; x6e; x3d].          (* "json=" *)
Definition s_enum : str := [x65; x6e; x75; x6d; x3d].          (* "enum=" *)
Definition s_def : str := [x64; x65; x66; x3d].                (* "def=" *)
Definition s_opt : str := [x6f; x70; x74].
Definition s_req : str := [x72; x65; x71].
Definition s_rep : str := [x72; x65; x70].
Definition s_varint : str := [x76; x61; x72; x69; x6e; x74].
Definition s_zigzag32 : str := [x7a; x69; x67; x7a; x61; x67; x33; x32].
Definition s_zigzag64 : str := [x7a; x69; x67; x7a; x61; x67; x36; x34].
Definition s_fixed32 : str := [x66; x69; x78; x65; x64; x33; x32].
Definition s_fixed64 : str := [x66; x69; x78; x65; x64; x36; x34].
Definition s_bytes : str := [x62; x79; x74; x65; x73].
Definition s_group : str := [x67; x72; x6f; x75; x70].
Definition s_packed : str := [x70; x61; x63; x6b; x65; x64].
Definition s_proto3 : str := [x70; x72; x6f; x74; x6f; x33].
Definition s_oneof : str := [x6f; x6e; x65; x6f; x66].

(* ---------- Marshal ---------- *)
Record tfield := {
  f_kind : N;          (* fd.Kind() *)
  f_number : Z;        (* fd.Number() *)
  f_card : N;          (* fd.Cardinality() *)
  f_packed : bool;     (* fd.IsPacked() *)
  f_name : str;        (* fd.Name() *)
  f_msgname : str;     (* fd.Message().Name() (read for groups only) *)
  f_json : str;        (* fd.JSONName() *)
  f_ext : bool;        (* fd.IsExtension() *)
  f_proto3 : bool;     (* fd.Syntax() == Proto3 *)
  f_enum : str;        (* the enumName argument *)
  f_oneof : bool;      (* fd.ContainingOneof() != nil *)
  f_def : option str   (* Some (defval.Marshal ... GoTag) when fd.HasDefault() *)
}.

Definition kind_keyword (k : N) : option str :=
  match k with
  | 8 | 14 | 5 | 13 | 3 | 4 => Some s_varint
  | 17 => Some s_zigzag32
  | 18 => Some s_zigzag64
  | 15 | 7 | 2 => Some s_fixed32
  | 16 | 6 | 1 => Some s_fixed64
  | 9 | 12 | 11 => Some s_bytes
  | 10 => Some s_group
  | _ => None
  end.
Definition card_keyword (c : N) : option str :=
  match c with 1 => Some s_opt | 2 => Some s_req | 3 => Some s_rep | _ => None end.

Definition opt_seg (o : option str) : list str := match o with Some s => [s] | None => [] end.
Definition if_seg (b : bool) (s : str) : list str := if b then [s] else [].

(* the name written after "name=": the message name for groups *)
Definition emitted_name (f : tfield) : str := if f_kind f =? 10 then f_msgname f else f_name f.

Definition segments (f : tfield) : list str :=
  opt_seg (kind_keyword (f_kind f))
  ++ [itoa (f_number f)]
  ++ opt_seg (card_keyword (f_card f))
  ++ if_seg (f_packed f) s_packed
  ++ [s_name ++ emitted_name f]
  ++ if_seg (negb (str_eqb (f_json f) []) && negb (str_eqb (f_json f) (emitted_name f)) && negb (f_ext f))
            (s_json ++ f_json f)
  ++ if_seg (f_proto3 f && negb (f_ext f)) s_proto3
  ++ if_seg ((f_kind f =? 14) && negb (str_eqb (f_enum f) [])) (s_enum ++ f_enum f)
  ++ if_seg (f_oneof f) s_oneof
  ++ match f_def f with Some d => [s_def ++ d] | None => [] end.

Fixpoint join_comma (l : list str) : str :=
  match l with
  | [] => []
  | [s] => s
  | s :: r => s ++ comma :: join_comma r
  end.

Definition marshal (f : tfield) : str := join_comma (segments f).

(* ---------- Unmarshal ---------- *)
Inductive gokind := GBool | GInt32 | GInt64 | GUint32 | GUint64 | GFloat32 | GFloat64 | GString | GBytes | GOther.

Record ufield := {
  u_name : str;            (* f.L0.FullName *)
  u_number : Z;
  u_card : N;
  u_kind : N;
  u_json : option str;     (* explicit JSON name (StringName.InitJSON) *)
  u_packed : bool;         (* the tag said "packed" *)
  u_proto3 : bool;
  u_def : option str       (* the text after "def=" *)
}.
Definition u_empty : ufield :=
  {| u_name := []; u_number := 0%Z; u_card := 0; u_kind := 0; u_json := None;
     u_packed := false; u_proto3 := false; u_def := None |}.

Inductive seg :=
| SName (n : str) | SNum (z : Z) | SCard (c : N)
| SVarint | SZigzag32 | SZigzag64 | SFixed32 | SFixed64 | SBytes | SGroup
| SEnum | SJson (j : str) | SPacked | SProto3 | SOther.

(* the switch of Unmarshal, in its order ("def=" is handled by the caller) *)
Definition classify (s : str) : seg :=
  if has_prefix s_name s then SName (skipn 5 s)
  else if forallb is_digit s then SNum (to_int32 (parse_uint32 s))
  else if str_eqb s s_opt then SCard 1
  else if str_eqb s s_req then SCard 2
  else if str_eqb s s_rep then SCard 3
  else if str_eqb s s_varint then SVarint
  else if str_eqb s s_zigzag32 then SZigzag32
  else if str_eqb s s_zigzag64 then SZigzag64
  else if str_eqb s s_fixed32 then SFixed32
  else if str_eqb s s_fixed64 then SFixed64
  else if str_eqb s s_bytes then SBytes
  else if str_eqb s s_group then SGroup
  else if has_prefix s_enum s then SEnum
  else if has_prefix s_json s then SJson (skipn 5 s)
  else if str_eqb s s_packed then SPacked
  else if str_eqb s s_proto3 then SProto3
  else SOther.

Definition set_kind (u : ufield) (k : N) : ufield :=
  {| u_name := u_name u; u_number := u_number u; u_card := u_card u; u_kind := k; u_json := u_json u;
     u_packed := u_packed u; u_proto3 := u_proto3 u; u_def := u_def u |}.

Definition apply_seg (gk : gokind) (sg : seg) (u : ufield) : ufield :=
  match sg with
  | SName n => {| u_name := n; u_number := u_number u; u_card := u_card u; u_kind := u_kind u; u_json := u_json u;
                  u_packed := u_packed u; u_proto3 := u_proto3 u; u_def := u_def u |}
  | SNum z => {| u_name := u_name u; u_number := z; u_card := u_card u; u_kind := u_kind u; u_json := u_json u;
                 u_packed := u_packed u; u_proto3 := u_proto3 u; u_def := u_def u |}
  | SCard c => {| u_name := u_name u; u_number := u_number u; u_card := c; u_kind := u_kind u; u_json := u_json u;
                  u_packed := u_packed u; u_proto3 := u_proto3 u; u_def := u_def u |}
  | SVarint => match gk with
               | GBool => set_kind u 8 | GInt32 => set_kind u 5 | GInt64 => set_kind u 3
               | GUint32 => set_kind u 13 | GUint64 => set_kind u 4 | _ => u end
  | SZigzag32 => match gk with GInt32 => set_kind u 17 | _ => u end
  | SZigzag64 => match gk with GInt64 => set_kind u 18 | _ => u end
  | SFixed32 => match gk with GInt32 => set_kind u 15 | GUint32 => set_kind u 7 | GFloat32 => set_kind u 2 | _ => u end
  | SFixed64 => match gk with GInt64 => set_kind u 16 | GUint64 => set_kind u 6 | GFloat64 => set_kind u 1 | _ => u end
  | SBytes => match gk with GString => set_kind u 9 | GBytes => set_kind u 12 | _ => set_kind u 11 end
  | SGroup => set_kind u 10
  | SEnum => set_kind u 14
  | SJson j =>
      if str_eqb j (camel (basename (u_name u))) then u
      else {| u_name := u_name u; u_number := u_number u; u_card := u_card u; u_kind := u_kind u; u_json := Some j;
              u_packed := u_packed u; u_proto3 := u_proto3 u; u_def := u_def u |}
  | SPacked => {| u_name := u_name u; u_number := u_number u; u_card := u_card u; u_kind := u_kind u; u_json := u_json u;
                  u_packed := true; u_proto3 := u_proto3 u; u_def := u_def u |}
  | SProto3 => {| u_name := u_name u; u_number := u_number u; u_card := u_card u; u_kind := u_kind u; u_json := u_json u;
                  u_packed := u_packed u; u_proto3 := true; u_def := u_def u |}
  | SOther => u
  end.

(* tag[:i] and the rest after the comma *)
Fixpoint cut_comma (s : str) : str * str :=
  match s with
  | [] => ([], [])
  | b :: r => if beqb b comma then ([], r) else let (a, r') := cut_comma r in (b :: a, r')
  end.

(* the loop; fuel = 1 + length of the tag always suffices *)
Fixpoint unmarshal_loop (fuel : nat) (gk : gokind) (tag : str) (u : ufield) : ufield :=
  match fuel with
  | O => u
  | S f =>
    match tag with
    | [] => u
    | _ =>
      let (s, rest) := cut_comma tag in
      if has_prefix s_def s then
        (* everything afterwards is the default, commas included *)
        {| u_name := u_name u; u_number := u_number u; u_card := u_card u; u_kind := u_kind u; u_json := u_json u;
           u_packed := u_packed u; u_proto3 := u_proto3 u; u_def := Some (skipn 4 tag) |}
      else unmarshal_loop f gk rest (apply_seg gk (classify s) u)
    end
  end.

(* after the loop: group fields are named by the lower-cased group (message) name *)
Definition finish (u : ufield) : ufield :=
  if u_kind u =? 10 then
    {| u_name := to_lower (u_name u); u_number := u_number u; u_card := u_card u; u_kind := u_kind u; u_json := u_json u;
       u_packed := u_packed u; u_proto3 := u_proto3 u; u_def := u_def u |}
  else u.

Definition unmarshal (gk : gokind) (tag : str) : ufield :=
  finish (unmarshal_loop (S (length tag)) gk tag u_empty).

(* observables of the resulting filedesc.Field *)
Definition u_json_name (u : ufield) : str :=
  match u_json u with Some j => j | None => camel (basename (u_name u)) end.
(* EditionFeatures.IsPacked: the proto3 surrogate file packs by default *)
Definition u_packed_feature (u : ufield) : bool := u_packed u || u_proto3 u.
Definition packable (k : N) : bool := negb ((k =? 9) || (k =? 12) || (k =? 11) || (k =? 10)).
Definition u_is_packed (u : ufield) : bool := (u_card u =? 3) && packable (u_kind u) && u_packed_feature u.

(* the Go kind that a field of a protobuf kind has in generated code *)
Definition gokind_of (k : N) : gokind :=
  match k with
  | 8 => GBool | 5 | 17 | 15 | 14 => GInt32 | 3 | 18 | 16 => GInt64
  | 13 | 7 => GUint32 | 4 | 6 => GUint64 | 2 => GFloat32 | 1 => GFloat64
  | 9 => GString | 12 => GBytes | _ => GOther
  end.

(* ---------- aberrantAppendField (internal/impl/legacy_message.go): a struct field with a
   protobuf tag becomes a field of the derived message descriptor ----------
   The Go type of the struct field: *T for optional scalars, []T for repeated
   fields (not []byte), T otherwise; the tag is decoded against T. *)
Inductive goshape := ShPtr (gk : gokind) | ShSlice (gk : gokind) | ShPlain (gk : gokind).
Definition elem_kind (sh : goshape) : gokind :=
  match sh with ShPtr gk => gk | ShSlice gk => gk | ShPlain gk => gk end.

(* fd.L0.FullName = md.FullName().Append(fd.Name()) *)
Definition derive_field (parent : str) (sh : goshape) (tag : str) : ufield :=
  let u := unmarshal (elem_kind sh) tag in
  {| u_name := parent ++ dot :: basename (u_name u); u_number := u_number u; u_card := u_card u;
     u_kind := u_kind u; u_json := u_json u; u_packed := u_packed u; u_proto3 := u_proto3 u; u_def := u_def u |}.

(* strings.Split(tag, ",") *)
Fixpoint split_commas_aux (s cur : str) : list str :=
  match s with
  | [] => [rev cur]
  | b :: r => if beqb b comma then rev cur :: split_commas_aux r [] else split_commas_aux r (b :: cur)
  end.
Definition split_commas (s : str) : list str := split_commas_aux s [].

(* aberrantLoadMessageDesc decides the syntax of the whole message: proto3 as soon as a tagged
   struct field has a plain scalar Go type (bool, the integers, the floats, string) or a tag
   with a "proto3" piece (a plain split at commas: the text of a default value counts too) *)
Definition is_scalar_gokind (gk : gokind) : bool :=
  match gk with GBytes | GOther => false | _ => true end.
Definition derive_msg_proto3 (sh : goshape) (tag : str) : bool :=
  (match sh with ShPlain gk => is_scalar_gokind gk | _ => false end)
  || existsb (fun s => str_eqb s s_proto3) (split_commas tag).

(* Field.HasPresence of the derived field: the features come from the tag (proto2 surrogate
   unless the tag says proto3); message-typed fields always have presence *)
Definition u_has_presence (u : ufield) : bool :=
  if u_card u =? 3 then false else negb (u_proto3 u) || (u_kind u =? 10) || (u_kind u =? 11).
