(* Model of the keyed views of internal/filedesc descriptor lists:
     desc_list.go      Names, FieldNumbers, OneofFields
     desc_list_gen.go  Enums, EnumValues, Messages, Fields, Oneofs, Extensions, Services, Methods
   and of the parts of descriptor construction that the indexed views rest on
   (desc_lazy.go Message.unmarshalFull / protodesc resolveMessageDependencies: Index,
   FullName, RequiredNumbers, oneof membership; strs.Builder.AppendFullName;
   protoreflect.FullName.Name/Parent).
   Definitions only: no proofs.

   A Go map is an association list with unique keys ([gm_put] replaces).  A lookup
   result is the INDEX in List of the element the Go code returns a pointer to
   ([None] = nil).  Strings are [list byte]. *)
From Coq Require Import List ZArith Bool Arith.
From PB Require Import Base.PBytes.
Import ListNotations.

Definition bytes := list byte.

Fixpoint bytes_eqb (a b : bytes) : bool :=
  match a, b with
  | [], [] => true
  | x :: a', y :: b' => Byte.eqb x y && bytes_eqb a' b'
  | _, _ => false
  end.

(* ---------- Go maps ---------- *)
Section GoMap.
  Variables K V : Type.
  Variable keqb : K -> K -> bool.
  Definition gomap := list (K * V).

  Fixpoint gm_get (m : gomap) (k : K) : option V :=
    match m with
    | [] => None
    | (k', v) :: r => if keqb k k' then Some v else gm_get r k
    end.
  Definition gm_remove (m : gomap) (k : K) : gomap := filter (fun kv => negb (keqb k (fst kv))) m.
  (* m[k] = v *)
  Definition gm_put (m : gomap) (k : K) (v : V) : gomap := (k, v) :: gm_remove m k.
  (* if _, ok := m[k]; !ok { m[k] = v } *)
  Definition gm_put_if_absent (m : gomap) (k : K) (v : V) : gomap :=
    match gm_get m k with Some _ => m | None => gm_put m k v end.
End GoMap.
Arguments gm_get {K V}. Arguments gm_remove {K V}. Arguments gm_put {K V}. Arguments gm_put_if_absent {K V}.

(* ---------- Names (reserved names): has map[Name]int counts occurrences ---------- *)
Definition names_init (l : list bytes) : gomap bytes Z :=
  fold_left (fun m s => gm_put bytes_eqb m s
                          ((match gm_get bytes_eqb m s with Some c => c | None => 0 end) + 1)%Z) l [].
Definition names_has (l : list bytes) (s : bytes) : bool :=
  match gm_get bytes_eqb (names_init l) s with Some c => (0 <? c)%Z | None => false end.
(* CheckValid: true = error "duplicate name" (the loop over the Go map returns at the first n > 1;
   which key that is depends on map order, the error CLASS does not) *)
Definition names_check_dup (l : list bytes) : bool :=
  existsb (fun kv => (1 <? snd kv)%Z) (names_init l).

(* ---------- FieldNumbers (RequiredNumbers): has map[FieldNumber]struct{} ---------- *)
Definition numbers_init (l : list Z) : gomap Z unit :=
  fold_left (fun m n => gm_put Z.eqb m n tt) l [].
Definition numbers_has (l : list Z) (n : Z) : bool :=
  match gm_get Z.eqb (numbers_init l) n with Some _ => true | None => false end.

(* ---------- lists keyed by name only: Enums, Messages, Oneofs, Extensions, Services, Methods ---------- *)
Fixpoint byname_loop (i : nat) (l : list bytes) (m : gomap bytes nat) : gomap bytes nat :=
  match l with
  | [] => m
  | d :: r => byname_loop (S i) r (gm_put_if_absent bytes_eqb m d i)
  end.
Definition list_by_name (l : list bytes) (s : bytes) : option nat :=
  gm_get bytes_eqb (byname_loop 0 l []) s.

(* ---------- EnumValues: byName, byNum ---------- *)
Record evmaps := { ev_name : gomap bytes nat; ev_num : gomap Z nat }.
Fixpoint enumvalues_loop (i : nat) (l : list (bytes * Z)) (m : evmaps) : evmaps :=
  match l with
  | [] => m
  | d :: r =>
    enumvalues_loop (S i) r
      {| ev_name := gm_put_if_absent bytes_eqb (ev_name m) (fst d) i;
         ev_num := gm_put_if_absent Z.eqb (ev_num m) (snd d) i |}
  end.
Definition enumvalues_init l := enumvalues_loop 0 l {| ev_name := []; ev_num := [] |}.
Definition enumvalues_by_name l s := gm_get bytes_eqb (ev_name (enumvalues_init l)) s.
Definition enumvalues_by_number l n := gm_get Z.eqb (ev_num (enumvalues_init l)) n.

(* ---------- Fields ---------- *)
(* what Fields.lazyInit reads of a field: Name, JSONName, TextName, Number, isGroupLike, and for
   group-like fields strings.ToLower of the JSON and text names (computed by the Go standard
   library; they enter the model as data) *)
Record fld := {
  f_name : bytes; f_json : bytes; f_text : bytes; f_num : Z;
  f_grouplike : bool; f_ljson : bytes; f_ltext : bytes }.

Record fmaps := {
  fm_name : gomap bytes nat; fm_json : gomap bytes nat; fm_text : gomap bytes nat; fm_num : gomap Z nat }.

Definition fields_step (i : nat) (d : fld) (m : fmaps) : fmaps :=
  let byName := gm_put_if_absent bytes_eqb (fm_name m) (f_name d) i in
  let byJSON := gm_put_if_absent bytes_eqb (fm_json m) (f_json d) i in
  let byText := gm_put_if_absent bytes_eqb (fm_text m) (f_text d) i in
  let byJSON := if f_grouplike d then gm_put_if_absent bytes_eqb byJSON (f_ljson d) i else byJSON in
  let byText := if f_grouplike d then gm_put_if_absent bytes_eqb byText (f_ltext d) i else byText in
  let byNum := gm_put_if_absent Z.eqb (fm_num m) (f_num d) i in
  {| fm_name := byName; fm_json := byJSON; fm_text := byText; fm_num := byNum |}.

Fixpoint fields_loop (i : nat) (l : list fld) (m : fmaps) : fmaps :=
  match l with
  | [] => m
  | d :: r => fields_loop (S i) r (fields_step i d m)
  end.
Definition fmaps_empty := {| fm_name := []; fm_json := []; fm_text := []; fm_num := [] |}.
Definition fields_init (l : list fld) : fmaps := fields_loop 0 l fmaps_empty.

Definition fields_by_name l s := gm_get bytes_eqb (fm_name (fields_init l)) s.
Definition fields_by_json l s := gm_get bytes_eqb (fm_json (fields_init l)) s.
Definition fields_by_text l s := gm_get bytes_eqb (fm_text (fields_init l)) s.
Definition fields_by_number l n := gm_get Z.eqb (fm_num (fields_init l)) n.

(* ---------- OneofFields: plain assignment (last wins), no lower-case aliases ---------- *)
Definition oneof_step (i : nat) (d : fld) (m : fmaps) : fmaps :=
  {| fm_name := gm_put bytes_eqb (fm_name m) (f_name d) i;
     fm_json := gm_put bytes_eqb (fm_json m) (f_json d) i;
     fm_text := gm_put bytes_eqb (fm_text m) (f_text d) i;
     fm_num := gm_put Z.eqb (fm_num m) (f_num d) i |}.
Fixpoint oneof_loop (i : nat) (l : list fld) (m : fmaps) : fmaps :=
  match l with
  | [] => m
  | d :: r => oneof_loop (S i) r (oneof_step i d m)
  end.
Definition oneof_init (l : list fld) : fmaps := oneof_loop 0 l fmaps_empty.
Definition oneof_by_name l s := gm_get bytes_eqb (fm_name (oneof_init l)) s.
Definition oneof_by_json l s := gm_get bytes_eqb (fm_json (oneof_init l)) s.
Definition oneof_by_text l s := gm_get bytes_eqb (fm_text (oneof_init l)) s.
Definition oneof_by_number l n := gm_get Z.eqb (fm_num (oneof_init l)) n.

(* the recogniser of finding F8: two members of the oneof share the key *)
Fixpoint has_dup_bytes (l : list bytes) : bool :=
  match l with
  | [] => false
  | a :: r => existsb (bytes_eqb a) r || has_dup_bytes r
  end.
Definition excl_F8_json (l : list fld) : bool := has_dup_bytes (map f_json l).
Definition excl_F8_text (l : list fld) : bool := has_dup_bytes (map f_text l).

(* ---------- full names ---------- *)
Definition dot : byte := "."%byte.

(* strs.Builder.AppendFullName: n = len(prefix)+1+len(name), minus 1 for an empty prefix;
   buf = prefix ++ "." ++ name; result = last n bytes of buf *)
Definition append_full_name (prefix name : bytes) : bytes :=
  let n := (length prefix + 1 + length name - (if Nat.eqb (length prefix) 0 then 1 else 0))%nat in
  let buf := prefix ++ dot :: name in
  skipn (length buf - n) buf.

(* strings.LastIndexByte(s, '.') as a split *)
Fixpoint split_last_dot (s : bytes) : option (bytes * bytes) :=
  match s with
  | [] => None
  | c :: r =>
    match split_last_dot r with
    | Some (p, n) => Some (c :: p, n)
    | None => if Byte.eqb c dot then Some ([], r) else None
    end
  end.
(* protoreflect.FullName.Name / Parent *)
Definition fullname_name (s : bytes) : bytes :=
  match split_last_dot s with Some (_, n) => n | None => s end.
Definition fullname_parent (s : bytes) : bytes :=
  match split_last_dot s with Some (p, _) => p | None => [] end.

(* ---------- building the fields and oneofs of one message ---------- *)
(* input: what the descriptor proto says about a field *)
Record fproto := { fp_name : bytes; fp_num : Z; fp_card : Z; fp_oneof : option nat }.
Definition card_required : Z := 2.

Record fdesc := { fd_index : nat; fd_fullname : bytes; fd_num : Z; fd_card : Z; fd_oneof : option nat }.
Record odesc := { od_index : nat; od_fullname : bytes; od_fields : list nat }.
Record mdesc := { md_fields : list fdesc; md_oneofs : list odesc; md_required : list Z }.

Fixpoint init_fields (parent : bytes) (i : nat) (fps : list fproto) : list fdesc :=
  match fps with
  | [] => []
  | p :: r =>
    {| fd_index := i; fd_fullname := append_full_name parent (fp_name p); fd_num := fp_num p;
       fd_card := fp_card p; fd_oneof := None |} :: init_fields parent (S i) r
  end.
Fixpoint init_oneofs (parent : bytes) (i : nat) (names : list bytes) : list odesc :=
  match names with
  | [] => []
  | s :: r => {| od_index := i; od_fullname := append_full_name parent s; od_fields := [] |}
              :: init_oneofs parent (S i) r
  end.

Fixpoint oneof_append (os : list odesc) (k : nat) (j : nat) : list odesc :=
  match os, k with
  | [], _ => []
  | o :: r, O => {| od_index := od_index o; od_fullname := od_fullname o; od_fields := od_fields o ++ [j] |} :: r
  | o :: r, S k' => o :: oneof_append r k' j
  end.

(* the loop over the fields (in declaration order): required numbers, oneof links;
   [None] = error "invalid oneof index" (protodesc) *)
Fixpoint resolve_fields (fps : list fproto) (fs : list fdesc) (m : mdesc) : option mdesc :=
  match fps, fs with
  | p :: fps', f :: fs' =>
    let req := if Z.eqb (fd_card f) card_required then md_required m ++ [fd_num f] else md_required m in
    match fp_oneof p with
    | None =>
      resolve_fields fps' fs' {| md_fields := md_fields m ++ [f]; md_oneofs := md_oneofs m; md_required := req |}
    | Some k =>
      if Nat.ltb k (length (md_oneofs m)) then
        let f' := {| fd_index := fd_index f; fd_fullname := fd_fullname f; fd_num := fd_num f;
                     fd_card := fd_card f; fd_oneof := Some k |} in
        resolve_fields fps' fs'
          {| md_fields := md_fields m ++ [f']; md_oneofs := oneof_append (md_oneofs m) k (fd_index f);
             md_required := req |}
      else None
    end
  | _, _ => Some m
  end.

Definition build_message (parent : bytes) (fps : list fproto) (onames : list bytes) : option mdesc :=
  resolve_fields fps (init_fields parent 0 fps)
    {| md_fields := []; md_oneofs := init_oneofs parent 0 onames; md_required := [] |}.

(* ---------- batched lookups (the lazily built maps are built once, then queried) ---------- *)
Definition names_has_many (l : list bytes) (keys : list bytes) : list bool :=
  let m := names_init l in
  map (fun s => match gm_get bytes_eqb m s with Some c => (0 <? c)%Z | None => false end) keys.
Definition numbers_has_many (l : list Z) (keys : list Z) : list bool :=
  let m := numbers_init l in
  map (fun n => match gm_get Z.eqb m n with Some _ => true | None => false end) keys.
Definition list_by_name_many (l : list bytes) (keys : list bytes) : list (option nat) :=
  let m := byname_loop 0 l [] in map (gm_get bytes_eqb m) keys.
Definition enumvalues_by_name_many l (keys : list bytes) : list (option nat) :=
  let m := enumvalues_init l in map (gm_get bytes_eqb (ev_name m)) keys.
Definition enumvalues_by_number_many l (keys : list Z) : list (option nat) :=
  let m := enumvalues_init l in map (gm_get Z.eqb (ev_num m)) keys.
Definition fields_by_name_many l (keys : list bytes) := let m := fields_init l in map (gm_get bytes_eqb (fm_name m)) keys.
Definition fields_by_json_many l (keys : list bytes) := let m := fields_init l in map (gm_get bytes_eqb (fm_json m)) keys.
Definition fields_by_text_many l (keys : list bytes) := let m := fields_init l in map (gm_get bytes_eqb (fm_text m)) keys.
Definition fields_by_number_many l (keys : list Z) := let m := fields_init l in map (gm_get Z.eqb (fm_num m)) keys.
Definition oneof_by_name_many l (keys : list bytes) := let m := oneof_init l in map (gm_get bytes_eqb (fm_name m)) keys.
Definition oneof_by_json_many l (keys : list bytes) := let m := oneof_init l in map (gm_get bytes_eqb (fm_json m)) keys.
Definition oneof_by_text_many l (keys : list bytes) := let m := oneof_init l in map (gm_get bytes_eqb (fm_text m)) keys.
Definition oneof_by_number_many l (keys : list Z) := let m := oneof_init l in map (gm_get Z.eqb (fm_num m)) keys.
