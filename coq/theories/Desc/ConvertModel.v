(* Desc/ConvertModel.v -- model of reflect/protodesc (NewFile / ToFileDescriptorProto)
   and of the raw-descriptor builder internal/filedesc (Builder.Build), for C34 and C37.

   Definitions only (proofs: ConvertP.v).  Strings are [list byte]; full names are dotted
   byte strings exactly as in the Go code (protoreflect.FullName).

   What is modelled (following the code):
   * desc_init.go   makeBase (child full name, enum values scoped in the enum's parent,
                    "already declared"), initFields/initExtension (label->cardinality,
                    LEGACY_REQUIRED->Required, MessageKind+DELIMITED->GroupKind, explicit packed
                    overriding the feature, lazy, proto3_optional, explicit json_name),
                    editions.go mergeEditionFeatures (child over parent, per feature);
   * desc_resolve.go findDescriptor (innermost scope first; leading dot = absolute; local
                    declarations before the remote registry; remote restricted to imports),
                    findTarget / findMessageDescriptor / findEnumDescriptor, oneof index bounds,
                    the map-entry exception for GroupKind; defaults are carried through a
                    canonicalisation function (C39 owns its definition);
   * proto.go       ToFileDescriptorProto and friends;
   * filedesc       desc_init.go/desc_lazy.go: the same resolved records built from the decoded
                    proto, with the builder's own reference lookup (exact full name; local
                    messages/enums by kind, then registry, else placeholder), its wire-order
                    treatment of FieldOptions (packed, lazy, features) and its handling of
                    the lazy option on extensions.
   Not modelled: validation (desc_validate.go, C35), source locations, service methods,
   option_dependency, placeholders under AllowUnresolvable. *)
From Coq Require Import List NArith ZArith Bool.
From PB Require Import Base.PBytes.
Import ListNotations.
Open Scope N_scope.

Definition bytes := list byte.

(* ------------------------------------------------------------------ results *)
Inductive Res (A : Type) : Type :=
| Ok (a : A)
| Err (e : N).   (* 1 = declaration error (makeBase), 2 = resolution error, 3 = builder panic *)
Arguments Ok {A} a.
Arguments Err {A} e.

Definition bind {A B} (r : Res A) (f : A -> Res B) : Res B :=
  match r with Ok a => f a | Err e => Err e end.

Fixpoint mapM {A B} (f : A -> Res B) (l : list A) : Res (list B) :=
  match l with
  | [] => Ok []
  | x :: r => bind (f x) (fun y => bind (mapM f r) (fun ys => Ok (y :: ys)))
  end.

(* ------------------------------------------------------------------ names *)
Definition beq_byte (a b : byte) : bool := Byte.eqb a b.
Fixpoint beq (a b : bytes) : bool :=
  match a, b with
  | [], [] => true
  | x :: r, y :: s => beq_byte x y && beq r s
  | _, _ => false
  end.

Definition c_dot : byte := "."%byte.
Definition c_us : byte := "_"%byte.
Definition is_dot (c : byte) : bool := beq_byte c c_dot.
Definition is_lower (c : byte) : bool := (97 <=? b2n c) && (b2n c <=? 122).
Definition is_upper (c : byte) : bool := (65 <=? b2n c) && (b2n c <=? 90).
Definition is_digit (c : byte) : bool := (48 <=? b2n c) && (b2n c <=? 57).
Definition is_letter (c : byte) : bool := beq_byte c c_us || is_lower c || is_upper c.
Definition is_letter_or_digit (c : byte) : bool := is_letter c || is_digit c.

(* protoreflect.Name.IsValid *)
Definition ident_ok (s : bytes) : bool :=
  match s with
  | [] => false
  | c :: r => is_letter c && forallb is_letter_or_digit r
  end.

(* segments of a dotted string; [split_dots "" = [""]] *)
Fixpoint split_dots (s : bytes) : list bytes :=
  match s with
  | [] => [[]]
  | c :: r =>
      if is_dot c then [] :: split_dots r
      else match split_dots r with
           | [] => [[c]]
           | h :: t => (c :: h) :: t
           end
  end.

(* protoreflect.FullName.IsValid *)
Definition fullname_ok (s : bytes) : bool := forallb ident_ok (split_dots s).

(* (text before the last dot, text after it) *)
Fixpoint split_last (s : bytes) : option (bytes * bytes) :=
  match s with
  | [] => None
  | c :: r =>
      match split_last r with
      | Some (a, b) => Some (c :: a, b)
      | None => if is_dot c then Some ([], r) else None
      end
  end.

(* FullName.Parent / FullName.Name / FullName.Append *)
Definition fn_parent (s : bytes) : bytes := match split_last s with Some (a, _) => a | None => [] end.
Definition fn_name (s : bytes) : bytes := match split_last s with Some (_, b) => b | None => s end.
Definition fn_append (p n : bytes) : bytes := match p with [] => n | _ => p ++ c_dot :: n end.

(* strs.JSONCamelCase *)
Fixpoint json_camel_go (s : bytes) (was_us : bool) : bytes :=
  match s with
  | [] => []
  | c :: r =>
      if beq_byte c c_us then json_camel_go r true
      else (if was_us && is_lower c then n2b (b2n c - 32) else c) :: json_camel_go r false
  end.
Definition json_camel (s : bytes) : bytes := json_camel_go s false.

(* ------------------------------------------------------------------ features *)
(* FeatureSet as written in an options message: raw enum numbers, None = unset *)
Record FeatOv := mkFeatOv {
  fo_presence : option N;   (* 1 EXPLICIT 2 IMPLICIT 3 LEGACY_REQUIRED *)
  fo_enum : option N;       (* 1 OPEN 2 CLOSED *)
  fo_rep : option N;        (* 1 PACKED 2 EXPANDED *)
  fo_utf8 : option N;       (* 2 VERIFY 3 NONE *)
  fo_msgenc : option N;     (* 1 LENGTH_PREFIXED 2 DELIMITED *)
  fo_json : option N;       (* 1 ALLOW 2 LEGACY_BEST_EFFORT *)
  fo_rest : bytes           (* everything else, opaque *)
}.

(* filedesc.EditionFeatures (the part with accessors behind it) *)
Record EF := mkEF {
  ef_presence : bool; ef_legacy_req : bool; ef_open : bool; ef_packed : bool;
  ef_utf8 : bool; ef_delim : bool; ef_json : bool
}.

Definition ov {A} (o : option N) (f : N -> A) (d : A) : A := match o with Some v => f v | None => d end.

(* mergeEditionFeatures / unmarshalFeatureSet: child over parent *)
Definition merge_feat (p : EF) (c : option FeatOv) : EF :=
  match c with
  | None => p
  | Some c =>
    mkEF (ov (fo_presence c) (fun v => (v =? 1) || (v =? 3)) (ef_presence p))
         (ov (fo_presence c) (fun v => v =? 3) (ef_legacy_req p))
         (ov (fo_enum c) (fun v => v =? 1) (ef_open p))
         (ov (fo_rep c) (fun v => v =? 1) (ef_packed p))
         (ov (fo_utf8 c) (fun v => v =? 2) (ef_utf8 p))
         (ov (fo_msgenc c) (fun v => v =? 2) (ef_delim p))
         (ov (fo_json c) (fun v => v =? 1) (ef_json p))
  end.

(* defaults per edition (internal/editiondefaults): 998 proto2, 999 proto3, >= 1000 editions *)
Definition ef_defaults (edition : N) : EF :=
  if edition =? 998 then mkEF true false false false false false false
  else if edition =? 999 then mkEF false false true true true false true
  else mkEF true false true true true false true.

(* ------------------------------------------------------------------ descriptor-proto AST *)
Record FieldOpts := mkFieldOpts { o_packed : option bool; o_lazy : option bool; o_feat : option FeatOv; o_rest : bytes }.
Record MsgOpts := mkMsgOpts { mo_map_entry : option bool; mo_feat : option FeatOv; mo_rest : bytes }.
Record GenOpts := mkGenOpts { go_feat : option FeatOv; go_rest : bytes }.   (* file / enum / oneof options *)

Record FieldP := mkFieldP {
  f_name : bytes; f_number : Z; f_label : N; f_type : option N;
  f_type_name : option bytes; f_extendee : option bytes; f_default : option bytes;
  f_oneof_index : option Z; f_json_name : option bytes; f_p3opt : option bool;
  f_opts : option FieldOpts
}.
Record EnumValP := mkEnumValP { ev_name : bytes; ev_number : Z; ev_opts : option bytes }.
Record EnumP := mkEnumP {
  e_name : bytes; e_values : list EnumValP; e_rranges : list (Z * Z); e_rnames : list bytes;
  e_opts : option GenOpts; e_vis : N
}.
Record OneofP := mkOneofP { o_name : bytes; o_opts : option GenOpts }.
Inductive MsgP :=
| mkMsgP (name : bytes) (fields exts : list FieldP) (nested : list MsgP) (enums : list EnumP)
         (xranges : list (Z * Z * option bytes)) (oneofs : list OneofP)
         (rranges : list (Z * Z)) (rnames : list bytes) (opts : option MsgOpts) (vis : N).
Record SvcP := mkSvcP { s_name : bytes; s_methods : list bytes (* method names *); s_opts : option bytes }.
Record FileP := mkFileP {
  fp_name : option bytes; fp_package : option bytes; fp_syntax : option bytes; fp_edition : option N;
  fp_deps : list bytes; fp_public : list Z;
  fp_msgs : list MsgP; fp_enums : list EnumP; fp_exts : list FieldP; fp_svcs : list SvcP;
  fp_opts : option GenOpts
}.

Definition m_name (m : MsgP) : bytes := match m with mkMsgP n _ _ _ _ _ _ _ _ _ _ => n end.
Definition m_opts (m : MsgP) : option MsgOpts := match m with mkMsgP _ _ _ _ _ _ _ _ _ o _ => o end.
Definition opt_get {A} (o : option A) (d : A) : A := match o with Some a => a | None => d end.
Definition msg_is_map_entry (o : option MsgOpts) : bool :=
  match o with Some o => opt_get (mo_map_entry o) false | None => false end.
Definition msg_feat (o : option MsgOpts) : option FeatOv := match o with Some o => mo_feat o | None => None end.
Definition gen_feat (o : option GenOpts) : option FeatOv := match o with Some o => go_feat o | None => None end.
Definition field_feat (o : option FieldOpts) : option FeatOv := match o with Some o => o_feat o | None => None end.

(* ------------------------------------------------------------------ declarations (descsByName) *)
(* kinds of a declaration as the lookup sees them *)
Definition K_OTHER : N := 0.
Definition K_MSG : N := 1.
Definition K_ENUM : N := 2.
Record Decl := mkDecl { d_full : bytes; d_name : bytes; d_kind : N; d_mapentry : bool }.

Definition decl (scope name : bytes) (k : N) (me : bool) : Decl := mkDecl (fn_append scope name) name k me.

(* declaration order of makeBase calls *)
Definition decls_enum (scope : bytes) (e : EnumP) : list Decl :=
  decl scope (e_name e) K_ENUM false
  :: map (fun v => decl (fn_parent (fn_append scope (e_name e))) (ev_name v) K_OTHER false) (e_values e).

Fixpoint decls_msg (scope : bytes) (m : MsgP) : list Decl :=
  match m with
  | mkMsgP name fields exts nested enums _ oneofs _ _ opts _ =>
      let full := fn_append scope name in
      decl scope name K_MSG (msg_is_map_entry opts)
      :: map (fun f => decl full (f_name f) K_OTHER false) fields
      ++ map (fun o => decl full (o_name o) K_OTHER false) oneofs
      ++ flat_map (decls_enum full) enums
      ++ flat_map (decls_msg full) nested
      ++ map (fun f => decl full (f_name f) K_OTHER false) exts
  end.

Definition pkg_of (p : FileP) : bytes := opt_get (fp_package p) [].

Definition decls_file (p : FileP) : list Decl :=
  let pkg := pkg_of p in
  flat_map (decls_enum pkg) (fp_enums p)
  ++ flat_map (decls_msg pkg) (fp_msgs p)
  ++ map (fun f => decl pkg (f_name f) K_OTHER false) (fp_exts p)
  ++ flat_map (fun s => decl pkg (s_name s) K_OTHER false
                        :: map (fun m => decl (fn_append pkg (s_name s)) m K_OTHER false) (s_methods s)) (fp_svcs p).

Fixpoint find_decl (tbl : list Decl) (full : bytes) : option Decl :=
  match tbl with
  | [] => None
  | d :: r => if beq (d_full d) full then Some d else find_decl r full
  end.

(* makeBase: every name valid, no full name declared twice *)
Fixpoint decls_check (seen todo : list Decl) : bool :=
  match todo with
  | [] => true
  | d :: r =>
      ident_ok (d_name d)
      && match find_decl seen (d_full d) with Some _ => false | None => true end
      && decls_check (d :: seen) r
  end.

(* ------------------------------------------------------------------ resolver *)
(* what the remote Resolver knows: full name, kind, whether its file is covered by the
   import set (direct imports + transitive public imports), IsMapEntry *)
Record RemoteD := mkRemoteD { r_full : bytes; r_kind : N; r_imported : bool; r_mapentry : bool }.

Fixpoint find_remote (env : list RemoteD) (full : bytes) : option RemoteD :=
  match env with
  | [] => None
  | d :: r => if beq (r_full d) full then Some d else find_remote r full
  end.

Inductive Lookup :=
| LFound (full : bytes) (kind : N) (mapentry : bool) (local : bool)
| LNotFound
| LNotImported
| LInvalid.

(* partialName *)
Definition pn_is_full (s : bytes) : bool := match s with c :: _ => is_dot c | [] => false end.
Definition pn_strip (s : bytes) : bytes := if pn_is_full s then tl s else s.
Definition pn_valid (s : bytes) : bool := fullname_ok (pn_strip s).

(* the loop of findDescriptor; fuel = number of scope levels still to try *)
Fixpoint find_loop (tbl : list Decl) (env : list RemoteD) (fuel : nat) (scope ref : bytes) (nimp : bool) : Lookup :=
  let s := fn_append scope ref in
  match find_decl tbl s with
  | Some d => LFound s (d_kind d) (d_mapentry d) true
  | None =>
      let hit := find_remote env s in
      match hit with
      | Some r => if r_imported r then LFound s (r_kind r) (r_mapentry r) false
                  else match scope, fuel with
                       | [], _ => LNotImported
                       | _, O => LNotImported
                       | _, S k => find_loop tbl env k (fn_parent scope) ref true
                       end
      | None => match scope, fuel with
                | [], _ => if nimp then LNotImported else LNotFound
                | _, O => if nimp then LNotImported else LNotFound
                | _, S k => find_loop tbl env k (fn_parent scope) ref nimp
                end
      end
  end.

Definition find_descriptor (tbl : list Decl) (env : list RemoteD) (scope ref : bytes) : Lookup :=
  if negb (pn_valid ref) then LInvalid
  else if pn_is_full ref then find_loop tbl env O [] (pn_strip ref) false
  else find_loop tbl env (length scope) scope ref false.

(* a resolved reference to a message or enum *)
Record TRef := mkTRef { t_full : bytes; t_mapentry : bool; t_placeholder : bool }.

Definition find_kind (want : N) (tbl : list Decl) (env : list RemoteD) (scope ref : bytes) : Res TRef :=
  match find_descriptor tbl env scope ref with
  | LFound full k me _ => if k =? want then Ok (mkTRef full me false) else Err 2
  | _ => Err 2
  end.

(* protoreflect.Kind numbers *)
Definition KIND_ENUM : N := 14.
Definition KIND_MESSAGE : N := 11.
Definition KIND_GROUP : N := 10.
Definition kind_valid (k : N) : bool := (1 <=? k) && (k <=? 18).

(* findTarget: (kind, enum, message) *)
Definition find_target (tbl : list Decl) (env : list RemoteD) (k : N) (scope : bytes) (ref : bytes)
  : Res (N * option TRef * option TRef) :=
  if k =? KIND_ENUM then bind (find_kind K_ENUM tbl env scope ref) (fun t => Ok (k, Some t, None))
  else if (k =? KIND_MESSAGE) || (k =? KIND_GROUP) then
    bind (find_kind K_MSG tbl env scope ref) (fun t => Ok (k, None, Some t))
  else if k =? 0 then
    match find_descriptor tbl env scope ref with
    | LFound full dk me _ =>
        if dk =? K_ENUM then Ok (KIND_ENUM, Some (mkTRef full me false), None)
        else if dk =? K_MSG then Ok (KIND_MESSAGE, None, Some (mkTRef full me false))
        else Err 2
    | _ => Err 2
    end
  else match ref with
       | _ :: _ => Err 2
       | [] => if kind_valid k then Ok (k, None, None) else Err 2
       end.

(* ------------------------------------------------------------------ resolved descriptors *)
Record RField := mkRField {
  rf_full : bytes; rf_number : Z; rf_card : N; rf_kind : N;
  rf_json : option bytes;            (* explicit json_name (StringName.InitJSON) *)
  rf_p3opt : bool; rf_lazy : bool;
  rf_default : option bytes;         (* canonical text of the default value *)
  rf_oneof : option nat;             (* index of the containing oneof *)
  rf_msg : option TRef; rf_enum : option TRef;
  rf_extendee : option TRef;         (* Some for extensions *)
  rf_ef : EF; rf_opts : option FieldOpts
}.
Record REnumVal := mkREnumVal { rv_full : bytes; rv_number : Z; rv_opts : option bytes }.
Record REnum := mkREnum {
  re_full : bytes; re_values : list REnumVal; re_rranges : list (Z * Z); re_rnames : list bytes;
  re_ef : EF; re_opts : option GenOpts; re_vis : N
}.
Record ROneof := mkROneof { ro_full : bytes; ro_opts : option GenOpts }.
Inductive RMsg :=
| mkRMsg (full : bytes) (mapentry : bool) (fields : list RField) (oneofs : list ROneof)
         (enums : list REnum) (msgs : list RMsg) (exts : list RField)
         (xranges : list (Z * Z * option bytes)) (rranges : list (Z * Z)) (rnames : list bytes)
         (ef : EF) (opts : option MsgOpts) (vis : N).
Record RSvc := mkRSvc { rs_full : bytes; rs_methods : list bytes (* method full names *); rs_opts : option bytes }.
Record RFile := mkRFile {
  rfl_path : bytes; rfl_package : bytes;
  rfl_syntax : N;       (* protoreflect.Syntax: 2 proto2, 3 proto3, 4 editions *)
  rfl_edition : N; rfl_ef : EF;
  rfl_deps : list bytes; rfl_public : list Z;
  rfl_enums : list REnum; rfl_msgs : list RMsg; rfl_exts : list RField; rfl_svcs : list RSvc;
  rfl_opts : option GenOpts
}.

(* ------------------------------------------------------------------ construction strategies *)
(* The two builders share the traversal below and differ in these three points. *)
Record Strategy := mkStrategy {
  (* resolve a reference to a declaration of the wanted kind (K_MSG / K_ENUM) *)
  st_ref : N -> list Decl -> list RemoteD -> bytes -> bytes -> Res TRef;
  (* resolved features of an enum from its parent's and its own options *)
  st_enum_ef : EF -> option GenOpts -> EF;
  (* IsPacked feature of a field after looking at its options *)
  st_field_ef : EF -> option FieldOpts -> EF;
  (* IsLazy of an extension *)
  st_ext_lazy : option FieldOpts -> bool;
  (* what to do with a field that has no type (kind 0) *)
  st_kind0 : bool
}.

Definition opts_lazy (o : option FieldOpts) : bool :=
  match o with Some o => opt_get (o_lazy o) false | None => false end.

(* protodesc: features merged first, an explicit packed option then overrides IsPacked *)
Definition pd_field_ef (parent : EF) (o : option FieldOpts) : EF :=
  let e := merge_feat parent (field_feat o) in
  match o with
  | Some o => match o_packed o with
              | Some b => mkEF (ef_presence e) (ef_legacy_req e) (ef_open e) b (ef_utf8 e) (ef_delim e) (ef_json e)
              | None => e
              end
  | None => e
  end.

(* filedesc (Field.unmarshalOptions): the options message is scanned in wire order, which for
   the canonical encoding is field-number order: packed (2), lazy (5), features (21) *)
Definition fd_field_ef (parent : EF) (o : option FieldOpts) : EF :=
  match o with
  | Some o =>
      let e := match o_packed o with
               | Some b => mkEF (ef_presence parent) (ef_legacy_req parent) (ef_open parent) b
                                (ef_utf8 parent) (ef_delim parent) (ef_json parent)
               | None => parent
               end in
      merge_feat e (o_feat o)
  | None => parent
  end.

Definition PD : Strategy :=
  mkStrategy find_kind
             (fun parent o => merge_feat parent (gen_feat o))
             pd_field_ef
             (fun _ => false)          (* initExtensionDeclarations never sets IsLazy *)
             true.

(* filedesc reference lookup: the name must be absolute (makeFullName panics otherwise); local
   declarations of the wanted kind by exact full name, then the registry (no import check;
   a descriptor of the wrong kind makes the type assertion panic), else a placeholder *)
Fixpoint find_decl_kind (tbl : list Decl) (k : N) (full : bytes) : option Decl :=
  match tbl with
  | [] => None
  | d :: r => if (d_kind d =? k) && beq (d_full d) full then Some d else find_decl_kind r k full
  end.

Definition fd_ref (want : N) (tbl : list Decl) (env : list RemoteD) (scope ref : bytes) : Res TRef :=
  if negb (pn_is_full ref) then Err 3
  else
    let full := pn_strip ref in
    match find_decl_kind tbl want full with
    | Some d => Ok (mkTRef full (d_mapentry d) false)
    | None =>
        match find_remote env full with
        | Some r => if r_kind r =? want then Ok (mkTRef full (r_mapentry r) false) else Err 3
        | None => Ok (mkTRef full false true)
        end
    end.

Definition FD : Strategy :=
  mkStrategy fd_ref
             (fun parent o => merge_feat parent (gen_feat o))  (* Enum.unmarshalSeedOptions: EnumOptions.features *)
             fd_field_ef
             opts_lazy
             false.

(* ------------------------------------------------------------------ the traversal *)
Section Resolve.
  Variable canon : N -> bytes -> bytes.      (* canonical text of a default value of a kind (C39) *)
  Variable S : Strategy.
  Variable tbl : list Decl.
  Variable env : list RemoteD.

  Definition res_enum (scope : bytes) (parent : EF) (e : EnumP) : Res REnum :=
    let full := fn_append scope (e_name e) in
    Ok (mkREnum full
                (map (fun v => mkREnumVal (fn_append (fn_parent full) (ev_name v)) (ev_number v) (ev_opts v)) (e_values e))
                (e_rranges e) (e_rnames e) (st_enum_ef S parent (e_opts e)) (e_opts e) (e_vis e)).

  (* kind after initFields: explicit type, MessageKind+DELIMITED -> GroupKind *)
  Definition kind0 (ef : EF) (f : FieldP) : N :=
    let k := opt_get (f_type f) 0 in
    if (k =? KIND_MESSAGE) && ef_delim ef then KIND_GROUP else k.

  Definition card_of (ef : EF) (f : FieldP) (is_ext : bool) : N :=
    if negb is_ext && ef_legacy_req ef then 2 else f_label f.

  (* the (kind, enum, message) triple of a field *)
  Definition res_target (k : N) (scope : bytes) (f : FieldP) : Res (N * option TRef * option TRef) :=
    let ref := opt_get (f_type_name f) [] in
    if k =? KIND_ENUM then bind (st_ref S K_ENUM tbl env scope ref) (fun t => Ok (k, Some t, None))
    else if (k =? KIND_MESSAGE) || (k =? KIND_GROUP) then
      bind (st_ref S K_MSG tbl env scope ref) (fun t => Ok (k, None, Some t))
    else if k =? 0 then
      (if st_kind0 S then find_target tbl env 0 scope ref else Ok (0, None, None))
    else if st_kind0 S then find_target tbl env k scope ref
    else Ok (k, None, None).

  Definition tref_mapentry (t : option TRef) : bool := match t with Some t => t_mapentry t | None => false end.

  (* a field of a message *)
  Definition res_field (scope : bytes) (parent : EF) (parent_mapentry : bool) (noneofs : nat) (f : FieldP) : Res RField :=
    let ef := st_field_ef S parent (f_opts f) in
    bind (match f_oneof_index f with
          | None => Ok None
          | Some k => if (0 <=? k)%Z && (Z.to_nat k <? noneofs)%nat then Ok (Some (Z.to_nat k)) else Err 2
          end) (fun oneof =>
    bind (res_target (kind0 ef f) scope f) (fun kem =>
    let '(k, en, ms) := kem in
    let k := if (k =? KIND_GROUP) && (tref_mapentry ms || parent_mapentry) then KIND_MESSAGE else k in
    Ok (mkRField (fn_append scope (f_name f)) (f_number f) (card_of ef f false) k
                 (f_json_name f) (opt_get (f_p3opt f) false) (opts_lazy (f_opts f))
                 (option_map (canon k) (f_default f)) oneof ms en None ef (f_opts f)))).

  (* an extension declared in [scope] *)
  Definition res_ext (scope : bytes) (parent : EF) (f : FieldP) : Res RField :=
    let ef := st_field_ef S parent (f_opts f) in
    bind (st_ref S K_MSG tbl env scope (opt_get (f_extendee f) [])) (fun xt =>
    bind (res_target (kind0 ef f) scope f) (fun kem =>
    let '(k, en, ms) := kem in
    Ok (mkRField (fn_append scope (f_name f)) (f_number f) (f_label f) k
                 (f_json_name f) (opt_get (f_p3opt f) false) (st_ext_lazy S (f_opts f))
                 (option_map (canon k) (f_default f)) None ms en (Some xt) ef (f_opts f)))).

  Fixpoint res_msg (scope : bytes) (parent : EF) (m : MsgP) : Res RMsg :=
    match m with
    | mkMsgP name fields exts nested enums xranges oneofs rranges rnames opts vis =>
        let full := fn_append scope name in
        let ef := merge_feat parent (msg_feat opts) in
        let me := msg_is_map_entry opts in
        bind (mapM (res_field full ef me (length oneofs)) fields) (fun rfields =>
        bind (mapM (res_enum full ef) enums) (fun renums =>
        bind ((fix go (l : list MsgP) : Res (list RMsg) :=
                 match l with
                 | [] => Ok []
                 | x :: r => bind (res_msg full ef x) (fun y => bind (go r) (fun ys => Ok (y :: ys)))
                 end) nested) (fun rmsgs =>
        bind (mapM (res_ext full ef) exts) (fun rexts =>
        Ok (mkRMsg full me rfields
                   (map (fun o => mkROneof (fn_append full (o_name o)) (o_opts o)) oneofs)
                   renums rmsgs rexts xranges rranges rnames ef opts vis)))))
    end.

  (* desc.go New: syntax / edition *)
  Definition syntax_of (p : FileP) : option (N * N) :=   (* (Syntax, Edition) *)
    let s := opt_get (fp_syntax p) [] in
    if beq s [] || beq s ("p" :: "r" :: "o" :: "t" :: "o" :: "2" :: nil)%byte then Some (2, 998)
    else if beq s ("p" :: "r" :: "o" :: "t" :: "o" :: "3" :: nil)%byte then Some (3, 999)
    else if beq s ("e" :: "d" :: "i" :: "t" :: "i" :: "o" :: "n" :: "s" :: nil)%byte then Some (4, opt_get (fp_edition p) 0)
    else None.

  Definition res_file (p : FileP) : Res RFile :=
    match syntax_of p with
    | None => Err 1
    | Some (syn, ed) =>
        let pkg := pkg_of p in
        let ef := merge_feat (ef_defaults ed) (gen_feat (fp_opts p)) in
        bind (mapM (res_enum pkg ef) (fp_enums p)) (fun renums =>
        bind (mapM (res_msg pkg ef) (fp_msgs p)) (fun rmsgs =>
        bind (mapM (res_ext pkg ef) (fp_exts p)) (fun rexts =>
        Ok (mkRFile (opt_get (fp_name p) []) pkg syn ed ef (fp_deps p) (fp_public p)
                    renums rmsgs rexts
                    (map (fun s => mkRSvc (fn_append pkg (s_name s))
                                          (map (fn_append (fn_append pkg (s_name s))) (s_methods s)) (s_opts s)) (fp_svcs p))
                    (fp_opts p)))))
    end.
End Resolve.

(* protodesc.NewFile (without validation): declarations are checked first (makeBase), then
   every reference is resolved *)
Definition new_file (canon : N -> bytes -> bytes) (env : list RemoteD) (p : FileP) : Res RFile :=
  match fp_name p with
  | None | Some [] => Err 1        (* "file path must be populated" *)
  | Some _ =>
  if negb (beq (pkg_of p) [] || fullname_ok (pkg_of p)) then Err 1
  else
    let tbl := decls_file p in
    match syntax_of p with
    | None => Err 1
    | Some _ => if decls_check [] tbl then res_file canon PD tbl env p else Err 1
    end
  end.

(* filedesc.Builder.Build on the decoded proto: no declaration checks *)
Definition fd_build (canon : N -> bytes -> bytes) (env : list RemoteD) (p : FileP) : Res RFile :=
  res_file canon FD (decls_file p) env p.

(* ------------------------------------------------------------------ accessors *)
Definition rf_is_ext (f : RField) : bool := match rf_extendee f with Some _ => true | None => false end.

(* Field.HasPresence / Extension.HasPresence *)
Definition has_presence (f : RField) : bool :=
  if rf_card f =? 3 then false
  else rf_is_ext f || ef_presence (rf_ef f)
       || (match rf_msg f with Some _ => true | None => false end)
       || (match rf_oneof f with Some _ => true | None => false end).

(* IsPacked *)
Definition is_packed (f : RField) : bool :=
  if negb (rf_card f =? 3) then false
  else if (rf_kind f =? 9) || (rf_kind f =? 12) || (rf_kind f =? KIND_MESSAGE) || (rf_kind f =? KIND_GROUP) then false
  else ef_packed (rf_ef f).

Definition is_map (f : RField) : bool := negb (rf_is_ext f) && tref_mapentry (rf_msg f).
Definition is_list (f : RField) : bool := (rf_card f =? 3) && negb (is_map f).

(* HasOptionalKeyword; syntax = protoreflect.Syntax of the file *)
Definition has_optional_keyword (syntax : N) (f : RField) : bool :=
  ((syntax =? 2) && (rf_card f =? 1) && (rf_is_ext f || match rf_oneof f with None => true | Some _ => false end))
  || rf_p3opt f.

Definition c_lb : byte := "["%byte.
Definition c_rb : byte := "]"%byte.
(* JSONName (MessageSet extensions are not modelled) *)
Definition json_name (f : RField) : bytes :=
  if rf_is_ext f then c_lb :: rf_full f ++ [c_rb]
  else match rf_json f with Some j => j | None => json_camel (fn_name (rf_full f)) end.
Definition has_json_name (f : RField) : bool := match rf_json f with Some _ => true | None => false end.

Definition oneof_members (fields : list RField) (idx : nat) : list RField :=
  filter (fun f => match rf_oneof f with Some k => Nat.eqb k idx | None => false end) fields.

(* Oneof.IsSynthetic *)
Definition is_synthetic (syntax : N) (fields : list RField) (idx : nat) : bool :=
  (syntax =? 3) &&
  match oneof_members fields idx with
  | [f] => has_optional_keyword syntax f
  | _ => false
  end.

Definition required_numbers (fields : list RField) : list Z :=
  map rf_number (filter (fun f => rf_card f =? 2) fields).

(* ------------------------------------------------------------------ ToFileDescriptorProto *)
Definition tref_name (t : TRef) : bytes := c_dot :: t_full t.   (* fullNameOf *)

Definition field_to_proto (syntax : N) (f : RField) : FieldP :=
  let ty0 := if kind_valid (rf_kind f) then Some (rf_kind f) else None in
  let ty := if (syntax =? 4) then match ty0 with Some k => if k =? KIND_GROUP then Some KIND_MESSAGE else ty0 | None => None end else ty0 in
  let lab := if (syntax =? 4) && (rf_card f =? 2) then 1 else rf_card f in
  mkFieldP (fn_name (rf_full f)) (rf_number f) lab ty
           (match rf_msg f with Some t => Some (tref_name t)
                              | None => match rf_enum f with Some t => Some (tref_name t) | None => None end end)
           (option_map tref_name (rf_extendee f))
           (rf_default f)
           (option_map Z.of_nat (rf_oneof f))
           (if has_json_name f then
              Some (if rf_is_ext f then json_camel (fn_name (rf_full f)) else json_name f)
            else None)
           (if (syntax =? 3) && has_optional_keyword syntax f then Some true else None)
           (rf_opts f).

Definition enum_to_proto (e : REnum) : EnumP :=
  mkEnumP (fn_name (re_full e))
          (map (fun v => mkEnumValP (fn_name (rv_full v)) (rv_number v) (rv_opts v)) (re_values e))
          (re_rranges e) (re_rnames e) (re_opts e) (re_vis e).

Fixpoint msg_to_proto (syntax : N) (m : RMsg) : MsgP :=
  match m with
  | mkRMsg full _ fields oneofs enums msgs exts xranges rranges rnames _ opts vis =>
      mkMsgP (fn_name full)
             (map (field_to_proto syntax) fields)
             (map (field_to_proto syntax) exts)
             (map (msg_to_proto syntax) msgs)
             (map enum_to_proto enums)
             xranges
             (map (fun o => mkOneofP (fn_name (ro_full o)) (ro_opts o)) oneofs)
             rranges rnames opts vis
  end.

Definition syntax_text (syn : N) : option bytes :=
  if syn =? 3 then Some ("p" :: "r" :: "o" :: "t" :: "o" :: "3" :: nil)%byte
  else if syn =? 4 then Some ("e" :: "d" :: "i" :: "t" :: "i" :: "o" :: "n" :: "s" :: nil)%byte
  else None.

Definition to_proto (d : RFile) : FileP :=
  let syn := rfl_syntax d in
  mkFileP (Some (rfl_path d))
          (match rfl_package d with [] => None | p => Some p end)
          (syntax_text syn)
          (if syn =? 4 then Some (rfl_edition d) else None)
          (rfl_deps d) (rfl_public d)
          (map (msg_to_proto syn) (rfl_msgs d))
          (map enum_to_proto (rfl_enums d))
          (map (field_to_proto syn) (rfl_exts d))
          (map (fun s => mkSvcP (fn_name (rs_full s)) (map fn_name (rs_methods s)) (rs_opts s)) (rfl_svcs d))
          (rfl_opts d).

(* ------------------------------------------------------------------ normalisation *)
(* [normalize env p] is what ToFileDescriptorProto (NewFile p) is claimed to be:
   - type_name / extendee become "." ++ the full name they resolve to;
   - an unset type is filled in from the resolved declaration;
   - syntax "proto2" and an empty package are dropped; edition is kept only for editions;
   - proto3_optional is kept only when it is true in a proto3 file;
   - default values are replaced by their canonical text;
   - an extension's json_name is replaced by the camel-cased field name;
   - (editions) TYPE_GROUP is written TYPE_MESSAGE, LABEL_REQUIRED is written LABEL_OPTIONAL;
     a message field under DELIMITED keeps TYPE_MESSAGE; LEGACY_REQUIRED keeps LABEL_OPTIONAL;
   - (proto2/3) a TYPE_GROUP field of / into a map entry is written TYPE_MESSAGE; LEGACY_REQUIRED
     or DELIMITED features in a non-editions file show up as LABEL_REQUIRED / TYPE_GROUP;
   - an oneof_index on an extension and an extendee on a plain field are dropped.
   Everything else is unchanged. *)
Section Normalize.
  Variable canon : N -> bytes -> bytes.
  Variable tbl : list Decl.
  Variable env : list RemoteD.
  Variable syntax : N.

  Definition abs_ref (want : N) (scope : bytes) (ref : bytes) : option bytes :=
    match find_kind want tbl env scope ref with Ok t => Some (tref_name t) | Err _ => None end.

  Definition out_type (k : N) : option N :=
    if kind_valid k then Some (if (syntax =? 4) && (k =? KIND_GROUP) then KIND_MESSAGE else k) else None.
  Definition out_label (c : N) : N := if (syntax =? 4) && (c =? 2) then 1 else c.

  Definition norm_field (scope : bytes) (parent : EF) (parent_mapentry : bool) (is_ext : bool) (f : FieldP) : FieldP :=
    let ef := pd_field_ef parent (f_opts f) in
    let k0 := kind0 ef f in
    let ref := opt_get (f_type_name f) [] in
    let tgt := find_target tbl env k0 scope ref in
    let k1 := match tgt with Ok (k, _, _) => k | Err _ => k0 end in
    let ms := match tgt with Ok (_, _, ms) => ms | Err _ => None end in
    let en := match tgt with Ok (_, en, _) => en | Err _ => None end in
    let k := if negb is_ext && (k1 =? KIND_GROUP) && (tref_mapentry ms || parent_mapentry) then KIND_MESSAGE else k1 in
    let p3 := opt_get (f_p3opt f) false in
    let optkw := ((syntax =? 2) && (card_of ef f is_ext =? 1)
                  && (is_ext || match f_oneof_index f with None => true | Some _ => false end)) || p3 in
    mkFieldP (f_name f) (f_number f) (out_label (card_of ef f is_ext)) (out_type k)
             (match ms with Some t => Some (tref_name t)
                          | None => match en with Some t => Some (tref_name t) | None => None end end)
             (if is_ext then abs_ref K_MSG scope (opt_get (f_extendee f) []) else None)
             (option_map (canon k) (f_default f))
             (if is_ext then None else option_map (fun z => Z.of_nat (Z.to_nat z)) (f_oneof_index f))
             (match f_json_name f with
              | Some j => Some (if is_ext then json_camel (f_name f) else j)
              | None => None end)
             (if (syntax =? 3) && optkw then Some true else None)
             (f_opts f).

  Fixpoint norm_msg (scope : bytes) (parent : EF) (m : MsgP) : MsgP :=
    match m with
    | mkMsgP name fields exts nested enums xranges oneofs rranges rnames opts vis =>
        let full := fn_append scope name in
        let ef := merge_feat parent (msg_feat opts) in
        let me := msg_is_map_entry opts in
        mkMsgP name
               (map (norm_field full ef me false) fields)
               (map (norm_field full ef false true) exts)
               (map (norm_msg full ef) nested)
               enums xranges oneofs rranges rnames opts vis
    end.
End Normalize.

Definition normalize (canon : N -> bytes -> bytes) (env : list RemoteD) (p : FileP) : FileP :=
  match syntax_of p with
  | None => p
  | Some (syn, ed) =>
      let tbl := decls_file p in
      let pkg := pkg_of p in
      let ef := merge_feat (ef_defaults ed) (gen_feat (fp_opts p)) in
      mkFileP (Some (opt_get (fp_name p) []))
              (match pkg with [] => None | _ => Some pkg end)
              (syntax_text syn)
              (if syn =? 4 then Some ed else None)
              (fp_deps p) (fp_public p)
              (map (norm_msg canon tbl env syn pkg ef) (fp_msgs p))
              (fp_enums p)
              (map (norm_field canon tbl env syn pkg ef false true) (fp_exts p))
              (fp_svcs p)
              (fp_opts p)
  end.

(* ------------------------------------------------------------------ helpers for the driver *)
Definition lookup_code (l : Lookup) : N :=
  match l with LFound _ _ _ _ => 0 | LNotFound => 1 | LNotImported => 2 | LInvalid => 3 end.
