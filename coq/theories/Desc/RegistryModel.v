(* RegistryModel — executable model of reflect/protoregistry/registry.go (local registries).

   Definitions only (no proofs); extracted to OCaml and run against the implementation by
   family "reg" (harness/cmd/h/fam_reg.go, ocaml/fam_reg.ml).  Proofs: Desc/Registry*P.v,
   statements: Props/C33.v.

   What is modelled
   * [Files]: descsByName (full name -> top-level descriptor or package marker),
     filesByPath, numFiles; RegisterFile (lazy map creation, path / package / name conflict
     checks in the code's order, all checks before any mutation), FindDescriptorByName
     (longest-registered-prefix walk, findDescriptorInMessage in the code's order,
     Methods().ByName(suffix.Pop()), the [d.FullName() == name] checks), FindFileByPath,
     NumFiles, RangeFiles, NumFilesByPackage, RangeFilesByPackage.
   * [Types]: typesByName, extensionsByMessage, the three counters; RegisterMessage/Enum/
     Extension (extension-number check BEFORE the name check), Find*, Num*, Range*.
   Not modelled: GlobalFiles/GlobalTypes (mutex, ignoreConflict policy, genproto check),
   the [flags.ProtoLegacy] MessageSet branch of FindExtensionByName (default build: false),
   error message texts (only error classes), Go map iteration order (ranges are compared
   as sorted sets by the driver).

   Names are byte strings; full names are computed from package + simple names exactly as
   protodesc does (FullName.Append; enum values live in the enum's parent scope).  The
   identity of a descriptor is (kind, file id, full name), the file id being supplied by
   the registration operation (the harness uses the index of the file in its pool). *)
From Coq Require Import List Arith NArith Bool.
From Coq Require Export Strings.Byte.
Import ListNotations.

Definition name := list byte.

Definition dotb : byte := x2e.     (* '.' *)
Definition slashb : byte := x2f.   (* '/' *)
Definition is_dot (b : byte) : bool := Byte.eqb b dotb.
Definition is_slash (b : byte) : bool := Byte.eqb b slashb.

Fixpoint name_eqb (a b : name) : bool :=
  match a, b with
  | [], [] => true
  | x :: a', y :: b' => Byte.eqb x y && name_eqb a' b'
  | _, _ => false
  end.

Definition is_nil {A : Type} (l : list A) : bool := match l with [] => true | _ => false end.
Definition is_some {A : Type} (o : option A) : bool := match o with Some _ => true | None => false end.

(* ---------------------------------------------------------------- Go maps as association lists *)
(* [aget] = m[k] (None for a missing key / nil map), [aput] = m[k] = v (overwrites in place,
   appends a new key at the end). *)
Fixpoint aget {K V : Type} (eqb : K -> K -> bool) (m : list (K * V)) (k : K) : option V :=
  match m with
  | [] => None
  | (k', v) :: r => if eqb k' k then Some v else aget eqb r k
  end.

Fixpoint aput {K V : Type} (eqb : K -> K -> bool) (m : list (K * V)) (k : K) (v : V) : list (K * V) :=
  match m with
  | [] => [(k, v)]
  | (k', v') :: r => if eqb k' k then (k', v) :: r else (k', v') :: aput eqb r k v
  end.

(* ---------------------------------------------------------------- dotted names *)
(* FullName.Append *)
Definition fn_append (parent nm : name) : name :=
  match parent with [] => nm | _ => parent ++ dotb :: nm end.

(* split at the LAST '.': strings.LastIndexByte *)
Fixpoint split_last_dot (s : name) : option (name * name) :=
  match s with
  | [] => None
  | c :: t => match split_last_dot t with
              | Some (a, b) => Some (c :: a, b)
              | None => if is_dot c then Some ([], t) else None
              end
  end.

(* FullName.Parent *)
Definition parent (s : name) : name :=
  match split_last_dot s with Some (a, _) => a | None => [] end.

(* split at the FIRST '.': strings.IndexByte *)
Fixpoint split_first_dot (s : name) : option (name * name) :=
  match s with
  | [] => None
  | c :: t => if is_dot c then Some ([], t)
              else match split_first_dot t with
                   | Some (a, b) => Some (c :: a, b)
                   | None => None
                   end
  end.

(* nameSuffix.Pop: (popped component, remaining suffix) *)
Definition pop (s : name) : name * name :=
  match split_first_dot s with Some p => p | None => (s, []) end.

(* The loop [for n := start; n != ""; n = n.Parent()] enumerates this chain.  Fuel is
   [length start + 1]; [None] = out of fuel (proved unreachable: chain_total). *)
Fixpoint chain_fuel (fuel : nat) (n : name) : option (list name) :=
  match fuel with
  | O => None
  | S fuel' => match n with
               | [] => Some []
               | _ => match chain_fuel fuel' (parent n) with
                      | Some l => Some (n :: l)
                      | None => None
                      end
               end
  end.
Definition chain (n : name) : option (list name) := chain_fuel (S (length n)) n.

(* FindMessageByURL: everything after the last '/' (the whole string without '/') *)
Fixpoint after_last_slash (s : name) : option name :=
  match s with
  | [] => None
  | c :: t => match after_last_slash t with
              | Some r => Some r
              | None => if is_slash c then Some t else None
              end
  end.
Definition url_name (s : name) : name :=
  match after_last_slash s with Some r => r | None => s end.

(* ---------------------------------------------------------------- file values *)
Inductive enum_decl := EnumDecl (en : name) (evals : list name).
Inductive msg_decl :=
  MsgDecl (mn : name) (mmsgs : list msg_decl) (menums : list enum_decl)
          (mexts mfields moneofs : list name).
Inductive svc_decl := SvcDecl (sn : name) (smeths : list name).

Record file := File {
  f_path : name; f_pkg : name;
  f_enums : list enum_decl; f_msgs : list msg_decl; f_exts : list name; f_svcs : list svc_decl }.

Definition enum_name (e : enum_decl) : name := match e with EnumDecl n _ => n end.
Definition enum_values (e : enum_decl) : list name := match e with EnumDecl _ vs => vs end.
Definition msg_name (m : msg_decl) : name := match m with MsgDecl n _ _ _ _ _ => n end.
Definition svc_name (s : svc_decl) : name := match s with SvcDecl n _ => n end.
Definition svc_methods (s : svc_decl) : list name := match s with SvcDecl _ ms => ms end.

Inductive kind := KEnum | KEnumVal | KMsg | KExt | KField | KOneof | KSvc | KMethod.

(* observable identity of a descriptor *)
Record desc := Desc { d_kind : kind; d_fid : nat; d_full : name }.

(* values of descsByName *)
Inductive dval :=
| VPkg (files : list nat)                         (* *packageDescriptor{files} *)
| VEnum (fid : nat) (full : name)
| VEnumVal (fid : nat) (full : name)
| VMsg (fid : nat) (full : name) (m : msg_decl)
| VExt (fid : nat) (full : name)
| VSvc (fid : nat) (full : name) (s : svc_decl).

Definition is_pkg (v : dval) : bool := match v with VPkg _ => true | _ => false end.

(* ---------------------------------------------------------------- rangeTopLevelDescriptors *)
(* enums in reverse index order, each followed by its values in reverse order, then
   messages, extensions, services, all in reverse order *)
Definition top_enum (fid : nat) (pkg : name) (e : enum_decl) : list (name * dval) :=
  (fn_append pkg (enum_name e), VEnum fid (fn_append pkg (enum_name e)))
  :: map (fun v => (fn_append pkg v, VEnumVal fid (fn_append pkg v))) (rev (enum_values e)).

Definition range_top_level (fid : nat) (f : file) : list (name * dval) :=
  let pkg := f_pkg f in
  flat_map (top_enum fid pkg) (rev (f_enums f))
  ++ map (fun m => (fn_append pkg (msg_name m), VMsg fid (fn_append pkg (msg_name m)) m)) (rev (f_msgs f))
  ++ map (fun x => (fn_append pkg x, VExt fid (fn_append pkg x))) (rev (f_exts f))
  ++ map (fun s => (fn_append pkg (svc_name s), VSvc fid (fn_append pkg (svc_name s)) s)) (rev (f_svcs f)).

(* the full names RegisterFile enters (independent of the file id) *)
Definition top_names (f : file) : list name := map fst (range_top_level O f).

(* ---------------------------------------------------------------- well-formed files *)
(* What protodesc.NewFile guarantees (makeBase): every simple name is a valid identifier
   (here only: non-empty, no '.') and no two declarations of one file have the same full
   name, i.e. names are unique per scope. *)
Definition valid_ident (n : name) : bool :=
  negb (is_nil n) && forallb (fun b => negb (is_dot b)) n.

Definition mem_name (n : name) (l : list name) : bool := existsb (name_eqb n) l.

Fixpoint nodupb (l : list name) : bool :=
  match l with [] => true | x :: r => negb (mem_name x r) && nodupb r end.

Definition enum_scope_names (e : enum_decl) : list name := enum_name e :: enum_values e.

(* simple names declared directly in the scope of a message, in the order
   findDescriptorInMessage consults them *)
Definition msg_scope_names (m : msg_decl) : list name :=
  match m with
  | MsgDecl _ msgs enums exts fields oneofs =>
      map enum_name enums ++ flat_map enum_values enums ++ exts ++ fields ++ oneofs ++ map msg_name msgs
  end.

Fixpoint wf_msg (m : msg_decl) : bool :=
  match m with
  | MsgDecl n msgs enums exts fields oneofs =>
      valid_ident n
      && forallb valid_ident (msg_scope_names m)
      && nodupb (msg_scope_names m)
      && forallb wf_msg msgs
  end.

Definition wf_svc (s : svc_decl) : bool :=
  valid_ident (svc_name s) && forallb valid_ident (svc_methods s) && nodupb (svc_methods s).

Definition file_scope_names (f : file) : list name :=
  flat_map enum_scope_names (f_enums f) ++ map msg_name (f_msgs f) ++ f_exts f ++ map svc_name (f_svcs f).

Definition wf_file (f : file) : bool :=
  forallb valid_ident (file_scope_names f)
  && nodupb (top_names f)
  && forallb wf_msg (f_msgs f)
  && forallb wf_svc (f_svcs f).

(* ---------------------------------------------------------------- findDescriptorInMessage *)
(* [full] is md.FullName().  At the last component: Enums().ByName, then the values of the
   enums from the last enum to the first, Extensions, Fields, Oneofs, and finally
   Messages().ByName; on a non-last component only Messages().ByName and recursion.
   All ByName lookups are first-wins. *)
(* Messages().ByName(nm) followed by [f]: first message with that name wins.  ([f] is a
   section variable so that [find_in_msg] may recurse through it.) *)
Section FirstMsgNamed.
  Context {A : Type}.
  Variable f : msg_decl -> option A.
  Variable nm : name.
  Fixpoint first_msg_named (l : list msg_decl) : option A :=
    match l with
    | [] => None
    | m' :: l' => if name_eqb (msg_name m') nm then f m' else first_msg_named l'
    end.
End FirstMsgNamed.

Fixpoint find_in_msg (fid : nat) (full : name) (m : msg_decl) (suffix : name) {struct m} : option desc :=
  match m with
  | MsgDecl _ msgs enums exts fields oneofs =>
      let nm := fst (pop suffix) in
      let rest := snd (pop suffix) in
      let child := fn_append full nm in
      let here :=
        if is_nil rest then
          if existsb (fun e => name_eqb (enum_name e) nm) enums then Some (Desc KEnum fid child)
          else if existsb (fun e => mem_name nm (enum_values e)) (rev enums) then Some (Desc KEnumVal fid child)
          else if mem_name nm exts then Some (Desc KExt fid child)
          else if mem_name nm fields then Some (Desc KField fid child)
          else if mem_name nm oneofs then Some (Desc KOneof fid child)
          else None
        else None in
      match here with
      | Some d => Some d
      | None =>
          first_msg_named
            (fun m' => if is_nil rest then Some (Desc KMsg fid child) else find_in_msg fid child m' rest)
            nm msgs
      end
  end.

(* ---------------------------------------------------------------- Files *)
Record fstate := FState {
  fs_descs : list (name * dval);                 (* descsByName; [] = nil map *)
  fs_bypath : list (name * list (nat * file));   (* filesByPath *)
  fs_num : nat }.                                (* numFiles *)

Definition fs_init : fstate := FState [] [] O.

Inductive rres := ROk | RErrPath | RErrPkg | RErrName | ROutOfFuel | RPanic.
Inductive fres := FFound (d : desc) | FNotFound | FOutOfFuel.
Inductive pres := PFound (fid : nat) | PNotFound | PMultiple.

Definition dget (m : list (name * dval)) (k : name) : option dval := aget name_eqb m k.
Definition dput (m : list (name * dval)) (k : name) (v : dval) := aput name_eqb m k v.

Definition pkg_conflict (descs : list (name * dval)) (n : name) : bool :=
  match dget descs n with Some v => negb (is_pkg v) | None => false end.

Definition add_pkg (descs : list (name * dval)) (n : name) : list (name * dval) :=
  match dget descs n with None => dput descs n (VPkg []) | Some _ => descs end.

Definition path_files (bp : list (name * list (nat * file))) (p : name) : list (nat * file) :=
  match aget name_eqb bp p with Some l => l | None => [] end.

(* lazy creation of the maps: descsByName = {"": &packageDescriptor{}} when it is nil *)
Definition norm_descs (d : list (name * dval)) : list (name * dval) :=
  match d with [] => [([], VPkg [])] | _ :: _ => d end.

Definition register_file (s : fstate) (fid : nat) (f : file) : fstate * rres :=
  let descs0 := norm_descs (fs_descs s) in
  let s0 := FState descs0 (fs_bypath s) (fs_num s) in
  if negb (is_nil (path_files (fs_bypath s) (f_path f))) then (s0, RErrPath) else
  match chain (f_pkg f) with
  | None => (s0, ROutOfFuel)
  | Some prefixes =>
    if existsb (pkg_conflict descs0) prefixes then (s0, RErrPkg) else
    let tops := range_top_level fid f in
    if existsb (fun kd => is_some (dget descs0 (fst kd))) tops then (s0, RErrName) else
    let descs1 := fold_left add_pkg prefixes descs0 in
    match dget descs1 (f_pkg f) with
    | Some (VPkg fl) =>
        let descs2 := dput descs1 (f_pkg f) (VPkg (fl ++ [fid])) in
        let descs3 := fold_left (fun m kd => dput m (fst kd) (snd kd)) tops descs2 in
        (FState descs3
                (aput name_eqb (fs_bypath s) (f_path f) (path_files (fs_bypath s) (f_path f) ++ [(fid, f)]))
                (S (fs_num s)), ROk)
    | _ => (s0, RPanic)   (* failed type assertion to packageDescriptor; proved unreachable *)
    end
  end.

(* the type switch of FindDescriptorByName on the first registered prefix *)
Definition resolve (d : dval) (nm suffix : name) : fres :=
  match d with
  | VPkg _ => FNotFound
  | VEnum fid full => if name_eqb full nm then FFound (Desc KEnum fid full) else FNotFound
  | VEnumVal fid full => if name_eqb full nm then FFound (Desc KEnumVal fid full) else FNotFound
  | VMsg fid full m =>
      if name_eqb full nm then FFound (Desc KMsg fid full) else
      match find_in_msg fid full m suffix with
      | Some d' => if name_eqb (d_full d') nm then FFound d' else FNotFound
      | None => FNotFound
      end
  | VExt fid full => if name_eqb full nm then FFound (Desc KExt fid full) else FNotFound
  | VSvc fid full s =>
      if name_eqb full nm then FFound (Desc KSvc fid full) else
      let mname := fst (pop suffix) in
      if mem_name mname (svc_methods s)
      then (if name_eqb (fn_append full mname) nm then FFound (Desc KMethod fid (fn_append full mname)) else FNotFound)
      else FNotFound
  end.

(* suffix = name[len(prefix)+len("."):]  (empty on the first iteration, where prefix = name) *)
Fixpoint find_first (descs : list (name * dval)) (nm : name) (prefixes : list name) : fres :=
  match prefixes with
  | [] => FNotFound
  | prefix :: rest =>
      match dget descs prefix with
      | Some d => resolve d nm (skipn (S (length prefix)) nm)
      | None => find_first descs nm rest
      end
  end.

Definition find_descriptor_by_name (s : fstate) (nm : name) : fres :=
  match chain nm with
  | None => FOutOfFuel
  | Some prefixes => find_first (fs_descs s) nm prefixes
  end.

Definition find_file_by_path (s : fstate) (p : name) : pres :=
  match path_files (fs_bypath s) p with
  | [] => PNotFound
  | [(fid, _)] => PFound fid
  | _ => PMultiple
  end.

Definition num_files (s : fstate) : nat := fs_num s.
(* map order in Go; compared as a sorted set *)
Definition range_files (s : fstate) : list nat := map fst (flat_map snd (fs_bypath s)).
Definition pkg_files (s : fstate) (p : name) : list nat :=
  match dget (fs_descs s) p with Some (VPkg fl) => fl | _ => [] end.
Definition num_files_by_package (s : fstate) (p : name) : nat := length (pkg_files s p).
Definition range_files_by_package (s : fstate) (p : name) : list nat := pkg_files s p.

Inductive fop :=
| FReg (fid : nat) (f : file)
| FFind (n : name)
| FByPath (p : name)
| FNum
| FRange
| FNumPkg (p : name)
| FRangePkg (p : name).

Inductive fobs :=
| ORes (r : rres) | OFind (r : fres) | OPath (r : pres) | ONum (n : nat) | OList (l : list nat).

Definition fstep (s : fstate) (op : fop) : fstate * fobs :=
  match op with
  | FReg fid f => let (s', r) := register_file s fid f in (s', ORes r)
  | FFind n => (s, OFind (find_descriptor_by_name s n))
  | FByPath p => (s, OPath (find_file_by_path s p))
  | FNum => (s, ONum (num_files s))
  | FRange => (s, OList (range_files s))
  | FNumPkg p => (s, ONum (num_files_by_package s p))
  | FRangePkg p => (s, OList (range_files_by_package s p))
  end.

(* a history: final state, and the observations in order *)
Definition frun_from (s : fstate) (ops : list fop) : fstate * list fobs :=
  fold_left (fun st op => let (s', o) := fstep (fst st) op in (s', snd st ++ [o])) ops (s, []).
Definition frun (ops : list fop) : fstate * list fobs := frun_from fs_init ops.
Definition fstate_after (ops : list fop) : fstate := fold_left (fun s op => fst (fstep s op)) ops fs_init.

(* ---------------------------------------------------------------- abstract specification (Files) *)
(* The abstract state is the list of successfully registered files, in registration order. *)
Definition regs := list (nat * file).

Definition fregs_step (st : fstate * regs) (op : fop) : fstate * regs :=
  (fst (fstep (fst st) op),
   match op with
   | FReg fid f => match snd (register_file (fst st) fid f) with
                   | ROk => snd st ++ [(fid, f)]
                   | _ => snd st
                   end
   | _ => snd st
   end).
Definition fregs_run (ops : list fop) : fstate * regs := fold_left fregs_step ops (fs_init, []).
Definition registered (ops : list fop) : regs := snd (fregs_run ops).

(* abstraction function from the concrete state (a set: order = filesByPath order) *)
Definition abs_files (s : fstate) : regs := flat_map snd (fs_bypath s).

(* all declarations of a file with their full names *)
Definition decls_enum (scope : name) (e : enum_decl) : list (kind * name) :=
  (KEnum, fn_append scope (enum_name e)) :: map (fun v => (KEnumVal, fn_append scope v)) (enum_values e).

Fixpoint decls_in_msg (full : name) (m : msg_decl) : list (kind * name) :=
  match m with
  | MsgDecl _ msgs enums exts fields oneofs =>
      flat_map (decls_enum full) enums
      ++ map (fun x => (KExt, fn_append full x)) exts
      ++ map (fun x => (KField, fn_append full x)) fields
      ++ map (fun x => (KOneof, fn_append full x)) oneofs
      ++ flat_map (fun m' => (KMsg, fn_append full (msg_name m'))
                             :: decls_in_msg (fn_append full (msg_name m')) m') msgs
  end.

Definition decls_msg (scope : name) (m : msg_decl) : list (kind * name) :=
  (KMsg, fn_append scope (msg_name m)) :: decls_in_msg (fn_append scope (msg_name m)) m.

Definition decls_svc (scope : name) (s : svc_decl) : list (kind * name) :=
  (KSvc, fn_append scope (svc_name s))
  :: map (fun x => (KMethod, fn_append (fn_append scope (svc_name s)) x)) (svc_methods s).

Definition declared_by (f : file) : list (kind * name) :=
  flat_map (decls_enum (f_pkg f)) (f_enums f)
  ++ flat_map (decls_msg (f_pkg f)) (f_msgs f)
  ++ map (fun x => (KExt, fn_append (f_pkg f) x)) (f_exts f)
  ++ flat_map (decls_svc (f_pkg f)) (f_svcs f).

(* conflicts of a candidate file with the registered set *)
Definition path_registered (rs : regs) (p : name) : Prop :=
  exists fid f, In (fid, f) rs /\ f_path f = p.
Definition top_declared (rs : regs) (n : name) : Prop :=
  exists fid f, In (fid, f) rs /\ In n (top_names f).
(* [q] is a non-empty dotted prefix of [n]: n itself or n = q.x *)
Definition dot_prefix (q n : name) : Prop :=
  q <> [] /\ (q = n \/ exists x, n = q ++ dotb :: x).
(* "" is always a package (the marker created with the map) *)
Definition pkg_registered (rs : regs) (n : name) : Prop :=
  n = [] \/ exists fid f, In (fid, f) rs /\ dot_prefix n (f_pkg f).

Definition conflict_path (rs : regs) (f : file) : Prop := path_registered rs (f_path f).
Definition conflict_pkg (rs : regs) (f : file) : Prop :=
  exists q, dot_prefix q (f_pkg f) /\ top_declared rs q.
Definition conflict_name (rs : regs) (f : file) : Prop :=
  exists n, In n (top_names f) /\ (top_declared rs n \/ pkg_registered rs n).

Definition declared (rs : regs) (d : desc) : Prop :=
  exists f, In (d_fid d, f) rs /\ In (d_kind d, d_full d) (declared_by f).

Definition wf_fop (op : fop) : bool := match op with FReg _ f => wf_file f | _ => true end.

(* ---------------------------------------------------------------- Types *)
Inductive tkind := TEnum | TMsg | TExt.
Definition tkind_eqb (a b : tkind) : bool :=
  match a, b with TEnum, TEnum | TMsg, TMsg | TExt, TExt => true | _, _ => false end.

Record tstate := TState {
  ts_types : list (name * (tkind * nat));        (* typesByName *)
  ts_exts : list (name * list (N * nat));        (* extensionsByMessage *)
  ts_nenum : nat; ts_nmsg : nat; ts_next : nat }.

Definition ts_init : tstate := TState [] [] O O O.

Inductive tres := TOk | TErrName | TErrExtNum.
Inductive tfres := TFound (id : nat) | TNotFound | TWrongType.

Definition tget (s : tstate) (n : name) : option (tkind * nat) := aget name_eqb (ts_types s) n.
Definition ext_map (s : tstate) (m : name) : list (N * nat) :=
  match aget name_eqb (ts_exts s) m with Some l => l | None => [] end.

(* Types.register: [None] = name conflict *)
Definition tregister (s : tstate) (k : tkind) (id : nat) (n : name) : option (list (name * (tkind * nat))) :=
  match tget s n with
  | Some _ => None
  | None => Some (aput name_eqb (ts_types s) n (k, id))
  end.

Definition register_message (s : tstate) (id : nat) (n : name) : tstate * tres :=
  match tregister s TMsg id n with
  | None => (s, TErrName)
  | Some t => (TState t (ts_exts s) (ts_nenum s) (S (ts_nmsg s)) (ts_next s), TOk)
  end.

Definition register_enum (s : tstate) (id : nat) (n : name) : tstate * tres :=
  match tregister s TEnum id n with
  | None => (s, TErrName)
  | Some t => (TState t (ts_exts s) (S (ts_nenum s)) (ts_nmsg s) (ts_next s), TOk)
  end.

Definition register_extension (s : tstate) (id : nat) (n : name) (extendee : name) (num : N) : tstate * tres :=
  match aget N.eqb (ext_map s extendee) num with
  | Some _ => (s, TErrExtNum)               (* checked first *)
  | None =>
      match tregister s TExt id n with
      | None => (s, TErrName)
      | Some t =>
          (TState t (aput name_eqb (ts_exts s) extendee (aput N.eqb (ext_map s extendee) num id))
                  (ts_nenum s) (ts_nmsg s) (S (ts_next s)), TOk)
      end
  end.

Definition find_type (s : tstate) (want : tkind) (n : name) : tfres :=
  match tget s n with
  | Some (k, id) => if tkind_eqb k want then TFound id else TWrongType
  | None => TNotFound
  end.

Definition find_extension_by_number (s : tstate) (m : name) (num : N) : tfres :=
  match aget N.eqb (ext_map s m) num with Some id => TFound id | None => TNotFound end.

Definition range_types (s : tstate) (k : tkind) : list nat :=
  map (fun e => snd (snd e)) (filter (fun e => tkind_eqb (fst (snd e)) k) (ts_types s)).

Inductive top :=
| TRegMsg (id : nat) (n : name)
| TRegEnum (id : nat) (n : name)
| TRegExt (id : nat) (n : name) (extendee : name) (num : N)
| TFindMsg (n : name)
| TFindURL (u : name)
| TFindEnum (n : name)
| TFindExt (n : name)
| TFindExtNum (m : name) (num : N)
| TNumEnums | TNumMsgs | TNumExts
| TNumExtsBy (m : name)
| TRangeEnums | TRangeMsgs | TRangeExts
| TRangeExtsBy (m : name).

Inductive tobs := TORes (r : tres) | TOFind (r : tfres) | TONum (n : nat) | TOList (l : list nat).

Definition tstep (s : tstate) (op : top) : tstate * tobs :=
  match op with
  | TRegMsg id n => let (s', r) := register_message s id n in (s', TORes r)
  | TRegEnum id n => let (s', r) := register_enum s id n in (s', TORes r)
  | TRegExt id n e num => let (s', r) := register_extension s id n e num in (s', TORes r)
  | TFindMsg n => (s, TOFind (find_type s TMsg n))
  | TFindURL u => (s, TOFind (find_type s TMsg (url_name u)))
  | TFindEnum n => (s, TOFind (find_type s TEnum n))
  | TFindExt n => (s, TOFind (find_type s TExt n))
  | TFindExtNum m num => (s, TOFind (find_extension_by_number s m num))
  | TNumEnums => (s, TONum (ts_nenum s))
  | TNumMsgs => (s, TONum (ts_nmsg s))
  | TNumExts => (s, TONum (ts_next s))
  | TNumExtsBy m => (s, TONum (length (ext_map s m)))
  | TRangeEnums => (s, TOList (range_types s TEnum))
  | TRangeMsgs => (s, TOList (range_types s TMsg))
  | TRangeExts => (s, TOList (range_types s TExt))
  | TRangeExtsBy m => (s, TOList (map snd (ext_map s m)))
  end.

Definition trun (ops : list top) : tstate * list tobs :=
  fold_left (fun st op => let (s', o) := tstep (fst st) op in (s', snd st ++ [o])) ops (ts_init, []).
Definition tstate_after (ops : list top) : tstate := fold_left (fun s op => fst (tstep s op)) ops ts_init.

(* ---------------------------------------------------------------- abstract specification (Types) *)
(* one successfully registered type; [te_ext], [te_num] are meaningful for extensions only *)
Record tent := TEnt { te_kind : tkind; te_id : nat; te_name : name; te_ext : name; te_num : N }.

Definition tent_of (op : top) : option tent :=
  match op with
  | TRegMsg id n => Some (TEnt TMsg id n [] 0%N)
  | TRegEnum id n => Some (TEnt TEnum id n [] 0%N)
  | TRegExt id n e num => Some (TEnt TExt id n e num)
  | _ => None
  end.

Definition tregs_step (st : tstate * list tent) (op : top) : tstate * list tent :=
  (fst (tstep (fst st) op),
   match tent_of op, snd (tstep (fst st) op) with
   | Some e, TORes TOk => snd st ++ [e]
   | _, _ => snd st
   end).
Definition tregs_run (ops : list top) : tstate * list tent := fold_left tregs_step ops (ts_init, []).
Definition tregistered (ops : list top) : list tent := snd (tregs_run ops).

(* abstraction function: the registered types are exactly the entries of typesByName, the
   extension data is recovered from extensionsByMessage *)
Definition abs_types (s : tstate) : list (tkind * nat * name) :=
  map (fun e => (fst (snd e), snd (snd e), fst e)) (ts_types s).

(* registered extensions of message m / registered types of kind k, in registration order *)
Definition is_ext_of (m : name) (e : tent) : bool := tkind_eqb (te_kind e) TExt && name_eqb (te_ext e) m.
Definition ext_filter (rs : list tent) (m : name) : list tent := filter (is_ext_of m) rs.
Definition kind_filter (rs : list tent) (k : tkind) : list tent := filter (fun e => tkind_eqb (te_kind e) k) rs.

Definition name_taken (rs : list tent) (n : name) : Prop := exists e, In e rs /\ te_name e = n.
Definition extnum_taken (rs : list tent) (m : name) (num : N) : Prop :=
  exists e, In e rs /\ te_kind e = TExt /\ te_ext e = m /\ te_num e = num.
