(* Desc/ConvertRtP.v -- C34: new_file (to_proto d) = d  (proofs; second part of ConvertP.v) *)
From Coq Require Import List NArith ZArith Bool Lia.
From Coq Require Import ZifyBool ZifyNat ZifyN.
From PB Require Import Base.PBytes Desc.ConvertModel Desc.ConvertP.
Import ListNotations.
Open Scope N_scope.

Definition valr (r : RemoteD) : Prop := fullname_ok (r_full r) = true.

Lemma find_decl_some tbl s : forall d, find_decl tbl s = Some d -> d_full d = s /\ In d tbl.
Proof.
  induction tbl as [|x tbl IH]; cbn; [discriminate|]. intros d.
  destruct (beq (d_full x) s) eqn:E.
  - intros H; inversion H; subst. split; [now apply beq_eq|now left].
  - intros H. destruct (IH d H). split; [assumption|now right].
Qed.

Lemma find_remote_some env s : forall r, find_remote env s = Some r -> r_full r = s /\ In r env.
Proof.
  induction env as [|x env IH]; cbn; [discriminate|]. intros r.
  destruct (beq (r_full x) s) eqn:E.
  - intros H; inversion H; subst. split; [now apply beq_eq|now left].
  - intros H. destruct (IH r H). split; [assumption|now right].
Qed.

(* where a successful lookup got its answer from *)
Definition hit (tbl : list Decl) (env : list RemoteD) (s : bytes) (k : N) (me loc : bool) : Prop :=
  (exists d, find_decl tbl s = Some d /\ k = d_kind d /\ me = d_mapentry d /\ loc = true) \/
  (find_decl tbl s = None /\ exists r, find_remote env s = Some r /\ r_imported r = true /\
                                       k = r_kind r /\ me = r_mapentry r /\ loc = false).

Lemma find_loop_hit tbl env ref : forall fuel scope nimp s k me loc,
  find_loop tbl env fuel scope ref nimp = LFound s k me loc -> hit tbl env s k me loc.
Proof.
  induction fuel as [|fuel IH]; intros scope nimp s k me loc; cbn [find_loop].
  - destruct (find_decl tbl (fn_append scope ref)) as [d|] eqn:Ed.
    + intros H; inversion H; subst. left. exists d. auto.
    + destruct (find_remote env (fn_append scope ref)) as [r|] eqn:Er.
      * destruct (r_imported r) eqn:Ei.
        -- intros H; inversion H; subst. right. split; [assumption|]. exists r. auto.
        -- destruct scope; discriminate.
      * destruct scope; destruct nimp; discriminate.
  - destruct (find_decl tbl (fn_append scope ref)) as [d|] eqn:Ed.
    + intros H; inversion H; subst. left. exists d. auto.
    + destruct (find_remote env (fn_append scope ref)) as [r|] eqn:Er.
      * destruct (r_imported r) eqn:Ei.
        -- intros H; inversion H; subst. right. split; [assumption|]. exists r. auto.
        -- destruct scope; [discriminate|]. apply IH.
      * destruct scope; [destruct nimp; discriminate|]. apply IH.
Qed.

Lemma find_descriptor_hit tbl env scope ref s k me loc :
  find_descriptor tbl env scope ref = LFound s k me loc -> hit tbl env s k me loc.
Proof.
  unfold find_descriptor. destruct (negb (pn_valid ref)); [discriminate|].
  destruct (pn_is_full ref); apply find_loop_hit.
Qed.

Lemma hit_valid tbl env s k me loc :
  Forall vald tbl -> Forall valr env -> hit tbl env s k me loc -> fullname_ok s = true.
Proof.
  intros Ht He [(d & Hd & _)|(_ & r & Hr & _)].
  - apply find_decl_some in Hd as [<- Hin]. rewrite Forall_forall in Ht. now apply Ht.
  - apply find_remote_some in Hr as [<- Hin]. rewrite Forall_forall in He. now apply He.
Qed.

(* the absolute spelling of a found name finds the same thing from any scope *)
Lemma find_descriptor_abs tbl env scope' s k me loc :
  fullname_ok s = true -> hit tbl env s k me loc ->
  find_descriptor tbl env scope' (c_dot :: s) = LFound s k me loc.
Proof.
  intros Hv Hh. unfold find_descriptor, pn_valid, pn_strip, pn_is_full.
  assert (Hd : is_dot c_dot = true) by (unfold is_dot; apply beq_byte_refl).
  rewrite Hd. cbn [tl]. rewrite Hv. cbn [negb find_loop].
  change (fn_append [] s) with s.
  destruct Hh as [(d & Hfd & -> & -> & ->)|(Hn & r & Hr & Hi & -> & -> & ->)].
  - now rewrite Hfd.
  - now rewrite Hn, Hr, Hi.
Qed.

Lemma find_kind_abs want tbl env scope scope' ref t :
  Forall vald tbl -> Forall valr env ->
  find_kind want tbl env scope ref = Ok t ->
  find_kind want tbl env scope' (tref_name t) = Ok t.
Proof.
  intros Ht He. unfold find_kind.
  destruct (find_descriptor tbl env scope ref) as [s k me loc| | |] eqn:E; try discriminate.
  destruct (k =? want) eqn:Ek; [|discriminate].
  intros H; inversion H; subst; clear H. unfold tref_name. cbn [t_full].
  pose proof (find_descriptor_hit _ _ _ _ _ _ _ _ E) as Hh.
  rewrite (find_descriptor_abs tbl env scope' s k me loc (hit_valid _ _ _ _ _ _ Ht He Hh) Hh).
  now rewrite Ek.
Qed.

(* the three shapes of a successful findTarget *)
Lemma find_target_shape tbl env k scope ref k1 en ms :
  find_target tbl env k scope ref = Ok (k1, en, ms) ->
  (k1 = KIND_ENUM /\ ms = None /\ exists t, en = Some t /\ find_kind K_ENUM tbl env scope ref = Ok t)
  \/ ((k1 = KIND_MESSAGE \/ k1 = KIND_GROUP) /\ (k = 0 \/ k = k1) /\ en = None /\
      exists t, ms = Some t /\ find_kind K_MSG tbl env scope ref = Ok t)
  \/ (en = None /\ ms = None /\ ref = [] /\ kind_valid k1 = true /\ k = k1 /\
      (k1 =? KIND_ENUM) = false /\ ((k1 =? KIND_MESSAGE) || (k1 =? KIND_GROUP)) = false /\ (k1 =? 0) = false).
Proof.
  unfold find_target.
  destruct (k =? KIND_ENUM) eqn:E1.
  { destruct (find_kind K_ENUM tbl env scope ref) as [t|] eqn:E; cbn [bind]; [|discriminate].
    intros H; inversion H; subst. apply N.eqb_eq in E1. left. repeat split; eauto. }
  destruct ((k =? KIND_MESSAGE) || (k =? KIND_GROUP)) eqn:E2.
  { destruct (find_kind K_MSG tbl env scope ref) as [t|] eqn:E; cbn [bind]; [|discriminate].
    intros H; inversion H; subst. right; left.
    apply orb_prop in E2. repeat split; eauto.
    destruct E2 as [E2|E2]; apply N.eqb_eq in E2; auto. }
  destruct (k =? 0) eqn:E0.
  { unfold find_kind.
    destruct (find_descriptor tbl env scope ref) as [s dk me loc| | |]; try discriminate.
    destruct (dk =? K_ENUM) eqn:Ee.
    - intros H; inversion H; subst. left. repeat split; eauto.
    - destruct (dk =? K_MSG) eqn:Em; [|discriminate].
      intros H; inversion H; subst. right; left. apply N.eqb_eq in E0. repeat split; eauto. }
  destruct ref; [|discriminate].
  destruct (kind_valid k) eqn:Ev; [|discriminate].
  intros H; inversion H; subst. right; right. repeat split; auto.
Qed.

(* ------------------------------------------------------------------ well-formedness for the round trip *)
(* What protoc guarantees and [new_file] (which has no validation stage) does not check:
   the type is set; an editions file does not spell group / required the proto2 way;
   proto3_optional only occurs in proto3 files; an extension's json_name is the camel-cased name. *)
Definition wf34_field (syn : N) (is_ext : bool) (f : FieldP) : bool :=
  match f_type f with
  | Some t => negb (t =? 0) && negb ((syn =? 4) && (t =? KIND_GROUP))
  | None => false
  end
  && negb ((syn =? 4) && (f_label f =? 2))
  && (negb (opt_get (f_p3opt f) false) || (syn =? 3))
  && (negb is_ext || match f_json_name f with Some j => beq j (json_camel (f_name f)) | None => true end).

Fixpoint wf34_msg (syn : N) (m : MsgP) : bool :=
  match m with
  | mkMsgP _ fields exts nested _ _ _ _ _ _ _ =>
      forallb (wf34_field syn false) fields && forallb (wf34_field syn true) exts && forallb (wf34_msg syn) nested
  end.

Definition wf34 (p : FileP) : bool :=
  match syntax_of p with
  | Some (syn, _) => forallb (wf34_msg syn) (fp_msgs p) && forallb (wf34_field syn true) (fp_exts p)
  | None => false
  end.

Lemma oneof_idem n oi oo :
  match oi with
  | None => Ok None
  | Some k => if (0 <=? k)%Z && (Z.to_nat k <? n)%nat then Ok (Some (Z.to_nat k)) else Err 2
  end = Ok oo ->
  match option_map (fun z => Z.of_nat (Z.to_nat z)) oi with
  | None => Ok None
  | Some k => if (0 <=? k)%Z && (Z.to_nat k <? n)%nat then Ok (Some (Z.to_nat k)) else Err 2
  end = Ok oo.
Proof.
  destruct oi as [k|]; cbn [option_map]; [|auto].
  rewrite Nat2Z.id.
  destruct ((0 <=? k)%Z && (Z.to_nat k <? n)%nat) eqn:E; [|discriminate].
  apply andb_prop in E as [_ E2]. rewrite E2.
  assert (H0 : (0 <=? Z.of_nat (Z.to_nat k))%Z = true) by (apply Z.leb_le; lia).
  rewrite H0. auto.
Qed.

Section Idem.
  Variable canon : N -> bytes -> bytes.
  Variable tbl : list Decl.
  Variable env : list RemoteD.
  Variable syn : N.
  Hypothesis Ht : Forall vald tbl.
  Hypothesis He : Forall valr env.
  Hypothesis Hc : forall k s, canon k (canon k s) = canon k s.

  Definition Dfn (delim : bool) (k : N) : N := if (k =? KIND_MESSAGE) && delim then KIND_GROUP else k.
  Definition ADJ (k : N) (mp : bool) : N := if (k =? KIND_GROUP) && mp then KIND_MESSAGE else k.
  Definition REFof (en ms : option TRef) : option bytes :=
    match ms with Some x => Some (tref_name x)
                | None => match en with Some x => Some (tref_name x) | None => None end end.

  (* the kind computation is stable: re-reading the emitted type / type_name gives the same
     (kind, enum, message) *)
  Lemma target_idem scope ref delim t k1 en ms mp :
    (t =? 0) = false -> ((syn =? 4) && (t =? KIND_GROUP)) = false ->
    find_target tbl env (Dfn delim t) scope ref = Ok (k1, en, ms) ->
    find_target tbl env (Dfn delim (opt_get (out_type syn (ADJ k1 mp)) 0)) scope (opt_get (REFof en ms) [])
      = Ok (Dfn delim (opt_get (out_type syn (ADJ k1 mp)) 0), en, ms)
    /\ ADJ (Dfn delim (opt_get (out_type syn (ADJ k1 mp)) 0)) mp = ADJ k1 mp.
  Proof.
    intros Ht0 Hg Et.
    destruct (find_target_shape _ _ _ _ _ _ _ _ Et) as
      [(-> & -> & t1 & -> & Hk)|[(Hm & Hk0 & -> & t1 & -> & Hk)|(-> & -> & -> & Hv & Hk0 & E1 & E2 & E0)]].
    - (* enum *)
      assert (HK : ADJ KIND_ENUM mp = KIND_ENUM) by reflexivity. rewrite HK.
      assert (HO : opt_get (out_type syn KIND_ENUM) 0 = KIND_ENUM).
      { unfold out_type. change (kind_valid KIND_ENUM) with true. change (KIND_ENUM =? KIND_GROUP) with false.
        now rewrite andb_false_r. }
      rewrite HO. change (Dfn delim KIND_ENUM) with KIND_ENUM.
      split; [|reflexivity].
      unfold REFof. cbn [opt_get]. unfold find_target. change (KIND_ENUM =? KIND_ENUM) with true.
      rewrite (find_kind_abs K_ENUM tbl env scope scope ref t1 Ht He Hk). reflexivity.
    - (* message / group *)
      assert (Hd : Dfn delim t = k1).
      { destruct Hk0 as [Hk0|Hk0]; [|exact Hk0]. unfold Dfn in Hk0.
        destruct ((t =? KIND_MESSAGE) && delim); [discriminate|]. subst t. discriminate. }
      pose proof (find_kind_abs K_MSG tbl env scope scope ref t1 Ht He Hk) as Habs.
      assert (Hmsg : forall k, (k = KIND_MESSAGE \/ k = KIND_GROUP) ->
                find_target tbl env k scope (tref_name t1) = Ok (k, None, Some t1)).
      { intros k [->| ->]; unfold find_target.
        - change (KIND_MESSAGE =? KIND_ENUM) with false. change ((KIND_MESSAGE =? KIND_MESSAGE) || (KIND_MESSAGE =? KIND_GROUP)) with true.
          now rewrite Habs.
        - change (KIND_GROUP =? KIND_ENUM) with false. change ((KIND_GROUP =? KIND_MESSAGE) || (KIND_GROUP =? KIND_GROUP)) with true.
          now rewrite Habs. }
      assert (HOm : opt_get (out_type syn KIND_MESSAGE) 0 = KIND_MESSAGE).
      { unfold out_type. change (kind_valid KIND_MESSAGE) with true. change (KIND_MESSAGE =? KIND_GROUP) with false.
        now rewrite andb_false_r. }
      unfold REFof. cbn [opt_get].
      destruct Hm as [->| ->].
      + (* k1 = MESSAGE: t = MESSAGE and not delimited *)
        assert (HK : ADJ KIND_MESSAGE mp = KIND_MESSAGE) by reflexivity. rewrite HK, HOm.
        assert (Hdl : delim = false).
        { unfold Dfn in Hd. destruct (t =? KIND_MESSAGE) eqn:Etm; cbn [andb] in Hd.
          - destruct delim; [discriminate|reflexivity].
          - subst t. discriminate. }
        subst delim. change (Dfn false KIND_MESSAGE) with KIND_MESSAGE.
        split; [apply Hmsg; auto|reflexivity].
      + (* k1 = GROUP *)
        destruct mp.
        * (* into / inside a map entry: final kind MESSAGE *)
          assert (HK : ADJ KIND_GROUP true = KIND_MESSAGE) by reflexivity.
          rewrite HK, HOm.
          destruct delim.
          -- change (Dfn true KIND_MESSAGE) with KIND_GROUP. split; [apply Hmsg; auto|exact HK].
          -- change (Dfn false KIND_MESSAGE) with KIND_MESSAGE. split; [apply Hmsg; auto|reflexivity].
        * (* final kind GROUP *)
          assert (HK : ADJ KIND_GROUP false = KIND_GROUP) by reflexivity.
          rewrite HK.
          destruct (syn =? 4) eqn:Es.
          -- (* editions: emitted as MESSAGE, so the field must be delimited *)
             cbn [andb] in Hg.
             assert (HO : opt_get (out_type syn KIND_GROUP) 0 = KIND_MESSAGE).
             { unfold out_type. rewrite Es. reflexivity. }
             rewrite HO.
             assert (Hdl : delim = true).
             { unfold Dfn in Hd. destruct (t =? KIND_MESSAGE) eqn:Etm; cbn [andb] in Hd.
               - destruct delim; [reflexivity|]. apply N.eqb_eq in Etm. subst t. discriminate.
               - subst t. discriminate. }
             subst delim. change (Dfn true KIND_MESSAGE) with KIND_GROUP.
             split; [apply Hmsg; auto|exact HK].
          -- assert (HO : opt_get (out_type syn KIND_GROUP) 0 = KIND_GROUP).
             { unfold out_type. rewrite Es. reflexivity. }
             rewrite HO. change (Dfn delim KIND_GROUP) with KIND_GROUP.
             split; [apply Hmsg; auto|exact HK].
    - (* scalar *)
      assert (Eg : (k1 =? KIND_GROUP) = false) by (apply orb_false_elim in E2 as [_ E2]; exact E2).
      assert (Em : (k1 =? KIND_MESSAGE) = false) by (apply orb_false_elim in E2 as [E2 _]; exact E2).
      assert (HK : ADJ k1 mp = k1) by (unfold ADJ; now rewrite Eg).
      rewrite HK.
      assert (HO : opt_get (out_type syn k1) 0 = k1) by (unfold out_type; now rewrite Hv, Eg, andb_false_r).
      rewrite HO.
      assert (HD : Dfn delim k1 = k1) by (unfold Dfn; now rewrite Em).
      rewrite HD. split; [|exact HK].
      unfold REFof. cbn [opt_get]. unfold find_target. rewrite E1, Em, Eg, E0, Hv. reflexivity.
  Qed.

  Lemma kind0_Dfn ef f : kind0 ef f = Dfn (ef_delim ef) (opt_get (f_type f) 0).
  Proof. reflexivity. Qed.

  Definition oneof_res (n : nat) (oi : option Z) : Res (option nat) :=
    match oi with
    | None => Ok None
    | Some k => if (0 <=? k)%Z && (Z.to_nat k <? n)%nat then Ok (Some (Z.to_nat k)) else Err 2
    end.

  (* [norm_field] once the target of the original field is known *)
  Lemma norm_field_eq scope parent pme is_ext f t k1 en ms :
    f_type f = Some t ->
    find_target tbl env (Dfn (ef_delim (pd_field_ef parent (f_opts f))) t) scope (opt_get (f_type_name f) []) = Ok (k1, en, ms) ->
    norm_field canon tbl env syn scope parent pme is_ext f =
    let ef := pd_field_ef parent (f_opts f) in
    let K := if negb is_ext then ADJ k1 (tref_mapentry ms || pme) else k1 in
    mkFieldP (f_name f) (f_number f) (out_label syn (card_of ef f is_ext)) (out_type syn K)
             (REFof en ms)
             (if is_ext then abs_ref tbl env K_MSG scope (opt_get (f_extendee f) []) else None)
             (option_map (canon K) (f_default f))
             (if is_ext then None else option_map (fun z => Z.of_nat (Z.to_nat z)) (f_oneof_index f))
             (match f_json_name f with Some j => Some (if is_ext then json_camel (f_name f) else j) | None => None end)
             (if (syn =? 3) && (((syn =? 2) && (card_of ef f is_ext =? 1)
                                 && (is_ext || match f_oneof_index f with None => true | Some _ => false end))
                                || opt_get (f_p3opt f) false) then Some true else None)
             (f_opts f).
  Proof.
    intros Ety Et. unfold norm_field. rewrite kind0_Dfn, Ety. cbn [opt_get]. rewrite Et.
    destruct is_ext; reflexivity.
  Qed.

  Lemma field_idem scope parent pme n f rf :
    wf34_field syn false f = true ->
    res_field canon PD tbl env scope parent pme n f = Ok rf ->
    res_field canon PD tbl env scope parent pme n (norm_field canon tbl env syn scope parent pme false f) = Ok rf.
  Proof.
    unfold wf34_field. intros Hwf.
    destruct (f_type f) as [t|] eqn:Ety; [|discriminate].
    apply andb_prop in Hwf as [Hwf _]. apply andb_prop in Hwf as [Hwf Hp3]. apply andb_prop in Hwf as [Hty Hlab].
    apply andb_prop in Hty as [Ht0 Hg]. apply negb_true_iff in Ht0. apply negb_true_iff in Hg. apply negb_true_iff in Hlab.
    unfold res_field at 1. rewrite res_target_PD. cbn [st_field_ef PD].
    set (ef := pd_field_ef parent (f_opts f)).
    change (match f_oneof_index f with
            | Some k => if (0 <=? k)%Z && (Z.to_nat k <? n)%nat then Ok (Some (Z.to_nat k)) else Err 2
            | None => Ok None end) with (oneof_res n (f_oneof_index f)).
    destruct (oneof_res n (f_oneof_index f)) as [oo|] eqn:Eo; cbn [bind]; [|discriminate].
    rewrite kind0_Dfn, Ety. cbn [opt_get].
    destruct (find_target tbl env (Dfn (ef_delim ef) t) scope (opt_get (f_type_name f) [])) as [[[k1 en] ms]|] eqn:Et; cbn [bind]; [|discriminate].
    intros H; inversion H; subst rf; clear H.
    destruct (target_idem scope _ (ef_delim ef) t k1 en ms (tref_mapentry ms || pme) Ht0 Hg Et) as [HT HA].
    rewrite (norm_field_eq scope parent pme false f t k1 en ms Ety Et). cbv zeta. fold ef. cbn [negb].
    set (K := ADJ k1 (tref_mapentry ms || pme)) in *.
    unfold res_field. rewrite res_target_PD. cbn [st_field_ef PD].
    cbn [f_name f_number f_label f_type f_type_name f_extendee f_default f_oneof_index f_json_name f_p3opt f_opts].
    fold ef.
    change (match option_map (fun z : Z => Z.of_nat (Z.to_nat z)) (f_oneof_index f) with
            | Some k => if (0 <=? k)%Z && (Z.to_nat k <? n)%nat then Ok (Some (Z.to_nat k)) else Err 2
            | None => Ok None end) with (oneof_res n (option_map (fun z : Z => Z.of_nat (Z.to_nat z)) (f_oneof_index f))).
    assert (Eo' : oneof_res n (option_map (fun z : Z => Z.of_nat (Z.to_nat z)) (f_oneof_index f)) = Ok oo)
      by (apply oneof_idem; exact Eo).
    rewrite Eo'. cbn [bind].
    rewrite kind0_Dfn. cbn [f_type]. rewrite HT. cbn [bind]. unfold ADJ in HA. rewrite HA.
    f_equal. f_equal.
    - (* cardinality *)
      unfold card_of, out_label. cbn [negb andb f_label].
      destruct (ef_legacy_req ef); [reflexivity|].
      destruct (syn =? 4); cbn [andb] in *; [now rewrite Hlab|reflexivity].
    - destruct (f_json_name f); reflexivity.
    - (* proto3_optional *)
      cbn [opt_get]. destruct (syn =? 3) eqn:E3; cbn [andb].
      + assert (E2 : (syn =? 2) = false) by (apply N.eqb_eq in E3; subst; reflexivity).
        rewrite E2. cbn [andb orb]. destruct (opt_get (f_p3opt f) false); reflexivity.
      + rewrite orb_false_r in Hp3. apply negb_true_iff in Hp3. now rewrite Hp3.
    - (* default *)
      destruct (f_default f); cbn [option_map]; [now rewrite Hc|reflexivity].
  Qed.

  Lemma ADJ_false k : ADJ k false = k.
  Proof. unfold ADJ. now rewrite andb_false_r. Qed.

  Lemma ext_idem scope parent f rf :
    wf34_field syn true f = true ->
    res_ext canon PD tbl env scope parent f = Ok rf ->
    res_ext canon PD tbl env scope parent (norm_field canon tbl env syn scope parent false true f) = Ok rf.
  Proof.
    unfold wf34_field. intros Hwf.
    destruct (f_type f) as [t|] eqn:Ety; [|discriminate].
    apply andb_prop in Hwf as [Hwf Hjs]. apply andb_prop in Hwf as [Hwf Hp3]. apply andb_prop in Hwf as [Hty Hlab].
    apply andb_prop in Hty as [Ht0 Hg]. apply negb_true_iff in Ht0. apply negb_true_iff in Hg. apply negb_true_iff in Hlab.
    cbn [negb orb] in Hjs.
    unfold res_ext at 1. rewrite res_target_PD. cbn [st_field_ef st_ref st_ext_lazy PD].
    set (ef := pd_field_ef parent (f_opts f)).
    destruct (find_kind K_MSG tbl env scope (opt_get (f_extendee f) [])) as [xt|] eqn:Ex; cbn [bind]; [|discriminate].
    rewrite kind0_Dfn, Ety. cbn [opt_get].
    destruct (find_target tbl env (Dfn (ef_delim ef) t) scope (opt_get (f_type_name f) [])) as [[[k1 en] ms]|] eqn:Et; cbn [bind]; [|discriminate].
    intros H; inversion H; subst rf; clear H.
    destruct (target_idem scope _ (ef_delim ef) t k1 en ms false Ht0 Hg Et) as [HT HA].
    rewrite !ADJ_false in HT. rewrite !ADJ_false in HA.
    rewrite (norm_field_eq scope parent false true f t k1 en ms Ety Et). cbv zeta. fold ef. cbn [negb].
    unfold res_ext. rewrite res_target_PD. cbn [st_field_ef st_ref st_ext_lazy PD].
    cbn [f_name f_number f_label f_type f_type_name f_extendee f_default f_oneof_index f_json_name f_p3opt f_opts].
    fold ef.
    unfold abs_ref. rewrite Ex. cbn [opt_get].
    rewrite (find_kind_abs K_MSG tbl env scope scope _ xt Ht He Ex). cbn [bind].
    rewrite kind0_Dfn. cbn [f_type]. rewrite HT. cbn [bind]. rewrite HA.
    f_equal. f_equal.
    - unfold card_of, out_label. cbn [negb andb].
      destruct (syn =? 4); cbn [andb] in *; [now rewrite Hlab|reflexivity].
    - destruct (f_json_name f) as [j|]; [|reflexivity]. apply beq_eq in Hjs. now subst j.
    - cbn [opt_get]. destruct (syn =? 3) eqn:E3; cbn [andb].
      + assert (E2 : (syn =? 2) = false) by (apply N.eqb_eq in E3; subst; reflexivity).
        rewrite E2. cbn [andb orb]. destruct (opt_get (f_p3opt f) false); reflexivity.
      + rewrite orb_false_r in Hp3. apply negb_true_iff in Hp3. now rewrite Hp3.
    - destruct (f_default f); cbn [option_map]; [now rewrite Hc|reflexivity].
  Qed.

  Lemma mapM_map {A B C} (f : B -> Res C) (g : A -> B) : forall l, mapM f (map g l) = mapM (fun x => f (g x)) l.
  Proof. induction l as [|x l IH]; cbn; [reflexivity|]. now rewrite IH. Qed.

  Lemma msg_idem : forall m scope parent rm,
    wf34_msg syn m = true ->
    res_msg canon PD tbl env scope parent m = Ok rm ->
    res_msg canon PD tbl env scope parent (norm_msg canon tbl env syn scope parent m) = Ok rm.
  Proof.
    induction m as [name fields exts nested enums xr oneofs rr rn opts vis IH] using MsgP_ind2.
    intros scope parent rm Hwf. cbn [norm_msg]. rewrite !res_msg_unfold. cbv zeta.
    cbn [wf34_msg] in Hwf. apply andb_prop in Hwf as [Hwf Hn]. apply andb_prop in Hwf as [Hf Hx].
    rewrite forallb_forall in Hf, Hx, Hn.
    set (full := fn_append scope name). set (ef := merge_feat parent (msg_feat opts)).
    destruct (mapM (res_field canon PD tbl env full ef (msg_is_map_entry opts) (length oneofs)) fields) as [rfields|] eqn:Ef; cbn [bind]; [|discriminate].
    rewrite mapM_map.
    rewrite (mapM_agree (res_field canon PD tbl env full ef (msg_is_map_entry opts) (length oneofs))
                        (fun x => res_field canon PD tbl env full ef (msg_is_map_entry opts) (length oneofs)
                                            (norm_field canon tbl env syn full ef (msg_is_map_entry opts) false x))
                        fields rfields); [|
      apply Forall_forall; intros f Hin b Hb; apply field_idem; auto | exact Ef].
    cbn [bind].
    destruct (mapM (res_enum PD full ef) enums) as [renums|] eqn:Ee; cbn [bind]; [|discriminate].
    destruct (mapM (res_msg canon PD tbl env full ef) nested) as [rmsgs|] eqn:Em; cbn [bind]; [|discriminate].
    rewrite mapM_map.
    rewrite (mapM_agree (res_msg canon PD tbl env full ef)
                        (fun x => res_msg canon PD tbl env full ef (norm_msg canon tbl env syn full ef x))
                        nested rmsgs); [|
      apply Forall_forall; intros x Hin b Hb; rewrite Forall_forall in IH; apply IH; auto | exact Em].
    cbn [bind].
    destruct (mapM (res_ext canon PD tbl env full ef) exts) as [rexts|] eqn:Ex; cbn [bind]; [|discriminate].
    rewrite mapM_map.
    rewrite (mapM_agree (res_ext canon PD tbl env full ef)
                        (fun x => res_ext canon PD tbl env full ef (norm_field canon tbl env syn full ef false true x))
                        exts rexts); [|
      apply Forall_forall; intros f Hin b Hb; apply ext_idem; auto | exact Ex].
    cbn [bind]. auto.
  Qed.
End Idem.

(* ------------------------------------------------------------------ declarations survive normalisation *)
Lemma flat_map_map {A B C} (f : B -> list C) (g : A -> B) (l : list A) :
  flat_map f (map g l) = flat_map (fun x => f (g x)) l.
Proof. induction l as [|x l IH]; cbn; [reflexivity|]. now rewrite IH. Qed.

Lemma flat_map_ext_Forall {A B} (f g : A -> list B) (l : list A) :
  Forall (fun a => f a = g a) l -> flat_map f l = flat_map g l.
Proof. induction l as [|x l IH]; cbn; intros H; [reflexivity|]. inversion H; subst. now rewrite H2, IH. Qed.

Lemma decls_msg_norm canon tbl env syn : forall m scope scope' parent,
  decls_msg scope (norm_msg canon tbl env syn scope' parent m) = decls_msg scope m.
Proof.
  induction m as [name fields exts nested enums xr oneofs rr rn opts vis IH] using MsgP_ind2.
  intros scope scope' parent. cbn [norm_msg decls_msg]. rewrite !map_map. cbn [f_name norm_field].
  f_equal. f_equal. f_equal. f_equal. f_equal.
  rewrite flat_map_map. apply flat_map_ext_Forall.
  eapply Forall_impl; [|exact IH]. intros m Hm. apply Hm.
Qed.

Lemma syntax_of_norm p syn ed name pkg deps pub msgs enums exts svcs opts :
  syntax_of p = Some (syn, ed) ->
  syntax_of (mkFileP name pkg (syntax_text syn) (if syn =? 4 then Some ed else None) deps pub msgs enums exts svcs opts)
  = Some (syn, ed).
Proof.
  unfold syntax_of at 1.
  destruct (beq (opt_get (fp_syntax p) []) [] || beq (opt_get (fp_syntax p) []) ["p"; "r"; "o"; "t"; "o"; "2"]%byte).
  { intros H; inversion H; subst. reflexivity. }
  destruct (beq (opt_get (fp_syntax p) []) ["p"; "r"; "o"; "t"; "o"; "3"]%byte).
  { intros H; inversion H; subst. reflexivity. }
  destruct (beq (opt_get (fp_syntax p) []) ["e"; "d"; "i"; "t"; "i"; "o"; "n"; "s"]%byte); [|discriminate].
  intros H; inversion H; subst. reflexivity.
Qed.

Lemma normalize_eq canon env p syn ed :
  syntax_of p = Some (syn, ed) ->
  normalize canon env p =
  mkFileP (Some (opt_get (fp_name p) []))
          (match pkg_of p with [] => None | _ :: _ => Some (pkg_of p) end)
          (syntax_text syn) (if syn =? 4 then Some ed else None) (fp_deps p) (fp_public p)
          (map (norm_msg canon (decls_file p) env syn (pkg_of p) (merge_feat (ef_defaults ed) (gen_feat (fp_opts p)))) (fp_msgs p))
          (fp_enums p)
          (map (norm_field canon (decls_file p) env syn (pkg_of p) (merge_feat (ef_defaults ed) (gen_feat (fp_opts p))) false true) (fp_exts p))
          (fp_svcs p) (fp_opts p).
Proof. intros E. unfold normalize. rewrite E. reflexivity. Qed.

(* C34 new_file_to_proto, first half: NewFile of the normal form gives the same descriptor *)
Theorem new_file_normalize canon env p d :
  (forall k s, canon k (canon k s) = canon k s) ->
  Forall valr env ->
  wf34 p = true ->
  new_file canon env p = Ok d -> new_file canon env (normalize canon env p) = Ok d.
Proof.
  intros Hc He Hwf. unfold wf34 in Hwf. unfold new_file at 1.
  destruct (fp_name p) as [[|c n]|] eqn:En; try discriminate.
  destruct (beq (pkg_of p) [] || fullname_ok (pkg_of p)) eqn:Epk; cbn [negb]; [|discriminate].
  destruct (syntax_of p) as [[syn ed]|] eqn:Es; [|discriminate].
  destruct (decls_check [] (decls_file p)) eqn:Ec; [|discriminate].
  apply andb_prop in Hwf as [Hwm Hwx]. rewrite forallb_forall in Hwm, Hwx.
  assert (Hok : Forall okd (decls_file p)) by (eapply decls_check_names; eauto).
  assert (Hsc : scope_ok (pkg_of p)).
  { apply orb_prop in Epk as [E|E]; [left; now apply beq_eq in E|right; exact E]. }
  pose proof (decls_file_valid p Hsc Hok) as Ht.
  intros Hres.
  rewrite (normalize_eq canon env p syn ed Es).
  set (ef := merge_feat (ef_defaults ed) (gen_feat (fp_opts p))) in *.
  set (q := mkFileP _ _ _ _ _ _ _ _ _ _ _).
  assert (Hn : fp_name q = Some (c :: n)) by (unfold q; cbn [fp_name]; rewrite En; reflexivity).
  assert (Hp : pkg_of q = pkg_of p) by (unfold q, pkg_of at 1; cbn [fp_package]; destruct (pkg_of p); reflexivity).
  assert (Hs : syntax_of q = Some (syn, ed)) by (unfold q; apply (syntax_of_norm p); exact Es).
  assert (Hd : decls_file q = decls_file p).
  { unfold decls_file. rewrite Hp. unfold q. cbn [fp_enums fp_msgs fp_exts fp_svcs].
    rewrite !map_map. cbn [f_name norm_field].
    f_equal. f_equal.
    rewrite flat_map_map. apply flat_map_ext_Forall. apply Forall_forall. intros m _. apply decls_msg_norm. }
  assert (Hres' : res_file canon PD (decls_file p) env q = Ok d).
  { revert Hres. unfold res_file. rewrite Hs, Es, Hp.
    change (fp_opts q) with (fp_opts p). change (fp_enums q) with (fp_enums p).
    change (fp_svcs q) with (fp_svcs p). change (fp_deps q) with (fp_deps p). change (fp_public q) with (fp_public p).
    change (opt_get (fp_name q) []) with (opt_get (fp_name p) []).
    change (fp_msgs q) with (map (norm_msg canon (decls_file p) env syn (pkg_of p) ef) (fp_msgs p)).
    change (fp_exts q) with (map (norm_field canon (decls_file p) env syn (pkg_of p) ef false true) (fp_exts p)).
    fold ef. set (pkg := pkg_of p).
    destruct (mapM (res_enum PD pkg ef) (fp_enums p)) as [renums|] eqn:Ee; cbn [bind]; [|discriminate].
    destruct (mapM (res_msg canon PD (decls_file p) env pkg ef) (fp_msgs p)) as [rmsgs|] eqn:Em; cbn [bind]; [|discriminate].
    rewrite mapM_map.
    rewrite (mapM_agree (res_msg canon PD (decls_file p) env pkg ef)
                        (fun x => res_msg canon PD (decls_file p) env pkg ef (norm_msg canon (decls_file p) env syn pkg ef x))
                        (fp_msgs p) rmsgs); [|
      apply Forall_forall; intros x Hin b Hb; apply msg_idem; auto | exact Em].
    cbn [bind].
    destruct (mapM (res_ext canon PD (decls_file p) env pkg ef) (fp_exts p)) as [rexts|] eqn:Ex; cbn [bind]; [|discriminate].
    rewrite mapM_map.
    rewrite (mapM_agree (res_ext canon PD (decls_file p) env pkg ef)
                        (fun x => res_ext canon PD (decls_file p) env pkg ef (norm_field canon (decls_file p) env syn pkg ef false true x))
                        (fp_exts p) rexts); [|
      apply Forall_forall; intros f Hin b Hb; apply ext_idem; auto | exact Ex].
    cbn [bind]. auto. }
  unfold new_file. rewrite Hn, Hp, Epk, Hs, Hd, Ec. cbn [negb]. exact Hres'.
Qed.

(* C34 new_file_to_proto *)
Theorem new_file_to_proto canon env p d :
  (forall k s, canon k (canon k s) = canon k s) ->
  Forall valr env ->
  wf34 p = true ->
  new_file canon env p = Ok d -> new_file canon env (to_proto d) = Ok d.
Proof.
  intros Hc He Hwf H. rewrite (to_proto_new_file canon env p d H). now apply new_file_normalize.
Qed.

(* ------------------------------------------------------------------ witnesses *)
Lemma ex_file_wf34 : wf34 ex_file = true.
Proof. vm_compute. reflexivity. Qed.

Lemma idc_idem : forall k s, idc k (idc k s) = idc k s.
Proof. reflexivity. Qed.

(* FK4: without [wf34] the round trip fails: an editions file that says LABEL_REQUIRED (label 2)
   is accepted, ToFileDescriptorProto writes LABEL_OPTIONAL, and NewFile of that has
   cardinality optional *)
Definition first_field_card (r : Res RFile) : option N :=
  match r with
  | Ok d => match rfl_msgs d with
            | mkRMsg _ _ (f :: _) _ _ _ _ _ _ _ _ _ _ :: _ => Some (rf_card f)
            | _ => None end
  | Err _ => None end.

Theorem new_file_to_proto_needs_wf :
  exists p d, new_file idc [] p = Ok d /\ first_field_card (Ok d) = Some 2 /\
              first_field_card (new_file idc [] (to_proto d)) = Some 1.
Proof.
  destruct (new_file idc [] fk4_file) as [d|] eqn:E; [|vm_compute in E; discriminate].
  exists fk4_file, d. split; [exact E|].
  vm_compute in E. inversion E; subst d. vm_compute. split; reflexivity.
Qed.
