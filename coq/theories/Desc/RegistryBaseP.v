(* RegistryBaseP — basic lemmas for the registry model: name equality, association lists,
   dotted names (split/parent/pop/chain), duplicate-freeness. *)
From Coq Require Import List Arith NArith Bool Lia Permutation.
From PB Require Import Desc.RegistryModel.
Import ListNotations.

(* ---------------------------------------------------------------- equality tests *)
Lemma byte_eqb_eq a b : Byte.eqb a b = true <-> a = b.
Proof. split; [apply Byte.byte_dec_bl | apply Byte.byte_dec_lb]. Qed.

Lemma name_eqb_eq a b : name_eqb a b = true <-> a = b.
Proof.
  revert b; induction a as [|x a IH]; destruct b as [|y b]; cbn [name_eqb]; try (split; [discriminate|discriminate]); try tauto.
  rewrite andb_true_iff, byte_eqb_eq, IH. split; [intros [-> ->]; reflexivity | intros H; inversion H; auto].
Qed.

Lemma name_eqb_refl a : name_eqb a a = true.
Proof. now apply name_eqb_eq. Qed.

Lemma name_eqb_neq a b : name_eqb a b = false <-> a <> b.
Proof.
  split.
  - intros H E. apply name_eqb_eq in E. congruence.
  - intros H. destruct (name_eqb a b) eqn:E; [apply name_eqb_eq in E; contradiction | reflexivity].
Qed.

Lemma name_eq_dec (a b : name) : {a = b} + {a <> b}.
Proof. destruct (name_eqb a b) eqn:E; [left; now apply name_eqb_eq | right; now apply name_eqb_neq]. Qed.

Lemma name_eqb_sym a b : name_eqb a b = name_eqb b a.
Proof.
  destruct (name_eqb a b) eqn:E.
  - apply name_eqb_eq in E; subst; symmetry; apply name_eqb_refl.
  - symmetry. apply name_eqb_neq. apply name_eqb_neq in E. congruence.
Qed.

Lemma is_dot_eq c : is_dot c = true <-> c = dotb.
Proof. apply byte_eqb_eq. Qed.

Lemma is_nil_true {A} (l : list A) : is_nil l = true <-> l = [].
Proof. destruct l; cbn; split; congruence. Qed.
Lemma is_nil_false {A} (l : list A) : is_nil l = false <-> l <> [].
Proof. destruct l; cbn; split; congruence. Qed.

Lemma mem_name_in n l : mem_name n l = true <-> In n l.
Proof.
  unfold mem_name. rewrite existsb_exists. split.
  - intros (x & Hx & E). apply name_eqb_eq in E. now subst.
  - intros H. exists n. split; [assumption | apply name_eqb_refl].
Qed.

Lemma mem_name_false n l : mem_name n l = false <-> ~ In n l.
Proof.
  rewrite <- mem_name_in. destruct (mem_name n l); split; intros; congruence.
Qed.

Lemma nodupb_NoDup l : nodupb l = true <-> NoDup l.
Proof.
  induction l as [|x l IH]; cbn [nodupb].
  - split; [constructor | reflexivity].
  - rewrite andb_true_iff, negb_true_iff, mem_name_false, IH. split.
    + intros [H1 H2]. now constructor.
    + intros H. inversion H; auto.
Qed.

Lemma NoDup_app_inv {A} (a b : list A) :
  NoDup (a ++ b) -> NoDup a /\ NoDup b /\ (forall x, In x a -> In x b -> False).
Proof.
  induction a as [|x a IH]; cbn.
  - intros H. repeat split; [constructor | assumption | intros ? []].
  - intros H. inversion H as [|? ? Hn Hd]; subst. destruct (IH Hd) as (Ha & Hb & Hab).
    repeat split.
    + constructor; [|assumption]. intros Hi. apply Hn. apply in_or_app. now left.
    + assumption.
    + intros y [->|Hy] Hyb; [apply Hn; apply in_or_app; now right | eauto].
Qed.

Lemma NoDup_map_inj_in {A B} (g : A -> B) (l : list A) x y :
  NoDup (map g l) -> In x l -> In y l -> g x = g y -> x = y.
Proof.
  induction l as [|z l IH]; cbn; [intros _ []|].
  intros H. inversion H as [|? ? Hn Hd]; subst.
  intros [->|Hx] [->|Hy] E; auto.
  - exfalso. apply Hn. rewrite E. now apply in_map.
  - exfalso. apply Hn. rewrite <- E. now apply in_map.
Qed.

(* ---------------------------------------------------------------- association lists *)
Section AList.
  Context {K V : Type} (eqb : K -> K -> bool).
  Hypothesis eqb_eq : forall a b, eqb a b = true <-> a = b.

  Lemma eqb_refl' a : eqb a a = true.
  Proof. now apply eqb_eq. Qed.

  Lemma aget_aput (m : list (K * V)) k v k' :
    aget eqb (aput eqb m k v) k' = if eqb k k' then Some v else aget eqb m k'.
  Proof.
    induction m as [|[k0 v0] m IH]; cbn [aput aget].
    - reflexivity.
    - destruct (eqb k0 k) eqn:E0.
      + apply eqb_eq in E0; subst k0. cbn [aget]. destruct (eqb k k'); reflexivity.
      + cbn [aget]. destruct (eqb k0 k') eqn:E1.
        * apply eqb_eq in E1; subst k0. destruct (eqb k k') eqn:E2; [|reflexivity].
          apply eqb_eq in E2; subst. rewrite eqb_refl' in E0. discriminate.
        * apply IH.
  Qed.

  Lemma aget_in (m : list (K * V)) k v : aget eqb m k = Some v -> In (k, v) m.
  Proof.
    induction m as [|[k0 v0] m IH]; cbn [aget]; [discriminate|].
    destruct (eqb k0 k) eqn:E.
    - apply eqb_eq in E; subst. intros H; inversion H; subst. now left.
    - intros H. right. auto.
  Qed.

  Lemma aget_none_notin (m : list (K * V)) k : aget eqb m k = None <-> ~ In k (map fst m).
  Proof.
    induction m as [|[k0 v0] m IH]; cbn [aget map fst].
    - split; [intros _ [] | reflexivity].
    - destruct (eqb k0 k) eqn:E.
      + apply eqb_eq in E; subst. split; [discriminate | intros H; exfalso; apply H; now left].
      + rewrite IH. split.
        * intros H [E'|Hi]; [subst; rewrite eqb_refl' in E; discriminate | contradiction].
        * intros H Hi. apply H. now right.
  Qed.

  Lemma in_nodup_aget (m : list (K * V)) k v :
    NoDup (map fst m) -> In (k, v) m -> aget eqb m k = Some v.
  Proof.
    induction m as [|[k0 v0] m IH]; cbn [aget map fst]; [intros _ []|].
    intros H. inversion H as [|? ? Hn Hd]; subst. intros [E|Hi].
    - inversion E; subst. now rewrite eqb_refl'.
    - destruct (eqb k0 k) eqn:E.
      + apply eqb_eq in E; subst. exfalso. apply Hn. change k with (fst (k, v)). now apply in_map.
      + auto.
  Qed.

  (* entering an association list entry by entry; distinct keys *)
  Lemma fold_put_get (l m : list (K * V)) k :
    NoDup (map fst l) ->
    aget eqb (fold_left (fun m kd => aput eqb m (fst kd) (snd kd)) l m) k =
    match aget eqb l k with Some v => Some v | None => aget eqb m k end.
  Proof.
    revert m; induction l as [|[k0 v0] l IH]; intros m H; cbn [fold_left aget fst snd].
    - reflexivity.
    - inversion H as [|? ? Hn Hd]; subst. rewrite IH by assumption.
      destruct (eqb k0 k) eqn:E.
      + apply eqb_eq in E; subst. apply aget_none_notin in Hn. rewrite Hn.
        rewrite aget_aput, eqb_refl'. reflexivity.
      + rewrite aget_aput, E. reflexivity.
  Qed.

  (* flattening after appending to one bucket that was absent or empty *)
  Lemma flat_aput_perm {X} (m : list (K * list X)) k x :
    (aget eqb m k = None \/ aget eqb m k = Some []) ->
    Permutation (flat_map snd (aput eqb m k [x])) (x :: flat_map snd m).
  Proof.
    induction m as [|[k0 v0] m IH]; cbn [aget aput flat_map snd].
    - intros _. cbn. apply Permutation_refl.
    - destruct (eqb k0 k) eqn:E.
      + intros [H|H]; [discriminate|]. inversion H; subst. cbn. apply Permutation_refl.
      + intros H. cbn [flat_map snd]. specialize (IH H).
        eapply Permutation_trans; [apply Permutation_app_head; exact IH|].
        apply Permutation_sym. apply Permutation_middle.
  Qed.
End AList.

Lemma dget_dput m k v k' : dget (dput m k v) k' = if name_eqb k k' then Some v else dget m k'.
Proof. apply aget_aput. apply name_eqb_eq. Qed.

(* ---------------------------------------------------------------- dotted names *)
Lemma split_last_dot_none s : split_last_dot s = None <-> ~ In dotb s.
Proof.
  induction s as [|c t IH]; cbn [split_last_dot].
  - split; [intros _ [] | reflexivity].
  - destruct (split_last_dot t) as [[a b]|] eqn:E.
    + split; [discriminate|]. intros H. exfalso.
      assert (Hn : ~ In dotb t) by (intros Hi; apply H; now right).
      apply IH in Hn. discriminate.
    + destruct (is_dot c) eqn:Ec.
      * apply is_dot_eq in Ec; subst. split; [discriminate | intros H; exfalso; apply H; now left].
      * split; [|reflexivity]. intros _ [Hc|Hi].
        -- subst. assert (is_dot dotb = true) by now apply is_dot_eq. congruence.
        -- now apply IH.
Qed.

Lemma split_last_dot_some s a b :
  split_last_dot s = Some (a, b) -> s = a ++ dotb :: b /\ ~ In dotb b.
Proof.
  revert a b; induction s as [|c t IH]; cbn [split_last_dot]; [discriminate|].
  intros a b. destruct (split_last_dot t) as [[a' b']|] eqn:E.
  - intros H; inversion H; subst. destruct (IH _ _ eq_refl) as [-> Hn]. split; [reflexivity | assumption].
  - destruct (is_dot c) eqn:Ec; [|discriminate].
    intros H; inversion H; subst. apply is_dot_eq in Ec; subst. split; [reflexivity|].
    now apply split_last_dot_none.
Qed.

Lemma split_last_dot_app a b : ~ In dotb b -> split_last_dot (a ++ dotb :: b) = Some (a, b).
Proof.
  intros Hn. induction a as [|c a IH]; cbn [app split_last_dot].
  - apply split_last_dot_none in Hn. rewrite Hn.
    assert (E : is_dot dotb = true) by now apply is_dot_eq. now rewrite E.
  - now rewrite IH.
Qed.

Lemma parent_app a b : ~ In dotb b -> parent (a ++ dotb :: b) = a.
Proof. intros H. unfold parent. now rewrite split_last_dot_app. Qed.

Lemma parent_nodot s : ~ In dotb s -> parent s = [].
Proof. intros H. unfold parent. apply split_last_dot_none in H. now rewrite H. Qed.

Lemma parent_nil : parent [] = [].
Proof. reflexivity. Qed.

(* either the name has no dot (parent "") or it is parent.b with b dot-free *)
Lemma parent_cases s :
  (~ In dotb s /\ parent s = []) \/ (exists b, s = parent s ++ dotb :: b /\ ~ In dotb b).
Proof.
  unfold parent. destruct (split_last_dot s) as [[a b]|] eqn:E.
  - right. apply split_last_dot_some in E. destruct E as [E Hn]. exists b. now split.
  - left. split; [now apply split_last_dot_none | reflexivity].
Qed.

Lemma parent_length s : s <> [] -> length (parent s) < length s.
Proof.
  intros Hs. destruct (parent_cases s) as [[_ ->]|(b & E & _)].
  - destruct s; [contradiction | cbn; lia].
  - rewrite E at 2. rewrite app_length. cbn. lia.
Qed.

(* induction along the Parent chain *)
Lemma parent_ind (P : name -> Prop) :
  P [] -> (forall n, n <> [] -> P (parent n) -> P n) -> forall n, P n.
Proof.
  intros H0 Hs n. remember (length n) as k eqn:Ek. revert n Ek.
  induction k as [k IH] using lt_wf_ind. intros n Ek.
  destruct n as [|c t]; [exact H0|].
  apply Hs; [discriminate|]. apply (IH (length (parent (c :: t)))); [|reflexivity].
  subst k. apply parent_length. discriminate.
Qed.

(* parent of p.y is p or p.y' *)
Lemma parent_ext p y :
  parent (p ++ dotb :: y) = p \/ exists y', parent (p ++ dotb :: y) = p ++ dotb :: y'.
Proof.
  destruct (split_last_dot y) as [[a b]|] eqn:E.
  - right. apply split_last_dot_some in E. destruct E as [-> Hn]. exists a.
    replace (p ++ dotb :: a ++ dotb :: b) with ((p ++ dotb :: a) ++ dotb :: b) by (rewrite <- app_assoc; reflexivity).
    now apply parent_app.
  - left. apply split_last_dot_none in E. now apply parent_app.
Qed.

Lemma valid_ident_spec n : valid_ident n = true <-> n <> [] /\ ~ In dotb n.
Proof.
  unfold valid_ident. rewrite andb_true_iff, negb_true_iff, is_nil_false, forallb_forall. split.
  - intros [H1 H2]. split; [assumption|]. intros Hi. apply H2 in Hi.
    assert (is_dot dotb = true) by now apply is_dot_eq. rewrite H in Hi. discriminate.
  - intros [H1 H2]. split; [assumption|]. intros x Hx. destruct (is_dot x) eqn:E; [|reflexivity].
    apply is_dot_eq in E; subst. contradiction.
Qed.

Lemma fn_append_cons p c : p <> [] -> fn_append p c = p ++ dotb :: c.
Proof. destruct p; [contradiction | reflexivity]. Qed.

Lemma parent_fn_append p c : ~ In dotb c -> parent (fn_append p c) = p.
Proof.
  intros H. destruct p as [|x p].
  - cbn [fn_append]. now apply parent_nodot.
  - rewrite fn_append_cons by discriminate. now apply parent_app.
Qed.

Lemma fn_append_length p c : c <> [] -> length p < length (fn_append p c).
Proof.
  intros H. destruct p as [|x p]; cbn [fn_append].
  - destruct c; [contradiction | cbn; lia].
  - rewrite app_length. cbn. lia.
Qed.

Lemma fn_append_nonnil p c : c <> [] -> fn_append p c <> [].
Proof. intros H E. pose proof (fn_append_length p c H) as L. rewrite E in L. cbn in L. lia. Qed.

Lemma fn_append_inj p c c' : fn_append p c = fn_append p c' -> c = c'.
Proof.
  destruct p as [|x p]; cbn [fn_append]; [auto|].
  intros H. apply app_inv_head in H. now inversion H.
Qed.

Lemma skipn_app_dot p x : skipn (S (length p)) (p ++ dotb :: x) = x.
Proof. induction p as [|c p IH]; [reflexivity | exact IH]. Qed.

Lemma app_dot_neq p x : p ++ dotb :: x <> p.
Proof. intros H. apply (f_equal (@length _)) in H. rewrite app_length in H. cbn in H. lia. Qed.

(* ---- pop *)
Lemma split_first_dot_none s : ~ In dotb s -> split_first_dot s = None.
Proof.
  induction s as [|c t IH]; cbn [split_first_dot]; [reflexivity|].
  intros H. destruct (is_dot c) eqn:E.
  - apply is_dot_eq in E; subst. exfalso; apply H; now left.
  - rewrite IH; [reflexivity|]. intros Hi; apply H; now right.
Qed.

Lemma split_first_dot_app a b : ~ In dotb a -> split_first_dot (a ++ dotb :: b) = Some (a, b).
Proof.
  induction a as [|c a IH]; cbn [app split_first_dot]; intros H.
  - assert (E : is_dot dotb = true) by now apply is_dot_eq. now rewrite E.
  - destruct (is_dot c) eqn:E.
    + apply is_dot_eq in E; subst. exfalso; apply H; now left.
    + rewrite IH; [reflexivity|]. intros Hi; apply H; now right.
Qed.

Lemma pop_nodot s : ~ In dotb s -> pop s = (s, []).
Proof. intros H. unfold pop. now rewrite split_first_dot_none. Qed.

Lemma pop_app a b : ~ In dotb a -> pop (a ++ dotb :: b) = (a, b).
Proof. intros H. unfold pop. now rewrite split_first_dot_app. Qed.

(* ---- chain *)
Lemma chain_fuel_indep f1 : forall f2 n, length n < f1 -> length n < f2 -> chain_fuel f1 n = chain_fuel f2 n.
Proof.
  induction f1 as [|f1 IH]; intros f2 n H1 H2; [lia|].
  destruct f2 as [|f2]; [lia|]. cbn [chain_fuel].
  destruct n as [|c t]; [reflexivity|].
  assert (L : length (parent (c :: t)) < length (c :: t)) by (apply parent_length; discriminate).
  rewrite (IH f2) by lia. reflexivity.
Qed.

Lemma chain_nil : chain [] = Some [].
Proof. reflexivity. Qed.

Lemma chain_unfold n : n <> [] ->
  chain n = match chain (parent n) with Some l => Some (n :: l) | None => None end.
Proof.
  intros Hn. unfold chain at 1. cbn [chain_fuel]. destruct n as [|c t]; [contradiction|].
  assert (L : length (parent (c :: t)) < length (c :: t)) by (apply parent_length; discriminate).
  unfold chain. rewrite (chain_fuel_indep (length (c :: t)) (S (length (parent (c :: t))))) by lia.
  reflexivity.
Qed.

Lemma chain_total n : exists l, chain n = Some l.
Proof.
  induction n as [|n Hn IH] using parent_ind.
  - exists []. reflexivity.
  - destruct IH as [l Hl]. exists (n :: l). rewrite chain_unfold by assumption. now rewrite Hl.
Qed.

Lemma chain_cons n l : n <> [] -> chain n = Some l -> exists l', l = n :: l' /\ chain (parent n) = Some l'.
Proof.
  intros Hn H. rewrite chain_unfold in H by assumption.
  destruct (chain (parent n)) as [l'|]; [|discriminate]. inversion H; subst. now exists l'.
Qed.

Lemma chain_in_iff n : forall l q, chain n = Some l -> (In q l <-> dot_prefix q n).
Proof.
  induction n as [|n Hn IH] using parent_ind; intros l q H.
  - rewrite chain_nil in H. inversion H; subst. split; [intros []|].
    intros [Hq [E|[x E]]]; [congruence | destruct q; discriminate].
  - destruct (chain_cons _ _ Hn H) as (l' & -> & Hl'). specialize (IH l' q Hl'). split.
    + intros [<-|Hi].
      * split; [assumption | now left].
      * apply IH in Hi. destruct Hi as [Hq Hc]. split; [assumption|]. right.
        destruct (parent_cases n) as [[_ Ep]|(b & E & _)].
        -- rewrite Ep in Hc. destruct Hc as [Hc|[x Hc]]; [congruence | destruct q; discriminate].
        -- destruct Hc as [Hc|[x Hc]].
           ++ exists b. now rewrite Hc.
           ++ exists (x ++ dotb :: b). rewrite E, Hc. rewrite <- app_assoc. reflexivity.
    + intros [Hq [E|[x E]]].
      * left. now symmetry.
      * right. apply IH. split; [assumption|].
        subst n. destruct (parent_ext q x) as [Hp|[y' Hp]]; rewrite Hp; [now left | right; now exists y'].
Qed.

Lemma chain_in_nonnil n l q : chain n = Some l -> In q l -> q <> [].
Proof. intros H Hi. apply (chain_in_iff n l q H) in Hi. apply Hi. Qed.

Lemma dot_prefix_length q n : dot_prefix q n -> length q <= length n.
Proof.
  intros [_ [->|[x ->]]]; [lia|]. rewrite app_length. cbn. lia.
Qed.

Lemma dot_prefix_refl n : n <> [] -> dot_prefix n n.
Proof. intros H. split; [assumption | now left]. Qed.

(* the parent of a dotted prefix is "" or a dotted prefix *)
Lemma dot_prefix_parent q n : dot_prefix q n -> parent q = [] \/ dot_prefix (parent q) n.
Proof.
  intros [Hq Hc]. destruct (parent_cases q) as [[_ Ep]|(b & E & _)]; [now left|].
  destruct (parent q) as [|c p'] eqn:Ep; [now left|]. right. split; [discriminate|]. right.
  destruct Hc as [<-|[x Hx]].
  - now exists b.
  - exists (b ++ dotb :: x). rewrite Hx, E. rewrite <- app_assoc. reflexivity.
Qed.
