(* Proofs about the descriptor-validation model (C35), part 2: soundness.
   Declarative "definite error" predicates, and: an accepted file exhibits none of them. *)
From Coq Require Import List NArith ZArith Bool Lia.
From PB Require Import Desc.ValidateModel Desc.ValidateP.
Import ListNotations.
Open Scope Z_scope.

(* ---------- strings *)
Lemma str_eqb_eq : forall a b, str_eqb a b = true <-> a = b.
Proof.
  induction a as [|x a IH]; intros [|y b]; cbn; split; intros H; try discriminate; try reflexivity.
  - apply andb_true_iff in H. destruct H as [H1 H2]. apply N.eqb_eq in H1. apply IH in H2. subst; reflexivity.
  - injection H as -> ->. rewrite N.eqb_refl. cbn. apply IH. reflexivity.
Qed.
Lemma str_mem_in : forall s l, str_mem s l = true <-> In s l.
Proof.
  intros s l. unfold str_mem. rewrite existsb_exists. split.
  - intros [x [Hx He]]. apply str_eqb_eq in He. subst. exact Hx.
  - intros H. exists s. split; [exact H|]. apply str_eqb_eq. reflexivity.
Qed.
Lemma has_dup_nodup : forall l, has_dup l = false -> NoDup l.
Proof.
  induction l as [|x r IH]; intros H; [constructor|].
  cbn in H. apply orb_false_iff in H. destruct H as [H1 H2].
  constructor; [|apply IH; exact H2].
  intros Hin. apply str_mem_in in Hin. congruence.
Qed.

(* ---------- indexed lists *)
Lemma in_combine_seq : forall A (l : list A) s i x,
  In (i, x) (combine (seq s (length l)) l) <-> (s <= i)%nat /\ nth_error l (i - s) = Some x.
Proof.
  intros A l; induction l as [|y r IH]; intros s i x; cbn [length seq combine].
  - split; [intros []|]. intros [_ H]. destruct (i - s)%nat; discriminate.
  - cbn [In]. rewrite IH. split.
    + intros [H|[H1 H2]].
      * injection H as <- <-. split; [lia|]. rewrite Nat.sub_diag. reflexivity.
      * split; [lia|]. replace (i - s)%nat with (S (i - S s)) by lia. exact H2.
    + intros [H1 H2]. destruct (Nat.eq_dec i s) as [->|Hne].
      * left. rewrite Nat.sub_diag in H2. cbn in H2. injection H2 as ->. reflexivity.
      * right. split; [lia|]. replace (i - s)%nat with (S (i - S s)) in H2 by lia. exact H2.
Qed.

(* ---------- duplicate field numbers *)
Definition ffn_go := fix go (l : list field) (n : Z) (i : nat) : option nat :=
  match l with [] => None | f :: r => if f_num f =? n then Some i else go r n (S i) end.
Lemma first_field_num_go : forall fields n, first_field_num fields n = ffn_go fields n 0.
Proof.
  intros fields n. unfold first_field_num.
  generalize 0%nat. induction fields as [|f r IH]; intros i; [reflexivity|].
  cbn. destruct (f_num f =? n); [reflexivity|apply IH].
Qed.
Lemma ffn_go_le : forall l n s i f,
  nth_error l i = Some f -> f_num f = n -> exists k, ffn_go l n s = Some k /\ (k <= s + i)%nat.
Proof.
  induction l as [|g r IH]; intros n s i f Hn Hf; [destruct i; discriminate|].
  cbn. destruct (f_num g =? n) eqn:E; [exists s; split; [reflexivity|lia]|].
  destruct i as [|i]; [cbn in Hn; injection Hn as ->; apply Z.eqb_neq in E; congruence|].
  cbn in Hn. destruct (IH n (S s) i f Hn Hf) as [k [Hk Hle]]. exists k. split; [exact Hk|lia].
Qed.

Definition dup_field_number (m : msg) : Prop :=
  exists i j fi fj, (i < j)%nat /\ nth_error (m_fields m) i = Some fi /\ nth_error (m_fields m) j = Some fj
                    /\ f_num fi = f_num fj.

Lemma no_dup_field_number : forall fields,
  has_dup_field_number fields = false ->
  forall i j fi fj, (i < j)%nat -> nth_error fields i = Some fi -> nth_error fields j = Some fj -> f_num fi <> f_num fj.
Proof.
  intros fields H i j fi fj Hij Hi Hj Heq.
  unfold has_dup_field_number in H.
  assert (Hin : In (j, fj) (combine (seq 0 (length fields)) fields)).
  { apply in_combine_seq. split; [lia|]. rewrite Nat.sub_0_r. exact Hj. }
  assert (Hex : existsb (fun p => match first_field_num fields (f_num (snd p)) with
                                  | Some j0 => negb (Nat.eqb j0 (fst p)) | None => false end)
                        (combine (seq 0 (length fields)) fields) = true).
  { apply existsb_exists. exists (j, fj). split; [exact Hin|]. cbn [fst snd].
    rewrite first_field_num_go.
    destruct (ffn_go_le fields (f_num fj) 0 i fi Hi Heq) as [k [Hk Hle]]. rewrite Hk.
    apply negb_true_iff. apply Nat.eqb_neq. lia. }
  congruence.
Qed.

(* ---------- enum aliases *)
Lemma first_index_num_le : forall vs n s i v,
  nth_error vs i = Some v -> ev_number v = n -> exists k, first_index_num vs n s = Some k /\ (k <= s + i)%nat.
Proof.
  induction vs as [|g r IH]; intros n s i v Hn Hf; [destruct i; discriminate|].
  cbn. destruct (ev_number g =? n) eqn:E; [exists s; split; [reflexivity|lia]|].
  destruct i as [|i]; [cbn in Hn; injection Hn as ->; apply Z.eqb_neq in E; congruence|].
  cbn in Hn. destruct (IH n (S s) i v Hn Hf) as [k [Hk Hle]]. exists k. split; [exact Hk|lia].
Qed.
Lemma has_alias_complete : forall vs i j vi vj,
  (i < j)%nat -> nth_error vs i = Some vi -> nth_error vs j = Some vj -> ev_number vi = ev_number vj ->
  has_alias vs = true.
Proof.
  intros vs i j vi vj Hij Hi Hj Heq. unfold has_alias. apply existsb_exists. exists (j, vj). split.
  - apply in_combine_seq. split; [lia|]. rewrite Nat.sub_0_r. exact Hj.
  - cbn [fst snd]. destruct (first_index_num_le vs (ev_number vj) 0 i vi Hi Heq) as [k [Hk Hle]]. rewrite Hk.
    apply negb_true_iff. apply Nat.eqb_neq. lia.
Qed.
Lemma first_index_num_sound : forall vs n s k,
  first_index_num vs n s = Some k -> (s <= k)%nat /\ exists v, nth_error vs (k - s) = Some v /\ ev_number v = n.
Proof.
  induction vs as [|g r IH]; intros n s k H; [discriminate|].
  cbn in H. destruct (ev_number g =? n) eqn:E.
  - injection H as <-. split; [lia|]. rewrite Nat.sub_diag. exists g. split; [reflexivity|apply Z.eqb_eq; exact E].
  - destruct (IH n (S s) k H) as [Hle [v [Hv Hn]]]. split; [lia|]. exists v. split; [|exact Hn].
    replace (k - s)%nat with (S (k - S s)) by lia. exact Hv.
Qed.
Lemma has_alias_sound : forall vs, has_alias vs = true ->
  exists i j vi vj, i <> j /\ nth_error vs i = Some vi /\ nth_error vs j = Some vj /\ ev_number vi = ev_number vj.
Proof.
  intros vs H. unfold has_alias in H. apply existsb_exists in H. destruct H as [[j vj] [Hin Hp]].
  apply in_combine_seq in Hin. destruct Hin as [_ Hj]. rewrite Nat.sub_0_r in Hj. cbn [fst snd] in Hp.
  destruct (first_index_num vs (ev_number vj) 0) as [k|] eqn:Hk; [|discriminate].
  apply negb_true_iff, Nat.eqb_neq in Hp.
  destruct (first_index_num_sound _ _ _ _ Hk) as [_ [v [Hv Hn]]]. rewrite Nat.sub_0_r in Hv.
  exists k, j, v, vj. auto.
Qed.

(* ---------- definite-error predicates *)
(* on a message declaration *)
Definition reserved_name_used (m : msg) : Prop := exists f, In f (m_fields m) /\ In (f_name f) (m_resnames m).
Definition duplicate_reserved_name (m : msg) : Prop := ~ NoDup (m_resnames m).
Definition invalid_field_number (m : msg) : Prop := exists f, In f (m_fields m) /\ ~ (1 <= f_num f <= 536870911).
Definition invalid_label (m : msg) : Prop := exists f, In f (m_fields m) /\ f_label f <> 1 /\ f_label f <> 2 /\ f_label f <> 3.
Definition field_with_extendee (m : msg) : Prop := exists f s, In f (m_fields m) /\ f_extendee f = Some s.
Definition empty_oneof (m : msg) : Prop :=
  exists k, (k < length (m_oneofs m))%nat /\ forall f, In f (m_fields m) -> f_oneof f <> Some (Z.of_nat k).
Definition proto3_required (syntax : N) (m : msg) : Prop := syntax = 1%N /\ exists f, In f (m_fields m) /\ f_label f = 2.
Definition proto3_extension_ranges (syntax : N) (m : msg) : Prop := syntax = 1%N /\ m_extranges m <> [].
Definition proto3_optional_outside_proto3 (syntax : N) (m : msg) : Prop :=
  syntax <> 1%N /\ exists f, In f (m_fields m) /\ f_p3opt f = true.
Definition proto3_optional_not_optional (m : msg) : Prop := exists f, In f (m_fields m) /\ f_p3opt f = true /\ f_label f <> 1.
Definition message_set_unsupported (m : msg) : Prop := m_msgset m = true.
(* on an enum declaration *)
Definition empty_enum (e : enum) : Prop := en_values e = [].
Definition enum_dup_number_noalias (e : enum) : Prop :=
  en_alias e = false /\
  exists i j vi vj, (i < j)%nat /\ nth_error (en_values e) i = Some vi /\ nth_error (en_values e) j = Some vj
                    /\ ev_number vi = ev_number vj.
Definition alias_without_aliases (e : enum) : Prop := en_alias e = true /\ NoDup (map ev_number (en_values e)).
Definition open_enum_first_nonzero (syntax : N) (e : enum) : Prop :=
  syntax <> 0%N /\ exists v r, en_values e = v :: r /\ ev_number v <> 0.
Definition enum_reserved_name_used (e : enum) : Prop := exists v, In v (en_values e) /\ In (ev_name v) (en_resnames e).
Definition enum_duplicate_reserved_name (e : enum) : Prop := ~ NoDup (en_resnames e).
Definition enum_value_without_number (e : enum) : Prop := exists v, In v (en_values e) /\ ev_num v = None.

Definition msg_definite_error (syntax : N) (m : msg) : Prop :=
  dup_field_number m \/ reserved_name_used m \/ duplicate_reserved_name m \/ invalid_field_number m \/ invalid_label m
  \/ field_with_extendee m \/ empty_oneof m \/ proto3_required syntax m \/ proto3_extension_ranges syntax m
  \/ proto3_optional_outside_proto3 syntax m \/ proto3_optional_not_optional m \/ message_set_unsupported m.
Definition enum_definite_error (syntax : N) (e : enum) : Prop :=
  empty_enum e \/ enum_dup_number_noalias e \/ alias_without_aliases e \/ open_enum_first_nonzero syntax e
  \/ enum_reserved_name_used e \/ enum_duplicate_reserved_name e \/ enum_value_without_number e.

(* ---------- oneofs *)
Lemma oneof_members_nil : forall fields k,
  oneof_members fields k = [] -> forall f, In f fields -> f_oneof f <> Some k.
Proof.
  intros fields k H f Hf Heq.
  destruct (In_nth_error _ _ Hf) as [i Hi].
  assert (Hin : In (i, f) (oneof_members fields k)).
  { unfold oneof_members. apply filter_In. split.
    - apply in_combine_seq. split; [lia|]. rewrite Nat.sub_0_r. exact Hi.
    - cbn [snd]. rewrite Heq. apply Z.eqb_refl. }
  rewrite H in Hin. destruct Hin.
Qed.

Lemma validate_oneofs_nonempty : forall syntax fields n k seen,
  validate_oneofs syntax fields n k seen = Ok tt ->
  forall j, (j < n)%nat -> oneof_members fields (k + Z.of_nat j) <> [].
Proof.
  intros syntax fields n; induction n as [|n IH]; intros k seen H j Hj; [lia|].
  cbn [validate_oneofs] in H.
  destruct (oneof_members fields k) as [|[i0 f0] ms] eqn:Hm; [discriminate|].
  destruct j as [|j].
  - rewrite Z.add_0_r. rewrite Hm. discriminate.
  - replace (k + Z.of_nat (S j)) with ((k + 1) + Z.of_nat j) by lia.
    destruct (negb (Nat.eqb (length ((i0, f0) :: ms) - 1) (fst (last ((i0, f0) :: ms) (i0, f0)) - i0))); [discriminate|].
    destruct (is_proto3 syntax && Nat.eqb (length ((i0, f0) :: ms)) 1 && f_p3opt f0).
    + eapply IH; [exact H|lia].
    + destruct seen; [discriminate|].
      apply bind_ok in H. destruct H as [[] [_ H]]. eapply IH; [exact H|lia].
Qed.

(* ---------- soundness of the per-declaration checks *)
Lemma validate_field_facts : forall legacy allow syntax t m full f,
  validate_field legacy allow syntax t m full f = Ok tt ->
  str_mem (f_name f) (m_resnames m) = false /\ num_valid (f_num f) = true /\ card_valid (f_label f) = true
  /\ f_extendee f = None
  /\ (f_p3opt f = true -> is_proto3 syntax = true /\ f_label f = 1)
  /\ (is_proto3 syntax = true -> f_label f <> 2).
Proof.
  intros legacy allow syntax t m full f H. unfold validate_field in H. cbv zeta in H.
  apply bind_check_ok in H. destruct H as [H1 H].
  apply bind_check_ok in H. destruct H as [H2 H].
  apply bind_check_ok in H. destruct H as [H3 H].
  apply bind_check_ok in H. destruct H as [_ H].
  apply bind_check_ok in H. destruct H as [_ H].
  apply bind_check_ok in H. destruct H as [H6 H].
  apply bind_ok in H. destruct H as [[] [H7 H]].
  apply bind_check_ok in H. destruct H as [_ H].
  apply bind_check_ok in H. destruct H as [_ H].
  apply bind_check_ok in H. destruct H as [_ H].
  apply bind_ok in H. destruct H as [[] [H11 _]].
  apply negb_false_iff in H2. apply negb_false_iff in H3.
  repeat split; auto.
  - destruct (f_extendee f); [discriminate|reflexivity].
  - destruct (f_p3opt f); [|discriminate]. apply bind_check_ok in H7. destruct H7 as [Ha _].
    apply negb_false_iff in Ha. exact Ha.
  - destruct (f_p3opt f); [|discriminate]. apply bind_check_ok in H7. destruct H7 as [_ H7].
    apply bind_check_ok in H7. destruct H7 as [Hb _]. apply negb_false_iff in Hb. apply Z.eqb_eq in Hb. exact Hb.
  - intros Hp3 Hl. rewrite Hp3 in H11. apply bind_check_ok in H11. destruct H11 as [Ha _].
    rewrite Hl in Ha. discriminate.
Qed.

Theorem msg_local_sound : forall allow syntax t full m,
  msg_local false allow syntax t full m = Ok tt -> ~ msg_definite_error syntax m.
Proof.
  intros allow syntax t full m H. unfold msg_local in H.
  apply bind_check_ok in H. destruct H as [Hrn H].
  apply bind_check_ok in H. destruct H as [_ H].
  apply bind_check_ok in H. destruct H as [_ H].
  apply bind_check_ok in H. destruct H as [_ H].
  apply bind_check_ok in H. destruct H as [Hdup H].
  apply bind_check_ok in H. destruct H as [Hms H].
  apply bind_check_ok in H. destruct H as [_ H].
  apply bind_check_ok in H. destruct H as [Hp3x H].
  apply bind_ok in H. destruct H as [[] [Hfields Honeofs]].
  pose proof (fun f Hf => validate_field_facts _ _ _ _ _ _ f (for_each_ok _ _ _ Hfields f Hf)) as HF.
  unfold msg_definite_error.
  intros [E|[E|[E|[E|[E|[E|[E|[E|[E|[E|[E|E]]]]]]]]]]].
  - destruct E as [i [j [fi [fj [Hij [Hi [Hj Heq]]]]]]].
    exact (no_dup_field_number _ Hdup i j fi fj Hij Hi Hj Heq).
  - destruct E as [f [Hf Hin]]. destruct (HF f Hf) as [Hn _]. apply str_mem_in in Hin. congruence.
  - apply E. apply has_dup_nodup. exact Hrn.
  - destruct E as [f [Hf Hbad]]. destruct (HF f Hf) as [_ [Hn _]]. unfold num_valid, max_valid in Hn.
    apply andb_true_iff in Hn. destruct Hn as [Ha Hb]. apply Z.leb_le in Ha. apply Z.leb_le in Hb. lia.
  - destruct E as [f [Hf [H1 [H2 H3]]]]. destruct (HF f Hf) as [_ [_ [Hc _]]]. unfold card_valid in Hc.
    repeat (apply orb_true_iff in Hc; destruct Hc as [Hc|Hc]); apply Z.eqb_eq in Hc; congruence.
  - destruct E as [f [s [Hf He]]]. destruct (HF f Hf) as [_ [_ [_ [Hx _]]]]. congruence.
  - destruct E as [k [Hk Hnone]].
    pose proof (validate_oneofs_nonempty _ _ _ _ _ Honeofs k Hk) as Hne. cbn in Hne.
    destruct (oneof_members (m_fields m) (Z.of_nat k)) as [|[i f] r] eqn:Hm; [congruence|].
    assert (Hin : In (i, f) (oneof_members (m_fields m) (Z.of_nat k))) by (rewrite Hm; left; reflexivity).
    unfold oneof_members in Hin. apply filter_In in Hin. destruct Hin as [Hin Hp]. cbn [snd] in Hp.
    apply in_combine_seq in Hin. destruct Hin as [_ Hnth]. apply nth_error_In in Hnth.
    destruct (f_oneof f) as [j|] eqn:Hj; [|discriminate]. apply Z.eqb_eq in Hp. subst j.
    exact (Hnone f Hnth Hj).
  - destruct E as [-> [f [Hf Hl]]]. destruct (HF f Hf) as [_ [_ [_ [_ [_ Hreq]]]]]. exact (Hreq eq_refl Hl).
  - destruct E as [-> Hne]. cbn in Hp3x. destruct (m_extranges m); [congruence|discriminate].
  - destruct E as [Hs [f [Hf Hp]]]. destruct (HF f Hf) as [_ [_ [_ [_ [Hp3 _]]]]]. destruct (Hp3 Hp) as [Hs3 _].
    unfold is_proto3 in Hs3. apply N.eqb_eq in Hs3. congruence.
  - destruct E as [f [Hf [Hp Hl]]]. destruct (HF f Hf) as [_ [_ [_ [_ [Hp3 _]]]]]. destruct (Hp3 Hp) as [_ Hl1]. congruence.
  - unfold message_set_unsupported in E. rewrite E in Hms. discriminate.
Qed.

Theorem validate_enum_sound : forall syntax e,
  validate_enum syntax e = Ok tt -> ~ enum_definite_error syntax e.
Proof.
  intros syntax e H. unfold validate_enum in H.
  apply bind_check_ok in H. destruct H as [Hrn H].
  apply bind_check_ok in H. destruct H as [_ H].
  apply bind_check_ok in H. destruct H as [Hempty H].
  apply bind_check_ok in H. destruct H as [Hdup H].
  apply bind_check_ok in H. destruct H as [Hnoalias H].
  apply bind_ok in H. destruct H as [[] [Hopen Hvals]].
  pose proof (for_each_ok _ _ _ Hvals) as HV.
  unfold enum_definite_error.
  intros [E|[E|[E|[E|[E|[E|E]]]]]].
  - unfold empty_enum in E. rewrite E in Hempty. discriminate.
  - destruct E as [Ha [i [j [vi [vj [Hij [Hi [Hj Heq]]]]]]]].
    rewrite (has_alias_complete _ i j vi vj Hij Hi Hj Heq), Ha in Hdup. discriminate.
  - destruct E as [Ha Hnd]. rewrite Ha in Hnoalias. cbn in Hnoalias. apply negb_false_iff in Hnoalias.
    destruct (has_alias_sound _ Hnoalias) as [i [j [vi [vj [Hne [Hi [Hj Heq]]]]]]].
    apply Hne. eapply (proj1 (NoDup_nth_error _) Hnd).
    + apply nth_error_Some. rewrite nth_error_map, Hi. discriminate.
    + rewrite !nth_error_map, Hi, Hj. cbn. congruence.
  - destruct E as [Hs [v [r [Hv Hnz]]]].
    unfold enum_is_closed, is_proto2 in Hopen. destruct (N.eqb syntax 0) eqn:E0; [apply N.eqb_eq in E0; congruence|].
    apply bind_check_ok in Hopen. destruct Hopen as [Hf _]. rewrite Hv in Hf.
    apply negb_false_iff, Z.eqb_eq in Hf. congruence.
  - destruct E as [v [Hv Hin]]. specialize (HV v Hv). cbn beta in HV.
    apply bind_check_ok in HV. destruct HV as [_ HV]. apply bind_check_ok in HV. destruct HV as [Hm _].
    apply str_mem_in in Hin. congruence.
  - apply E. apply has_dup_nodup. exact Hrn.
  - destruct E as [v [Hv Hnone]]. specialize (HV v Hv). cbn beta in HV.
    apply bind_check_ok in HV. destruct HV as [Hn _]. rewrite Hnone in Hn. discriminate.
Qed.

(* ---------- the file-level statement *)
Theorem validate_sound : forall allow f,
  validate false allow f = Accept ->
  (forall m, In m (file_msgs f) -> ~ msg_definite_error (fl_syntax f) m) /\
  (forall e, In e (file_enums f) -> ~ enum_definite_error (fl_syntax f) e).
Proof.
  intros allow f H. destruct (accept_structure false allow f H) as [Hm He]. split.
  - intros m Hin. destruct (Hm m Hin) as [[full Hloc] _]. exact (msg_local_sound _ _ _ _ _ Hloc).
  - intros e Hin. exact (validate_enum_sound _ _ (He e Hin)).
Qed.
