(* RegistryInvP — the invariant tying the concrete Files state to the abstract list of
   registered files, and its preservation by RegisterFile. *)
From Coq Require Import List Arith Bool Lia Permutation.
From PB Require Import Desc.RegistryModel Desc.RegistryBaseP Desc.RegistryTopP.
Import ListNotations.

Record finv (s : fstate) (rs : regs) : Prop := {
  (* descsByName still nil: nothing registered yet *)
  fi_nil : fs_descs s = [] -> rs = [];
  fi_wf : forall fid f, In (fid, f) rs -> wf_file f = true;
  (* non-package entries are exactly the top-level declarations of the registered files *)
  fi_sound : forall k v, dget (norm_descs (fs_descs s)) k = Some v -> is_pkg v = false ->
             exists fid f, In (fid, f) rs /\ In (k, v) (range_top_level fid f);
  fi_complete : forall fid f k v, In (fid, f) rs -> In (k, v) (range_top_level fid f) ->
                dget (norm_descs (fs_descs s)) k = Some v;
  (* package markers are exactly "" and the dotted prefixes of registered packages; each
     holds the files of that package in registration order *)
  fi_pkg_sound : forall k fl, dget (norm_descs (fs_descs s)) k = Some (VPkg fl) ->
                 fl = map fst (pkg_filter rs k) /\ pkg_registered rs k;
  fi_pkg_complete : forall k, pkg_registered rs k ->
                    exists fl, dget (norm_descs (fs_descs s)) k = Some (VPkg fl);
  fi_path : forall p, path_files (fs_bypath s) p = path_filter rs p;
  fi_paths : NoDup (map (fun r => f_path (snd r)) rs);
  fi_num : fs_num s = length rs;
  fi_abs : Permutation (abs_files s) rs
}.

Definition lazy_init (s : fstate) : fstate := FState (norm_descs (fs_descs s)) (fs_bypath s) (fs_num s).

Lemma lazy_init_id s : fs_descs s <> [] -> lazy_init s = s.
Proof. intros H. unfold lazy_init. rewrite norm_descs_id by assumption. now destruct s. Qed.

Lemma finv_init : finv fs_init [].
Proof.
  constructor; cbn [fs_init fs_descs fs_bypath fs_num norm_descs].
  - reflexivity.
  - intros ? ? [].
  - intros k v H Hv. unfold dget in H. cbn [aget] in H. destruct (name_eqb [] k); [|discriminate].
    inversion H; subst. discriminate.
  - intros ? ? ? ? [].
  - intros k fl H. unfold dget in H. cbn [aget] in H. destruct (name_eqb [] k) eqn:E; [|discriminate].
    apply name_eqb_eq in E. inversion H; subst. split; [reflexivity | now left].
  - intros k [->|(fid & f & [] & _)]. exists []. reflexivity.
  - reflexivity.
  - constructor.
  - reflexivity.
  - apply perm_nil.
Qed.

Lemma finv_lazy s rs : finv s rs -> finv (lazy_init s) rs.
Proof.
  intros I. unfold lazy_init. constructor; cbn [fs_descs fs_bypath fs_num]; try rewrite norm_descs_idem.
  - intros H. now apply norm_descs_nonnil in H.
  - exact (fi_wf _ _ I).
  - exact (fi_sound _ _ I).
  - exact (fi_complete _ _ I).
  - exact (fi_pkg_sound _ _ I).
  - exact (fi_pkg_complete _ _ I).
  - exact (fi_path _ _ I).
  - exact (fi_paths _ _ I).
  - exact (fi_num _ _ I).
  - exact (fi_abs _ _ I).
Qed.

Lemma pkg_filter_nil s rs k :
  finv s rs -> dget (norm_descs (fs_descs s)) k = None -> pkg_filter rs k = [].
Proof.
  intros I H. unfold pkg_filter. destruct (filter _ rs) as [|[fid f] l] eqn:E; [reflexivity|]. exfalso.
  assert (Hi : In (fid, f) (filter (fun r => name_eqb (f_pkg (snd r)) k) rs)) by (rewrite E; now left).
  apply filter_In in Hi. destruct Hi as [Hi He]. cbn [snd] in He. apply name_eqb_eq in He.
  assert (P : pkg_registered rs k).
  { destruct (name_eq_dec k []) as [->|Hk]; [now left|]. right. exists fid, f. split; [assumption|].
    rewrite He. now apply dot_prefix_refl. }
  destruct (fi_pkg_complete _ _ I k P) as [fl Hfl]. congruence.
Qed.

(* ---------------------------------------------------------------- the three conflict checks *)
Lemma reg_path_iff s rs p :
  finv s rs -> (is_nil (path_files (fs_bypath s) p) = false <-> path_registered rs p).
Proof.
  intros I. rewrite (fi_path _ _ I). rewrite is_nil_false. apply path_filter_registered.
Qed.

Lemma reg_pkg_iff s rs pkg prefixes :
  finv s rs -> chain pkg = Some prefixes ->
  (existsb (pkg_conflict (norm_descs (fs_descs s))) prefixes = true <->
   exists q, dot_prefix q pkg /\ top_declared rs q).
Proof.
  intros I Hc. rewrite existsb_exists. split.
  - intros (q & Hq & Hconf). unfold pkg_conflict in Hconf.
    destruct (dget (norm_descs (fs_descs s)) q) as [v|] eqn:E; [|discriminate].
    apply negb_true_iff in Hconf. destruct (fi_sound _ _ I q v E Hconf) as (fid & f & Hi & Hin).
    exists q. split; [now apply (chain_in_iff pkg prefixes q Hc)|].
    exists fid, f. split; [assumption|]. apply (top_names_in fid). now exists v.
  - intros (q & Hp & fid & f & Hi & Hn). apply (top_names_in fid) in Hn. destruct Hn as [v Hv].
    exists q. split; [now apply (chain_in_iff pkg prefixes q Hc)|].
    unfold pkg_conflict. rewrite (fi_complete _ _ I fid f q v Hi Hv).
    destruct (top_in_wf fid f q v (fi_wf _ _ I fid f Hi) Hv) as (Hpk & _). now rewrite Hpk.
Qed.

Lemma reg_name_iff s rs fid f :
  finv s rs ->
  (existsb (fun kd => is_some (dget (norm_descs (fs_descs s)) (fst kd))) (range_top_level fid f) = true <->
   conflict_name rs f).
Proof.
  intros I. rewrite existsb_exists. split.
  - intros ([k v0] & Hin & Hs). cbn [fst] in Hs.
    destruct (dget (norm_descs (fs_descs s)) k) as [v|] eqn:E; [|discriminate].
    exists k. split; [apply (top_names_in fid); now exists v0|].
    destruct (is_pkg v) eqn:Ep.
    + right. destruct v as [fl| | | | |]; try discriminate. now destruct (fi_pkg_sound _ _ I k fl E).
    + left. destruct (fi_sound _ _ I k v E Ep) as (fid' & f' & Hi & Hin').
      exists fid', f'. split; [assumption|]. apply (top_names_in fid'). now exists v.
  - intros (n & Hn & Hc). apply (top_names_in fid) in Hn. destruct Hn as [v0 Hv0].
    exists (n, v0). split; [assumption|]. cbn [fst].
    destruct Hc as [(fid' & f' & Hi & Hn')|Hp].
    + apply (top_names_in fid') in Hn'. destruct Hn' as [v Hv].
      now rewrite (fi_complete _ _ I fid' f' n v Hi Hv).
    + destruct (fi_pkg_complete _ _ I n Hp) as [fl Hfl]. now rewrite Hfl.
Qed.

(* ---------------------------------------------------------------- a successful registration *)
Section Success.
  Variables (s : fstate) (rs : regs) (fid : nat) (f : file) (prefixes : list name).
  Hypothesis I : finv s rs.
  Hypothesis Hwf : wf_file f = true.
  Hypothesis Hpath : path_files (fs_bypath s) (f_path f) = [].
  Hypothesis Hchain : chain (f_pkg f) = Some prefixes.
  Hypothesis Hpkg : existsb (pkg_conflict (norm_descs (fs_descs s))) prefixes = false.
  Hypothesis Hname :
    existsb (fun kd => is_some (dget (norm_descs (fs_descs s)) (fst kd))) (range_top_level fid f) = false.

  Local Notation D0 := (norm_descs (fs_descs s)).
  Local Notation pkg := (f_pkg f).
  Local Notation tops := (range_top_level fid f).

  Lemma T1 k v : In (k, v) tops -> dget D0 k = None.
  Proof.
    intros Hin. destruct (dget D0 k) eqn:E; [|reflexivity]. exfalso.
    apply not_true_iff_false in Hname. apply Hname. apply existsb_exists.
    exists (k, v). split; [assumption|]. cbn [fst]. now rewrite E.
  Qed.

  Lemma T2 k v : In (k, v) tops -> is_pkg v = false /\ length pkg < length k.
  Proof. intros Hin. destruct (top_in_wf fid f k v Hwf Hin) as (H1 & _ & _ & H4). now split. Qed.

  Lemma T4 q : In q prefixes <-> dot_prefix q pkg.
  Proof. apply (chain_in_iff pkg prefixes q Hchain). Qed.

  Lemma T3 q : In q prefixes -> dget D0 q = None \/ exists fl, dget D0 q = Some (VPkg fl).
  Proof.
    intros Hq. destruct (dget D0 q) as [v|] eqn:E; [|now left]. right.
    destruct (is_pkg v) eqn:Ep.
    - destruct v as [fl| | | | |]; try discriminate. now exists fl.
    - exfalso. apply not_true_iff_false in Hpkg. apply Hpkg. apply existsb_exists.
      exists q. split; [assumption|]. unfold pkg_conflict. rewrite E, Ep. reflexivity.
  Qed.

  Lemma T5 k v : aget name_eqb tops k = Some v <-> In (k, v) tops.
  Proof. now apply top_aget. Qed.

  Lemma T6 : exists fl, dget D0 [] = Some (VPkg fl).
  Proof. apply (fi_pkg_complete _ _ I). now left. Qed.

  Lemma T7 : dget D0 pkg = None \/ exists fl, dget D0 pkg = Some (VPkg fl).
  Proof.
    destruct (name_eq_dec pkg []) as [E|N].
    - rewrite E. right. exact T6.
    - apply T3. apply T4. now apply dot_prefix_refl.
  Qed.

  Lemma tops_not k : dget D0 k <> None -> aget name_eqb tops k = None.
  Proof.
    intros H. destruct (aget name_eqb tops k) eqn:Ea; [|reflexivity].
    apply T5 in Ea. apply T1 in Ea. contradiction.
  Qed.

  Lemma pkg_marker : exists fl,
    dget (fold_left add_pkg prefixes D0) pkg = Some (VPkg fl) /\ fl = map fst (pkg_filter rs pkg).
  Proof.
    rewrite add_pkgs_get. destruct T7 as [E|[fl E]]; rewrite E.
    - assert (Hm : mem_name pkg prefixes = true).
      { apply mem_name_in. apply T4. apply dot_prefix_refl. intros Hn.
        destruct T6 as [fl0 H6]. rewrite Hn in E. congruence. }
      rewrite Hm. exists []. split; [reflexivity|]. now rewrite (pkg_filter_nil _ _ _ I E).
    - exists fl. split; [reflexivity|]. now destruct (fi_pkg_sound _ _ I pkg fl E).
  Qed.

  Lemma finv_success fl :
    dget (fold_left add_pkg prefixes D0) pkg = Some (VPkg fl) ->
    finv (FState (fold_left (fun m kd => dput m (fst kd) (snd kd)) tops
                            (dput (fold_left add_pkg prefixes D0) pkg (VPkg (fl ++ [fid]))))
                 (aput name_eqb (fs_bypath s) (f_path f) (path_files (fs_bypath s) (f_path f) ++ [(fid, f)]))
                 (S (fs_num s)))
         (rs ++ [(fid, f)]).
  Proof.
    intros Hfl.
    assert (Efl : fl = map fst (pkg_filter rs pkg)).
    { destruct pkg_marker as (fl' & H1 & H2). rewrite Hfl in H1. inversion H1. now subst. }
    remember (fold_left (fun m kd => dput m (fst kd) (snd kd)) tops
                        (dput (fold_left add_pkg prefixes D0) pkg (VPkg (fl ++ [fid])))) as D3 eqn:ED3.
    assert (G : forall k, dget D3 k =
                 match aget name_eqb tops k with
                 | Some v => Some v
                 | None => if name_eqb pkg k then Some (VPkg (fl ++ [fid])) else
                           match dget D0 k with
                           | Some v => Some v
                           | None => if mem_name k prefixes then Some (VPkg []) else None
                           end
                 end).
    { intros k. rewrite ED3. rewrite fold_dput_get by (now apply top_nodup).
      destruct (aget name_eqb tops k); [reflexivity|]. rewrite dget_dput.
      destruct (name_eqb pkg k); [reflexivity|]. apply add_pkgs_get. }
    clear ED3.
    assert (Htp : aget name_eqb tops pkg = None).
    { destruct (aget name_eqb tops pkg) eqn:E; [|reflexivity]. apply T5 in E. apply T2 in E. lia. }
    assert (HD3 : D3 <> []).
    { intros E. pose proof (G pkg) as Gp. rewrite E, Htp, name_eqb_refl, dget_nil in Gp. discriminate. }
    assert (EN : norm_descs D3 = D3) by now apply norm_descs_id.
    assert (Hnew : In (fid, f) (rs ++ [(fid, f)])) by (apply in_or_app; right; now left).
    constructor; cbn [fs_descs fs_bypath fs_num]; try rewrite EN.
    - (* nil *) intros E. contradiction.
    - (* wf *) intros fid' f' Hin. apply in_app_or in Hin. destruct Hin as [Hin|[E|[]]].
      + exact (fi_wf _ _ I fid' f' Hin).
      + inversion E; subst. exact Hwf.
    - (* sound *) intros k v Hk Hv. rewrite G in Hk.
      destruct (aget name_eqb tops k) as [v'|] eqn:Ea.
      + inversion Hk; subst v'. exists fid, f. split; [exact Hnew | now apply T5].
      + destruct (name_eqb pkg k); [inversion Hk; subst v; discriminate|].
        destruct (dget D0 k) as [v'|] eqn:E0.
        * inversion Hk; subst v'. destruct (fi_sound _ _ I k v E0 Hv) as (fid' & f' & Hi & Hin).
          exists fid', f'. split; [apply in_or_app; now left | assumption].
        * destruct (mem_name k prefixes); [inversion Hk; subst v; discriminate | discriminate].
    - (* complete *) intros fid' f' k v Hin Htop. rewrite G.
      apply in_app_or in Hin. destruct Hin as [Hin|[E|[]]].
      + pose proof (fi_complete _ _ I fid' f' k v Hin Htop) as E0.
        destruct (top_in_wf fid' f' k v (fi_wf _ _ I fid' f' Hin) Htop) as (Hpk & _).
        rewrite tops_not by congruence.
        destruct (name_eqb pkg k) eqn:En.
        * apply name_eqb_eq in En. exfalso.
          destruct T7 as [E7|[fl7 E7]]; rewrite En in E7; rewrite E7 in E0;
            [discriminate | inversion E0; subst v; discriminate].
        * now rewrite E0.
      + inversion E; subst fid' f'. apply T5 in Htop. now rewrite Htop.
    - (* pkg_sound *) intros k fl' Hk. rewrite G in Hk.
      destruct (aget name_eqb tops k) as [v'|] eqn:Ea.
      { inversion Hk; subst v'. apply T5 in Ea. apply T2 in Ea. destruct Ea as [Ea _]. discriminate. }
      unfold pkg_filter. rewrite filter_snoc. cbn [snd].
      destruct (name_eqb pkg k) eqn:En.
      + apply name_eqb_eq in En. inversion Hk; subst fl'. split.
        * rewrite map_app. rewrite <- En. fold (pkg_filter rs pkg). rewrite <- Efl. reflexivity.
        * destruct (name_eq_dec k []) as [->|Hk0]; [now left|]. right. exists fid, f.
          split; [exact Hnew|]. rewrite En. now apply dot_prefix_refl.
      + rewrite app_nil_r. destruct (dget D0 k) as [v'|] eqn:E0.
        * inversion Hk; subst v'. destruct (fi_pkg_sound _ _ I k fl' E0) as [H1 H2]. split; [exact H1|].
          destruct H2 as [->|(fid' & f' & Hi & Hp)]; [now left|]. right. exists fid', f'.
          split; [apply in_or_app; now left | assumption].
        * destruct (mem_name k prefixes) eqn:Em; [|discriminate]. inversion Hk; subst fl'. split.
          -- fold (pkg_filter rs k). now rewrite (pkg_filter_nil _ _ _ I E0).
          -- right. exists fid, f. split; [exact Hnew|]. apply T4. now apply mem_name_in.
    - (* pkg_complete *) intros k Hp. rewrite G.
      assert (Hc : aget name_eqb tops k = None /\
                   ((exists fl0, dget D0 k = Some (VPkg fl0)) \/ (dget D0 k = None /\ In k prefixes))).
      { destruct Hp as [->|(fid' & f' & Hin & Hdp)].
        - destruct T6 as [fl0 H6]. split; [apply tops_not; congruence | left; now exists fl0].
        - apply in_app_or in Hin. destruct Hin as [Hin|[E|[]]].
          + assert (P : pkg_registered rs k) by (right; now exists fid', f').
            destruct (fi_pkg_complete _ _ I k P) as [fl0 H0].
            split; [apply tops_not; congruence | left; now exists fl0].
          + inversion E; subst fid' f'. split.
            * destruct (aget name_eqb tops k) eqn:Ea; [|reflexivity]. apply T5 in Ea. apply T2 in Ea.
              destruct Ea as [_ L]. apply dot_prefix_length in Hdp. lia.
            * apply T4 in Hdp. destruct (T3 k Hdp) as [E0|[fl0 E0]]; [right; now split | left; now exists fl0]. }
      destruct Hc as [Ha Hc]. rewrite Ha. destruct (name_eqb pkg k); [now eexists|].
      destruct Hc as [[fl0 E0]|[E0 Hi]]; rewrite E0; [now eexists|].
      apply mem_name_in in Hi. rewrite Hi. now eexists.
    - (* path *) intros p. rewrite path_files_aput. unfold path_filter. rewrite filter_snoc. cbn [snd].
      destruct (name_eqb (f_path f) p) eqn:En.
      + apply name_eqb_eq in En. subst p. rewrite (fi_path _ _ I (f_path f)). reflexivity.
      + rewrite app_nil_r. exact (fi_path _ _ I p).
    - (* paths *) rewrite map_app. cbn [map snd].
      apply (Permutation_NoDup (Permutation_cons_append _ _)). constructor; [|exact (fi_paths _ _ I)].
      intros Hin. apply in_map_iff in Hin. destruct Hin as ([fid' f'] & E & Hin). cbn [snd] in E.
      assert (P : path_registered rs (f_path f)) by now exists fid', f'.
      apply path_filter_registered in P. apply P. rewrite <- (fi_path _ _ I). exact Hpath.
    - (* num *) rewrite app_length. cbn [length]. rewrite (fi_num _ _ I). lia.
    - (* abs *) unfold abs_files. cbn [fs_bypath]. rewrite Hpath. cbn [app].
      eapply Permutation_trans.
      { apply flat_aput_perm.
        pose proof Hpath as Hp. unfold path_files in Hp.
        destruct (aget name_eqb (fs_bypath s) (f_path f)) as [l|]; [right; now subst | now left]. }
      eapply Permutation_trans; [apply perm_skip; exact (fi_abs _ _ I)|]. apply Permutation_cons_append.
  Qed.
End Success.
