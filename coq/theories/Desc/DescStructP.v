(* Proofs about the structural part of Desc/DescLookupModel.v: full names, and the
   index / required-number / oneof-membership bookkeeping of one message. *)
From Coq Require Import List ZArith Bool Arith Lia.
From Coq Require Import ZifyBool ZifyNat.
From PB Require Import Base.PBytes Desc.DescLookupModel Desc.DescLookupP.
Import ListNotations.

(* ---------- full names ---------- *)
Definition join_full_name (prefix name : bytes) : bytes :=
  match prefix with [] => name | _ => prefix ++ dot :: name end.

Lemma append_full_name_join prefix name : append_full_name prefix name = join_full_name prefix name.
Proof.
  unfold append_full_name, join_full_name. destruct prefix as [|c p].
  - cbn [length Nat.eqb app]. replace (S (length name) - (0 + 1 + length name - 1))%nat with 1%nat by lia.
    reflexivity.
  - cbn [Nat.eqb length]. rewrite app_length. cbn [length].
    replace (_ - _)%nat with 0%nat by lia. reflexivity.
Qed.

Lemma byte_eqb_dot_false c : c <> dot -> Byte.eqb c dot = false.
Proof.
  intros H. destruct (Byte.eqb c dot) eqn:E; auto. apply Byte.byte_dec_bl in E. contradiction.
Qed.

Lemma split_last_dot_nodot n : ~ In dot n -> split_last_dot n = None.
Proof.
  induction n as [|c n IH]; cbn; auto. intros H.
  rewrite IH by tauto. rewrite byte_eqb_dot_false; [reflexivity|]. intros E. apply H. now left.
Qed.

Lemma split_last_dot_app p n : ~ In dot n -> split_last_dot (p ++ dot :: n) = Some (p, n).
Proof.
  intros H. induction p as [|c p IH]; cbn.
  - rewrite split_last_dot_nodot by exact H. reflexivity.
  - now rewrite IH.
Qed.

(* FullName.Name() / Parent() invert the join when the name is a single identifier *)
Lemma fullname_name_parent_join p n : ~ In dot n ->
  fullname_name (append_full_name p n) = n /\ fullname_parent (append_full_name p n) = p.
Proof.
  intros H. rewrite append_full_name_join. unfold join_full_name, fullname_name, fullname_parent.
  destruct p as [|c p].
  - now rewrite split_last_dot_nodot.
  - now rewrite (split_last_dot_app (c :: p) n H).
Qed.

(* ---------- the fields and oneofs of one message ---------- *)
Definition exp_field (parent : bytes) (i : nat) (p : fproto) : fdesc :=
  {| fd_index := i; fd_fullname := append_full_name parent (fp_name p); fd_num := fp_num p;
     fd_card := fp_card p; fd_oneof := fp_oneof p |}.

Fixpoint exp_fields (parent : bytes) (i : nat) (fps : list fproto) : list fdesc :=
  match fps with
  | [] => []
  | p :: r => exp_field parent i p :: exp_fields parent (S i) r
  end.

Definition in_oneof (k : nat) (p : fproto) : bool :=
  match fp_oneof p with Some k' => Nat.eqb k' k | None => false end.

(* indices (counted from i) of the fields that name oneof k, in declaration order *)
Fixpoint positions (k : nat) (i : nat) (fps : list fproto) : list nat :=
  match fps with
  | [] => []
  | p :: r => (if in_oneof k p then [i] else []) ++ positions k (S i) r
  end.

Definition oneof_index_ok (n : nat) (p : fproto) : bool :=
  match fp_oneof p with Some k => Nat.ltb k n | None => true end.

Fixpoint add_members (os : list odesc) (i : nat) (fps : list fproto) : list odesc :=
  match fps with
  | [] => os
  | p :: r => add_members (match fp_oneof p with Some k => oneof_append os k i | None => os end) (S i) r
  end.

Definition is_required (p : fproto) : bool := Z.eqb (fp_card p) card_required.

Lemma oneof_append_length os k j : length (oneof_append os k j) = length os.
Proof. revert k. induction os as [|o os IH]; intros [|k]; cbn; auto. Qed.

Lemma add_members_length os i fps : length (add_members os i fps) = length os.
Proof.
  revert os i. induction fps as [|p fps IH]; intros; cbn; auto.
  rewrite IH. destruct (fp_oneof p); auto. apply oneof_append_length.
Qed.

Definition with_members (o : odesc) (js : list nat) : odesc :=
  {| od_index := od_index o; od_fullname := od_fullname o; od_fields := od_fields o ++ js |}.

Lemma with_members_nil o : with_members o [] = o.
Proof. destruct o. unfold with_members. cbn. now rewrite app_nil_r. Qed.

Lemma with_members_app o a b : with_members (with_members o a) b = with_members o (a ++ b).
Proof. unfold with_members. cbn. now rewrite app_assoc. Qed.

Lemma oneof_append_nth os k j k' :
  nth_error (oneof_append os k j) k' =
  if Nat.eqb k' k then option_map (fun o => with_members o [j]) (nth_error os k') else nth_error os k'.
Proof.
  revert k k'. induction os as [|o os IH]; intros k k'.
  - destruct k, k'; cbn; auto; now destruct (Nat.eqb k' k).
  - destruct k as [|k], k' as [|k']; cbn; auto; try apply IH.
Qed.

Lemma add_members_nth fps : forall os i k,
  nth_error (add_members os i fps) k =
  option_map (fun o => with_members o (positions k i fps)) (nth_error os k).
Proof.
  induction fps as [|p fps IH]; intros os i k; cbn [add_members positions].
  - destruct (nth_error os k); cbn; auto. now rewrite with_members_nil.
  - rewrite IH. unfold in_oneof. destruct (fp_oneof p) as [k0|].
    + rewrite oneof_append_nth. rewrite (Nat.eqb_sym k k0).
      destruct (Nat.eqb k0 k); destruct (nth_error os k); cbn; auto.
      now rewrite with_members_app.
    + destruct (nth_error os k); cbn; auto.
Qed.

Lemma resolve_fields_spec parent : forall fps i m,
  resolve_fields fps (init_fields parent i fps) m =
  if forallb (oneof_index_ok (length (md_oneofs m))) fps then
    Some {| md_fields := md_fields m ++ exp_fields parent i fps;
            md_oneofs := add_members (md_oneofs m) i fps;
            md_required := md_required m ++ map fp_num (filter is_required fps) |}
  else None.
Proof.
  induction fps as [|p fps IH]; intros i m.
  - cbn. destruct m. cbn. now rewrite !app_nil_r.
  - cbn [init_fields resolve_fields forallb exp_fields add_members filter fd_card fd_num fd_index fd_fullname].
    unfold oneof_index_ok at 1. unfold is_required at 1.
    destruct (fp_oneof p) as [k|] eqn:Eo.
    + destruct (Nat.ltb k (length (md_oneofs m))) eqn:Ek; cbn [andb]; auto.
      rewrite IH. cbn [md_fields md_oneofs md_required]. rewrite oneof_append_length.
      destruct (forallb _ fps); auto. f_equal. f_equal.
      * rewrite <- app_assoc. cbn. unfold exp_field. now rewrite Eo.
      * destruct (Z.eqb (fp_card p) card_required); cbn; rewrite <- ?app_assoc; reflexivity.
    + cbn [andb]. rewrite IH. cbn [md_fields md_oneofs md_required].
      destruct (forallb _ fps); auto. f_equal. f_equal.
      * rewrite <- app_assoc. cbn. unfold exp_field. now rewrite Eo.
      * destruct (Z.eqb (fp_card p) card_required); cbn; rewrite <- ?app_assoc; reflexivity.
Qed.

Lemma init_oneofs_length parent i names : length (init_oneofs parent i names) = length names.
Proof. revert i. induction names; intros; cbn; auto. Qed.

Lemma init_oneofs_nth parent names : forall i k,
  nth_error (init_oneofs parent i names) k =
  option_map (fun s => {| od_index := i + k; od_fullname := append_full_name parent s; od_fields := [] |})
             (nth_error names k).
Proof.
  induction names as [|s names IH]; intros i k.
  - now destruct k.
  - destruct k as [|k]; cbn.
    + now rewrite Nat.add_0_r.
    + rewrite IH. destruct (nth_error names k); cbn; auto. do 2 f_equal. lia.
Qed.

Lemma build_message_spec parent fps onames :
  build_message parent fps onames =
  if forallb (oneof_index_ok (length onames)) fps then
    Some {| md_fields := exp_fields parent 0 fps;
            md_oneofs := add_members (init_oneofs parent 0 onames) 0 fps;
            md_required := map fp_num (filter is_required fps) |}
  else None.
Proof.
  unfold build_message. rewrite resolve_fields_spec. cbn [md_fields md_oneofs md_required app].
  now rewrite init_oneofs_length.
Qed.

Lemma exp_fields_nth parent fps : forall s i,
  nth_error (exp_fields parent s fps) i = option_map (exp_field parent (s + i)) (nth_error fps i).
Proof.
  induction fps as [|p fps IH]; intros s i.
  - now destruct i.
  - destruct i as [|i]; cbn.
    + now rewrite Nat.add_0_r.
    + rewrite IH. destruct (nth_error fps i); cbn; auto. do 2 f_equal. lia.
Qed.

Lemma positions_In k fps : forall s j,
  In j (positions k s fps) <-> exists p, (s <= j)%nat /\ nth_error fps (j - s) = Some p /\ fp_oneof p = Some k.
Proof.
  induction fps as [|p fps IH]; intros s j; cbn [positions].
  - split; [intros []|]. intros (p & _ & H & _). destruct (j - s)%nat; discriminate.
  - rewrite in_app_iff, IH. unfold in_oneof. split.
    + intros [H|(q & Hle & Hq & Ho)].
      * destruct (fp_oneof p) as [k'|] eqn:E; [|destruct H].
        destruct (Nat.eqb k' k) eqn:Ek; [|destruct H]. destruct H as [H|[]]. subst j.
        apply Nat.eqb_eq in Ek. subst. exists p. rewrite Nat.sub_diag. cbn. auto.
      * exists q. split; [lia|]. split; auto.
        replace (j - s)%nat with (S (j - S s)) by lia. exact Hq.
    + intros (q & Hle & Hq & Ho). destruct (Nat.eq_dec j s) as [->|Hne].
      * left. rewrite Nat.sub_diag in Hq. cbn in Hq. inversion Hq; subst. rewrite Ho, Nat.eqb_refl. now left.
      * right. exists q. split; [lia|]. split; auto.
        replace (j - s)%nat with (S (j - S s)) in Hq by lia. exact Hq.
Qed.

(* ----- the statements used by Props/C36.v ----- *)

(* Get(i).Index() = i, for fields and oneofs *)
Lemma build_get_index parent fps onames m : build_message parent fps onames = Some m ->
  (forall i f, nth_error (md_fields m) i = Some f -> fd_index f = i) /\
  (forall k o, nth_error (md_oneofs m) k = Some o -> od_index o = k) /\
  length (md_fields m) = length fps /\ length (md_oneofs m) = length onames.
Proof.
  rewrite build_message_spec. destruct (forallb _ fps); [|discriminate].
  intros H. inversion H; subst; clear H. cbn [md_fields md_oneofs]. repeat split.
  - intros i f. rewrite exp_fields_nth. destruct (nth_error fps i); cbn; [|discriminate].
    intros H. now inversion H.
  - intros k o. rewrite add_members_nth, init_oneofs_nth. destruct (nth_error onames k); cbn; [|discriminate].
    intros H. now inversion H.
  - clear. generalize 0%nat. induction fps; intros; cbn; auto.
  - now rewrite add_members_length, init_oneofs_length.
Qed.

(* FullName = parent's full name joined with Name, for fields and oneofs *)
Lemma build_fullname parent fps onames m : build_message parent fps onames = Some m ->
  (forall i f, nth_error (md_fields m) i = Some f ->
     exists p, nth_error fps i = Some p /\ fd_fullname f = join_full_name parent (fp_name p)
               /\ fd_num f = fp_num p /\ fd_card f = fp_card p /\ fd_oneof f = fp_oneof p) /\
  (forall k o, nth_error (md_oneofs m) k = Some o ->
     exists s, nth_error onames k = Some s /\ od_fullname o = join_full_name parent s).
Proof.
  rewrite build_message_spec. destruct (forallb _ fps); [|discriminate].
  intros H. inversion H; subst; clear H. cbn [md_fields md_oneofs]. split.
  - intros i f. rewrite exp_fields_nth. destruct (nth_error fps i) as [p|]; cbn; [|discriminate].
    intros H. inversion H; subst. exists p. cbn. rewrite append_full_name_join. auto.
  - intros k o. rewrite add_members_nth, init_oneofs_nth. destruct (nth_error onames k) as [s|]; cbn; [|discriminate].
    intros H. inversion H; subst. exists s. cbn. rewrite append_full_name_join. auto.
Qed.

(* RequiredNumbers lists exactly the numbers of the required fields, in declaration order *)
Lemma build_required parent fps onames m : build_message parent fps onames = Some m ->
  md_required m = map fp_num (filter is_required fps).
Proof.
  rewrite build_message_spec. destruct (forallb _ fps); [|discriminate].
  intros H. now inversion H.
Qed.

Lemma build_required_has parent fps onames m n : build_message parent fps onames = Some m ->
  (numbers_has (md_required m) n = true <->
   exists p, In p fps /\ fp_card p = card_required /\ fp_num p = n).
Proof.
  intros H. rewrite (build_required _ _ _ _ H), numbers_has_iff, in_map_iff. split.
  - intros (p & Hn & Hin). apply filter_In in Hin. destruct Hin as [Hin Hr].
    exists p. repeat split; auto. unfold is_required in Hr. now apply Z.eqb_eq.
  - intros (p & Hin & Hc & Hn). exists p. split; auto. apply filter_In. split; auto.
    unfold is_required. now apply Z.eqb_eq.
Qed.

(* Oneof.Fields and Field.ContainingOneof are mutual *)
Lemma build_oneof_mutual parent fps onames m : build_message parent fps onames = Some m ->
  forall k o, nth_error (md_oneofs m) k = Some o ->
  forall j, In j (od_fields o) <-> exists f, nth_error (md_fields m) j = Some f /\ fd_oneof f = Some k.
Proof.
  rewrite build_message_spec. destruct (forallb _ fps); [|discriminate].
  intros H. inversion H; subst; clear H. cbn [md_fields md_oneofs].
  intros k o. rewrite add_members_nth, init_oneofs_nth. destruct (nth_error onames k) as [s|]; cbn; [|discriminate].
  intros H. inversion H; subst; clear H. unfold with_members. cbn [od_fields app]. intros j.
  rewrite positions_In. rewrite Nat.sub_0_r. split.
  - intros (p & _ & Hp & Ho). exists (exp_field parent j p). rewrite exp_fields_nth, Hp. cbn. auto.
  - intros (f & Hf & Ho). rewrite exp_fields_nth in Hf. destruct (nth_error fps j) as [p|]; cbn in Hf; [|discriminate].
    inversion Hf; subst. exists p. split; [lia|]. auto.
Qed.

(* every field that names a oneof points to an existing one *)
Lemma build_containing_oneof_exists parent fps onames m : build_message parent fps onames = Some m ->
  forall j f k, nth_error (md_fields m) j = Some f -> fd_oneof f = Some k ->
  exists o, nth_error (md_oneofs m) k = Some o /\ In j (od_fields o).
Proof.
  intros H j f k Hf Hk.
  assert (Hlen : (k < length (md_oneofs m))%nat).
  { pose proof H as H0. rewrite build_message_spec in H0.
    destruct (forallb (oneof_index_ok (length onames)) fps) eqn:Ef; [|discriminate].
    inversion H0; subst; clear H0. cbn [md_fields md_oneofs] in *.
    rewrite add_members_length, init_oneofs_length.
    rewrite exp_fields_nth in Hf. destruct (nth_error fps j) as [p|] eqn:Ep; cbn in Hf; [|discriminate].
    inversion Hf; subst. cbn in Hk. rewrite forallb_forall in Ef.
    specialize (Ef p (nth_error_In _ _ Ep)). unfold oneof_index_ok in Ef. rewrite Hk in Ef.
    now apply Nat.ltb_lt. }
  destruct (nth_error (md_oneofs m) k) as [o|] eqn:Eo.
  - exists o. split; auto. apply (build_oneof_mutual _ _ _ _ H k o Eo). eauto.
  - apply nth_error_None in Eo. lia.
Qed.

(* the oneof index check is the only failure *)
Lemma build_message_ok_iff parent fps onames :
  (exists m, build_message parent fps onames = Some m) <->
  forall p k, In p fps -> fp_oneof p = Some k -> (k < length onames)%nat.
Proof.
  rewrite build_message_spec. destruct (forallb _ fps) eqn:E.
  - split; [|eauto]. intros _ p k Hin Hk. rewrite forallb_forall in E. specialize (E p Hin).
    unfold oneof_index_ok in E. rewrite Hk in E. now apply Nat.ltb_lt.
  - split; [intros [m H]; discriminate|]. intros H. exfalso.
    assert (forallb (oneof_index_ok (length onames)) fps = true); [|congruence].
    apply forallb_forall. intros p Hin. unfold oneof_index_ok. destruct (fp_oneof p) eqn:Ep; auto.
    apply Nat.ltb_lt. eauto.
Qed.
