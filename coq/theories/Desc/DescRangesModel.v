(* Model of the range lists of internal/filedesc/desc_list.go:
     FieldRanges (start inclusive, end EXCLUSIVE) and EnumRanges (start and end inclusive).
   Definitions only: no proofs.

   A range is the Go value [2]int32; numbers are [Z] and every computation the code
   performs in int32 is wrapped explicitly ([wrap32]): the only one is
   fieldRange.End() = r[1] - 1.

   lazyInit copies List and sort.Slice's the copy by r[0].  sort.Slice is not stable;
   the model uses a stable insertion sort (which is what sort.Slice does for
   len <= 12).  The theorems are proved for EVERY sorted permutation of the list
   (Desc/DescRangesP.v, section AnySort), so they do not depend on this choice; the
   harness only compares lists with duplicate start values when len <= 12.

   Has is the binary search of the code, on slices: i = len/2, ls[:i], ls[i+1:].  The
   loop is modelled with fuel = len; running out of fuel or indexing out of range is
   the outcome [None] which the theorems exclude for every input. *)
From Coq Require Import List ZArith Bool Arith.
Import ListNotations.
Open Scope Z_scope.

Definition range := (Z * Z)%type.

Inductive rkind := FieldR | EnumR.

Definition wrap32 (z : Z) : Z := (z + 2147483648) mod 4294967296 - 2147483648.

Definition r_start (r : range) : Z := fst r.
(* fieldRange.End() = r[1]-1 (int32 arithmetic), enumRange.End() = r[1] *)
Definition r_end (k : rkind) (r : range) : Z :=
  match k with FieldR => wrap32 (snd r - 1) | EnumR => snd r end.

(* ---------- lazyInit: sorted copy ---------- *)
Fixpoint insert_range (r : range) (s : list range) : list range :=
  match s with
  | [] => [r]
  | x :: s' => if fst r <=? fst x then r :: s else x :: insert_range r s'
  end.
Definition sort_ranges (l : list range) : list range := fold_right insert_range [] l.

(* ---------- Has: binary search ---------- *)
Fixpoint has_loop (fuel : nat) (k : rkind) (ls : list range) (n : Z) : option bool :=
  match ls with
  | [] => Some false
  | _ :: _ =>
    match fuel with
    | O => None
    | S f =>
      let i := Nat.div2 (length ls) in
      match nth_error ls i with
      | None => None
      | Some r =>
        if n <? r_start r then has_loop f k (firstn i ls) n
        else if r_end k r <? n then has_loop f k (skipn (S i) ls) n
        else Some true
      end
    end
  end.

Definition ranges_has (k : rkind) (l : list range) (n : Z) : option bool :=
  let s := sort_ranges l in has_loop (length s) k s n.

(* ---------- CheckValid ---------- *)
Inductive cverr := CVOk | CVBadNumber | CVBadRange | CVOverlap.

Definition cverr_code (e : cverr) : Z :=
  match e with CVOk => 0 | CVBadNumber => 1 | CVBadRange => 2 | CVOverlap => 3 end.

(* protowire.MinValidNumber = 1, MaxValidNumber = 1<<29 - 1 *)
Definition valid_field_number (n : Z) (is_message_set : bool) : bool :=
  (1 <=? n) && ((n <=? 536870911) || is_message_set).

(* the number checks exist only in FieldRanges.CheckValid *)
Definition number_checks (k : rkind) (ms : bool) (r : range) : bool :=
  match k with
  | FieldR => valid_field_number (r_start r) ms && valid_field_number (r_end k r) ms
  | EnumR => true
  end.

Fixpoint check_valid_loop (k : rkind) (ms : bool) (first : bool) (rp : range) (s : list range) : cverr :=
  match s with
  | [] => CVOk
  | r :: s' =>
    if negb (number_checks k ms r) then CVBadNumber
    else if negb (r_start r <=? r_end k r) then CVBadRange
    else if negb (r_end k rp <? r_start r) && negb first then CVOverlap
    else check_valid_loop k ms false r s'
  end.

Definition check_valid (k : rkind) (ms : bool) (l : list range) : cverr :=
  check_valid_loop k ms true (0, 0) (sort_ranges l).

(* ---------- CheckOverlap (FieldRanges only): two-pointer sweep ---------- *)
Definition intersects (k : rkind) (rp rq : range) : bool :=
  negb ((r_end k rp <? r_start rq) || (r_end k rq <? r_start rp)).

Fixpoint overlap_loop (k : rkind) (ps : list range) : list range -> bool :=
  fix inner (qs : list range) : bool :=
    match ps, qs with
    | [], _ => false
    | _, [] => false
    | rp :: ps', rq :: qs' =>
      if intersects k rp rq then true
      else if r_start rp <? r_start rq then overlap_loop k ps' qs
      else inner qs'
    end.

(* true = an error "overlapping ranges" is returned *)
Definition check_overlap (p q : list range) : bool :=
  overlap_loop FieldR (sort_ranges p) (sort_ranges q).

(* batched Has: the sorted copy is built once (lazyInit), then queried *)
Definition ranges_has_many (k : rkind) (l : list range) (ns : list Z) : list (option bool) :=
  let s := sort_ranges l in map (has_loop (length s) k s) ns.
