(* Model of the import-visibility rule of protodesc.FileOptions.New (reflect/protodesc/desc.go):
     imps := importSet{f.Path(): true}
     for each dependency:  imps[imp.Path()] = true
     for each dependency:  imps.importPublic(imp.Imports())
     func (is importSet) importPublic(imps) { for each imp: if imp.IsPublic { is[imp.Path()] = true; is.importPublic(imp.Imports()) } }
   and of its use in desc_resolve.go findDescriptor (a remote descriptor is returned only if
   r.imports[d.ParentFile().Path()]).  Files are numbered; file i of the graph lists its imports
   as (file number, is-public).  Definitions only: no proofs. *)
From Coq Require Import List Arith Bool.
Import ListNotations.

Definition graph := list (list (nat * bool)).
Definition imports_of (g : graph) (i : nat) : list (nat * bool) := nth i g [].

(* importPublic; the recursion depth of the code is bounded by the length of an import chain *)
Fixpoint import_public (fuel : nat) (g : graph) (imps : list (nat * bool)) (acc : list nat) : list nat :=
  match fuel with
  | O => acc
  | S f =>
    fold_left (fun (acc : list nat) (e : nat * bool) => if snd e then import_public f g (imports_of g (fst e)) (fst e :: acc) else acc) imps acc
  end.

Definition import_set (g : graph) (a : nat) : list nat :=
  let direct := map fst (imports_of g a) in
  fold_left (fun acc d => import_public (length g) g (imports_of g d) acc) direct (rev direct ++ [a]).

Definition visible_b (g : graph) (a f : nat) : bool := existsb (Nat.eqb f) (import_set g a).
