(* Run-time support of the srcmodel_ranges translation (Gen/RangesGo.v): checked
   accesses to a Go slice of [2]N arrays, modelled as a list of pairs of Z.
   Same conventions as Base/GoInt.v (index / slice_lo / slice_hi / slice_lo_hi on
   list Z): an access outside the bounds is the outcome Panic.  Definitions only. *)
From Coq Require Import List ZArith Bool.
From PB Require Import Base.GoInt.
Import ListNotations.
Open Scope Z_scope.

(* ls[i] *)
Definition index_p (b : list (Z * Z)) (i : Z) : outcome (Z * Z) :=
  if (i <? 0) || (len b <=? i) then Panic else Val (nth (Z.to_nat i) b (0, 0)).
(* ls[lo:] *)
Definition slice_lo_p (b : list (Z * Z)) (lo : Z) : outcome (list (Z * Z)) :=
  if (lo <? 0) || (len b <? lo) then Panic else Val (skipn (Z.to_nat lo) b).
(* ls[:hi] *)
Definition slice_hi_p (b : list (Z * Z)) (hi : Z) : outcome (list (Z * Z)) :=
  if (hi <? 0) || (len b <? hi) then Panic else Val (firstn (Z.to_nat hi) b).
(* ls[lo:hi] *)
Definition slice_lo_hi_p (b : list (Z * Z)) (lo hi : Z) : outcome (list (Z * Z)) :=
  if (lo <? 0) || (hi <? lo) || (len b <? hi) then Panic
  else Val (firstn (Z.to_nat (hi - lo)) (skipn (Z.to_nat lo) b)).
