(* Proofs about Desc/DescLookupModel.v: Go-map lemmas, first-wins / last-wins construction
   of the lookup maps, Names, FieldNumbers. *)
From Coq Require Import List ZArith Bool Arith Lia.
From Coq Require Import ZifyBool ZifyNat.
From PB Require Import Base.PBytes Desc.DescLookupModel.
Import ListNotations.

(* ---------- equality on byte strings ---------- *)
Lemma bytes_eqb_eq a b : bytes_eqb a b = true <-> a = b.
Proof.
  revert b. induction a as [|x a IH]; intros [|y b]; cbn; split; try discriminate; auto.
  - intros H. apply andb_prop in H. destruct H as [H1 H2].
    apply Byte.byte_dec_bl in H1. apply IH in H2. now subst.
  - intros H. inversion H; subst. apply andb_true_intro. split.
    + now apply Byte.byte_dec_lb.
    + now apply IH.
Qed.

Lemma bytes_eqb_refl a : bytes_eqb a a = true.
Proof. now apply bytes_eqb_eq. Qed.

Lemma bytes_eqb_sym a b : bytes_eqb a b = bytes_eqb b a.
Proof.
  destruct (bytes_eqb a b) eqn:E1, (bytes_eqb b a) eqn:E2; auto.
  - apply bytes_eqb_eq in E1. subst. now rewrite bytes_eqb_refl in E2.
  - apply bytes_eqb_eq in E2. subst. now rewrite bytes_eqb_refl in E1.
Qed.

Lemma zeqb_eq a b : Z.eqb a b = true <-> a = b.
Proof. apply Z.eqb_eq. Qed.

(* ---------- "first / last element with that key" ---------- *)
Fixpoint find_index {A} (p : A -> bool) (l : list A) : option nat :=
  match l with
  | [] => None
  | a :: r => if p a then Some O else option_map S (find_index p r)
  end.

Fixpoint find_last_index {A} (p : A -> bool) (l : list A) : option nat :=
  match l with
  | [] => None
  | a :: r => match find_last_index p r with
              | Some j => Some (S j)
              | None => if p a then Some O else None
              end
  end.

Lemma find_index_ext {A} (p q : A -> bool) l : (forall a, p a = q a) -> find_index p l = find_index q l.
Proof. intros H. induction l as [|a l IH]; cbn; auto. now rewrite H, IH. Qed.

Lemma find_last_index_ext {A} (p q : A -> bool) l : (forall a, p a = q a) -> find_last_index p l = find_last_index q l.
Proof. intros H. induction l as [|a l IH]; cbn; auto. now rewrite H, IH. Qed.

(* the specification of "first": the element at the index satisfies p and no earlier one does *)
Lemma find_index_Some {A} (p : A -> bool) l i :
  find_index p l = Some i <->
  (exists a, nth_error l i = Some a /\ p a = true) /\
  (forall j b, (j < i)%nat -> nth_error l j = Some b -> p b = false).
Proof.
  split.
  - revert i. induction l as [|a l IH]; intros i H; cbn in H; [discriminate|].
    destruct (p a) eqn:E.
    + inversion H; subst. split; [exists a; auto|]. intros; lia.
    + destruct (find_index p l) as [j|]; cbn in H; [|discriminate].
      inversion H; subst. destruct (IH j eq_refl) as [(b & Hb & Hp) Hlt].
      split; [exists b; auto|]. intros [|j'] c Hj Hc; cbn in Hc.
      * now inversion Hc; subst.
      * eapply Hlt; [|eauto]. lia.
  - revert i. induction l as [|a l IH]; intros i [(b & Hb & Hp) Hlt].
    + destruct i; discriminate.
    + cbn. destruct (p a) eqn:E.
      * destruct i as [|i]; auto. specialize (Hlt O a ltac:(lia) eq_refl). congruence.
      * destruct i as [|i]; cbn in Hb; [inversion Hb; subst; congruence|].
        rewrite (IH i); [reflexivity|]. split; [exists b; auto|].
        intros j' c Hj Hc. apply (Hlt (S j') c); [lia|exact Hc].
Qed.

Lemma find_index_None {A} (p : A -> bool) l :
  find_index p l = None <-> forall a, In a l -> p a = false.
Proof.
  induction l as [|a l IH]; cbn.
  - split; auto. intros _ a [].
  - destruct (p a) eqn:E.
    + split; [discriminate|]. intros H. specialize (H a (or_introl eq_refl)). congruence.
    + destruct (find_index p l); cbn.
      * split; [discriminate|]. intros H. assert (Some n = None); [|discriminate].
        apply IH. intros; apply H; auto.
      * split; auto. intros _ b [Hb|Hb]; [now subst|]. now apply IH.
Qed.

Lemma find_last_index_None {A} (p : A -> bool) l :
  find_last_index p l = None <-> forall a, In a l -> p a = false.
Proof.
  induction l as [|a l IH]; cbn.
  - split; auto. intros _ a [].
  - destruct (find_last_index p l) eqn:F.
    + split; [discriminate|]. intros H. assert (Some n = None); [|discriminate].
      apply IH. intros; apply H; auto.
    + destruct (p a) eqn:E.
      * split; [discriminate|]. intros H. specialize (H a (or_introl eq_refl)). congruence.
      * split; auto. intros _ b [Hb|Hb]; [now subst|]. now apply IH.
Qed.

(* ---------- Go maps ---------- *)
Section GoMapP.
  Variables K V : Type.
  Variable keqb : K -> K -> bool.
  Hypothesis keqb_eq : forall a b, keqb a b = true <-> a = b.

  Lemma keqb_refl a : keqb a a = true.
  Proof. now apply keqb_eq. Qed.

  Lemma keqb_trans_false a b c : keqb a b = true -> keqb c b = false -> keqb c a = false.
  Proof.
    intros H1 H2. apply keqb_eq in H1. subst.
    exact H2.
  Qed.

  Lemma gm_get_remove (m : gomap K V) k k' :
    gm_get keqb (gm_remove keqb m k) k' = if keqb k' k then None else gm_get keqb m k'.
  Proof.
    unfold gm_remove. induction m as [|[k0 v0] m IH]; cbn.
    - now destruct (keqb k' k).
    - destruct (keqb k k0) eqn:E0; cbn.
      + apply keqb_eq in E0. subst k0. rewrite IH. now destruct (keqb k' k).
      + destruct (keqb k' k0) eqn:E1.
        * destruct (keqb k' k) eqn:E2; auto.
          apply keqb_eq in E1, E2. subst. rewrite keqb_refl in E0. discriminate.
        * exact IH.
  Qed.

  Lemma gm_get_put (m : gomap K V) k v k' :
    gm_get keqb (gm_put keqb m k v) k' = if keqb k' k then Some v else gm_get keqb m k'.
  Proof.
    unfold gm_put. cbn. destruct (keqb k' k) eqn:E; auto.
    rewrite gm_get_remove, E. reflexivity.
  Qed.

  Lemma gm_get_put_if_absent (m : gomap K V) k v k' :
    gm_get keqb (gm_put_if_absent keqb m k v) k' =
    match gm_get keqb m k' with
    | Some x => Some x
    | None => if keqb k' k then Some v else None
    end.
  Proof.
    unfold gm_put_if_absent. destruct (gm_get keqb m k) eqn:E.
    - destruct (gm_get keqb m k') eqn:E'; auto.
      destruct (keqb k' k) eqn:Ek; auto. apply keqb_eq in Ek. subst. congruence.
    - rewrite gm_get_put. destruct (keqb k' k) eqn:Ek.
      + apply keqb_eq in Ek. subst. now rewrite E.
      + now destruct (gm_get keqb m k').
  Qed.

  (* keys of a map stay unique *)
  Lemma gm_remove_keys (m : gomap K V) k kv : In kv (gm_remove keqb m k) -> In kv m /\ keqb k (fst kv) = false.
  Proof.
    unfold gm_remove. rewrite filter_In. intros [H1 H2]. split; auto. now destruct (keqb k (fst kv)).
  Qed.

  Lemma gm_remove_nodup (m : gomap K V) k : NoDup (map fst m) -> NoDup (map fst (gm_remove keqb m k)).
  Proof.
    induction m as [|[k0 v0] m IH]; cbn; intros H; [constructor|].
    inversion H; subst. destruct (keqb k k0); cbn; auto.
    constructor; auto. intros Hin. apply H2.
    apply in_map_iff in Hin. destruct Hin as (kv & Hk & Hin). apply gm_remove_keys in Hin.
    apply in_map_iff. exists kv. tauto.
  Qed.

  Lemma gm_put_nodup (m : gomap K V) k v : NoDup (map fst m) -> NoDup (map fst (gm_put keqb m k v)).
  Proof.
    intros H. unfold gm_put. cbn. constructor; [|now apply gm_remove_nodup].
    intros Hin. apply in_map_iff in Hin. destruct Hin as (kv & Hk & Hin).
    apply gm_remove_keys in Hin. destruct Hin as [_ Hf]. rewrite Hk, keqb_refl in Hf. discriminate.
  Qed.

  Lemma gm_get_In (m : gomap K V) k v : gm_get keqb m k = Some v -> In (k, v) m.
  Proof.
    induction m as [|[k0 v0] m IH]; cbn; [discriminate|].
    destruct (keqb k k0) eqn:E.
    - intros H. inversion H; subst. apply keqb_eq in E. subst. now left.
    - intros H. right. now apply IH.
  Qed.

  Lemma gm_In_get (m : gomap K V) k v : NoDup (map fst m) -> In (k, v) m -> gm_get keqb m k = Some v.
  Proof.
    induction m as [|[k0 v0] m IH]; cbn; intros Hn Hin; [destruct Hin|].
    inversion Hn; subst. destruct Hin as [Hin|Hin].
    - inversion Hin; subst. now rewrite keqb_refl.
    - destruct (keqb k k0) eqn:E.
      + apply keqb_eq in E. subst. exfalso. apply H1. apply in_map_iff. exists (k0, v). auto.
      + now apply IH.
  Qed.

End GoMapP.

Section FirstWins.
  Variable K : Type.
  Variable keqb : K -> K -> bool.
  Hypothesis keqb_eq : forall a b, keqb a b = true <-> a = b.

  (* ----- first wins: every element enters its keys with insert-if-absent ----- *)
  Variable E : Type.
  Variable keys : E -> list K.

  Definition fw_step (i : nat) (d : E) (m : gomap K nat) : gomap K nat :=
    fold_left (fun m k => gm_put_if_absent keqb m k i) (keys d) m.
  Fixpoint fw_loop (i : nat) (l : list E) (m : gomap K nat) : gomap K nat :=
    match l with
    | [] => m
    | d :: r => fw_loop (S i) r (fw_step i d m)
    end.

  Lemma fw_keys_get (ks : list K) i (m : gomap K nat) k :
    gm_get keqb (fold_left (fun m k => gm_put_if_absent keqb m k i) ks m) k =
    match gm_get keqb m k with
    | Some x => Some x
    | None => if existsb (keqb k) ks then Some i else None
    end.
  Proof.
    revert m. induction ks as [|k0 ks IH]; intros m; cbn.
    - now destruct (gm_get keqb m k).
    - rewrite IH. rewrite (gm_get_put_if_absent K nat keqb keqb_eq).
      destruct (gm_get keqb m k); auto.
      destruct (keqb k k0); cbn; auto.
  Qed.

  Lemma fw_loop_get l : forall i m k,
    gm_get keqb (fw_loop i l m) k =
    match gm_get keqb m k with
    | Some x => Some x
    | None => option_map (Nat.add i) (find_index (fun d => existsb (keqb k) (keys d)) l)
    end.
  Proof.
    induction l as [|d l IH]; intros i m k; cbn [fw_loop find_index].
    - now destruct (gm_get keqb m k).
    - rewrite IH. unfold fw_step. rewrite fw_keys_get.
      destruct (gm_get keqb m k); auto.
      destruct (existsb (keqb k) (keys d)); cbn.
      + f_equal. lia.
      + destruct (find_index (fun d0 => existsb (keqb k) (keys d0)) l); cbn; auto; try (f_equal; lia).
  Qed.

End FirstWins.

Section LastWins.
  Variable K : Type.
  Variable keqb : K -> K -> bool.
  Hypothesis keqb_eq : forall a b, keqb a b = true <-> a = b.
  Variable E : Type.

  (* ----- last wins: every element assigns its key ----- *)
  Variable key : E -> K.
  Fixpoint lw_loop (i : nat) (l : list E) (m : gomap K nat) : gomap K nat :=
    match l with
    | [] => m
    | d :: r => lw_loop (S i) r (gm_put keqb m (key d) i)
    end.

  Lemma lw_loop_get l : forall i m k,
    gm_get keqb (lw_loop i l m) k =
    match find_last_index (fun d => keqb k (key d)) l with
    | Some j => Some (i + j)%nat
    | None => gm_get keqb m k
    end.
  Proof.
    induction l as [|d l IH]; intros i m k; cbn [lw_loop find_last_index]; auto.
    rewrite IH. destruct (find_last_index (fun d0 => keqb k (key d0)) l).
    - f_equal. lia.
    - rewrite (gm_get_put K nat keqb keqb_eq). destruct (keqb k (key d)); auto; try (f_equal; lia).
  Qed.

  (* with pairwise distinct keys, last = first *)
  Lemma first_last_unique l k :
    NoDup (map key l) ->
    find_last_index (fun d => keqb k (key d)) l = find_index (fun d => keqb k (key d)) l.
  Proof.
    induction l as [|d l IH]; cbn; auto. intros H. inversion H; subst.
    rewrite IH by auto. destruct (keqb k (key d)) eqn:Ek.
    - apply keqb_eq in Ek. subst k.
      assert (Hn : find_index (fun d0 => keqb (key d) (key d0)) l = None).
      { apply find_index_None. intros a Ha. destruct (keqb (key d) (key a)) eqn:Ea; auto.
        apply keqb_eq in Ea. exfalso. apply H2. rewrite Ea. now apply in_map. }
      now rewrite Hn.
    - now destruct (find_index (fun d0 => keqb k (key d0)) l).
  Qed.
End LastWins.

Arguments fw_loop {K} keqb {E} keys. Arguments lw_loop {K} keqb {E} key.

(* ---------- duplicate detection (the recogniser of F8) ---------- *)
Lemma existsb_bytes_In a l : existsb (bytes_eqb a) l = true <-> In a l.
Proof.
  rewrite existsb_exists. split.
  - intros (x & Hx & He). apply bytes_eqb_eq in He. now subst.
  - intros H. exists a. split; auto. apply bytes_eqb_refl.
Qed.

Lemma has_dup_bytes_false l : has_dup_bytes l = false <-> NoDup l.
Proof.
  induction l as [|a l IH]; cbn.
  - split; auto. constructor.
  - rewrite orb_false_iff, IH. split.
    + intros [H1 H2]. constructor; auto. intros Hin. apply existsb_bytes_In in Hin. congruence.
    + intros H. inversion H; subst. split; auto.
      destruct (existsb (bytes_eqb a) l) eqn:E; auto. apply existsb_bytes_In in E. contradiction.
Qed.

(* ---------- name-keyed lists ---------- *)
Lemma byname_loop_fw i l m : byname_loop i l m = fw_loop bytes_eqb (fun d => [d]) i l m.
Proof. revert i m. induction l as [|d l IH]; intros; cbn; auto. Qed.

Lemma list_by_name_first l s : list_by_name l s = find_index (fun d => bytes_eqb s d) l.
Proof.
  unfold list_by_name. rewrite byname_loop_fw, (fw_loop_get _ bytes_eqb bytes_eqb_eq). cbn.
  rewrite (find_index_ext _ (fun d => bytes_eqb s d)) by (intros; cbn; apply orb_false_r).
  destruct (find_index _ l); reflexivity.
Qed.

(* ---------- EnumValues ---------- *)
Lemma enumvalues_loop_name i l m :
  ev_name (enumvalues_loop i l m) = fw_loop bytes_eqb (fun d : bytes * Z => [fst d]) i l (ev_name m).
Proof. revert i m. induction l as [|d l IH]; intros; cbn; auto. now rewrite IH. Qed.

Lemma enumvalues_loop_num i l m :
  ev_num (enumvalues_loop i l m) = fw_loop Z.eqb (fun d : bytes * Z => [snd d]) i l (ev_num m).
Proof. revert i m. induction l as [|d l IH]; intros; cbn; auto. now rewrite IH. Qed.

Lemma enumvalues_by_name_first l s :
  enumvalues_by_name l s = find_index (fun d => bytes_eqb s (fst d)) l.
Proof.
  unfold enumvalues_by_name, enumvalues_init.
  rewrite enumvalues_loop_name, (fw_loop_get _ bytes_eqb bytes_eqb_eq). cbn.
  rewrite (find_index_ext _ (fun d => bytes_eqb s (fst d))) by (intros; cbn; apply orb_false_r).
  destruct (find_index _ l); reflexivity.
Qed.

Lemma enumvalues_by_number_first l n :
  enumvalues_by_number l n = find_index (fun d => Z.eqb n (snd d)) l.
Proof.
  unfold enumvalues_by_number, enumvalues_init.
  rewrite enumvalues_loop_num, (fw_loop_get _ Z.eqb zeqb_eq). cbn.
  rewrite (find_index_ext _ (fun d => Z.eqb n (snd d))) by (intros; cbn; apply orb_false_r).
  destruct (find_index _ l); reflexivity.
Qed.

(* ---------- Fields ---------- *)
Definition json_keys (d : fld) : list bytes := f_json d :: (if f_grouplike d then [f_ljson d] else []).
Definition text_keys (d : fld) : list bytes := f_text d :: (if f_grouplike d then [f_ltext d] else []).

Lemma fields_loop_name i l m :
  fm_name (fields_loop i l m) = fw_loop bytes_eqb (fun d => [f_name d]) i l (fm_name m).
Proof. revert i m. induction l as [|d l IH]; intros; cbn [fields_loop fw_loop]; auto. now rewrite IH. Qed.

Lemma fields_loop_num i l m :
  fm_num (fields_loop i l m) = fw_loop Z.eqb (fun d => [f_num d]) i l (fm_num m).
Proof. revert i m. induction l as [|d l IH]; intros; cbn [fields_loop fw_loop]; auto. now rewrite IH. Qed.

Lemma fields_loop_json i l m :
  fm_json (fields_loop i l m) = fw_loop bytes_eqb json_keys i l (fm_json m).
Proof.
  revert i m. induction l as [|d l IH]; intros; cbn [fields_loop fw_loop]; auto.
  rewrite IH. f_equal. unfold fields_step, fw_step, json_keys. cbn. now destruct (f_grouplike d).
Qed.

Lemma fields_loop_text i l m :
  fm_text (fields_loop i l m) = fw_loop bytes_eqb text_keys i l (fm_text m).
Proof.
  revert i m. induction l as [|d l IH]; intros; cbn [fields_loop fw_loop]; auto.
  rewrite IH. f_equal. unfold fields_step, fw_step, text_keys. cbn. now destruct (f_grouplike d).
Qed.

(* the keys a field answers to *)
Definition json_key (s : bytes) (d : fld) : bool :=
  bytes_eqb s (f_json d) || (f_grouplike d && bytes_eqb s (f_ljson d)).
Definition text_key (s : bytes) (d : fld) : bool :=
  bytes_eqb s (f_text d) || (f_grouplike d && bytes_eqb s (f_ltext d)).

Lemma fields_by_name_first l s : fields_by_name l s = find_index (fun d => bytes_eqb s (f_name d)) l.
Proof.
  unfold fields_by_name, fields_init.
  rewrite fields_loop_name, (fw_loop_get _ bytes_eqb bytes_eqb_eq). cbn.
  rewrite (find_index_ext _ (fun d => bytes_eqb s (f_name d))) by (intros; cbn; apply orb_false_r).
  destruct (find_index _ l); reflexivity.
Qed.

Lemma fields_by_number_first l n : fields_by_number l n = find_index (fun d => Z.eqb n (f_num d)) l.
Proof.
  unfold fields_by_number, fields_init.
  rewrite fields_loop_num, (fw_loop_get _ Z.eqb zeqb_eq). cbn.
  rewrite (find_index_ext _ (fun d => Z.eqb n (f_num d))) by (intros; cbn; apply orb_false_r).
  destruct (find_index _ l); reflexivity.
Qed.

Lemma fields_by_json_first l s : fields_by_json l s = find_index (json_key s) l.
Proof.
  unfold fields_by_json, fields_init.
  rewrite fields_loop_json, (fw_loop_get _ bytes_eqb bytes_eqb_eq). cbn.
  rewrite (find_index_ext _ (json_key s)).
  2:{ intros d. unfold json_keys, json_key. cbn. destruct (f_grouplike d); cbn; now rewrite ?orb_false_r. }
  destruct (find_index _ l); reflexivity.
Qed.

Lemma fields_by_text_first l s : fields_by_text l s = find_index (text_key s) l.
Proof.
  unfold fields_by_text, fields_init.
  rewrite fields_loop_text, (fw_loop_get _ bytes_eqb bytes_eqb_eq). cbn.
  rewrite (find_index_ext _ (text_key s)).
  2:{ intros d. unfold text_keys, text_key. cbn. destruct (f_grouplike d); cbn; now rewrite ?orb_false_r. }
  destruct (find_index _ l); reflexivity.
Qed.

(* ---------- OneofFields: last wins ---------- *)
Lemma oneof_loop_name i l m : fm_name (oneof_loop i l m) = lw_loop bytes_eqb f_name i l (fm_name m).
Proof. revert i m. induction l as [|d l IH]; intros; cbn [oneof_loop lw_loop]; auto. now rewrite IH. Qed.
Lemma oneof_loop_json i l m : fm_json (oneof_loop i l m) = lw_loop bytes_eqb f_json i l (fm_json m).
Proof. revert i m. induction l as [|d l IH]; intros; cbn [oneof_loop lw_loop]; auto. now rewrite IH. Qed.
Lemma oneof_loop_text i l m : fm_text (oneof_loop i l m) = lw_loop bytes_eqb f_text i l (fm_text m).
Proof. revert i m. induction l as [|d l IH]; intros; cbn [oneof_loop lw_loop]; auto. now rewrite IH. Qed.
Lemma oneof_loop_num i l m : fm_num (oneof_loop i l m) = lw_loop Z.eqb f_num i l (fm_num m).
Proof. revert i m. induction l as [|d l IH]; intros; cbn [oneof_loop lw_loop]; auto. now rewrite IH. Qed.

Lemma oneof_by_name_last l s : oneof_by_name l s = find_last_index (fun d => bytes_eqb s (f_name d)) l.
Proof.
  unfold oneof_by_name, oneof_init. rewrite oneof_loop_name, (lw_loop_get _ bytes_eqb bytes_eqb_eq). cbn.
  destruct (find_last_index _ l); reflexivity.
Qed.
Lemma oneof_by_json_last l s : oneof_by_json l s = find_last_index (fun d => bytes_eqb s (f_json d)) l.
Proof.
  unfold oneof_by_json, oneof_init. rewrite oneof_loop_json, (lw_loop_get _ bytes_eqb bytes_eqb_eq). cbn.
  destruct (find_last_index _ l); reflexivity.
Qed.
Lemma oneof_by_text_last l s : oneof_by_text l s = find_last_index (fun d => bytes_eqb s (f_text d)) l.
Proof.
  unfold oneof_by_text, oneof_init. rewrite oneof_loop_text, (lw_loop_get _ bytes_eqb bytes_eqb_eq). cbn.
  destruct (find_last_index _ l); reflexivity.
Qed.
Lemma oneof_by_number_last l n : oneof_by_number l n = find_last_index (fun d => Z.eqb n (f_num d)) l.
Proof.
  unfold oneof_by_number, oneof_init. rewrite oneof_loop_num, (lw_loop_get _ Z.eqb zeqb_eq). cbn.
  destruct (find_last_index _ l); reflexivity.
Qed.

(* first-wins is refuted for OneofFields (finding F8): members a_b and aB, both with JSON name "aB" *)
Definition F8_witness : list fld :=
  let s_a_b := ["a"; "_"; "b"]%byte in
  let s_aB := ["a"; "B"]%byte in
  [ {| f_name := s_a_b; f_json := s_aB; f_text := s_a_b; f_num := 1; f_grouplike := false; f_ljson := []; f_ltext := [] |};
    {| f_name := s_aB; f_json := s_aB; f_text := s_aB; f_num := 2; f_grouplike := false; f_ljson := []; f_ltext := [] |} ].

Lemma oneof_lookup_first_wins_refuted :
  exists l s, oneof_by_json l s <> find_index (fun d => bytes_eqb s (f_json d)) l
              /\ fields_by_json l s = find_index (fun d => bytes_eqb s (f_json d)) l.
Proof. exists F8_witness, ["a"; "B"]%byte. vm_compute. split; [discriminate|reflexivity]. Qed.

(* ... and holds whenever the recogniser of F8 does not fire *)
Lemma oneof_by_json_first_except_F8 l s : excl_F8_json l = false ->
  oneof_by_json l s = find_index (fun d => bytes_eqb s (f_json d)) l.
Proof.
  unfold excl_F8_json. rewrite has_dup_bytes_false. intros H.
  rewrite oneof_by_json_last. now apply (first_last_unique _ bytes_eqb bytes_eqb_eq).
Qed.

Lemma oneof_by_text_first_except_F8 l s : excl_F8_text l = false ->
  oneof_by_text l s = find_index (fun d => bytes_eqb s (f_text d)) l.
Proof.
  unfold excl_F8_text. rewrite has_dup_bytes_false. intros H.
  rewrite oneof_by_text_last. now apply (first_last_unique _ bytes_eqb bytes_eqb_eq).
Qed.

(* names and numbers of the fields of a validated message are unique *)
Lemma oneof_by_name_first_unique l s : NoDup (map f_name l) ->
  oneof_by_name l s = find_index (fun d => bytes_eqb s (f_name d)) l.
Proof. intros H. rewrite oneof_by_name_last. now apply (first_last_unique _ bytes_eqb bytes_eqb_eq). Qed.

Lemma oneof_by_number_first_unique l n : NoDup (map f_num l) ->
  oneof_by_number l n = find_index (fun d => Z.eqb n (f_num d)) l.
Proof. intros H. rewrite oneof_by_number_last. now apply (first_last_unique _ Z.eqb zeqb_eq). Qed.

(* ---------- Names ---------- *)
Fixpoint bcount (s : bytes) (l : list bytes) : Z :=
  match l with
  | [] => 0
  | a :: r => (if bytes_eqb s a then 1 else 0) + bcount s r
  end%Z.

Definition cnt (m : gomap bytes Z) (s : bytes) : Z :=
  match gm_get bytes_eqb m s with Some c => c | None => 0%Z end.

Definition names_step (m : gomap bytes Z) (s : bytes) : gomap bytes Z :=
  gm_put bytes_eqb m s ((match gm_get bytes_eqb m s with Some c => c | None => 0 end) + 1)%Z.

Lemma bcount_nonneg s l : (0 <= bcount s l)%Z.
Proof. induction l as [|a l IH]; cbn; [lia|]. destruct (bytes_eqb s a); lia. Qed.

Lemma bcount_pos_In s l : (0 < bcount s l)%Z <-> In s l.
Proof.
  induction l as [|a l IH]; cbn; [lia|].
  pose proof (bcount_nonneg s l). destruct (bytes_eqb s a) eqn:E.
  - apply bytes_eqb_eq in E. subst. split; auto. lia.
  - split.
    + intros Hp. right. apply IH. lia.
    + intros [Ha|Hin]; [subst; rewrite bytes_eqb_refl in E; discriminate|]. apply IH in Hin. lia.
Qed.

Lemma names_fold_cnt l : forall m s,
  cnt (fold_left names_step l m) s = (cnt m s + bcount s l)%Z.
Proof.
  induction l as [|a l IH]; intros m s; cbn [fold_left bcount]; [lia|].
  rewrite IH. unfold cnt at 1. unfold names_step at 1.
  rewrite (gm_get_put _ _ bytes_eqb bytes_eqb_eq). destruct (bytes_eqb s a) eqn:E.
  - apply bytes_eqb_eq in E. subst. unfold cnt. lia.
  - unfold cnt. lia.
Qed.

(* entries are positive and keys unique *)
Lemma names_fold_inv l : forall m,
  NoDup (map fst m) -> (forall kv, In kv m -> (0 < snd kv)%Z) ->
  NoDup (map fst (fold_left names_step l m)) /\ (forall kv, In kv (fold_left names_step l m) -> (0 < snd kv)%Z).
Proof.
  induction l as [|a l IH]; intros m Hn Hp; cbn [fold_left]; auto.
  apply IH.
  - unfold names_step. now apply (gm_put_nodup _ _ bytes_eqb bytes_eqb_eq).
  - intros kv [Hkv|Hkv].
    + subst kv. cbn. destruct (gm_get bytes_eqb m a) eqn:E; [|lia].
      apply (gm_get_In _ _ bytes_eqb bytes_eqb_eq) in E. specialize (Hp _ E). cbn in Hp. lia.
    + apply gm_remove_keys in Hkv. apply Hp. tauto.
Qed.

Lemma names_init_fold l : names_init l = fold_left names_step l [].
Proof. reflexivity. Qed.

Lemma names_has_iff l s : names_has l s = true <-> In s l.
Proof.
  rewrite <- bcount_pos_In. unfold names_has.
  pose proof (names_fold_cnt l [] s) as H. rewrite <- names_init_fold in H. unfold cnt in H. cbn in H.
  destruct (gm_get bytes_eqb (names_init l) s); lia.
Qed.

Lemma NoDup_bcount l : NoDup l <-> forall s, (bcount s l <= 1)%Z.
Proof.
  induction l as [|a l IH].
  - split; [cbn; lia|constructor].
  - split.
    + intros H s. inversion H as [|? ? Hnin Hnd]; subst. cbn. destruct (bytes_eqb s a) eqn:E.
      * apply bytes_eqb_eq in E. subst.
        assert (~ (0 < bcount a l)%Z) by (rewrite bcount_pos_In; auto).
        pose proof (bcount_nonneg a l). lia.
      * pose proof (proj1 IH Hnd s). lia.
    + intros H. constructor.
      * intros Hin. apply bcount_pos_In in Hin. specialize (H a). cbn in H.
        rewrite bytes_eqb_refl in H. lia.
      * apply IH. intros s. specialize (H s). cbn in H. destruct (bytes_eqb s a); lia.
Qed.

Lemma names_check_dup_false l : names_check_dup l = false <-> NoDup l.
Proof.
  unfold names_check_dup.
  destruct (names_fold_inv l [] (NoDup_nil _) (fun _ (H : In _ []) => match H with end)) as [Hn Hp].
  rewrite <- names_init_fold in Hn, Hp.
  rewrite NoDup_bcount. split.
  - intros H s.
    pose proof (names_fold_cnt l [] s) as Hc. rewrite <- names_init_fold in Hc. unfold cnt in Hc. cbn in Hc.
    destruct (gm_get bytes_eqb (names_init l) s) as [c|] eqn:E; [|lia].
    apply (gm_get_In _ _ bytes_eqb bytes_eqb_eq) in E.
    destruct (existsb (fun kv => (1 <? snd kv)%Z) (names_init l)) eqn:Ex; [discriminate|].
    assert (Hf : (1 <? c)%Z = false).
    { destruct (1 <? c)%Z eqn:E1; auto.
      assert (existsb (fun kv => (1 <? snd kv)%Z) (names_init l) = true); [|congruence].
      apply existsb_exists. exists (s, c). auto. }
    lia.
  - intros H. destruct (existsb (fun kv => (1 <? snd kv)%Z) (names_init l)) eqn:Ex; auto.
    apply existsb_exists in Ex. destruct Ex as ([k c] & Hin & Hc). cbn in Hc.
    apply (gm_In_get _ _ bytes_eqb bytes_eqb_eq _ _ _ Hn) in Hin.
    pose proof (names_fold_cnt l [] k) as Hk. rewrite <- names_init_fold in Hk. unfold cnt in Hk. cbn in Hk.
    rewrite Hin in Hk. specialize (H k). lia.
Qed.

(* ---------- FieldNumbers ---------- *)
Lemma numbers_fold_get l : forall m n,
  (exists u, gm_get Z.eqb (fold_left (fun m n => gm_put Z.eqb m n tt) l m) n = Some u) <->
  (exists u, gm_get Z.eqb m n = Some u) \/ In n l.
Proof.
  induction l as [|a l IH]; intros m n; cbn [fold_left].
  - split; [auto|]. intros [H|[]]; auto.
  - rewrite IH. rewrite (gm_get_put _ _ Z.eqb zeqb_eq). destruct (Z.eqb n a) eqn:E.
    + apply Z.eqb_eq in E. subst. split; intros _; [right; now left|left; eauto].
    + apply Z.eqb_neq in E. split.
      * intros [H|H]; auto. right. now right.
      * intros [H|[H|H]]; auto. congruence.
Qed.

Lemma numbers_has_iff l n : numbers_has l n = true <-> In n l.
Proof.
  unfold numbers_has, numbers_init.
  pose proof (numbers_fold_get l [] n) as H. cbn in H.
  destruct (gm_get Z.eqb (fold_left (fun m n => gm_put Z.eqb m n tt) l []) n) eqn:E.
  - split; auto. intros _. destruct H as [H _]. destruct H as [[u' Hu]|H]; eauto. discriminate.
  - split; [discriminate|]. intros Hin. destruct H as [_ H]. destruct H as [u' Hu]; auto. discriminate.
Qed.

(* ---------- batched versions are the pointwise maps ---------- *)
Lemma fields_by_name_many_eq l ks : fields_by_name_many l ks = map (fields_by_name l) ks. Proof. reflexivity. Qed.
Lemma fields_by_json_many_eq l ks : fields_by_json_many l ks = map (fields_by_json l) ks. Proof. reflexivity. Qed.
Lemma fields_by_text_many_eq l ks : fields_by_text_many l ks = map (fields_by_text l) ks. Proof. reflexivity. Qed.
Lemma fields_by_number_many_eq l ks : fields_by_number_many l ks = map (fields_by_number l) ks. Proof. reflexivity. Qed.
Lemma oneof_by_name_many_eq l ks : oneof_by_name_many l ks = map (oneof_by_name l) ks. Proof. reflexivity. Qed.
Lemma oneof_by_json_many_eq l ks : oneof_by_json_many l ks = map (oneof_by_json l) ks. Proof. reflexivity. Qed.
Lemma oneof_by_text_many_eq l ks : oneof_by_text_many l ks = map (oneof_by_text l) ks. Proof. reflexivity. Qed.
Lemma oneof_by_number_many_eq l ks : oneof_by_number_many l ks = map (oneof_by_number l) ks. Proof. reflexivity. Qed.
Lemma list_by_name_many_eq l ks : list_by_name_many l ks = map (list_by_name l) ks. Proof. reflexivity. Qed.
Lemma enumvalues_by_name_many_eq l ks : enumvalues_by_name_many l ks = map (enumvalues_by_name l) ks. Proof. reflexivity. Qed.
Lemma enumvalues_by_number_many_eq l ks : enumvalues_by_number_many l ks = map (enumvalues_by_number l) ks. Proof. reflexivity. Qed.
Lemma names_has_many_eq l ks : names_has_many l ks = map (names_has l) ks. Proof. reflexivity. Qed.
Lemma numbers_has_many_eq l ks : numbers_has_many l ks = map (numbers_has l) ks. Proof. reflexivity. Qed.
