(* Proofs about the descriptor-validation model (C35), part 5: ranges.
   CheckValid over the start-sorted copy establishes validity and pairwise disjointness of the
   declared ranges; the binary search of Has decides membership; the two-pointer sweep of
   CheckOverlap decides cross-disjointness.  Consequences for accepted files. *)
From Coq Require Import List NArith ZArith Bool Lia Permutation.
From PB Require Import Desc.ValidateModel Desc.ValidateP Desc.ValidateSoundP.
Import ListNotations.
Open Scope Z_scope.

Section Ranges.
  Variable hi : Z * Z -> Z.            (* inclusive upper end of a range *)
  Definition lo (r : Z * Z) : Z := fst r.
  Definition inside (n : Z) (r : Z * Z) : Prop := lo r <= n <= hi r.
  Definition disjoint (a b : Z * Z) : Prop := hi a < lo b \/ hi b < lo a.

  (* sorted, non-empty, strictly separated: what CheckValid checks on the sorted copy *)
  Definition separated (l : list (Z * Z)) : Prop :=
    (forall r, In r l -> lo r <= hi r) /\
    (forall i j ri rj, (i < j)%nat -> nth_error l i = Some ri -> nth_error l j = Some rj -> hi ri < lo rj).

  Fixpoint chain (prev : option (Z * Z)) (l : list (Z * Z)) : Prop :=
    match l with
    | [] => True
    | r :: rest => lo r <= hi r /\ (match prev with Some p => hi p < lo r | None => True end) /\ chain (Some r) rest
    end.

  Lemma chain_after : forall l p, chain (Some p) l -> lo p <= hi p -> forall r, In r l -> hi p < lo r.
  Proof.
    induction l as [|x l IH]; intros p H Hp r Hin; [destruct Hin|].
    cbn in H. destruct H as [Hx [Hpx Hc]]. destruct Hin as [<-|Hin]; [exact Hpx|].
    pose proof (IH x Hc Hx r Hin). unfold lo in *. lia.
  Qed.

  Lemma chain_separated : forall l prev, chain prev l -> separated l.
  Proof.
    induction l as [|x l IH]; intros prev H.
    - split; [intros r []|]. intros i j ri rj _ Hi. destruct i; discriminate.
    - cbn in H. destruct H as [Hx [_ Hc]]. destruct (IH _ Hc) as [H1 H2]. split.
      + intros r [<-|Hin]; [exact Hx|exact (H1 r Hin)].
      + intros i j ri rj Hij Hi Hj. destruct j as [|j]; [lia|]. cbn in Hj.
        destruct i as [|i].
        * cbn in Hi. injection Hi as <-. exact (chain_after l x Hc Hx rj (nth_error_In _ _ Hj)).
        * cbn in Hi. exact (H2 i j ri rj ltac:(lia) Hi Hj).
  Qed.

  Lemma separated_nodup : forall l, separated l -> NoDup l.
  Proof.
    intros l [H1 H2]. apply NoDup_nth_error. intros i j Hi Heq.
    destruct (Nat.lt_trichotomy i j) as [Hlt|[Heqij|Hgt]]; [|exact Heqij|]; exfalso.
    - destruct (nth_error l i) as [ri|] eqn:Ei; [|apply nth_error_Some in Hi; congruence].
      symmetry in Heq. pose proof (H2 i j ri ri Hlt Ei Heq). pose proof (H1 ri (nth_error_In _ _ Ei)). unfold lo in *. lia.
    - destruct (nth_error l i) as [ri|] eqn:Ei; [|apply nth_error_Some in Hi; congruence].
      symmetry in Heq. pose proof (H2 j i ri ri Hgt Heq Ei). pose proof (H1 ri (nth_error_In _ _ Ei)). unfold lo in *. lia.
  Qed.

  Lemma separated_disjoint : forall l, separated l -> forall a b, In a l -> In b l -> a <> b -> disjoint a b.
  Proof.
    intros l [H1 H2] a b Ha Hb Hne.
    destruct (In_nth_error _ _ Ha) as [i Hi]. destruct (In_nth_error _ _ Hb) as [j Hj].
    destruct (Nat.lt_trichotomy i j) as [Hlt|[Heq|Hgt]].
    - left. exact (H2 i j a b Hlt Hi Hj).
    - subst j. congruence.
    - right. exact (H2 j i b a Hgt Hj Hi).
  Qed.

  (* sublists *)
  Lemma nth_error_firstn_some : forall A (l : list A) n k x,
    nth_error (firstn n l) k = Some x -> (k < n)%nat /\ nth_error l k = Some x.
  Proof.
    intros A l; induction l as [|y l IH]; intros n k x H.
    - rewrite firstn_nil in H. destruct k; discriminate.
    - destruct n as [|n]; [destruct k; discriminate|]. cbn in H. destruct k as [|k]; [split; [lia|exact H]|].
      cbn in H. destruct (IH n k x H). split; [lia|assumption].
  Qed.
  Lemma nth_error_skipn_eq : forall A (l : list A) n k, nth_error (skipn n l) k = nth_error l (n + k).
  Proof.
    intros A l; induction l as [|y l IH]; intros n k.
    - rewrite skipn_nil. destruct k, n; reflexivity.
    - destruct n as [|n]; [reflexivity|]. cbn. apply IH.
  Qed.
  Lemma firstn_in_incl : forall A (l : list A) n x, In x (firstn n l) -> In x l.
  Proof.
    intros A l; induction l as [|y l IH]; intros n x H; [rewrite firstn_nil in H; destruct H|].
    destruct n; [destruct H|]. cbn in H. destruct H as [<-|H]; [left; reflexivity|right; exact (IH n x H)].
  Qed.
  Lemma separated_firstn : forall l n, separated l -> separated (firstn n l).
  Proof.
    intros l n [H1 H2]. split.
    - intros r Hr. apply H1. exact (firstn_in_incl _ _ _ _ Hr).
    - intros i j ri rj Hij Hi Hj. apply nth_error_firstn_some in Hi. apply nth_error_firstn_some in Hj.
      exact (H2 i j ri rj Hij (proj2 Hi) (proj2 Hj)).
  Qed.
  Lemma skipn_In_incl : forall A (l : list A) n x, In x (skipn n l) -> In x l.
  Proof.
    intros A l; induction l as [|y l IH]; intros n x H; [rewrite skipn_nil in H; destruct H|].
    destruct n; [exact H|]. right. exact (IH n x H).
  Qed.
  Lemma separated_skipn : forall l n, separated l -> separated (skipn n l).
  Proof.
    intros l n [H1 H2]. split.
    - intros r Hr. apply H1. exact (skipn_In_incl _ _ _ _ Hr).
    - intros i j ri rj Hij Hi Hj. rewrite nth_error_skipn_eq in Hi, Hj.
      exact (H2 (n + i)%nat (n + j)%nat ri rj ltac:(lia) Hi Hj).
  Qed.

  Lemma div2_lt : forall n, (0 < n)%nat -> (Nat.div2 n < n)%nat.
  Proof. intros n H. apply Nat.lt_div2. exact H. Qed.

  Lemma nth_error_in_firstn : forall A (l : list A) k n x,
    nth_error l k = Some x -> (k < n)%nat -> In x (firstn n l).
  Proof.
    intros A l; induction l as [|y l IHl]; intros k n x Hk Hlt; [destruct k; discriminate|].
    destruct n; [lia|]. destruct k; [cbn in Hk; injection Hk as ->; left; reflexivity|]. right. cbn in Hk.
    apply (IHl k n x Hk). lia.
  Qed.

  Lemma bsearch_unfold : forall fuel l n, l <> [] ->
    bsearch (S fuel) hi l n =
    match nth_error l (Nat.div2 (length l)) with
    | None => false
    | Some r => if n <? fst r then bsearch fuel hi (firstn (Nat.div2 (length l)) l) n
                else if hi r <? n then bsearch fuel hi (skipn (S (Nat.div2 (length l))) l) n
                else true
    end.
  Proof. intros fuel l n H. destruct l; [congruence|reflexivity]. Qed.

  (* Has: the binary search decides membership *)
  Lemma bsearch_spec : forall fuel l n,
    separated l -> (length l < fuel)%nat ->
    (bsearch fuel hi l n = true <-> exists r, In r l /\ inside n r).
  Proof.
    induction fuel as [|fuel IH]; intros l n Hsep Hlen; [lia|].
    destruct (list_eq_dec (fun a b : Z * Z => ltac:(decide equality; apply Z.eq_dec)) l []) as [->|Hne0].
    - cbn. split; [discriminate|]. intros [r [[] _]].
    - assert (Hpos : (0 < length l)%nat) by (destruct l; [congruence|cbn; lia]).
      rewrite (bsearch_unfold fuel l n Hne0).
      set (i := Nat.div2 (length l)). assert (Hi : (i < length l)%nat) by (apply div2_lt; exact Hpos).
      destruct (nth_error l i) as [r|] eqn:Er; [|apply nth_error_None in Er; lia].
      destruct Hsep as [H1 H2]. pose proof (H1 r (nth_error_In _ _ Er)) as Hr.
      destruct (n <? fst r) eqn:E1.
      + apply Z.ltb_lt in E1.
        rewrite IH; [|apply separated_firstn; split; assumption|rewrite firstn_length; lia].
        split; intros [r' [Hin Hins]].
        * exists r'. split; [exact (firstn_in_incl _ _ _ _ Hin)|exact Hins].
        * exists r'. split; [|exact Hins].
          destruct (In_nth_error _ _ Hin) as [k Hk].
          destruct (Nat.lt_ge_cases k i) as [Hlt|Hge].
          { exact (nth_error_in_firstn _ l k i r' Hk Hlt). }
          exfalso. unfold inside, lo in Hins.
          destruct (Nat.eq_dec k i) as [->|Hne]; [rewrite Er in Hk; injection Hk as ->; lia|].
          pose proof (H2 i k r r' ltac:(lia) Er Hk). pose proof (H1 r' Hin). unfold lo in *. lia.
      + apply Z.ltb_ge in E1. destruct (hi r <? n) eqn:E2.
        * apply Z.ltb_lt in E2.
          rewrite IH; [|apply separated_skipn; split; assumption|rewrite skipn_length; lia].
          split; intros [r' [Hin Hins]].
          { exists r'. split; [exact (skipn_In_incl _ _ _ _ Hin)|exact Hins]. }
          exists r'. split; [|exact Hins].
          destruct (In_nth_error _ _ Hin) as [k Hk].
          destruct (Nat.lt_ge_cases i k) as [Hlt|Hge].
          { apply nth_error_In with (n := (k - S i)%nat). rewrite nth_error_skipn_eq.
            replace (S i + (k - S i))%nat with k by lia. exact Hk. }
          exfalso. unfold inside, lo in Hins.
          destruct (Nat.eq_dec k i) as [->|Hne]; [rewrite Er in Hk; injection Hk as ->; lia|].
          pose proof (H2 k i r' r ltac:(lia) Hk Er). unfold lo in *. lia.
        * apply Z.ltb_ge in E2. split; [intros _|reflexivity].
          exists r. split; [exact (nth_error_In _ _ Er)|]. unfold inside, lo. lia.
  Qed.
End Ranges.

(* ---------- the sorted copy is a permutation *)
Lemma insert_perm : forall r l, Permutation (insert_by_start r l) (r :: l).
Proof.
  intros r l; induction l as [|x l IH]; [reflexivity|].
  cbn. destruct (fst r <? fst x); [reflexivity|].
  rewrite IH. apply perm_swap.
Qed.
Lemma sort_perm_aux : forall l acc, Permutation (fold_left (fun acc r => insert_by_start r acc) l acc) (acc ++ l).
Proof.
  induction l as [|x l IH]; intros acc; cbn; [rewrite app_nil_r; reflexivity|].
  rewrite IH. rewrite insert_perm. cbn [app]. apply Permutation_middle.
Qed.
Lemma sort_perm : forall l, Permutation (sort_ranges l) l.
Proof. intros l. unfold sort_ranges. rewrite sort_perm_aux. reflexivity. Qed.
Lemma sort_in : forall l r, In r (sort_ranges l) <-> In r l.
Proof. intros l r. split; apply Permutation_in; [apply sort_perm|symmetry; apply sort_perm]. Qed.

(* ---------- CheckValid *)
Lemma enum_ranges_ok_chain : forall l prev, enum_ranges_ok_aux prev l = true -> chain snd prev l.
Proof.
  induction l as [|r l IH]; intros prev H; [exact I|].
  cbn in H. apply andb_true_iff in H. destruct H as [H H3]. apply andb_true_iff in H. destruct H as [H1 H2].
  cbn. split; [apply Z.leb_le; exact H1|]. split; [|apply IH; exact H3].
  destruct prev; [apply Z.ltb_lt; exact H2|exact I].
Qed.
Lemma field_ranges_ok_chain : forall ms l prev,
  field_ranges_ok_aux ms prev l = true ->
  chain fr_end prev l /\ forall r, In r l -> range_num_valid (fst r) ms = true /\ range_num_valid (fr_end r) ms = true.
Proof.
  induction l as [|r l IH]; intros prev H; [split; [exact I|intros r []]|].
  cbn [field_ranges_ok_aux] in H.
  apply andb_true_iff in H. destruct H as [H H5].
  apply andb_true_iff in H. destruct H as [H H4].
  apply andb_true_iff in H. destruct H as [H H3].
  apply andb_true_iff in H. destruct H as [H1 H2].
  destruct (IH _ H5) as [Hc Hv]. split.
  - cbn [chain]. split; [apply Z.leb_le; exact H3|]. split; [|exact Hc].
    destruct prev; [apply Z.ltb_lt; exact H4|exact I].
  - intros r' [<-|Hin]; [split; assumption|exact (Hv r' Hin)].
Qed.

(* declared ranges (in declaration order) after a successful CheckValid *)
Theorem enum_ranges_ok_spec : forall l,
  enum_ranges_ok l = true ->
  (forall r, In r l -> fst r <= snd r) /\ NoDup l /\
  (forall a b, In a l -> In b l -> a <> b -> disjoint snd a b) /\
  (forall n, enum_ranges_has l n = true <-> exists r, In r l /\ fst r <= n <= snd r).
Proof.
  intros l H. unfold enum_ranges_ok in H.
  pose proof (chain_separated snd _ _ (enum_ranges_ok_chain _ _ H)) as Hsep.
  repeat split.
  - intros r Hr. apply sort_in in Hr. exact (proj1 Hsep r Hr).
  - apply (Permutation_NoDup (sort_perm l)). exact (separated_nodup snd _ Hsep).
  - intros a b Ha Hb. apply sort_in in Ha. apply sort_in in Hb. exact (separated_disjoint snd _ Hsep a b Ha Hb).
  - unfold enum_ranges_has. intros Hb.
    apply (bsearch_spec snd) in Hb; [|exact Hsep|rewrite (Permutation_length (sort_perm l)); lia].
    destruct Hb as [r [Hr Hin]]. exists r. split; [apply sort_in; exact Hr|exact Hin].
  - unfold enum_ranges_has. intros [r [Hr Hin]].
    apply (bsearch_spec snd); [exact Hsep|rewrite (Permutation_length (sort_perm l)); lia|].
    exists r. split; [apply sort_in; exact Hr|exact Hin].
Qed.

Theorem field_ranges_ok_spec : forall ms l,
  field_ranges_ok ms l = true ->
  (forall r, In r l -> 1 <= fst r <= fr_end r /\ (ms = false -> fr_end r <= 536870911)) /\ NoDup l /\
  (forall a b, In a l -> In b l -> a <> b -> disjoint fr_end a b) /\
  (forall n, field_ranges_has l n = true <-> exists r, In r l /\ fst r <= n <= fr_end r).
Proof.
  intros ms l H. unfold field_ranges_ok in H.
  destruct (field_ranges_ok_chain _ _ _ H) as [Hc Hv].
  pose proof (chain_separated fr_end _ _ Hc) as Hsep.
  repeat split.
  - apply sort_in in H0. destruct (Hv r H0) as [Ha _]. unfold range_num_valid in Ha.
    apply andb_true_iff in Ha. destruct Ha as [Ha _]. apply Z.leb_le in Ha. exact Ha.
  - apply sort_in in H0. exact (proj1 Hsep r H0).
  - intros ->. apply sort_in in H0. destruct (Hv r H0) as [_ Hb]. unfold range_num_valid, max_valid in Hb.
    apply andb_true_iff in Hb. destruct Hb as [_ Hb]. rewrite orb_false_r in Hb. apply Z.leb_le in Hb. exact Hb.
  - apply (Permutation_NoDup (sort_perm l)). exact (separated_nodup fr_end _ Hsep).
  - intros a b Ha Hb. apply sort_in in Ha. apply sort_in in Hb. exact (separated_disjoint fr_end _ Hsep a b Ha Hb).
  - unfold field_ranges_has. intros Hb.
    apply (bsearch_spec fr_end) in Hb; [|exact Hsep|rewrite (Permutation_length (sort_perm l)); lia].
    destruct Hb as [r [Hr Hin]]. exists r. split; [apply sort_in; exact Hr|exact Hin].
  - unfold field_ranges_has. intros [r [Hr Hin]].
    apply (bsearch_spec fr_end); [exact Hsep|rewrite (Permutation_length (sort_perm l)); lia|].
    exists r. split; [apply sort_in; exact Hr|exact Hin].
Qed.

(* for int32 inputs the wrapped end is the mathematical one *)
Lemma fr_end_int32 : forall r, -2147483648 < snd r <= 2147483647 -> fr_end r = snd r - 1.
Proof.
  intros r H. unfold fr_end, wrap32.
  replace (snd r - 1 + 2147483648) with (snd r + 2147483647) by lia.
  rewrite Z.mod_small by lia. lia.
Qed.

(* ---------- CheckOverlap: the two-pointer sweep *)
Lemma overlap_sweep_spec : forall fuel ps qs,
  separated fr_end ps -> separated fr_end qs -> (length ps + length qs < fuel)%nat ->
  overlap_sweep fuel ps qs = true ->
  forall a b, In a ps -> In b qs -> disjoint fr_end a b.
Proof.
  induction fuel as [|fuel IH]; intros ps qs Hp Hq Hlen H a b Ha Hb; [lia|].
  destruct ps as [|p ps']; [destruct Ha|]. destruct qs as [|q qs']; [destruct Hb|].
  cbn [overlap_sweep] in H.
  destruct (negb ((fr_end p <? fst q) || (fr_end q <? fst p))) eqn:E; [discriminate|].
  apply negb_false_iff, orb_true_iff in E.
  assert (Hpq : disjoint fr_end p q).
  { destruct E as [E|E]; apply Z.ltb_lt in E; [left|right]; exact E. }
  assert (Hpv : lo p <= fr_end p) by (apply (proj1 Hp); left; reflexivity).
  assert (Hqv : lo q <= fr_end q) by (apply (proj1 Hq); left; reflexivity).
  assert (Hp' : separated fr_end ps') by (apply (separated_skipn fr_end (p :: ps') 1 Hp)).
  assert (Hq' : separated fr_end qs') by (apply (separated_skipn fr_end (q :: qs') 1 Hq)).
  destruct (fst p <? fst q) eqn:E1.
  - apply Z.ltb_lt in E1.
    (* p lies entirely before q, hence before every later q' *)
    assert (Hbefore : forall b', In b' (q :: qs') -> disjoint fr_end p b').
    { intros b' [<-|Hb']; [exact Hpq|]. left.
      destruct (In_nth_error _ _ Hb') as [k Hk].
      pose proof (proj2 Hq 0%nat (S k) q b' ltac:(lia) eq_refl Hk) as Hlt.
      destruct Hpq as [Hd|Hd]; unfold lo in *; lia. }
    destruct Ha as [<-|Ha]; [exact (Hbefore b Hb)|].
    apply (IH ps' (q :: qs') Hp' Hq); [cbn in *; lia|exact H|exact Ha|exact Hb].
  - apply Z.ltb_ge in E1.
    assert (Hbefore : forall a', In a' (p :: ps') -> disjoint fr_end a' q).
    { intros a' [<-|Ha']; [exact Hpq|]. right.
      destruct (In_nth_error _ _ Ha') as [k Hk].
      pose proof (proj2 Hp 0%nat (S k) p a' ltac:(lia) eq_refl Hk) as Hlt.
      destruct Hpq as [Hd|Hd]; unfold lo in *; lia. }
    destruct Hb as [<-|Hb]; [exact (Hbefore a Ha)|].
    apply (IH (p :: ps') qs' Hp Hq'); [cbn in *; lia|exact H|exact Ha|exact Hb].
Qed.

Theorem ranges_no_overlap_spec : forall ms a b,
  field_ranges_ok ms a = true -> field_ranges_ok ms b = true -> ranges_no_overlap a b = true ->
  forall x y, In x a -> In y b -> disjoint fr_end x y.
Proof.
  intros ms a b Ha Hb H x y Hx Hy. unfold ranges_no_overlap in H.
  unfold field_ranges_ok in Ha, Hb.
  pose proof (chain_separated fr_end _ _ (proj1 (field_ranges_ok_chain _ _ _ Ha))) as Sa.
  pose proof (chain_separated fr_end _ _ (proj1 (field_ranges_ok_chain _ _ _ Hb))) as Sb.
  apply (overlap_sweep_spec _ _ _ Sa Sb) with (a := x) (b := y) in H.
  - exact H.
  - rewrite (Permutation_length (sort_perm a)), (Permutation_length (sort_perm b)). lia.
  - apply sort_in. exact Hx.
  - apply sort_in. exact Hy.
Qed.

(* ---------- consequences for accepted declarations *)
Definition msg_range_error (m : msg) : Prop :=
  (* an invalid range *)
  (exists r, In r (m_resranges m ++ m_extranges m) /\ ~ (1 <= fst r /\ fst r <= fr_end r /\ fr_end r <= 536870911)) \/
  (* the same range declared twice, or two overlapping ranges of the same kind *)
  ~ NoDup (m_resranges m) \/ ~ NoDup (m_extranges m) \/
  (exists a b, In a (m_resranges m) /\ In b (m_resranges m) /\ a <> b /\ ~ disjoint fr_end a b) \/
  (exists a b, In a (m_extranges m) /\ In b (m_extranges m) /\ a <> b /\ ~ disjoint fr_end a b) \/
  (* a reserved range overlapping an extension range *)
  (exists a b, In a (m_resranges m) /\ In b (m_extranges m) /\ ~ disjoint fr_end a b) \/
  (* a field numbered inside a reserved or an extension range *)
  (exists f r, In f (m_fields m) /\ In r (m_resranges m ++ m_extranges m) /\ fst r <= f_num f <= fr_end r).

Definition enum_range_error (e : enum) : Prop :=
  (exists r, In r (en_resranges e) /\ ~ fst r <= snd r) \/ ~ NoDup (en_resranges e) \/
  (exists a b, In a (en_resranges e) /\ In b (en_resranges e) /\ a <> b /\ ~ disjoint snd a b) \/
  (exists v r, In v (en_values e) /\ In r (en_resranges e) /\ fst r <= ev_number v <= snd r).

Theorem msg_local_ranges_sound : forall allow syntax t full m,
  msg_local false allow syntax t full m = Ok tt -> ~ msg_range_error m.
Proof.
  intros allow syntax t full m H. unfold msg_local in H.
  apply bind_check_ok in H. destruct H as [_ H].
  apply bind_check_ok in H. destruct H as [Hres H].
  apply bind_check_ok in H. destruct H as [Hext H].
  apply bind_check_ok in H. destruct H as [Hov H].
  apply bind_check_ok in H. destruct H as [_ H].
  apply bind_check_ok in H. destruct H as [Hms H].
  apply bind_check_ok in H. destruct H as [_ H].
  apply bind_check_ok in H. destruct H as [_ H].
  apply bind_ok in H. destruct H as [[] [Hfields _]].
  apply negb_false_iff in Hres, Hext, Hov.
  assert (Hnoms : m_msgset m = false) by (destruct (m_msgset m); [discriminate|reflexivity]).
  rewrite Hnoms in Hres, Hext.
  destruct (field_ranges_ok_spec _ _ Hres) as [R1 [R2 [R3 R4]]].
  destruct (field_ranges_ok_spec _ _ Hext) as [X1 [X2 [X3 X4]]].
  intros [E|[E|[E|[E|[E|[E|E]]]]]].
  - destruct E as [r [Hin Hbad]]. apply Hbad. apply in_app_or in Hin. destruct Hin as [Hin|Hin].
    + destruct (R1 r Hin) as [Ha Hb]. specialize (Hb eq_refl). lia.
    + destruct (X1 r Hin) as [Ha Hb]. specialize (Hb eq_refl). lia.
  - exact (E R2).
  - exact (E X2).
  - destruct E as [a [b [Ha [Hb [Hne Hnd]]]]]. exact (Hnd (R3 a b Ha Hb Hne)).
  - destruct E as [a [b [Ha [Hb [Hne Hnd]]]]]. exact (Hnd (X3 a b Ha Hb Hne)).
  - destruct E as [a [b [Ha [Hb Hnd]]]]. exact (Hnd (ranges_no_overlap_spec false _ _ Hres Hext Hov a b Ha Hb)).
  - destruct E as [f [r [Hf [Hr Hin]]]].
    pose proof (for_each_ok _ _ _ Hfields f Hf) as Hvf. unfold validate_field in Hvf. cbv zeta in Hvf.
    apply bind_check_ok in Hvf. destruct Hvf as [_ Hvf].
    apply bind_check_ok in Hvf. destruct Hvf as [_ Hvf].
    apply bind_check_ok in Hvf. destruct Hvf as [_ Hvf].
    apply bind_check_ok in Hvf. destruct Hvf as [Hnr Hvf].
    apply bind_check_ok in Hvf. destruct Hvf as [Hnx _].
    apply in_app_or in Hr. destruct Hr as [Hr|Hr].
    + assert (field_ranges_has (m_resranges m) (f_num f) = true) by (apply R4; exists r; auto). congruence.
    + assert (field_ranges_has (m_extranges m) (f_num f) = true) by (apply X4; exists r; auto). congruence.
Qed.

Theorem validate_enum_ranges_sound : forall syntax e,
  validate_enum syntax e = Ok tt -> ~ enum_range_error e.
Proof.
  intros syntax e H. unfold validate_enum in H.
  apply bind_check_ok in H. destruct H as [_ H].
  apply bind_check_ok in H. destruct H as [Hrr H].
  apply bind_check_ok in H. destruct H as [_ H].
  apply bind_check_ok in H. destruct H as [_ H].
  apply bind_check_ok in H. destruct H as [_ H].
  apply bind_ok in H. destruct H as [[] [_ Hvals]].
  apply negb_false_iff in Hrr.
  destruct (enum_ranges_ok_spec _ Hrr) as [R1 [R2 [R3 R4]]].
  intros [E|[E|[E|E]]].
  - destruct E as [r [Hin Hbad]]. exact (Hbad (R1 r Hin)).
  - exact (E R2).
  - destruct E as [a [b [Ha [Hb [Hne Hnd]]]]]. exact (Hnd (R3 a b Ha Hb Hne)).
  - destruct E as [v [r [Hv [Hr Hin]]]].
    pose proof (for_each_ok _ _ _ Hvals v Hv) as Hvv. cbn beta in Hvv.
    apply bind_check_ok in Hvv. destruct Hvv as [_ Hvv].
    apply bind_check_ok in Hvv. destruct Hvv as [_ Hvv].
    apply check_ok in Hvv.
    assert (enum_ranges_has (en_resranges e) (ev_number v) = true) by (apply R4; exists r; auto). congruence.
Qed.

Theorem validate_sound_ranges : forall allow f,
  validate false allow f = Accept ->
  (forall m, In m (file_msgs f) -> ~ msg_range_error m) /\
  (forall e, In e (file_enums f) -> ~ enum_range_error e).
Proof.
  intros allow f H. destruct (accept_structure false allow f H) as [Hm He]. split.
  - intros m Hin. destruct (Hm m Hin) as [[full Hloc] _]. exact (msg_local_ranges_sound _ _ _ _ _ Hloc).
  - intros e Hin. exact (validate_enum_ranges_sound _ _ (He e Hin)).
Qed.

Lemma ranges_examples :
  field_ranges_ok false [(50, 60); (10, 20); (30, 40)] = true /\
  field_ranges_ok false [(40, 50); (20, 30); (60, 70)] = true /\
  ranges_no_overlap [(50, 60); (10, 20); (30, 40)] [(40, 50); (20, 30); (60, 70)] = true /\
  ranges_no_overlap [(50, 60); (10, 20); (30, 40)] [(40, 50); (20, 31); (60, 70)] = false /\
  field_ranges_ok false [(10, 20); (19, 30)] = false /\
  field_ranges_has [(50, 60); (10, 20); (30, 40)] 39 = true /\
  field_ranges_has [(50, 60); (10, 20); (30, 40)] 40 = false.
Proof. repeat split; vm_compute; reflexivity. Qed.
