(* Proofs about the editions feature-resolution model (C38). *)
From Coq Require Import List NArith Bool Lia.
From PB Require Import Gen.EditionDefaults Desc.FeaturesModel.
Import ListNotations.
Open Scope N_scope.

(* ---------- one merge step, feature by feature *)
Lemma view_upd_presence : forall ft p o, view ft (upd_presence p o) =
  match ft, o with FPresence, Some v => interp FPresence v | _, _ => view ft p end.
Proof. intros ft p [v|]; destruct ft; reflexivity. Qed.
Lemma view_upd_enum : forall ft p o, view ft (upd_enum p o) =
  match ft, o with FEnum, Some v => interp FEnum v | _, _ => view ft p end.
Proof. intros ft p [v|]; destruct ft; reflexivity. Qed.
Lemma view_upd_repeated : forall ft p o, view ft (upd_repeated p o) =
  match ft, o with FRepeated, Some v => interp FRepeated v | _, _ => view ft p end.
Proof. intros ft p [v|]; destruct ft; reflexivity. Qed.
Lemma view_upd_utf8 : forall ft p o, view ft (upd_utf8 p o) =
  match ft, o with FUtf8, Some v => interp FUtf8 v | _, _ => view ft p end.
Proof. intros ft p [v|]; destruct ft; reflexivity. Qed.
Lemma view_upd_msgenc : forall ft p o, view ft (upd_msgenc p o) =
  match ft, o with FMsgEnc, Some v => interp FMsgEnc v | _, _ => view ft p end.
Proof. intros ft p [v|]; destruct ft; reflexivity. Qed.
Lemma view_upd_json : forall ft p o, view ft (upd_json p o) =
  match ft, o with FJson, Some v => interp FJson v | _, _ => view ft p end.
Proof. intros ft p [v|]; destruct ft; reflexivity. Qed.
Lemma view_upd_golegacy : forall ft p o, view ft (upd_golegacy p o) =
  match ft, o with FGoLegacy, Some v => interp FGoLegacy v | _, _ => view ft p end.
Proof. intros ft p [v|]; destruct ft; reflexivity. Qed.
Lemma view_upd_strip : forall ft p o, view ft (upd_strip p o) =
  match ft, o with FStrip, Some v => interp FStrip v | _, _ => view ft p end.
Proof. intros ft p [v|]; destruct ft; reflexivity. Qed.
Lemma view_upd_api : forall ft p o, view ft (upd_api p o) =
  match ft, o with FApi, Some v => interp FApi v | _, _ => view ft p end.
Proof. intros ft p [v|]; destruct ft; reflexivity. Qed.

Local Opaque upd_presence upd_enum upd_repeated upd_utf8 upd_msgenc upd_json upd_golegacy upd_strip upd_api view interp.
Lemma merge_view : forall ft p c,
  view ft (merge p c) = match ov_get ft c with Some v => interp ft v | None => view ft p end.
Proof.
  intros ft p c. unfold merge.
  destruct ft;
    repeat (first [rewrite view_upd_api | rewrite view_upd_strip | rewrite view_upd_golegacy
                  | rewrite view_upd_json | rewrite view_upd_msgenc | rewrite view_upd_utf8
                  | rewrite view_upd_repeated | rewrite view_upd_enum | rewrite view_upd_presence];
            cbv iota beta);
    cbn [ov_get];
    repeat match goal with |- context [match ?o with Some _ => _ | None => _ end] => destruct o end;
    reflexivity.
Qed.
Local Transparent upd_presence upd_enum upd_repeated upd_utf8 upd_msgenc upd_json upd_golegacy upd_strip upd_api view interp.

Lemma merge_empty : forall p, merge p ov_empty = p.
Proof. intros []; reflexivity. Qed.

(* fold_left facts with the step function abstract, so that the kernel never unfolds [merge] *)
Section Fold.
  Variables (S O W : Type) (V : Type) (mg : S -> O -> S) (get : O -> option V) (vw : S -> W) (itp : V -> W).
  Hypothesis step : forall p c, vw (mg p c) = match get c with Some v => itp v | None => vw p end.

  Lemma fold_unset : forall chain base,
    (forall o, In o chain -> get o = None) -> vw (fold_left mg chain base) = vw base.
  Proof.
    induction chain as [|o r IH]; intros base H; [reflexivity|].
    cbn [fold_left]. rewrite IH by (intros o' Ho'; apply H; right; exact Ho').
    rewrite step, (H o) by (left; reflexivity). reflexivity.
  Qed.

  Lemma fold_nearest : forall pre o post base v,
    get o = Some v -> (forall o', In o' post -> get o' = None) ->
    vw (fold_left mg (pre ++ o :: post) base) = itp v.
  Proof.
    intros pre o post base v Ho Hpost.
    rewrite fold_left_app. cbn [fold_left].
    rewrite fold_unset by exact Hpost. rewrite step, Ho. reflexivity.
  Qed.
End Fold.

Lemma resolve_from_app : forall base l1 l2,
  resolve_from base (l1 ++ l2) = resolve_from (resolve_from base l1) l2.
Proof. intros; unfold resolve_from; apply fold_left_app. Qed.

Lemma resolve_from_unset : forall ft chain base,
  (forall o, In o chain -> ov_get ft o = None) ->
  view ft (resolve_from base chain) = view ft base.
Proof.
  intros ft chain base H. unfold resolve_from.
  exact (fold_unset efeat ovset fview N merge (ov_get ft) (view ft) (interp ft) (merge_view ft) chain base H).
Qed.

Lemma resolve_from_nearest : forall ft pre o post base v,
  ov_get ft o = Some v ->
  (forall o', In o' post -> ov_get ft o' = None) ->
  view ft (resolve_from base (pre ++ o :: post)) = interp ft v.
Proof.
  intros ft pre o post base v Ho Hpost. unfold resolve_from.
  exact (fold_nearest efeat ovset fview N merge (ov_get ft) (view ft) (interp ft) (merge_view ft) pre o post base v Ho Hpost).
Qed.

Lemma fold_left_repeat_id : forall (A B : Type) (f : A -> B -> A) (b : B) n a,
  (forall a, f a b = a) -> fold_left f (repeat b n) a = a.
Proof.
  intros A B f b n; induction n as [|n IH]; intros a H; [reflexivity|].
  cbn [repeat fold_left]. rewrite H. apply IH, H.
Qed.

Lemma resolve_from_empties : forall n base, resolve_from base (repeat ov_empty n) = base.
Proof. intros; unfold resolve_from; apply fold_left_repeat_id, merge_empty. Qed.

(* ---------- the generated defaults table (Tier T): facts by computation *)
Definition supported (ed : N) : bool := (ed =? 998) || (ed =? 999) || (ed =? 1000) || (ed =? 1001) || (ed =? 9999).

Definition all_set (o : ovset) : bool := forallb (fun ft => match ov_get ft o with Some _ => true | None => false end) all_feats.

Lemma supported_cases : forall ed, supported ed = true -> ed = 998 \/ ed = 999 \/ ed = 1000 \/ ed = 1001 \/ ed = 9999.
Proof.
  intros ed H. unfold supported in H.
  repeat (apply orb_true_iff in H; destruct H as [H|H]); apply N.eqb_eq in H; auto 6.
Qed.

Lemma defaults_supported : forall ed, supported ed = true ->
  exists d, defaults_for ed = DOk d /\ all_set d = true.
Proof.
  intros ed H. destruct (supported_cases ed H) as [->|[->|[->|[->| ->]]]];
    eexists; (split; [vm_compute; reflexivity | vm_compute; reflexivity]).
Qed.

Lemma all_set_get : forall d ft, all_set d = true -> exists v, ov_get ft d = Some v.
Proof.
  intros d ft H. unfold all_set in H. rewrite forallb_forall in H.
  specialize (H ft). assert (Hin : In ft all_feats) by (destruct ft; cbn; auto 12).
  specialize (H Hin). destruct (ov_get ft d); [eauto|discriminate].
Qed.

(* fixed_features and overridable_features never set the same feature, so the order in
   which the two runtimes (protodesc: fixed then overridable; filedesc: wire order) apply
   them is immaterial *)
Definition row_disjoint (r : N * (list (N * N) * list (N * N))) : bool :=
  forallb (fun p => negb (existsb (fun q => fst p =? fst q) (snd (snd r)))) (fst (snd r)).
Lemma defaults_fixed_overridable_disjoint : forallb row_disjoint edition_defaults = true.
Proof. vm_compute; reflexivity. Qed.

(* every feature number in the table is one the runtime knows (filedesc.unmarshalFeatureSet
   panics on others) *)
Definition known_num (n : N) : bool :=
  (1 <=? n) && (n <=? 8) || (100201 <=? n) && (n <=? 100203).
Lemma defaults_fields_known :
  forallb (fun r => forallb (fun p => known_num (fst p)) (fst (snd r) ++ snd (snd r))) edition_defaults = true.
Proof. vm_compute; reflexivity. Qed.

(* unknown editions: the panic / exit behind finding F10 *)
Lemma defaults_unknown_edition_panics : defaults_for 99999 = DPanic.
Proof. vm_compute; reflexivity. Qed.
Lemma defaults_edition_zero_exits : defaults_for 0 = DExit.
Proof. vm_compute; reflexivity. Qed.

(* ---------- main theorem *)
Theorem resolve_nearest_override : forall ed chain ft,
  supported ed = true ->
  exists e d dv,
    resolve ed chain = Some e /\ defaults_for ed = DOk d /\ ov_get ft d = Some dv /\
    (* no ancestor-or-self sets it: the edition default *)
    ((forall o, In o chain -> ov_get ft o = None) -> view ft e = interp ft dv) /\
    (* otherwise: the nearest (last on the path file -> ... -> leaf) explicit setting *)
    (forall pre o post v, chain = pre ++ o :: post -> ov_get ft o = Some v ->
        (forall o', In o' post -> ov_get ft o' = None) -> view ft e = interp ft v).
Proof.
  intros ed chain ft Hs.
  destruct (defaults_supported ed Hs) as [d [Hd Hall]].
  destruct (all_set_get d ft Hall) as [dv Hdv].
  exists (resolve_from (merge ef_zero d) chain), d, dv.
  unfold resolve; rewrite Hd. repeat split; auto.
  - intros Hnone. rewrite resolve_from_unset by exact Hnone. rewrite merge_view, Hdv. reflexivity.
  - intros pre o post v -> Ho Hpost. apply resolve_from_nearest; assumption.
Qed.

(* the explicit [packed] option of a field is nearer than any feature *)
Lemma field_packed_option_wins : forall legacy syntax parent own fi b,
  fi_packedopt fi = Some b ->
  fr_packed (field_record legacy syntax parent own fi)
  = (fr_card (field_record legacy syntax parent own fi) =? 3)
    && negb (kind_unpackable (fr_kind (field_record legacy syntax parent own fi))) && b.
Proof. intros legacy syntax parent own fi b H. unfold field_record. rewrite H. reflexivity. Qed.

Lemma field_packed_feature : forall legacy syntax parent own fi,
  fi_packedopt fi = None ->
  fr_packed (field_record legacy syntax parent own fi)
  = (fr_card (field_record legacy syntax parent own fi) =? 3)
    && negb (kind_unpackable (fr_kind (field_record legacy syntax parent own fi))) && ef_packed (merge parent own).
Proof. intros legacy syntax parent own fi H. unfold field_record. rewrite H. reflexivity. Qed.

(* ---------- proto2 / proto3 are exactly their editions translation *)
Definition E_proto2 : efeat := mkEfeat 1 true false false false false false false true 0.
Definition E_proto3 : efeat := mkEfeat 1 false false true true true false true false 0.

Lemma file_features_proto2 : resolve 998 [ov_empty] = Some E_proto2.
Proof. vm_compute; reflexivity. Qed.
Lemma file_features_proto3 : resolve 999 [ov_empty] = Some E_proto3.
Proof. vm_compute; reflexivity. Qed.
Lemma file_features_proto2_editions : resolve 1000 [p2_file_ov] = Some E_proto2.
Proof. vm_compute; reflexivity. Qed.
Lemma file_features_proto3_editions : resolve 1000 [p3_file_ov] = Some E_proto3.
Proof. vm_compute; reflexivity. Qed.

Lemma resolve_cons_empties : forall ed o n e,
  resolve ed [o] = Some e -> resolve ed (o :: repeat ov_empty n) = Some e.
Proof.
  intros ed o n e. unfold resolve. destruct (defaults_for ed); try discriminate.
  intros H; injection H as <-. f_equal.
  change (o :: repeat ov_empty n) with ([o] ++ repeat ov_empty n).
  rewrite resolve_from_app, resolve_from_empties. reflexivity.
Qed.

(* messages carry no overrides in a translated legacy file: the parent of every leaf has
   the file's features, at any nesting depth *)
Theorem legacy_file_features : forall n,
  resolve 998 (ov_empty :: repeat ov_empty n) = Some E_proto2 /\
  resolve 1000 (p2_file_ov :: repeat ov_empty n) = Some E_proto2 /\
  resolve 999 (ov_empty :: repeat ov_empty n) = Some E_proto3 /\
  resolve 1000 (p3_file_ov :: repeat ov_empty n) = Some E_proto3.
Proof.
  intros n; repeat split; apply resolve_cons_empties;
    [apply file_features_proto2 | apply file_features_proto2_editions
    | apply file_features_proto3 | apply file_features_proto3_editions].
Qed.

(* [merge] is never unfolded symbolically (each update mentions its argument ten times);
   the case analysis first makes every feature set closed, then conversion computes. *)
Ltac unfold_field :=
  unfold field_record, p2_field_ov, p2_field_tr, p3_field_ov, p3_field_tr, kind_is_msg, kind_unpackable;
  cbn [fi_label fi_type fi_packedopt fi_in_oneof fi_is_ext fi_mapish].
Ltac split_eqb :=
  repeat match goal with
  | |- context [N.eqb ?a ?b] => is_var a; let E := fresh "E" in
      destruct (N.eqb a b) eqn:E; [apply N.eqb_eq in E; subst a|]
  end.
Ltac rw_eqb :=
  repeat match goal with E : N.eqb ?a ?b = false |- context [N.eqb ?a ?b] => rewrite E end.
Ltac eval_closed :=
  repeat match goal with
  | |- context [N.eqb ?a ?b] =>
      let v := eval vm_compute in (N.eqb a b) in
      lazymatch v with
      | true => change (N.eqb a b) with true
      | false => change (N.eqb a b) with false
      end
  end.
Ltac step := split_eqb; rw_eqb; eval_closed; cbv -[N.eqb].
Ltac go := step; step; step; step; repeat split; reflexivity.

Theorem proto2_field_equivalence : forall legacy fi,
  (fi_is_ext fi = true -> fi_label fi <> 2) ->
  field_record legacy 2 E_proto2 ov_empty fi
  = field_record legacy 4 E_proto2 (p2_field_ov fi) (p2_field_tr fi).
Proof.
  intros legacy [lab ty po oo ext mp] Hext; cbn [fi_is_ext fi_label] in Hext.
  unfold_field.
  destruct (N.eqb_spec lab 2) as [->|Hl].
  - destruct ext; [exfalso; apply Hext; reflexivity|].
    destruct po as [[|]|], oo, mp, legacy; go.
  - destruct po as [[|]|], oo, mp, legacy, ext; go.
Qed.

Theorem proto3_field_equivalence : forall legacy p3opt fi,
  fi_is_ext fi = false ->
  (p3opt = true -> fi_in_oneof fi = true /\ fi_label fi = 1) ->
  field_record legacy 3 E_proto3 ov_empty fi
  = field_record legacy 4 E_proto3 (p3_field_ov p3opt fi) (p3_field_tr p3opt fi).
Proof.
  intros legacy p3opt [lab ty po oo ext mp] Hext Hp3; cbn [fi_is_ext fi_label fi_in_oneof] in *.
  subst ext. unfold_field.
  destruct p3opt.
  - destruct (Hp3 eq_refl) as [-> ->].
    destruct po as [[|]|], mp, legacy; go.
  - destruct po as [[|]|], oo, mp, legacy; go.
Qed.

(* extensions: everything but the UTF-8 bit (strs.EnforceUTF8 only consults the feature for
   filedesc.Field, so an extension in an editions file never enforces UTF-8, whereas the same
   extension in a proto3 file does) *)
Theorem proto3_extension_equivalence_partial : forall legacy fi,
  fi_is_ext fi = true ->
  let a := field_record legacy 3 E_proto3 ov_empty fi in
  let b := field_record legacy 4 E_proto3 (p3_field_ov false fi) (p3_field_tr false fi) in
  fr_card a = fr_card b /\ fr_kind a = fr_kind b /\ fr_presence a = fr_presence b /\ fr_packed a = fr_packed b.
Proof.
  intros legacy [lab ty po oo ext mp] Hext; cbn [fi_is_ext] in Hext; subst ext.
  unfold_field.
  destruct po as [[|]|]; go.
Qed.

Lemma proto3_extension_utf8_differs :
  exists fi, fi_is_ext fi = true /\
    fr_utf8 (field_record false 3 E_proto3 ov_empty fi) = true /\
    fr_utf8 (field_record false 4 E_proto3 (p3_field_ov false fi) (p3_field_tr false fi)) = false.
Proof. exists (mkFieldIn 1 9 None false true false). repeat split. Qed.

(* enums *)
Lemma legacy_enum_closedness :
  enum_closed E_proto2 = true /\ enum_closed E_proto3 = false.
Proof. split; reflexivity. Qed.

(* ---------- the codec sees only the resolved record *)
Section Codec.
  Context {Out : Type}.
  Variable codec : fieldrec -> Out.    (* any wire / JSON / text behaviour written over the resolved field record *)
  Lemma codec_depends_only_on_resolved : forall legacy s1 s2 p1 p2 o1 o2 f1 f2,
    field_record legacy s1 p1 o1 f1 = field_record legacy s2 p2 o2 f2 ->
    codec (field_record legacy s1 p1 o1 f1) = codec (field_record legacy s2 p2 o2 f2).
  Proof. intros; f_equal; assumption. Qed.
End Codec.
