(* RegistryMsgP — findDescriptorInMessage finds exactly the declarations nested in a
   (well-formed) message: soundness and completeness of [find_in_msg] w.r.t. [decls_in_msg]. *)
From Coq Require Import List Arith Bool Lia.
From PB Require Import Desc.RegistryModel Desc.RegistryBaseP.
Import ListNotations.

(* ---------------------------------------------------------------- induction on message trees *)
Section MsgInd.
  Variable P : msg_decl -> Prop.
  Hypothesis H : forall n msgs enums exts fields oneofs,
      Forall P msgs -> P (MsgDecl n msgs enums exts fields oneofs).
  Fixpoint msg_decl_ind' (m : msg_decl) : P m :=
    match m with
    | MsgDecl n msgs enums exts fields oneofs =>
        H n msgs enums exts fields oneofs
          ((fix go (l : list msg_decl) : Forall P l :=
              match l with
              | [] => Forall_nil _
              | x :: r => Forall_cons x (msg_decl_ind' x) (go r)
              end) msgs)
    end.
End MsgInd.

(* ---------------------------------------------------------------- first_msg_named *)
Lemma first_msg_named_some {A} (f : msg_decl -> option A) nm l a :
  first_msg_named f nm l = Some a -> exists m', In m' l /\ msg_name m' = nm /\ f m' = Some a.
Proof.
  induction l as [|m l IH]; cbn [first_msg_named]; [discriminate|].
  destruct (name_eqb (msg_name m) nm) eqn:E.
  - intros Hf. apply name_eqb_eq in E. exists m. repeat split; [now left | assumption | assumption].
  - intros Hf. destruct (IH Hf) as (m' & Hi & Hn & Hf'). exists m'. repeat split; [now right | assumption | assumption].
Qed.

Lemma first_msg_named_nodup {A} (f : msg_decl -> option A) l m' :
  NoDup (map msg_name l) -> In m' l -> first_msg_named f (msg_name m') l = f m'.
Proof.
  induction l as [|m l IH]; cbn [first_msg_named map]; [intros _ []|].
  intros Hnd. inversion Hnd as [|? ? Hn Hd]; subst. intros [->|Hi].
  - now rewrite name_eqb_refl.
  - destruct (name_eqb (msg_name m) (msg_name m')) eqn:E.
    + apply name_eqb_eq in E. exfalso. apply Hn. rewrite E. now apply in_map.
    + auto.
Qed.

(* ---------------------------------------------------------------- lookups at the last component *)
Definition scope_lookup (enums : list enum_decl) (exts fields oneofs : list name) (c : name) : option kind :=
  if existsb (fun e => name_eqb (enum_name e) c) enums then Some KEnum
  else if existsb (fun e => mem_name c (enum_values e)) (rev enums) then Some KEnumVal
  else if mem_name c exts then Some KExt
  else if mem_name c fields then Some KField
  else if mem_name c oneofs then Some KOneof
  else None.

Lemma enum_named_in enums c :
  existsb (fun e => name_eqb (enum_name e) c) enums = true <-> In c (map enum_name enums).
Proof.
  rewrite existsb_exists, in_map_iff. split.
  - intros (e & He & E). apply name_eqb_eq in E. now exists e.
  - intros (e & E & He). exists e. split; [assumption | now apply name_eqb_eq].
Qed.

Lemma enum_value_in enums c :
  existsb (fun e => mem_name c (enum_values e)) (rev enums) = true <-> In c (flat_map enum_values enums).
Proof.
  rewrite existsb_exists, in_flat_map. split.
  - intros (e & He & E). apply in_rev in He. apply mem_name_in in E. now exists e.
  - intros (e & He & E). exists e. split; [now apply in_rev in He | now apply mem_name_in].
Qed.

Lemma find_in_msg_last fid full n msgs enums exts fields oneofs c :
  ~ In dotb c ->
  find_in_msg fid full (MsgDecl n msgs enums exts fields oneofs) c =
  match scope_lookup enums exts fields oneofs c with
  | Some k => Some (Desc k fid (fn_append full c))
  | None => first_msg_named (fun _ => Some (Desc KMsg fid (fn_append full c))) c msgs
  end.
Proof.
  intros Hc. cbn [find_in_msg]. rewrite pop_nodot by assumption. cbn [fst snd is_nil].
  unfold scope_lookup.
  destruct (existsb (fun e => name_eqb (enum_name e) c) enums); [reflexivity|].
  destruct (existsb (fun e => mem_name c (enum_values e)) (rev enums)); [reflexivity|].
  destruct (mem_name c exts); [reflexivity|].
  destruct (mem_name c fields); [reflexivity|].
  destruct (mem_name c oneofs); reflexivity.
Qed.

Lemma find_in_msg_deeper fid full n msgs enums exts fields oneofs c x :
  ~ In dotb c -> x <> [] ->
  find_in_msg fid full (MsgDecl n msgs enums exts fields oneofs) (c ++ dotb :: x) =
  first_msg_named (fun m' => find_in_msg fid (fn_append full c) m' x) c msgs.
Proof.
  intros Hc Hx. cbn [find_in_msg]. rewrite pop_app by assumption. cbn [fst snd].
  destruct x as [|b x]; [contradiction|]. cbn [is_nil]. reflexivity.
Qed.

(* membership in a right-nested append *)
Ltac in_app :=
  solve [ assumption
        | apply in_or_app; left; in_app
        | apply in_or_app; right; in_app ].

Lemma NoDup_app_disj {A} (a b : list A) x : NoDup (a ++ b) -> In x a -> In x b -> False.
Proof. intros H. destruct (NoDup_app_inv a b H) as (_ & _ & Hd). apply Hd. Qed.

Lemma NoDup_app_r {A} (a b : list A) : NoDup (a ++ b) -> NoDup b.
Proof. intros H. now destruct (NoDup_app_inv a b H) as (_ & Hb & _). Qed.

Section Scope.
  Variables (enums : list enum_decl) (exts fields oneofs : list name) (msgs : list msg_decl).
  Let A := map enum_name enums.
  Let B := flat_map enum_values enums.
  Let F := map msg_name msgs.
  Hypothesis ND : NoDup (A ++ B ++ exts ++ fields ++ oneofs ++ F).

  Let ND2 : NoDup (B ++ exts ++ fields ++ oneofs ++ F) := NoDup_app_r _ _ ND.
  Let ND3 : NoDup (exts ++ fields ++ oneofs ++ F) := NoDup_app_r _ _ ND2.
  Let ND4 : NoDup (fields ++ oneofs ++ F) := NoDup_app_r _ _ ND3.
  Let ND5 : NoDup (oneofs ++ F) := NoDup_app_r _ _ ND4.

  Lemma sl_enum c : In c A -> scope_lookup enums exts fields oneofs c = Some KEnum.
  Proof. intros H. unfold scope_lookup. apply enum_named_in in H. now rewrite H. Qed.

  Lemma not_A c : In c (B ++ exts ++ fields ++ oneofs ++ F) ->
    existsb (fun e => name_eqb (enum_name e) c) enums = false.
  Proof.
    intros H. destruct (existsb _ enums) eqn:E; [|reflexivity].
    apply enum_named_in in E. exfalso. exact (NoDup_app_disj _ _ c ND E H).
  Qed.

  Lemma not_B c : In c (exts ++ fields ++ oneofs ++ F) ->
    existsb (fun e => mem_name c (enum_values e)) (rev enums) = false.
  Proof.
    intros H. destruct (existsb _ (rev enums)) eqn:E; [|reflexivity].
    apply enum_value_in in E. exfalso. exact (NoDup_app_disj _ _ c ND2 E H).
  Qed.

  Lemma not_C c : In c (fields ++ oneofs ++ F) -> mem_name c exts = false.
  Proof.
    intros H. apply mem_name_false. intros E. exact (NoDup_app_disj _ _ c ND3 E H).
  Qed.

  Lemma not_D c : In c (oneofs ++ F) -> mem_name c fields = false.
  Proof.
    intros H. apply mem_name_false. intros E. exact (NoDup_app_disj _ _ c ND4 E H).
  Qed.

  Lemma not_E c : In c F -> mem_name c oneofs = false.
  Proof.
    intros H. apply mem_name_false. intros E. exact (NoDup_app_disj _ _ c ND5 E H).
  Qed.

  Lemma sl_value c : In c B -> scope_lookup enums exts fields oneofs c = Some KEnumVal.
  Proof.
    intros H. unfold scope_lookup. rewrite not_A by in_app.
    apply enum_value_in in H. now rewrite H.
  Qed.

  Lemma sl_ext c : In c exts -> scope_lookup enums exts fields oneofs c = Some KExt.
  Proof.
    intros H. unfold scope_lookup. rewrite not_A by in_app. rewrite not_B by in_app.
    apply mem_name_in in H. now rewrite H.
  Qed.

  Lemma sl_field c : In c fields -> scope_lookup enums exts fields oneofs c = Some KField.
  Proof.
    intros H. unfold scope_lookup. rewrite not_A by in_app. rewrite not_B by in_app.
    rewrite not_C by in_app. apply mem_name_in in H. now rewrite H.
  Qed.

  Lemma sl_oneof c : In c oneofs -> scope_lookup enums exts fields oneofs c = Some KOneof.
  Proof.
    intros H. unfold scope_lookup. rewrite not_A by in_app. rewrite not_B by in_app.
    rewrite not_C by in_app. rewrite not_D by in_app. apply mem_name_in in H. now rewrite H.
  Qed.

  Lemma sl_msg c : In c F -> scope_lookup enums exts fields oneofs c = None.
  Proof.
    intros H. unfold scope_lookup. rewrite not_A by in_app. rewrite not_B by in_app.
    rewrite not_C by in_app. rewrite not_D by in_app. rewrite not_E by in_app. reflexivity.
  Qed.

  Lemma ND_msgs : NoDup F.
  Proof. exact (NoDup_app_r _ _ ND5). Qed.
End Scope.

(* ---------------------------------------------------------------- soundness *)
Lemma find_in_msg_sound fid : forall m full suffix d,
  find_in_msg fid full m suffix = Some d ->
  d_fid d = fid /\ In (d_kind d, d_full d) (decls_in_msg full m).
Proof.
  induction m as [n msgs enums exts fields oneofs IH] using msg_decl_ind'.
  intros full suffix d. cbn [find_in_msg decls_in_msg].
  set (nm := fst (pop suffix)). set (rest := snd (pop suffix)). set (child := fn_append full nm).
  intros H.
  destruct (is_nil rest) eqn:Er; cbv iota in H.
  - destruct (existsb (fun e => name_eqb (enum_name e) nm) enums) eqn:E1.
    { inversion H; subst d; cbn [d_fid d_kind d_full]. split; [reflexivity|].
      apply existsb_exists in E1. destruct E1 as (e & He & En). apply name_eqb_eq in En.
      apply in_or_app; left. apply in_flat_map. exists e. split; [assumption|].
      left. unfold child. now rewrite En. }
    destruct (existsb (fun e => mem_name nm (enum_values e)) (rev enums)) eqn:E2.
    { inversion H; subst d; cbn [d_fid d_kind d_full]. split; [reflexivity|].
      apply existsb_exists in E2. destruct E2 as (e & He & Hv). apply in_rev in He. apply mem_name_in in Hv.
      apply in_or_app; left. apply in_flat_map. exists e. split; [assumption|].
      right. apply in_map_iff. exists nm. split; [reflexivity | assumption]. }
    destruct (mem_name nm exts) eqn:E3.
    { inversion H; subst d; cbn [d_fid d_kind d_full]. split; [reflexivity|]. apply mem_name_in in E3.
      apply in_or_app; right. apply in_or_app; left. apply in_map_iff. exists nm. split; [reflexivity | assumption]. }
    destruct (mem_name nm fields) eqn:E4.
    { inversion H; subst d; cbn [d_fid d_kind d_full]. split; [reflexivity|]. apply mem_name_in in E4.
      apply in_or_app; right. apply in_or_app; right. apply in_or_app; left.
      apply in_map_iff. exists nm. split; [reflexivity | assumption]. }
    destruct (mem_name nm oneofs) eqn:E5.
    { inversion H; subst d; cbn [d_fid d_kind d_full]. split; [reflexivity|]. apply mem_name_in in E5.
      apply in_or_app; right. apply in_or_app; right. apply in_or_app; right. apply in_or_app; left.
      apply in_map_iff. exists nm. split; [reflexivity | assumption]. }
    apply first_msg_named_some in H. destruct H as (m' & Hm' & En & Hf).
    inversion Hf; subst d; cbn [d_fid d_kind d_full]. split; [reflexivity|].
    apply in_or_app; right. apply in_or_app; right. apply in_or_app; right. apply in_or_app; right.
    apply in_flat_map. exists m'. split; [assumption|]. left. unfold child. now rewrite En.
  - apply first_msg_named_some in H. destruct H as (m' & Hm' & En & Hf).
    rewrite Forall_forall in IH. destruct (IH m' Hm' _ _ _ Hf) as [Hfid Hin]. split; [assumption|].
    apply in_or_app; right. apply in_or_app; right. apply in_or_app; right. apply in_or_app; right.
    apply in_flat_map. exists m'. split; [assumption|]. right. rewrite En. exact Hin.
Qed.

(* ---------------------------------------------------------------- completeness *)
Lemma find_in_msg_complete fid : forall m full k nn,
  wf_msg m = true -> full <> [] -> In (k, nn) (decls_in_msg full m) ->
  exists x, x <> [] /\ nn = full ++ dotb :: x /\ find_in_msg fid full m x = Some (Desc k fid nn).
Proof.
  induction m as [n msgs enums exts fields oneofs IH] using msg_decl_ind'.
  intros full k nn Hwf Hfull Hin.
  cbn [wf_msg msg_scope_names] in Hwf.
  apply andb_true_iff in Hwf. destruct Hwf as [Hwf Hsub].
  apply andb_true_iff in Hwf. destruct Hwf as [Hwf Hnd].
  apply andb_true_iff in Hwf. destruct Hwf as [_ Hval].
  apply nodupb_NoDup in Hnd. rewrite forallb_forall in Hval, Hsub.
  assert (V : forall c, In c (map enum_name enums ++ flat_map enum_values enums ++ exts ++ fields ++ oneofs ++ map msg_name msgs) ->
                        c <> [] /\ ~ In dotb c).
  { intros c Hc. apply valid_ident_spec. now apply Hval. }
  (* a name [c] of the scope, looked up as the last component *)
  assert (Last : forall c kk,
             In c (map enum_name enums ++ flat_map enum_values enums ++ exts ++ fields ++ oneofs ++ map msg_name msgs) ->
             scope_lookup enums exts fields oneofs c = Some kk ->
             exists x, x <> [] /\ fn_append full c = full ++ dotb :: x /\
                       find_in_msg fid full (MsgDecl n msgs enums exts fields oneofs) x = Some (Desc kk fid (fn_append full c))).
  { intros c kk Hc Hl. destruct (V c Hc) as [Hc1 Hc2]. exists c. repeat split.
    - assumption.
    - now apply fn_append_cons.
    - rewrite find_in_msg_last by assumption. now rewrite Hl. }
  cbn [decls_in_msg] in Hin.
  apply in_app_or in Hin. destruct Hin as [Hin|Hin].
  { (* enums and their values *)
    apply in_flat_map in Hin. destruct Hin as (e & He & Hin). destruct Hin as [Hin|Hin].
    - inversion Hin; subst k nn. apply Last.
      + apply in_or_app; left. now apply in_map.
      + apply sl_enum. now apply in_map.
    - apply in_map_iff in Hin. destruct Hin as (v & E & Hv). inversion E; subst k nn.
      assert (Hb : In v (flat_map enum_values enums)) by (apply in_flat_map; now exists e).
      apply Last.
      + in_app.
      + now apply (sl_value enums exts fields oneofs msgs Hnd). }
  apply in_app_or in Hin. destruct Hin as [Hin|Hin].
  { apply in_map_iff in Hin. destruct Hin as (v & E & Hv). inversion E; subst k nn.
    apply Last; [in_app | now apply (sl_ext enums exts fields oneofs msgs Hnd)]. }
  apply in_app_or in Hin. destruct Hin as [Hin|Hin].
  { apply in_map_iff in Hin. destruct Hin as (v & E & Hv). inversion E; subst k nn.
    apply Last; [in_app | now apply (sl_field enums exts fields oneofs msgs Hnd)]. }
  apply in_app_or in Hin. destruct Hin as [Hin|Hin].
  { apply in_map_iff in Hin. destruct Hin as (v & E & Hv). inversion E; subst k nn.
    apply Last; [in_app | now apply (sl_oneof enums exts fields oneofs msgs Hnd)]. }
  (* nested messages *)
  apply in_flat_map in Hin. destruct Hin as (m' & Hm' & Hin).
  assert (Hc : In (msg_name m') (map enum_name enums ++ flat_map enum_values enums ++ exts ++ fields ++ oneofs ++ map msg_name msgs)).
  { repeat (apply in_or_app; right). now apply in_map. }
  destruct (V _ Hc) as [Hc1 Hc2].
  assert (HF : In (msg_name m') (map msg_name msgs)) by now apply in_map.
  pose proof (ND_msgs enums exts fields oneofs msgs Hnd) as NDm.
  destruct Hin as [Hin|Hin].
  - inversion Hin; subst k nn. exists (msg_name m'). repeat split.
    + assumption.
    + now apply fn_append_cons.
    + rewrite find_in_msg_last by assumption.
      rewrite (sl_msg enums exts fields oneofs msgs Hnd) by assumption.
      now rewrite first_msg_named_nodup.
  - rewrite Forall_forall in IH.
    assert (Hfull' : fn_append full (msg_name m') <> []) by now apply fn_append_nonnil.
    destruct (IH m' Hm' _ _ _ (Hsub m' Hm') Hfull' Hin) as (x & Hx & En & Hf).
    exists (msg_name m' ++ dotb :: x). repeat split.
    + destruct (msg_name m'); discriminate.
    + rewrite En. rewrite fn_append_cons by assumption. rewrite <- app_assoc. reflexivity.
    + rewrite find_in_msg_deeper by assumption.
      rewrite first_msg_named_nodup by assumption. exact Hf.
Qed.
