(* Proofs about the import-visibility model (C35). *)
From Coq Require Import List Arith Bool Lia.
From PB Require Import Desc.VisibleModel.
Import ListNotations.

(* reachable through one or more PUBLIC import edges *)
Inductive pub_reach (g : graph) : nat -> nat -> Prop :=
  | pr_step : forall i j, In (j, true) (imports_of g i) -> pub_reach g i j
  | pr_trans : forall i j k, In (j, true) (imports_of g i) -> pub_reach g j k -> pub_reach g i k.

(* the rule: the file itself, a direct import, or reachable from a direct import through
   public edges only *)
Definition visible (g : graph) (a f : nat) : Prop :=
  f = a \/ (exists p, In (f, p) (imports_of g a)) \/
  (exists d p, In (d, p) (imports_of g a) /\ pub_reach g d f).

(* everything importPublic adds is a public import of the list, or publicly reachable from one *)
Lemma import_public_sound : forall g fuel imps acc x,
  In x (import_public fuel g imps acc) ->
  In x acc \/ exists j, In (j, true) imps /\ (x = j \/ pub_reach g j x).
Proof.
  intros g fuel. induction fuel as [|fuel IH]; intros imps acc x H; [left; exact H|].
  cbn [import_public] in H. revert acc H.
  induction imps as [|[j p] imps IHi]; intros acc H; [left; exact H|].
  cbn [fold_left fst snd] in H. apply IHi in H. destruct H as [H|[j' [Hj' Hx]]].
  - destruct p.
    + apply IH in H. destruct H as [[Hjx|H]|[k [Hk Hx]]].
      * right. exists j. split; [left; reflexivity|left; symmetry; exact Hjx].
      * left. exact H.
      * right. exists j. split; [left; reflexivity|]. right.
        destruct Hx as [->|Hx]; [apply pr_step; exact Hk|eapply pr_trans; [exact Hk|exact Hx]].
    + left. exact H.
  - right. exists j'. split; [right; exact Hj'|exact Hx].
Qed.

Theorem visible_b_sound : forall g a f, visible_b g a f = true -> visible g a f.
Proof.
  intros g a f H. unfold visible_b in H. apply existsb_exists in H. destruct H as [x [Hin Hx]].
  apply Nat.eqb_eq in Hx. subst x. unfold import_set in Hin.
  assert (Hgen : forall ds acc,
            (forall d, In d ds -> exists p, In (d, p) (imports_of g a)) ->
            In f (fold_left (fun acc d => import_public (length g) g (imports_of g d) acc) ds acc) ->
            In f acc \/ exists d p, In (d, p) (imports_of g a) /\ pub_reach g d f).
  { induction ds as [|d ds IHd]; intros acc Hds H; [left; exact H|].
    cbn [fold_left] in H. apply IHd in H; [|intros d' Hd'; apply Hds; right; exact Hd'].
    destruct H as [H|H]; [|right; exact H].
    apply import_public_sound in H. destruct H as [H|[j [Hj Hx]]]; [left; exact H|].
    right. destruct (Hds d (or_introl eq_refl)) as [p Hp]. exists d, p. split; [exact Hp|].
    destruct Hx as [->|Hx]; [apply pr_step; exact Hj|eapply pr_trans; [exact Hj|exact Hx]]. }
  apply Hgen in Hin.
  - destruct Hin as [Hin|Hin]; [|right; right; exact Hin].
    apply in_app_or in Hin. destruct Hin as [Hin|[<-|[]]]; [|left; reflexivity].
    apply in_rev in Hin. apply in_map_iff in Hin. destruct Hin as [[d p] [<- Hd]]. right. left. exists p. exact Hd.
  - intros d Hd. apply in_map_iff in Hd. destruct Hd as [[d' p] [<- Hd]]. exists p. exact Hd.
Qed.

(* the file itself and its direct imports are always visible *)
Lemma visible_b_self : forall g a, visible_b g a a = true.
Proof.
  intros g a. unfold visible_b, import_set. apply existsb_exists. exists a. split; [|apply Nat.eqb_refl].
  assert (Hmono : forall fuel imps acc x, In x acc -> In x (import_public fuel g imps acc)).
  { induction fuel as [|fuel IH]; intros imps acc x H; [exact H|]. cbn [import_public]. revert acc H.
    induction imps as [|[j p] imps IHi]; intros acc H; [exact H|]. cbn [fold_left fst snd]. apply IHi.
    destruct p; [apply IH; right; exact H|exact H]. }
  generalize (map fst (imports_of g a)) at 1 as ds.
  assert (Hin : In a (rev (map fst (imports_of g a)) ++ [a])) by (apply in_or_app; right; left; reflexivity).
  revert Hin. generalize (rev (map fst (imports_of g a)) ++ [a]) as acc.
  intros acc Hin ds. revert acc Hin. induction ds as [|d ds IHd]; intros acc Hin; [exact Hin|].
  cbn [fold_left]. apply IHd. apply Hmono. exact Hin.
Qed.

(* a file behind a NON-public import of a direct import is not visible: the three-file shape
   a -> b -> c, and the same with a public edge *)
Lemma visible_examples :
  visible_b [[]; [(0, false)]; [(1, false)]] 2 0 = false /\
  visible_b [[]; [(0, true)]; [(1, false)]] 2 0 = true /\
  visible_b [[]; [(0, false)]; [(1, true)]] 2 0 = false /\
  visible_b [[]; [(0, true)]; [(1, true)]; [(2, false)]] 3 0 = true /\
  visible_b [[]; [(0, true)]; [(1, false)]; [(2, false)]] 3 0 = false /\
  visible_b [[]; []; [(0, false); (1, true)]; [(2, true)]; [(3, false)]] 4 1 = true /\
  visible_b [[]; []; [(0, false); (1, true)]; [(2, true)]; [(3, false)]] 4 0 = false.
Proof. repeat split; vm_compute; reflexivity. Qed.

(* if no direct import of [a] has a public import, only [a] and its direct imports are visible *)
Theorem no_public_edges_only_direct : forall g a f,
  (forall d p, In (d, p) (imports_of g a) -> forall j, ~ In (j, true) (imports_of g d)) ->
  visible g a f -> f = a \/ exists p, In (f, p) (imports_of g a).
Proof.
  intros g a f H [Hv|[Hv|[d [p [Hd Hr]]]]]; [left; exact Hv|right; exact Hv|].
  exfalso. inversion Hr as [i j Hj|i j k Hj _]; subst; exact (H d p Hd _ Hj).
Qed.
