(* Model of protodesc.FileOptions.New on a small descriptor-proto AST (C35):
     reflect/protodesc/desc.go           New: package check, the three steps in order
     reflect/protodesc/desc_init.go      makeBase (name validity, "already declared"), declaration order
     reflect/protodesc/desc_resolve.go   oneof index, findTarget / findDescriptor (scope walk), group->message for maps
     reflect/protodesc/desc_validate.go  validateEnumDeclarations, validateMessageDeclarations,
                                         validateExtensionDeclarations, checkValidGroup, checkValidMap
     internal/filedesc/desc_list.go      Names.CheckValid/Has, EnumRanges/FieldRanges CheckValid/Has (binary
                                         search over the start-sorted copy), CheckOverlap (two-pointer sweep)
     internal/strs/strings.go            JSONCamelCase, MapEntryName, EnumValueName, TrimEnumPrefix
   The checks are performed in the order of the code and the model returns the class of the
   first error.  Scope of the AST: one file (proto2 / proto3 / edition 2023 / edition 2024) without
   imports, services, default values and feature overrides; the resolver is empty (nil).
   Strings are lists of byte values.  int32 arithmetic of the code (End() = r[1]-1) wraps.
   sort.Slice is modelled as a stable insertion sort (what Go does for fewer than 13 elements).
   Definitions only: no proofs. *)
From Coq Require Import List NArith ZArith Bool.
Import ListNotations.
Open Scope Z_scope.

Definition str := list N.

(* ------------------------------------------------------------------ strings *)
Fixpoint str_eqb (a b : str) : bool :=
  match a, b with
  | [], [] => true
  | x :: a', y :: b' => N.eqb x y && str_eqb a' b'
  | _, _ => false
  end.
Definition str_mem (s : str) (l : list str) : bool := existsb (str_eqb s) l.

Definition c_dot : N := 46%N.
Definition c_us : N := 95%N.
Definition is_lower (c : N) : bool := (97 <=? c)%N && (c <=? 122)%N.
Definition is_upper (c : N) : bool := (65 <=? c)%N && (c <=? 90)%N.
Definition is_digit (c : N) : bool := (48 <=? c)%N && (c <=? 57)%N.
Definition is_letter (c : N) : bool := N.eqb c c_us || is_lower c || is_upper c.
Definition is_letter_digit (c : N) : bool := is_letter c || is_digit c.
Definition to_lower (c : N) : N := if is_upper c then (c + 32)%N else c.
Definition to_upper (c : N) : N := if is_lower c then (c - 32)%N else c.

(* protoreflect.Name.IsValid *)
Definition name_valid (s : str) : bool :=
  match s with [] => false | c :: r => is_letter c && forallb is_letter_digit r end.

(* components between dots *)
Fixpoint split_dots_aux (cur : str) (s : str) : list str :=
  match s with
  | [] => [rev cur]
  | c :: r => if N.eqb c c_dot then rev cur :: split_dots_aux [] r else split_dots_aux (c :: cur) r
  end.
Definition split_dots (s : str) : list str := split_dots_aux [] s.
(* protoreflect.FullName.IsValid *)
Definition fullname_valid (s : str) : bool := forallb name_valid (split_dots s).

Definition has_dot (s : str) : bool := existsb (N.eqb c_dot) s.
(* FullName.Parent: everything before the last dot, "" if there is none *)
Fixpoint parent_of (s : str) : str :=
  match s with
  | [] => []
  | c :: r => if has_dot r then c :: parent_of r else []
  end.
(* strs.Builder.AppendFullName / scope + "." + s *)
Definition join (prefix name : str) : str :=
  match prefix with [] => name | _ => prefix ++ c_dot :: name end.

(* partialName *)
Definition is_full (s : str) : bool := match s with c :: _ => N.eqb c c_dot | [] => false end.
Definition partial_valid (s : str) : bool := if is_full s then fullname_valid (tl s) else fullname_valid s.
Definition ref_fullname (s : str) : str := if is_full s then tl s else 42%N :: c_dot :: s.   (* "*." + s *)

(* strs.JSONCamelCase *)
Fixpoint json_camel_aux (was_us : bool) (s : str) : str :=
  match s with
  | [] => []
  | c :: r =>
    if N.eqb c c_us then json_camel_aux true r
    else (if was_us && is_lower c then (c - 32)%N else c) :: json_camel_aux false r
  end.
Definition json_camel (s : str) : str := json_camel_aux false s.

(* strs.MapEntryName *)
Fixpoint map_entry_aux (up : bool) (s : str) : str :=
  match s with
  | [] => [69; 110; 116; 114; 121]%N   (* "Entry" *)
  | c :: r => if N.eqb c c_us then map_entry_aux true r
              else if up then to_upper c :: map_entry_aux false r
              else c :: map_entry_aux false r
  end.
Definition map_entry_name (s : str) : str := map_entry_aux true s.

(* strs.EnumValueName *)
Fixpoint enum_value_name_aux (up : bool) (s : str) : str :=
  match s with
  | [] => []
  | c :: r => if N.eqb c c_us then enum_value_name_aux true r
              else if up then to_upper c :: enum_value_name_aux false r
              else to_lower c :: enum_value_name_aux false r
  end.
Definition enum_value_name (s : str) : str := enum_value_name_aux true s.

(* strs.TrimEnumPrefix *)
Fixpoint trim_aux (s prefix : str) : option str :=
  match prefix with
  | [] => Some s
  | p :: pr =>
    match s with
    | [] => None
    | c :: r => if N.eqb c c_us then trim_aux r prefix
                else if N.eqb (to_lower c) p then trim_aux r pr else None
    end
  end.
Fixpoint drop_us (s : str) : str :=
  match s with c :: r => if N.eqb c c_us then drop_us r else s | [] => [] end.
Definition trim_enum_prefix (s prefix : str) : str :=
  match trim_aux s prefix with
  | None => s
  | Some t => match drop_us t with [] => s | t' => t' end
  end.
Definition enum_prefix (ename : str) : str := filter (fun c => negb (N.eqb c c_us)) (map to_lower ename).

(* ------------------------------------------------------------------ AST *)
Record evalue := mkEValue { ev_name : str; ev_num : option Z }.
Definition ev_number (v : evalue) : Z := match ev_num v with Some n => n | None => 0 end.
Record enum := mkEnum {
  en_name : str; en_values : list evalue; en_alias : bool;
  en_resnames : list str; en_resranges : list (Z * Z)     (* inclusive *)
}.
Record field := mkField {
  f_name : str; f_num : Z; f_label : Z; f_type : Z; f_tname : str;
  f_oneof : option Z; f_p3opt : bool; f_json : option str; f_packed : option bool; f_extendee : option str
}.
Inductive msg :=
  Msg (name : str) (fields : list field) (oneofs : list str) (enums : list enum) (nested : list msg)
      (exts : list field) (extranges resranges : list (Z * Z))   (* [start, end) *)
      (resnames : list str) (mapentry msgset : bool).
Definition m_name (m : msg) := let 'Msg n _ _ _ _ _ _ _ _ _ _ := m in n.
Definition m_fields (m : msg) := let 'Msg _ f _ _ _ _ _ _ _ _ _ := m in f.
Definition m_oneofs (m : msg) := let 'Msg _ _ o _ _ _ _ _ _ _ _ := m in o.
Definition m_enums (m : msg) := let 'Msg _ _ _ e _ _ _ _ _ _ _ := m in e.
Definition m_nested (m : msg) := let 'Msg _ _ _ _ n _ _ _ _ _ _ := m in n.
Definition m_exts (m : msg) := let 'Msg _ _ _ _ _ x _ _ _ _ _ := m in x.
Definition m_extranges (m : msg) := let 'Msg _ _ _ _ _ _ x _ _ _ _ := m in x.
Definition m_resranges (m : msg) := let 'Msg _ _ _ _ _ _ _ r _ _ _ := m in r.
Definition m_resnames (m : msg) := let 'Msg _ _ _ _ _ _ _ _ r _ _ := m in r.
Definition m_mapentry (m : msg) := let 'Msg _ _ _ _ _ _ _ _ _ b _ := m in b.
Definition m_msgset (m : msg) := let 'Msg _ _ _ _ _ _ _ _ _ _ b := m in b.

Record file := mkFile {
  fl_syntax : N;     (* 0 proto2, 1 proto3, 2 edition 2023, 3 edition 2024 *)
  fl_pkg : str; fl_enums : list enum; fl_msgs : list msg; fl_exts : list field
}.

(* ------------------------------------------------------------------ outcomes *)
Inductive sub := S_ref | S_nf | S_notenum | S_notmsg | S_unk | S_tname | S_kind.
Inductive verr :=
  | E_package | E_name | E_dup | E_oneofidx
  | E_ftype (s : sub) | E_xextendee (s : sub) | E_xtype (s : sub)
  | E_e_resnames | E_e_resranges | E_e_empty | E_e_dupnum | E_e_noalias | E_e_first | E_e_nameconflict
  | E_e_nonum | E_e_resname | E_e_resnum
  | E_m_resnames | E_m_resranges | E_m_extranges | E_m_overlap | E_m_dupnum | E_m_msgset | E_m_badmsgset | E_m_p3ext
  | E_f_resname | E_f_num | E_f_card | E_f_resnum | E_f_inext | E_f_extendee
  | E_f_p3o_syntax | E_f_p3o_card | E_f_p3o_oneof | E_f_pack | E_f_group | E_f_map
  | E_f_p3req | E_f_p3enum | E_f_implenum
  | E_o_empty | E_o_consec | E_o_synth | E_o_card
  | E_x_num | E_x_card | E_x_json | E_x_oneof | E_x_range | E_x_msgset | E_x_pack | E_x_group | E_x_map | E_x_p3
  | E_outoffuel.
Inductive res (A : Type) := Ok (a : A) | Err (e : verr).
Arguments Ok {A}. Arguments Err {A}.
Definition bind {A B} (r : res A) (f : A -> res B) : res B := match r with Ok a => f a | Err e => Err e end.
Notation "'do' x <- r ; k" := (bind r (fun x => k)) (at level 200, x name, r at level 100, k at level 200).
Definition check (b : bool) (e : verr) : res unit := if b then Err e else Ok tt.   (* "if b { return error }" *)

(* for_each: run [f] over a list, stop at the first error *)
Fixpoint for_each {A} (f : A -> res unit) (l : list A) : res unit :=
  match l with [] => Ok tt | x :: r => do _ <- f x; for_each f r end.
(* with the 0-based index *)
Fixpoint for_each_i {A} (f : nat -> A -> res unit) (i : nat) (l : list A) : res unit :=
  match l with [] => Ok tt | x :: r => do _ <- f i x; for_each_i f (S i) r end.

(* ------------------------------------------------------------------ number predicates *)
Definition wrap32 (z : Z) : Z := (z + 2147483648) mod 4294967296 - 2147483648.
Definition max_valid : Z := 536870911.
Definition num_valid (n : Z) : bool := (1 <=? n) && (n <=? max_valid).            (* FieldNumber.IsValid *)
Definition num_impl_reserved (n : Z) : bool := (19000 <=? n) && (n <=? 19999).
Definition card_valid (l : Z) : bool := (l =? 1) || (l =? 2) || (l =? 3).
Definition kind_valid (k : Z) : bool := (1 <=? k) && (k <=? 18).
Definition kind_scalar_packable (k : Z) : bool := negb ((k =? 9) || (k =? 12) || (k =? 11) || (k =? 10)).

(* ------------------------------------------------------------------ ranges (desc_list.go) *)
Fixpoint insert_by_start (r : Z * Z) (l : list (Z * Z)) : list (Z * Z) :=
  match l with
  | [] => [r]
  | x :: xs => if fst r <? fst x then r :: x :: xs else x :: insert_by_start r xs
  end.
Definition sort_ranges (l : list (Z * Z)) : list (Z * Z) := fold_left (fun acc r => insert_by_start r acc) l [].

(* EnumRanges: [start, end] inclusive *)
Fixpoint enum_ranges_ok_aux (prev : option (Z * Z)) (l : list (Z * Z)) : bool :=
  match l with
  | [] => true
  | r :: rest =>
    (fst r <=? snd r) &&
    (match prev with Some p => snd p <? fst r | None => true end) &&
    enum_ranges_ok_aux (Some r) rest
  end.
Definition enum_ranges_ok (l : list (Z * Z)) : bool := enum_ranges_ok_aux None (sort_ranges l).

(* FieldRanges: [start, end); End() = r[1]-1 in int32 *)
Definition fr_end (r : Z * Z) : Z := wrap32 (snd r - 1).
Definition range_num_valid (n : Z) (ms : bool) : bool := (1 <=? n) && ((n <=? max_valid) || ms).
Fixpoint field_ranges_ok_aux (ms : bool) (prev : option (Z * Z)) (l : list (Z * Z)) : bool :=
  match l with
  | [] => true
  | r :: rest =>
    range_num_valid (fst r) ms && range_num_valid (fr_end r) ms && (fst r <=? fr_end r) &&
    (match prev with Some p => fr_end p <? fst r | None => true end) &&
    field_ranges_ok_aux ms (Some r) rest
  end.
Definition field_ranges_ok (ms : bool) (l : list (Z * Z)) : bool := field_ranges_ok_aux ms None (sort_ranges l).

(* Has: binary search over the sorted copy; [hi] = inclusive end of a range *)
Fixpoint bsearch (fuel : nat) (hi : Z * Z -> Z) (ls : list (Z * Z)) (n : Z) : bool :=
  match fuel with
  | O => false
  | S f =>
    match ls with
    | [] => false
    | _ =>
      let i := Nat.div2 (length ls) in
      match nth_error ls i with
      | None => false
      | Some r => if n <? fst r then bsearch f hi (firstn i ls) n
                  else if hi r <? n then bsearch f hi (skipn (S i) ls) n
                  else true
      end
    end
  end.
Definition enum_ranges_has (l : list (Z * Z)) (n : Z) : bool := bsearch (S (length l)) snd (sort_ranges l) n.
Definition field_ranges_has (l : list (Z * Z)) (n : Z) : bool := bsearch (S (length l)) fr_end (sort_ranges l) n.

(* CheckOverlap: two-pointer sweep over both sorted copies; true = no overlap reported *)
Fixpoint overlap_sweep (fuel : nat) (ps qs : list (Z * Z)) : bool :=
  match fuel with
  | O => true
  | S f =>
    match ps, qs with
    | p :: ps', q :: qs' =>
      if negb ((fr_end p <? fst q) || (fr_end q <? fst p)) then false
      else if fst p <? fst q then overlap_sweep f ps' qs else overlap_sweep f ps qs'
    | _, _ => true
    end
  end.
Definition ranges_no_overlap (a b : list (Z * Z)) : bool :=
  overlap_sweep (S (length a + length b)) (sort_ranges a) (sort_ranges b).

(* Names.CheckValid: some name occurs twice *)
Fixpoint has_dup (l : list str) : bool :=
  match l with [] => false | x :: r => str_mem x r || has_dup r end.

(* ------------------------------------------------------------------ step 1: declarations (desc_init.go) *)
Inductive decl := DEnum (e : enum) | DMsg (m : msg) | DOther.
Definition table := list (str * decl).
Fixpoint lookup (t : table) (s : str) : option decl :=
  match t with [] => None | (k, d) :: r => if str_eqb k s then Some d else lookup r s end.

(* makeBase *)
Definition mk_base (t : table) (scope : str) (name : str) (d : decl) : res (table * str) :=
  if negb (name_valid name) then Err E_name
  else let full := join scope name in
       match lookup t full with
       | Some _ => Err E_dup
       | None => Ok ((full, d) :: t, full)
       end.

Fixpoint init_names (t : table) (scope : str) (names : list str) : res table :=
  match names with
  | [] => Ok t
  | n :: r => do p <- mk_base t scope n DOther; init_names (fst p) scope r
  end.

Definition init_enum (t : table) (scope : str) (e : enum) : res table :=
  do p <- mk_base t scope (en_name e) (DEnum e); let t1 := fst p in let full := snd p in
  (* enum values are siblings of the enum *)
  init_names t1 (parent_of full) (map ev_name (en_values e)).
Fixpoint init_enums (t : table) (scope : str) (es : list enum) : res table :=
  match es with [] => Ok t | e :: r => do t' <- init_enum t scope e; init_enums t' scope r end.

Fixpoint init_msg (t : table) (scope : str) (m : msg) {struct m} : res table :=
  match m with
  | Msg name fields oneofs enums nested exts _ _ _ _ _ =>
    do p <- mk_base t scope name (DMsg m); let t1 := fst p in let full := snd p in
    do t2 <- init_names t1 full (map f_name fields);
    do t3 <- init_names t2 full oneofs;
    do t4 <- init_enums t3 full enums;
    do t5 <- (fix go (t : table) (l : list msg) : res table :=
                match l with [] => Ok t | x :: r => do t' <- init_msg t full x; go t' r end) t4 nested;
    init_names t5 full (map f_name exts)
  end.
Fixpoint init_msgs (t : table) (scope : str) (ms : list msg) : res table :=
  match ms with [] => Ok t | m :: r => do t' <- init_msg t scope m; init_msgs t' scope r end.

Definition init_file (f : file) : res table :=
  do t1 <- init_enums [] (fl_pkg f) (fl_enums f);
  do t2 <- init_msgs t1 (fl_pkg f) (fl_msgs f);
  init_names t2 (fl_pkg f) (map f_name (fl_exts f)).

(* ------------------------------------------------------------------ step 2: references (desc_resolve.go) *)
Inductive fres := FFound (full : str) (d : decl) | FNotFound | FInvalidRef | FOutOfFuel.

Fixpoint find_loop (fuel : nat) (t : table) (scope ref : str) : fres :=
  match fuel with
  | O => FOutOfFuel
  | S f =>
    let s := join scope ref in
    match lookup t s with
    | Some d => FFound s d
    | None => match scope with [] => FNotFound | _ => find_loop f t (parent_of scope) ref end
    end
  end.
Definition find_descriptor (t : table) (scope ref : str) : fres :=
  if negb (partial_valid ref) then FInvalidRef
  else if is_full ref then find_loop 1 t [] (tl ref)
  else find_loop (S (length scope)) t scope ref.

Inductive etarget := EPlace | ELocal (full : str) (e : enum).
Inductive mtarget := MPlace (full : str) | MLocal (full : str) (m : msg).
Inductive tres (A : Type) := TOk (a : A) | TErr (s : sub) | TFuel.
Arguments TOk {A}. Arguments TErr {A}. Arguments TFuel {A}.

Definition find_enum (allow : bool) (t : table) (scope ref : str) : tres etarget :=
  match find_descriptor t scope ref with
  | FNotFound => if allow then TOk EPlace else TErr S_nf
  | FInvalidRef => TErr S_ref
  | FOutOfFuel => TFuel
  | FFound full (DEnum e) => TOk (ELocal full e)
  | FFound _ _ => TErr S_notenum
  end.
Definition find_msg (allow : bool) (t : table) (scope ref : str) : tres mtarget :=
  match find_descriptor t scope ref with
  | FNotFound => if allow then TOk (MPlace (ref_fullname ref)) else TErr S_nf
  | FInvalidRef => TErr S_ref
  | FOutOfFuel => TFuel
  | FFound full (DMsg m) => TOk (MLocal full m)
  | FFound _ _ => TErr S_notmsg
  end.

Record rfield := mkRField { rk : Z; renum : option etarget; rmsg : option mtarget }.

Definition find_target (allow : bool) (t : table) (k : Z) (scope ref : str) : tres rfield :=
  if k =? 14 then
    match find_enum allow t scope ref with TOk e => TOk (mkRField k (Some e) None) | TErr s => TErr s | TFuel => TFuel end
  else if (k =? 11) || (k =? 10) then
    match find_msg allow t scope ref with TOk m => TOk (mkRField k None (Some m)) | TErr s => TErr s | TFuel => TFuel end
  else if k =? 0 then
    match find_descriptor t scope ref with
    | FNotFound => if allow then TOk (mkRField 0 (Some EPlace) (Some (MPlace (ref_fullname ref)))) else TErr S_nf
    | FInvalidRef => TErr S_ref
    | FOutOfFuel => TFuel
    | FFound full (DEnum e) => TOk (mkRField 14 (Some (ELocal full e)) None)
    | FFound full (DMsg m) => TOk (mkRField 11 None (Some (MLocal full m)))
    | FFound _ DOther => TErr S_unk
    end
  else match ref with
       | _ :: _ => TErr S_tname
       | [] => if negb (kind_valid k) then TErr S_kind else TOk (mkRField k None None)
       end.

Definition mtarget_mapentry (m : option mtarget) : bool :=
  match m with Some (MLocal _ md) => m_mapentry md | _ => false end.

(* a message field after step 2; [in_entry] = the containing message is a map entry *)
Definition resolve_field (allow : bool) (t : table) (scope : str) (in_entry : bool) (f : field) : tres rfield :=
  match find_target allow t (f_type f) scope (f_tname f) with
  | TOk r =>
    if (rk r =? 10) && (mtarget_mapentry (rmsg r) || in_entry)
    then TOk (mkRField 11 (renum r) (rmsg r)) else TOk r
  | e => e
  end.
(* an extension field after step 2 (no map adjustment) *)
Definition resolve_ext (allow : bool) (t : table) (scope : str) (x : field) : tres rfield :=
  find_target allow t (f_type x) scope (f_tname x).
Definition ext_extendee (allow : bool) (t : table) (scope : str) (x : field) : tres mtarget :=
  find_msg allow t scope (match f_extendee x with Some s => s | None => [] end).

Definition lift {A} (mk : sub -> verr) (r : tres A) : res A :=
  match r with TOk a => Ok a | TErr s => Err (mk s) | TFuel => Err E_outoffuel end.

Definition resolve_exts (allow : bool) (t : table) (scope : str) (xs : list field) : res unit :=
  for_each (fun x =>
    do _ <- lift E_xextendee (ext_extendee allow t scope x);
    do _ <- lift E_xtype (resolve_ext allow t scope x);
    Ok tt) xs.

Fixpoint resolve_msg (allow : bool) (t : table) (scope : str) (m : msg) {struct m} : res unit :=
  match m with
  | Msg name fields oneofs _ nested exts _ _ _ mapentry _ =>
    let full := join scope name in
    do _ <- for_each (fun f =>
              do _ <- match f_oneof f with
                      | Some k => check (negb ((0 <=? k) && (k <? Z.of_nat (length oneofs)))) E_oneofidx
                      | None => Ok tt
                      end;
              do _ <- lift E_ftype (resolve_field allow t full mapentry f);
              Ok tt) fields;
    do _ <- (fix go (l : list msg) : res unit :=
               match l with [] => Ok tt | x :: r => do _ <- resolve_msg allow t full x; go r end) nested;
    resolve_exts allow t full exts
  end.
Fixpoint resolve_msgs (allow : bool) (t : table) (scope : str) (ms : list msg) : res unit :=
  match ms with [] => Ok tt | m :: r => do _ <- resolve_msg allow t scope m; resolve_msgs allow t scope r end.

(* ------------------------------------------------------------------ step 3: validation (desc_validate.go) *)
Definition is_proto3 (syntax : N) : bool := N.eqb syntax 1.
Definition is_proto2 (syntax : N) : bool := N.eqb syntax 0.
(* without feature overrides: enums are closed exactly in proto2 files; presence is implicit
   exactly in proto3 files; repeated scalars are packed by default except in proto2 files *)
Definition enum_is_closed (syntax : N) : bool := is_proto2 syntax.
Definition presence_default (syntax : N) : bool := negb (is_proto3 syntax).
Definition packed_default (syntax : N) : bool := negb (is_proto2 syntax).

(* index of the first value with the same number as the value at index i is smaller than i *)
Fixpoint first_index_num (vs : list evalue) (n : Z) (i : nat) : option nat :=
  match vs with
  | [] => None
  | v :: r => if ev_number v =? n then Some i else first_index_num r n (S i)
  end.
Definition has_alias (vs : list evalue) : bool :=
  existsb (fun p => match first_index_num vs (ev_number (snd p)) 0 with
                    | Some j => negb (Nat.eqb j (fst p)) | None => false end)
          (combine (seq 0 (length vs)) vs).

(* the open-enum name-conflict check: a map from derived name to the latest value *)
Fixpoint name_conflict_aux (prefix : str) (seen : list (str * Z)) (vs : list evalue) : bool :=
  match vs with
  | [] => false
  | v :: r =>
    let s := enum_value_name (trim_enum_prefix (ev_name v) prefix) in
    let hit := match find (fun p => str_eqb (fst p) s) seen with
               | Some p => negb (snd p =? ev_number v) | None => false end in
    hit || name_conflict_aux prefix ((s, ev_number v) :: seen) r
  end.

Definition validate_enum (syntax : N) (e : enum) : res unit :=
  do _ <- check (has_dup (en_resnames e)) E_e_resnames;
  do _ <- check (negb (enum_ranges_ok (en_resranges e))) E_e_resranges;
  do _ <- check (match en_values e with [] => true | _ => false end) E_e_empty;
  do _ <- check (has_alias (en_values e) && negb (en_alias e)) E_e_dupnum;
  do _ <- check (en_alias e && negb (has_alias (en_values e))) E_e_noalias;
  do _ <- (if enum_is_closed syntax then Ok tt else
           do _ <- check (match en_values e with v :: _ => negb (ev_number v =? 0) | [] => false end) E_e_first;
           check (name_conflict_aux (enum_prefix (en_name e)) [] (en_values e)) E_e_nameconflict);
  for_each (fun v =>
    do _ <- check (match ev_num v with None => true | Some _ => false end) E_e_nonum;
    do _ <- check (str_mem (ev_name v) (en_resnames e)) E_e_resname;
    check (enum_ranges_has (en_resranges e) (ev_number v)) E_e_resnum) (en_values e).

(* resolved view of a field, recomputed on demand (step 2 has succeeded, so this is TOk) *)
Definition rf_of (r : tres rfield) : rfield := match r with TOk a => a | _ => mkRField 0 None None end.

Definition f_in_oneof (f : field) : bool := match f_oneof f with Some _ => true | None => false end.
Definition packed_feature (syntax : N) (f : field) : bool :=
  match f_packed f with Some b => b | None => packed_default syntax end.
Definition has_message (r : rfield) : bool := match rmsg r with Some _ => true | None => false end.
Definition is_map (r : rfield) : bool := mtarget_mapentry (rmsg r).

(* checkValidGroup; [fscope] = full name of the parent of the field *)
Definition group_invalid (syntax : N) (fscope : str) (fname : str) (r : rfield) : bool :=
  if negb (rk r =? 10) then false
  else if is_proto3 syntax then true
  else match rmsg r with
       | Some (MLocal mfull md) =>
         if is_proto2 syntax then
           negb (str_eqb fscope (parent_of mfull))
           || negb (match m_name md with c :: _ => is_upper c | [] => false end)
           || negb (str_eqb fname (map to_lower (m_name md)))
         else false
       | _ => true
       end.

Definition key_kind_ok (k : Z) : bool :=
  (k =? 8) || (k =? 5) || (k =? 17) || (k =? 15) || (k =? 3) || (k =? 18) || (k =? 16)
  || (k =? 13) || (k =? 7) || (k =? 4) || (k =? 6) || (k =? 9).

Definition str_key : str := [107; 101; 121]%N.
Definition str_value : str := [118; 97; 108; 117; 101]%N.

(* checkValidMap; [fscope] = full name of the message that contains the field *)
Definition map_invalid (allow : bool) (t : table) (fscope : str) (f : field) (r : rfield) : bool :=
  match rmsg r with
  | Some (MLocal mfull md) =>
    if negb (m_mapentry md) then false
    else if negb (str_eqb fscope (parent_of mfull)) then true
    else if negb (str_eqb (m_name md) (map_entry_name (f_name f))) then true
    else if negb (f_label f =? 3) then true
    else match m_fields md with
         | [kf; vf] =>
           if match m_extranges md with [] => false | _ => true end then true
           else if match m_enums md, m_nested md, m_exts md with [], [], [] => false | _, _, _ => true end then true
           else if negb (str_eqb (f_name kf) str_key) || negb (f_num kf =? 1) || negb (f_label kf =? 1) || f_in_oneof kf then true
           else if negb (str_eqb (f_name vf) str_value) || negb (f_num vf =? 2) || negb (f_label vf =? 1) || f_in_oneof vf then true
           else
             let rkf := rf_of (resolve_field allow t mfull true kf) in
             let rvf := rf_of (resolve_field allow t mfull true vf) in
             if negb (key_kind_ok (rk rkf)) then true
             else match renum rvf with
                  | Some (ELocal _ e) => match en_values e with v :: _ => negb (ev_number v =? 0) | [] => false end
                  | _ => false
                  end
         | _ => true
         end
  | _ => false
  end.

Definition enum_local_closed (syntax : N) (r : rfield) : bool :=
  match renum r with Some (ELocal _ _) => enum_is_closed syntax | _ => false end.

Fixpoint count_oneof (fields : list field) (k : Z) : nat :=
  match fields with
  | [] => O
  | f :: r => ((match f_oneof f with Some j => if Z.eqb j k then 1 else 0 | None => 0 end) + count_oneof r k)%nat
  end.

Definition first_field_num (fields : list field) (n : Z) : option nat :=
  (fix go (l : list field) (i : nat) := match l with [] => None | f :: r => if f_num f =? n then Some i else go r (S i) end) fields O.
Definition has_dup_field_number (fields : list field) : bool :=
  existsb (fun p => match first_field_num fields (f_num (snd p)) with
                    | Some j => negb (Nat.eqb j (fst p)) | None => false end)
          (combine (seq 0 (length fields)) fields).

Definition validate_field (legacy allow : bool) (syntax : N) (t : table) (m : msg) (mfull : str) (f : field) : res unit :=
  let r := rf_of (resolve_field allow t mfull (m_mapentry m) f) in
  let card := f_label f in
  let is_packed := (card =? 3) && kind_scalar_packable (rk r) && packed_feature syntax f in
  let is_packable := kind_scalar_packable (rk r) && (card =? 3) && negb (is_map r) in
  let has_presence := negb (card =? 3) && (presence_default syntax || has_message r || f_in_oneof f) in
  do _ <- check (str_mem (f_name f) (m_resnames m)) E_f_resname;
  do _ <- check (negb (num_valid (f_num f))) E_f_num;
  do _ <- check (negb (card_valid card)) E_f_card;
  do _ <- check (field_ranges_has (m_resranges m) (f_num f)) E_f_resnum;
  do _ <- check (field_ranges_has (m_extranges m) (f_num f)) E_f_inext;
  do _ <- check (match f_extendee f with Some _ => true | None => false end) E_f_extendee;
  do _ <- (if f_p3opt f then
             do _ <- check (negb (is_proto3 syntax)) E_f_p3o_syntax;
             do _ <- check (negb (card =? 1)) E_f_p3o_card;
             check (match f_oneof f with Some k => negb (Nat.eqb (count_oneof (m_fields m) k) 1) | None => false end) E_f_p3o_oneof
           else Ok tt);
  do _ <- check (is_packed && negb is_packable) E_f_pack;
  do _ <- check (group_invalid syntax mfull (f_name f) r) E_f_group;
  do _ <- check (map_invalid allow t mfull f r) E_f_map;
  do _ <- (if is_proto3 syntax then
             do _ <- check (card =? 2) E_f_p3req;
             check (enum_local_closed syntax r) E_f_p3enum
           else Ok tt);
  check ((card =? 1) && negb has_presence && enum_local_closed syntax r) E_f_implenum.

(* the oneof loop with its seenSynthetic flag *)
Definition oneof_members (fields : list field) (k : Z) : list (nat * field) :=
  filter (fun p => match f_oneof (snd p) with Some j => j =? k | None => false end)
         (combine (seq 0 (length fields)) fields).
Fixpoint validate_oneofs (syntax : N) (fields : list field) (n : nat) (k : Z) (seen_synth : bool) : res unit :=
  match n with
  | O => Ok tt
  | S n' =>
    let ms := oneof_members fields k in
    match ms with
    | [] => Err E_o_empty
    | (i0, f0) :: _ =>
      let ilast := fst (last ms (i0, f0)) in
      if negb (Nat.eqb (length ms - 1) (ilast - i0)) then Err E_o_consec
      else
        let synthetic := is_proto3 syntax && Nat.eqb (length ms) 1 && f_p3opt f0 in
        if synthetic then validate_oneofs syntax fields n' (k + 1) true
        else if seen_synth then Err E_o_synth
        else do _ <- for_each (fun p => check (negb (f_label (snd p) =? 1)) E_o_card) ms;
             validate_oneofs syntax fields n' (k + 1) seen_synth
    end
  end.

Definition option_names : list str := [
  [103; 111; 111; 103; 108; 101; 46; 112; 114; 111; 116; 111; 98; 117; 102; 46; 70; 105; 108; 101; 79; 112; 116; 105; 111; 110; 115]%N;
  [103; 111; 111; 103; 108; 101; 46; 112; 114; 111; 116; 111; 98; 117; 102; 46; 69; 110; 117; 109; 79; 112; 116; 105; 111; 110; 115]%N;
  [103; 111; 111; 103; 108; 101; 46; 112; 114; 111; 116; 111; 98; 117; 102; 46; 69; 110; 117; 109; 86; 97; 108; 117; 101; 79; 112; 116; 105; 111; 110; 115]%N;
  [103; 111; 111; 103; 108; 101; 46; 112; 114; 111; 116; 111; 98; 117; 102; 46; 77; 101; 115; 115; 97; 103; 101; 79; 112; 116; 105; 111; 110; 115]%N;
  [103; 111; 111; 103; 108; 101; 46; 112; 114; 111; 116; 111; 98; 117; 102; 46; 70; 105; 101; 108; 100; 79; 112; 116; 105; 111; 110; 115]%N;
  [103; 111; 111; 103; 108; 101; 46; 112; 114; 111; 116; 111; 98; 117; 102; 46; 79; 110; 101; 111; 102; 79; 112; 116; 105; 111; 110; 115]%N;
  [103; 111; 111; 103; 108; 101; 46; 112; 114; 111; 116; 111; 98; 117; 102; 46; 69; 120; 116; 101; 110; 115; 105; 111; 110; 82; 97; 110; 103; 101; 79; 112; 116; 105; 111; 110; 115]%N;
  [103; 111; 111; 103; 108; 101; 46; 112; 114; 111; 116; 111; 98; 117; 102; 46; 83; 101; 114; 118; 105; 99; 101; 79; 112; 116; 105; 111; 110; 115]%N;
  [103; 111; 111; 103; 108; 101; 46; 112; 114; 111; 116; 111; 98; 117; 102; 46; 77; 101; 116; 104; 111; 100; 79; 112; 116; 105; 111; 110; 115]%N ].

Definition validate_ext (legacy allow : bool) (syntax : N) (t : table) (scope : str) (x : field) : res unit :=
  let r := rf_of (resolve_ext allow t scope x) in
  let n := f_num x in
  let card := f_label x in
  let is_packed := (card =? 3) && kind_scalar_packable (rk r) && packed_feature syntax x in
  let is_packable := kind_scalar_packable (rk r) && (card =? 3) in
  do _ <- check ((n <? 0) || num_impl_reserved n) E_x_num;
  do _ <- check (negb (card_valid card) || (card =? 2)) E_x_card;
  do _ <- check (match f_json x with Some j => negb (str_eqb j (json_camel (f_name x))) | None => false end) E_x_json;
  do _ <- check (f_in_oneof x) E_x_oneof;
  let ext := ext_extendee allow t scope x in
  do _ <- match ext with
          | TOk (MLocal _ md) =>
            do _ <- check (negb (field_ranges_has (m_extranges md) n)) E_x_range;
            do _ <- check (m_msgset md && negb (((rk r =? 0) || (rk r =? 11)) && (card =? 1))) E_x_msgset;
            check (negb (m_msgset md) && negb (num_valid n)) E_x_num
          | _ => Ok tt
          end;
  do _ <- check (is_packed && negb is_packable) E_x_pack;
  do _ <- check (group_invalid syntax scope (f_name x) r) E_x_group;
  do _ <- check (mtarget_mapentry (rmsg r)) E_x_map;
  if is_proto3 syntax then
    let extname := match ext with TOk (MLocal full _) => full | TOk (MPlace full) => full | _ => [] end in
    check (negb (str_mem extname option_names)) E_x_p3
  else Ok tt.

(* the checks of one message declaration that do not descend: header, fields, oneofs *)
Definition msg_local (legacy allow : bool) (syntax : N) (t : table) (full : str) (m : msg) : res unit :=
  do _ <- check (has_dup (m_resnames m)) E_m_resnames;
  do _ <- check (negb (field_ranges_ok (m_msgset m) (m_resranges m))) E_m_resranges;
  do _ <- check (negb (field_ranges_ok (m_msgset m) (m_extranges m))) E_m_extranges;
  do _ <- check (negb (ranges_no_overlap (m_resranges m) (m_extranges m))) E_m_overlap;
  do _ <- check (has_dup_field_number (m_fields m)) E_m_dupnum;
  do _ <- check (m_msgset m && negb legacy) E_m_msgset;
  do _ <- check (m_msgset m && (is_proto3 syntax || match m_fields m with [] => false | _ => true end
                                || match m_extranges m with [] => true | _ => false end)) E_m_badmsgset;
  do _ <- check (is_proto3 syntax && match m_extranges m with [] => false | _ => true end) E_m_p3ext;
  do _ <- for_each (validate_field legacy allow syntax t m full) (m_fields m);
  validate_oneofs syntax (m_fields m) (length (m_oneofs m)) 0 false.

Fixpoint validate_msg (legacy allow : bool) (syntax : N) (t : table) (scope : str) (m : msg) {struct m} : res unit :=
  match m with
  | Msg name _ _ enums nested exts _ _ _ _ _ =>
    let full := join scope name in
    do _ <- msg_local legacy allow syntax t full m;
    do _ <- for_each (validate_enum syntax) enums;
    do _ <- (fix go (l : list msg) : res unit :=
               match l with [] => Ok tt | x :: r => do _ <- validate_msg legacy allow syntax t full x; go r end) nested;
    for_each (validate_ext legacy allow syntax t full) exts
  end.
Fixpoint validate_msgs (legacy allow : bool) (syntax : N) (t : table) (scope : str) (ms : list msg) : res unit :=
  match ms with [] => Ok tt | m :: r => do _ <- validate_msg legacy allow syntax t scope m; validate_msgs legacy allow syntax t scope r end.

(* ------------------------------------------------------------------ FileOptions.New *)
Definition new_file (legacy allow : bool) (f : file) : res unit :=
  do _ <- check (match fl_pkg f with [] => false | _ => negb (fullname_valid (fl_pkg f)) end) E_package;
  do t <- init_file f;
  do _ <- resolve_msgs allow t (fl_pkg f) (fl_msgs f);
  do _ <- resolve_exts allow t (fl_pkg f) (fl_exts f);
  do _ <- for_each (validate_enum (fl_syntax f)) (fl_enums f);
  do _ <- validate_msgs legacy allow (fl_syntax f) t (fl_pkg f) (fl_msgs f);
  for_each (validate_ext legacy allow (fl_syntax f) t (fl_pkg f)) (fl_exts f).

Inductive outcome := Accept | Reject (e : verr).
Definition validate (legacy allow : bool) (f : file) : outcome :=
  match new_file legacy allow f with Ok _ => Accept | Err e => Reject e end.
