(* Proofs about the struct-tag codec model (Desc/TagModel.v). *)
From Coq Require Import List Arith NArith ZArith Lia Bool.
From Coq Require Import ZifyBool ZifyNat ZifyN.
From PB Require Import Base.PBytes Desc.TagModel.
Ltac Zify.zify_post_hook ::= Z.div_mod_to_equations.
Import ListNotations.
Open Scope N_scope.

(* ---------- byte strings ---------- *)
Lemma beqb_refl b : beqb b b = true.
Proof. unfold beqb. apply N.eqb_refl. Qed.

Lemma beqb_eq a b : beqb a b = true -> a = b.
Proof.
  unfold beqb. intros H. apply N.eqb_eq in H.
  rewrite <- (n2b_b2n a), <- (n2b_b2n b). now rewrite H.
Qed.

Lemma str_eqb_refl s : str_eqb s s = true.
Proof. induction s as [|b s IH]; [reflexivity|]. cbn [str_eqb]. now rewrite beqb_refl, IH. Qed.

Lemma str_eqb_eq a b : str_eqb a b = true -> a = b.
Proof.
  revert b. induction a as [|x a IH]; intros [|y b] H; try discriminate; [reflexivity|].
  cbn [str_eqb] in H. apply andb_prop in H. destruct H as [H1 H2].
  apply beqb_eq in H1. apply IH in H2. now subst.
Qed.

Lemma str_eqb_neq a b : str_eqb a b = false -> a <> b.
Proof. intros H ->. now rewrite str_eqb_refl in H. Qed.

Lemma has_prefix_app p x : has_prefix p (p ++ x) = true.
Proof. induction p as [|b p IH]; [reflexivity|]. cbn [app has_prefix]. now rewrite beqb_refl, IH. Qed.

Definition no_comma (s : str) : Prop := forallb (fun b => negb (beqb b comma)) s = true.

Lemma no_comma_app a b : no_comma a -> no_comma b -> no_comma (a ++ b).
Proof. unfold no_comma. intros Ha Hb. now rewrite forallb_app, Ha, Hb. Qed.

Lemma cut_comma_app s r : no_comma s -> cut_comma (s ++ comma :: r) = (s, r).
Proof.
  unfold no_comma. induction s as [|b s IH]; intros H.
  - cbn [app cut_comma]. now rewrite beqb_refl.
  - cbn [forallb] in H. apply andb_prop in H. destruct H as [H1 H2].
    cbn [app cut_comma]. apply negb_true_iff in H1. rewrite H1. now rewrite IH.
Qed.

Lemma cut_comma_last s : no_comma s -> cut_comma s = (s, []).
Proof.
  unfold no_comma. induction s as [|b s IH]; intros H; [reflexivity|].
  cbn [forallb] in H. apply andb_prop in H. destruct H as [H1 H2].
  cbn [cut_comma]. apply negb_true_iff in H1. rewrite H1. now rewrite IH.
Qed.

(* the first segment of "def=..." starts with "def=" whatever follows *)
Lemma cut_comma_def d : exists s r, cut_comma (s_def ++ d) = (s, r) /\ has_prefix s_def s = true.
Proof.
  unfold s_def. cbn [app cut_comma].
  change (beqb x64 comma) with false. change (beqb x65 comma) with false.
  change (beqb x66 comma) with false. change (beqb x3d comma) with false. cbv iota.
  destruct (cut_comma d) as [a r]. exists (x64 :: x65 :: x66 :: x3d :: a), r. split; reflexivity.
Qed.

(* ---------- decimal numbers ---------- *)
Lemma forallb_rev {A} (f : A -> bool) l : forallb f (rev l) = forallb f l.
Proof.
  induction l as [|x l IH]; [reflexivity|].
  cbn [rev forallb]. rewrite forallb_app, IH. cbn [forallb]. rewrite andb_true_r. apply andb_comm.
Qed.

Lemma digit_byte d : d < 10 -> b2n (n2b (48 + d)) = 48 + d.
Proof. intros H. apply b2n_n2b. lia. Qed.

Lemma lsd_digits_spec : forall fuel n,
  n < 10 ^ N.of_nat fuel ->
  val_lsd (lsd_digits fuel n) = n /\ forallb is_digit (lsd_digits fuel n) = true /\
  ((0 < fuel)%nat -> lsd_digits fuel n <> []).
Proof.
  induction fuel as [|f IH]; intros n Hn.
  - change (10 ^ N.of_nat 0) with 1 in Hn. assert (n = 0) by lia. subst. cbn. repeat split; lia.
  - cbn [lsd_digits]. destruct (n <? 10) eqn:E.
    + cbn [val_lsd forallb]. rewrite digit_byte by lia.
      unfold is_digit. rewrite digit_byte by lia.
      split; [lia|]. split; [|intros _; discriminate].
      replace (48 <=? 48 + n) with true by lia. replace (48 + n <=? 57) with true by lia. reflexivity.
    + assert (Hd : n / 10 < 10 ^ N.of_nat f).
      { rewrite Nat2N.inj_succ, N.pow_succ_r' in Hn. apply N.div_lt_upper_bound; lia. }
      destruct (IH (n / 10) Hd) as (H1 & H2 & H3).
      cbn [val_lsd forallb]. rewrite H1, H2. rewrite digit_byte by lia.
      unfold is_digit. rewrite digit_byte by lia.
      split; [lia|]. split; [|intros _; discriminate].
      replace (48 <=? 48 + n mod 10) with true by lia. replace (48 + n mod 10 <=? 57) with true by lia. reflexivity.
Qed.

Lemma itoa_n_spec n :
  n < 2^32 ->
  forallb is_digit (itoa_n n) = true /\ itoa_n n <> [] /\ parse_uint32 (itoa_n n) = n.
Proof.
  intros Hn. unfold itoa_n, parse_uint32.
  assert (H40 : n < 10 ^ N.of_nat 40).
  { eapply N.lt_trans; [exact Hn|]. now vm_compute. }
  destruct (lsd_digits_spec 40 n H40) as (H1 & H2 & H3).
  rewrite forallb_rev, rev_involutive, H1. split; [exact H2|]. split.
  - intros C. apply (f_equal (@rev _)) in C. rewrite rev_involutive in C. apply H3; [lia|exact C].
  - change 4294967296 with (2^32). replace (n <? 2^32) with true by lia. reflexivity.
Qed.

Lemma digits_no_comma s : forallb is_digit s = true -> no_comma s.
Proof.
  unfold no_comma. induction s as [|b s IH]; [reflexivity|].
  cbn [forallb]. intros H. apply andb_prop in H. destruct H as [H1 H2].
  rewrite IH by exact H2. rewrite andb_true_r.
  unfold is_digit in H1. unfold beqb, comma. change (b2n x2c) with 44. lia.
Qed.

Lemma digits_first s (p0 : byte) p :
  forallb is_digit s = true -> s <> [] -> (b2n p0 <? 48) || (57 <? b2n p0) = true ->
  has_prefix (p0 :: p) s = false.
Proof.
  destruct s as [|b s]; [congruence|]. cbn [forallb has_prefix]. intros H _ Hp.
  apply andb_prop in H. destruct H as [H1 _]. unfold is_digit in H1.
  replace (beqb p0 b) with false; [reflexivity|]. unfold beqb. lia.
Qed.

(* ---------- classification of the segments Marshal writes ---------- *)
Lemma classify_name n : classify (s_name ++ n) = SName n.
Proof. unfold classify. now rewrite has_prefix_app. Qed.

Lemma classify_json j : classify (s_json ++ j) = SJson j.
Proof. reflexivity. Qed.

Lemma classify_enum e : classify (s_enum ++ e) = SEnum.
Proof. reflexivity. Qed.

Lemma classify_number z :
  (0 <= z < 2147483648)%Z -> classify (itoa z) = SNum z.
Proof.
  intros Hz. unfold itoa.
  assert (E : itoa_n (Z.to_N z) = match z with Zneg p => x2d :: itoa_n (N.pos p) | _ => itoa_n (Z.to_N z) end).
  { destruct z; try reflexivity. lia. }
  rewrite <- E. clear E.
  assert (Hn : Z.to_N z < 2^32) by (change (2^32) with 4294967296; lia).
  destruct (itoa_n_spec _ Hn) as (Hd & Hne & Hp).
  unfold classify, s_name.
  rewrite (digits_first _ x6e _ Hd Hne) by reflexivity.
  rewrite Hd, Hp. unfold to_int32.
  replace (Z.to_N z <? 2147483648) with true by lia.
  f_equal. lia.
Qed.

(* ---------- the loop ---------- *)
Definition seg_ok (s : str) : Prop := no_comma s /\ s <> [] /\ has_prefix s_def s = false.

Definition run (gk : gokind) (segs : list str) (u : ufield) : ufield :=
  fold_left (fun u s => apply_seg gk (classify s) u) segs u.

Definition set_def (u : ufield) (d : str) : ufield :=
  {| u_name := u_name u; u_number := u_number u; u_card := u_card u; u_kind := u_kind u; u_json := u_json u;
     u_packed := u_packed u; u_proto3 := u_proto3 u; u_def := Some d |}.

Lemma loop_empty fuel gk u : unmarshal_loop fuel gk [] u = u.
Proof. destruct fuel; reflexivity. Qed.

Lemma join_comma_cons s r : r <> [] -> join_comma (s :: r) = s ++ comma :: join_comma r.
Proof. destruct r; [congruence|reflexivity]. Qed.

Lemma app_cons_nonempty {A} (s : list A) c r : s ++ c :: r <> [].
Proof. destruct s; discriminate. Qed.

(* comma-free segments followed by an arbitrary tail *)
Lemma loop_segs gk : forall segs fuel u tail,
  Forall seg_ok segs -> (length segs <= fuel)%nat ->
  unmarshal_loop fuel gk (fold_right (fun s acc => s ++ comma :: acc) tail segs) u
  = unmarshal_loop (fuel - length segs) gk tail (run gk segs u).
Proof.
  induction segs as [|s segs IH]; intros fuel u tail Hok Hf.
  - cbn [fold_right length run fold_left]. now rewrite Nat.sub_0_r.
  - inversion Hok as [|? ? (Hnc & Hne & Hnd) Hok']; subst.
    destruct fuel as [|fuel]; [cbn [length] in Hf; lia|].
    cbn [fold_right]. cbn [unmarshal_loop].
    destruct (s ++ comma :: fold_right (fun s acc => s ++ comma :: acc) tail segs) eqn:E.
    { exfalso. revert E. apply app_cons_nonempty. }
    rewrite <- E. rewrite cut_comma_app by exact Hnc. rewrite Hnd.
    rewrite IH; [|exact Hok'|cbn [length] in Hf; lia].
    cbn [length run fold_left]. reflexivity.
Qed.

Lemma join_as_fold segs last :
  join_comma (segs ++ [last]) = fold_right (fun s acc => s ++ comma :: acc) last segs.
Proof.
  induction segs as [|s segs IH]; [reflexivity|].
  cbn [app]. rewrite join_comma_cons by (destruct segs; discriminate). cbn [fold_right]. now rewrite IH.
Qed.

(* all segments comma-free: the tag is processed segment by segment *)
Lemma loop_all gk segs u fuel :
  Forall seg_ok segs -> (length segs < fuel)%nat ->
  unmarshal_loop fuel gk (join_comma segs) u = run gk segs u.
Proof.
  intros Hok Hf.
  destruct (rev segs) as [|last rsegs] eqn:E.
  - apply (f_equal (@rev _)) in E. rewrite rev_involutive in E. subst. cbn. apply loop_empty.
  - apply (f_equal (@rev _)) in E. rewrite rev_involutive in E. cbn [rev] in E. subst segs.
    apply Forall_app in Hok. destruct Hok as [Hpre Hlast]. inversion Hlast as [|? ? (Hnc & Hne & Hnd) _]; subst.
    rewrite app_length in Hf. cbn [length] in Hf.
    rewrite join_as_fold, loop_segs by (auto; lia).
    destruct (fuel - length (rev rsegs))%nat as [|f'] eqn:Ef; [lia|].
    cbn [unmarshal_loop]. destruct last as [|l0 last]; [congruence|].
    rewrite cut_comma_last by exact Hnc. rewrite Hnd. rewrite loop_empty.
    unfold run. now rewrite fold_left_app.
Qed.

(* ... and a final "def=" segment swallows the rest, commas included *)
Lemma loop_def gk segs d u fuel :
  Forall seg_ok segs -> (length segs < fuel)%nat ->
  unmarshal_loop fuel gk (join_comma (segs ++ [s_def ++ d])) u = set_def (run gk segs u) d.
Proof.
  intros Hok Hf.
  rewrite join_as_fold, loop_segs by (auto; lia).
  destruct (fuel - length segs)%nat as [|f'] eqn:Ef; [lia|].
  cbn [unmarshal_loop].
  destruct (cut_comma_def d) as (s & r & Hc & Hp).
  change (s_def ++ d) with (x64 :: (x65 :: x66 :: x3d :: d)) at 1. cbv iota.
  change (x64 :: (x65 :: x66 :: x3d :: d)) with (s_def ++ d).
  rewrite Hc, Hp. reflexivity.
Qed.

(* ---------- the pieces of a marshalled tag, one at a time ---------- *)
Lemma run_app gk a b u : run gk (a ++ b) u = run gk b (run gk a u).
Proof. unfold run. apply fold_left_app. Qed.

Definition B := Build_ufield.

Lemma piece_kind k u :
  1 <= k <= 18 ->
  run (gokind_of k) (opt_seg (kind_keyword k)) u = set_kind u (if k =? 14 then 5 else k).
Proof.
  intros Hk.
  assert (C : k = 1 \/ k = 2 \/ k = 3 \/ k = 4 \/ k = 5 \/ k = 6 \/ k = 7 \/ k = 8 \/ k = 9 \/ k = 10 \/ k = 11 \/
              k = 12 \/ k = 13 \/ k = 14 \/ k = 15 \/ k = 16 \/ k = 17 \/ k = 18) by lia.
  repeat (destruct C as [C|C]; [subst k; reflexivity|]). subst k. reflexivity.
Qed.

Lemma piece_number gk z n0 z0 c k j p p3 d :
  (0 <= z < 2147483648)%Z ->
  run gk [itoa z] (B n0 z0 c k j p p3 d) = B n0 z c k j p p3 d.
Proof. intros Hz. unfold run. cbn [fold_left]. now rewrite classify_number. Qed.

Lemma piece_card gk cd n z c k j p p3 d :
  1 <= cd <= 3 ->
  run gk (opt_seg (card_keyword cd)) (B n z c k j p p3 d) = B n z cd k j p p3 d.
Proof.
  intros H. assert (C : cd = 1 \/ cd = 2 \/ cd = 3) by lia.
  destruct C as [C|[C|C]]; subst cd; reflexivity.
Qed.

Lemma piece_packed gk b n z c k j p p3 d :
  run gk (if_seg b s_packed) (B n z c k j p p3 d) = B n z c k j (p || b) p3 d.
Proof. destruct b; cbn; [now rewrite orb_true_r|now rewrite orb_false_r]. Qed.

Lemma piece_name gk nm n z c k j p p3 d :
  run gk [s_name ++ nm] (B n z c k j p p3 d) = B nm z c k j p p3 d.
Proof. unfold run. cbn [fold_left]. now rewrite classify_name. Qed.

Lemma piece_json gk e js n z c k j p p3 d :
  run gk (if_seg e (s_json ++ js)) (B n z c k j p p3 d)
  = B n z c k (if e && negb (str_eqb js (camel (basename n))) then Some js else j) p p3 d.
Proof.
  destruct e; [|reflexivity].
  unfold run. cbn [if_seg fold_left]. rewrite classify_json. cbn [apply_seg u_name B].
  destruct (str_eqb js (camel (basename n))); reflexivity.
Qed.

Lemma piece_proto3 gk b n z c k j p p3 d :
  run gk (if_seg b s_proto3) (B n z c k j p p3 d) = B n z c k j p (p3 || b) d.
Proof. destruct b; cbn; [now rewrite orb_true_r|now rewrite orb_false_r]. Qed.

Lemma piece_enum gk e en n z c k j p p3 d :
  run gk (if_seg e (s_enum ++ en)) (B n z c k j p p3 d) = B n z c (if e then 14 else k) j p p3 d.
Proof. destruct e; reflexivity. Qed.

Lemma piece_oneof gk b u : run gk (if_seg b s_oneof) u = u.
Proof. destruct b; reflexivity. Qed.

(* ---------- well-formedness of the segments ---------- *)
Lemma seg_ok_closed s :
  forallb (fun b => negb (beqb b comma)) s = true -> s <> [] -> has_prefix s_def s = false -> seg_ok s.
Proof. intros. split; [assumption|split; assumption]. Qed.

Lemma seg_ok_kind k : Forall seg_ok (opt_seg (kind_keyword k)).
Proof.
  unfold kind_keyword.
  destruct k as [|p]; [constructor|].
  do 5 (try destruct p as [p|p|]); cbn [opt_seg]; repeat constructor; try discriminate.
Qed.

Lemma seg_ok_card c : Forall seg_ok (opt_seg (card_keyword c)).
Proof.
  unfold card_keyword.
  destruct c as [|p]; [constructor|].
  do 2 (try destruct p as [p|p|]); cbn [opt_seg]; repeat constructor; try discriminate.
Qed.

Lemma seg_ok_number z : (0 <= z < 2147483648)%Z -> seg_ok (itoa z).
Proof.
  intros Hz. unfold itoa.
  assert (E : itoa_n (Z.to_N z) = match z with Zneg p => x2d :: itoa_n (N.pos p) | _ => itoa_n (Z.to_N z) end).
  { destruct z; try reflexivity. lia. }
  rewrite <- E. clear E.
  assert (Hn : Z.to_N z < 2^32) by (change (2^32) with 4294967296; lia).
  destruct (itoa_n_spec _ Hn) as (Hd & Hne & _).
  split; [now apply digits_no_comma|]. split; [exact Hne|].
  unfold s_def. apply digits_first; [exact Hd|exact Hne|reflexivity].
Qed.

Lemma seg_ok_if b s : seg_ok s -> Forall seg_ok (if_seg b s).
Proof. destruct b; cbn [if_seg]; [constructor; [assumption|constructor]|constructor]. Qed.

Lemma seg_ok_prefixed (p s : str) :
  forallb (fun b => negb (beqb b comma)) p = true -> no_comma s ->
  match p with b :: _ => beqb x64 b = false | [] => False end ->
  seg_ok (p ++ s).
Proof.
  intros Hp Hs Hb. split; [now apply no_comma_app|]. split.
  - destruct p; [contradiction|discriminate].
  - destruct p as [|b p]; [contradiction|]. unfold s_def. cbn [app has_prefix]. now rewrite Hb.
Qed.

Lemma join_length segs : Forall (fun s : str => s <> []) segs -> (length segs <= length (join_comma segs))%nat.
Proof.
  induction 1 as [|s r Hs _ IH]; [reflexivity|].
  destruct r as [|s2 r].
  - cbn [join_comma length]. destruct s; [congruence|cbn [length]; lia].
  - rewrite join_comma_cons by discriminate. rewrite app_length. cbn [length] in *. lia.
Qed.

(* ---------- domain and round trip ---------- *)
Definition no_dot (s : str) : Prop := forallb (fun b => negb (beqb b dot)) s = true.

Lemma basename_aux_no_dot s acc : no_dot s -> basename_aux s acc = acc ++ s.
Proof.
  unfold no_dot. revert acc. induction s as [|b s IH]; intros acc H.
  - cbn. now rewrite app_nil_r.
  - cbn [forallb] in H. apply andb_prop in H. destruct H as [H1 H2]. apply negb_true_iff in H1.
    cbn [basename_aux]. rewrite H1. rewrite IH by exact H2. now rewrite <- app_assoc.
Qed.
Lemma basename_no_dot s : no_dot s -> basename s = s.
Proof. intros H. unfold basename. now rewrite basename_aux_no_dot. Qed.

Definition json_emitted (f : tfield) : bool :=
  negb (str_eqb (f_json f) []) && negb (str_eqb (f_json f) (emitted_name f)) && negb (f_ext f).

Record tag_domain (f : tfield) : Prop := {
  d_kind : 1 <= f_kind f <= 18;
  d_enum : f_kind f = 14 -> f_enum f <> [];
  d_num : (0 <= f_number f < 2147483648)%Z;
  d_card : 1 <= f_card f <= 3;
  d_name : no_comma (f_name f) /\ no_dot (f_name f);
  d_group : f_kind f = 10 -> no_comma (f_msgname f) /\ no_dot (f_msgname f) /\ to_lower (f_msgname f) = f_name f;
  d_json_nc : no_comma (f_json f);
  d_enum_nc : no_comma (f_enum f);
  d_ext : f_ext f = false;
  (* the JSON name is the default one, or a custom one that Marshal writes and Unmarshal keeps *)
  d_json : f_json f = camel (f_name f) \/
           (f_json f <> [] /\ f_json f <> emitted_name f /\ f_json f <> camel (basename (emitted_name f)));
  d_packed : f_packed f = true -> f_card f = 3 /\ packable (f_kind f) = true;
  (* FJ2: a proto3 repeated packable field that is NOT packed does not survive *)
  d_proto3_packed : f_proto3 f = true -> f_card f = 3 -> packable (f_kind f) = true -> f_packed f = true
}.

Definition segs_nodef (f : tfield) : list str :=
  opt_seg (kind_keyword (f_kind f))
  ++ [itoa (f_number f)]
  ++ opt_seg (card_keyword (f_card f))
  ++ if_seg (f_packed f) s_packed
  ++ [s_name ++ emitted_name f]
  ++ if_seg (json_emitted f) (s_json ++ f_json f)
  ++ if_seg (f_proto3 f && negb (f_ext f)) s_proto3
  ++ if_seg ((f_kind f =? 14) && negb (str_eqb (f_enum f) [])) (s_enum ++ f_enum f)
  ++ if_seg (f_oneof f) s_oneof.

Lemma segments_split f :
  segments f = segs_nodef f ++ match f_def f with Some d => [s_def ++ d] | None => [] end.
Proof. unfold segments, segs_nodef, json_emitted. now rewrite <- !app_assoc. Qed.

Lemma emitted_name_ok f : tag_domain f -> no_comma (emitted_name f) /\ no_dot (emitted_name f).
Proof.
  intros D. unfold emitted_name. destruct (f_kind f =? 10) eqn:E.
  - apply N.eqb_eq in E. destruct (d_group f D E) as (H1 & H2 & _). now split.
  - exact (d_name f D).
Qed.

Lemma segs_nodef_ok f : tag_domain f -> Forall seg_ok (segs_nodef f).
Proof.
  intros D. unfold segs_nodef.
  apply Forall_app; split; [apply seg_ok_kind|].
  apply Forall_app; split; [constructor; [|constructor]; apply seg_ok_number; exact (d_num f D)|].
  apply Forall_app; split; [apply seg_ok_card|].
  apply Forall_app; split; [apply seg_ok_if; apply seg_ok_closed; [reflexivity|discriminate|reflexivity]|].
  apply Forall_app; split.
  { constructor; [|constructor]. apply seg_ok_prefixed; [reflexivity| |reflexivity].
    exact (proj1 (emitted_name_ok f D)). }
  apply Forall_app; split.
  { apply seg_ok_if. apply seg_ok_prefixed; [reflexivity| |reflexivity]. exact (d_json_nc f D). }
  apply Forall_app; split; [apply seg_ok_if; apply seg_ok_closed; [reflexivity|discriminate|reflexivity]|].
  apply Forall_app; split.
  { apply seg_ok_if. apply seg_ok_prefixed; [reflexivity| |reflexivity]. exact (d_enum_nc f D). }
  apply seg_ok_if. apply seg_ok_closed; [reflexivity|discriminate|reflexivity].
Qed.

(* the state after all segments but "def=" *)
Definition after (f : tfield) : ufield :=
  B (emitted_name f) (f_number f) (f_card f) (f_kind f)
    (if json_emitted f && negb (str_eqb (f_json f) (camel (basename (emitted_name f)))) then Some (f_json f) else None)
    (f_packed f) (f_proto3 f) None.

Lemma run_segs_nodef f :
  tag_domain f -> run (gokind_of (f_kind f)) (segs_nodef f) u_empty = after f.
Proof.
  intros D. unfold segs_nodef. rewrite !run_app.
  rewrite piece_kind by exact (d_kind f D).
  unfold u_empty, set_kind. cbn [u_name u_number u_card u_kind u_json u_packed u_proto3 u_def].
  change (Build_ufield) with B.
  rewrite piece_number by exact (d_num f D).
  rewrite piece_card by exact (d_card f D).
  rewrite piece_packed, piece_name, piece_json, piece_proto3, piece_enum, piece_oneof.
  unfold after. rewrite (d_ext f D). cbn [negb orb]. rewrite andb_true_r.
  f_equal.
  destruct (f_kind f =? 14) eqn:E; cbn [andb].
  - apply N.eqb_eq in E. pose proof (d_enum f D E) as Hne.
    destruct (str_eqb (f_enum f) []) eqn:E2; [apply str_eqb_eq in E2; congruence|]. cbn [negb]. now symmetry.
  - reflexivity.
Qed.

Theorem tag_unmarshal_marshal f :
  tag_domain f ->
  let u := unmarshal (gokind_of (f_kind f)) (marshal f) in
  u_name u = f_name f /\ u_number u = f_number f /\ u_card u = f_card f /\ u_kind u = f_kind f /\
  u_json_name u = f_json f /\ u_is_packed u = f_packed f /\ u_proto3 u = f_proto3 f /\ u_def u = f_def f.
Proof.
  intros D u.
  assert (Hloop : unmarshal_loop (S (length (marshal f))) (gokind_of (f_kind f)) (marshal f) u_empty
                  = match f_def f with Some d => set_def (after f) d | None => after f end).
  { unfold marshal. rewrite segments_split.
    pose proof (segs_nodef_ok f D) as Hok.
    assert (Hne : Forall (fun s : str => s <> []) (segs_nodef f)).
    { eapply Forall_impl; [|exact Hok]. now intros a (_ & H & _). }
    destruct (f_def f) as [d|].
    - rewrite loop_def; [now rewrite run_segs_nodef|exact Hok|].
      assert (Hne' : Forall (fun s : str => s <> []) (segs_nodef f ++ [s_def ++ d])).
      { apply Forall_app. split; [exact Hne|]. constructor; [discriminate|constructor]. }
      apply join_length in Hne'. rewrite app_length in Hne'. cbn [length] in Hne'. lia.
    - rewrite app_nil_r. rewrite loop_all; [now rewrite run_segs_nodef|exact Hok|].
      apply join_length in Hne. lia. }
  subst u. unfold unmarshal. rewrite Hloop. clear Hloop.
  destruct (emitted_name_ok f D) as [Hen_nc Hen_nd].
  destruct (d_name f D) as [Hn_nc Hn_nd].
  (* the name after [finish] *)
  assert (Hname : forall d0, u_name (finish (B (emitted_name f) (f_number f) (f_card f) (f_kind f)
              (if json_emitted f && negb (str_eqb (f_json f) (camel (basename (emitted_name f)))) then Some (f_json f) else None)
              (f_packed f) (f_proto3 f) d0)) = f_name f).
  { intros d0. unfold finish, emitted_name. cbn [u_kind B].
    destruct (f_kind f =? 10) eqn:E; cbn [u_name B]; [|reflexivity].
    apply N.eqb_eq in E. now destruct (d_group f D E) as (_ & _ & H). }
  assert (Hrest : forall d0, let v := finish (B (emitted_name f) (f_number f) (f_card f) (f_kind f)
              (if json_emitted f && negb (str_eqb (f_json f) (camel (basename (emitted_name f)))) then Some (f_json f) else None)
              (f_packed f) (f_proto3 f) d0) in
            u_number v = f_number f /\ u_card v = f_card f /\ u_kind v = f_kind f /\
            u_json_name v = f_json f /\ u_is_packed v = f_packed f /\ u_proto3 v = f_proto3 f /\ u_def v = d0).
  { intros d0 v.
    assert (Hv : u_number v = f_number f /\ u_card v = f_card f /\ u_kind v = f_kind f /\
                 u_json v = (if json_emitted f && negb (str_eqb (f_json f) (camel (basename (emitted_name f)))) then Some (f_json f) else None) /\
                 u_packed v = f_packed f /\ u_proto3 v = f_proto3 f /\ u_def v = d0).
    { subst v. unfold finish. cbn [u_kind B]. destruct (f_kind f =? 10); cbn; repeat split; reflexivity. }
    destruct Hv as (H1 & H2 & H3 & H4 & H5 & H6 & H7).
    repeat split; try assumption.
    - (* JSON name *)
      unfold u_json_name. rewrite H4. rewrite (Hname d0 : u_name v = f_name f).
      rewrite (basename_no_dot _ Hn_nd). rewrite (basename_no_dot _ Hen_nd).
      destruct (d_json f D) as [Hdef|(Hc1 & Hc2 & Hc3)].
      + destruct (json_emitted f && negb (str_eqb (f_json f) (camel (emitted_name f)))); [reflexivity|now symmetry].
      + rewrite (basename_no_dot _ Hen_nd) in Hc3.
        unfold json_emitted. rewrite (d_ext f D).
        destruct (str_eqb (f_json f) []) eqn:E1; [apply str_eqb_eq in E1; congruence|].
        destruct (str_eqb (f_json f) (emitted_name f)) eqn:E2; [apply str_eqb_eq in E2; congruence|].
        destruct (str_eqb (f_json f) (camel (emitted_name f))) eqn:E3; [apply str_eqb_eq in E3; congruence|].
        reflexivity.
    - (* IsPacked *)
      unfold u_is_packed, u_packed_feature. rewrite H2, H3, H5, H6.
      destruct (f_packed f) eqn:Ep.
      + destruct (d_packed f D Ep) as [Hc Hk]. rewrite Hc, Hk. reflexivity.
      + destruct (f_card f =? 3) eqn:Ec; [|reflexivity].
        destruct (packable (f_kind f)) eqn:Ek; [|reflexivity].
        destruct (f_proto3 f) eqn:E3; [|reflexivity].
        apply N.eqb_eq in Ec. pose proof (d_proto3_packed f D E3 Ec Ek). congruence. }
  destruct (f_def f) as [d|].
  - unfold set_def, after. cbn [u_name u_number u_card u_kind u_json u_packed u_proto3 B].
    split; [apply Hname|]. apply (Hrest (Some d)).
  - unfold after. split; [apply Hname|]. apply (Hrest None).
Qed.

(* ---------- the derived field of a struct-tag-only message ---------- *)
Lemma camel_basename_derived parent s : no_dot s -> basename (parent ++ dot :: s) = s.
Proof.
  intros Hs. unfold basename.
  assert (G : forall p acc, basename_aux (p ++ dot :: s) acc = s).
  { induction p as [|b p IH]; intros acc.
    - cbn [app basename_aux]. rewrite beqb_refl. now rewrite basename_aux_no_dot.
    - cbn [app basename_aux]. destruct (beqb b dot); apply IH. }
  apply G.
Qed.

Theorem derived_field_matches_tag parent sh f :
  tag_domain f -> elem_kind sh = gokind_of (f_kind f) ->
  let u := derive_field parent sh (marshal f) in
  u_name u = parent ++ dot :: f_name f /\ u_number u = f_number f /\ u_card u = f_card f /\ u_kind u = f_kind f /\
  u_json_name u = f_json f /\ u_is_packed u = f_packed f /\ u_proto3 u = f_proto3 f /\ u_def u = f_def f.
Proof.
  intros D Hk u.
  pose proof (tag_unmarshal_marshal f D) as H. cbv zeta in H.
  destruct H as (H1 & H2 & H3 & H4 & H5 & H6 & H7 & H8).
  destruct (d_name f D) as [_ Hnd].
  subst u. unfold derive_field. rewrite Hk.
  set (v := unmarshal (gokind_of (f_kind f)) (marshal f)) in *.
  cbn [u_name u_number u_card u_kind u_def u_proto3].
  rewrite H1, (basename_no_dot _ Hnd).
  repeat split; try assumption.
  unfold u_json_name in *. cbn [u_json u_name].
  rewrite camel_basename_derived by exact Hnd.
  rewrite H1, (basename_no_dot _ Hnd) in H5. exact H5.
Qed.

(* FJ2: outside the domain, a proto3 repeated scalar that is not packed comes back packed *)
Definition fj2_witness : tfield :=
  {| f_kind := 5; f_number := 1%Z; f_card := 3; f_packed := false; f_name := [x66]; f_msgname := [];
     f_json := [x66]; f_ext := false; f_proto3 := true; f_enum := []; f_oneof := false; f_def := None |}.
Theorem proto3_unpacked_not_preserved :
  u_is_packed (unmarshal (gokind_of (f_kind fj2_witness)) (marshal fj2_witness)) <> f_packed fj2_witness.
Proof. vm_compute. discriminate. Qed.
